import Wee.Proofs.RegexLemmas
import Wee.Props.C11
import Wee.Props.C14
import Wee.Props.C14Total
/-!
# The hand-written FEN recogniser implements `FEN_REGEX` (trusted-base reduction for C11 / C14)

Rust: `weechess-core/src/notation.rs`, `mod fen`:

```rust
const FEN_REGEX: &str = r"^(((?:[rnbqkpRNBQKP1-8]+\/){7})[rnbqkpRNBQKP1-8]+)\s([b|w])\s(-|([K|Q|k|q]{1,4}))\s(-|[a-h][1-8])\s(\d+)\s(\d+)$";
fn try_from_notation(notation: &str) -> Result<State, ()> {
    let re = Regex::new(FEN_REGEX).unwrap();
    let groups = re.captures(notation).ok_or(())?;
    let board = Board::try_parse(&groups[1])?;
    let turn_to_move = match &groups[3] { "w" => Color::White, "b" => Color::Black, _ => return Err(()) };
    let castle_rights = match &groups[4] { "-" => ArrayMap::filled(CastleRights::NONE), s => ArrayMap::try_parse(s)? };
    let en_passant_target = match &groups[6] { "-" => None, s => Some(Square::try_from(s)?) };
    let clock = Clock { halfmove_clock: groups[7].parse().map_err(|_| ())?, fullmove_number: groups[8].parse().map_err(|_| ())? };
    Ok(State::new(board, turn_to_move, castle_rights, en_passant_target, clock))
}
```

The model `parseFenChars` (`Wee/Model/Fen.lean`) merges the regex gate and the field parsers into one hand-written
recogniser (`splitFields` at every `\s` character, Boolean checks per field).  Until now the only tie between that
recogniser and the literal was `fenRegex_is_modelled` ("the literal is the one the recogniser was written for").
Here that tie is a theorem:

* `FenRegex_parsed` — the literal extracted from the Rust source (`Gen.fenRegex`) parses, by the regex-syntax parser
  of `Wee/Spec/Regex.lean`, to the syntax tree `Spec.fenAst`;
* `FenRegex_unique`, `FenRegex_captures_unique` — under the standard relational semantics `Spec.M` a text is matched
  by `fenAst` in at most one way: all nine groups are determined by the text, so the disambiguation policy of the
  regex engine (leftmost-first, greedy) cannot matter;
* `FenRegex_captures` — `Regex::captures` returns exactly what the decision procedure `Spec.fenCaptures` computes;
* `fenPipeline` — `try_from_notation` transcribed line by line over that semantics (`re.captures`, `&groups[i]`
  with its panic when a group did not participate, the five field parsers);
* **`FenRegex_recogniser`** — `parseFenChars checked cs = fenPipeline nd checked cs` for every list of characters,
  both build profiles;
* `C14_fen_pipeline`, `C14_fen_fromFen_pipeline`, `C11_parse_write_pipeline`, `C11_write_parse_pipeline` — C14 and C11
  restated over `fenPipeline`.

## What is still assumed about the `regex` crate

1. *Syntax*: `Regex::new` reads the literal as `Spec.parseRegex` does (the parser accepts only the constructs the
   literal uses and rejects everything else, so there is no room for a second reading inside the subset).
2. *Semantics*: `captures` returns `None` iff no substring matches in the sense of `Spec.M`, and otherwise the groups of
   SOME match in that sense (which one is irrelevant by `FenRegex_unique`).  Unicode mode, no flags.
3. *Tables*: `\s` is `White_Space` (`Spec.isWhiteSpace`, equal to the model's `isRegexSpace` by `isWhiteSpace_eq`);
   `\d` is a set `nd` of which only `NdAssumptions` is used: it contains the ASCII digits and no white space
   (true of the general category `Nd`).
-/
namespace Wee
open Wee.Spec

/-! ## 1. the literal and its syntax tree -/

/-- the literal `FEN_REGEX`, as re-extracted from `notation.rs` on every run, denotes `fenAst` -/
theorem FenRegex_parsed : parseRegex Gen.fenRegex = some fenAst := parse_fenRegex

/-- the `\s` table of the regex spec is the one the model's `splitFields` uses -/
theorem FenRegex_space (c : Char) : isWhiteSpace c = isRegexSpace c := isWhiteSpace_eq c

/-- the parser rejects what is outside the subset instead of re-interpreting it -/
example : parseRegex "a*" = none ∧ parseRegex "a." = none ∧ parseRegex "(?i)a" = none ∧ parseRegex "[^a]" = none ∧
    parseRegex "[a&&b]" = none ∧ parseRegex "a+?" = none ∧ parseRegex "\\w" = none ∧ parseRegex "(a" = none ∧
    parseRegex "a)" = none := by decide

example : parseRegex "^(a|[b-d]{2,3})\\s$" =
    some (.cat .bol (.cat (.group 1 (.alt (.chr 'a') (.rep (.cls [.range 'b' 'd']) 2 (some 3)))) (.cat .space .eol))) := by
  decide

/-- the semantics is the usual one: un-anchored search (`b` is found inside `abc`), anchors tie a match to the ends of
the text, `+` needs one iteration, and a group inside a repetition keeps its last iteration (`(a|b)+` on `ab`: group 1 = `b`) -/
example (P : PerlClasses) :
    IsMatch P (.chr 'b') ['a', 'b', 'c'] ∧ ¬ IsMatch P (.cat .bol (.chr 'b')) ['a', 'b', 'c'] ∧
    ¬ IsMatch P (.rep (.chr 'a') 1 none) [] ∧
    Captures P (.rep (.group 1 (.alt (.chr 'a') (.chr 'b'))) 1 none) ['a', 'b']
      (fun i => if i = 0 then some ['a', 'b'] else if i = 1 then some ['b'] else none) := by
  refine ⟨⟨_, ['a'], ['b'], ['c'], [], rfl, .chr, rfl⟩, ?_, ?_, ?_⟩
  · rintro ⟨g, pre, s, post, caps, ht, hm, -⟩
    obtain ⟨s₁, s₂, c₁, c₂, rfl, rfl, h₁, h₂⟩ := M_cat.1 hm
    obtain ⟨rfl, rfl, rfl⟩ := M_bol.1 h₁
    obtain ⟨rfl, rfl⟩ := M_chr.1 h₂
    simp at ht
  · rintro ⟨g, pre, s, post, caps, ht, hm, -⟩
    have hr : IsCharRx P (.chr 'a') (fun c => c == 'a') := fun pre s post c => by
      rw [M_chr]; constructor
      · rintro ⟨rfl, rfl⟩; exact ⟨'a', rfl, by simp, rfl⟩
      · rintro ⟨ch, rfl, h, rfl⟩; simp at h; subst h; exact ⟨rfl, rfl⟩
    have := ((M_rep_char hr).1 hm).1
    have hs : s = [] := by
      have := congrArg List.length ht; simp at this; exact List.eq_nil_of_length_eq_zero (by omega)
    subst hs; simp at this
  · refine ⟨[], ['a', 'b'], [], [(1, ['a']), (1, ['b'])], rfl, ?_, ?_⟩
    · exact .repCons (s₁ := ['a']) (s₂ := ['b']) (c₁ := [(1, ['a'])]) (c₂ := [(1, ['b'])]) (by simp)
        (.group (.altL .chr))
        (.repCons (s₁ := ['b']) (s₂ := []) (c₁ := [(1, ['b'])]) (c₂ := []) (by simp) (.group (.altR .chr)) .repNil)
    · funext i
      by_cases h0 : i = 0
      · subst h0; simp [groupOf]
      · by_cases h1 : i = 1
        · subst h1; simp [groupOf]
        · have : (1 == i) = false := by simp; omega
          have : (0 == i) = false := by simp; omega
          simp [groupOf, *]

/-! ## 2. what is assumed of `\d` -/

/-- the only facts about the Unicode general category `Nd` (what `\d` matches) that the theorems use -/
structure NdAssumptions (nd : Char → Bool) : Prop where
  /-- `0`–`9` are decimal digits -/
  ascii : ∀ c, c.isDigit = true → nd c = true
  /-- no decimal digit is white space -/
  not_space : ∀ c, nd c = true → isWhiteSpace c = false

/-- a stand-in for `Nd` for the examples: ASCII, Arabic-Indic (U+0660–0669) and full-width (U+FF10–FF19) digits -/
def ndSample (c : Char) : Bool :=
  c.isDigit || (0x660 ≤ c.toNat && c.toNat ≤ 0x669) || (0xFF10 ≤ c.toNat && c.toNat ≤ 0xFF19)

/-- the assumptions are satisfiable, also by a set with non-ASCII digits -/
theorem ndSample_ok : NdAssumptions ndSample := by
  constructor
  · intro c h; simp [ndSample, h]
  · intro c h
    simp only [ndSample, Bool.or_eq_true, Bool.and_eq_true, decide_eq_true_eq] at h
    rcases h with (h | h) | h
    · rw [isWhiteSpace_eq]; exact FenL.not_space_of_isDigit c h
    · rw [isWhiteSpace_eq]; simp only [isRegexSpace]; simp; omega
    · rw [isWhiteSpace_eq]; simp only [isRegexSpace]; simp; omega

example : NdAssumptions Char.isDigit :=
  ⟨fun _ h => h, fun c h => by rw [isWhiteSpace_eq]; exact FenL.not_space_of_isDigit c h⟩

/-! ## 3. matches are unique; the groups are a function of the text -/

/-- **uniqueness of the decomposition**: whatever the surrounding text, two matches of `fenAst` on the same
characters record the same capture events — the same text for each of the eight groups (and group 5 takes part in
both or in neither).  Moreover a match is always the whole text (`pre = post = []`, from the anchors). -/
theorem FenRegex_unique (nd : Char → Bool) (hnd : NdAssumptions nd) (pre s post : List Char) (caps₁ caps₂ : Caps)
    (h₁ : M (unicode nd) fenAst pre s post caps₁) (h₂ : M (unicode nd) fenAst pre s post caps₂) :
    caps₁ = caps₂ ∧ pre = [] ∧ post = [] := by
  obtain ⟨hpre, hpost, G₁, hG₁, rfl⟩ := (M_fenAst_iff_captures hnd.not_space).1 h₁
  obtain ⟨-, -, G₂, hG₂, rfl⟩ := (M_fenAst_iff_captures hnd.not_space).1 h₂
  rw [hG₁] at hG₂; cases hG₂
  exact ⟨rfl, hpre, hpost⟩

/-- **`Regex::captures` on `FEN_REGEX`**: `g` is a possible result for the text `cs` iff the decision procedure
`fenCaptures` (six white-space-separated fields, each checked against its group) accepts `cs` and `g` lists its
fields: `g 0 = cs`, `g 1` board, `g 2` the first seven ranks with their `/`, `g 3` side, `g 4` castling,
`g 5` castling unless it is `-` (then the group did not participate), `g 6` en passant, `g 7`, `g 8` counters. -/
theorem FenRegex_captures (nd : Char → Bool) (hnd : NdAssumptions nd) (cs : List Char) (g : Nat → Option (List Char)) :
    Captures (unicode nd) fenAst cs g ↔ ∃ G, fenCaptures nd cs = some G ∧ g = G.groups cs :=
  captures_fenAst_iff hnd.not_space cs g

/-- the result of `captures` is unique -/
theorem FenRegex_captures_unique (nd : Char → Bool) (hnd : NdAssumptions nd) (cs : List Char)
    (g₁ g₂ : Nat → Option (List Char)) (h₁ : Captures (unicode nd) fenAst cs g₁) (h₂ : Captures (unicode nd) fenAst cs g₂) :
    g₁ = g₂ := by
  obtain ⟨G₁, hG₁, rfl⟩ := (FenRegex_captures nd hnd cs g₁).1 h₁
  obtain ⟨G₂, hG₂, rfl⟩ := (FenRegex_captures nd hnd cs g₂).1 h₂
  rw [hG₁] at hG₂; cases hG₂; rfl

/-- so `reCaptures` (defined by choice among the possible results) is computed by `fenCaptures` -/
theorem FenRegex_reCaptures (nd : Char → Bool) (hnd : NdAssumptions nd) (cs : List Char) :
    reCaptures (unicode nd) fenAst cs = (fenCaptures nd cs).map (·.groups cs) :=
  reCaptures_fenAst hnd.not_space cs

/-- `is_match` is decided by `fenCaptures` -/
theorem FenRegex_isMatch (nd : Char → Bool) (hnd : NdAssumptions nd) (cs : List Char) :
    IsMatch (unicode nd) fenAst cs ↔ (fenCaptures nd cs).isSome = true := by
  constructor
  · rintro ⟨g, hg⟩
    obtain ⟨G, hG, -⟩ := (FenRegex_captures nd hnd cs g).1 hg
    rw [hG]; rfl
  · intro h
    cases hG : fenCaptures nd cs with
    | none => rw [hG] at h; cases h
    | some G => exact ⟨_, (FenRegex_captures nd hnd cs _).2 ⟨G, hG, rfl⟩⟩

/-! ### non-vacuity: the start position matches, with these groups -/

/-- the six fields of `Fen::DEFAULT` -/
def defaultGroups : FenGroups :=
  ⟨"rnbqkbnr/pppppppp/8/8/8/8/PPPPPPPP/RNBQKBNR".toList, ['w'], "KQkq".toList, ['-'], ['0'], ['1']⟩

set_option maxRecDepth 1000000 in
example : fenCaptures ndSample Gen.fenDefault.toList = some defaultGroups := by decide +kernel

set_option maxRecDepth 1000000 in
/-- group 2 of the start position; group 5 participates -/
example : defaultGroups.groups [] 2 = some "rnbqkbnr/pppppppp/8/8/8/8/PPPPPPPP/".toList ∧
    defaultGroups.groups [] 5 = some "KQkq".toList := by decide +kernel

/-- `Fen::DEFAULT` is matched by `FEN_REGEX` (through the theorem, not by evaluation) -/
example : IsMatch (unicode ndSample) fenAst Gen.fenDefault.toList :=
  (FenRegex_isMatch ndSample ndSample_ok _).2 (by
    have : fenCaptures ndSample Gen.fenDefault.toList = some defaultGroups := by
      set_option maxRecDepth 1000000 in decide +kernel
    rw [this]; rfl)

set_option maxRecDepth 1000000 in
/-- the class `[b|w]` lets `|` through as side to move and `[K|Q|k|q]` lets `|` through among the castling letters; a non-ASCII
digit passes `\d+`; a second space, a tab inside a field, a ninth rank, a trailing newline do not match -/
example :
    (fenCaptures ndSample "8/8/8/8/8/8/8/8 | K|q - 0 1".toList).isSome = true ∧
    (fenCaptures ndSample "8/8/8/8/8/8/8/8\tw - e3　0\u00851".toList).isSome = true ∧
    (fenCaptures ndSample "8/8/8/8/8/8/8/8 w - - ٣ 1".toList).isSome = true ∧
    (fenCaptures ndSample "8/8/8/8/8/8/8/8 w - -  0 1".toList).isSome = false ∧
    (fenCaptures ndSample "8/8/8/8/8/8/8/8/8 w - - 0 1".toList).isSome = false ∧
    (fenCaptures ndSample "8/8/8/8/8/8/8/8 w - - 0 1\n".toList).isSome = false ∧
    (fenCaptures ndSample "8/8/8/8/8/8/8/8 w KQkqK - 0 1".toList).isSome = false ∧
    (fenCaptures ndSample " 8/8/8/8/8/8/8/8 w - - 0 1".toList).isSome = false := by decide +kernel

/-! ## 4. `try_from_notation`, line by line, over the regex semantics -/

namespace FenRx

/-- `Result<_, ()>` with `?`, plus the panic outcome -/
scoped instance : Monad Res where
  pure := .ok
  bind r f := match r with
    | .ok a => f a
    | .err => .err
    | .panic => .panic

/-- `.ok_or(())` -/
def okOr {α : Type} : Option α → Res α
  | some a => .ok a
  | none => .err

/-- `&groups[i]` (`impl Index<usize> for Captures`): panics when group `i` did not participate in the match -/
def index (groups : Nat → Option (List Char)) (i : Nat) : Res (List Char) :=
  match groups i with
  | some s => .ok s
  | none => .panic

/-- `Board::try_parse(s)` (the model's `parseBoardCells`, then `Board::from(&map)`) -/
def boardTryParse (checked : Bool) (s : List Char) : Res PieceMap :=
  match parseBoardCells checked s 0 (List.replicate 64 Option.none) with
  | .ok cells => .ok (piecesOfCells cells)
  | .err => .err
  | .panic => .panic

/-- `match &groups[3] { "w" => Color::White, "b" => Color::Black, _ => return Err(()) }` -/
def turnOf : List Char → Res Color
  | ['w'] => .ok .white
  | ['b'] => .ok .black
  | _ => .err

/-- `match &groups[4] { "-" => ArrayMap::filled(CastleRights::NONE), s => ArrayMap::try_parse(s)? }` -/
def rightsOf : List Char → Res (CastleRights × CastleRights)
  | ['-'] => .ok (CastleRights.noRights, CastleRights.noRights)
  | s => okOr (parseCastle s)

/-- `match &groups[6] { "-" => None, s => Some(Square::try_from(s)?) }` (`parseSquare` is the model of
`Square::try_from(&str)` in `Model/San.lean`: byte length 2, `File::from_char`, `Rank::from_char`) -/
def epOf : List Char → Res (Option Nat)
  | ['-'] => .ok Option.none
  | s => match parseSquare s with
    | some sq => .ok (some sq)
    | Option.none => .err

/-- `groups[i].parse().map_err(|_| ())?` at type `usize` -/
def clockOf (s : List Char) : Res Nat := okOr (parseUsize s)

end FenRx

open FenRx in
/-- **`Fen::try_from_notation`, transcribed**: the regex with its standard semantics (`reCaptures`: any result the
semantics allows, `None` when there is no match), then the field parsers in the order of `notation.rs`.
`nd` is the set matched by `\d`, `checked` the build profile (overflow checks). -/
noncomputable def fenPipeline (nd : Char → Bool) (checked : Bool) (text : List Char) : Res State := do
  let groups ← okOr (reCaptures (unicode nd) fenAst text)      -- let groups = re.captures(notation).ok_or(())?;
  let board ← index groups 1 >>= boardTryParse checked          -- let board = Board::try_parse(&groups[1])?;
  let turn ← index groups 3 >>= turnOf                          -- let turn_to_move = match &groups[3] { … };
  let rights ← index groups 4 >>= rightsOf                      -- let castle_rights = match &groups[4] { … };
  let ep ← index groups 6 >>= epOf                              -- let en_passant_target = match &groups[6] { … };
  let half ← index groups 7 >>= clockOf                         -- halfmove_clock: groups[7].parse().map_err(|_| ())?,
  let full ← index groups 8 >>= clockOf                         -- fullmove_number: groups[8].parse().map_err(|_| ())?,
  pure { pieces := board, turn := turn, castleW := rights.1, castleB := rights.2, ep := ep,
         halfmove := half, fullmove := full }                   -- Ok(State::new(board, turn_to_move, …))

/-! ## 5. the main theorem -/

namespace FenRx

theorem rightsOf_eq (castle : List Char) : rightsOf castle = okOr (FenL.rightsOf castle) := by
  unfold rightsOf FenL.rightsOf
  split
  · rfl
  · rename_i hne
    rw [if_neg]
    · simpa using hne

theorem epOf_eq (ep : List Char) (h : FenL.epOk ep = true) : epOf ep = .ok (FenL.epOf ep) := by
  by_cases hd : ep = ['-']
  · subst hd; rfl
  · obtain ⟨h1, h2⟩ := parseSquare_of_epOk ep h hd
    unfold epOf
    split
    · rename_i h; exact absurd rfl hd
    · rw [h1]
      cases he : FenL.epOf ep with
      | none => rw [he] at h2; cases h2
      | some sq => rfl

/-- the part of the recogniser after its gate is the field-parser part of the pipeline -/
theorem afterGate_eq (checked : Bool) (cs : List Char) (G : FenGroups) (hs : FenL.sideOk G.side = true)
    (he : FenL.epOk G.ep = true) :
    afterGate checked G.board G.side G.castle G.ep G.half G.full =
      (do
        let groups := G.groups cs
        let board ← index groups 1 >>= boardTryParse checked
        let turn ← index groups 3 >>= turnOf
        let rights ← index groups 4 >>= rightsOf
        let ep ← index groups 6 >>= epOf
        let half ← index groups 7 >>= clockOf
        let full ← index groups 8 >>= clockOf
        pure { pieces := board, turn := turn, castleW := rights.1, castleB := rights.2, ep := ep,
               halfmove := half, fullmove := full } : Res State) := by
  obtain ⟨board, side, castle, ep, half, full⟩ := G
  simp only at hs he
  have hside : side = ['w'] ∨ side = ['b'] ∨ side = ['|'] := by
    simp only [FenL.sideOk, Bool.and_eq_true, beq_iff_eq, List.all_eq_true, Bool.or_eq_true] at hs
    match side, hs with
    | [c], hs =>
      rcases hs.2 c List.mem_cons_self with (rfl | rfl) | rfl
      · exact .inr (.inl rfl)
      · exact .inr (.inr rfl)
      · exact .inl rfl
  have hr : rightsOf castle = okOr (if castle == ['-'] then some (CastleRights.noRights, CastleRights.noRights)
      else parseCastle castle) := rightsOf_eq castle
  have hep : epOf ep = .ok (FenL.epOf ep) := epOf_eq ep he
  simp only [FenGroups.groups, index, bind, pure, afterGate, boardTryParse, hr, hep, clockOf, FenL.epOf]
  cases parseBoardCells checked board 0 (List.replicate 64 Option.none) with
  | panic => rfl
  | err => rfl
  | ok cells =>
    simp only
    generalize (if castle == ['-'] then some (CastleRights.noRights, CastleRights.noRights) else parseCastle castle) = R
    rcases hside with rfl | rfl | rfl
    · cases R with
      | none => rfl
      | some r =>
        obtain ⟨cw, cb⟩ := r
        cases parseUsize half <;> cases parseUsize full <;> simp [turnOf, okOr] <;> rfl
    · cases R with
      | none => rfl
      | some r =>
        obtain ⟨cw, cb⟩ := r
        cases parseUsize half <;> cases parseUsize full <;> simp [turnOf, okOr] <;> rfl
    · rfl

end FenRx

/-- **FenRegex_recogniser**: for every list of characters and both build profiles, the hand-written recogniser of
`Model/Fen.lean` computes exactly `try_from_notation` as transcribed over the regex semantics: `Err` when `FEN_REGEX`
(parsed from the source literal, standard semantics, Unicode `\s`, any `\d` with `NdAssumptions`) does not match;
otherwise the field parsers applied to the capture groups — in particular `&groups[i]` never panics for
`i ∈ {1,3,4,6,7,8}`, a side `|` and castling texts containing `|` are `Err`, and a counter with a non-ASCII digit
is `Err`. -/
theorem FenRegex_recogniser (nd : Char → Bool) (hnd : NdAssumptions nd) (checked : Bool) (cs : List Char) :
    parseFenChars checked cs = fenPipeline nd checked cs := by
  unfold fenPipeline
  rw [FenRegex_reCaptures nd hnd cs]
  cases hG : fenCaptures nd cs with
  | none => exact parseFenChars_of_fenCaptures_none hnd.ascii checked cs hG
  | some G =>
    obtain ⟨h, hs, -, he⟩ := parseFenChars_of_fenCaptures_some checked cs G hG
    rw [h, FenRx.afterGate_eq checked cs G hs he]
    rfl

/-- the same for strings -/
theorem FenRegex_recogniser_string (nd : Char → Bool) (hnd : NdAssumptions nd) (checked : Bool) (s : String) :
    parseFen checked s = fenPipeline nd checked s.toList :=
  FenRegex_recogniser nd hnd checked s.toList

/-- the two directions spelled out: no match → `Err`; a match → no panic at `&groups[i]`, and the value is
determined by the six fields -/
theorem FenRegex_gate (nd : Char → Bool) (hnd : NdAssumptions nd) (checked : Bool) (cs : List Char) :
    (¬ IsMatch (unicode nd) fenAst cs → parseFenChars checked cs = .err) ∧
    (∀ g, Captures (unicode nd) fenAst cs g →
      ∃ G : FenGroups, g = G.groups cs ∧ parseFenChars checked cs = afterGate checked G.board G.side G.castle G.ep G.half G.full) := by
  constructor
  · intro h
    apply parseFenChars_of_fenCaptures_none hnd.ascii
    cases hG : fenCaptures nd cs with
    | none => rfl
    | some G => exact absurd ((FenRegex_isMatch nd hnd cs).2 (by rw [hG]; rfl)) h
  · intro g hg
    obtain ⟨G, hG, rfl⟩ := (FenRegex_captures nd hnd cs g).1 hg
    exact ⟨G, rfl, (parseFenChars_of_fenCaptures_some checked cs G hG).1⟩

/-! ## 6. C14 and C11 over the pipeline -/

/-- **C14_fen over the regex semantics**: `try_from_notation` (regex + field parsers) never panics, on any string,
in either build profile — including the `&groups[i]` indexing -/
theorem C14_fen_pipeline (nd : Char → Bool) (hnd : NdAssumptions nd) (checked : Bool) (s : String) :
    fenPipeline nd checked s.toList ≠ .panic := by
  rw [← FenRegex_recogniser_string nd hnd]
  exact C14_fen checked s

/-- whatever the pipeline accepts has its en-passant target on the board (the invariant of `Props/C14Total.lean`) -/
theorem C14_fen_fromFen_pipeline (nd : Char → Bool) (hnd : NdAssumptions nd) (checked : Bool) (s : String) (st : State)
    (h : fenPipeline nd checked s.toList = .ok st) : FromFen st := by
  rw [← FenRegex_recogniser_string nd hnd] at h
  exact C14_fen_fromFen checked s st h

/-- **C11 (1) over the regex semantics**: position → text → position is the identity on every representable position -/
theorem C11_parse_write_pipeline (nd : Char → Bool) (hnd : NdAssumptions nd) (checked : Bool) (s : State)
    (h : ReprPos s) : fenPipeline nd checked (writeFen s).toList = .ok s := by
  rw [← FenRegex_recogniser_string nd hnd]
  exact C11_parse_write checked s h

/-- **C11 (2) over the regex semantics**: every canonical FEN string is accepted and written back unchanged -/
theorem C11_write_parse_pipeline (nd : Char → Bool) (hnd : NdAssumptions nd) (checked : Bool) (t : String)
    (h : CanonicalFen t) : ∃ s, fenPipeline nd checked t.toList = .ok s ∧ writeFen s = t := by
  obtain ⟨s, h1, h2⟩ := C11_write_parse checked t h
  exact ⟨s, by rw [← FenRegex_recogniser_string nd hnd]; exact h1, h2⟩

/-- C11 (2), writer form -/
theorem C11_write_parse_writer_pipeline (nd : Char → Bool) (hnd : NdAssumptions nd) (checked : Bool) (p : Spec.Pos)
    (hep : ∀ e, p.ep = some e → e < 64) (hh : p.halfmove < 2^64) (hf : p.fullmove < 2^64) :
    fenPipeline nd checked (Spec.writeFen p).toList = .ok (conc p) ∧ writeFen (conc p) = Spec.writeFen p := by
  obtain ⟨h1, h2⟩ := C11_write_parse_writer checked p hep hh hf
  exact ⟨by rw [← FenRegex_recogniser_string nd hnd]; exact h1, h2⟩

/-- every written FEN of a representable position is matched by `FEN_REGEX` -/
theorem C11_written_matches (nd : Char → Bool) (hnd : NdAssumptions nd) (s : State) (h : ReprPos s) :
    IsMatch (unicode nd) fenAst (writeFen s).toList := by
  refine Classical.byContradiction fun hn => ?_
  have h1 := (FenRegex_gate nd hnd true (writeFen s).toList).1 hn
  have h2 := C11_parse_write true s h
  rw [parseFen, h1] at h2
  cases h2

/-! ### non-vacuity of the corollaries -/

set_option maxRecDepth 100000 in
example : ReprPos c11AfterE4 := by decide

/-- the pipeline on the start position, through the theorems -/
example : fenPipeline ndSample true Gen.fenDefault.toList = .ok c11Start := by
  rw [← FenRegex_recogniser_string ndSample ndSample_ok]
  set_option maxRecDepth 100000 in decide

/-- a text that matches the regex and is rejected by a field parser: side `|` -/
example : IsMatch (unicode ndSample) fenAst "8/8/8/8/8/8/8/8 | - - 0 1".toList ∧
    fenPipeline ndSample false "8/8/8/8/8/8/8/8 | - - 0 1".toList = .err := by
  constructor
  · refine (FenRegex_isMatch ndSample ndSample_ok _).2 ?_
    set_option maxRecDepth 1000000 in decide +kernel
  · rw [← FenRegex_recogniser_string ndSample ndSample_ok]
    set_option maxRecDepth 100000 in decide

end Wee
