import Wee.Gen.EvalTables
/-!
# Transposition table (mirror of `searcher.rs`: `TranspositionBucket`, `TranspositionTable`,
`TranspositionTableAccess`)

Keys are `Nat` (`u64` values; `hash as usize` is the identity on the 64-bit targets considered).
-/
namespace Wee.TT

structure Entry where
  kind : Nat          -- 0 Exact, 1 UpperBound, 2 LowerBound
  mv : Nat            -- `performed_move.as_raw()`
  depth : Nat
  maxDepth : Nat
  eval : Int
deriving DecidableEq, Repr, Inhabited

abbrev Slot := Option (Nat × Entry)

/-- left-to-right scan of `insert_or_replace`: first empty slot or first slot with the same key.
Returns the new slot list and whether the result was `Inserted` (else `Swapped`). -/
def scan : List Slot → Nat → Entry → Option (List Slot × Bool)
  | [], _, _ => none
  | none :: rest, k, e => some (some (k, e) :: rest, true)
  | some (k', e') :: rest, k, e =>
    if k' = k then some (some (k, e) :: rest, false)
    else match scan rest k e with
      | some (r, i) => some (some (k', e') :: r, i)
      | none => none

/-- `TranspositionBucket::insert_or_replace` → (bucket, inserted?) -/
def insertB (b : List Slot) (k : Nat) (e : Entry) : List Slot × Bool :=
  match scan b k e with
  | some r => r
  | none => (b.set ((k ^^^ e.mv) % b.length) (some (k, e)), false)

/-- `TranspositionBucket::find` -/
def findB : List Slot → Nat → Option Entry
  | [], _ => none
  | none :: rest, k => findB rest k
  | some (k', e) :: rest, k => if k' = k then some e else findB rest k

structure Table where
  buckets : List (List Slot)
  used : Nat
deriving Repr, Inhabited

def Table.withBucketCount (n : Nat) : Table :=
  { buckets := List.replicate n (List.replicate Gen.bucketSize none), used := 0 }

/-- `TranspositionTable::find`; `% 0` is a Rust panic: callers guarantee `buckets ≠ []` -/
def Table.find (t : Table) (k : Nat) : Option Entry :=
  findB (t.buckets.getD (k % t.buckets.length) []) k

def Table.insert (t : Table) (k : Nat) (e : Entry) : Table :=
  let i := k % t.buckets.length
  let (b', ins) := insertB (t.buckets.getD i []) k e
  { buckets := t.buckets.set i b', used := if ins then t.used + 1 else t.used }

def Table.entries (t : Table) : Nat := t.used
def Table.maxEntries (t : Table) : Nat := t.buckets.length * Gen.bucketSize

/-- `TranspositionTableAccess` -/
structure Access where
  tables : List Table
deriving Repr, Inhabited

def Access.new (tables buckets : Nat) : Access :=
  { tables := List.replicate tables (Table.withBucketCount buckets) }

def Access.find (a : Access) (k : Nat) : Option Entry :=
  (a.tables.getD (k % a.tables.length) default).find k

def Access.insert (a : Access) (k : Nat) (e : Entry) : Access :=
  let i := k % a.tables.length
  { tables := a.tables.set i ((a.tables.getD i default).insert k e) }

def Access.entries (a : Access) : Nat := (a.tables.map Table.entries).sum
def Access.maxEntries (a : Access) : Nat := (a.tables.map Table.maxEntries).sum

end Wee.TT
