import Wee.Model.MoveGen
/-!
# Move queries, SAN parsing, coordinate resolution
(mirror of `moves.rs` `MoveQuery`, `notation.rs` `mod san`, `state.rs` `by_performing_moves`,
`uci.rs` move-token parsing)
-/
namespace Wee

structure MoveQuery where
  piece : Option Piece := Option.none
  originRank : Option Nat := Option.none
  originFile : Option Nat := Option.none
  destRank : Option Nat := Option.none
  destFile : Option Nat := Option.none
  promotion : Option Piece := Option.none
  castle : Option Side := Option.none
  isCapture : Option Bool := Option.none
deriving DecidableEq, Repr, Inhabited

/-- `MoveQuery::test` -/
def MoveQuery.test (q : MoveQuery) (m : Move) : Bool :=
  (q.piece.map (fun p => p == Move.piece m)).getD true &&
  (q.originRank.map (fun r => r == rankOf (Move.origin m))).getD true &&
  (q.originFile.map (fun f => f == fileOf (Move.origin m))).getD true &&
  (q.destRank.map (fun r => r == rankOf (Move.dest m))).getD true &&
  (q.destFile.map (fun f => f == fileOf (Move.dest m))).getD true &&
  (q.promotion.map (fun p => p == (Move.promotion m).getD (Move.piece m))).getD true &&
  (q.castle.map (fun s => Move.isCastle m s)).getD true &&
  (q.isCapture.map (fun c => c == Move.isCapture m)).getD true

def startsWith (cs pre : List Char) : Bool := pre.isPrefixOf cs

/-- `San::try_from_notation` ; `none` = `Err(())`.  The Rust function has no panicking operation
(only `peek`/`next` on a `Chars` iterator), which `C14_san` states for this transcription. -/
def parseSanChars (cs : List Char) : Option MoveQuery :=
  if startsWith cs "O-O-O".toList then some { castle := some .queen }
  else if startsWith cs "O-O".toList then some { castle := some .king }
  else
    let it := cs.reverse
    let q : MoveQuery := {}
    -- check / mate mark
    let it := match it with | '#' :: r => r | '+' :: r => r | _ => it
    -- promotion
    let step1 : Option (List Char × MoveQuery) :=
      match it with
      | c :: r =>
        if c.isUpper then
          let pr : Option Piece := match c with
            | 'Q' => some .queen | 'R' => some .rook | 'B' => some .bishop | 'N' => some .knight | _ => Option.none
          match pr with
          | Option.none => Option.none
          | some p =>
            let r := match r with | '=' :: r' => r' | _ => r
            some (r, { q with promotion := some p })
        else some (it, q)
      | [] => some (it, q)
    match step1 with
    | Option.none => Option.none
    | some (it, q) =>
    -- destination rank
    let step2 : Option (List Char × MoveQuery) :=
      match it with
      | c :: r =>
        if c.isDigit then
          if '1' ≤ c ∧ c ≤ '8' then some (r, { q with destRank := some (c.toNat - '1'.toNat) }) else Option.none
        else some (it, q)
      | [] => some (it, q)
    match step2 with
    | Option.none => Option.none
    | some (it, q) =>
    -- destination file
    let step3 : Option (List Char × MoveQuery) :=
      match it with
      | c :: r =>
        if c.isLower then
          if 'a' ≤ c ∧ c ≤ 'h' then some (r, { q with destFile := some (c.toNat - 'a'.toNat) }) else Option.none
        else some (it, q)
      | [] => some (it, q)
    match step3 with
    | Option.none => Option.none
    | some (it, q) =>
    -- capture mark
    let (it, q) := match it with | 'x' :: r => (r, { q with isCapture := some true }) | _ => (it, q)
    -- origin rank
    let step5 : Option (List Char × MoveQuery) :=
      match it with
      | c :: r =>
        if c.isDigit then
          if '1' ≤ c ∧ c ≤ '8' then some (r, { q with originRank := some (c.toNat - '1'.toNat) }) else Option.none
        else some (it, q)
      | [] => some (it, q)
    match step5 with
    | Option.none => Option.none
    | some (it, q) =>
    -- origin file
    let step6 : Option (List Char × MoveQuery) :=
      match it with
      | c :: r =>
        if c.isLower then
          if 'a' ≤ c ∧ c ≤ 'h' then some (r, { q with originFile := some (c.toNat - 'a'.toNat) }) else Option.none
        else some (it, q)
      | [] => some (it, q)
    match step6 with
    | Option.none => Option.none
    | some (it, q) =>
    -- piece letter
    let step7 : Option (List Char × MoveQuery) :=
      match it with
      | c :: r =>
        if c.isUpper then
          let pc : Option Piece := match c with
            | 'K' => some .king | 'Q' => some .queen | 'R' => some .rook | 'B' => some .bishop
            | 'N' => some .knight | 'P' => some .pawn | _ => Option.none
          match pc with
          | Option.none => Option.none
          | some p => some (r, { q with piece := some p })
        else some (it, q)
      | [] => some (it, q)
    match step7 with
    | Option.none => Option.none
    | some (it, q) =>
    if !it.isEmpty then Option.none
    else some (if q.piece.isNone then { q with piece := some .pawn } else q)

def parseSan (s : String) : Option MoveQuery := parseSanChars s.toList

/-- `State::by_performing_moves` for one query: exactly one match → apply it -/
def performQuery (s : State) (q : MoveQuery) : Option (Except MoveErr State) :=
  match legalMoves? s with
  | Option.none => Option.none
  | some ms =>
    match ms.filter (fun r => q.test r.1) with
    | [r] => performMove s r.1
    | [] => some (.error .unknown)
    | _ => some (.error .ambiguous)

def performQueries (s : State) : List MoveQuery → Option (Except MoveErr State)
  | [] => some (.ok s)
  | q :: qs =>
    match performQuery s q with
    | some (.ok s') => performQueries s' qs
    | r => r

/-- `Square::try_from(&str)` on a list of chars (the caller has already sliced two bytes) -/
def parseSquare (cs : List Char) : Option Nat :=
  if (String.ofList cs).utf8ByteSize ≠ 2 then Option.none else
  match cs with
  | [f, r] =>
    let fu := f.toUpper
    if fu < 'A' ∨ fu > 'H' then Option.none
    else if r < '1' ∨ r > '8' then Option.none
    else some (mkSq (r.toNat - '1'.toNat) (fu.toNat - 'A'.toNat))
  | _ => Option.none

/-- byte-range slice `&m[a..b]` of a Rust `&str`: `none` = panic (out of range or not on a char
boundary) -/
def sliceBytes (s : String) (a b : Nat) : Option String :=
  let bytes := s.toUTF8
  if b > bytes.size ∨ a > b then Option.none
  else
    let isBoundary (i : Nat) : Bool := i == bytes.size || (bytes[i]!.toNat &&& 0xC0) != 0x80
    if !(isBoundary a && isBoundary b) then Option.none
    else String.fromUTF8? (bytes.extract a b)

/-- UCI move token → query, as in `uci.rs` (`filter_map` closure): `m.get(0..2)?`, `m.get(2..4)?`
(since the fix of F4; before it `&m[0..2]` panicked on short tokens and non-boundaries).
outer `none` = panic (kept in the type so that `C14_uci` is a statement, not a tautology),
inner `none` = token rejected. -/
def parseUciMoveToken (m : String) : Option (Option MoveQuery) :=
  match sliceBytes m 0 2 with
  | Option.none => some Option.none
  | some a =>
    match parseSquare a.toList with
    | Option.none => some Option.none
    | some o =>
      match sliceBytes m 2 4 with
      | Option.none => some Option.none
      | some b =>
        match parseSquare b.toList with
        | Option.none => some Option.none
        | some d =>
          let base : MoveQuery := { originRank := some (rankOf o), originFile := some (fileOf o),
                                    destRank := some (rankOf d), destFile := some (fileOf d) }
          match m.toList[4]? with
          | Option.none => some (some base)
          | some 'q' => some (some { base with promotion := some .queen })
          | some 'r' => some (some { base with promotion := some .rook })
          | some 'b' => some (some { base with promotion := some .bishop })
          | some 'n' => some (some { base with promotion := some .knight })
          | some _ => some Option.none

end Wee
