import Wee.Model.Board
/-!
# Move generation (mirror of `movegen.rs`)

Lists are in the exact generation order of the Rust code, because `MoveSet::find` is first-match
and the search sorts stably from this order.
-/
namespace Wee
open Gen

structure Helper where
  s : State
  us : Color
  own : UInt64
  opp : UInt64
  occ : UInt64
  vac : UInt64
  oppAtt : UInt64

def Helper.of (s : State) : Helper :=
  let occ := s.pieces.occ
  { s, us := s.turn, own := s.pieces.colorOcc s.turn, opp := s.pieces.colorOcc s.turn.opp,
    occ, vac := ~~~occ, oppAtt := coloredAttacks s.pieces s.turn.opp }

def backrankMask : Color → UInt64 | .white => rankMask 7 | .black => rankMask 0
def homeRankMask : Color → UInt64 | .white => rankMask 1 | .black => rankMask 6

@[inline] def shiftFwd (c : Color) (b : UInt64) : UInt64 := match c with | .white => shiftN b | .black => shiftS b

/-- `Square::offset(..).unwrap()`: `none` = Rust panic -/
abbrev Gen? := Option (List Move)

def promotionPieces : List Piece := promotionTypes.filterMap Piece.ofCode?

/-- `helper.board().piece_at(target).unwrap().piece()` -/
def capturedAt (s : State) (t : Nat) : Option Piece := (s.pieces.pieceAt t).map (·.2)

def pawnMoves (h : Helper) : Gen? := do
  let us := h.us
  let pawns := h.s.pieces.get us .pawn
  let back := backrankMask us
  let bwd := us.backward
  -- simple pushes
  let positions := shiftFwd us pawns &&& h.vac
  let promo := positions &&& back
  let nonPromo := positions &&& ~~~back
  let a ← (bitsOf nonPromo).mapM fun t => do
    let o ← offset t 0 bwd
    pure (Move.byMoving us .pawn o t)
  let b ← (bitsOf promo).mapM fun t => do
    let o ← offset t 0 bwd
    pure (promotionPieces.map fun pr => Move.byPromoting us .pawn o t pr)
  -- double pushes
  let home := pawns &&& homeRankMask us
  let dbl := shiftFwd us (shiftFwd us home &&& h.vac) &&& h.vac
  let c ← (bitsOf dbl).mapM fun t => do
    let o1 ← offset t 0 bwd
    let o ← offset o1 0 bwd
    pure (Move.byMoving us .pawn o t)
  -- captures: (EAST, WEST) then (WEST, EAST)
  let side (east : Bool) : Gen? := do
    let invDf : Int := if east then -1 else 1
    let att := if east then shiftE (shiftFwd us pawns) else shiftW (shiftFwd us pawns)
    let withPromo := att &&& back &&& h.opp
    let noPromo := att &&& ~~~back &&& h.opp
    let epBB := att &&& (match h.s.ep with | some t => bit t | Option.none => 0)
    let x ← (bitsOf noPromo).mapM fun t => do
      let o ← offset t invDf bwd
      let cap ← capturedAt h.s t
      pure (Move.byCapturing us .pawn o t cap)
    let y ← (bitsOf withPromo).mapM fun t => do
      let o ← offset t invDf bwd
      let cap ← capturedAt h.s t
      pure (promotionPieces.map fun pr => Move.byCapturePromoting us .pawn o t cap pr)
    let z ← match firstOne epBB with
      | some t => do
        let o ← offset t invDf bwd
        pure [Move.byEnPassant us .pawn o t]
      | Option.none => pure []
    pure (x ++ y.flatten ++ z)
  let e ← side true
  let w ← side false
  pure (a ++ b.flatten ++ c ++ e ++ w)

/-- `GameStateHelper::expand_moves` -/
def expandMoves (h : Helper) (o : Nat) (dests : UInt64) (p : Piece) : List Move :=
  (bitsOf dests).map fun t =>
    match capturedAt h.s t with
    | some cap => Move.byCapturing h.us p o t cap
    | Option.none => Move.byMoving h.us p o t

def knightMoves (h : Helper) : List Move :=
  (bitsOf (h.s.pieces.get h.us .knight)).flatMap fun sq =>
    expandMoves h sq (knightAttacks sq &&& (h.opp ||| h.vac)) .knight

def kingMoves (h : Helper) : List Move :=
  let steps := (bitsOf (h.s.pieces.get h.us .king)).flatMap fun sq =>
    expandMoves h sq (kingAttacks sq &&& (h.opp ||| h.vac) &&& ~~~h.oppAtt) .king
  let castles := Side.all.filterMap fun side =>
    if (h.s.castle h.us).forSide side then
      let blocks := h.occ &&& (castlePathMasks[side.idx]!)[h.us.idx]!
      let checks := h.oppAtt &&& (castleCheckMasks[side.idx]!)[h.us.idx]!
      if bbNone blocks && bbNone checks then some (Move.byCastling h.us side) else Option.none
    else Option.none
  steps ++ castles

def sliderMoves (h : Helper) (p : Piece) (att : Nat → UInt64 → UInt64) : List Move :=
  (bitsOf (h.s.pieces.get h.us p)).flatMap fun sq =>
    expandMoves h sq (att sq h.occ &&& ~~~h.own) p

/-- `compute_psuedo_legal_moves_into` -/
def pseudoLegalMoves (s : State) : Gen? := do
  let h := Helper.of s
  let pm ← pawnMoves h
  pure (pm ++ knightMoves h ++ kingMoves h ++ sliderMoves h .bishop bishopAttacks
        ++ sliderMoves h .rook rookAttacks ++ sliderMoves h .queen queenAttacks)

/-- `PseudoLegalMove::try_as_legal_move`: outer `none` = panic (`unwrap` on make-move error or bad
discriminant); inner `none` = the move leaves the own king attacked -/
def tryAsLegal (s : State) (mv : Move) : Option (Option (Move × State)) :=
  match performMove s mv with
  | some (.ok next) =>
    let king := next.pieces.get s.turn .king
    if bbNone (king &&& coloredAttacks next.pieces next.turn) then some (some (mv, next)) else some Option.none
  | _ => Option.none

/-- `MoveGenerator::compute_legal_moves` (`none` = panic) -/
def legalMoves? (s : State) : Option (List (Move × State)) := do
  let ps ← pseudoLegalMoves s
  let rs ← ps.mapM (tryAsLegal s)
  pure (rs.filterMap id)

def legalMoves (s : State) : List (Move × State) := (legalMoves? s).getD []

/-- `Searcher::perft` (depth ≥ 1 counts leaves at that depth; depth 0 → 0 as the Rust code does) -/
def perft : Nat → State → Nat
  | 0, _ => 0
  | 1, s => (legalMoves s).length
  | d+1, s => ((legalMoves s).map fun r => perft d r.2).sum

end Wee
