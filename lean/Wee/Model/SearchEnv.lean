import Wee.Model.Search
/-!
# One search worker inside an environment (interleaving semantics of the shared transposition table)

Rust: `searcher.rs`.  The workers of one iteration of `analyze_iterative` (`into_par_iter`) share exactly one
mutable object, the `TranspositionTableAccess`; every access goes through `TranspositionTableAccess::{find, insert}`,
which take ONE `RwLock` guard of ONE sub-table for the whole operation.  Everything else a worker touches is its own
(`rng`, `nodes_searched`, `move_buffer`) or read-only (`hasher`, `state_history`, the cancellation flag).  A concurrent
run of `N` workers is therefore an interleaving of atomic table operations.

`Wee/Model/Search.lean` runs the workers one after the other (`runWorkers`) — one admissible schedule.  This file is the
same worker code (`searchNodeE`, `childLoopE`: a transcription of `searchNode`, `childLoop` in which the three table
accesses are replaced by `findE` / `insertE`) placed in an *environment*: before each of the worker's own table
operations the environment applies a finite list of foreign inserts (those the other workers performed since this
worker's previous table operation; foreign `find`s do not change the table).  The worker's own operations are logged,
finds with their results.

* `ME` is the worker monad: `ops so far → St → (outcome, St, operations appended)`.  The log is append-only by
  construction and the number of own operations so far is read-only, so that "the `k`-th own operation sees batch `k` of
  the environment" cannot be disturbed by the worker code.
* `searchNodeE Env.empty` is `searchNode` (theorem `searchNodeE_empty` in `Wee/Proofs/EnvLemmas.lean`), which keeps
  the tie to the executable model that is compared event by event with the real engine.
* `Interleaving` says when a global history (a list of `(worker, operation)` in the order in which the operations held
  their lock) is an execution of `N` workers: projected on each worker it is the log of that worker run in the
  environment that the history induces for it (`envOf`).  The sequential schedule of `runWorkers` is one such history
  (`sequentialHistory`; theorem `sequential_interleaving`).
* `finishStep` / `joinOf` / `StepS` / `LoopS` / `SearchS`: `analyze_iterative` with every iteration's workers raced under
  an arbitrary interleaving — a relation, of which the executable `iterate` is one outcome (`iterate_searchS`).
-/
namespace Wee.Search
open Wee

/-- one atomic operation on the shared table, as logged by the worker that performs it (`find` with its result) -/
inductive TOp
  | find (k : Nat) (r : Option TT.Entry)
  | insert (k : Nat) (e : TT.Entry)
deriving DecidableEq, Repr

/-- the environment of one worker: `script k` are the foreign inserts (key, entry), oldest first, that take effect
between this worker's `(k-1)`-th and `k`-th own table operation -/
structure Env where
  script : Nat → List (Nat × TT.Entry)

/-- nobody else writes -/
def Env.empty : Env := ⟨fun _ => []⟩

/-- batches given as a list; nothing after its end -/
def Env.ofList (bs : List (List (Nat × TT.Entry))) : Env := ⟨fun k => bs.getD k []⟩

/-- the environment that behaves like `env` for the first `n` batches and is silent afterwards -/
def Env.upTo (env : Env) (n : Nat) : Env := ⟨fun k => if k < n then env.script k else []⟩

/-- apply a batch of foreign inserts, oldest first -/
def applyInserts (tt : TT.Access) (b : List (Nat × TT.Entry)) : TT.Access :=
  b.foldl (fun t p => t.insert p.1 p.2) tt

/-- the worker monad: number of own table operations so far (read-only) → worker state → (outcome, worker state,
own table operations performed, oldest first).  As in `M`, the state survives an interrupt or a panic. -/
abbrev ME (α : Type) : Type := Nat → St → Except Stop α × St × List TOp

namespace ME

@[inline] protected def pure {α : Type} (a : α) : ME α := fun _ st => (.ok a, st, [])

@[inline] protected def bind {α β : Type} (x : ME α) (f : α → ME β) : ME β := fun n st =>
  match x n st with
  | (.ok a, st', l1) =>
    match f a (n + l1.length) st' with
    | (r, st'', l2) => (r, st'', l1 ++ l2)
  | (.error e, st', l1) => (.error e, st', l1)

instance : Monad ME where
  pure := ME.pure
  bind := ME.bind

instance : MonadStateOf St ME where
  get := fun _ st => (.ok st, st, [])
  set s := fun _ _ => (.ok ⟨⟩, s, [])
  modifyGet f := fun _ st => match f st with | (a, s) => (.ok a, s, [])

instance : MonadExceptOf Stop ME where
  throw e := fun _ st => (.error e, st, [])
  tryCatch x h := fun n st =>
    match x n st with
    | (.error e, st', l1) =>
      match h e (n + l1.length) st' with
      | (r, st'', l2) => (r, st'', l1 ++ l2)
    | out => out

end ME

/-- a computation of the sequential model that does not touch the table, run inside the worker -/
def liftE {α : Type} (x : M α) : ME α := fun _ st =>
  match x.run.run st with
  | (r, st') => (r, st', [])

/-- `TranspositionTableAccess::find` by a worker with `n` earlier table operations: first the foreign inserts of
batch `n` take effect, then the lookup happens (one lock section), its result is logged -/
def findE (env : Env) (k : Nat) : ME (Option TT.Entry) := fun n st =>
  let tt := applyInserts st.tt (env.script n)
  (.ok (tt.find k), { st with tt := tt }, [.find k (tt.find k)])

/-- `TranspositionTableAccess::insert` by a worker with `n` earlier table operations -/
def insertE (env : Env) (k : Nat) (e : TT.Entry) : ME Unit := fun n st =>
  let tt := applyInserts st.tt (env.script n)
  (.ok ⟨⟩, { st with tt := tt.insert k e }, [.insert k e])

/-- `childLoop` with the cut-off store going through `insertE` -/
def childLoopE (env : Env) (ctx : Ctx) (child : NodeArgs → ME Eval) (a : NodeArgs) (hash : UInt64) :
    List Move → Eval → Option Move → Nat → ME (Except Eval (Eval × Option Move × Nat))
  | [], alpha, best, kind => pure (.ok (alpha, best, kind))
  | mv :: rest, alpha, best, kind => do
    match tryAsLegal a.s mv with
    | Option.none => throw (.panic "try_as_legal_move: by_performing_move(..).unwrap()")
    | some Option.none => childLoopE env ctx child a hash rest alpha best kind
    | some (some (m, next)) =>
      let ext := if a.curExt < Gen.extensionCap then extensionOf a.s else 0
      let v ← child { s := next, maxDepth := a.maxDepth + ext, curDepth := a.curDepth + 1 + ext,
                      curExt := a.curExt + ext, alpha := -a.beta, beta := -alpha, prioritized := Option.none }
      let ev := -v
      if ev ≥ a.beta then
        let e : TT.Entry := { kind := kindLower, mv := m.toNat, depth := a.curDepth, maxDepth := a.maxDepth, eval := a.beta }
        insertE env hash.toNat e
        pure (.error a.beta)
      else if ev > alpha then childLoopE env ctx child a hash rest ev (some m) kindExact
      else childLoopE env ctx child a hash rest alpha best kind

/-- `searchNode` with the probe going through `findE` and the final store through `insertE`; the move ordering
(`sortByCachedKey` with `jitter`) only touches the worker's own generator and is taken over unchanged -/
def searchNodeE (env : Env) (ctx : Ctx) : Nat → NodeArgs → ME Eval
  | rem, a => do
    modify fun st => { st with nodes := st.nodes + 1 }
    let st ← get
    if st.nodes % Gen.pollInterval == 0 then
      let cancelled := match ctx.cancelAt with | some k => decide (st.polls ≥ k) | Option.none => false
      set { st with polls := st.polls + 1 }
      if cancelled then throw .interrupt
    let hash := Wee.hash ctx.keys a.s
    if a.curDepth > 0 && ctx.history.contains hash then return 0
    let mut alpha := a.alpha
    let mut beta := a.beta
    match ← findE env hash.toNat with
    | some e =>
      if a.maxDepth < a.curDepth ∨ e.maxDepth < e.depth then throw (.panic "usize subtraction underflow")
      if e.maxDepth - e.depth ≥ a.maxDepth - a.curDepth then
        if e.kind == kindExact then return e.eval
        else if e.kind == kindUpper then beta := min beta e.eval
        else alpha := max alpha e.eval
        if alpha ≥ beta then return e.eval
    | Option.none => pure ()
    match rem with
    | 0 =>
      match quiesce evaluate (quiesceFuel a.s) a.s a.curDepth alpha beta with
      | .ok v => return v
      | .error e => throw e
    | rem' + 1 =>
      match pseudoLegalMoves a.s with
      | Option.none => throw (.panic "move generation: Square::offset(..).unwrap()")
      | some pseudo =>
        let sorted ← liftE (sortByCachedKey pseudo fun mv => do
          let j ← jitter
          pure (estimate a.s mv + j))
        let buffer := match a.prioritized with | some m => sorted ++ [m] | Option.none => sorted
        let before := (← get).nodes
        let a' := { a with alpha := alpha, beta := beta }
        match ← childLoopE env ctx (searchNodeE env ctx rem') a' hash buffer.reverse alpha Option.none kindUpper with
        | .error b => return b
        | .ok (alpha', best, kind) =>
          if (← get).nodes == before then
            match evaluate a.s a.s.turn a.curDepth with
            | some e => return e
            | Option.none => throw (.panic "evaluate: no king")
          match best with
          | some m =>
            let e : TT.Entry := { kind := kind, mv := m.toNat, depth := a.curDepth, maxDepth := a.maxDepth, eval := alpha' }
            insertE env hash.toNat e
          | Option.none => pure ()
          return alpha'

/-! ## workers of one iteration and global histories -/

/-- what distinguishes the workers of one iteration: `search_depth`, the previous best move (worker 0 only), the
worker's generator, and the number of polls of the cancellation flag that happened before its first poll (any value:
the flag may become visible to each worker at a different instant) -/
structure Worker where
  searchDepth : Nat
  best : Option Move
  rng : Rng.ChaCha8
  polls : Nat := 0

/-- worker `i` of iteration `depth` as `analyze_iterative` builds it -/
def Worker.ofIteration (depth : Nat) (bestMv : Option Move) (i : Nat) (seed : UInt64) (polls : Nat := 0) : Worker :=
  { searchDepth := (depth - i % 2) + 1, best := if i == 0 then bestMv else Option.none,
    rng := Rng.seedFromU64 seed, polls }

/-- one worker's run of one iteration in environment `env`, started on table `tt`:
(outcome, final worker state, log of its table operations) -/
def runWorkerE (env : Env) (ctx : Ctx) (root : State) (w : Worker) (tt : TT.Access) :
    Except Stop Eval × St × List TOp :=
  searchNodeE env ctx w.searchDepth
    { s := root, maxDepth := w.searchDepth, curDepth := 0, curExt := 0,
      alpha := - Ev.mateInPly 0, beta := Ev.mateInPly 0, prioritized := w.best }
    0 { tt, rng := w.rng, nodes := 0, polls := w.polls }

/-- a global history: `(worker index, operation)` in the order in which the operations held their lock -/
abbrev History := List (Nat × TOp)

/-- the operations of worker `i`, in order -/
def History.proj (H : History) (i : Nat) : List TOp := (H.filter fun p => p.1 == i).map (·.2)

/-- effect of one logged operation on the table -/
def TOp.apply (tt : TT.Access) : TOp → TT.Access
  | .find _ _ => tt
  | .insert k e => tt.insert k e

/-- the shared table after the history `H`, started from `tt` -/
def History.table (tt : TT.Access) (H : History) : TT.Access := H.foldl (fun t p => p.2.apply t) tt

/-- put one more insert in front of the first batch -/
def consHead (p : Nat × TT.Entry) : List (List (Nat × TT.Entry)) → List (List (Nat × TT.Entry))
  | b :: bs => (p :: b) :: bs
  | [] => [[p]]

/-- the foreign inserts worker `i` experiences, cut at its own operations: element `k` of the result is what the
other workers insert between `i`'s `(k-1)`-th and `k`-th operation; the last element is what they insert after `i`'s
last operation -/
def batchesOf (i : Nat) : History → List (List (Nat × TT.Entry))
  | [] => [[]]
  | (j, .find _ _) :: rest => if j == i then [] :: batchesOf i rest else batchesOf i rest
  | (j, .insert k e) :: rest => if j == i then [] :: batchesOf i rest else consHead (k, e) (batchesOf i rest)

/-- the environment the history `H` is for worker `i` -/
def envOf (H : History) (i : Nat) : Env := Env.ofList (batchesOf i H)

/-- **`H` is an execution of the workers `ws` on the shared table `tt`** (any schedule, any number of workers):
every operation belongs to one of the workers, and for each worker the operations it contributes to `H` are exactly —
same operations, same order, same results of `find` — the log of that worker run in the environment `H` induces for
it.  (Whether a worker ended normally, by the interrupt or by a panic is not restricted; a worker that rayon never
started is simply not in `ws`.) -/
def Interleaving (ctx : Ctx) (root : State) (tt : TT.Access) (ws : List Worker) (H : History) : Prop :=
  (∀ p ∈ H, p.1 < ws.length) ∧
  ∀ i (h : i < ws.length), (runWorkerE (envOf H i) ctx root ws[i] tt).2.2 = H.proj i

/-- outcome of worker `i` in the execution `H` -/
def outcomeOf (ctx : Ctx) (root : State) (tt : TT.Access) (w : Worker) (H : History) (i : Nat) : Except Stop Eval :=
  (runWorkerE (envOf H i) ctx root w tt).1

instance (ctx : Ctx) (root : State) (tt : TT.Access) (ws : List Worker) (H : History) :
    Decidable (Interleaving ctx root tt ws H) := by
  unfold Interleaving; infer_instance

/-- the sequential schedule: the logs of the workers one after the other, each started on the table the previous
ones left (this is what `runWorkers` executes, as long as no worker is interrupted) -/
def sequentialHistory (ctx : Ctx) (root : State) : TT.Access → Nat → List Worker → History
  | _, _, [] => []
  | tt, i, w :: rest =>
    let out := runWorkerE Env.empty ctx root w tt
    out.2.2.map (fun op => (i, op)) ++ sequentialHistory ctx root out.2.1.tt (i + 1) rest

/-! ## the whole search under arbitrary schedules -/

/-- what `analyze_iterative` does after the workers of iteration `depth` have been joined (`match results { Ok(..) => ..,
Err(SearchInterrupt) => .. }`): the text of `iterStep` after its call of `runWorkers`, with the joined results `w` and
the generator state after drawing the seeds as parameters (`iterStep_eq_finishStep`: `rfl`) -/
def finishStep (ctx : Ctx) (root : State) (rootHash : UInt64) (depth : Nat) (rng : Rng.ChaCha8) (w : WorkersOut)
    (st : IterSt) : IterSt :=
  match w.panic with
  | some why => { st with rng, panic := some why, finished := true }
  | Option.none =>
    if !w.interrupted then
      let nodes := st.nodes + w.sumNodes
      let bestEval := match w.evals with | [] => st.bestEval | e :: es => es.foldl max e
      let line := walkLine ctx.keys w.tt (depth + 1) root
      let events := st.events ++ [.progress (depth + 1) nodes]
      if line.isEmpty then
        { st with tt := w.tt, rng, polls := w.polls, nodes, bestEval, bestMv := Option.none, events }
      else
        { st with tt := w.tt, rng, polls := w.polls, nodes, bestEval, bestMv := line.head?
                  events := events ++ [.best bestEval line], finished := decide (bestEval ≥ Ev.posInf) }
    else
      let events := match w.tt.find rootHash.toNat with
        | some x =>
          if x.eval > st.bestEval then
            let line := walkLine ctx.keys w.tt (depth + 1) root
            if line.isEmpty then st.events else st.events ++ [.best x.eval line]
          else st.events
        | Option.none => st.events
      { st with tt := w.tt, rng, polls := w.polls, events, finished := true }

theorem iterStep_eq_finishStep (ctx : Ctx) (root : State) (rootHash : UInt64) (workers depth : Nat) (st : IterSt) :
    iterStep ctx root rootHash workers depth st =
      finishStep ctx root rootHash depth (drawSeeds workers st.rng).2
        (runWorkers ctx root depth st.bestMv ((List.range workers).zip (drawSeeds workers st.rng).1)
          { tt := st.tt, polls := st.polls, evals := [], sumNodes := 0 }) st := rfl

/-- the joined results of the workers `ws` in the execution `H` (rayon's `collect::<Result<Vec<_>, SearchInterrupt>>()`
after all started workers have ended): the shared table is the table after `H`; `Err` if some worker was interrupted;
otherwise the values and node counts in worker order; a panicking worker makes the whole search panic.  `polls` (the
number of polls of the flag so far, which the sequential model threads through the workers) is whatever it is. -/
def joinOf (ctx : Ctx) (root : State) (tt : TT.Access) (ws : List Worker) (H : History) (polls : Nat) : WorkersOut :=
  let outs := (List.range ws.length).filterMap fun i => ws[i]?.map fun w => runWorkerE (envOf H i) ctx root w tt
  { tt := History.table tt H
    polls := polls
    evals := outs.filterMap fun o => match o.1 with | .ok e => some e | _ => Option.none
    sumNodes := (outs.map fun o => o.2.1.nodes).sum
    interrupted := outs.any fun o => match o.1 with | .error .interrupt => true | _ => false
    panic := outs.findSome? fun o => match o.1 with | .error (.panic why) => some why | _ => Option.none }

/-- the workers `analyze_iterative` starts in iteration `depth` (`thread_data`), each with an arbitrary poll offset -/
def workersOfIteration (depth : Nat) (bestMv : Option Move) (seeds : List UInt64) (pollsOf : Nat → Nat) : List Worker :=
  ((List.range seeds.length).zip seeds).map fun p => Worker.ofIteration depth bestMv p.1 p.2 (pollsOf p.1)

/-- **one iteration under some schedule**: the seeds are drawn as in `analyze_iterative`; rayon starts the workers
`started` — all of them, unless one of the started ones is interrupted (`collect` into a `Result` may skip work that
has not begun once an `Err` has been seen) or panics —, they run concurrently in ANY interleaving `H` of their table operations
(any poll offsets), the results are joined and reported -/
def StepS (ctx : Ctx) (root : State) (rootHash : UInt64) (workers depth : Nat) (st st' : IterSt) : Prop :=
  ∃ (pollsOf : Nat → Nat) (started : List Worker) (H : History) (polls' : Nat),
    started.Sublist (workersOfIteration depth st.bestMv (drawSeeds workers st.rng).1 pollsOf) ∧
    ((joinOf ctx root st.tt started H polls').interrupted = false → (joinOf ctx root st.tt started H polls').panic = Option.none →
      started = workersOfIteration depth st.bestMv (drawSeeds workers st.rng).1 pollsOf) ∧
    Interleaving ctx root st.tt started H ∧
    st' = finishStep ctx root rootHash depth (drawSeeds workers st.rng).2 (joinOf ctx root st.tt started H polls') st

/-- the deepening loop (`for depth in 0..max_depth` with `break`), every iteration under some schedule.  The read of the
flag at the top of the loop body (`boundaryPoll`, since the repair of F11) happens at an arbitrary poll number `p` — as
for the workers, the flag may become visible to the search thread at any instant: `stopped` is the `break` at an
iteration boundary with `depth > 0` (`boundaryPoll` cannot finish at `depth = 0`), `step` is an iteration run because
the boundary read said "not cancelled" (or `depth = 0`). -/
inductive LoopS (ctx : Ctx) (root : State) (rootHash : UInt64) (workersOf : Nat → Nat) : Nat → Nat → IterSt → IterSt → Prop
  | done (depth : Nat) (st : IterSt) : LoopS ctx root rootHash workersOf 0 depth st st
  | finished (n depth : Nat) (st : IterSt) : st.finished = true → LoopS ctx root rootHash workersOf (n + 1) depth st st
  | stopped (n depth : Nat) (st : IterSt) (p : Nat) : st.finished = false →
      (boundaryPoll ctx depth { st with polls := p }).finished = true →
      LoopS ctx root rootHash workersOf (n + 1) depth st (boundaryPoll ctx depth { st with polls := p })
  | step (n depth : Nat) (st st1 st2 : IterSt) (p : Nat) : st.finished = false →
      (boundaryPoll ctx depth { st with polls := p }).finished = false →
      StepS ctx root rootHash (workersOf depth) depth (boundaryPoll ctx depth { st with polls := p }) st1 →
      LoopS ctx root rootHash workersOf n (depth + 1) st1 st2 → LoopS ctx root rootHash workersOf (n + 1) depth st st2

/-- **`analyze_iterative` under arbitrary schedules**: `out` is a possible outcome of the search (`iterate` is the
outcome for the sequential schedules) -/
def SearchS (root : State) (rng0 : Rng.ChaCha8) (maxDepth : Option Nat) (art : Artifact) (workersOf : Nat → Nat)
    (cancelAt : Option Nat) (fuelDepth : Nat) (out : Outcome) : Prop :=
  let keys := art.keys.keys
  let rootHash := Wee.hash keys root
  let history := rootHash :: art.history
  let ctx : Ctx := { keys, history, cancelAt }
  let limit := match maxDepth with | some d => d | Option.none => fuelDepth
  let limit := if (legalMoves root).isEmpty then 0 else limit
  ∃ st : IterSt,
    LoopS ctx root rootHash workersOf limit 0
      { tt := art.tt, rng := rng0, events := [], nodes := 0, bestEval := Ev.negInf, bestMv := Option.none, polls := 0 } st ∧
    out = { events := if st.panic.isNone && st.tt.entries * 2 > st.tt.maxEntries then st.events ++ [.warning] else st.events
            artifact := { keys := art.keys, tt := st.tt, history }, panic := st.panic }

end Wee.Search
