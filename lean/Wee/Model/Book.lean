import Std.Data.HashMap
import Wee.Model.San
import Wee.Model.Fen
import Wee.Model.Hash
import Wee.Gen.EvalTables
/-!
# The opening book (mirror of `weechess-engine/build.rs`, `weechess-core/src/book.rs`,
`weechess-engine/src/book.rs`)

```rust
// build.rs, for every regular file of book/ (read_dir order)
book = book_contents.trim().split("\n\n").map(|c| c.trim_start()).filter(|c| c.starts_with("1."))
    .try_fold(book, |mut book, movetext| {
        let moves = BookParser::parse_movetext(movetext, &hasher).take(BOOK_DEPTH)
            .collect::<Result<Vec<_>, _>>().map_err(BuildError::BookParsing)?;
        for (hash, mov) in moves.into_iter() { book.append(hash, &[mov]); }
        Ok(book) })?;
```

`Book` is a `BTreeMap<Hash, HashSet<Move>>`; here it is a `Std.HashMap UInt64 (List Move)` whose
lists are duplicate free (only the *set* of keys and, per key, the *set* of moves is observable:
`OpeningBook::lookup` hands out the `HashSet`).  A `BookParseError` inside the first `BOOK_DEPTH`
items of a game makes `generate_book_data().unwrap()` panic, i.e. the BUILD fails; that is the
`.error` value of `playMovetext` / `buildBook`.
-/
namespace Wee.Book
open Wee

/-! ## text handling -/

/-- `char::is_whitespace` (Unicode `White_Space`; the same set as `\s` of the `regex` crate) -/
def isWhitespace (c : Char) : Bool := isRegexSpace c

/-- `str::split_whitespace` on a character list: maximal runs of non-whitespace characters
(`cur` = the current run, reversed) -/
def tokensChars : List Char → List Char → List (List Char)
  | [], cur => if cur.isEmpty then [] else [cur.reverse]
  | c :: rest, cur =>
    if isWhitespace c then
      (if cur.isEmpty then tokensChars rest [] else cur.reverse :: tokensChars rest [])
    else tokensChars rest (c :: cur)

/-- `movetext.split_whitespace()` -/
def tokens (s : String) : List String := (tokensChars s.toList []).map String.ofList

/-- the `.filter(|t| …)` of `parse_movetext`: drop the three result tokens and every token that
ends with a dot (`12.`) -/
def keepToken (t : List Char) : Bool :=
  if t = "1/2-1/2".toList then false
  else if t = "1-0".toList then false
  else if t = "0-1".toList then false
  else !(t.getLast? == some '.')

/-- the `.map(|c| …)` of `parse_movetext`: `if let Some(i) = c.find('.') { &c[i + 1..] } else { c }`
— everything after the FIRST dot (so `1.e4` ↦ `e4`, `1...e5` ↦ `..e5`) -/
def stripDot (t : List Char) : List Char :=
  match t.dropWhile (fun c => c != '.') with
  | [] => t
  | _ :: r => r

/-- the move strings handed to the `scan` closure, in order -/
def moveTokensChars (cs : List Char) : List (List Char) :=
  ((tokensChars cs []).filter keepToken).map stripDot

def moveTokens (s : String) : List String := (moveTokensChars s.toList).map String.ofList

/-! ## the `scan` over the game -/

/-- `BookParseError`, plus `panic` for the `unwrap`s inside `compute_legal_moves` -/
inductive BookErr
  | invalidMoveStr (tok : String)
  | unknownMove (tok : String)
  | panic
deriving DecidableEq, Repr, Inhabited

/-- one call of the `scan` closure: SAN-parse the token, take the FIRST legal move (generation
order) passing `MoveQuery::test` (`MoveSet::find`); the answer is the move and the next state -/
def stepToken (s : State) (t : List Char) : Except BookErr (Move × State) :=
  match parseSanChars t with
  | Option.none => .error (.invalidMoveStr (String.ofList t))
  | some q =>
    match legalMoves? s with
    | Option.none => .error .panic
    | some ms =>
      match ms.find? (fun r => q.test r.1) with
      | Option.none => .error (.unknownMove (String.ofList t))
      | some r => .ok r

/-- the items of the `scan` iterator: `(state before the move, move)`; after an `Err` item the
state is unchanged and the iterator goes on (`Some(Err(..))`) -/
def scanMoves : State → List (List Char) → List (Except BookErr (State × Move))
  | _, [] => []
  | s, t :: ts =>
    match stepToken s t with
    | .ok r => .ok (s, r.1) :: scanMoves r.2 ts
    | .error e => .error e :: scanMoves s ts

/-- `Iterator::collect::<Result<Vec<_>, _>>`: the first `Err`, else all values -/
def collect {ε α : Type} : List (Except ε α) → Except ε (List α)
  | [] => .ok []
  | .error e :: _ => .error e
  | .ok a :: rest =>
    match collect rest with
    | .ok l => .ok (a :: l)
    | .error e => .error e

/-- `BookParser::parse_movetext(movetext, hasher)` as the list of its items, the hash not yet
applied: `(state, move)` stands for `(hasher.hash(state), move)` -/
def parseMovetext (movetext : String) : List (Except BookErr (State × Move)) :=
  scanMoves startState (moveTokensChars movetext.toList)

/-- the move strings that `parse_movetext(..).take(BOOK_DEPTH)` ever looks at.  The iterator is lazy, so
`take` can be applied to the token list (`BookLemmas.take_scanMoves`: taking `BOOK_DEPTH` items of
`parseMovetext` gives the same items). -/
def bookTokens (movetext : String) : List (List Char) :=
  (moveTokensChars movetext.toList).take Gen.bookDepth

/-- scan + `collect::<Result<Vec<_>, _>>()` on given move strings -/
def playTokens (toks : List (List Char)) : Except BookErr (List (State × Move)) :=
  collect (scanMoves startState toks)

/-- `parse_movetext(movetext, hasher).take(BOOK_DEPTH).collect::<Result<Vec<_>, _>>()` -/
def playMovetext (movetext : String) : Except BookErr (List (State × Move)) :=
  playTokens (bookTokens movetext)

/-! ## files -/

/-- `str::trim` -/
def trimChars (cs : List Char) : List Char :=
  ((cs.dropWhile isWhitespace).reverse.dropWhile isWhitespace).reverse

/-- `str::split("\n\n")`: leftmost non-overlapping occurrences (`cur` = current piece, reversed) -/
def splitBlank : List Char → List Char → List (List Char)
  | [], cur => [cur.reverse]
  | '\n' :: '\n' :: rest, cur => cur.reverse :: splitBlank rest []
  | c :: rest, cur => splitBlank rest (c :: cur)

/-- `str::trim_start` -/
def trimStartChars (cs : List Char) : List Char := cs.dropWhile isWhitespace

/-- `contents.trim().split("\n\n").map(|c| c.trim_start()).filter(|c| c.starts_with("1."))`
(the `trim_start` is the repair of F7: a missing tag line leaves three newlines in front of the
movetext, so that the chunk began with `\n` and the game was dropped) -/
def gamesOfFileChars (cs : List Char) : List (List Char) :=
  ((splitBlank (trimChars cs) []).map trimStartChars).filter fun c => "1.".toList.isPrefixOf c

def gamesOfFile (contents : String) : List String := (gamesOfFileChars contents.toList).map String.ofList

/-! ## the table -/

/-- `Book` (`BTreeMap<Hash, HashSet<Move>>`) -/
abbrev Table := Std.HashMap UInt64 (List Move)

/-- `Book::append(hash, &[mov])`: `entry(hash).or_insert_with(HashSet::new).extend([mov])` -/
def append (b : Table) (h : UInt64) (m : Move) : Table :=
  let ms := b.getD h []
  b.insert h (if ms.contains m then ms else ms ++ [m])

/-- `Book::find` -/
def find (b : Table) (h : UInt64) : Option (List Move) := b[h]?

/-- `for (hash, mov) in moves { book.append(hash, &[mov]) }` -/
def addRecords (K : Keys) (b : Table) (l : List (State × Move)) : Table :=
  l.foldl (fun b r => append b (hash K r.1) r.2) b

/-- the `try_fold` over the games, given the collected result of every game (`?` = stop at the
first error) -/
def buildFromPlayed (K : Keys) : Table → List (Except BookErr (List (State × Move))) → Except BookErr Table
  | b, [] => .ok b
  | b, .ok l :: rest => buildFromPlayed K (addRecords K b l) rest
  | _, .error e :: _ => .error e

/-- the book built from a list of games (movetext chunks) -/
def buildBookGames (K : Keys) (games : List String) : Except BookErr Table :=
  buildFromPlayed K ∅ (games.map playMovetext)

/-- `generate_book_data`: all games of all files (the order of the files is that of `read_dir`,
i.e. unspecified: `C16_build` shows that it does not matter) -/
def buildBook (K : Keys) (files : List String) : Except BookErr Table :=
  buildBookGames K (files.flatMap gamesOfFile)

/-- `OpeningBook::lookup`: hash the state with the book's hasher, `None` for a missing or empty set -/
def lookup (K : Keys) (b : Table) (s : State) : Option (List Move) :=
  match find b (hash K s) with
  | some ms => if ms.isEmpty then Option.none else some ms
  | Option.none => Option.none

end Wee.Book
