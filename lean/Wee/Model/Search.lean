import Wee.Model.Eval
import Wee.Model.Hash
import Wee.Model.TT
/-!
# Search (mirror of `searcher.rs`: `analyze_iterative`, `analyze_recursive`, `quiescence_search`,
`TranspositionTableMoveIterator`)

The recursion is structural on the *remaining depth* `max_depth - current_depth`, which drops by
exactly one per ply even with check extensions (the extension is added to both).  Quiescence is
structural on a fuel bounded by the number of pieces (every capture removes one).
Panics (`unwrap`, `assert!`) and the interrupt are explicit outcomes.
-/
namespace Wee.Search
open Wee

inductive Stop | interrupt | panic (why : String)
deriving Repr

structure Ctx where
  keys : Keys
  history : List UInt64          -- keys of `state_history`
  cancelAt : Option Nat          -- `Some k`: the k-th poll of the flag and all later ones say "cancelled"

structure St where
  tt : TT.Access
  rng : Rng.ChaCha8
  nodes : Nat                    -- this worker's `nodes_searched`
  polls : Nat                    -- polls of the cancellation flag so far (global)
deriving Inhabited

/-- the state (shared table, counters) survives an interrupt: inserts made before `Stop` stay in the table -/
abbrev M := ExceptT Stop (StateM St)

def kindExact : Nat := 0
def kindUpper : Nat := 1
def kindLower : Nat := 2

/-- `slice::sort_by_cached_key`: keys are computed once, in element order, and only if there are
at least two elements; the sort is stable and ascending -/
def sortByCachedKey {α} (xs : List α) (key : α → M Eval) : M (List α) := do
  if xs.length < 2 then return xs
  let keyed ← xs.mapM fun x => do let k ← key x; pure (k, x)
  return (keyed.mergeSort fun a b => a.1 ≤ b.1).map (·.2)

/-- `rng.gen_range(-10..=10)` -/
def jitter : M Eval := do
  let st ← get
  let (v, r) := Rng.genRangeI32 Gen.jitterLo Gen.jitterHi st.rng
  set { st with rng := r }
  pure v

/-- `quiescence_search` -/
def quiesce (ctxEval : State → Color → Nat → Option Eval) : Nat → State → Nat → Eval → Eval → Except Stop Eval
  | 0, _, _, _, _ => .error (.panic "quiescence fuel exhausted (cannot happen: each capture removes a piece)")
  | fuel+1, s, depth, alpha, beta =>
    match legalMoves? s with
    | Option.none => .error (.panic "move generation")
    | some ms =>
      let evalHere : Except Stop Eval := match ctxEval s s.turn depth with
        | some e => .ok e
        | Option.none => .error (.panic "evaluate: no king")
      if ms.isEmpty then evalHere else
      let isQuiet := ms.all fun r => !Move.isCapture r.1
      match evalHere with
      | .error e => .error e
      | .ok normal =>
        if isQuiet then .ok normal
        else if normal ≥ beta then .ok beta
        else
          let alpha := if alpha < normal then normal else alpha
          -- `sort_by_cached_key(|mv| -(estimation * 10.0) as i32)`, stable ascending
          let key (r : Move × State) : Eval :=
            let moving := pieceWorth (Move.piece r.1)
            let captured := match Move.capture r.1 with | some p => pieceWorth p | Option.none => 0
            F32.toI32 (- (F32.mul (F32.sub captured moving) Gen.quiesceSortFactor))
          let sorted := if ms.length < 2 then ms else ((ms.map fun r => (key r, r)).mergeSort fun a b => a.1 ≤ b.1).map (·.2)
          let rec loop : List (Move × State) → Eval → Except Stop Eval
            | [], alpha => .ok alpha
            | r :: rest, alpha =>
              if !Move.isCapture r.1 then loop rest alpha else
              match quiesce ctxEval fuel r.2 (depth + 1) (-beta) (-alpha) with
              | .error e => .error e
              | .ok v =>
                let ev := -v
                if ev ≥ beta then .ok beta
                else loop rest (if ev > alpha then ev else alpha)
          loop sorted alpha

def quiesceFuel (s : State) : Nat := popcount s.pieces.occ + 2

/-- `calculate_extension_depth` -/
def extensionOf (s : State) : Nat := if s.isCheck then 1 else 0

structure NodeArgs where
  s : State
  maxDepth : Nat
  curDepth : Nat
  curExt : Nat
  alpha : Eval
  beta : Eval
  prioritized : Option Move

/-- the loop over the (reversed) move buffer of `analyze_recursive`; `child` is the recursive call -/
def childLoop (ctx : Ctx) (child : NodeArgs → M Eval) (a : NodeArgs) (hash : UInt64) :
    List Move → Eval → Option Move → Nat → M (Except Eval (Eval × Option Move × Nat))
  | [], alpha, best, kind => pure (.ok (alpha, best, kind))
  | mv :: rest, alpha, best, kind => do
    match tryAsLegal a.s mv with
    | Option.none => throw (.panic "try_as_legal_move: by_performing_move(..).unwrap()")
    | some Option.none => childLoop ctx child a hash rest alpha best kind
    | some (some (m, next)) =>
      let ext := if a.curExt < Gen.extensionCap then extensionOf a.s else 0
      let v ← child { s := next, maxDepth := a.maxDepth + ext, curDepth := a.curDepth + 1 + ext,
                      curExt := a.curExt + ext, alpha := -a.beta, beta := -alpha, prioritized := Option.none }
      let ev := -v
      if ev ≥ a.beta then
        let e : TT.Entry := { kind := kindLower, mv := m.toNat, depth := a.curDepth, maxDepth := a.maxDepth, eval := a.beta }
        modify fun st => { st with tt := st.tt.insert hash.toNat e }
        pure (.error a.beta)
      else if ev > alpha then childLoop ctx child a hash rest ev (some m) kindExact
      else childLoop ctx child a hash rest alpha best kind

/-- `analyze_recursive`; the first argument is the remaining depth `max_depth - current_depth` -/
def searchNode (ctx : Ctx) : Nat → NodeArgs → M Eval
  | rem, a => do
    modify fun st => { st with nodes := st.nodes + 1 }
    let st ← get
    -- `*nodes_searched % 10000 == 0 && token.is_cancelled()`
    if st.nodes % Gen.pollInterval == 0 then
      let cancelled := match ctx.cancelAt with | some k => decide (st.polls ≥ k) | Option.none => false
      set { st with polls := st.polls + 1 }
      if cancelled then throw .interrupt
    let hash := Wee.hash ctx.keys a.s
    if a.curDepth > 0 && ctx.history.contains hash then return 0
    let mut alpha := a.alpha
    let mut beta := a.beta
    match (← get).tt.find hash.toNat with
    | some e =>
      -- `max_depth - current_depth`, `entry.max_depth - entry.depth`: usize subtractions
      if a.maxDepth < a.curDepth ∨ e.maxDepth < e.depth then throw (.panic "usize subtraction underflow")
      if e.maxDepth - e.depth ≥ a.maxDepth - a.curDepth then
        if e.kind == kindExact then return e.eval
        else if e.kind == kindUpper then beta := min beta e.eval
        else alpha := max alpha e.eval
        if alpha ≥ beta then return e.eval
    | Option.none => pure ()
    match rem with
    | 0 =>
      match quiesce evaluate (quiesceFuel a.s) a.s a.curDepth alpha beta with
      | .ok v => return v
      | .error e => throw e
    | rem' + 1 =>
      match pseudoLegalMoves a.s with
      | Option.none => throw (.panic "move generation: Square::offset(..).unwrap()")
      | some pseudo =>
        let sorted ← sortByCachedKey pseudo fun mv => do
          let j ← jitter
          pure (estimate a.s mv + j)
        let buffer := match a.prioritized with | some m => sorted ++ [m] | Option.none => sorted
        let before := (← get).nodes
        let a' := { a with alpha := alpha, beta := beta }
        match ← childLoop ctx (searchNode ctx rem') a' hash buffer.reverse alpha Option.none kindUpper with
        | .error b => return b
        | .ok (alpha', best, kind) =>
          if (← get).nodes == before then
            match evaluate a.s a.s.turn a.curDepth with
            | some e => return e
            | Option.none => throw (.panic "evaluate: no king")
          match best with
          | some m =>
            let e : TT.Entry := { kind := kind, mv := m.toNat, depth := a.curDepth, maxDepth := a.maxDepth, eval := alpha' }
            modify fun st => { st with tt := st.tt.insert hash.toNat e }
          | Option.none => pure ()
          return alpha'

/-- `TranspositionTableMoveIterator` collected: at most `maxDepth + 1` moves -/
def walkLine (keys : Keys) (tt : TT.Access) : Nat → State → List Move
  | 0, _ => []
  | n+1, s =>
    match tt.find (Wee.hash keys s).toNat with
    | Option.none => []
    | some e =>
      match performMove s e.mv.toUInt32 with
      | some (.ok next) => e.mv.toUInt32 :: walkLine keys tt n next
      | _ => []          -- `Err` ends the iteration (a bad discriminant would be a panic; not reachable for stored moves)

inductive Event
  | best (eval : Eval) (line : List Move)
  | progress (depth : Nat) (nodes : Nat)
  | warning
deriving Repr

structure Artifact where
  keys : KeyTable
  tt : TT.Access
  history : List UInt64
deriving Inhabited

structure Outcome where
  events : List Event
  artifact : Artifact
  panic : Option String := Option.none

/-- one worker's run of one iteration -/
def runWorker (ctx : Ctx) (root : State) (searchDepth : Nat) (best : Option Move) (tt : TT.Access)
    (rng : Rng.ChaCha8) (polls : Nat) : Except Stop Eval × St :=
  ((searchNode ctx searchDepth
    { s := root, maxDepth := searchDepth, curDepth := 0, curExt := 0,
      alpha := - Ev.mateInPly 0, beta := Ev.mateInPly 0, prioritized := best }).run).run
    { tt, rng, nodes := 0, polls }

/-- state of the iterative-deepening loop of `analyze_iterative` -/
structure IterSt where
  tt : TT.Access
  rng : Rng.ChaCha8
  events : List Event            -- in emission order
  nodes : Nat
  bestEval : Eval
  bestMv : Option Move
  polls : Nat
  panic : Option String := Option.none
  finished : Bool := false       -- `break` was executed
deriving Inhabited

/-- result of running the workers of one iteration one after the other -/
structure WorkersOut where
  tt : TT.Access
  polls : Nat
  evals : List Eval              -- in worker order
  sumNodes : Nat
  interrupted : Bool := false
  panic : Option String := Option.none

/-- worker `i` of the iteration `depth`: `search_depth = depth.saturating_sub(i % 2) + 1`, only worker 0
gets the previous best move -/
def runWorkers (ctx : Ctx) (root : State) (depth : Nat) (bestMv : Option Move) :
    List (Nat × UInt64) → WorkersOut → WorkersOut
  | [], acc => acc
  | (i, seed) :: rest, acc =>
    if acc.interrupted || acc.panic.isSome then acc else
    let searchDepth := (depth - i % 2) + 1
    match runWorker ctx root searchDepth (if i == 0 then bestMv else Option.none) acc.tt (Rng.seedFromU64 seed) acc.polls with
    | (.ok e, st) =>
      runWorkers ctx root depth bestMv rest
        { acc with tt := st.tt, polls := st.polls, evals := acc.evals ++ [e], sumNodes := acc.sumNodes + st.nodes }
    | (.error .interrupt, st) => { acc with tt := st.tt, polls := st.polls, interrupted := true }
    | (.error (.panic why), _) => { acc with panic := some why }

/-- one `rng.gen()` per worker, in order -/
def drawSeeds : Nat → Rng.ChaCha8 → List UInt64 × Rng.ChaCha8
  | 0, r => ([], r)
  | n+1, r =>
    let (v, r') := Rng.nextU64 r
    let (vs, r'') := drawSeeds n r'
    (v :: vs, r'')

/-- the body of `for depth in 0..max_depth` -/
def iterStep (ctx : Ctx) (root : State) (rootHash : UInt64) (workers : Nat) (depth : Nat) (st : IterSt) : IterSt :=
  let (seeds, rng) := drawSeeds workers st.rng
  let w := runWorkers ctx root depth st.bestMv ((List.range workers).zip seeds)
    { tt := st.tt, polls := st.polls, evals := [], sumNodes := 0 }
  match w.panic with
  | some why => { st with rng, panic := some why, finished := true }
  | Option.none =>
    if !w.interrupted then
      let nodes := st.nodes + w.sumNodes
      let bestEval := match w.evals with | [] => st.bestEval | e :: es => es.foldl max e
      let line := walkLine ctx.keys w.tt (depth + 1) root
      let events := st.events ++ [.progress (depth + 1) nodes]
      -- since the repair of F2: `if line.is_empty() { continue; }` (was `assert!`)
      if line.isEmpty then
        { st with tt := w.tt, rng, polls := w.polls, nodes, bestEval, bestMv := Option.none, events }
      else
        { st with tt := w.tt, rng, polls := w.polls, nodes, bestEval, bestMv := line.head?
                  events := events ++ [.best bestEval line], finished := decide (bestEval ≥ Ev.posInf) }
    else
      let events := match w.tt.find rootHash.toNat with
        | some x =>
          if x.eval > st.bestEval then
            let line := walkLine ctx.keys w.tt (depth + 1) root
            if line.isEmpty then st.events else st.events ++ [.best x.eval line]
          else st.events
        | Option.none => st.events
      { st with tt := w.tt, rng, polls := w.polls, events, finished := true }

/-- since the repair of F11, the first statement of the loop body: `if depth > 0 && token.is_cancelled() { break; }`.
The flag is read between iterations (the workers only read it every `pollInterval` nodes, counted per iteration), but
not before the first one.  Same convention as the poll in `searchNode`: the poll is counted, and it answers
"cancelled" iff `cancelAt = some k` and at least `k` polls happened before it. -/
def boundaryPoll (ctx : Ctx) (depth : Nat) (st : IterSt) : IterSt :=
  if depth > 0 then
    let cancelled := match ctx.cancelAt with | some k => decide (st.polls ≥ k) | Option.none => false
    { st with polls := st.polls + 1, finished := cancelled }
  else st

/-- `for depth in 0..max_depth { … }` with `break` -/
def iterLoop (ctx : Ctx) (root : State) (rootHash : UInt64) (workersOf : Nat → Nat) :
    Nat → Nat → IterSt → IterSt
  | 0, _, st => st
  | n+1, depth, st =>
    if st.finished then st
    else
      let st := boundaryPoll ctx depth st
      if st.finished then st
      else iterLoop ctx root rootHash workersOf n (depth + 1) (iterStep ctx root rootHash (workersOf depth) depth st)

/-- `analyze_iterative` with `workersOf depth` workers in iteration `depth`, run one after the other (for
one worker this is the real execution; for several it is one admissible schedule).
`maxDepth = none` is modelled by `fuelDepth` iterations (the real loop has `usize::MAX`); since the repair of F11
every iteration boundary polls the flag, so with `cancelAt = some k` the result does not depend on the fuel once it is
`≥ k + 2` (`Wee/Props/C04Stop.lean`). -/
def iterate (root : State) (rng0 : Rng.ChaCha8) (maxDepth : Option Nat) (art : Artifact)
    (workersOf : Nat → Nat) (cancelAt : Option Nat) (fuelDepth : Nat := 64) : Outcome :=
  let keys := art.keys.keys
  let rootHash := Wee.hash keys root
  let history := rootHash :: art.history
  let ctx : Ctx := { keys, history, cancelAt }
  let limit := match maxDepth with | some d => d | Option.none => fuelDepth
  -- since the repair of F2: a root without legal moves is not searched at all
  let limit := if (legalMoves root).isEmpty then 0 else limit
  let st := iterLoop ctx root rootHash workersOf limit 0
    { tt := art.tt, rng := rng0, events := [], nodes := 0, bestEval := Ev.negInf, bestMv := Option.none, polls := 0 }
  -- saturation warning: entries / max_entries > 0.5 (f32 division; compared exactly here, the
  -- small tables of the correspondence runs keep away from the rounding boundary)
  let events := if st.panic.isNone && st.tt.entries * 2 > st.tt.maxEntries then st.events ++ [.warning] else st.events
  { events, artifact := { keys := art.keys, tt := st.tt, history }, panic := st.panic }

end Wee.Search
