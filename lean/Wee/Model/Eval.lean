import Wee.Model.MoveGen
import Wee.Model.F32
import Wee.Gen.EvalTables
/-!
# Static evaluation (mirror of `weechess-engine/src/eval/*.rs`)

`Evaluation(i32)` is an `Int`; f32 arithmetic goes through the soft-float of `Model/F32`.
`evalMulF e w` is `impl Mul<f32> for Evaluation`: `((e as f32) * w) as i32`.
-/
namespace Wee
open Gen

abbrev Eval := Int

namespace Ev
def onePawn : Eval := Gen.onePawn
def posInf : Eval := Gen.onePawn * Gen.posInfFactor
def negInf : Eval := Gen.onePawn * Gen.negInfFactor

/-- `Evaluation * f32` -/
def mulF (e : Eval) (w : Rat) : Eval := F32.toI32 (F32.mul (F32.ofInt e) w)

/-- `Evaluation::mate_in_ply` (`ply as i32` wraps for ply ≥ 2^31; callers pass small plies) -/
def mateInPly (ply : Nat) : Eval :=
  let p : Int := ((ply % 2^32 + 2^31) % 2^32 : Nat) - 2^31     -- `as i32`
  posInf + onePawn * (max (Gen.mateBonusPlies - p) Gen.mateBonusFloor)

def isTerminal (e : Eval) : Bool := e ≤ negInf || e ≥ posInf
end Ev

def pieceWorth (p : Piece) : Rat := piecePawnWorths.getD p.code 0

structure Variation where
  s : State
  egw : Rat
  countW : Nat
  countB : Nat

def pieceCount (s : State) (c : Color) (p : Piece) : Nat := popcount (s.pieces.get c p)

/-- `StateVariation::from` -/
def Variation.of (s : State) : Variation :=
  let cnt (c : Color) : Nat := (Piece.all.map (pieceCount s c)).sum
  let countPieces (p : Piece) : Rat := F32.ofInt ((pieceCount s .white p + pieceCount s .black p : Nat) : Int)
  let v1 := F32.div (countPieces .pawn) egD1
  let v2 := F32.div (countPieces .queen) egD2
  let v3 := F32.div (F32.ofInt (popcount s.pieces.occ : Nat)) egD3
  let num := F32.add (F32.add (F32.mul egW1 v1) (F32.mul egW2 v2)) (F32.mul egW3 v3)
  let den := F32.add (F32.add egW1 egW2) egW3
  { s, egw := F32.sub 1 (F32.div num den), countW := cnt .white, countB := cnt .black }

def Variation.count (v : Variation) : Color → Nat | .white => v.countW | .black => v.countB

/-- `evaluate_piece_worths::evaluate` -/
def evalWorths (v : Variation) (c : Color) : Eval :=
  Piece.all.foldl (fun acc p => acc + Ev.mulF Ev.onePawn (pieceWorth p) * (pieceCount v.s c p : Int)) 0

/-- `evaluate_piece_square` -/
def pieceSquare (p : Piece) (sq : Nat) (c : Color) (egw : Rat) : Eval :=
  let sq' := if c == .white then sq else flipRank sq
  let index := flipRank sq'
  let maps := pieceSquareMap.getD p.code (#[], #[])
  let e1 := F32.ofInt (maps.1.getD index 0)
  let e2 := F32.ofInt (maps.2.getD index 0)
  F32.toI32 (F32.add (F32.mul (F32.sub e2 e1) egw) e1)

/-- `evaluate_piece_squares::evaluate` -/
def evalSquares (v : Variation) (c : Color) : Eval :=
  Piece.all.foldl (fun acc p =>
    (bitsOf (v.s.pieces.get c p)).foldl (fun acc sq => acc + pieceSquare p sq c v.egw) acc) 0

/-- `evaluate_force_king_to_edge::evaluate` -/
def evalKingEdge (v : Variation) (c : Color) : Eval :=
  if v.egw < kingEdgeThreshold then 0
  else if v.count c < v.count c.opp + kingEdgeCountMargin then 0
  else match firstOne (v.s.pieces.get c .king), firstOne (v.s.pieces.get c.opp .king) with
    | some ours, some theirs =>
      let kd : Int := manhattan ours theirs
      let rd : Int := min (absDist (rankOf theirs) 0) (absDist (rankOf theirs) 7)
      let fd : Int := min (absDist (fileOf theirs) 0) (absDist (fileOf theirs) 7)
      let disp : Int := kingEdgeCentre - (rd + fd)
      Ev.mulF (kingEdgeFactor * disp - kd) v.egw
    | _, _ => 0

/-- `evaluate_bad_pawns::evaluate` -/
def evalBadPawns (v : Variation) (c : Color) : Eval :=
  let pawns := v.s.pieces.get c .pawn
  (List.range 8).foldl (fun acc f =>
    let acc := if popcount (pawns &&& fileMask f) > doubledPawnMin then acc - Ev.mulF Ev.onePawn doubledPawnPenalty else acc
    let mask : UInt64 := (if f = 0 then 0 else fileMask (f - 1)) ||| (if f = 7 then 0 else fileMask (f + 1))
    if bbNone (pawns &&& mask) then acc - Ev.mulF Ev.onePawn isolatedPawnPenalty else acc) 0

def evaluators : List (Variation → Color → Eval) := [evalWorths, evalSquares, evalKingEdge, evalBadPawns]

/-- the non-terminal part of `Evaluator::evaluate` -/
def evalHeuristic (v : Variation) (perspective : Color) : Eval :=
  (evaluators.zip evaluatorWeights).foldl (fun acc (fw : (Variation → Color → Eval) × Rat) =>
    acc + Ev.mulF (fw.1 v perspective - fw.1 v perspective.opp) fw.2) 0

/-- `king_has_move` shortcut.  Since the repair of F3 its answer is only trusted when the side to
move is not in check (`if !king_has_move || state.is_check()`). -/
def kingHasMove (s : State) : Option Bool :=
  match firstOne (s.pieces.get s.turn .king) with
  | Option.none => Option.none        -- `first_square().unwrap()` panics without a king
  | some k => some (bbAny (kingAttacks k &&& ~~~s.pieces.occ &&& ~~~(coloredAttacks s.pieces s.turn.opp)))

/-- `eval.clamp(NEG_INF + 1, POS_INF - 1)` (since the repair of F10: a heuristic score never looks like a mate score) -/
def clampHeuristic (e : Eval) : Eval := max (Ev.negInf + 1) (min (Ev.posInf - 1) e)

/-- `Evaluator::evaluate(state, perspective, depth)`; `none` = panic -/
def evaluate (s : State) (perspective : Color) (depth : Nat) : Option Eval :=
  match kingHasMove s with
  | Option.none => Option.none
  | some khm =>
    let v := Variation.of s
    if !khm || s.isCheck then
      match legalMoves? s with
      | Option.none => Option.none
      | some ms =>
        if ms.isEmpty && s.isCheck then
          some (if s.turn == perspective then - Ev.mateInPly depth else Ev.mateInPly depth)
        else if ms.isEmpty then some 0
        else some (clampHeuristic (evalHeuristic v perspective))
    else some (clampHeuristic (evalHeuristic v perspective))

/-- `Evaluator::estimate` -/
def estimate (s : State) (mv : Move) : Eval :=
  let p := Move.piece mv
  let c := Move.color mv
  let e : Eval := 0
  let e := if bbAny (coloredPawnAttacks s.pieces c.opp &&& bit (Move.dest mv)) then e - Ev.mulF Ev.onePawn (pieceWorth p) else e
  let e := match Move.capture mv with
    | some cap => e + Ev.mulF Ev.onePawn (pieceWorth cap) * estCaptureFactor - Ev.mulF Ev.onePawn (pieceWorth p)
    | Option.none => e
  let e := if (Move.castleSide mv).isSome then e + Ev.mulF Ev.onePawn estCastleBonus else e
  let e := if Move.isDoublePawn mv then e + Ev.mulF Ev.onePawn estDoublePawnBonus else e
  let e := match Move.promotion mv with
    | some pr => e + Ev.mulF (Ev.mulF Ev.onePawn (pieceWorth pr)) estPromotionFactor
    | Option.none => e
  if (Move.promotion mv).isNone then
    e + (pieceSquare p (Move.dest mv) c estSquareWeight - pieceSquare p (Move.origin mv) c estSquareWeight) * estSquareFactor
  else e

end Wee
