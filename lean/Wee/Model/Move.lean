import Wee.Model.Types
/-!
# Packed moves (mirror of `moves.rs`, `mod compact` and `impl Move`)

A move is the raw `u32`.  `store`/`load`/`bit`/`set_bit` are transcribed literally; layout
constants come from `Wee.Gen.MoveLayout` (regenerated from the Rust source on every run).
Accessors that `unwrap` in Rust return `Option` here (the panic is made explicit).
-/
namespace Wee

abbrev Move := UInt32

namespace Move
open Gen

/-- `compact::store` : `*data |= ((value as u32) << offset) & mask` -/
@[inline] def store (data : UInt32) (off : Nat) (mask : Nat) (value : Nat) : UInt32 :=
  data ||| ((value.toUInt32 <<< off.toUInt32) &&& mask.toUInt32)
/-- `compact::load` : `((data & mask) >> offset) as u8` -/
@[inline] def load (data : UInt32) (off : Nat) (mask : Nat) : Nat :=
  (((data &&& mask.toUInt32) >>> off.toUInt32).toNat) % 256
/-- `compact::bit` -/
@[inline] def getBit (data : UInt32) (b : Nat) : Bool := (data &&& ((1 : UInt32) <<< b.toUInt32)) != 0
/-- `compact::set_bit` -/
@[inline] def setBit (data : UInt32) (b : Nat) (v : Bool) : UInt32 :=
  if v then data ||| ((1 : UInt32) <<< b.toUInt32) else data &&& ~~~((1 : UInt32) <<< b.toUInt32)

/-! accessors -/
@[inline] def pieceCode (m : Move) : Nat := load m PIECE_OFFSET PIECE_MASK
/-- `Move::piece` (`unwrap` on an unknown discriminant made explicit) -/
@[inline] def piece? (m : Move) : Option Piece := Piece.ofCode? (pieceCode m)
@[inline] def piece (m : Move) : Piece := (piece? m).getD .none
@[inline] def origin (m : Move) : Nat := load m ORIGIN_OFFSET ORIGIN_MASK
@[inline] def dest (m : Move) : Nat := load m DEST_OFFSET DEST_MASK
@[inline] def captureCode (m : Move) : Nat := load m CAPTURE_OFFSET CAPTURE_MASK
@[inline] def capture (m : Move) : Option Piece :=
  if captureCode m = 0 then Option.none else Piece.ofCode? (captureCode m)
@[inline] def promotionCode (m : Move) : Nat := load m PROMOTION_OFFSET PROMOTION_MASK
@[inline] def promotion (m : Move) : Option Piece :=
  if promotionCode m = 0 then Option.none else Piece.ofCode? (promotionCode m)
@[inline] def isEnPassant (m : Move) : Bool := getBit m EN_PASSANT_OFFSET
@[inline] def isDoublePawn (m : Move) : Bool := getBit m DOUBLE_PAWN_OFFSET
@[inline] def castleQ (m : Move) : Bool := getBit m CASTLE_QUEENSIDE_OFFSET
@[inline] def castleK (m : Move) : Bool := getBit m CASTLE_KINGSIDE_OFFSET
@[inline] def isWhite (m : Move) : Bool := getBit m COLOR_OFFSET
@[inline] def color (m : Move) : Color := if isWhite m then .white else .black
@[inline] def isCapture (m : Move) : Bool := captureCode m != 0
@[inline] def isPromotion (m : Move) : Bool := promotionCode m != 0
/-- `Move::castle_side` (queenside bit is tested first) -/
@[inline] def castleSide (m : Move) : Option Side :=
  if castleQ m then some .queen else if castleK m then some .king else Option.none
@[inline] def isCastle (m : Move) (s : Side) : Bool := castleSide m == some s
@[inline] def isAnyCastle (m : Move) : Bool := isCastle m .queen || isCastle m .king

/-! constructors -/
/-- `Move::by_moving` -/
def byMoving (c : Color) (p : Piece) (o d : Nat) : Move :=
  let b : UInt32 := 0
  let b := store b PIECE_OFFSET PIECE_MASK p.code
  let b := store b ORIGIN_OFFSET ORIGIN_MASK o
  let b := store b DEST_OFFSET DEST_MASK d
  let b := setBit b COLOR_OFFSET (c == .white)
  if p == .pawn && absDist (rankOf o) (rankOf d) > 1 then setBit b DOUBLE_PAWN_OFFSET true else b
/-- `Move::by_capturing` -/
def byCapturing (c : Color) (p : Piece) (o d : Nat) (cap : Piece) : Move :=
  store (byMoving c p o d) CAPTURE_OFFSET CAPTURE_MASK cap.code
/-- `Move::by_promoting` -/
def byPromoting (c : Color) (p : Piece) (o d : Nat) (pr : Piece) : Move :=
  store (byMoving c p o d) PROMOTION_OFFSET PROMOTION_MASK pr.code
/-- `Move::by_capture_promoting` -/
def byCapturePromoting (c : Color) (p : Piece) (o d : Nat) (cap pr : Piece) : Move :=
  store (store (byMoving c p o d) CAPTURE_OFFSET CAPTURE_MASK cap.code) PROMOTION_OFFSET PROMOTION_MASK pr.code
/-- `Move::by_en_passant` -/
def byEnPassant (c : Color) (p : Piece) (o d : Nat) : Move :=
  store (setBit (byMoving c p o d) EN_PASSANT_OFFSET true) CAPTURE_OFFSET CAPTURE_MASK Piece.pawn.code
/-- `Move::by_castling` -/
def byCastling (c : Color) (s : Side) : Move :=
  let o := kingOrigins[c.idx]!
  let d := castleDests[c.idx]![s.idx]!
  let b := byMoving c .king o d
  let b := setBit b CASTLE_QUEENSIDE_OFFSET (s == .queen)
  setBit b CASTLE_KINGSIDE_OFFSET (s == .king)

/-- `Lan::into_notation(Move)` -/
def lan (m : Move) : String :=
  sqName (origin m) ++ sqName (dest m) ++
    (match promotion m with
     | some p => String.ofList [p.letter.toLower]
     | Option.none => "")

end Move
end Wee
