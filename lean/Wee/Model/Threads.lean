/-!
# The thread / channel protocol of one search as a transition system (all interleavings)

Rust: `searcher.rs` `Searcher::analyze` and `uci.rs` `Search::spawn` / `Search::wait_cancel`.

```rust
// searcher.rs, Searcher::analyze
let (tx1, rx1) = mpsc::channel();            // channel 1: StatusEvent   (sender `sink` in S, receiver → caller → W)
let (tx2, rx2) = mpsc::channel();            // channel 2: ControlEvent  (senders tx2 → M, clone → T, tx3 → S; receiver in C)
let tx3 = tx2.clone();
let control_handle = thread::spawn(move || {                                   // ── C
    let sink = tx1;  let controller = rx2;
    let (signal_token, listen_token) = CancellationToken::new();
    let search_handle = thread::spawn(move || {                                // ── S
        let new_artifact = Self::analyze_iterative(.., listen_token, .., &mut |event| { _ = sink.send(event); });
        tx3.send(ControlEvent::Stop).unwrap();
        new_artifact
    });
    loop { match controller.recv() { Ok(ControlEvent::Stop) => break, Err(mpsc::RecvError) => break } }
    signal_token.cancel();
    search_handle.join().unwrap()
});
(control_handle, tx2, rx1)

// uci.rs, Search::spawn
let timer_stop = control.clone();
_ = thread::spawn(move || loop {                                               // ── T
    if start_time.elapsed().as_secs_f64() >= max_search_time { _ = timer_stop.send(Stop); break; }
    thread::sleep(Duration::from_millis(100));
});
let write_handle = thread::spawn(move || {                                     // ── W
    let mut best_line = vec![];
    while let Ok(event) = receiver.recv() { /* print info lines; BestMove: best_line = line */ }
    if let Some(m) = best_line.first() { println!("bestmove …") }
});

// uci.rs, Search::wait_cancel(self)                                           // ── M
_ = self.control.send(Stop);
let artifact = self.search_handle.join().ok();        // before the repair of F8: .join().unwrap()
_ = self.write_handle.join();
artifact                                              // `self.control` (tx2) is dropped here
```

Five processes — M (the command loop, which executes `wait_cancel` at an arbitrary moment or never), C (control thread),
S (search thread), W (writer thread), T (timer thread) — each with a program counter; the two channels (queue, one
liveness bit per sender, one for the receiver); the cancellation flag; the lines printed so far.  `step` is the
small-step semantics: ONE atomic action of ONE process; it is a *function* of the action label, all non-determinism
(scheduling, what S emits, when S ends / panics, when T fires, when M calls `wait_cancel`) is in the choice of the label.

S is abstract: while it is in `analyze_iterative` (`SPc.run`) it may emit any event (`sEmit e`), end by itself
(`sEndSelf`: depth limit, mate, terminal root), panic (`sPanic`: the F8 scenario — its locals are dropped without `Stop`
being sent), and — only when the cancellation flag is set — end because of it (`sNotice`: the interrupt path; the
`BestMove` event that path may still emit is an `sEmit` before `sNotice`, which is sound because the flag is never
reset).  How long S takes to notice is not bounded in time; that it does is the fairness assumption on `sNotice`
(`Act.fair`) — in counted nodes it is bounded since the repair of F11, which made every iteration boundary a read of
the flag (`Wee/Props/C04Stop.lean`: fewer than `workers × 10000` further nodes, then the loop ends).

What the model assumes about `std` (see also `Wee/Props/Threads.lean`, "assumptions"):
* `mpsc::channel`: unbounded FIFO; `send` never blocks, fails iff the receiver was dropped (then the message is
  discarded); `recv` blocks while the queue is empty and a sender is alive, returns `Err` iff the queue is empty and all
  senders were dropped, and still returns queued messages after all senders were dropped;
* `JoinHandle::join` blocks until the thread's closure has returned or unwound and all its captured variables were
  dropped; it returns `Err` iff the thread panicked;
* a thread's captured senders / receivers are dropped when its closure returns or unwinds.  S owns one sender of each
  channel; the ORDER in which it drops them is not assumed (`sDropSink`, `sDropTx3` in either order, then `sFinish`);
  C, W, T and M each own one end, dropped atomically with the end of the thread (`cJoin`, `wTail`, `tExit`, `mJoinW`);
* `thread::spawn` does not fail and a thread that was not scheduled yet is a thread that has not taken a step;
  `println!` does not panic (stdout stays open); `AtomicBool` store/load are atomic and the flag is never reset.

Direct use of `Searcher::analyze` (the harness; C04's "receiver dropped" clause) is the configuration without W
(`WPc.absent`) and possibly without T: the caller holds `rx1` and may read from it (`callerRecv`) or drop it at any time
(`callerDrop`).
-/
namespace Wee.Threads

/-- a `StatusEvent` as the protocol sees it: `BestMove` carries a line, everything else is `other`; `π` is whatever
else the event carries (evaluation, depth, node count, message) -/
inductive Ev (μ π : Type)
  | best (line : List μ) (p : π)
  | other (p : π)
deriving DecidableEq, Repr

/-- what W prints: the info line(s) of a received event, or the final `bestmove` -/
inductive Line (μ π : Type)
  | info (e : Ev μ π)
  | bestmove (m : μ)
deriving DecidableEq, Repr

/-- M: the command loop.  `idle`: the search is running and `wait_cancel` was not called; `joinC`: `Stop` sent, in
`search_handle.join()`; `joinW`: in `write_handle.join()`; `returned`; `aborted`: the pre-F8 `join().unwrap()` panicked in
the main thread — the process is gone -/
inductive MPc | idle | joinC | joinW | returned | aborted
deriving DecidableEq, Repr

/-- C: `recv` (in `controller.recv()`), `cancel` (about to `signal_token.cancel()`), `joinS` (in
`search_handle.join().unwrap()`), `done` (returned or panicked: `St.cOk`) -/
inductive CPc | recv | cancel | joinS | done
deriving DecidableEq, Repr

/-- S: `run` (inside `analyze_iterative`), `sendStop` (about to `tx3.send(Stop).unwrap()`), `unwind` (closure returned
or panicked, dropping its captured variables), `done` (joinable; `St.sOk` says whether it returned or panicked) -/
inductive SPc | run | sendStop | unwind | done
deriving DecidableEq, Repr

/-- W: `absent` (no writer thread: `Searcher::analyze` used directly), `loop` (in `receiver.recv()`), `tail` (left the
loop, about to print `bestmove`), `done` -/
inductive WPc | absent | loop | tail | done
deriving DecidableEq, Repr

/-- T: `waiting` (sleeping / polling the clock), `fired` (sent `Stop`, about to end), `done` (ended, or no timer) -/
inductive TPc | waiting | fired | done
deriving DecidableEq, Repr

structure St (μ π : Type) where
  m : MPc := .idle
  c : CPc := .recv
  s : SPc := .run
  w : WPc := .loop
  t : TPc := .waiting
  /-- S has not panicked -/
  sOk : Bool := true
  /-- C has not panicked (`search_handle.join().unwrap()`) -/
  cOk : Bool := true
  /-- `self.search_handle.join().ok().is_some()`, meaningful once M is past that join -/
  artifact : Bool := false
  /-- channel 1 (status events): queue, sender `sink` alive, receiver alive -/
  q1 : List (Ev μ π) := []
  sink : Bool := true
  rx1 : Bool := true
  /-- channel 2 (control events — only `Stop` exists, so the queue is a counter): the three senders, the receiver -/
  q2 : Nat := 0
  tx2 : Bool := true
  tx3 : Bool := true
  tt : Bool := true
  rx2 : Bool := true
  /-- the `CancellationToken` -/
  flag : Bool := false
  /-- W's local `best_line` -/
  best : List μ := []
  /-- ghost: every event S passed to `sink.send`, in order (whether or not the send succeeded) -/
  emitted : List (Ev μ π) := []
  /-- ghost: the events W received, in order -/
  consumed : List (Ev μ π) := []
  /-- everything W printed, in order -/
  printed : List (Line μ π) := []
  /-- ghost: `tx3.send(Stop)` failed, i.e. the `unwrap` panicked -/
  sendFailed : Bool := false
  /-- ghost: `analyze_iterative` panicked (`sPanic` was taken) -/
  injected : Bool := false
  /-- ghost: `controller.recv()` returned `Err(RecvError)` -/
  recvErr : Bool := false
deriving DecidableEq, Repr

/-- action labels: one atomic step of one process -/
inductive Act (μ π : Type)
  | mCall        -- M: enter `wait_cancel`: `_ = self.control.send(Stop)`
  | mJoinC       -- M: `self.search_handle.join()` returns (`.ok()` / pre-F8 `.unwrap()`)
  | mJoinW       -- M: `self.write_handle.join()` returns; `wait_cancel` returns and drops `self.control`
  | callerDrop   -- direct use: the caller drops the event receiver
  | callerRecv   -- direct use: the caller takes one event from the queue
  | cRecv        -- C: `controller.recv()` returns (Ok(Stop) or Err)
  | cCancel      -- C: `signal_token.cancel()`
  | cJoin        -- C: `search_handle.join().unwrap()` returns or panics; C ends and drops `controller`
  | sEmit (e : Ev μ π)  -- S: `_ = sink.send(event)`
  | sEndSelf     -- S: `analyze_iterative` returns by itself (depth limit, mate, terminal root)
  | sNotice      -- S: `analyze_iterative` returns on the interrupt path (the flag was read as set)
  | sPanic       -- S: `analyze_iterative` panics
  | sSendStop    -- S: `tx3.send(ControlEvent::Stop).unwrap()`
  | sDropSink    -- S: closure ends / unwinds: `sink` dropped
  | sDropTx3     -- S: closure ends / unwinds: `tx3` dropped
  | sFinish      -- S: thread finished (joinable)
  | wRecv        -- W: `receiver.recv()` = Ok(event): print its info lines, update `best_line`
  | wClosed      -- W: `receiver.recv()` = Err: leave the loop
  | wTail        -- W: `if let Some(m) = best_line.first() { println!("bestmove …") }`; W ends and drops `receiver`
  | tFire        -- T: the time is up: `_ = timer_stop.send(Stop)`
  | tExit        -- T: the thread ends and drops `timer_stop`
deriving DecidableEq, Repr

inductive Proc | M | C | S | W | T
deriving DecidableEq, Repr

def Act.proc {μ π : Type} : Act μ π → Proc
  | .mCall | .mJoinC | .mJoinW | .callerDrop | .callerRecv => .M
  | .cRecv | .cCancel | .cJoin => .C
  | .sEmit _ | .sEndSelf | .sNotice | .sPanic | .sSendStop | .sDropSink | .sDropTx3 | .sFinish => .S
  | .wRecv | .wClosed | .wTail => .W
  | .tFire | .tExit => .T

/-- the actions that are *guaranteed* to happen when they stay enabled (weak fairness): every deterministic step of a
thread that is not blocked (OS scheduling is fair), and `sNotice` — a running search whose flag is set ends (C04).
NOT fair: `mCall` (the user may never send a command), `callerDrop`/`callerRecv`, `sEmit`, `sEndSelf` (a search
without depth limit need not end by itself), `sPanic`, `tFire` (brief: "T may fire at any time or never"). -/
def Act.fair {μ π : Type} : Act μ π → Bool
  | .mCall | .callerDrop | .callerRecv | .sEmit _ | .sEndSelf | .sPanic | .tFire => false
  | _ => true

variable {μ π : Type}

/-- `best_line` after receiving `e` -/
def bestAfter (bl : List μ) : Ev μ π → List μ
  | .best line _ => line
  | .other _ => bl

/-- `if let Some(m) = best_line.first() { println!("bestmove …") }` -/
def tailLines (bl : List μ) : List (Line μ π) :=
  match bl with
  | m :: _ => [.bestmove m]
  | [] => []

/-- **one step.**  `f8 = true` is the code as it stands (`join().ok()`), `false` the code before the repair of F8
(`join().unwrap()` in `wait_cancel`).  `none`: the action is not enabled (the process is elsewhere, or blocked). -/
def step (f8 : Bool) (s : St μ π) (a : Act μ π) : Option (St μ π) :=
  if s.m = .aborted then none else
  match a with
  | .mCall =>
    -- `_ = self.control.send(Stop)`: enqueued iff the receiver is alive, an error is ignored
    if s.m = .idle then some { s with m := .joinC, q2 := if s.rx2 then s.q2 + 1 else s.q2 } else none
  | .mJoinC =>
    -- blocked until C has ended
    if s.m = .joinC ∧ s.c = .done then
      if s.cOk then some { s with m := .joinW, artifact := true }
      else if f8 then some { s with m := .joinW, artifact := false }
      else some { s with m := .aborted }
    else none
  | .mJoinW =>
    -- blocked until W has ended (nothing to join without a writer)
    if s.m = .joinW ∧ (s.w = .done ∨ s.w = .absent) then some { s with m := .returned, tx2 := false } else none
  | .callerDrop =>
    if s.w = .absent ∧ s.rx1 = true then some { s with rx1 := false, q1 := [] } else none
  | .callerRecv =>
    if s.w = .absent ∧ s.rx1 = true then
      match s.q1 with
      | _ :: r => some { s with q1 := r }
      | [] => none
    else none
  | .cRecv =>
    if s.c = .recv then
      if 0 < s.q2 then some { s with c := .cancel, q2 := s.q2 - 1 }
      else if s.tx2 = false ∧ s.tx3 = false ∧ s.tt = false then some { s with c := .cancel, recvErr := true }
      else none
    else none
  | .cCancel =>
    if s.c = .cancel then some { s with c := .joinS, flag := true } else none
  | .cJoin =>
    -- blocked until S has ended; `unwrap` re-raises S's panic; either way C ends and its receiver is dropped
    if s.c = .joinS ∧ s.s = .done then some { s with c := .done, cOk := s.sOk, rx2 := false } else none
  | .sEmit e =>
    -- `_ = sink.send(event)`: enqueued iff the receiver is alive, an error is ignored
    if s.s = .run then
      some { s with emitted := s.emitted ++ [e], q1 := if s.rx1 then s.q1 ++ [e] else s.q1 }
    else none
  | .sEndSelf => if s.s = .run then some { s with s := .sendStop } else none
  | .sNotice => if s.s = .run ∧ s.flag = true then some { s with s := .sendStop } else none
  | .sPanic => if s.s = .run then some { s with s := .unwind, sOk := false, injected := true } else none
  | .sSendStop =>
    -- `tx3.send(Stop).unwrap()`: panics iff the receiver was dropped
    if s.s = .sendStop then
      if s.rx2 then some { s with s := .unwind, q2 := s.q2 + 1 }
      else some { s with s := .unwind, sOk := false, sendFailed := true }
    else none
  | .sDropSink => if s.s = .unwind ∧ s.sink = true then some { s with sink := false } else none
  | .sDropTx3 => if s.s = .unwind ∧ s.tx3 = true then some { s with tx3 := false } else none
  | .sFinish => if s.s = .unwind ∧ s.sink = false ∧ s.tx3 = false then some { s with s := .done } else none
  | .wRecv =>
    if s.w = .loop then
      match s.q1 with
      | e :: r => some { s with q1 := r, consumed := s.consumed ++ [e], printed := s.printed ++ [.info e],
                                best := bestAfter s.best e }
      | [] => none
    else none
  | .wClosed => if s.w = .loop ∧ s.q1 = [] ∧ s.sink = false then some { s with w := .tail } else none
  | .wTail =>
    if s.w = .tail then some { s with w := .done, rx1 := false, printed := s.printed ++ tailLines s.best } else none
  | .tFire =>
    -- `_ = timer_stop.send(Stop)`
    if s.t = .waiting then some { s with t := .fired, q2 := if s.rx2 then s.q2 + 1 else s.q2 } else none
  | .tExit => if s.t = .fired then some { s with t := .done, tt := false } else none

/-- the state right after `Search::spawn` (`writer`, `timer` both true) or after a direct `Searcher::analyze` -/
def init (writer timer : Bool) : St μ π :=
  { w := if writer then .loop else .absent, t := if timer then .waiting else .done, tt := timer }

/-- run a list of actions; `none` if one of them is not enabled -/
def runActs (f8 : Bool) : St μ π → List (Act μ π) → Option (St μ π)
  | s, [] => some s
  | s, a :: r =>
    match step f8 s a with
    | some s' => runActs f8 s' r
    | none => none

/-- the states of all interleavings -/
inductive Reachable (f8 writer timer : Bool) : St μ π → Prop
  | init : Reachable f8 writer timer (init writer timer)
  | step {s s' : St μ π} (a : Act μ π) : Reachable f8 writer timer s → step f8 s a = some s' →
      Reachable f8 writer timer s'

def Enabled (f8 : Bool) (s : St μ π) (a : Act μ π) : Prop := (step f8 s a).isSome = true

instance (f8 : Bool) (s : St μ π) (a : Act μ π) : Decidable (Enabled f8 s a) := by
  unfold Enabled; infer_instance

/-! ## the writer as a function of the event list (what the run is compared with) -/

/-- `best_line` after the events (initially `bl`) -/
def lastBest : List (Ev μ π) → List μ → List μ
  | [], bl => bl
  | e :: r, bl => lastBest r (bestAfter bl e)

/-- everything the writer prints for the events `evs` of a search -/
def writerOut (evs : List (Ev μ π)) : List (Line μ π) :=
  evs.map Line.info ++ tailLines (lastBest evs [])

/-- the `bestmove` lines among printed lines -/
def bestmoves : List (Line μ π) → List μ
  | [] => []
  | .bestmove m :: r => m :: bestmoves r
  | .info _ :: r => bestmoves r

/-- the line of the LAST `BestMove` event -/
def lastBestEvent : List (Ev μ π) → Option (List μ)
  | [] => none
  | .best line _ :: r => (lastBestEvent r).or (some line)
  | .other _ :: r => lastBestEvent r

/-! ## bounded exploration (executable)

Not used by any proof (the theorems of `Wee/Props/Threads.lean` hold for every number of events, by induction).  Run in
the interpreter as a cross-check of the statements (alphabet `{best [1], other}`): bound 1 — 2024 states with writer and
timer, 544 without either, 2009 for the pre-F8 variant; bound 2 — 5976 states; each a fixed point, every state
satisfying the Boolean forms of no-deadlock, at-most-one-bestmove, `printed = writerOut emitted` at return. -/

/-- the actions tried by the exploration: every label, with `sEmit` over the given alphabet -/
def allActs (alphabet : List (Ev μ π)) : List (Act μ π) :=
  [.mCall, .mJoinC, .mJoinW, .callerDrop, .callerRecv, .cRecv, .cCancel, .cJoin] ++ alphabet.map .sEmit ++
  [.sEndSelf, .sNotice, .sPanic, .sSendStop, .sDropSink, .sDropTx3, .sFinish, .wRecv, .wClosed, .wTail, .tFire, .tExit]

/-- successors of a state, `sEmit` only while fewer than `bound` events were emitted -/
def successors (f8 : Bool) (alphabet : List (Ev μ π)) (bound : Nat) (s : St μ π) : List (St μ π) :=
  (allActs alphabet).filterMap fun a =>
    match a with
    | .sEmit _ => if s.emitted.length < bound then step f8 s a else none
    | _ => step f8 s a

/-- breadth-first closure: `fuel` rounds; returns the visited states and whether a fixed point was reached -/
def explore [DecidableEq μ] [DecidableEq π] (f8 : Bool) (alphabet : List (Ev μ π)) (bound : Nat) :
    Nat → List (St μ π) → List (St μ π) → List (St μ π) × Bool
  | 0, seen, frontier => (seen, frontier.isEmpty)
  | fuel + 1, seen, frontier =>
    if frontier.isEmpty then (seen, true) else
    let next := frontier.foldl (fun acc s =>
      (successors f8 alphabet bound s).foldl (fun acc s' => if s' ∈ seen ∨ s' ∈ acc then acc else s' :: acc) acc) []
    explore f8 alphabet bound fuel (next ++ seen) next

end Wee.Threads
