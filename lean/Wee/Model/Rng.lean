/-!
# ChaCha8Rng (mirror of rand_core 0.6.4 `seed_from_u64`, rand_chacha 0.3.1, rand 0.8.5 `gen_range`)

Third-party code: modelled and validated by correspondence on streams for many seeds, not verified.
-/
namespace Wee.Rng

def rotl (x : UInt32) (n : UInt32) : UInt32 := (x <<< n) ||| (x >>> (32 - n))

def qr (s : Array UInt32) (a b c d : Nat) : Array UInt32 :=
  let sa := s[a]!; let sb := s[b]!; let sc := s[c]!; let sd := s[d]!
  let sa := sa + sb; let sd := rotl (sd ^^^ sa) 16
  let sc := sc + sd; let sb := rotl (sb ^^^ sc) 12
  let sa := sa + sb; let sd := rotl (sd ^^^ sa) 8
  let sc := sc + sd; let sb := rotl (sb ^^^ sc) 7
  (((s.set! a sa).set! b sb).set! c sc).set! d sd

def doubleRound (s : Array UInt32) : Array UInt32 :=
  let s := qr s 0 4 8 12
  let s := qr s 1 5 9 13
  let s := qr s 2 6 10 14
  let s := qr s 3 7 11 15
  let s := qr s 0 5 10 15
  let s := qr s 1 6 11 12
  let s := qr s 2 7 8 13
  qr s 3 4 9 14

def block (key : Array UInt32) (counter : UInt64) (rounds : Nat) : Array UInt32 :=
  let init : Array UInt32 := (#[0x61707865, 0x3320646e, 0x79622d32, 0x6b206574] : Array UInt32) ++ key ++
    (#[counter.toUInt32, (counter >>> 32).toUInt32, 0, 0] : Array UInt32)
  let s := (List.range (rounds / 2)).foldl (fun s _ => doubleRound s) init
  (List.range 16).toArray.map fun i => s[i]! + init[i]!

/-- one step of the PCG32 generator used by `SeedableRng::seed_from_u64` -/
def pcg32 (state : UInt64) : UInt64 × UInt32 :=
  let state := state * 6364136223846793005 + 11634580027462260723
  let xorshifted : UInt32 := (((state >>> 18) ^^^ state) >>> 27).toUInt32
  let rot : UInt32 := (state >>> 59).toUInt32
  let x := (xorshifted >>> rot) ||| (xorshifted <<< ((32 - rot) % 32))
  (state, x)

structure ChaCha8 where
  key : Array UInt32
  counter : UInt64      -- next block counter
  buf : Array UInt32    -- 64 words (4 blocks)
  index : Nat           -- 64 = empty
deriving Repr, Inhabited

def seedFromU64 (seed : UInt64) : ChaCha8 :=
  let (_, key) := (List.range 8).foldl (fun (st : UInt64 × Array UInt32) _ =>
    let (st', x) := pcg32 st.1; (st', st.2.push x)) (seed, #[])
  { key, counter := 0, buf := Array.replicate 64 0, index := 64 }

def refill (r : ChaCha8) : ChaCha8 :=
  let buf := (List.range 4).foldl (fun (b : Array UInt32) i => b ++ block r.key (r.counter + i.toUInt64) 8) #[]
  { r with buf, counter := r.counter + 4, index := 0 }

def nextU32 (r : ChaCha8) : UInt32 × ChaCha8 :=
  let r := if r.index ≥ 64 then refill r else r
  (r.buf[r.index]!, { r with index := r.index + 1 })

def nextU64 (r : ChaCha8) : UInt64 × ChaCha8 :=
  if r.index < 63 then
    let lo := r.buf[r.index]!; let hi := r.buf[r.index + 1]!
    ((hi.toUInt64 <<< 32) ||| lo.toUInt64, { r with index := r.index + 2 })
  else if r.index ≥ 64 then
    let r := refill r
    let lo := r.buf[0]!; let hi := r.buf[1]!
    ((hi.toUInt64 <<< 32) ||| lo.toUInt64, { r with index := 2 })
  else
    let lo := r.buf[63]!
    let r := refill r
    let hi := r.buf[0]!
    ((hi.toUInt64 <<< 32) ||| lo.toUInt64, { r with index := 1 })

/-- rand 0.8 `gen_range(low..=high)` for `i32` (`UniformInt::sample_single_inclusive`): widening
multiply with the `(range << lz) - 1` rejection zone.  The rejection loop takes a fuel argument;
running out of fuel (probability < 2^-fuel) returns the last candidate. -/
def genRangeI32 (low high : Int) (r : ChaCha8) (fuel : Nat := 64) : Int × ChaCha8 :=
  let range : UInt32 := (high - low + 1).toNat.toUInt32
  let lz : UInt32 := (32 - (Nat.log2 range.toNat + 1)).toUInt32
  let zone : UInt32 := (range <<< lz) - 1
  let rec loop : Nat → ChaCha8 → Int × ChaCha8
    | 0, r => (low, r)
    | f+1, r =>
      let (v, r) := nextU32 r
      let m : UInt64 := v.toUInt64 * range.toUInt64
      let hi := (m >>> 32).toUInt32; let lo := m.toUInt32
      if lo ≤ zone then (low + hi.toNat, r) else loop f r
  loop fuel r

end Wee.Rng
