/-!
# binary32 soft-float (exact model of the f32 operations the evaluator uses)

A finite binary32 value is represented by the rational it denotes.  Every operation is "compute
exactly in `Rat`, round to nearest-even at 24 significant bits" (IEEE-754 round-to-nearest-even;
subnormals handled, overflow not — all values here are far below 2^128).  Defined through sign and
magnitude so that `round32 (-q) = - round32 q` is immediate (needed by C13).
Validated against Rust `f32` through the evaluator correspondence and against Lean's native
`Float32` inside the driver.
-/
namespace Wee.F32

def pow2 (k : Int) : Rat := if k ≥ 0 then ((2 ^ k.toNat : Nat) : Rat) else 1 / ((2 ^ (-k).toNat : Nat) : Rat)

/-- floor(log2 q) for q > 0 -/
def ilog2 (q : Rat) : Int :=
  let n := q.num.toNat
  let d := q.den
  let e : Int := (Nat.log2 n : Int) - (Nat.log2 d : Int)
  if q < pow2 e then e - 1 else if q < pow2 (e + 1) then e else e + 1

/-- round a non-negative rational to the nearest integer, ties to even -/
def rne (n : Rat) : Int :=
  let f := n.floor
  let r := n - (f : Rat)
  if r < 1/2 then f else if r > 1/2 then f + 1 else if f % 2 = 0 then f else f + 1

/-- nearest binary32 of a positive rational -/
def roundPos (q : Rat) : Rat :=
  let e := ilog2 q
  let e' := if e < -126 then -126 else e
  let ulp := pow2 (e' - 23)
  ((rne (q / ulp) : Int) : Rat) * ulp

def round32 (q : Rat) : Rat :=
  if q = 0 then 0 else if q < 0 then - roundPos (-q) else roundPos q

def mul (a b : Rat) : Rat := round32 (a * b)
def add (a b : Rat) : Rat := round32 (a + b)
def sub (a b : Rat) : Rat := round32 (a - b)
def div (a b : Rat) : Rat := round32 (a / b)
/-- `i as f32` -/
def ofInt (i : Int) : Rat := round32 (i : Rat)
/-- `x as i32`: truncate toward zero, saturate -/
def toI32 (q : Rat) : Int :=
  let t : Int := if q ≥ 0 then q.floor else - (-q).floor
  if t > 2147483647 then 2147483647 else if t < -2147483648 then -2147483648 else t

/-! ## Lemmas about the soft-float (moved here from `Wee/Proofs/EvalLemmas.lean`)

Core-only proofs (no Mathlib).  They are on the model side because the `@[csimp]` fast paths at the
end of this file (which must be in scope when `Wee/Model/Eval.lean` is compiled) rest on them. -/

/-! ### oddness -/

theorem round32_neg (q : Rat) : round32 (-q) = - round32 q := by
  unfold round32
  by_cases h0 : q = 0
  · subst h0; simp
  · have h0' : ¬ (-q = 0) := by
      intro h; apply h0; have := congrArg (fun x => -x) h; simpa [Rat.neg_neg] using this
    simp only [h0, h0', if_false]
    by_cases hneg : q < 0
    · have : ¬ (-q < 0) := by
        intro h
        have h1 : -(0:Rat) < -(-q) := Rat.neg_lt_neg h
        rw [Rat.neg_neg] at h1
        have h2 : (0:Rat) < q := by simpa using h1
        exact Rat.lt_irrefl (Std.lt_trans hneg h2)
      simp [hneg, this, Rat.neg_neg]
    · have hle : 0 ≤ q := Rat.not_lt.1 hneg
      have hpos : 0 < q := Rat.lt_iff_le_and_ne.2 ⟨hle, fun h => h0 h.symm⟩
      have : -q < 0 := by
        have h1 : -q < -(0:Rat) := Rat.neg_lt_neg hpos
        simpa using h1
      simp [hneg, this]

/-! ## `pow2`, `ilog2` -/

theorem pow2_nat (n : Nat) : pow2 (n : Int) = ((2 ^ n : Nat) : Rat) := by
  unfold pow2; simp

theorem pow2_pos (k : Int) : 0 < pow2 k := by
  unfold pow2
  split
  · exact Rat.natCast_pos.2 (Nat.pow_pos (by decide))
  · have h : (0:Rat) < ((2 ^ (-k).toNat : Nat) : Rat) := Rat.natCast_pos.2 (Nat.pow_pos (by decide))
    rw [Rat.div_def, Rat.one_mul]; exact Rat.inv_pos.2 h

theorem pow2_succ (k : Int) : pow2 (k + 1) = 2 * pow2 k := by
  unfold pow2
  by_cases h : k ≥ 0
  · have h1 : k + 1 ≥ 0 := by omega
    have : (k + 1).toNat = k.toNat + 1 := by omega
    simp only [h, h1, if_true, this, Nat.pow_succ, Rat.natCast_mul]
    grind
  · by_cases h1 : k + 1 ≥ 0
    · have hk : k = -1 := by omega
      subst hk; simp; grind
    · have : (-k).toNat = (-(k+1)).toNat + 1 := by omega
      simp only [h, h1, if_false, this, Nat.pow_succ, Rat.natCast_mul]
      have hp : (0:Rat) < ((2 ^ (-(k + 1)).toNat : Nat) : Rat) := Rat.natCast_pos.2 (Nat.pow_pos (by decide))
      generalize ((2 ^ (-(k + 1)).toNat : Nat) : Rat) = x at hp
      simp
      grind

/-- `pow2 (k + n) = 2^n * pow2 k` -/
theorem pow2_add_nat (k : Int) (n : Nat) : pow2 (k + n) = ((2 ^ n : Nat) : Rat) * pow2 k := by
  induction n with
  | zero => simp
  | succ n ih =>
    have : k + ((n + 1 : Nat) : Int) = (k + n) + 1 := by omega
    rw [this, pow2_succ, ih, Nat.pow_succ, Rat.natCast_mul]; grind

theorem pow2_le_of_le {k j : Int} (h : k ≤ j) : pow2 k ≤ pow2 j := by
  obtain ⟨n, rfl⟩ : ∃ n : Nat, j = k + n := ⟨(j - k).toNat, by omega⟩
  rw [pow2_add_nat]
  have h1 : (1 : Rat) ≤ ((2 ^ n : Nat) : Rat) := by
    have : (1 : Nat) ≤ 2 ^ n := Nat.pow_pos (by decide)
    simpa using Rat.natCast_le_natCast.2 this
  have := Rat.mul_le_mul_of_nonneg_right h1 (Rat.le_of_lt (pow2_pos k))
  simpa using this

theorem pow2_lt_of_lt {k j : Int} (h : k < j) : pow2 k < pow2 j := by
  have h1 : pow2 (k + 1) ≤ pow2 j := pow2_le_of_le (by omega)
  have h2 := pow2_pos k
  rw [pow2_succ] at h1
  grind

theorem lt_of_pow2_lt {k j : Int} (h : pow2 k < pow2 j) : k < j := by
  apply Decidable.byContradiction; intro hn
  have := pow2_le_of_le (Int.not_lt.1 hn)
  grind

/-- specification of `ilog2` -/
theorem ilog2_spec {q : Rat} (hq : 0 < q) : pow2 (ilog2 q) ≤ q ∧ q < pow2 (ilog2 q + 1) := by
  have hnum : 0 < q.num := by
    have := (Rat.lt_iff 0 q).1 hq; simpa using this
  have hden : 0 < q.den := Nat.pos_of_ne_zero q.den_nz
  -- n, d as naturals
  obtain ⟨n, hn⟩ : ∃ n : Nat, q.num = n := ⟨q.num.toNat, by omega⟩
  have hn0 : n ≠ 0 := by omega
  have hqd : q * (q.den : Rat) = (n : Rat) := by
    have h1 : q = (q.num : Rat) / (q.den : Rat) := by
      rw [← Rat.mkRat_eq_div, Rat.mkRat_self]
    have h2 : (q.den : Rat) ≠ 0 := by simpa using q.den_nz
    have h3 := Rat.div_mul_cancel (a := (q.num : Rat)) h2
    rw [← h1, hn] at h3; exact h3
  -- log2 bounds
  have hn1 := Nat.log2_self_le hn0
  have hn2 := Nat.lt_log2_self (n := n)
  have hd1 := Nat.log2_self_le q.den_nz
  have hd2 := Nat.lt_log2_self (n := q.den)
  have e1 : q.num.toNat = n := by omega
  generalize hln : n.log2 = ln at *
  generalize hld : q.den.log2 = ld at *
  -- cast to Rat
  have cn1 : ((2 ^ ln : Nat) : Rat) ≤ (n : Rat) := Rat.natCast_le_natCast.2 hn1
  have cn2 : (n : Rat) < ((2 ^ (ln + 1) : Nat) : Rat) := Rat.natCast_lt_natCast.2 hn2
  have cd1 : ((2 ^ ld : Nat) : Rat) ≤ (q.den : Rat) := Rat.natCast_le_natCast.2 hd1
  have cd2 : (q.den : Rat) < ((2 ^ (ld + 1) : Nat) : Rat) := Rat.natCast_lt_natCast.2 hd2
  have pd : (0 : Rat) < ((2 ^ ld : Nat) : Rat) := Rat.natCast_pos.2 (Nat.pow_pos (by decide))
  -- pow2 (ln - ld) * 2^ld = 2^ln
  have key : pow2 ((ln : Int) - (ld : Int)) * ((2 ^ ld : Nat) : Rat) = ((2 ^ ln : Nat) : Rat) := by
    have := pow2_add_nat ((ln : Int) - (ld : Int)) ld
    rw [show (ln : Int) - (ld : Int) + (ld : Int) = (ln : Int) by omega, pow2_nat] at this
    rw [this]; grind
  -- q < pow2 (e + 1)
  have hup : q < pow2 ((ln : Int) - (ld : Int) + 1) := by
    apply Rat.lt_of_mul_lt_mul_right (c := ((2 ^ ld : Nat) : Rat)) _ (Rat.le_of_lt pd)
    rw [pow2_succ, Rat.mul_assoc, key]
    have h1 : q * ((2 ^ ld : Nat) : Rat) ≤ q * (q.den : Rat) :=
      Rat.mul_le_mul_of_nonneg_left cd1 (Rat.le_of_lt hq)
    rw [Nat.pow_succ, Rat.natCast_mul] at cn2
    grind
  -- pow2 (e - 1) ≤ q
  have hlo : pow2 ((ln : Int) - (ld : Int) - 1) ≤ q := by
    apply Rat.le_of_mul_le_mul_right (c := ((2 ^ (ld+1) : Nat) : Rat)) _ (Rat.natCast_pos.2 (Nat.pow_pos (by decide)))
    have h0 : pow2 ((ln : Int) - (ld : Int)) = 2 * pow2 ((ln : Int) - (ld : Int) - 1) := by
      rw [← pow2_succ]; congr 1; omega
    have h1 : q * (q.den : Rat) ≤ q * ((2 ^ (ld + 1) : Nat) : Rat) :=
      Rat.mul_le_mul_of_nonneg_left (Rat.le_of_lt cd2) (Rat.le_of_lt hq)
    rw [Nat.pow_succ, Rat.natCast_mul] at h1 ⊢
    rw [h0] at key
    rw [hqd] at h1
    clear hup cd1 cd2 hd1 hd2 hn1 hn2 cn2 hqd h0 pd
    generalize pow2 ((ln : Int) - (ld : Int) - 1) = P at *
    generalize ((2 ^ ld : Nat) : Rat) = A at *
    generalize ((2 ^ ln : Nat) : Rat) = L at *
    have h2 : ((2 : Nat) : Rat) = 2 := by simp
    rw [h2] at h1 ⊢
    have : P * (A * 2) = L := by grind
    grind
  unfold ilog2
  simp only [e1, hln, hld]
  split
  · rename_i h
    refine ⟨hlo, ?_⟩
    rw [show (ln : Int) - (ld : Int) - 1 + 1 = (ln : Int) - (ld : Int) by omega]; exact h
  · rename_i h
    exact ⟨Rat.not_lt.1 h, hup⟩
/-! ## rounding never crosses a small integer -/

theorem rne_cases (x : Rat) : rne x = x.floor ∨ (rne x = x.floor + 1 ∧ (x.floor : Rat) < x) := by
  unfold rne
  simp only
  split
  · left; rfl
  · rename_i h
    have hx : (x.floor : Rat) < x := by grind
    split
    · right; exact ⟨rfl, hx⟩
    · split
      · left; rfl
      · right; exact ⟨rfl, hx⟩

theorem rne_le {x : Rat} {M : Int} (h : x ≤ (M : Rat)) : rne x ≤ M := by
  have hf : x.floor ≤ M := by
    have := Rat.floor_monotone h; rwa [Rat.floor_intCast] at this
  rcases rne_cases x with h1 | ⟨h1, h2⟩
  · omega
  · rw [h1]
    have : x.floor < M := by
      apply Decidable.byContradiction; intro hn
      have he : x.floor = M := by omega
      rw [he] at h2; grind
    omega

theorem le_rne {x : Rat} {M : Int} (h : (M : Rat) ≤ x) : M ≤ rne x := by
  have hf : M ≤ x.floor := Rat.le_floor_iff.2 h
  rcases rne_cases x with h1 | ⟨h1, _⟩ <;> omega

theorem rne_intCast (M : Int) : rne (M : Rat) = M := by
  have h1 := rne_le (x := (M : Rat)) (M := M) Rat.le_refl
  have h2 := le_rne (x := (M : Rat)) (M := M) Rat.le_refl
  omega

/-- the `ulp` used by `roundPos q` -/
def ulpOf (q : Rat) : Rat := pow2 ((if ilog2 q < -126 then -126 else ilog2 q) - 23)

theorem roundPos_def (q : Rat) : roundPos q = ((rne (q / ulpOf q) : Int) : Rat) * ulpOf q := rfl

theorem ulpOf_pos (q : Rat) : 0 < ulpOf q := pow2_pos _

/-- below `2^24` the unit in the last place divides 1 -/
theorem ulpOf_dvd_one {q : Rat} (hq : 0 < q) (h24 : q < 16777216) :
    ∃ j : Nat, ulpOf q * ((2 ^ j : Nat) : Rat) = 1 := by
  have hs := ilog2_spec hq
  have h1 : pow2 (ilog2 q) < pow2 24 := by
    have : pow2 24 = 16777216 := by
      have := pow2_nat 24; simpa using this
    rw [this]; grind
  have h2 : ilog2 q < 24 := lt_of_pow2_lt h1
  unfold ulpOf
  generalize he : (if ilog2 q < -126 then -126 else ilog2 q) = e'
  have he' : e' ≤ 23 := by split at he <;> omega
  refine ⟨(23 - e').toNat, ?_⟩
  have := pow2_add_nat (e' - 23) (23 - e').toNat
  rw [show e' - 23 + ((23 - e').toNat : Int) = ((0 : Nat) : Int) by omega, pow2_nat] at this
  rw [Rat.mul_comm, ← this]; simp

/-- rounding never crosses an integer below `2^24` (upper side) -/
theorem roundPos_le {q : Rat} {N : Nat} (hq : 0 < q) (hN : N < 16777216) (h : q ≤ (N : Rat)) :
    roundPos q ≤ (N : Rat) := by
  have h24 : q < 16777216 := by
    have : (N : Rat) < ((16777216 : Nat) : Rat) := Rat.natCast_lt_natCast.2 hN
    simp at this; grind
  obtain ⟨j, hj⟩ := ulpOf_dvd_one hq h24
  have hu := ulpOf_pos q
  rw [roundPos_def]
  generalize ulpOf q = u at *
  have hinv : u⁻¹ = ((2 ^ j : Nat) : Rat) := Rat.inv_eq_of_mul_eq_one hj
  have hp : (0 : Rat) ≤ ((2 ^ j : Nat) : Rat) := Rat.natCast_nonneg
  have hM : q / u ≤ (((N * 2 ^ j : Nat) : Int) : Rat) := by
    rw [Rat.div_def, hinv, Rat.intCast_natCast, Rat.natCast_mul]
    exact Rat.mul_le_mul_of_nonneg_right h hp
  have h1 := Rat.intCast_le_intCast.2 (rne_le hM)
  have h2 := Rat.mul_le_mul_of_nonneg_right h1 (Rat.le_of_lt hu)
  rw [Rat.intCast_natCast, Rat.natCast_mul] at h2
  generalize ((2 ^ j : Nat) : Rat) = P at *
  rw [Rat.mul_assoc, Rat.mul_comm P u, hj, Rat.mul_one] at h2
  exact h2

/-- rounding never crosses an integer below `2^24` (lower side) -/
theorem le_roundPos {q : Rat} {N : Nat} (hq : 0 < q) (h24 : q < 16777216) (h : (N : Rat) ≤ q) :
    (N : Rat) ≤ roundPos q := by
  obtain ⟨j, hj⟩ := ulpOf_dvd_one hq h24
  have hu := ulpOf_pos q
  rw [roundPos_def]
  generalize ulpOf q = u at *
  have hinv : u⁻¹ = ((2 ^ j : Nat) : Rat) := Rat.inv_eq_of_mul_eq_one hj
  have hp : (0 : Rat) ≤ ((2 ^ j : Nat) : Rat) := Rat.natCast_nonneg
  have hM : (((N * 2 ^ j : Nat) : Int) : Rat) ≤ q / u := by
    rw [Rat.div_def, hinv, Rat.intCast_natCast, Rat.natCast_mul]
    exact Rat.mul_le_mul_of_nonneg_right h hp
  have h1 := Rat.intCast_le_intCast.2 (le_rne hM)
  have h2 := Rat.mul_le_mul_of_nonneg_right h1 (Rat.le_of_lt hu)
  rw [Rat.intCast_natCast, Rat.natCast_mul] at h2
  generalize ((2 ^ j : Nat) : Rat) = P at *
  rw [Rat.mul_assoc, Rat.mul_comm P u, hj, Rat.mul_one] at h2
  exact h2

theorem roundPos_nonneg {q : Rat} (hq : 0 < q) : 0 ≤ roundPos q := by
  rw [roundPos_def]
  have hu := ulpOf_pos q
  have hx : ((0 : Int) : Rat) ≤ q / ulpOf q := by
    rw [Rat.div_def]
    exact Rat.le_of_lt (Rat.mul_pos hq (Rat.inv_pos.2 hu))
  have := Rat.intCast_le_intCast.2 (le_rne hx)
  exact Rat.mul_nonneg (by simpa using this) (Rat.le_of_lt hu)

/-- **integer-bound lemma**: `|q| ≤ N < 2^24` ⇒ `|round32 q| ≤ N` -/
theorem round32_bounds {q : Rat} {N : Nat} (hN : N < 16777216) (hl : -(N : Rat) ≤ q) (hu : q ≤ (N : Rat)) :
    -(N : Rat) ≤ round32 q ∧ round32 q ≤ (N : Rat) := by
  have hN0 : (0 : Rat) ≤ (N : Rat) := Rat.natCast_nonneg
  unfold round32
  split
  · grind
  · rename_i h0
    split
    · rename_i hneg
      have hp : 0 < -q := by grind
      have h1 := roundPos_le hp hN (by grind)
      have h2 := roundPos_nonneg hp
      grind
    · rename_i hneg
      have hp : 0 < q := by grind
      have h1 := roundPos_le hp hN hu
      have h2 := roundPos_nonneg hp
      grind

/-- integers below `2^24` are representable -/
theorem round32_natCast {N : Nat} (hN : N < 16777216) : round32 (N : Rat) = (N : Rat) := by
  unfold round32
  split
  · rename_i h; rw [h]
  · rename_i h0
    have hN0 : (0 : Rat) ≤ (N : Rat) := Rat.natCast_nonneg
    have hp : 0 < (N : Rat) := by grind
    have hneg : ¬ (N : Rat) < 0 := by grind
    rw [if_neg hneg]
    have h24 : (N : Rat) < 16777216 := by
      have : (N : Rat) < ((16777216 : Nat) : Rat) := Rat.natCast_lt_natCast.2 hN
      simpa using this
    have h1 := roundPos_le hp hN Rat.le_refl
    have h2 := le_roundPos hp h24 Rat.le_refl
    exact Rat.le_antisymm h1 h2

theorem round32_intCast {i : Int} (h1 : -16777216 < i) (h2 : i < 16777216) : round32 (i : Rat) = (i : Rat) := by
  by_cases h : 0 ≤ i
  · obtain ⟨n, rfl⟩ : ∃ n : Nat, i = n := ⟨i.toNat, by omega⟩
    exact round32_natCast (by omega)
  · obtain ⟨n, rfl⟩ : ∃ n : Nat, i = -(n : Int) := ⟨(-i).toNat, by omega⟩
    rw [Rat.intCast_neg, round32_neg]
    congr 1
    exact round32_natCast (by omega)

end Wee.F32

/-! ## Compiled fast paths (`@[csimp]`)

Nothing below changes a definition: each `@[csimp]` theorem proves that a model function is EQUAL to
a faster implementation, and only the code generator uses it (the kernel, `decide` and every proof
keep seeing the definitions above).

`round32 (N / D)` is computed on the integers `N`, `D` (not necessarily coprime): `ilog2` by
comparing shifted integers, `rne` by one integer division, the result `m · 2^u` assembled without a
gcd.  `mul`, `add`, `sub`, `div`, `ofInt` feed it the un-normalised numerator and denominator, so
no `Rat` arithmetic (two gcds per operation, each through GMP) is executed at all. -/
namespace Wee.F32.Fast
open Wee.F32

/-- powers of two below `2^128`, computed once (`Nat.pow` and `Nat.shiftLeft` go through GMP even for
small results; `Nat.mul` does not) -/
def twoPowTab : Array Nat := (Array.range 128).map (2 ^ ·)

@[inline] def twoPow (k : Nat) : Nat := if h : k < twoPowTab.size then twoPowTab[k] else 2 ^ k

theorem twoPow_eq (k : Nat) : twoPow k = 2 ^ k := by
  unfold twoPow
  split
  · simp [twoPowTab]
  · rfl

/-- `n <<< k` by a multiplication -/
@[inline] def shl (n k : Nat) : Nat := n * twoPow k

theorem shl_eq (n k : Nat) : shl n k = n <<< k := by
  rw [shl, twoPow_eq, Nat.shiftLeft_eq]

/-- `m / 2^k` in lowest terms without a gcd -/
def mkDyadic : Nat → Nat → Rat
  | m, 0 => (m : Rat)
  | m, k+1 =>
    if h : m % 2 = 0 then mkDyadic (m / 2) k
    else ⟨(m : Int), twoPow (k+1), by rw [twoPow_eq]; exact Nat.ne_of_gt (Nat.pow_pos (by decide)), by
      show Nat.Coprime m (twoPow (k+1))
      rw [twoPow_eq]
      apply Nat.Coprime.pow_right
      unfold Nat.Coprime
      rw [Nat.gcd_comm, Nat.gcd_rec]
      have : m % 2 = 1 := by omega
      rw [this]; decide⟩

theorem mkDyadic_eq (m k : Nat) : mkDyadic m k = (m : Rat) / ((2 ^ k : Nat) : Rat) := by
  induction k generalizing m with
  | zero => simp [mkDyadic]; grind
  | succ k ih =>
    unfold mkDyadic
    split
    · rename_i h
      rw [ih]
      have hm : m = 2 * (m / 2) := by omega
      have hp : (0 : Rat) < ((2 ^ k : Nat) : Rat) := Rat.natCast_pos.2 (Nat.pow_pos (by decide))
      conv => rhs; rw [hm]
      rw [Nat.pow_succ, Rat.natCast_mul, Rat.natCast_mul]
      generalize ((2 ^ k : Nat) : Rat) = P at *
      generalize ((m / 2 : Nat) : Rat) = M
      have : ((2 : Nat) : Rat) = 2 := by simp
      rw [this]
      grind
    · rw [Rat.mk_eq_divInt, Rat.divInt_eq_div, Rat.intCast_natCast, Rat.intCast_natCast, twoPow_eq]

/-- `rne (N / D)` on naturals -/
@[inline] def rneND (N D : Nat) : Nat :=
  let f := N / D
  let r := N % D
  if 2 * r < D then f else if 2 * r > D then f + 1 else if f % 2 = 0 then f else f + 1

theorem rne_eq_rneND {x : Rat} {N D : Nat} (hD : 0 < D) (hx : x * (D : Rat) = (N : Rat)) :
    rne x = (rneND N D : Int) := by
  have hDq : (0 : Rat) < (D : Rat) := Rat.natCast_pos.2 hD
  have hdm : D * (N / D) + N % D = N := Nat.div_add_mod N D
  have hr : N % D < D := Nat.mod_lt _ hD
  generalize hf : N / D = f at *
  generalize hrr : N % D = r at *
  have hN : (N : Rat) = (D : Rat) * (f : Rat) + (r : Rat) := by
    rw [← hdm, Rat.natCast_add, Rat.natCast_mul]
  have hrq : (r : Rat) < (D : Rat) := Rat.natCast_lt_natCast.2 hr
  have hr0 : (0 : Rat) ≤ (r : Rat) := Rat.natCast_nonneg
  -- floor
  have hfl : x.floor = (f : Int) := by
    have h1 : ((f : Int) : Rat) ≤ x := by
      apply Rat.le_of_mul_le_mul_right (c := (D : Rat)) _ hDq
      rw [hx, hN, Rat.intCast_natCast]; grind
    have h2 : x < (((f : Int) + 1 : Int) : Rat) := by
      apply Rat.lt_of_mul_lt_mul_right (c := (D : Rat)) _ (Rat.le_of_lt hDq)
      rw [hx, hN, Rat.intCast_add, Rat.intCast_natCast]; grind
    have a := Rat.le_floor_iff.2 h1
    have b := Rat.floor_lt_iff.2 h2
    omega
  -- fractional part
  have hfrac : (x - ((f : Int) : Rat)) * (D : Rat) = (r : Rat) := by
    rw [Rat.intCast_natCast]; grind
  unfold rne rneND
  simp only [hfl, hf, hrr]
  generalize x - ((f : Int) : Rat) = y at hfrac
  have h2r : ((2 * r : Nat) : Rat) = 2 * (r : Rat) := by rw [Rat.natCast_mul]; simp
  have key1 : y < 1/2 ↔ 2 * r < D := by
    rw [← Rat.natCast_lt_natCast, h2r, ← hfrac]
    constructor
    · intro h; have := Rat.mul_lt_mul_of_pos_right h hDq; grind
    · intro h; apply Rat.lt_of_mul_lt_mul_right (c := (D : Rat)) _ (Rat.le_of_lt hDq); grind
  have key2 : y > 1/2 ↔ 2 * r > D := by
    show 1/2 < y ↔ D < 2 * r
    rw [← Rat.natCast_lt_natCast, h2r, ← hfrac]
    constructor
    · intro h; have := Rat.mul_lt_mul_of_pos_right h hDq; grind
    · intro h; apply Rat.lt_of_mul_lt_mul_right (c := (D : Rat)) _ (Rat.le_of_lt hDq); grind
  simp only [key1, key2]
  split
  · rfl
  · split
    · simp
    · have : ((f : Int) % 2 = 0) ↔ (f % 2 = 0) := by omega
      simp only [this]
      split <;> simp


theorem rneND_mul_right (N D c : Nat) (hc : 0 < c) : rneND (N * c) (D * c) = rneND N D := by
  unfold rneND
  simp only [Nat.mul_div_mul_right _ _ hc, Nat.mul_mod_mul_right]
  have e1 : (2 * (N % D * c) < D * c) ↔ (2 * (N % D) < D) := by
    rw [← Nat.mul_assoc]; exact Nat.mul_lt_mul_right hc
  have e2 : (2 * (N % D * c) > D * c) ↔ (2 * (N % D) > D) := by
    show D * c < 2 * (N % D * c) ↔ D < 2 * (N % D)
    rw [← Nat.mul_assoc]; exact Nat.mul_lt_mul_right hc
  simp only [e1, e2]

/-- `n / d < 2^k` on integers -/
@[inline] def ltPow2 (n d : Nat) (k : Int) : Bool :=
  if k ≥ 0 then n < shl d k.toNat else shl n (-k).toNat < d

/-- `pow2 k` as a quotient of naturals -/
theorem pow2_split (k : Int) :
    pow2 k * (((if k ≥ 0 then 1 else 2 ^ (-k).toNat : Nat)) : Rat) = (((if k ≥ 0 then 2 ^ k.toNat else 1 : Nat)) : Rat) := by
  by_cases h : k ≥ 0
  · simp only [h, if_true]; unfold pow2; simp [h]
  · simp only [h, if_false]
    have := pow2_add_nat k (-k).toNat
    rw [show k + ((-k).toNat : Int) = ((0 : Nat) : Int) by omega, pow2_nat] at this
    rw [Rat.mul_comm, ← this]

theorem lt_pow2_iff {q : Rat} {n d : Nat} (hd0 : 0 < d) (hqd : q * (d : Rat) = (n : Rat)) (k : Int) :
    decide (q < pow2 k) = ltPow2 n d k := by
  have hs := pow2_split k
  have hd : (0 : Rat) < (d : Rat) := Rat.natCast_pos.2 hd0
  unfold ltPow2
  simp only [shl_eq]
  by_cases h : k ≥ 0
  · simp only [h, if_true] at hs ⊢
    rw [show ((1 : Nat) : Rat) = 1 by simp, Rat.mul_one] at hs
    rw [Nat.shiftLeft_eq, hs]
    apply decide_eq_decide.2
    rw [← Rat.natCast_lt_natCast (a := n), Rat.natCast_mul, ← hqd]
    constructor
    · intro h1; rw [Rat.mul_comm (d : Rat)]; exact Rat.mul_lt_mul_of_pos_right h1 hd
    · intro h1; rw [Rat.mul_comm (d : Rat)] at h1; exact Rat.lt_of_mul_lt_mul_right h1 (Rat.le_of_lt hd)
  · simp only [h, if_false] at hs ⊢
    rw [show ((1 : Nat) : Rat) = 1 by simp] at hs
    rw [Nat.shiftLeft_eq]
    apply decide_eq_decide.2
    have hp : (0 : Rat) < ((2 ^ (-k).toNat : Nat) : Rat) := Rat.natCast_pos.2 (Nat.pow_pos (by decide))
    rw [← Rat.natCast_lt_natCast (a := n * 2 ^ (-k).toNat), Rat.natCast_mul, ← hqd]
    generalize ((2 ^ (-k).toNat : Nat) : Rat) = P at *
    generalize pow2 k = Q at *
    constructor
    · intro h1
      have a1 := Rat.mul_lt_mul_of_pos_right h1 hd
      have a2 := Rat.mul_lt_mul_of_pos_right a1 hp
      have e : Q * (d : Rat) * P = (d : Rat) := by
        rw [Rat.mul_assoc, Rat.mul_comm (d : Rat), ← Rat.mul_assoc, hs, Rat.one_mul]
      rwa [e] at a2
    · intro h1
      apply Rat.lt_of_mul_lt_mul_right (c := (d : Rat) * P) _ (Rat.le_of_lt (Rat.mul_pos hd hp))
      have e : Q * ((d : Rat) * P) = (d : Rat) := by
        rw [Rat.mul_comm (d : Rat), ← Rat.mul_assoc, hs, Rat.one_mul]
      rw [e, ← Rat.mul_assoc]; exact h1

/-- `ilog2 (n / d)` on integers (`n`, `d` need not be coprime) -/
def ilog2ND (n d : Nat) : Int :=
  let e : Int := (Nat.log2 n : Int) - (Nat.log2 d : Int)
  if ltPow2 n d e then e - 1 else if ltPow2 n d (e + 1) then e else e + 1

/-- `ilog2_spec` for a quotient that is not in lowest terms (same proof) -/
theorem ilog2ND_spec {q : Rat} {n d : Nat} (hq : 0 < q) (hd0 : 0 < d) (hqd : q * (d : Rat) = (n : Rat)) :
    pow2 (ilog2ND n d) ≤ q ∧ q < pow2 (ilog2ND n d + 1) := by
  have hn0 : n ≠ 0 := by
    intro h; subst h
    have : (0 : Rat) < q * (d : Rat) := Rat.mul_pos hq (Rat.natCast_pos.2 hd0)
    rw [hqd] at this; simp at this
  have hdnz : d ≠ 0 := by omega
  have hn1 := Nat.log2_self_le hn0
  have hn2 := Nat.lt_log2_self (n := n)
  have hd1 := Nat.log2_self_le hdnz
  have hd2 := Nat.lt_log2_self (n := d)
  have key0 : ∀ k, q < pow2 k ↔ ltPow2 n d k = true := by
    intro k; rw [← lt_pow2_iff hd0 hqd k]; simp
  unfold ilog2ND
  simp only [← key0]
  generalize hln : n.log2 = ln at *
  generalize hld : d.log2 = ld at *
  have cn1 : ((2 ^ ln : Nat) : Rat) ≤ (n : Rat) := Rat.natCast_le_natCast.2 hn1
  have cn2 : (n : Rat) < ((2 ^ (ln + 1) : Nat) : Rat) := Rat.natCast_lt_natCast.2 hn2
  have cd1 : ((2 ^ ld : Nat) : Rat) ≤ (d : Rat) := Rat.natCast_le_natCast.2 hd1
  have cd2 : (d : Rat) < ((2 ^ (ld + 1) : Nat) : Rat) := Rat.natCast_lt_natCast.2 hd2
  have pd : (0 : Rat) < ((2 ^ ld : Nat) : Rat) := Rat.natCast_pos.2 (Nat.pow_pos (by decide))
  have key : pow2 ((ln : Int) - (ld : Int)) * ((2 ^ ld : Nat) : Rat) = ((2 ^ ln : Nat) : Rat) := by
    have := pow2_add_nat ((ln : Int) - (ld : Int)) ld
    rw [show (ln : Int) - (ld : Int) + (ld : Int) = (ln : Int) by omega, pow2_nat] at this
    rw [this]; grind
  have hup : q < pow2 ((ln : Int) - (ld : Int) + 1) := by
    apply Rat.lt_of_mul_lt_mul_right (c := ((2 ^ ld : Nat) : Rat)) _ (Rat.le_of_lt pd)
    rw [pow2_succ, Rat.mul_assoc, key]
    have h1 : q * ((2 ^ ld : Nat) : Rat) ≤ q * (d : Rat) :=
      Rat.mul_le_mul_of_nonneg_left cd1 (Rat.le_of_lt hq)
    rw [Nat.pow_succ, Rat.natCast_mul] at cn2
    grind
  have hlo : pow2 ((ln : Int) - (ld : Int) - 1) ≤ q := by
    apply Rat.le_of_mul_le_mul_right (c := ((2 ^ (ld+1) : Nat) : Rat)) _ (Rat.natCast_pos.2 (Nat.pow_pos (by decide)))
    have h0 : pow2 ((ln : Int) - (ld : Int)) = 2 * pow2 ((ln : Int) - (ld : Int) - 1) := by
      rw [← pow2_succ]; congr 1; omega
    have h1 : q * (d : Rat) ≤ q * ((2 ^ (ld + 1) : Nat) : Rat) :=
      Rat.mul_le_mul_of_nonneg_left (Rat.le_of_lt cd2) (Rat.le_of_lt hq)
    rw [Nat.pow_succ, Rat.natCast_mul] at h1 ⊢
    rw [h0] at key
    rw [hqd] at h1
    clear hup cd1 cd2 hd1 hd2 hn1 hn2 cn2 hqd h0 pd key0
    generalize pow2 ((ln : Int) - (ld : Int) - 1) = P at *
    generalize ((2 ^ ld : Nat) : Rat) = A at *
    generalize ((2 ^ ln : Nat) : Rat) = L at *
    have h2 : ((2 : Nat) : Rat) = 2 := by simp
    rw [h2] at h1 ⊢
    have : P * (A * 2) = L := by grind
    grind
  split
  · rename_i h
    refine ⟨hlo, ?_⟩
    rw [show (ln : Int) - (ld : Int) - 1 + 1 = (ln : Int) - (ld : Int) by omega]; exact h
  · rename_i h
    exact ⟨Rat.not_lt.1 h, hup⟩

theorem ilog2_unique {q : Rat} {e1 e2 : Int} (h1 : pow2 e1 ≤ q ∧ q < pow2 (e1 + 1))
    (h2 : pow2 e2 ≤ q ∧ q < pow2 (e2 + 1)) : e1 = e2 := by
  have a : e1 < e2 + 1 := lt_of_pow2_lt (by grind)
  have b : e2 < e1 + 1 := lt_of_pow2_lt (by grind)
  omega

theorem ilog2_eq_ilog2ND {q : Rat} {n d : Nat} (hq : 0 < q) (hd0 : 0 < d) (hqd : q * (d : Rat) = (n : Rat)) :
    ilog2 q = ilog2ND n d :=
  ilog2_unique (ilog2_spec hq) (ilog2ND_spec hq hd0 hqd)

/-- `roundPos (n / d)` on integers (`n`, `d` need not be coprime) -/
def roundPosND (n d : Nat) : Rat :=
  let e := ilog2ND n d
  let e' := if e < -126 then -126 else e
  let u := e' - 23
  if u ≥ 0 then
    ((shl (rneND n (shl d u.toNat)) u.toNat : Nat) : Rat)
  else
    let s := (-u).toNat
    -- cancel the power of two common to `n · 2^s` and `d` (all of `2^s` when `d` is a power of two)
    let g := min s (Nat.log2 d)
    let d' := d >>> g
    if shl d' g = d then mkDyadic (rneND (shl n (s - g)) d') s
    else mkDyadic (rneND (shl n s) d) s

theorem roundPos_eq_roundPosND {q : Rat} {n d : Nat} (hq : 0 < q) (hd : 0 < d) (hqd : q * (d : Rat) = (n : Rat)) :
    roundPos q = roundPosND n d := by
  unfold roundPos roundPosND
  simp only [ilog2_eq_ilog2ND hq hd hqd, shl_eq]
  generalize (if ilog2ND n d < -126 then -126 else ilog2ND n d) - 23 = u
  have hcancel : (if (d >>> min (-u).toNat d.log2) <<< min (-u).toNat d.log2 = d then
        mkDyadic (rneND (n <<< ((-u).toNat - min (-u).toNat d.log2)) (d >>> min (-u).toNat d.log2)) (-u).toNat
      else mkDyadic (rneND (n <<< (-u).toNat) d) (-u).toNat) = mkDyadic (rneND (n <<< (-u).toNat) d) (-u).toNat := by
    split
    · rename_i hg
      generalize hgg : min (-u).toNat d.log2 = g at hg
      have hgs : g ≤ (-u).toNat := by omega
      congr 1
      conv => rhs; rw [← hg]
      rw [Nat.shiftLeft_eq, Nat.shiftLeft_eq, Nat.shiftLeft_eq]
      conv => rhs; rw [show (-u).toNat = ((-u).toNat - g) + g by omega, Nat.pow_add, ← Nat.mul_assoc]
      rw [rneND_mul_right _ _ _ (Nat.pow_pos (by decide))]
    · rfl
  simp only [hcancel]
  have hs := pow2_split u
  by_cases h : u ≥ 0
  · simp only [h, if_true] at hs ⊢
    rw [show ((1 : Nat) : Rat) = 1 by simp, Rat.mul_one] at hs
    have hp : (0 : Rat) < ((2 ^ u.toNat : Nat) : Rat) := Rat.natCast_pos.2 (Nat.pow_pos (by decide))
    rw [hs, Nat.shiftLeft_eq, Nat.shiftLeft_eq]
    have hx : q / ((2 ^ u.toNat : Nat) : Rat) * ((d * 2 ^ u.toNat : Nat) : Rat) = (n : Rat) := by
      rw [Rat.natCast_mul, ← hqd]
      generalize ((2 ^ u.toNat : Nat) : Rat) = P at *
      rw [Rat.mul_comm (d : Rat), ← Rat.mul_assoc, Rat.div_mul_cancel (by grind)]
    rw [rne_eq_rneND (Nat.mul_pos hd (Nat.pow_pos (by decide))) hx, Rat.intCast_natCast, Rat.natCast_mul]
  · simp only [h, if_false] at hs ⊢
    rw [show ((1 : Nat) : Rat) = 1 by simp] at hs
    have hp : (0 : Rat) < ((2 ^ (-u).toNat : Nat) : Rat) := Rat.natCast_pos.2 (Nat.pow_pos (by decide))
    rw [Nat.shiftLeft_eq, mkDyadic_eq]
    have hx : q / pow2 u * (d : Rat) = ((n * 2 ^ (-u).toNat : Nat) : Rat) := by
      rw [Rat.natCast_mul, ← hqd]
      generalize ((2 ^ (-u).toNat : Nat) : Rat) = P at *
      generalize pow2 u = Q at *
      have hQ : Q⁻¹ = P := Rat.inv_eq_of_mul_eq_one hs
      rw [Rat.div_def, hQ]; grind
    rw [rne_eq_rneND hd hx, Rat.intCast_natCast]
    generalize ((2 ^ (-u).toNat : Nat) : Rat) = P at *
    generalize pow2 u = Q at *
    have hP : P⁻¹ = Q := Rat.inv_eq_of_mul_eq_one (by rw [Rat.mul_comm]; exact hs)
    rw [Rat.div_def, hP]

/-- `round32 (N / D)` on integers: exit for the exactly representable integers, integer arithmetic
(no `Rat` operation, no gcd) otherwise -/
def roundDiv (N : Int) (D : Nat) : Rat :=
  if D = 1 ∧ N.natAbs < 16777216 then (N : Rat)
  else if N = 0 then 0 else if N < 0 then - roundPosND (-N).toNat D else roundPosND N.toNat D

theorem round32_div (N : Int) {D : Nat} (hD : 0 < D) : round32 ((N : Rat) / (D : Rat)) = roundDiv N D := by
  have hDq : (0 : Rat) < (D : Rat) := Rat.natCast_pos.2 hD
  have hDne : (D : Rat) ≠ 0 := by grind
  unfold roundDiv
  split
  · rename_i h
    rw [h.1, show ((1 : Nat) : Rat) = 1 by simp]
    have e : (N : Rat) / 1 = (N : Rat) := by grind
    rw [e]; exact round32_intCast (by omega) (by omega)
  · generalize hq : (N : Rat) / (D : Rat) = q
    have hqd : q * (D : Rat) = (N : Rat) := by rw [← hq]; exact Rat.div_mul_cancel hDne
    unfold round32
    by_cases h0 : N = 0
    · subst h0
      have : q = 0 := by rw [← hq]; simp [Rat.div_def]
      simp [this]
    · by_cases hneg : N < 0
      · have hN : (N : Rat) < 0 := by
          have := Rat.intCast_lt_intCast.2 hneg; simpa using this
        have hq0 : q < 0 := by
          apply Decidable.byContradiction; intro hc
          have := Rat.mul_nonneg (Rat.not_lt.1 hc) (Rat.le_of_lt hDq)
          grind
        have hq0' : ¬ q = 0 := by grind
        simp only [h0, hneg, hq0, hq0', if_true, if_false]
        congr 1
        apply roundPos_eq_roundPosND (by grind) hD
        rw [Rat.neg_mul, hqd, ← Rat.intCast_neg, ← Rat.intCast_natCast]
        congr 1; omega
      · have hpos : 0 < N := by omega
        have hN : (0 : Rat) < (N : Rat) := by
          have := Rat.intCast_lt_intCast.2 hpos; simpa using this
        have hq0 : 0 < q := by
          apply Decidable.byContradiction; intro hc
          have hc' : q ≤ 0 := Rat.not_lt.1 hc
          have : q * (D : Rat) ≤ 0 := by
            have := Rat.mul_le_mul_of_nonneg_right hc' (Rat.le_of_lt hDq)
            simpa using this
          grind
        have hq1 : ¬ q < 0 := by grind
        have hq2 : ¬ q = 0 := by grind
        simp only [h0, hneg, hq1, hq2, if_false]
        apply roundPos_eq_roundPosND hq0 hD
        rw [hqd, ← Rat.intCast_natCast]
        congr 1; omega

theorem num_div_den (q : Rat) : (q.num : Rat) / (q.den : Rat) = q := by
  rw [← Rat.mkRat_eq_div, Rat.mkRat_self]

theorem den_pos (q : Rat) : 0 < q.den := Nat.pos_of_ne_zero q.den_nz

def round32Fast (q : Rat) : Rat := roundDiv q.num q.den

@[csimp] theorem round32_eq_round32Fast : @round32 = @round32Fast := by
  funext q
  unfold round32Fast
  rw [← round32_div q.num (den_pos q), num_div_den]


/-! ### the operations: numerators and denominators are combined without normalising -/

def mulFast (a b : Rat) : Rat := roundDiv (a.num * b.num) (a.den * b.den)

@[csimp] theorem mul_eq_mulFast : @mul = @mulFast := by
  funext a b
  unfold mul mulFast
  rw [← round32_div _ (Nat.mul_pos (den_pos a) (den_pos b))]
  congr 1
  have ha := num_div_den a; have hb := num_div_den b
  have da : (0 : Rat) < (a.den : Rat) := Rat.natCast_pos.2 (den_pos a)
  have db : (0 : Rat) < (b.den : Rat) := Rat.natCast_pos.2 (den_pos b)
  rw [Rat.intCast_mul, Rat.natCast_mul]
  generalize (a.num : Rat) = x at *; generalize (a.den : Rat) = y at *
  generalize (b.num : Rat) = z at *; generalize (b.den : Rat) = w at *
  rw [← ha, ← hb]
  have : y ≠ 0 := by grind
  have : w ≠ 0 := by grind
  grind

def addFast (a b : Rat) : Rat := roundDiv (a.num * b.den + b.num * a.den) (a.den * b.den)

@[csimp] theorem add_eq_addFast : @add = @addFast := by
  funext a b
  unfold add addFast
  rw [← round32_div _ (Nat.mul_pos (den_pos a) (den_pos b))]
  congr 1
  have ha := num_div_den a; have hb := num_div_den b
  have da : (0 : Rat) < (a.den : Rat) := Rat.natCast_pos.2 (den_pos a)
  have db : (0 : Rat) < (b.den : Rat) := Rat.natCast_pos.2 (den_pos b)
  rw [Rat.intCast_add, Rat.intCast_mul, Rat.intCast_mul, Rat.natCast_mul, Rat.intCast_natCast, Rat.intCast_natCast]
  generalize (a.num : Rat) = x at *; generalize (a.den : Rat) = y at *
  generalize (b.num : Rat) = z at *; generalize (b.den : Rat) = w at *
  rw [← ha, ← hb]
  have : y ≠ 0 := by grind
  have : w ≠ 0 := by grind
  grind

def subFast (a b : Rat) : Rat := roundDiv (a.num * b.den - b.num * a.den) (a.den * b.den)

@[csimp] theorem sub_eq_subFast : @sub = @subFast := by
  funext a b
  unfold sub subFast
  rw [← round32_div _ (Nat.mul_pos (den_pos a) (den_pos b))]
  congr 1
  have ha := num_div_den a; have hb := num_div_den b
  have da : (0 : Rat) < (a.den : Rat) := Rat.natCast_pos.2 (den_pos a)
  have db : (0 : Rat) < (b.den : Rat) := Rat.natCast_pos.2 (den_pos b)
  rw [Rat.intCast_sub, Rat.intCast_mul, Rat.intCast_mul, Rat.natCast_mul, Rat.intCast_natCast, Rat.intCast_natCast]
  generalize (a.num : Rat) = x at *; generalize (a.den : Rat) = y at *
  generalize (b.num : Rat) = z at *; generalize (b.den : Rat) = w at *
  rw [← ha, ← hb]
  have : y ≠ 0 := by grind
  have : w ≠ 0 := by grind
  grind

def divFast (a b : Rat) : Rat :=
  if b.num = 0 then 0
  else if b.num < 0 then roundDiv (-(a.num * b.den)) (a.den * (-b.num).toNat)
  else roundDiv (a.num * b.den) (a.den * b.num.toNat)

@[csimp] theorem div_eq_divFast : @div = @divFast := by
  funext a b
  unfold div divFast
  have ha := num_div_den a; have hb := num_div_den b
  have da : (0 : Rat) < (a.den : Rat) := Rat.natCast_pos.2 (den_pos a)
  have db : (0 : Rat) < (b.den : Rat) := Rat.natCast_pos.2 (den_pos b)
  by_cases h0 : b.num = 0
  · have : b = 0 := by rw [← hb, h0]; simp [Rat.div_def]
    simp [this, Rat.div_def, round32]
  · simp only [h0, if_false]
    by_cases hneg : b.num < 0
    · simp only [hneg, if_true]
      have hp : 0 < (-b.num).toNat := by omega
      rw [← round32_div _ (Nat.mul_pos (den_pos a) hp)]
      congr 1
      have e : (((-b.num).toNat : Nat) : Rat) = - (b.num : Rat) := by
        rw [← Rat.intCast_natCast, ← Rat.intCast_neg]; congr 1; omega
      have hbn : (b.num : Rat) < 0 := by
        have := Rat.intCast_lt_intCast.2 hneg; simpa using this
      rw [Rat.intCast_neg, Rat.intCast_mul, Rat.natCast_mul, Rat.intCast_natCast, e]
      generalize (a.num : Rat) = x at *; generalize (a.den : Rat) = y at *
      generalize (b.num : Rat) = z at *; generalize (b.den : Rat) = w at *
      rw [← ha, ← hb]
      have : y ≠ 0 := by grind
      have : w ≠ 0 := by grind
      have : z ≠ 0 := by grind
      grind
    · simp only [hneg, if_false]
      have hp : 0 < b.num.toNat := by omega
      rw [← round32_div _ (Nat.mul_pos (den_pos a) hp)]
      congr 1
      have e : ((b.num.toNat : Nat) : Rat) = (b.num : Rat) := by
        rw [← Rat.intCast_natCast]; congr 1; omega
      have hbn : (0 : Rat) < (b.num : Rat) := by
        have := Rat.intCast_lt_intCast.2 (show 0 < b.num by omega); simpa using this
      rw [Rat.intCast_mul, Rat.natCast_mul, Rat.intCast_natCast, e]
      generalize (a.num : Rat) = x at *; generalize (a.den : Rat) = y at *
      generalize (b.num : Rat) = z at *; generalize (b.den : Rat) = w at *
      rw [← ha, ← hb]
      have : y ≠ 0 := by grind
      have : w ≠ 0 := by grind
      have : z ≠ 0 := by grind
      grind

def ofIntFast (i : Int) : Rat := roundDiv i 1

@[csimp] theorem ofInt_eq_ofIntFast : @ofInt = @ofIntFast := by
  funext i
  unfold ofInt ofIntFast
  rw [← round32_div i (by decide)]
  congr 1
  rw [show ((1 : Nat) : Rat) = 1 by simp]; grind

end Wee.F32.Fast
