/-!
# binary32 soft-float (exact model of the f32 operations the evaluator uses)

A finite binary32 value is represented by the rational it denotes.  Every operation is "compute
exactly in `Rat`, round to nearest-even at 24 significant bits" (IEEE-754 round-to-nearest-even;
subnormals handled, overflow not — all values here are far below 2^128).  Defined through sign and
magnitude so that `round32 (-q) = - round32 q` is immediate (needed by C13).
Validated against Rust `f32` through the evaluator correspondence and against Lean's native
`Float32` inside the driver.
-/
namespace Wee.F32

def pow2 (k : Int) : Rat := if k ≥ 0 then ((2 ^ k.toNat : Nat) : Rat) else 1 / ((2 ^ (-k).toNat : Nat) : Rat)

/-- floor(log2 q) for q > 0 -/
def ilog2 (q : Rat) : Int :=
  let n := q.num.toNat
  let d := q.den
  let e : Int := (Nat.log2 n : Int) - (Nat.log2 d : Int)
  if q < pow2 e then e - 1 else if q < pow2 (e + 1) then e else e + 1

/-- round a non-negative rational to the nearest integer, ties to even -/
def rne (n : Rat) : Int :=
  let f := n.floor
  let r := n - (f : Rat)
  if r < 1/2 then f else if r > 1/2 then f + 1 else if f % 2 = 0 then f else f + 1

/-- nearest binary32 of a positive rational -/
def roundPos (q : Rat) : Rat :=
  let e := ilog2 q
  let e' := if e < -126 then -126 else e
  let ulp := pow2 (e' - 23)
  ((rne (q / ulp) : Int) : Rat) * ulp

def round32 (q : Rat) : Rat :=
  if q = 0 then 0 else if q < 0 then - roundPos (-q) else roundPos q

def mul (a b : Rat) : Rat := round32 (a * b)
def add (a b : Rat) : Rat := round32 (a + b)
def sub (a b : Rat) : Rat := round32 (a - b)
def div (a b : Rat) : Rat := round32 (a / b)
/-- `i as f32` -/
def ofInt (i : Int) : Rat := round32 (i : Rat)
/-- `x as i32`: truncate toward zero, saturate -/
def toI32 (q : Rat) : Int :=
  let t : Int := if q ≥ 0 then q.floor else - (-q).floor
  if t > 2147483647 then 2147483647 else if t < -2147483648 then -2147483648 else t

end Wee.F32
