import Wee.Model.Board
import Wee.Model.Rng
/-!
# Zobrist hashing (mirror of `hasher.rs`)

`Keys` is the table of random keys; `Keys.ofRng` draws them in the order of `ZobristHasher::with`
(`turn_hash` 2, `piece_hash` 64×16, then — since the fix of F1 — `castle_hash` 2×2 and
`en_passant_hash` 8).  `hash` is generic in the keys, so the theorems hold for every seed.
-/
namespace Wee

structure Keys where
  turn : Color → UInt64
  /-- `piece_hash[square][PieceIndex::new(color, piece)]` (piece may be `none`: index 0 / 8) -/
  piece : Nat → Color → Piece → UInt64
  castle : Color → Side → UInt64
  epFile : Nat → UInt64

/-- is an en-passant capture available (pseudo-legally): a pawn of the side to move attacks the target -/
def epCapturable (s : State) : Option Nat :=
  match s.ep with
  | Option.none => Option.none
  | some t => if bbAny (pawnAttacks s.turn.opp t &&& s.pieces.get s.turn .pawn) then some t else Option.none

/-- `ZobristHasher::hash` -/
def hash (K : Keys) (s : State) : UInt64 :=
  let h : UInt64 := Color.all.foldl (fun h c =>
    Piece.allIncludingNone.foldl (fun h p =>
      (bitsOf (s.pieces.get c p)).foldl (fun h sq => h ^^^ K.piece sq c p) h) h) 0
  let h := h ^^^ K.turn s.turn
  let h := Color.all.foldl (fun h c =>
    Side.all.foldl (fun h side => if (s.castle c).forSide side then h ^^^ K.castle c side else h) h) h
  match epCapturable s with
  | some t => h ^^^ K.epFile (fileOf t)
  | Option.none => h

/-- keys as arrays, in generation order -/
structure KeyTable where
  turn : Array UInt64          -- 2
  piece : Array UInt64         -- 64 * 16, index sq*16 + (color<<3|piece)
  castle : Array UInt64        -- 4, index color*2 + side
  epFile : Array UInt64        -- 8
deriving Inhabited

def drawN (r : Rng.ChaCha8) (n : Nat) : Array UInt64 × Rng.ChaCha8 :=
  (List.range n).foldl (fun (st : Array UInt64 × Rng.ChaCha8) _ =>
    let (v, r') := Rng.nextU64 st.2; (st.1.push v, r')) (#[], r)

/-- `ZobristHasher::with(rng)` -/
def KeyTable.ofRng (r : Rng.ChaCha8) : KeyTable × Rng.ChaCha8 :=
  let (t, r) := drawN r 2
  let (p, r) := drawN r (64 * 16)
  let (c, r) := drawN r 4
  let (e, r) := drawN r 8
  ({ turn := t, piece := p, castle := c, epFile := e }, r)

def KeyTable.keys (k : KeyTable) : Keys :=
  { turn := fun c => k.turn.getD c.idx 0
    piece := fun sq c p => k.piece.getD (sq * 16 + (c.idx * 8 + p.code)) 0
    castle := fun c s => k.castle.getD (c.idx * 2 + s.idx) 0
    epFile := fun f => k.epFile.getD f 0 }

end Wee
