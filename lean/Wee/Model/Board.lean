import Wee.Model.Attacks
import Wee.Model.Move
/-!
# Attack maps, check, make-move (mirror of `board.rs` `AttackMap`, `Board::is_check`, `state.rs`)
-/
namespace Wee

/-- `AttackMap::from_occupancy` → `(all, pawn)` -/
def attackMap (m : PieceMap) (c : Color) : UInt64 × UInt64 :=
  let occ := m.occ
  let own := m.colorOcc c
  let (all, pawn) := Piece.all.foldl (fun (acc : UInt64 × UInt64) p =>
    (bitsOf (m.get c p)).foldl (fun (acc : UInt64 × UInt64) sq =>
      let a := attacksOf c p sq occ
      (acc.1 ||| a, if p == .pawn then acc.2 ||| a else acc.2)) acc) (0, 0)
  (all &&& ~~~own, pawn &&& ~~~own)

/-- `Board::colored_attacks` (pure value; the `OnceCell` cache is modelled in `Model/AttackCache`) -/
@[inline] def coloredAttacks (m : PieceMap) (c : Color) : UInt64 := (attackMap m c).1
/-- `Board::colored_pawn_attacks` -/
@[inline] def coloredPawnAttacks (m : PieceMap) (c : Color) : UInt64 := (attackMap m c).2
/-- `Board::is_check` -/
@[inline] def isCheckB (m : PieceMap) (c : Color) : Bool := bbAny (m.get c .king &&& coloredAttacks m c.opp)
/-- `State::is_check` -/
@[inline] def State.isCheck (s : State) : Bool := isCheckB s.pieces s.turn

inductive MoveErr | ambiguous | illegalEnPassant | unknown
deriving DecidableEq, Repr

/-- `State::by_performing_move`.  A move whose piece code is not a `Piece` discriminant makes the
Rust accessor `unwrap` panic; that is `none` at the outer level here. -/
def performMove (s : State) (mv : Move) : Option (Except MoveErr State) :=
  match Move.piece? mv with
  | Option.none => Option.none
  | some p =>
  -- capture()/promotion() unwrap a bad discriminant too
  if (Move.captureCode mv ≠ 0 ∧ (Piece.ofCode? (Move.captureCode mv)).isNone) ∨
     (Move.promotionCode mv ≠ 0 ∧ (Piece.ofCode? (Move.promotionCode mv)).isNone) then Option.none else
  let us := s.turn
  let them := us.opp
  let o := Move.origin mv
  let d := Move.dest mv
  let map := s.pieces
  let map := map.assign us p o false
  let map := map.assign us p d true
  let mapE : Except MoveErr PieceMap :=
    if Move.isEnPassant mv then
      match s.ep with
      | Option.none => .error .illegalEnPassant
      | some t =>
        match offset t 0 us.backward with
        | Option.none => .error .illegalEnPassant
        | some csq => .ok (map.assign them .pawn csq false)
    else match Move.capture mv with
      | some cap => .ok (map.assign them cap d false)
      | Option.none => .ok map
  match mapE with
  | .error e => some (.error e)
  | .ok map =>
  let map := match Move.promotion mv with
    | some pr => (map.assign us p d false).assign us pr d true
    | Option.none => map
  let map :=
    if Move.isCastle mv .king then
      (map.assign us .rook (mkSq (rankOf o) 7) false).assign us .rook (mkSq (rankOf o) 5) true
    else if Move.isCastle mv .queen then
      (map.assign us .rook (mkSq (rankOf o) 0) false).assign us .rook (mkSq (rankOf o) 3) true
    else map
  let cw := s.castleW
  let cb := s.castleB
  let cw := if p == .king ∧ us == .white then CastleRights.noRights else cw
  let cb := if p == .king ∧ us == .black then CastleRights.noRights else cb
  let cb : CastleRights := ⟨cb.kingside && test (map.get .black .rook) 63, cb.queenside && test (map.get .black .rook) 56⟩
  let cw : CastleRights := ⟨cw.kingside && test (map.get .white .rook) 7, cw.queenside && test (map.get .white .rook) 0⟩
  some (.ok {
    pieces := map
    turn := them
    castleW := cw
    castleB := cb
    ep := if Move.isDoublePawn mv then offset d 0 us.backward else Option.none
    halfmove := if Move.isCapture mv || p == .pawn then 0 else clockSucc s.halfmove
    fullmove := if us == .black then clockSucc s.fullmove else s.fullmove })

end Wee

/-! ## Compiled fast path (`@[csimp]`)

Nothing below changes a definition: `attackMap` is proved EQUAL to a version with two unboxed
`UInt64` accumulators (no pair allocated per attacked square); only the code generator uses it. -/
namespace Wee.Fast
open Wee

/-- `attackMap` with two `UInt64` accumulators instead of a pair -/
def attackMapFast (m : PieceMap) (c : Color) : UInt64 × UInt64 :=
  let occ := m.occ
  let own := m.colorOcc c
  let all := Piece.all.foldl (fun (acc : UInt64) p =>
    (bitsOf (m.get c p)).foldl (fun (acc : UInt64) sq => acc ||| attacksOf c p sq occ) acc) 0
  let pawn := (bitsOf (m.get c .pawn)).foldl (fun (acc : UInt64) sq => acc ||| attacksOf c .pawn sq occ) 0
  (all &&& ~~~own, pawn &&& ~~~own)

theorem inner_fold (a : Nat → UInt64) (isPawn : Bool) (l : List Nat) (acc : UInt64 × UInt64) :
    l.foldl (fun (acc : UInt64 × UInt64) sq => (acc.1 ||| a sq, if isPawn then acc.2 ||| a sq else acc.2)) acc
      = (l.foldl (fun (x : UInt64) sq => x ||| a sq) acc.1,
         if isPawn then l.foldl (fun (x : UInt64) sq => x ||| a sq) acc.2 else acc.2) := by
  induction l generalizing acc with
  | nil => cases isPawn <;> simp
  | cons x xs ih => rw [List.foldl_cons, ih]; cases isPawn <;> simp

@[csimp] theorem attackMap_eq : @attackMap = @attackMapFast := by
  funext m c
  unfold attackMap attackMapFast
  simp only [Piece.all, List.foldl_cons, List.foldl_nil]
  simp only [inner_fold]
  simp

/-! The `@[inline]` readers above were compiled before the lemma existed (their stored bodies still
call the original `attackMap`); these literal copies (equal by `rfl`) are compiled after it. -/

@[inline] def coloredAttacksFast (m : PieceMap) (c : Color) : UInt64 := (attackMap m c).1
@[csimp] theorem coloredAttacks_eq : @coloredAttacks = @coloredAttacksFast := rfl

@[inline] def coloredPawnAttacksFast (m : PieceMap) (c : Color) : UInt64 := (attackMap m c).2
@[csimp] theorem coloredPawnAttacks_eq : @coloredPawnAttacks = @coloredPawnAttacksFast := rfl

@[inline] def isCheckBFast (m : PieceMap) (c : Color) : Bool := bbAny (m.get c .king &&& coloredAttacks m c.opp)
@[csimp] theorem isCheckB_eq : @isCheckB = @isCheckBFast := rfl

@[inline] def isCheckFast (s : State) : Bool := isCheckB s.pieces s.turn
@[csimp] theorem State.isCheck_eq : @State.isCheck = @isCheckFast := rfl

end Wee.Fast
