import Wee.Model.Types
import Wee.Gen.Magic
/-!
# Attack generation (mirror of `attacks.rs`)

* rays, slide masks, `compute_*_attacks_unoptimized`, `compute_blockers_from_index` transcribed;
* the magic table of one square is ONE big `Nat` (`tget t i = (t >>> (64*i)) % 2^64`), built by the
  same ascending fold as `compute_rook_magic_table` (later writes win, so a destructive collision
  is faithfully reproduced); out-of-range indices (`>= 4096`) are a Rust panic and are reported as
  `none` by `magicLookup?`.
-/
namespace Wee
open Gen

/-- `compute_ray`: walk `offset` until the edge, setting every square -/
def rayFrom (df dr : Int) : Nat → Nat → UInt64
  | 0, _ => 0
  | fuel+1, sq =>
    match offset sq df dr with
    | Option.none => 0
    | some n => bit n ||| rayFrom df dr fuel n

/-- direction index as in `enum Direction` -/
inductive Dir | n | s | e | w | ne | nw | se | sw
deriving DecidableEq, Repr

def Dir.idx : Dir → Nat | .n => 0 | .s => 1 | .e => 2 | .w => 3 | .ne => 4 | .nw => 5 | .se => 6 | .sw => 7
def Dir.off (d : Dir) : Int × Int := dirOffsets.getD d.idx (0, 0)

/-- `RAYS[dir][sq]` -/
def ray (d : Dir) (sq : Nat) : UInt64 := rayFrom d.off.1 d.off.2 8 sq

@[inline] def rankMask (r : Nat) : UInt64 := rankMasks.getD r 0
@[inline] def fileMask (f : Nat) : UInt64 := fileMasks.getD f 0

/-- `compute_rook_slide_masks` -/
def rookMask (sq : Nat) : UInt64 :=
  (ray .w sq &&& ~~~(fileMask 0)) ||| (ray .e sq &&& ~~~(fileMask 7)) |||
  (ray .n sq &&& ~~~(rankMask 7)) ||| (ray .s sq &&& ~~~(rankMask 0))

/-- `compute_bishop_slide_masks` -/
def bishopMask (sq : Nat) : UInt64 :=
  (ray .nw sq &&& ~~~(fileMask 0 ||| rankMask 7)) ||| (ray .sw sq &&& ~~~(fileMask 0 ||| rankMask 0)) |||
  (ray .ne sq &&& ~~~(fileMask 7 ||| rankMask 7)) ||| (ray .se sq &&& ~~~(fileMask 7 ||| rankMask 0))

/-- one direction of `compute_*_attacks_unoptimized`: add the ray, cut behind the nearest blocker
(`first_one` for rays that go up in square index, `last_one` for rays that go down) -/
def cutRay (d : Dir) (up : Bool) (sq : Nat) (blockers : UInt64) (attacks : UInt64) : UInt64 :=
  let r := ray d sq
  let attacks := attacks ||| r
  match (if up then firstOne (r &&& blockers) else lastOne (r &&& blockers)) with
  | some b => attacks &&& ~~~(ray d b)
  | Option.none => attacks

/-- `compute_rook_attacks_unoptimized` -/
def rookSlow (sq : Nat) (blockers : UInt64) : UInt64 :=
  cutRay .e true sq blockers (cutRay .w false sq blockers (cutRay .s false sq blockers (cutRay .n true sq blockers 0)))

/-- `compute_bishop_attacks_unoptimized` -/
def bishopSlow (sq : Nat) (blockers : UInt64) : UInt64 :=
  cutRay .se false sq blockers (cutRay .ne true sq blockers (cutRay .sw false sq blockers (cutRay .nw true sq blockers 0)))

/-- `compute_blockers_from_index` (bit `i` of `index` goes to the `i`-th set bit of `mask`) -/
def deposit (idx : Nat) (mask : UInt64) : Nat → Nat → UInt64
  | 0, _ => 0
  | fuel+1, b =>
    if test mask b then
      (if idx % 2 = 1 then bit b else 0) ||| deposit (idx / 2) mask fuel (b+1)
    else deposit idx mask fuel (b+1)

def blockersFromIndex (idx : Nat) (mask : UInt64) : UInt64 := deposit idx mask 64 0

/-! ## magic tables as big naturals -/

@[inline] def tget (t : Nat) (i : Nat) : UInt64 := (t >>> (64 * i)).toUInt64
/-- overwrite slot `i` -/
@[inline] def tset (t : Nat) (i : Nat) (v : UInt64) : Nat :=
  (t ^^^ ((tget t i).toNat <<< (64 * i))) ||| (v.toNat <<< (64 * i))

/-- `u64::wrapping_mul(occ, magic) >> (64 - bits)` -/
@[inline] def magicIndex (occ magic : UInt64) (bits : Nat) : Nat :=
  ((occ * magic) >>> (64 - bits).toUInt64).toNat

/-- the fold of `compute_rook_magic_table` for one square: `b = 0 .. 2^bits - 1` ascending -/
def buildTable (slow : UInt64 → UInt64) (mask magic : UInt64) (bits : Nat) : Nat → Nat → Nat → Nat
  | 0, _, t => t
  | n+1, b, t =>
    let blockers := blockersFromIndex b mask
    buildTable slow mask magic bits n (b+1) (tset t (magicIndex blockers magic bits) (slow blockers))

/-! ## Compiled fast paths, part 1 (`@[csimp]`)

Nothing in this section changes a definition: each `@[csimp]` theorem proves that a model function
is EQUAL to a faster implementation, and only the code generator uses it.  The kernel
(`decide +kernel` in `Props/C09`) and every proof keep seeing the original definitions.

The section stands here (and not at the end of the file) because `rookTables`/`bishopTables` below
are evaluated when the program starts: to make that fast, the proved-equal `buildTable` (an `Array`
filled by the same ascending loop, then packed into the big `Nat` by divide and conquer) has to be
known to the code generator before `rookTableOf` is compiled. -/
namespace Fast

/-- all 8 × 64 rays, index `dir * 64 + sq` -/
def rayTab : Array UInt64 :=
  (Array.range 512).map fun i =>
    rayFrom (dirOffsets.getD (i / 64) (0, 0)).1 (dirOffsets.getD (i / 64) (0, 0)).2 8 (i % 64)

def rayFast (d : Dir) (sq : Nat) : UInt64 :=
  if h : d.idx * 64 + sq < rayTab.size ∧ sq < 64 then rayTab[d.idx * 64 + sq] else ray d sq

@[csimp] theorem ray_eq : @ray = @rayFast := by
  funext d sq
  unfold rayFast
  split
  · rename_i h
    have h1 : (d.idx * 64 + sq) / 64 = d.idx := by omega
    have h2 : (d.idx * 64 + sq) % 64 = sq := by omega
    simp only [rayTab, Array.getElem_map, Array.getElem_range, h1, h2]
    rfl
  · rfl

/-! ### re-compilation of the callers defined above the fast paths

`cutRay`, `rookSlow`, … were compiled before the `@[csimp]` lemmas existed; these literal copies
(equal by `rfl`) are compiled after them and therefore call the fast versions. -/

def cutRayFast (d : Dir) (up : Bool) (sq : Nat) (blockers : UInt64) (attacks : UInt64) : UInt64 :=
  let r := ray d sq
  let attacks := attacks ||| r
  match (if up then firstOne (r &&& blockers) else lastOne (r &&& blockers)) with
  | some b => attacks &&& ~~~(ray d b)
  | Option.none => attacks
@[csimp] theorem cutRay_eq : @cutRay = @cutRayFast := rfl

def rookSlowFast (sq : Nat) (blockers : UInt64) : UInt64 :=
  cutRay .e true sq blockers (cutRay .w false sq blockers (cutRay .s false sq blockers (cutRay .n true sq blockers 0)))
@[csimp] theorem rookSlow_eq : @rookSlow = @rookSlowFast := rfl

def bishopSlowFast (sq : Nat) (blockers : UInt64) : UInt64 :=
  cutRay .se false sq blockers (cutRay .ne true sq blockers (cutRay .sw false sq blockers (cutRay .nw true sq blockers 0)))
@[csimp] theorem bishopSlow_eq : @bishopSlow = @bishopSlowFast := rfl

/-! ### small per-square tables -/

/-- a 64-entry table of a function of the square -/
def sqTab (f : Nat → UInt64) : Array UInt64 := (Array.range 64).map f

@[inline] def sqTabGet (f : Nat → UInt64) (tab : Array UInt64) (sq : Nat) : UInt64 :=
  if h : sq < tab.size then tab[sq] else f sq

theorem sqTabGet_eq (f : Nat → UInt64) (sq : Nat) : sqTabGet f (sqTab f) sq = f sq := by
  unfold sqTabGet sqTab
  split
  · simp
  · rfl

def rookMaskTab : Array UInt64 := sqTab rookMask
def rookMaskFast (sq : Nat) : UInt64 := sqTabGet rookMask rookMaskTab sq
@[csimp] theorem rookMask_eq : @rookMask = @rookMaskFast := by
  funext sq; exact (sqTabGet_eq rookMask sq).symm

def bishopMaskTab : Array UInt64 := sqTab bishopMask
def bishopMaskFast (sq : Nat) : UInt64 := sqTabGet bishopMask bishopMaskTab sq
@[csimp] theorem bishopMask_eq : @bishopMask = @bishopMaskFast := by
  funext sq; exact (sqTabGet_eq bishopMask sq).symm


/-! ### `tget`/`tset` algebra -/

theorem tget_testBit (t i k : Nat) (hk : k < 64) : (tget t i).toNat.testBit k = t.testBit (64 * i + k) := by
  unfold tget
  simp only [Nat.toUInt64, UInt64.toNat_ofNat', Nat.testBit_mod_two_pow, Nat.testBit_shiftRight, hk, decide_true, Bool.true_and]

theorem testBit_ge64 (x : UInt64) {k : Nat} (hk : 64 ≤ k) : x.toNat.testBit k = false :=
  Nat.testBit_lt_two_pow (Nat.lt_of_lt_of_le x.toNat_lt (Nat.pow_le_pow_right (by decide) hk))

theorem tget_tset (t i j : Nat) (v : UInt64) : tget (tset t i v) j = if j = i then v else tget t j := by
  apply UInt64.toNat_inj.1
  apply Nat.eq_of_testBit_eq
  intro k
  by_cases hk : k < 64
  · rw [tget_testBit _ _ _ hk]
    unfold tset
    simp only [Nat.testBit_or, Nat.testBit_xor, Nat.testBit_shiftLeft]
    by_cases hji : j = i
    · subst hji
      have h1 : 64 * j + k ≥ 64 * j := by omega
      have h2 : 64 * j + k - 64 * j = k := by omega
      simp only [h1, h2, decide_true, Bool.true_and, if_true, tget_testBit _ _ _ hk]
      simp
    · simp only [hji, if_false, tget_testBit _ _ _ hk]
      by_cases hge : 64 * j + k ≥ 64 * i
      · have hbig : 64 * j + k - 64 * i ≥ 64 := by omega
        simp [testBit_ge64 _ hbig]
      · simp [hge]
  · rw [testBit_ge64 _ (by omega), testBit_ge64 _ (by omega)]

/-- two tables below `2^(64 N)` with the same `N` slots are equal -/
theorem eq_of_tget {x y N : Nat} (hx : x < 2 ^ (64 * N)) (hy : y < 2 ^ (64 * N))
    (h : ∀ i, i < N → tget x i = tget y i) : x = y := by
  apply Nat.eq_of_testBit_eq
  intro p
  by_cases hp : p < 64 * N
  · have e : p = 64 * (p / 64) + p % 64 := by omega
    have hk : p % 64 < 64 := by omega
    rw [e, ← tget_testBit _ _ _ hk, ← tget_testBit _ _ _ hk, h _ (by omega)]
  · have hp' : 2 ^ (64 * N) ≤ 2 ^ p := Nat.pow_le_pow_right (by decide) (by omega)
    rw [Nat.testBit_lt_two_pow (Nat.lt_of_lt_of_le hx hp'), Nat.testBit_lt_two_pow (Nat.lt_of_lt_of_le hy hp')]

theorem shl_lt {w i N : Nat} (hw : w < 2 ^ 64) (hi : i < N) : w <<< (64 * i) < 2 ^ (64 * N) := by
  rw [Nat.shiftLeft_eq]
  have h1 : w * 2 ^ (64 * i) < 2 ^ 64 * 2 ^ (64 * i) := Nat.mul_lt_mul_of_pos_right hw (Nat.pow_pos (by decide))
  rw [← Nat.pow_add] at h1
  exact Nat.lt_of_lt_of_le h1 (Nat.pow_le_pow_right (by decide) (by omega))

theorem tset_lt {t i N : Nat} (v : UInt64) (ht : t < 2 ^ (64 * N)) (hi : i < N) : tset t i v < 2 ^ (64 * N) := by
  unfold tset
  exact Nat.or_lt_two_pow (Nat.xor_lt_two_pow ht (shl_lt (tget t i).toNat_lt hi)) (shl_lt v.toNat_lt hi)

theorem magicIndex_lt (occ magic : UInt64) {bits : Nat} (h0 : 0 < bits) (h64 : bits ≤ 64) :
    magicIndex occ magic bits < 2 ^ bits := by
  unfold magicIndex
  have h1 : ((64 - bits).toUInt64).toNat % 64 = 64 - bits := by
    simp [Nat.toUInt64, UInt64.toNat_ofNat']; omega
  rw [UInt64.toNat_shiftRight, h1, Nat.shiftRight_eq_div_pow]
  apply Nat.div_lt_of_lt_mul
  rw [← Nat.pow_add, show 64 - bits + bits = 64 by omega]
  exact (occ * magic).toNat_lt

/-! ### divide-and-conquer packing of an array into a table -/

/-- slots `lo .. lo+n-1` of `a` as a table -/
def packRange (a : Array UInt64) (lo n : Nat) : Nat :=
  if n = 0 then 0
  else if n = 1 then (a.getD lo 0).toNat
  else packRange a lo (n / 2) ||| (packRange a (lo + n / 2) (n - n / 2) <<< (64 * (n / 2)))
termination_by n
decreasing_by all_goals omega

theorem packRange_lt (a : Array UInt64) (lo n : Nat) : packRange a lo n < 2 ^ (64 * n) := by
  induction n using Nat.strongRecOn generalizing lo with
  | _ n ih =>
    rw [packRange]
    split
    · exact Nat.pow_pos (by decide)
    · split
      · rename_i h1; subst h1; exact (a.getD lo 0).toNat_lt
      · have a1 := ih (n / 2) (by omega) lo
        have a2 := ih (n - n / 2) (by omega) (lo + n / 2)
        apply Nat.or_lt_two_pow
        · exact Nat.lt_of_lt_of_le a1 (Nat.pow_le_pow_right (by decide) (by omega))
        · rw [Nat.shiftLeft_eq]
          have : packRange a (lo + n / 2) (n - n / 2) * 2 ^ (64 * (n / 2)) < 2 ^ (64 * (n - n / 2)) * 2 ^ (64 * (n / 2)) :=
            Nat.mul_lt_mul_of_pos_right a2 (Nat.pow_pos (by decide))
          rw [← Nat.pow_add] at this
          exact Nat.lt_of_lt_of_le this (Nat.pow_le_pow_right (by decide) (by omega))

theorem tget_or_shl {x : Nat} (y h i : Nat) (hx : x < 2 ^ (64 * h)) :
    tget (x ||| (y <<< (64 * h))) i = if i < h then tget x i else tget y (i - h) := by
  apply UInt64.toNat_inj.1
  apply Nat.eq_of_testBit_eq
  intro k
  by_cases hk : k < 64
  · rw [tget_testBit _ _ _ hk, Nat.testBit_or, Nat.testBit_shiftLeft]
    by_cases hi : i < h
    · have : ¬ (64 * i + k ≥ 64 * h) := by omega
      simp [hi, this, tget_testBit _ _ _ hk]
    · have h1 : 64 * i + k ≥ 64 * h := by omega
      have h2 : 64 * i + k - 64 * h = 64 * (i - h) + k := by omega
      have h3 : x.testBit (64 * i + k) = false :=
        Nat.testBit_lt_two_pow (Nat.lt_of_lt_of_le hx (Nat.pow_le_pow_right (by decide) (by omega)))
      simp [hi, h1, h2, h3, tget_testBit _ _ _ hk]
  · split <;> rw [testBit_ge64 _ (by omega), testBit_ge64 _ (by omega)]

theorem tget_packRange (a : Array UInt64) (lo n i : Nat) (hi : i < n) :
    tget (packRange a lo n) i = a.getD (lo + i) 0 := by
  induction n using Nat.strongRecOn generalizing lo i with
  | _ n ih =>
    rw [packRange]
    split
    · omega
    · split
      · rename_i h1; subst h1
        have : i = 0 := by omega
        subst this
        apply UInt64.toNat_inj.1
        simp [tget, Nat.toUInt64]
      · rw [tget_or_shl _ _ _ (packRange_lt a lo (n / 2))]
        split
        · exact ih (n / 2) (by omega) lo i (by omega)
        · rw [ih (n - n / 2) (by omega) (lo + n / 2) (i - n / 2) (by omega)]
          congr 1; omega

/-! ### building the table as an array -/

/-- `compute_blockers_from_index` over the ascending list of mask bits -/
def depositL (idx : Nat) : List Nat → UInt64
  | [] => 0
  | b :: rest => (if idx % 2 = 1 then bit b else 0) ||| depositL (idx / 2) rest

theorem deposit_eq_depositL (mask : UInt64) : ∀ fuel idx b,
    deposit idx mask fuel b = depositL idx ((List.range' b fuel).filter (test mask)) := by
  intro fuel
  induction fuel with
  | zero => intro idx b; simp [deposit, depositL]
  | succ f ih =>
    intro idx b
    rw [deposit, List.range'_succ, List.filter_cons]
    by_cases hm : test mask b = true
    · rw [if_pos hm, if_pos hm, depositL, ih]
    · rw [if_neg hm, if_neg hm, ih]

theorem blockersFromIndex_eq_depositL (b : Nat) (mask : UInt64) :
    blockersFromIndex b mask = depositL b (bitsOf mask) := by
  rw [blockersFromIndex, deposit_eq_depositL, bitsOf, List.range_eq_range']

/-- `buildTable` on an array instead of a big `Nat`, with the mask bits listed once (writes outside
the array are dropped) -/
def buildArr (slow : UInt64 → UInt64) (mbits : List Nat) (magic : UInt64) (bits : Nat) :
    Nat → Nat → Array UInt64 → Array UInt64
  | 0, _, a => a
  | n+1, b, a =>
    let blockers := depositL b mbits
    buildArr slow mbits magic bits n (b+1) (a.setIfInBounds (magicIndex blockers magic bits) (slow blockers))

theorem buildArr_size (slow : UInt64 → UInt64) (mbits : List Nat) (magic : UInt64) (bits n b : Nat) (a : Array UInt64) :
    (buildArr slow mbits magic bits n b a).size = a.size := by
  induction n generalizing b a with
  | zero => rfl
  | succ n ih => rw [buildArr, ih]; simp

/-- `a` holds the low slots of `t` -/
def Rep (t : Nat) (a : Array UInt64) : Prop := ∀ i (h : i < a.size), a[i] = tget t i

theorem rep_zero (n : Nat) : Rep 0 (Array.replicate n 0) := by
  intro i h
  simp [tget, Nat.toUInt64]

theorem rep_set {t : Nat} {a : Array UInt64} (h : Rep t a) (k : Nat) (v : UInt64) :
    Rep (tset t k v) (a.setIfInBounds k v) := by
  intro i hi
  rw [tget_tset]
  have hi' : i < a.size := by simpa using hi
  by_cases hik : i = k
  · subst hik; simp
  · rw [if_neg hik, Array.getElem_setIfInBounds_ne (by simpa using hi) (fun e => hik e.symm)]
    exact h i hi'

theorem rep_build (slow : UInt64 → UInt64) (mask magic : UInt64) (bits n b : Nat) (t : Nat) (a : Array UInt64)
    (h : Rep t a) : Rep (buildTable slow mask magic bits n b t) (buildArr slow (bitsOf mask) magic bits n b a) := by
  induction n generalizing b t a with
  | zero => exact h
  | succ n ih =>
    rw [buildTable, buildArr]
    simp only [blockersFromIndex_eq_depositL]
    exact ih _ _ _ (rep_set h _ _)

theorem buildTable_lt (slow : UInt64 → UInt64) (mask magic : UInt64) {bits : Nat} (h0 : 0 < bits) (h64 : bits ≤ 64)
    (n b t : Nat) (ht : t < 2 ^ (64 * 2 ^ bits)) : buildTable slow mask magic bits n b t < 2 ^ (64 * 2 ^ bits) := by
  induction n generalizing b t with
  | zero => exact ht
  | succ n ih => exact ih _ _ (tset_lt _ ht (magicIndex_lt _ _ h0 h64))

def arrOf (slow : UInt64 → UInt64) (mask magic : UInt64) (bits n b : Nat) : Array UInt64 :=
  buildArr slow (bitsOf mask) magic bits n b (Array.replicate (2 ^ bits) 0)

theorem rep_arrOf (slow : UInt64 → UInt64) (mask magic : UInt64) (bits n b : Nat) :
    Rep (buildTable slow mask magic bits n b 0) (arrOf slow mask magic bits n b) :=
  rep_build _ _ _ _ _ _ _ _ (rep_zero _)

/-- `buildTable` through an array, packed at the end (when started from the empty table) -/
def buildTableFast (slow : UInt64 → UInt64) (mask magic : UInt64) (bits n b t : Nat) : Nat :=
  if t = 0 ∧ 0 < bits ∧ bits ≤ 64 then packRange (arrOf slow mask magic bits n b) 0 (2 ^ bits)
  else buildTable slow mask magic bits n b t

@[csimp] theorem buildTable_eq : @buildTable = @buildTableFast := by
  funext slow mask magic bits n b t
  unfold buildTableFast
  split
  · rename_i h
    obtain ⟨ht, h0, h64⟩ := h
    subst ht
    have hsz : (arrOf slow mask magic bits n b).size = 2 ^ bits := by
      unfold arrOf; rw [buildArr_size]; simp
    apply eq_of_tget (buildTable_lt slow mask magic h0 h64 n b 0 (Nat.pow_pos (by decide))) (packRange_lt _ _ _)
    intro i hi
    rw [tget_packRange _ _ _ _ hi, Nat.zero_add]
    have := rep_arrOf slow mask magic bits n b i (by omega)
    rw [← this, Array.getD_eq_getD_getElem?]
    simp [hsz, hi]
  · rfl


end Fast

def rookTableOf (sq : Nat) (magic : UInt64) (bits : Nat) : Nat :=
  buildTable (rookSlow sq) (rookMask sq) magic bits (2 ^ bits) 0 0
def bishopTableOf (sq : Nat) (magic : UInt64) (bits : Nat) : Nat :=
  buildTable (bishopSlow sq) (bishopMask sq) magic bits (2 ^ bits) 0 0

/-- all 64 tables, computed once -/
def rookTables : Array Nat := (Array.range 64).map fun sq => rookTableOf sq (rookMagics.getD sq 0) (rookBitsTab.getD sq 0)
def bishopTables : Array Nat := (Array.range 64).map fun sq => bishopTableOf sq (bishopMagics.getD sq 0) (bishopBitsTab.getD sq 0)

/-- `AttackGenerator::compute_rook_attacks` given the square's table -/
@[inline] def rookLookup (table : Nat) (sq : Nat) (magic : UInt64) (bits : Nat) (occ : UInt64) : UInt64 :=
  tget table (magicIndex (occ &&& rookMask sq) magic bits)
@[inline] def bishopLookup (table : Nat) (sq : Nat) (magic : UInt64) (bits : Nat) (occ : UInt64) : UInt64 :=
  tget table (magicIndex (occ &&& bishopMask sq) magic bits)

def rookAttacks (sq : Nat) (occ : UInt64) : UInt64 :=
  rookLookup (rookTables.getD sq 0) sq (rookMagics.getD sq 0) (rookBitsTab.getD sq 0) occ
def bishopAttacks (sq : Nat) (occ : UInt64) : UInt64 :=
  bishopLookup (bishopTables.getD sq 0) sq (bishopMagics.getD sq 0) (bishopBitsTab.getD sq 0) occ
def queenAttacks (sq : Nat) (occ : UInt64) : UInt64 := rookAttacks sq occ ||| bishopAttacks sq occ

/-- leaper tables: set `offset` squares that exist -/
def leaper (offs : List (Int × Int)) (sq : Nat) : UInt64 :=
  offs.foldl (fun acc (o : Int × Int) => match offset sq o.1 o.2 with
    | some t => setBit acc t
    | Option.none => acc) 0

def knightAttacks (sq : Nat) : UInt64 := leaper knightOffsets sq
def kingAttacks (sq : Nat) : UInt64 := leaper kingOffsets sq
def pawnAttacks (c : Color) (sq : Nat) : UInt64 :=
  match c with
  | .white => leaper pawnAttackOffsetsWhite sq
  | .black => leaper pawnAttackOffsetsBlack sq

/-- `AttackGenerator::compute` -/
def attacksOf (c : Color) (p : Piece) (sq : Nat) (occ : UInt64) : UInt64 :=
  match p with
  | .none => 0
  | .pawn => pawnAttacks c sq
  | .knight => knightAttacks sq
  | .bishop => bishopAttacks sq occ
  | .rook => rookAttacks sq occ
  | .queen => queenAttacks sq occ
  | .king => kingAttacks sq

end Wee

/-! ## Compiled fast paths, part 2 (`@[csimp]`)

As in part 1, nothing below changes a definition.  Leaper attacks become 64-entry tables and the
magic look-ups index an `Array UInt64` per square (built by the same loop as the big `Nat`, see
`Fast.rep_arrOf`) instead of shifting a 32 KB `Nat`. -/
namespace Wee.Fast
open Wee Gen

def knightTab : Array UInt64 := sqTab knightAttacks
def knightAttacksFast (sq : Nat) : UInt64 := sqTabGet knightAttacks knightTab sq
@[csimp] theorem knightAttacks_eq : @knightAttacks = @knightAttacksFast := by
  funext sq; exact (sqTabGet_eq knightAttacks sq).symm

def kingTab : Array UInt64 := sqTab kingAttacks
def kingAttacksFast (sq : Nat) : UInt64 := sqTabGet kingAttacks kingTab sq
@[csimp] theorem kingAttacks_eq : @kingAttacks = @kingAttacksFast := by
  funext sq; exact (sqTabGet_eq kingAttacks sq).symm

def pawnTabW : Array UInt64 := sqTab (pawnAttacks .white)
def pawnTabB : Array UInt64 := sqTab (pawnAttacks .black)
def pawnAttacksFast (c : Color) (sq : Nat) : UInt64 :=
  match c with
  | .white => sqTabGet (pawnAttacks .white) pawnTabW sq
  | .black => sqTabGet (pawnAttacks .black) pawnTabB sq
@[csimp] theorem pawnAttacks_eq : @pawnAttacks = @pawnAttacksFast := by
  funext c sq; cases c
  · exact (sqTabGet_eq (pawnAttacks .white) sq).symm
  · exact (sqTabGet_eq (pawnAttacks .black) sq).symm

/-! ### magic look-ups in arrays -/

def rookArrs : Array (Array UInt64) :=
  (Array.range 64).map fun sq =>
    arrOf (rookSlow sq) (rookMask sq) (rookMagics.getD sq 0) (rookBitsTab.getD sq 0) (2 ^ rookBitsTab.getD sq 0) 0
def bishopArrs : Array (Array UInt64) :=
  (Array.range 64).map fun sq =>
    arrOf (bishopSlow sq) (bishopMask sq) (bishopMagics.getD sq 0) (bishopBitsTab.getD sq 0) (2 ^ bishopBitsTab.getD sq 0) 0

@[inline] def lookupFast (arrs : Array (Array UInt64)) (tables : Array Nat) (sq i : Nat) : UInt64 :=
  if h : sq < arrs.size then
    let a := arrs[sq]
    if h' : i < a.size then a[i] else tget (tables.getD sq 0) i
  else tget (tables.getD sq 0) i

def rookAttacksFast (sq : Nat) (occ : UInt64) : UInt64 :=
  lookupFast rookArrs rookTables sq (magicIndex (occ &&& rookMask sq) (rookMagics.getD sq 0) (rookBitsTab.getD sq 0))
def bishopAttacksFast (sq : Nat) (occ : UInt64) : UInt64 :=
  lookupFast bishopArrs bishopTables sq (magicIndex (occ &&& bishopMask sq) (bishopMagics.getD sq 0) (bishopBitsTab.getD sq 0))

theorem lookupFast_eq (arrs : Array (Array UInt64)) (tables : Array Nat) (sq i : Nat)
    (h : ∀ (hs : sq < arrs.size), Rep (tables.getD sq 0) arrs[sq]) :
    lookupFast arrs tables sq i = tget (tables.getD sq 0) i := by
  unfold lookupFast
  by_cases hs : sq < arrs.size
  · rw [dif_pos hs]
    by_cases hi : i < arrs[sq].size
    · simp only [hi, dite_true]; exact h hs i hi
    · simp only [hi, dite_false]
  · rw [dif_neg hs]

@[csimp] theorem rookAttacks_eq : @rookAttacks = @rookAttacksFast := by
  funext sq occ
  unfold rookAttacksFast rookAttacks rookLookup
  rw [lookupFast_eq]
  intro hs
  have hs' : sq < 64 := by simpa [rookArrs] using hs
  have e : rookTables.getD sq 0 = rookTableOf sq (rookMagics.getD sq 0) (rookBitsTab.getD sq 0) := by
    simp [rookTables, hs']
  have e2 : rookArrs[sq] = arrOf (rookSlow sq) (rookMask sq) (rookMagics.getD sq 0) (rookBitsTab.getD sq 0)
      (2 ^ rookBitsTab.getD sq 0) 0 := by
    simp [rookArrs]
  rw [e, e2]; exact rep_arrOf _ _ _ _ _ _

@[csimp] theorem bishopAttacks_eq : @bishopAttacks = @bishopAttacksFast := by
  funext sq occ
  unfold bishopAttacksFast bishopAttacks bishopLookup
  rw [lookupFast_eq]
  intro hs
  have hs' : sq < 64 := by simpa [bishopArrs] using hs
  have e : bishopTables.getD sq 0 = bishopTableOf sq (bishopMagics.getD sq 0) (bishopBitsTab.getD sq 0) := by
    simp [bishopTables, hs']
  have e2 : bishopArrs[sq] = arrOf (bishopSlow sq) (bishopMask sq) (bishopMagics.getD sq 0) (bishopBitsTab.getD sq 0)
      (2 ^ bishopBitsTab.getD sq 0) 0 := by
    simp [bishopArrs]
  rw [e, e2]; exact rep_arrOf _ _ _ _ _ _

def queenAttacksFast (sq : Nat) (occ : UInt64) : UInt64 := rookAttacks sq occ ||| bishopAttacks sq occ
@[csimp] theorem queenAttacks_eq : @queenAttacks = @queenAttacksFast := rfl

def attacksOfFast (c : Color) (p : Piece) (sq : Nat) (occ : UInt64) : UInt64 :=
  match p with
  | .none => 0
  | .pawn => pawnAttacks c sq
  | .knight => knightAttacks sq
  | .bishop => bishopAttacks sq occ
  | .rook => rookAttacks sq occ
  | .queen => queenAttacks sq occ
  | .king => kingAttacks sq
@[csimp] theorem attacksOf_eq : @attacksOf = @attacksOfFast := rfl

end Wee.Fast
