import Wee.Model.Types
import Wee.Gen.Magic
/-!
# Attack generation (mirror of `attacks.rs`)

* rays, slide masks, `compute_*_attacks_unoptimized`, `compute_blockers_from_index` transcribed;
* the magic table of one square is ONE big `Nat` (`tget t i = (t >>> (64*i)) % 2^64`), built by the
  same ascending fold as `compute_rook_magic_table` (later writes win, so a destructive collision
  is faithfully reproduced); out-of-range indices (`>= 4096`) are a Rust panic and are reported as
  `none` by `magicLookup?`.
-/
namespace Wee
open Gen

/-- `compute_ray`: walk `offset` until the edge, setting every square -/
def rayFrom (df dr : Int) : Nat → Nat → UInt64
  | 0, _ => 0
  | fuel+1, sq =>
    match offset sq df dr with
    | Option.none => 0
    | some n => bit n ||| rayFrom df dr fuel n

/-- direction index as in `enum Direction` -/
inductive Dir | n | s | e | w | ne | nw | se | sw
deriving DecidableEq, Repr

def Dir.idx : Dir → Nat | .n => 0 | .s => 1 | .e => 2 | .w => 3 | .ne => 4 | .nw => 5 | .se => 6 | .sw => 7
def Dir.off (d : Dir) : Int × Int := dirOffsets.getD d.idx (0, 0)

/-- `RAYS[dir][sq]` -/
def ray (d : Dir) (sq : Nat) : UInt64 := rayFrom d.off.1 d.off.2 8 sq

@[inline] def rankMask (r : Nat) : UInt64 := rankMasks.getD r 0
@[inline] def fileMask (f : Nat) : UInt64 := fileMasks.getD f 0

/-- `compute_rook_slide_masks` -/
def rookMask (sq : Nat) : UInt64 :=
  (ray .w sq &&& ~~~(fileMask 0)) ||| (ray .e sq &&& ~~~(fileMask 7)) |||
  (ray .n sq &&& ~~~(rankMask 7)) ||| (ray .s sq &&& ~~~(rankMask 0))

/-- `compute_bishop_slide_masks` -/
def bishopMask (sq : Nat) : UInt64 :=
  (ray .nw sq &&& ~~~(fileMask 0 ||| rankMask 7)) ||| (ray .sw sq &&& ~~~(fileMask 0 ||| rankMask 0)) |||
  (ray .ne sq &&& ~~~(fileMask 7 ||| rankMask 7)) ||| (ray .se sq &&& ~~~(fileMask 7 ||| rankMask 0))

/-- one direction of `compute_*_attacks_unoptimized`: add the ray, cut behind the nearest blocker
(`first_one` for rays that go up in square index, `last_one` for rays that go down) -/
def cutRay (d : Dir) (up : Bool) (sq : Nat) (blockers : UInt64) (attacks : UInt64) : UInt64 :=
  let r := ray d sq
  let attacks := attacks ||| r
  match (if up then firstOne (r &&& blockers) else lastOne (r &&& blockers)) with
  | some b => attacks &&& ~~~(ray d b)
  | Option.none => attacks

/-- `compute_rook_attacks_unoptimized` -/
def rookSlow (sq : Nat) (blockers : UInt64) : UInt64 :=
  cutRay .e true sq blockers (cutRay .w false sq blockers (cutRay .s false sq blockers (cutRay .n true sq blockers 0)))

/-- `compute_bishop_attacks_unoptimized` -/
def bishopSlow (sq : Nat) (blockers : UInt64) : UInt64 :=
  cutRay .se false sq blockers (cutRay .ne true sq blockers (cutRay .sw false sq blockers (cutRay .nw true sq blockers 0)))

/-- `compute_blockers_from_index` (bit `i` of `index` goes to the `i`-th set bit of `mask`) -/
def deposit (idx : Nat) (mask : UInt64) : Nat → Nat → UInt64
  | 0, _ => 0
  | fuel+1, b =>
    if test mask b then
      (if idx % 2 = 1 then bit b else 0) ||| deposit (idx / 2) mask fuel (b+1)
    else deposit idx mask fuel (b+1)

def blockersFromIndex (idx : Nat) (mask : UInt64) : UInt64 := deposit idx mask 64 0

/-! ## magic tables as big naturals -/

@[inline] def tget (t : Nat) (i : Nat) : UInt64 := (t >>> (64 * i)).toUInt64
/-- overwrite slot `i` -/
@[inline] def tset (t : Nat) (i : Nat) (v : UInt64) : Nat :=
  (t ^^^ ((tget t i).toNat <<< (64 * i))) ||| (v.toNat <<< (64 * i))

/-- `u64::wrapping_mul(occ, magic) >> (64 - bits)` -/
@[inline] def magicIndex (occ magic : UInt64) (bits : Nat) : Nat :=
  ((occ * magic) >>> (64 - bits).toUInt64).toNat

/-- the fold of `compute_rook_magic_table` for one square: `b = 0 .. 2^bits - 1` ascending -/
def buildTable (slow : UInt64 → UInt64) (mask magic : UInt64) (bits : Nat) : Nat → Nat → Nat → Nat
  | 0, _, t => t
  | n+1, b, t =>
    let blockers := blockersFromIndex b mask
    buildTable slow mask magic bits n (b+1) (tset t (magicIndex blockers magic bits) (slow blockers))

def rookTableOf (sq : Nat) (magic : UInt64) (bits : Nat) : Nat :=
  buildTable (rookSlow sq) (rookMask sq) magic bits (2 ^ bits) 0 0
def bishopTableOf (sq : Nat) (magic : UInt64) (bits : Nat) : Nat :=
  buildTable (bishopSlow sq) (bishopMask sq) magic bits (2 ^ bits) 0 0

/-- all 64 tables, computed once -/
def rookTables : Array Nat := (Array.range 64).map fun sq => rookTableOf sq (rookMagics.getD sq 0) (rookBitsTab.getD sq 0)
def bishopTables : Array Nat := (Array.range 64).map fun sq => bishopTableOf sq (bishopMagics.getD sq 0) (bishopBitsTab.getD sq 0)

/-- `AttackGenerator::compute_rook_attacks` given the square's table -/
@[inline] def rookLookup (table : Nat) (sq : Nat) (magic : UInt64) (bits : Nat) (occ : UInt64) : UInt64 :=
  tget table (magicIndex (occ &&& rookMask sq) magic bits)
@[inline] def bishopLookup (table : Nat) (sq : Nat) (magic : UInt64) (bits : Nat) (occ : UInt64) : UInt64 :=
  tget table (magicIndex (occ &&& bishopMask sq) magic bits)

def rookAttacks (sq : Nat) (occ : UInt64) : UInt64 :=
  rookLookup (rookTables.getD sq 0) sq (rookMagics.getD sq 0) (rookBitsTab.getD sq 0) occ
def bishopAttacks (sq : Nat) (occ : UInt64) : UInt64 :=
  bishopLookup (bishopTables.getD sq 0) sq (bishopMagics.getD sq 0) (bishopBitsTab.getD sq 0) occ
def queenAttacks (sq : Nat) (occ : UInt64) : UInt64 := rookAttacks sq occ ||| bishopAttacks sq occ

/-- leaper tables: set `offset` squares that exist -/
def leaper (offs : List (Int × Int)) (sq : Nat) : UInt64 :=
  offs.foldl (fun acc (o : Int × Int) => match offset sq o.1 o.2 with
    | some t => setBit acc t
    | Option.none => acc) 0

def knightAttacks (sq : Nat) : UInt64 := leaper knightOffsets sq
def kingAttacks (sq : Nat) : UInt64 := leaper kingOffsets sq
def pawnAttacks (c : Color) (sq : Nat) : UInt64 :=
  match c with
  | .white => leaper pawnAttackOffsetsWhite sq
  | .black => leaper pawnAttackOffsetsBlack sq

/-- `AttackGenerator::compute` -/
def attacksOf (c : Color) (p : Piece) (sq : Nat) (occ : UInt64) : UInt64 :=
  match p with
  | .none => 0
  | .pawn => pawnAttacks c sq
  | .knight => knightAttacks sq
  | .bishop => bishopAttacks sq occ
  | .rook => rookAttacks sq occ
  | .queen => queenAttacks sq occ
  | .king => kingAttacks sq

end Wee
