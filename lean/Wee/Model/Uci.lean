import Wee.Model.San
import Wee.Model.Fen
/-!
# The UCI command loop as a state machine (mirror of `uci.rs`, `Client::exec`)

The search itself is abstracted to what the loop does with it: a running search is *joined* by
`go`, `position`, `stop`, `ucinewgame`, `quit`/EOF (`Search::wait_cancel`: send Stop, join the search
thread, join the writer thread — which prints the `bestmove` of that search if it ever reported a
line).  `Out.joinRunning` marks that point in the output stream.
-/
namespace Wee.Uci

structure Sess where
  pos : State
  searching : Bool        -- `current_search.is_some()`
  artifact : Bool         -- `previous_artifact.is_some()`
  searchOk : Bool := true -- the running search (if any) ends without a panic in its threads; since the repair of
                          -- F8 a panicked search is joined like any other, only its artifact is lost (`join().ok()`)
deriving Repr

def Sess.init : Sess := { pos := startState, searching := false, artifact := false, searchOk := true }

inductive Out
  | line (s : String)                 -- printed on stdout at once
  | joinRunning                       -- the running search is stopped and joined here (its bestmove appears here at the latest)
  | bookMove                          -- `info string book move: …` + `bestmove …` at once
  | searchStarted (depth : Option Nat) (movetimeMs : Option Int) (reusesArtifact : Bool)
  | stderrState                       -- `.state`
  | stderrStatus
deriving Repr, DecidableEq

/-- `str::split_ascii_whitespace` -/
def splitAsciiWs (s : String) : List String :=
  let isWs (c : Char) : Bool := c == ' ' || c == '\t' || c == '\n' || c == '\x0C' || c == '\r'
  let rec go : List Char → List Char → List String
    | [], cur => if cur.isEmpty then [] else [String.ofList cur.reverse]
    | c :: rest, cur =>
      if isWs c then (if cur.isEmpty then go rest [] else String.ofList cur.reverse :: go rest [])
      else go rest (c :: cur)
  go s.toList []

/-- `i32::from_str_radix(s, 10)`: optional sign, ASCII digits, must fit i32 -/
def parseI32 (s : String) : Option Int :=
  let cs := s.toList
  let (neg, ds) := match cs with
    | '-' :: r => (true, r)
    | '+' :: r => (false, r)
    | r => (false, r)
  if ds.isEmpty || !ds.all Char.isDigit then Option.none else
  let v : Int := (ds.foldl (fun acc c => acc * 10 + (c.toNat - 48)) 0 : Nat)
  let v := if neg then -v else v
  if v < -2147483648 ∨ v > 2147483647 then Option.none else some v

/-- `usize::from_str_radix(s, 10)`: optional `+`, ASCII digits, must fit 64 bits -/
def parseUsizeTok (s : String) : Option Nat :=
  let cs := match s.toList with | '+' :: r => r | r => r
  if cs.isEmpty || !cs.all Char.isDigit then Option.none else
  let v := cs.foldl (fun acc c => acc * 10 + (c.toNat - 48)) 0
  if v < 2^64 then some v else Option.none

/-- the argument loop of `go`: returns (depth, movetime, sawUnparsable) -/
def parseGoArgs : List String → Option Nat → Option Int → (Option Nat × Option Int × Bool)
  | [], d, t => (d, t, false)
  | "movetime" :: rest, d, t =>
    match rest with
    | x :: rest' => (match parseI32 x with
        | some ms => parseGoArgs rest' d (some ms)
        | Option.none => (d, t, true))
    | [] => (d, t, true)
  | "depth" :: rest, d, t =>
    match rest with
    | x :: rest' => (match parseUsizeTok x with
        | some n => parseGoArgs rest' (some n) t
        | Option.none => (d, t, true))
    | [] => (d, t, true)
  | _ :: _, d, t => (d, t, true)

/-- join a running search: `previous_artifact = search.wait_cancel()` — `Some(artifact)` of a search that ended
normally, `None` of one whose thread panicked (F8: before the repair `join().unwrap()` aborted the process here) -/
def joinKeep (s : Sess) : Sess × List Out :=
  if s.searching then ({ s with searching := false, artifact := s.searchOk }, [.joinRunning]) else (s, [])

/-- the `position` arm after the running search has been joined; `none` = the process panics -/
def positionCmd (s : Sess) (args : List String) : Option (Sess × List Out) :=
  let (pos, moves) := match args.span (· != "moves") with
    | (p, _ :: m) => (p, m)
    | (p, []) => (p, [])
  let base : Option State ⊕ String := match pos with
    | "startpos" :: _ => .inl (some startState)
    | "fen" :: rest =>
      (match parseFen false (" ".intercalate rest) with
       | .ok st => .inl (some st)
       | .err => .inr "info string invalid fen position"
       | .panic => .inl Option.none)
    | _ => .inr "info string unknown position command"
  match base with
  | .inr msg => some (s, [.line msg])
  | .inl Option.none => Option.none
  | .inl (some st) =>
    let s := { s with pos := st }
    -- `filter_map` over the move tokens
    let parsed := moves.map parseUciMoveToken
    if parsed.any Option.isNone then Option.none           -- a slice panic (impossible since the fix of F4)
    else
      let qs := parsed.filterMap fun x => x.bind id
      if qs.length != moves.length then some (s, [.line "info string invalid move format"])
      else match performQueries st qs with
        | Option.none => Option.none
        | some (.ok st') => some ({ s with pos := st' }, [])
        | some (.error _) => some (s, [.line "info string invalid move"])

/-- one iteration of the command loop; `hasBook` abstracts `book.lookup(&current_position).is_some()`,
`searchOK` whether a search of that position ends without a panic (true of every legal position: C04).
Result: `none` = panic; otherwise new state, outputs in order, and whether the loop ends. -/
def step (hasBook : State → Bool) (s : Sess) (cmd : String) (searchOK : State → Bool := fun _ => true) :
    Option (Sess × List Out × Bool) :=
  match splitAsciiWs cmd with
  | "go" :: args =>
    let (s, o1) := joinKeep s
    let (d, t, bad) := parseGoArgs args Option.none Option.none
    let o2 := if bad then [Out.line "info string unparsable go commands"] else []
    if hasBook s.pos then some (s, o1 ++ o2 ++ [.bookMove], false)
    else some ({ s with searching := true, artifact := false, searchOk := searchOK s.pos },
               o1 ++ o2 ++ [.searchStarted d t s.artifact], false)
  | "isready" :: _ => some (s, [.line "readyok"], false)
  | "position" :: args =>
    let (s, o1) := joinKeep s
    match positionCmd s args with
    | Option.none => Option.none
    | some (s, o2) => some (s, o1 ++ o2, false)
  | "stop" :: _ => let (s, o) := joinKeep s; some (s, o, false)
  | "uci" :: _ => some (s, [.line "id name", .line "id author", .line "uciok"], false)
  | "ucinewgame" :: _ =>
    -- `search.wait_cancel()` (artifact dropped) and — since the repair of F6 — `previous_artifact = None`
    some ({ s with searching := false, artifact := false }, if s.searching then [.joinRunning] else [], false)
  | "quit" :: _ => some (s, [], true)
  | ".state" :: _ => some (s, [.stderrState], false)
  | ".status" :: _ => some (s, [.stderrStatus], false)
  | _ => some (s, [.line "info string unknown command"], false)

/-- a whole session: commands in order, then EOF (`if let Some(search) = current_search { wait_cancel }`) -/
def run (hasBook : State → Bool) : Sess → List String → Option (Sess × List Out)
  | s, [] => some (if s.searching then ({ s with searching := false }, [.joinRunning]) else (s, []))
  | s, c :: cs =>
    match step hasBook s c with
    | Option.none => Option.none
    | some (s', o, true) => some (if s'.searching then ({ s' with searching := false }, o ++ [.joinRunning]) else (s', o))
    | some (s', o, false) =>
      match run hasBook s' cs with
      | Option.none => Option.none
      | some (s'', o') => some (s'', o ++ o')

end Wee.Uci
