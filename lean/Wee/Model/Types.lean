import Wee.Model.Bits
import Wee.Gen.Geometry
import Wee.Gen.MoveLayout
/-!
# Basic chess types (mirror of `color.rs`, `piece.rs`, `board.rs` (Square/File/Rank/Side), `state.rs`)
-/
namespace Wee

inductive Color | white | black
deriving DecidableEq, Repr, Inhabited

namespace Color
@[inline] def opp : Color → Color | white => black | black => white
@[inline] def idx : Color → Nat | white => 0 | black => 1
/-- `Color::forward().rank` -/
@[inline] def forward : Color → Int | white => 1 | black => -1
@[inline] def backward : Color → Int | white => -1 | black => 1
def all : List Color := [white, black]
end Color

/-- `enum Piece` with its discriminants `None = 0 … King = 6` -/
inductive Piece | none | pawn | knight | bishop | rook | queen | king
deriving DecidableEq, Repr, Inhabited

namespace Piece
@[inline] def code : Piece → Nat
  | none => 0 | pawn => 1 | knight => 2 | bishop => 3 | rook => 4 | queen => 5 | king => 6
/-- `Piece::try_from_primitive` -/
def ofCode? : Nat → Option Piece
  | 0 => some none | 1 => some pawn | 2 => some knight | 3 => some bishop
  | 4 => some rook | 5 => some queen | 6 => some king | _ => Option.none
/-- `Piece::ALL` -/
def all : List Piece := [pawn, knight, bishop, rook, queen, king]
/-- `Piece::ALL_INCLUDING_NONE` -/
def allIncludingNone : List Piece := [none, pawn, knight, bishop, rook, queen, king]
/-- `Into<char> for Piece` (" PNBRQK") -/
def letter : Piece → Char
  | none => ' ' | pawn => 'P' | knight => 'N' | bishop => 'B' | rook => 'R' | queen => 'Q' | king => 'K'
end Piece

inductive Side | king | queen
deriving DecidableEq, Repr, Inhabited

namespace Side
@[inline] def idx : Side → Nat | king => 0 | queen => 1
def all : List Side := [king, queen]
end Side

/-! ## Squares: `Nat` with index `rank * 8 + file` -/

@[inline] def fileOf (sq : Nat) : Nat := sq % 8
@[inline] def rankOf (sq : Nat) : Nat := sq / 8
@[inline] def mkSq (rank file : Nat) : Nat := rank * 8 + file

/-- `Square::offset` -/
def offset (sq : Nat) (df dr : Int) : Option Nat :=
  let f : Int := (fileOf sq : Nat) + df
  let r : Int := (rankOf sq : Nat) + dr
  if f < 0 ∨ f > 7 ∨ r < 0 ∨ r > 7 then Option.none else some (r.toNat * 8 + f.toNat)

/-- `Square::flip_rank` -/
@[inline] def flipRank (sq : Nat) : Nat := mkSq (7 - rankOf sq) (fileOf sq)

/-- `File::abs_distance_to` / `Rank::abs_distance_to` -/
@[inline] def absDist (a b : Nat) : Nat := if a ≥ b then a - b else b - a

/-- `Square::manhattan_distance_to` -/
def manhattan (a b : Nat) : Nat := absDist (rankOf a) (rankOf b) + absDist (fileOf a) (fileOf b)

def fileChar (f : Nat) : Char := Char.ofNat ('a'.toNat + f)
def rankChar (r : Nat) : Char := Char.ofNat ('1'.toNat + r)
/-- `Display for Square` -/
def sqName (sq : Nat) : String := String.ofList [fileChar (fileOf sq), rankChar (rankOf sq)]

/-! ## Piece placement: `ArrayMap<PieceIndex, BitBoard>` restricted to the twelve real pieces.

The four unused indices (0, 7, 8, 15) and the two `None` indices are never written by any modelled
code path (`Board::from(&ArrayMap<Square, PieceIndex>)` writes `false` into index 0 only), so they are
constantly zero and are not stored. -/
structure PieceMap where
  wp : UInt64 := 0
  wn : UInt64 := 0
  wb : UInt64 := 0
  wr : UInt64 := 0
  wq : UInt64 := 0
  wk : UInt64 := 0
  bp : UInt64 := 0
  bn : UInt64 := 0
  bb : UInt64 := 0
  br : UInt64 := 0
  bq : UInt64 := 0
  bk : UInt64 := 0
deriving DecidableEq, Repr, Inhabited

namespace PieceMap
@[inline] def get (m : PieceMap) : Color → Piece → UInt64
  | .white, .pawn => m.wp | .white, .knight => m.wn | .white, .bishop => m.wb
  | .white, .rook => m.wr | .white, .queen => m.wq | .white, .king => m.wk
  | .black, .pawn => m.bp | .black, .knight => m.bn | .black, .bishop => m.bb
  | .black, .rook => m.br | .black, .queen => m.bq | .black, .king => m.bk
  | _, .none => 0

@[inline] def set (m : PieceMap) (c : Color) (p : Piece) (v : UInt64) : PieceMap :=
  match c, p with
  | .white, .pawn => { m with wp := v } | .white, .knight => { m with wn := v }
  | .white, .bishop => { m with wb := v } | .white, .rook => { m with wr := v }
  | .white, .queen => { m with wq := v } | .white, .king => { m with wk := v }
  | .black, .pawn => { m with bp := v } | .black, .knight => { m with bn := v }
  | .black, .bishop => { m with bb := v } | .black, .rook => { m with br := v }
  | .black, .queen => { m with bq := v } | .black, .king => { m with bk := v }
  | _, .none => m

/-- `map[pi].set(sq, v)` -/
@[inline] def assign (m : PieceMap) (c : Color) (p : Piece) (sq : Nat) (v : Bool) : PieceMap :=
  m.set c p (assignBit (m.get c p) sq v)

/-- `Board::new`: `colored_occupancy[c]` -/
def colorOcc (m : PieceMap) (c : Color) : UInt64 :=
  Piece.all.foldl (fun acc p => acc ||| m.get c p) 0

/-- `Board::new`: `occupancy` -/
def occ (m : PieceMap) : UInt64 := m.colorOcc .white ||| m.colorOcc .black

/-- `Board::piece_at` (first match in `Color::ALL × Piece::ALL` order) -/
def pieceAt (m : PieceMap) (sq : Nat) : Option (Color × Piece) :=
  (Color.all.flatMap fun c => Piece.all.map fun p => (c, p)).find? fun (c, p) => test (m.get c p) sq
end PieceMap

structure CastleRights where
  kingside : Bool
  queenside : Bool
deriving DecidableEq, Repr, Inhabited

namespace CastleRights
def noRights : CastleRights := ⟨false, false⟩
def both : CastleRights := ⟨true, true⟩
@[inline] def forSide (r : CastleRights) : Side → Bool | .king => r.kingside | .queen => r.queenside
end CastleRights

/-- `usize::saturating_add(1)` on a move counter (since the repair of F9; before it `+ 1` panicked with overflow
checks and wrapped to 0 without) -/
def clockSucc (n : Nat) : Nat := if n + 1 < 2^64 then n + 1 else n

/-- `struct State` (the attack-map cache of `Board` is modelled separately, see `Model/AttackCache`) -/
structure State where
  pieces : PieceMap
  turn : Color
  castleW : CastleRights
  castleB : CastleRights
  ep : Option Nat
  halfmove : Nat
  fullmove : Nat
deriving DecidableEq, Repr, Inhabited

namespace State
@[inline] def castle (s : State) : Color → CastleRights | .white => s.castleW | .black => s.castleB
@[inline] def occ (s : State) : UInt64 := s.pieces.occ
end State

end Wee
