/-!
# CBOR image of a `Move` (model of the third-party crate `ciborium` 0.2.2, *modelled, not verified*)

`#[derive(Serialize, Deserialize)] struct Move(u32)` is a serde *newtype struct*.
`ciborium::ser::Serializer::serialize_newtype_struct` forwards to the inner value, `serialize_u32`
forwards to `serialize_u64`, which pushes `Header::Positive(v)`; `ciborium_ll::Title::from(Header)`
picks the shortest of the five argument forms of major type 0:

* `v ≤ 23`        : one byte `v`                      (`Minor::This`)
* `v ≤ u8::MAX`   : `0x18`, one byte                  (`Minor::Next1`)
* `v ≤ u16::MAX`  : `0x19`, two bytes big-endian      (`Minor::Next2`)
* `v ≤ u32::MAX`  : `0x1a`, four bytes big-endian     (`Minor::Next4`)
* otherwise       : `0x1b`, eight bytes big-endian    (`Minor::Next8`, unreachable for a `u32`)

Reading: `deserialize_newtype_struct → u32::deserialize → deserialize_u64 → integer(None)` pulls one
header; `Header::Positive(x)` of *any* of the five forms is accepted (the shortest form is not
demanded), the value must fit the target integer (`"integer too large"` / serde's `u32` visitor
otherwise).  ciborium additionally accepts tag-prefixed integers and big-number byte strings; these
never occur in the output of the encoder and are rejected (`none`) by this model.
-/
namespace Wee.Cbor

/-- big-endian value of a byte string (`uN::from_be_bytes`) -/
def beNat (bs : List UInt8) : Nat := bs.foldl (fun acc b => acc * 256 + b.toNat) 0

/-- `ciborium::into_writer(&Move(raw))` : CBOR unsigned integer, shortest form. -/
def encodeU32 (raw : UInt32) : List UInt8 :=
  if raw < 24 then [raw.toUInt8]
  else if raw < 256 then [0x18, raw.toUInt8]
  else if raw < 65536 then [0x19, (raw >>> 8).toUInt8, raw.toUInt8]
  else [0x1a, (raw >>> 24).toUInt8, (raw >>> 16).toUInt8, (raw >>> 8).toUInt8, raw.toUInt8]

/-- the argument `n` of a major-type-0 item must fit a `u32` -/
@[inline] def fitU32 (n : Nat) (rest : List UInt8) : Option (UInt32 × List UInt8) :=
  if n < 4294967296 then some (n.toUInt32, rest) else none

/-- Reads one CBOR unsigned integer that fits a `u32` from the front of a byte stream and returns
it together with the unread bytes (a `Move` inside a larger document, e.g. the opening book).
Initial byte `b`: major type `b >>> 5` must be 0; additional information `b &&& 0x1f` selects the
form. -/
def decodeU32Prefix : List UInt8 → Option (UInt32 × List UInt8)
  | [] => none
  | b :: rest =>
    if b < 24 then some (b.toUInt32, rest)
    else if b = 0x18 then
      match rest with
      | a :: rest => fitU32 (beNat [a]) rest
      | _ => none
    else if b = 0x19 then
      match rest with
      | a1 :: a0 :: rest => fitU32 (beNat [a1, a0]) rest
      | _ => none
    else if b = 0x1a then
      match rest with
      | a3 :: a2 :: a1 :: a0 :: rest => fitU32 (beNat [a3, a2, a1, a0]) rest
      | _ => none
    else if b = 0x1b then
      match rest with
      | a7 :: a6 :: a5 :: a4 :: a3 :: a2 :: a1 :: a0 :: rest =>
          fitU32 (beNat [a7, a6, a5, a4, a3, a2, a1, a0]) rest
      | _ => none
    else none

/-- `ciborium::from_reader::<Move>(bytes)` on a buffer holding exactly one item (the real reader
leaves trailing bytes unread instead of failing; use `decodeU32Prefix` for that view). -/
def decodeU32 (bs : List UInt8) : Option UInt32 :=
  match decodeU32Prefix bs with
  | some (v, []) => some v
  | _ => none

end Wee.Cbor
