/-!
# Bitboards (mirror of `weechess-core/src/board.rs`, `struct BitBoard(u64)`)

Bitboards are `UInt64`; squares are `Nat` (`< 64` where the Rust type `Square` guarantees it).
`bitsOf` is `BitBoard::iter_ones` (ascending order, same list as repeated `trailing_zeros`).
-/
namespace Wee

abbrev BB := UInt64

/-- `BitBoard::just` : `1u64 << sq` -/
@[inline] def bit (n : Nat) : UInt64 := (1 : UInt64) <<< n.toUInt64

/-- `BitBoard::test_raw` (as a `Nat.testBit`, so that core lemmas apply) -/
@[inline] def test (b : UInt64) (n : Nat) : Bool := b.toNat.testBit n

/-- `BitBoard::set_raw(bit, true)` -/
@[inline] def setBit (b : UInt64) (n : Nat) : UInt64 := b ||| bit n
/-- `BitBoard::set_raw(bit, false)` -/
@[inline] def clearBit (b : UInt64) (n : Nat) : UInt64 := b &&& ~~~(bit n)
/-- `BitBoard::set(square, value)` -/
@[inline] def assignBit (b : UInt64) (n : Nat) (v : Bool) : UInt64 :=
  if v then setBit b n else clearBit b n

/-- `BitBoard::iter_ones` -/
def bitsOf (b : UInt64) : List Nat := (List.range 64).filter (test b)

/-- `BitBoard::count_ones` -/
def popcount (b : UInt64) : Nat := (bitsOf b).length

/-- `BitBoard::first_one` (`trailing_zeros`) -/
def firstOne (b : UInt64) : Option Nat := (bitsOf b).head?

/-- `BitBoard::last_one` (`63 - leading_zeros`) -/
def lastOne (b : UInt64) : Option Nat := (bitsOf b).getLast?

@[inline] def bbAny (b : UInt64) : Bool := b != 0
@[inline] def bbNone (b : UInt64) : Bool := b == 0

def fileA : UInt64 := 0x0101010101010101
def fileH : UInt64 := 0x8080808080808080

/-- one step east, as in `BitBoard::shift`: `(bb & !FILE_MASKS[H]) << 1` -/
@[inline] def shiftE (b : UInt64) : UInt64 := (b &&& ~~~fileH) <<< (1 : Nat).toUInt64
/-- one step west: `(bb & !FILE_MASKS[A]) >> 1` -/
@[inline] def shiftW (b : UInt64) : UInt64 := (b &&& ~~~fileA) >>> (1 : Nat).toUInt64
/-- `bb << 8` -/
@[inline] def shiftN (b : UInt64) : UInt64 := b <<< (8 : Nat).toUInt64
/-- `bb >> 8` -/
@[inline] def shiftS (b : UInt64) : UInt64 := b >>> (8 : Nat).toUInt64

end Wee
