/-!
# Bitboards (mirror of `weechess-core/src/board.rs`, `struct BitBoard(u64)`)

Bitboards are `UInt64`; squares are `Nat` (`< 64` where the Rust type `Square` guarantees it).
`bitsOf` is `BitBoard::iter_ones` (ascending order, same list as repeated `trailing_zeros`).
-/
namespace Wee

abbrev BB := UInt64

/-- `BitBoard::just` : `1u64 << sq` -/
@[inline] def bit (n : Nat) : UInt64 := (1 : UInt64) <<< n.toUInt64

/-- `BitBoard::test_raw` (as a `Nat.testBit`, so that core lemmas apply) -/
@[inline] def test (b : UInt64) (n : Nat) : Bool := b.toNat.testBit n

/-- `BitBoard::set_raw(bit, true)` -/
@[inline] def setBit (b : UInt64) (n : Nat) : UInt64 := b ||| bit n
/-- `BitBoard::set_raw(bit, false)` -/
@[inline] def clearBit (b : UInt64) (n : Nat) : UInt64 := b &&& ~~~(bit n)
/-- `BitBoard::set(square, value)` -/
@[inline] def assignBit (b : UInt64) (n : Nat) (v : Bool) : UInt64 :=
  if v then setBit b n else clearBit b n

/-- `BitBoard::iter_ones` -/
def bitsOf (b : UInt64) : List Nat := (List.range 64).filter (test b)

/-- `BitBoard::count_ones` -/
def popcount (b : UInt64) : Nat := (bitsOf b).length

/-- `BitBoard::first_one` (`trailing_zeros`) -/
def firstOne (b : UInt64) : Option Nat := (bitsOf b).head?

/-- `BitBoard::last_one` (`63 - leading_zeros`) -/
def lastOne (b : UInt64) : Option Nat := (bitsOf b).getLast?

@[inline] def bbAny (b : UInt64) : Bool := b != 0
@[inline] def bbNone (b : UInt64) : Bool := b == 0

def fileA : UInt64 := 0x0101010101010101
def fileH : UInt64 := 0x8080808080808080

/-- one step east, as in `BitBoard::shift`: `(bb & !FILE_MASKS[H]) << 1` -/
@[inline] def shiftE (b : UInt64) : UInt64 := (b &&& ~~~fileH) <<< (1 : Nat).toUInt64
/-- one step west: `(bb & !FILE_MASKS[A]) >> 1` -/
@[inline] def shiftW (b : UInt64) : UInt64 := (b &&& ~~~fileA) >>> (1 : Nat).toUInt64
/-- `bb << 8` -/
@[inline] def shiftN (b : UInt64) : UInt64 := b <<< (8 : Nat).toUInt64
/-- `bb >> 8` -/
@[inline] def shiftS (b : UInt64) : UInt64 := b >>> (8 : Nat).toUInt64

end Wee

/-! ## Compiled fast paths (`@[csimp]`)

Nothing below changes a definition: each `@[csimp]` theorem proves that a model function is EQUAL to
a faster implementation, and only the code generator uses it (the kernel, `decide` and every proof
keep seeing the original definitions).

`test` becomes a shift-and-mask on `UInt64` (no boxed `Nat`); `bitsOf` and `popcount` look each byte of
the board up in a precomputed table; `firstOne`, `lastOne` walk the board byte by byte and skip empty
bytes. -/
namespace Wee.Fast
open Wee

@[inline] def testFast (b : UInt64) (n : Nat) : Bool := n < 64 && ((b >>> n.toUInt64) &&& 1) != 0

theorem test_eq_testFast (b : UInt64) (n : Nat) : test b n = testFast b n := by
  unfold test testFast
  by_cases hn : n < 64
  · have h1 : (n.toUInt64).toNat % 64 = n := by
      simp [Nat.toUInt64, UInt64.toNat_ofNat']; omega
    have h3 : ((b >>> n.toUInt64) &&& 1).toNat = (b.toNat >>> n) % 2 := by
      rw [UInt64.toNat_and, UInt64.toNat_shiftRight, h1]; exact Nat.and_one_is_mod _
    have h2 : (((b >>> n.toUInt64) &&& 1) != 0) = b.toNat.testBit n := by
      rw [Nat.testBit, Nat.one_and_eq_mod_two]
      generalize ((b >>> n.toUInt64) &&& 1) = x at *
      rw [← h3]
      by_cases hx : x = 0
      · subst hx; rfl
      · have : x.toNat ≠ 0 := fun h => hx (UInt64.toNat_inj.1 h)
        rw [bne_iff_ne.2 hx, bne_iff_ne.2 this]
    rw [h2]; simp [hn]
  · have : b.toNat < 2 ^ n := Nat.lt_of_lt_of_le b.toNat_lt (Nat.pow_le_pow_right (by decide) (by omega))
    simp [hn, Nat.testBit_lt_two_pow this]

@[csimp] theorem test_eq_testFast' : @test = @testFast := by
  funext b n; exact test_eq_testFast b n


/-- first set bit among `i, i+1, …, i+f-1` -/
def firstGo (b : UInt64) : Nat → Nat → Option Nat
  | 0, _ => none
  | f+1, i => if testFast b i then some i else firstGo b f (i + 1)

theorem firstGo_eq (b : UInt64) (f i : Nat) :
    firstGo b f i = ((List.range' i f).filter (test b)).head? := by
  induction f generalizing i with
  | zero => simp [firstGo]
  | succ f ih =>
    rw [firstGo, ih, List.range'_succ, ← test_eq_testFast]
    by_cases h : test b i = true <;> simp [h]


/-! ### byte-skipping versions -/

/-- byte `k` of the board is empty -/
@[inline] def byteZero (b : UInt64) (k : Nat) : Bool := ((b >>> (8 * k).toUInt64) &&& 255) == 0

theorem test_of_byteZero (b : UInt64) (k : Nat) (hk : k < 8) (h : byteZero b k = true)
    (j : Nat) (h2 : j < 8) : test b (8 * k + j) = false := by
  unfold byteZero at h
  have h0 : ((b >>> (8 * k).toUInt64) &&& 255) = 0 := by simpa using h
  have h1 : ((8 * k).toUInt64).toNat % 64 = 8 * k := by
    simp [Nat.toUInt64, UInt64.toNat_ofNat']; omega
  have h3 : (b.toNat >>> (8 * k)) &&& 255 = 0 := by
    have := congrArg UInt64.toNat h0
    rw [UInt64.toNat_and, UInt64.toNat_shiftRight, h1] at this
    exact this
  have h4 := congrArg (fun x => x.testBit j) h3
  simp only [Nat.testBit_and, Nat.testBit_shiftRight, Nat.zero_testBit] at h4
  have h5 : (255 : Nat).testBit j = true := by
    have := Nat.testBit_two_pow_sub_one 8 j
    simpa [h2] using this
  rw [h5, Bool.and_true] at h4
  exact h4

theorem seg_empty (b : UInt64) (k : Nat) (hk : k < 8) (h : byteZero b k = true) :
    (List.range' (8 * k) 8).filter (test b) = [] := by
  apply List.filter_eq_nil_iff.2
  intro a ha
  rw [List.mem_range'_1] at ha
  have := test_of_byteZero b k hk h (a - 8 * k) (by omega)
  rw [show 8 * k + (a - 8 * k) = a by omega] at this
  simp [this]

theorem range_bytes (k : Nat) : List.range (8 * (k + 1)) = List.range (8 * k) ++ List.range' (8 * k) 8 := by
  rw [List.range_eq_range', List.range_eq_range', show 8 * (k + 1) = 8 * k + 8 by omega]
  rw [← List.range'_append_1]; simp

/-! ### `bitsOf` and `popcount` from per-byte tables -/
/-- byte `k` of the board -/
@[inline] def byteOf (b : UInt64) (k : Nat) : UInt64 := (b >>> (8 * k).toUInt64) &&& 255

theorem byteOf_toNat (b : UInt64) (k : Nat) (hk : k < 8) : (byteOf b k).toNat = (b.toNat >>> (8 * k)) &&& 255 := by
  have h1 : ((8 * k).toUInt64).toNat % 64 = 8 * k := by
    simp [Nat.toUInt64, UInt64.toNat_ofNat']; omega
  unfold byteOf
  rw [UInt64.toNat_and, UInt64.toNat_shiftRight, h1]; rfl

theorem byteOf_lt (b : UInt64) (k : Nat) (hk : k < 8) : (byteOf b k).toNat < 256 := by
  rw [byteOf_toNat b k hk]
  exact Nat.lt_succ_of_le Nat.and_le_right

theorem test_byteOf (b : UInt64) (k j : Nat) (hk : k < 8) (hj : j < 8) :
    test (byteOf b k) j = test b (8 * k + j) := by
  unfold test
  rw [byteOf_toNat b k hk, Nat.testBit_and, Nat.testBit_shiftRight]
  have h5 : (255 : Nat).testBit j = true := by
    have := Nat.testBit_two_pow_sub_one 8 j
    simpa [hj] using this
  rw [h5, Bool.and_true]

/-- the set bits of byte `k`, as squares, from the bits of the byte value -/
theorem seg_eq (b : UInt64) (k : Nat) (hk : k < 8) :
    (List.range' (8 * k) 8).filter (test b)
      = ((List.range' 0 8).filter (test (byteOf b k))).map (8 * k + ·) := by
  have e : List.range' (8 * k) 8 = (List.range' 0 8).map (8 * k + ·) := by
    rw [List.map_add_range']; simp
  rw [e, List.filter_map]
  congr 1
  apply List.filter_congr
  intro j hj
  rw [List.mem_range'_1] at hj
  simp only [Function.comp]
  rw [test_byteOf b k j hk (by omega)]

/-- `[k][v]`: the squares of byte `k` whose bit is set in the byte value `v` -/
def bitsTab : Array (List Nat) :=
  (Array.range 2048).map fun i => ((List.range' 0 8).filter (test (i % 256).toUInt64)).map (8 * (i / 256) + ·)

theorem bitsTab_get (b : UInt64) (k : Nat) (hk : k < 8) :
    bitsTab.getD (k * 256 + (byteOf b k).toNat) [] = (List.range' (8 * k) 8).filter (test b) := by
  have hv := byteOf_lt b k hk
  have hi : k * 256 + (byteOf b k).toNat < 2048 := by omega
  have h1 : (k * 256 + (byteOf b k).toNat) / 256 = k := by omega
  have h2 : (k * 256 + (byteOf b k).toNat) % 256 = (byteOf b k).toNat := by omega
  have h3 : ((byteOf b k).toNat).toUInt64 = byteOf b k := by
    apply UInt64.toNat_inj.1
    simp [Nat.toUInt64]
  rw [seg_eq b k hk, Array.getD_eq_getD_getElem?]
  simp [bitsTab, hi, h1, h2, h3]

def bitsGo (b : UInt64) : Nat → List Nat → List Nat
  | 0, acc => acc
  | k+1, acc =>
    let v := byteOf b k
    bitsGo b k (if v == 0 then acc
      else if acc.isEmpty then bitsTab.getD (k * 256 + v.toNat) []
      else bitsTab.getD (k * 256 + v.toNat) [] ++ acc)

theorem bitsGo_eq (b : UInt64) (k : Nat) (hk : k ≤ 8) (acc : List Nat) :
    bitsGo b k acc = (List.range (8 * k)).filter (test b) ++ acc := by
  induction k generalizing acc with
  | zero => simp [bitsGo]
  | succ k ih =>
    rw [bitsGo, ih (by omega), range_bytes, List.filter_append, List.append_assoc]
    rw [bitsTab_get b k (by omega)]
    by_cases h : byteOf b k = 0
    · have hz : byteZero b k = true := by
        show (byteOf b k == 0) = true
        rw [h]; rfl
      simp [h, seg_empty b k (by omega) hz]
    · have : (byteOf b k == 0) = false := by simpa using h
      rw [this]
      cases acc <;> simp

def bitsOfLoop (b : UInt64) : List Nat := bitsGo b 8 []

theorem bitsOf_eq_bitsOfLoop : @bitsOf = @bitsOfLoop := by
  funext b
  unfold bitsOfLoop bitsOf
  rw [bitsGo_eq b 8 (by omega)]; simp

/-- number of set bits of a byte value -/
def popTab : Array Nat :=
  (Array.range 256).map fun v => ((List.range' 0 8).filter (test v.toUInt64)).length

theorem popTab_get (b : UInt64) (k : Nat) (hk : k < 8) :
    popTab.getD (byteOf b k).toNat 0 = ((List.range' (8 * k) 8).filter (test b)).length := by
  have hv := byteOf_lt b k hk
  have h3 : ((byteOf b k).toNat).toUInt64 = byteOf b k := by
    apply UInt64.toNat_inj.1
    simp [Nat.toUInt64]
  rw [seg_eq b k hk, Array.getD_eq_getD_getElem?, List.length_map]
  simp [popTab, hv, h3]

def popGo (b : UInt64) : Nat → Nat → Nat
  | 0, acc => acc
  | k+1, acc => popGo b k (acc + popTab.getD (byteOf b k).toNat 0)

theorem popGo_eq (b : UInt64) (k : Nat) (hk : k ≤ 8) (acc : Nat) :
    popGo b k acc = ((List.range (8 * k)).filter (test b)).length + acc := by
  induction k generalizing acc with
  | zero => simp [popGo]
  | succ k ih =>
    rw [popGo, ih (by omega), range_bytes, List.filter_append, List.length_append, popTab_get b k (by omega)]
    omega

def popcountLoop (b : UInt64) : Nat := popGo b 8 0

theorem popcount_eq_popcountLoop : @popcount = @popcountLoop := by
  funext b
  unfold popcountLoop popcount bitsOf
  rw [popGo_eq b 8 (by omega)]; rfl


/-! ### the same, unrolled over the eight bytes -/
/-- `xs ++ acc` for a short `xs` (one cell per element, no reversal) -/
def prepend : List Nat → List Nat → List Nat
  | [], acc => acc
  | x :: xs, acc => x :: prepend xs acc

theorem prepend_eq (xs acc : List Nat) : prepend xs acc = xs ++ acc := by
  induction xs with
  | nil => rfl
  | cons x xs ih => rw [prepend, ih]; rfl

/-- one step of `bitsGo` -/
@[inline] def bitsStep (b : UInt64) (k : Nat) (acc : List Nat) : List Nat :=
  let v := byteOf b k
  if v == 0 then acc
  else if acc.isEmpty then bitsTab.getD (k * 256 + v.toNat) []
  else prepend (bitsTab.getD (k * 256 + v.toNat) []) acc

theorem bitsGo_succ (b : UInt64) (k : Nat) (acc : List Nat) : bitsGo b (k + 1) acc = bitsGo b k (bitsStep b k acc) := by
  rw [bitsGo]; unfold bitsStep; simp only [prepend_eq]

/-- `bitsGo b 8 []`, unrolled (constant shifts and table offsets) -/
def bitsOfFast (b : UInt64) : List Nat :=
  if b == 0 then [] else
  bitsStep b 0 (bitsStep b 1 (bitsStep b 2 (bitsStep b 3 (bitsStep b 4 (bitsStep b 5 (bitsStep b 6 (bitsStep b 7 [])))))))

theorem bitsOfFast_eq_loop (b : UInt64) : bitsOfFast b = bitsOfLoop b := by
  unfold bitsOfFast bitsOfLoop
  split
  · rename_i h
    have : b = 0 := by simpa using h
    subst this
    rw [bitsGo_eq 0 8 (by omega)]
    symm; simp; intro a _; simp [test]
  · simp only [bitsGo_succ]; rfl

@[inline] def popStep (b : UInt64) (k : Nat) (acc : Nat) : Nat := acc + popTab.getD (byteOf b k).toNat 0

def popcountFast (b : UInt64) : Nat :=
  popStep b 0 (popStep b 1 (popStep b 2 (popStep b 3 (popStep b 4 (popStep b 5 (popStep b 6 (popStep b 7 0)))))))

theorem popcountFast_eq_loop (b : UInt64) : popcountFast b = popcountLoop b := by
  unfold popcountFast popcountLoop
  simp only [popGo]; rfl

@[csimp] theorem bitsOf_eq_bitsOfFast : @bitsOf = @bitsOfFast := by
  funext b; rw [bitsOfFast_eq_loop, bitsOf_eq_bitsOfLoop]

@[csimp] theorem popcount_eq_popcountFast : @popcount = @popcountFast := by
  funext b; rw [popcountFast_eq_loop, popcount_eq_popcountLoop]

/-! ### `firstOne`, `lastOne` skipping empty bytes -/

def firstBytes (b : UInt64) : Nat → Nat → Option Nat
  | 0, _ => none
  | f+1, i =>
    if byteZero b i then firstBytes b f (i + 1)
    else match firstGo b 8 (8 * i) with
      | some x => some x
      | none => firstBytes b f (i + 1)

theorem firstBytes_eq (b : UInt64) (f i : Nat) (h : i + f ≤ 8) :
    firstBytes b f i = ((List.range' (8 * i) (8 * f)).filter (test b)).head? := by
  induction f generalizing i with
  | zero => simp [firstBytes]
  | succ f ih =>
    have e : List.range' (8 * i) (8 * (f + 1)) = List.range' (8 * i) 8 ++ List.range' (8 * (i + 1)) (8 * f) := by
      rw [show 8 * (f + 1) = 8 + 8 * f by omega, ← List.range'_append_1]; simp [Nat.mul_add]
    rw [firstBytes, ih (i + 1) (by omega), e, List.filter_append, List.head?_append]
    by_cases hz : byteZero b i = true
    · simp [hz, seg_empty b i (by omega) hz]
    · simp only [hz]
      rw [firstGo_eq]
      cases ((List.range' (8 * i) 8).filter (test b)).head? <;> simp

def firstOneFast (b : UInt64) : Option Nat := firstBytes b 8 0

@[csimp] theorem firstOne_eq_firstOneFast : @firstOne = @firstOneFast := by
  funext b
  unfold firstOneFast firstOne bitsOf
  rw [firstBytes_eq b 8 0 (by omega), List.range_eq_range']

def lastSeg (b : UInt64) (lo : Nat) : Nat → Option Nat
  | 0 => none
  | n+1 => if testFast b (lo + n) then some (lo + n) else lastSeg b lo n

theorem lastSeg_eq (b : UInt64) (lo n : Nat) :
    lastSeg b lo n = ((List.range' lo n).filter (test b)).getLast? := by
  induction n with
  | zero => simp [lastSeg]
  | succ n ih =>
    rw [lastSeg, ih, List.range'_concat, List.filter_append, List.getLast?_append, ← test_eq_testFast]
    by_cases h : test b (lo + n) = true <;> simp [h]

def lastBytes (b : UInt64) : Nat → Option Nat
  | 0 => none
  | k+1 =>
    if byteZero b k then lastBytes b k
    else match lastSeg b (8 * k) 8 with
      | some x => some x
      | none => lastBytes b k

theorem lastBytes_eq (b : UInt64) (k : Nat) (hk : k ≤ 8) :
    lastBytes b k = ((List.range (8 * k)).filter (test b)).getLast? := by
  induction k with
  | zero => simp [lastBytes]
  | succ k ih =>
    rw [lastBytes, ih (by omega), range_bytes, List.filter_append, List.getLast?_append]
    by_cases hz : byteZero b k = true
    · simp [hz, seg_empty b k (by omega) hz]
    · simp only [hz]
      rw [lastSeg_eq]
      cases ((List.range' (8 * k) 8).filter (test b)).getLast? <;> simp

def lastOneFast (b : UInt64) : Option Nat := lastBytes b 8

@[csimp] theorem lastOne_eq_lastOneFast : @lastOne = @lastOneFast := by
  funext b
  unfold lastOneFast lastOne bitsOf
  rw [lastBytes_eq b 8 (by omega)]

end Wee.Fast
