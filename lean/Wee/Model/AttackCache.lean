import Wee.Model.Board
/-!
# The lazily initialised attack-map cache of `Board` (mirror of `board.rs`, `struct Board`)

```rust
pub struct Board {                                   // #[derive(Debug, Clone, PartialEq, Eq)]
    occupancy, piece_occupancy, colored_occupancy,   // fixed by `Board::new`, never written again
    colored_attack_map: ArrayMap<Color, OnceCell<AttackMap>>,
}
fn attack_map(&self, color) -> &AttackMap { self.colored_attack_map[color].get_or_init(|| from_occupancy(..)) }
```

`occupancy` and `colored_occupancy` are functions of `piece_occupancy` (`PieceMap.occ`,
`PieceMap.colorOcc`), so the object state is the placement plus the two cells.  A cell is `none`
(`OnceCell::new()`) or `some (all, pawn)`.  Every public reader goes through `attack_map`, which is
`get_or_init`: it returns the stored value if there is one and otherwise computes
`AttackMap::from_occupancy`, stores it and returns it.  The derived `Clone` copies both cells in the
state they are in (`OnceCell<T: Clone>: Clone` clones the content, if any).

The state machine below is sequential: `OnceCell` is `!Sync`, so a `Board` cannot be shared between
threads and `get_or_init` is never re-entered (the initialiser does not touch the cell).
-/
namespace Wee

/-- a `Board` object: placement + the two `OnceCell<AttackMap>` (`(all, pawn)`) -/
structure CachedBoard where
  pieces : PieceMap
  cellW : Option (UInt64 × UInt64)
  cellB : Option (UInt64 × UInt64)
deriving DecidableEq, Repr, Inhabited

namespace CachedBoard

/-- `Board::new`: both cells empty -/
def new (m : PieceMap) : CachedBoard := ⟨m, Option.none, Option.none⟩

/-- `self.colored_attack_map[color]` -/
@[inline] def cell (b : CachedBoard) : Color → Option (UInt64 × UInt64)
  | .white => b.cellW
  | .black => b.cellB

/-- write a cell (only done by `get_or_init` on an empty cell) -/
@[inline] def setCell (b : CachedBoard) (c : Color) (v : UInt64 × UInt64) : CachedBoard :=
  match c with
  | .white => { b with cellW := some v }
  | .black => { b with cellB := some v }

/-- `Board::attack_map` = `OnceCell::get_or_init`: object afterwards, and the value returned -/
def attackMapCached (b : CachedBoard) (c : Color) : CachedBoard × (UInt64 × UInt64) :=
  match b.cell c with
  | some v => (b, v)
  | Option.none =>
    let v := attackMap b.pieces c
    (b.setCell c v, v)

/-- `Board::colored_attacks` -/
def attacks (b : CachedBoard) (c : Color) : CachedBoard × UInt64 :=
  let r := b.attackMapCached c
  (r.1, r.2.1)

/-- `Board::colored_pawn_attacks` -/
def pawnAttacks (b : CachedBoard) (c : Color) : CachedBoard × UInt64 :=
  let r := b.attackMapCached c
  (r.1, r.2.2)

/-- `Board::is_check(color)`: reads the kings of `color` and the attack map of the OPPOSING colour
(so it initialises the cell of `color.opp`) -/
def isCheck (b : CachedBoard) (c : Color) : CachedBoard × Bool :=
  let kings := b.pieces.get c .king
  let r := b.attacks c.opp
  (r.1, bbAny (kings &&& r.2))

/-- derived `Clone`: the original is unchanged, the copy carries the cells as they are -/
def clone (b : CachedBoard) : CachedBoard × CachedBoard := (b, b)

end CachedBoard

/-- what a caller can do with a `&Board` -/
inductive Query
  | attacks (c : Color)
  | pawnAttacks (c : Color)
  | isCheck (c : Color)
  | clone
deriving DecidableEq, Repr

/-- what the caller gets back -/
inductive Answer
  | bb (v : UInt64)
  | bool (v : Bool)
  | board (b : CachedBoard)
deriving DecidableEq, Repr

/-- one call on one object: the object afterwards and the answer -/
def CachedBoard.step (b : CachedBoard) : Query → CachedBoard × Answer
  | .attacks c => let r := b.attacks c; (r.1, .bb r.2)
  | .pawnAttacks c => let r := b.pawnAttacks c; (r.1, .bb r.2)
  | .isCheck c => let r := b.isCheck c; (r.1, .bool r.2)
  | .clone => let r := b.clone; (r.1, .board r.2)

/-- a sequence of calls on one object: final object and the answers in order -/
def CachedBoard.run (b : CachedBoard) : List Query → CachedBoard × List Answer
  | [] => (b, [])
  | q :: qs =>
    let r := b.step q
    let rest := CachedBoard.run r.1 qs
    (rest.1, r.2 :: rest.2)

/-! ## several objects: a position and its clones

`Heap.step h i q` performs query `q` on object number `i`; a `clone` appends the copy as a new
object, which can be queried (and cloned) later like any other. -/

abbrev Heap := List CachedBoard

def Heap.step (h : Heap) (i : Nat) (q : Query) : Heap × Option Answer :=
  match h[i]? with
  | Option.none => (h, Option.none)
  | some b =>
    let r := b.step q
    let h' := h.set i r.1
    match r.2 with
    | .board cl => (h' ++ [cl], some r.2)
    | a => (h', some a)

def Heap.run (h : Heap) : List (Nat × Query) → Heap × List (Option Answer)
  | [] => (h, [])
  | (i, q) :: ops =>
    let r := Heap.step h i q
    let rest := Heap.run r.1 ops
    (rest.1, r.2 :: rest.2)

end Wee
