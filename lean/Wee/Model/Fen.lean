import Wee.Model.Board
import Wee.Gen.Text
/-!
# FEN (mirror of `notation.rs`, `mod fen`)

`parseFen checked s`: `checked = true` models a build with overflow checks (debug / test profile:
`location_index += digit` panics on `u8` overflow), `false` the release profile (wraps).
Result: `.panic`, `.err` (the Rust `Err(())`), or `.ok state`.

The regex gate `FEN_REGEX` is modelled by a hand recogniser for that one literal (checked against
`Wee.Gen.fenRegex` by `fenRegex_is_modelled` so that an edited regex breaks the build).
-/
namespace Wee

inductive Res (α : Type) | ok (a : α) | err | panic
deriving Repr, DecidableEq

/-- Unicode `White_Space` = what `\s` matches in the `regex` crate (Unicode mode) -/
def isRegexSpace (c : Char) : Bool :=
  let n := c.toNat
  (0x09 ≤ n && n ≤ 0x0D) || n == 0x20 || n == 0x85 || n == 0xA0 || n == 0x1680 ||
  (0x2000 ≤ n && n ≤ 0x200A) || n == 0x2028 || n == 0x2029 || n == 0x202F || n == 0x205F || n == 0x3000

def isBoardChar (c : Char) : Bool := "rnbqkpRNBQKP12345678".toList.contains c

/-- the literal this recogniser was written for -/
def modelledFenRegex : String :=
  "^(((?:[rnbqkpRNBQKP1-8]+\\/){7})[rnbqkpRNBQKP1-8]+)\\s([b|w])\\s(-|([K|Q|k|q]{1,4}))\\s(-|[a-h][1-8])\\s(\\d+)\\s(\\d+)$"

/-- split at every regex-space character (keeping empty fields) -/
def splitFields (cs : List Char) : List (List Char) :=
  let rec go : List Char → List Char → List (List Char)
    | [], cur => [cur.reverse]
    | c :: rest, cur => if isRegexSpace c then cur.reverse :: go rest [] else go rest (c :: cur)
  go cs []

/-- `PieceIndex::try_parse` -/
def pieceOfFenChar (c : Char) : Option (Color × Piece) :=
  match c with
  | 'P' => some (.white, .pawn) | 'N' => some (.white, .knight) | 'B' => some (.white, .bishop)
  | 'R' => some (.white, .rook) | 'Q' => some (.white, .queen) | 'K' => some (.white, .king)
  | 'p' => some (.black, .pawn) | 'n' => some (.black, .knight) | 'b' => some (.black, .bishop)
  | 'r' => some (.black, .rook) | 'q' => some (.black, .queen) | 'k' => some (.black, .king)
  | _ => Option.none

/-- `Board::try_parse` on the mailbox (`ArrayMap<Square, PieceIndex>` as a list of 64 cells) -/
def parseBoardCells (checked : Bool) : List Char → Nat → List (Option (Color × Piece)) →
    Res (List (Option (Color × Piece)))
  | [], _, cells => .ok cells
  | c :: rest, idx, cells =>
    if '1' ≤ c ∧ c ≤ '8' then
      let n := idx + (c.toNat - '0'.toNat)
      -- `location_index.checked_add(digit).ok_or(())?` (since the fix of F5; before it this was
      -- `+=`, a panic with overflow checks and a wrap-around without)
      if n ≥ 256 then .err
      else parseBoardCells checked rest n cells
    else if c = ' ' then .ok cells
    else if c = '/' then parseBoardCells checked rest idx cells
    else match pieceOfFenChar c with
      | Option.none => .err
      | some pc =>
        if idx > 63 then .err
        else
          let sq := mkSq (7 - rankOf idx) (fileOf idx)
          -- idx ≤ 63 so `idx + 1` cannot overflow a u8
          parseBoardCells checked rest (idx + 1) (cells.set sq (some pc))

/-- `Board::from(&ArrayMap<Square, PieceIndex>)` -/
def piecesOfCells (cells : List (Option (Color × Piece))) : PieceMap :=
  (List.range 64).foldl (fun (m : PieceMap) sq =>
    match cells.getD sq Option.none with
    | some (c, p) => m.assign c p sq true
    | Option.none => m) {}

/-- `usize::from_str` on a string already known to be non-empty; only ASCII digits parse, and the
value must fit `usize` (64 bit) -/
def parseUsize (cs : List Char) : Option Nat :=
  if cs.isEmpty then Option.none else
  cs.foldl (fun acc c => match acc with
    | Option.none => Option.none
    | some v => if c.isDigit then
        let v' := v * 10 + (c.toNat - '0'.toNat)
        if v' < 2^64 then some v' else Option.none
      else Option.none) (some 0)

/-- 8 non-empty `/`-separated segments of board characters -/
def boardFieldOk (cs : List Char) : Bool :=
  let segs := cs.splitOn '/'
  segs.length == 8 && segs.all (fun s => !s.isEmpty && s.all isBoardChar)

/-- `ArrayMap<Color, CastleRights>::try_parse` -/
def parseCastle (cs : List Char) : Option (CastleRights × CastleRights) :=
  cs.foldl (fun acc c => match acc with
    | Option.none => Option.none
    | some (w, b) =>
      match c with
      | 'k' => some (w, { b with kingside := true })
      | 'q' => some (w, { b with queenside := true })
      | 'K' => some ({ w with kingside := true }, b)
      | 'Q' => some ({ w with queenside := true }, b)
      | '-' => some (w, b)
      | _ => Option.none) (some (CastleRights.noRights, CastleRights.noRights))

def parseFenChars (checked : Bool) (cs : List Char) : Res State :=
  match splitFields cs with
  | [board, side, castle, ep, half, full] =>
    -- regex gate
    let sideOk := side.length == 1 && side.all (fun c => c == 'b' || c == '|' || c == 'w')
    let castleOk := castle == ['-'] ||
      (1 ≤ castle.length && castle.length ≤ 4 && castle.all (fun c => "K|Qkq".toList.contains c))
    let epOk := ep == ['-'] || (match ep with
      | [f, r] => 'a' ≤ f && f ≤ 'h' && '1' ≤ r && r ≤ '8'
      | _ => false)
    -- `\d` is Unicode Nd; a non-ASCII digit passes the regex and then fails `parse`, anything
    -- else fails the regex: both are `Err`, so only the ASCII case is distinguished.
    if !(boardFieldOk board && sideOk && castleOk && epOk && !half.isEmpty && !full.isEmpty) then .err else
    match parseBoardCells checked board 0 (List.replicate 64 Option.none) with
    | .panic => .panic
    | .err => .err
    | .ok cells =>
      match side with
      | ['w'] | ['b'] =>
        let turn := if side == ['w'] then Color.white else Color.black
        let rights := if castle == ['-'] then some (CastleRights.noRights, CastleRights.noRights) else parseCastle castle
        match rights with
        | Option.none => .err
        | some (cw, cb) =>
          let epv : Option Nat := match ep with
            | [f, r] => some (mkSq (r.toNat - '1'.toNat) (f.toNat - 'a'.toNat))
            | _ => Option.none
          match parseUsize half, parseUsize full with
          | some h, some f =>
            .ok { pieces := piecesOfCells cells, turn, castleW := cw, castleB := cb, ep := epv, halfmove := h, fullmove := f }
          | _, _ => .err
      | _ => .err
  | _ => .err

def parseFen (checked : Bool) (s : String) : Res State := parseFenChars checked s.toList

/-- `Display for PieceIndex` -/
def pieceChar (c : Color) (p : Piece) : Char :=
  match c with | .white => p.letter.toUpper | .black => p.letter.toLower

/-- one rank of `Fen::into_notation` -/
def writeRank (m : PieceMap) (rank : Nat) : List Char :=
  let (out, empty) := (List.range 8).foldl (fun (acc : List Char × Nat) file =>
    match m.pieceAt (mkSq rank file) with
    | some (c, p) =>
      let out := if acc.2 > 0 then acc.1 ++ (toString acc.2).toList else acc.1
      (out ++ [pieceChar c p], 0)
    | Option.none => (acc.1, acc.2 + 1)) ([], 0)
  if empty > 0 then out ++ (toString empty).toList else out

def writeBoard (m : PieceMap) : List Char :=
  ([7, 6, 5, 4, 3, 2, 1, 0].map fun r => writeRank m r ++ (if r ≠ 0 then ['/'] else [])).flatten

/-- `Fen::into_notation(State)` -/
def writeFen (s : State) : String :=
  let castle : List Char :=
    if !s.castleW.kingside && !s.castleW.queenside && !s.castleB.kingside && !s.castleB.queenside then ['-']
    else (if s.castleW.kingside then ['K'] else []) ++ (if s.castleW.queenside then ['Q'] else []) ++
         (if s.castleB.kingside then ['k'] else []) ++ (if s.castleB.queenside then ['q'] else [])
  let ep := match s.ep with | Option.none => "-" | some t => sqName t
  String.ofList (writeBoard s.pieces) ++ " " ++ (match s.turn with | .white => "w" | .black => "b") ++ " " ++
    String.ofList castle ++ " " ++ ep ++ " " ++ toString s.halfmove ++ " " ++ toString s.fullmove

def startState : State := match parseFen true Gen.fenDefault with | .ok s => s | _ => default

end Wee
