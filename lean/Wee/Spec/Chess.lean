/-!
# The rules of chess on a mailbox board — independent specification

Nothing here mentions bitboards, magic numbers or packed moves.  Squares are `Nat` (`rank*8+file`),
coordinates are computed with integer arithmetic.  Everything is executable, so it doubles as the
oracle that searches for failing inputs on the real code.
-/
namespace Wee.Spec

inductive Color | white | black
deriving DecidableEq, Repr, Inhabited

def Color.opp : Color → Color | .white => .black | .black => .white
/-- rank direction in which the colour's pawns advance -/
def Color.fwd : Color → Int | .white => 1 | .black => -1

inductive Kind | pawn | knight | bishop | rook | queen | king
deriving DecidableEq, Repr, Inhabited

/-- a move counter one higher — counters are 64-bit unsigned numbers (what a FEN reader on a 64-bit machine can hold),
so the increment stops at `2^64 - 1`; below that it is exactly `+ 1` (`clockSucc_exact`) -/
def clockSucc (n : Nat) : Nat := if n + 1 < 2^64 then n + 1 else n

theorem clockSucc_exact {n : Nat} (h : n + 1 < 2^64) : clockSucc n = n + 1 := by unfold clockSucc; rw [if_pos h]

structure Pos where
  cells : Array (Option (Color × Kind))      -- 64 cells, a1 = 0 … h8 = 63
  turn : Color
  wk : Bool   -- white may still castle king side (right, not current possibility)
  wq : Bool
  bk : Bool
  bq : Bool
  ep : Option Nat
  halfmove : Nat
  fullmove : Nat
deriving DecidableEq, Repr, Inhabited

def Pos.at (p : Pos) (sq : Nat) : Option (Color × Kind) := if sq < 64 then (p.cells.getD sq none) else none

/-- square reached from `sq` by `(df, dr)`, if on the board -/
def step (sq : Nat) (df dr : Int) : Option Nat :=
  let f : Int := (sq % 8 : Nat) + df
  let r : Int := (sq / 8 : Nat) + dr
  if 0 ≤ f ∧ f ≤ 7 ∧ 0 ≤ r ∧ r ≤ 7 then some (r.toNat * 8 + f.toNat) else none

def knightJumps : List (Int × Int) := [(1,2),(2,1),(2,-1),(1,-2),(-1,-2),(-2,-1),(-2,1),(-1,2)]
def kingSteps : List (Int × Int) := [(1,1),(1,0),(1,-1),(0,-1),(-1,-1),(-1,0),(-1,1),(0,1)]
def rookDirs : List (Int × Int) := [(0,1),(0,-1),(1,0),(-1,0)]
def bishopDirs : List (Int × Int) := [(1,1),(-1,1),(1,-1),(-1,-1)]

/-- squares seen along one direction: up to and including the first occupied square -/
def slideDir (occupied : Nat → Bool) (df dr : Int) : Nat → Nat → List Nat
  | 0, _ => []
  | fuel+1, sq =>
    match step sq df dr with
    | none => []
    | some n => if occupied n then [n] else n :: slideDir occupied df dr fuel n

def slide (occupied : Nat → Bool) (dirs : List (Int × Int)) (sq : Nat) : List Nat :=
  dirs.flatMap fun d => slideDir occupied d.1 d.2 8 sq

/-- squares a piece of kind `k` and colour `c` standing on `s` attacks, given which squares are occupied -/
def attacksFrom (occupied : Nat → Bool) (c : Color) (k : Kind) (s : Nat) : List Nat :=
  match k with
  | .pawn => [(-1, c.fwd), (1, c.fwd)].filterMap fun d => step s d.1 d.2
  | .knight => knightJumps.filterMap fun d => step s d.1 d.2
  | .king => kingSteps.filterMap fun d => step s d.1 d.2
  | .rook => slide occupied rookDirs s
  | .bishop => slide occupied bishopDirs s
  | .queen => slide occupied (rookDirs ++ bishopDirs) s

def Pos.occupied (p : Pos) (sq : Nat) : Bool := (p.at sq).isSome

/-- is `t` attacked by some piece of colour `c`? -/
def Pos.attackedBy (p : Pos) (c : Color) (t : Nat) : Bool :=
  (List.range 64).any fun s =>
    match p.at s with
    | some (c', k) => c' == c && (attacksFrom p.occupied c k s).contains t
    | none => false

def Pos.kingSquares (p : Pos) (c : Color) : List Nat :=
  (List.range 64).filter fun s => p.at s == some (c, .king)

def Pos.inCheck (p : Pos) (c : Color) : Bool := (p.kingSquares c).any (p.attackedBy c.opp)

/-- a move with all its attributes, as the property lists them -/
structure SMove where
  color : Color
  kind : Kind
  src : Nat
  dst : Nat
  capture : Option Kind := none
  promo : Option Kind := none
  ep : Bool := false
  castle : Option Bool := none      -- `some true` = king side, `some false` = queen side
  dbl : Bool := false
deriving DecidableEq, Repr, Inhabited

def promoKinds : List Kind := [.queen, .rook, .bishop, .knight]

def lastRank (c : Color) : Nat := match c with | .white => 7 | .black => 0
def homeRank (c : Color) : Nat := match c with | .white => 1 | .black => 6
def kingHome (c : Color) : Nat := match c with | .white => 4 | .black => 60

def pawnMovesFrom (p : Pos) (c : Color) (s : Nat) : List SMove :=
  let withPromo (m : SMove) : List SMove :=
    if m.dst / 8 = lastRank c then promoKinds.map fun k => { m with promo := some k } else [m]
  let push1 : List SMove := match step s 0 c.fwd with
    | some t => if p.occupied t then [] else withPromo { color := c, kind := .pawn, src := s, dst := t }
    | none => []
  let push2 : List SMove :=
    if s / 8 = homeRank c then
      match step s 0 c.fwd with
      | some t1 => match step t1 0 c.fwd with
        | some t2 => if p.occupied t1 || p.occupied t2 then [] else [{ color := c, kind := .pawn, src := s, dst := t2, dbl := true }]
        | none => []
      | none => []
    else []
  let caps : List SMove := ([(-1 : Int), 1].filterMap fun df => step s df c.fwd).flatMap fun t =>
    match p.at t with
    | some (c', k) => if c' == c.opp then withPromo { color := c, kind := .pawn, src := s, dst := t, capture := some k } else []
    | none => if p.ep == some t then [{ color := c, kind := .pawn, src := s, dst := t, capture := some .pawn, ep := true }] else []
  push1 ++ push2 ++ caps

def pieceMovesFrom (p : Pos) (c : Color) (k : Kind) (s : Nat) : List SMove :=
  (attacksFrom p.occupied c k s).filterMap fun t =>
    match p.at t with
    | some (c', k') => if c' == c then none else some { color := c, kind := k, src := s, dst := t, capture := some k' }
    | none => some { color := c, kind := k, src := s, dst := t }

/-- castling: the right is held, the squares between king and rook are empty, the king is not in
check and neither the square it crosses nor the one it lands on is attacked -/
def castleMoves (p : Pos) (c : Color) : List SMove :=
  let k := kingHome c
  let ks := (match c with | .white => p.wk | .black => p.bk) &&
    !p.occupied (k+1) && !p.occupied (k+2) &&
    !p.attackedBy c.opp k && !p.attackedBy c.opp (k+1) && !p.attackedBy c.opp (k+2)
  let qs := (match c with | .white => p.wq | .black => p.bq) &&
    !p.occupied (k-1) && !p.occupied (k-2) && !p.occupied (k-3) &&
    !p.attackedBy c.opp k && !p.attackedBy c.opp (k-1) && !p.attackedBy c.opp (k-2)
  (if ks then [{ color := c, kind := .king, src := k, dst := k+2, castle := some true }] else []) ++
  (if qs then [{ color := c, kind := .king, src := k, dst := k-2, castle := some false }] else [])

def pseudoMoves (p : Pos) : List SMove :=
  let c := p.turn
  ((List.range 64).flatMap fun s =>
    match p.at s with
    | some (c', k) =>
      if c' == c then (if k == .pawn then pawnMovesFrom p c s else pieceMovesFrom p c k s) else []
    | none => []) ++ castleMoves p c

def setCell (cells : Array (Option (Color × Kind))) (sq : Nat) (v : Option (Color × Kind)) :=
  cells.setIfInBounds sq v

/-- the position after a move, straight from the rules -/
def applyMove (p : Pos) (m : SMove) : Pos :=
  let c := m.color
  let cells := setCell p.cells m.src none
  -- en passant removes the pawn that stands beside the capturer, behind the target square
  let cells := if m.ep then setCell cells (m.src / 8 * 8 + m.dst % 8) none else cells
  let cells := setCell cells m.dst (some (c, m.promo.getD m.kind))
  -- castling relocates the rook
  let cells := match m.castle with
    | some true => setCell (setCell cells (m.src + 3) none) (m.src + 1) (some (c, .rook))
    | some false => setCell (setCell cells (m.src - 4) none) (m.src - 1) (some (c, .rook))
    | none => cells
  -- rights are lost when the king moves, or a rook leaves / is captured on its corner
  let touches (sq : Nat) : Bool := m.src == sq || m.dst == sq
  let kingMoved (col : Color) : Bool := m.kind == .king && c == col
  { cells
    turn := c.opp
    wk := p.wk && !kingMoved .white && !touches 7
    wq := p.wq && !kingMoved .white && !touches 0
    bk := p.bk && !kingMoved .black && !touches 63
    bq := p.bq && !kingMoved .black && !touches 56
    ep := if m.dbl then some ((m.src + m.dst) / 2) else none
    halfmove := if m.kind == .pawn || m.capture.isSome then 0 else clockSucc p.halfmove
    fullmove := if c == .black then clockSucc p.fullmove else p.fullmove }

/-- legal = pseudo-legal and the mover's king is not attacked afterwards -/
def isLegalAfter (p : Pos) (m : SMove) : Bool := !(applyMove p m).inCheck p.turn

def legalMoves (p : Pos) : List SMove := (pseudoMoves p).filter (isLegalAfter p)

def perft : Nat → Pos → Nat
  | 0, _ => 0
  | 1, p => (legalMoves p).length
  | d+1, p => ((legalMoves p).map fun m => perft d (applyMove p m)).sum

def count (p : Pos) (c : Color) (k : Kind) : Nat :=
  ((List.range 64).filter fun s => p.at s == some (c, k)).length

/-- the legal positions over which C01/C02/… quantify (decidable) -/
def LegalPos (p : Pos) : Bool :=
  p.cells.size == 64 &&
  count p .white .king == 1 && count p .black .king == 1 &&
  -- side not on move is not in check
  !p.inCheck p.turn.opp &&
  -- no pawns on ranks 1 / 8
  ((List.range 8).all fun f => ([0, 56].all fun b =>
     match p.at (b + f) with | some (_, .pawn) => false | _ => true)) &&
  -- castling rights only with king and rook at home
  (!p.wk || (p.at 4 == some (.white, .king) && p.at 7 == some (.white, .rook))) &&
  (!p.wq || (p.at 4 == some (.white, .king) && p.at 0 == some (.white, .rook))) &&
  (!p.bk || (p.at 60 == some (.black, .king) && p.at 63 == some (.black, .rook))) &&
  (!p.bq || (p.at 60 == some (.black, .king) && p.at 56 == some (.black, .rook))) &&
  -- en-passant target only behind a pawn that could just have double-stepped
  (match p.ep with
   | none => true
   | some t =>
     let c := p.turn.opp      -- the side that just moved
     let r : Nat := match c with | .white => 2 | .black => 5
     t / 8 == r && !p.occupied t &&
     (match step t 0 c.fwd with | some s => p.at s == some (c, .pawn) | none => false) &&
     (match step t 0 (-c.fwd) with | some s => !p.occupied s | none => false))

end Wee.Spec
