import Wee.Spec.Chess
import Wee.Model.MoveGen
/-!
# Abstraction from the bitboard model to the mailbox spec
-/
namespace Wee

def absColor : Color → Spec.Color | .white => .white | .black => .black

def absKind : Piece → Option Spec.Kind
  | .pawn => some .pawn | .knight => some .knight | .bishop => some .bishop
  | .rook => some .rook | .queen => some .queen | .king => some .king | .none => Option.none

def absCell (m : PieceMap) (sq : Nat) : Option (Spec.Color × Spec.Kind) :=
  match m.pieceAt sq with
  | some (c, p) => (absKind p).map fun k => (absColor c, k)
  | Option.none => Option.none

def abs (s : State) : Spec.Pos :=
  { cells := (Array.range 64).map (absCell s.pieces)
    turn := absColor s.turn
    wk := s.castleW.kingside, wq := s.castleW.queenside
    bk := s.castleB.kingside, bq := s.castleB.queenside
    ep := s.ep, halfmove := s.halfmove, fullmove := s.fullmove }

/-- read a packed move through its accessors -/
def toSpecMove (m : Move) : Option Spec.SMove := do
  let k ← absKind (Move.piece m)
  pure { color := absColor (Move.color m), kind := k, src := Move.origin m, dst := Move.dest m
         capture := (Move.capture m).bind absKind
         promo := (Move.promotion m).bind absKind
         ep := Move.isEnPassant m
         castle := (Move.castleSide m).map (fun s => s == .king)
         dbl := Move.isDoublePawn m }

/-- bitboard placement of a mailbox position (used by generators and by `LegalPos` on model states) -/
def concPieces (p : Spec.Pos) : PieceMap :=
  (List.range 64).foldl (fun (m : PieceMap) sq =>
    match p.at sq with
    | some (c, k) =>
      let c' : Color := match c with | .white => .white | .black => .black
      let p' : Piece := match k with
        | .pawn => .pawn | .knight => .knight | .bishop => .bishop | .rook => .rook | .queen => .queen | .king => .king
      m.assign c' p' sq true
    | Option.none => m) {}

def conc (p : Spec.Pos) : State :=
  { pieces := concPieces p
    turn := match p.turn with | .white => .white | .black => .black
    castleW := ⟨p.wk, p.wq⟩, castleB := ⟨p.bk, p.bq⟩
    ep := p.ep, halfmove := p.halfmove, fullmove := p.fullmove }

def LegalPos (s : State) : Bool := Spec.LegalPos (abs s)

end Wee
