import Wee.Spec.Chess
/-!
# Canonical FEN: an independent writer and a strict reader (the grammar of C11)
-/
namespace Wee.Spec

def kindLetter : Kind → Char
  | .pawn => 'p' | .knight => 'n' | .bishop => 'b' | .rook => 'r' | .queen => 'q' | .king => 'k'

def cellChar (c : Color) (k : Kind) : Char :=
  match c with | .white => (kindLetter k).toUpper | .black => kindLetter k

def charCell (ch : Char) : Option (Color × Kind) :=
  let k : Option Kind := match ch.toLower with
    | 'p' => some .pawn | 'n' => some .knight | 'b' => some .bishop
    | 'r' => some .rook | 'q' => some .queen | 'k' => some .king | _ => none
  k.map fun k => (if ch.isUpper then .white else .black, k)

def sqName (sq : Nat) : String := String.ofList [Char.ofNat (97 + sq % 8), Char.ofNat (49 + sq / 8)]

/-- one rank, files a..h, empty runs merged -/
def rankText (p : Pos) (r : Nat) : String :=
  let rec go (f : Nat) (run : Nat) (fuel : Nat) : String :=
    match fuel with
    | 0 => if run > 0 then toString run else ""
    | fuel+1 =>
      match p.at (r * 8 + f) with
      | some (c, k) => (if run > 0 then toString run else "") ++ String.singleton (cellChar c k) ++ go (f+1) 0 fuel
      | none => go (f+1) (run+1) fuel
  go 0 0 8

def writeFen (p : Pos) : String :=
  let board := "/".intercalate ([7,6,5,4,3,2,1,0].map (rankText p))
  let rights := (if p.wk then "K" else "") ++ (if p.wq then "Q" else "") ++ (if p.bk then "k" else "") ++ (if p.bq then "q" else "")
  board ++ " " ++ (match p.turn with | .white => "w" | .black => "b") ++ " " ++
    (if rights.isEmpty then "-" else rights) ++ " " ++
    (match p.ep with | none => "-" | some t => sqName t) ++ " " ++ toString p.halfmove ++ " " ++ toString p.fullmove

/-- decimal without sign or leading zeros -/
def readNat (s : String) : Option Nat :=
  if s.isEmpty then none
  else if s.length > 1 && s.front == '0' then none
  else if s.all Char.isDigit then s.toNat? else none

def readRank (s : String) : Option (List (Option (Color × Kind))) :=
  let rec go : List Char → Bool → Option (List (Option (Color × Kind)))
    | [], _ => some []
    | ch :: rest, prevDigit =>
      if '1' ≤ ch ∧ ch ≤ '8' then
        if prevDigit then none      -- adjacent digits are not canonical
        else (go rest true).map fun t => List.replicate (ch.toNat - 48) none ++ t
      else match charCell ch with
        | some cell => (go rest false).map fun t => some cell :: t
        | none => none
  match go s.toList false with
  | some cells => if cells.length == 8 then some cells else none
  | none => none

/-- strict reader: exactly the strings `writeFen` can produce -/
def readFen (s : String) : Option Pos :=
  match s.splitOn " " with
  | [board, turn, rights, ep, half, full] =>
    match (board.splitOn "/").mapM readRank with
    | some ranks =>
      if ranks.length != 8 then none else
      let cells := (ranks.reverse.flatten).toArray
      let turn? : Option Color := if turn == "w" then some .white else if turn == "b" then some .black else none
      let rightsOk := rights == "-" || (!rights.isEmpty &&
        rights == (if rights.contains 'K' then "K" else "") ++ (if rights.contains 'Q' then "Q" else "") ++
                  (if rights.contains 'k' then "k" else "") ++ (if rights.contains 'q' then "q" else ""))
      let ep? : Option (Option Nat) :=
        if ep == "-" then some none else
        match ep.toList with
        | [f, r] => if 'a' ≤ f ∧ f ≤ 'h' ∧ '1' ≤ r ∧ r ≤ '8' then some (some ((r.toNat - 49) * 8 + (f.toNat - 97))) else none
        | _ => none
      match turn?, ep?, readNat half, readNat full with
      | some t, some e, some h, some fl =>
        if rightsOk then
          some { cells, turn := t, wk := rights.contains 'K', wq := rights.contains 'Q',
                 bk := rights.contains 'k', bq := rights.contains 'q', ep := e, halfmove := h, fullmove := fl }
        else none
      | _, _, _, _ => none
    | none => none
  | _ => none

end Wee.Spec
