import Wee.Gen.Text
/-!
# Regular expressions: the subset used by `FEN_REGEX` (syntax, parser, standard semantics)

`notation.rs` gates every FEN string with one regular expression,

  `^(((?:[rnbqkpRNBQKP1-8]+\/){7})[rnbqkpRNBQKP1-8]+)\s([b|w])\s(-|([K|Q|k|q]{1,4}))\s(-|[a-h][1-8])\s(\d+)\s(\d+)$`

(`Regex::new(FEN_REGEX).unwrap()`, `re.captures(notation)`, then `groups[1]`, `[3]`, `[4]`, `[6]`, `[7]`, `[8]`).
This file says what that literal *means*, independently of the model:

* `Regex` — abstract syntax of the subset of the `regex` crate's syntax that the literal uses;
* `parseRegex` — a parser for that subset (everything else is rejected, never re-interpreted), and
  `parse_fenRegex : parseRegex Gen.fenRegex = some fenAst`, where `Gen.fenRegex` is re-extracted from the
  Rust source on every run: the tree the theorems talk about is the one the literal denotes;
* `M` — the textbook (backtracking-free, relational) matching semantics with contexts for the anchors
  and an event list for the capturing groups; `Captures` — what `Regex::captures` may return.

The relation `M` fixes no disambiguation policy (leftmost-first, greedy, POSIX longest, …): a policy
selects ONE derivation of `M`.  `Wee/Props/FenRegex.lean` proves that for `fenAst` there is at most one
derivation per text, so the policy is irrelevant.

Unicode mode of the crate: `\s` is the property `White_Space` (`isWhiteSpace`, 25 code points),
`\d` is the general category `Nd`, which is left abstract (`PerlClasses.digit`).
-/
namespace Wee.Spec

/-- Unicode `White_Space` (Unicode 15: U+0009–000D, 0020, 0085, 00A0, 1680, 2000–200A, 2028, 2029,
202F, 205F, 3000) — what `\s` matches in the `regex` crate in its default (Unicode) mode -/
def isWhiteSpace (c : Char) : Bool :=
  [0x09, 0x0A, 0x0B, 0x0C, 0x0D, 0x20, 0x85, 0xA0, 0x1680,
   0x2000, 0x2001, 0x2002, 0x2003, 0x2004, 0x2005, 0x2006, 0x2007, 0x2008, 0x2009, 0x200A,
   0x2028, 0x2029, 0x202F, 0x205F, 0x3000].contains c.toNat

/-- the meaning of the Perl classes `\s` and `\d` (they depend on the Unicode tables compiled into the
`regex` crate) -/
structure PerlClasses where
  space : Char → Bool
  digit : Char → Bool

/-- Unicode mode: `\s` = `White_Space`, `\d` = a given set `nd` (general category `Nd`) -/
def unicode (nd : Char → Bool) : PerlClasses := ⟨isWhiteSpace, nd⟩

/-! ## Syntax -/

/-- one item between `[` and `]` -/
inductive ClassItem
  | ch (c : Char)
  | range (lo hi : Char)
deriving DecidableEq, Repr

def ClassItem.mem (c : Char) : ClassItem → Bool
  | .ch d => c == d
  | .range lo hi => lo.toNat ≤ c.toNat && c.toNat ≤ hi.toNat

inductive Regex
  /-- the empty sequence -/
  | eps
  /-- a literal character (also an escaped one, `\/`) -/
  | chr (c : Char)
  /-- `[…]`: any one character that is a member of one of the items -/
  | cls (items : List ClassItem)
  /-- `\s` -/
  | space
  /-- `\d` -/
  | digit
  /-- `ab` -/
  | cat (a b : Regex)
  /-- `a|b` -/
  | alt (a b : Regex)
  /-- `r{lo,hi}`; `r+` is `rep r 1 none`, `r{n}` is `rep r n (some n)`, `r{m,}` is `rep r m none` -/
  | rep (r : Regex) (lo : Nat) (hi : Option Nat)
  /-- `(r)`, the `i`-th capturing group (numbered by opening parenthesis, from 1) -/
  | group (i : Nat) (r : Regex)
  /-- `(?:r)` -/
  | ncgroup (r : Regex)
  /-- `^` (no `m` flag: start of the text only) -/
  | bol
  /-- `$` (no `m` flag: end of the text only — in the `regex` crate NOT before a final `\n`) -/
  | eol
deriving DecidableEq, Repr

/-! ## Parser

A table-free, single-pass parser with an explicit stack of open groups.  Anything outside the subset
(`.`, `*`, `?`, lazy quantifiers, flags, look-around, negated or nested classes, class set operations
`&&` `--` `~~`, escapes other than `\s`, `\d` and escaped punctuation, …) makes it return `none`. -/

def mkSeq : List Regex → Regex
  | [] => .eps
  | [r] => r
  | r :: rs => .cat r (mkSeq rs)

def mkAlt : List Regex → Regex
  | [] => .eps
  | [r] => r
  | r :: rs => .alt r (mkAlt rs)

/-- how an open parenthesis was written -/
inductive GroupKind
  | top
  | capturing (i : Nat)
  | nonCapturing

/-- an open group: the alternatives already closed by `|` and the items of the current one, both in
reverse order -/
structure Frame where
  kind : GroupKind
  alts : List Regex := []
  cur : List Regex := []

def Frame.push (f : Frame) (r : Regex) : Frame := { f with cur := r :: f.cur }

/-- `|` -/
def Frame.bar (f : Frame) : Frame := { f with alts := mkSeq f.cur.reverse :: f.alts, cur := [] }

def Frame.close (f : Frame) : Regex :=
  let body := mkAlt (mkSeq f.cur.reverse :: f.alts).reverse
  match f.kind with
  | .top => body
  | .capturing i => .group i body
  | .nonCapturing => .ncgroup body

/-- apply a quantifier to the last item -/
def Frame.quantify (f : Frame) (lo : Nat) (hi : Option Nat) : Option Frame :=
  match f.cur with
  | [] => none
  | .bol :: _ | .eol :: _ => none
  | .rep .. :: _ => none            -- `a++`, `a+{2}`: not in the subset
  | r :: rest => some { f with cur := .rep r lo hi :: rest }

/-- a character that stands for itself outside a class -/
def plainChar (c : Char) : Bool :=
  !("\\.+*?()|[]{}^$#&~".toList.contains c)

/-- a character that may be escaped to stand for itself -/
def escapable (c : Char) : Bool := "\\/.+*?()|[]{}^$#&-~".toList.contains c

/-- the items of a class up to the closing `]`; returns the rest of the pattern -/
def parseClass : List Char → List ClassItem → Option (List ClassItem × List Char)
  | [], _ => none
  | ']' :: rest, acc => if acc.isEmpty then none else some (acc.reverse, rest)
  | lo :: '-' :: hi :: rest, acc =>
    if hi == ']' then
      -- a final `-` is a literal
      if classChar lo then some ((.ch '-' :: .ch lo :: acc).reverse, rest) else none
    else if classChar lo && classChar hi && lo.toNat ≤ hi.toNat then parseClass rest (.range lo hi :: acc)
    else none
  | c :: rest, acc => if classChar c then parseClass rest (.ch c :: acc) else none
where
  /-- a character that stands for itself inside a class (`|`, `.`, `+`, … do; `\ [ ] ^ & ~ -` are
  rejected here) -/
  classChar (c : Char) : Bool := !("\\[]^&~-".toList.contains c)

/-- decimal digits -/
def parseNat : List Char → Nat → Option (Nat × List Char)
  | c :: rest, acc => if c.isDigit then parseNatMore rest (acc * 10 + (c.toNat - '0'.toNat)) else none
  | [], _ => none
where
  parseNatMore : List Char → Nat → Nat × List Char
    | c :: rest, acc => if c.isDigit then parseNatMore rest (acc * 10 + (c.toNat - '0'.toNat)) else (acc, c :: rest)
    | [], acc => (acc, [])

/-- after `{`: `n}`, `m,n}` or `m,}` -/
def parseBrace (cs : List Char) : Option (Nat × Option Nat × List Char) :=
  match parseNat cs 0 with
  | some (lo, '}' :: rest) => some (lo, some lo, rest)
  | some (lo, ',' :: '}' :: rest) => some (lo, none, rest)
  | some (lo, ',' :: rest) =>
    match parseNat rest 0 with
    | some (hi, '}' :: rest') => if lo ≤ hi then some (lo, some hi, rest') else none
    | _ => none
  | _ => none

/-- main loop; `fuel` bounds the number of steps (each consumes at least one character) -/
def parseLoop : Nat → List Char → (stack : List Frame) → (top : Frame) → (nextGroup : Nat) → Option Regex
  | 0, _, _, _, _ => none
  | _ + 1, [], [], top, _ => some top.close
  | _ + 1, [], _ :: _, _, _ => none
  | fuel + 1, c :: rest, stack, top, g =>
    match c with
    | '(' =>
      match rest with
      | '?' :: ':' :: rest' => parseLoop fuel rest' (top :: stack) { kind := .nonCapturing } g
      | '?' :: _ => none
      | _ => parseLoop fuel rest (top :: stack) { kind := .capturing g } (g + 1)
    | ')' =>
      match stack with
      | [] => none
      | parent :: stack' => parseLoop fuel rest stack' (parent.push top.close) g
    | '|' => parseLoop fuel rest stack top.bar g
    | '^' => parseLoop fuel rest stack (top.push .bol) g
    | '$' => parseLoop fuel rest stack (top.push .eol) g
    | '+' =>
      match rest with
      | '?' :: _ | '+' :: _ => none
      | _ => match top.quantify 1 none with
        | some top' => parseLoop fuel rest stack top' g
        | none => none
    | '{' =>
      match parseBrace rest with
      | some (_, _, '?' :: _) => none
      | some (lo, hi, rest') =>
        match top.quantify lo hi with
        | some top' => parseLoop fuel rest' stack top' g
        | none => none
      | none => none
    | '[' =>
      match parseClass rest [] with
      | some (items, rest') => parseLoop fuel rest' stack (top.push (.cls items)) g
      | none => none
    | '\\' =>
      match rest with
      | 's' :: rest' => parseLoop fuel rest' stack (top.push .space) g
      | 'd' :: rest' => parseLoop fuel rest' stack (top.push .digit) g
      | e :: rest' => if escapable e then parseLoop fuel rest' stack (top.push (.chr e)) g else none
      | [] => none
    | c => if plainChar c then parseLoop fuel rest stack (top.push (.chr c)) g else none

def parseRegex (s : String) : Option Regex :=
  parseLoop (s.toList.length + 1) s.toList [] { kind := .top } 1

/-! ## Semantics -/

/-- capture events in the order in which the groups are left: `(i, s)` = group `i` matched `s` -/
abbrev Caps := List (Nat × List Char)

/-- `M P r pre s post caps`: `r` matches the substring `s` of the text `pre ++ s ++ post`, the capturing
groups inside `r` recording `caps`.  (The context `pre`/`post` only matters for the anchors.) -/
inductive M (P : PerlClasses) : Regex → List Char → List Char → List Char → Caps → Prop
  | eps {pre post} : M P .eps pre [] post []
  | chr {c pre post} : M P (.chr c) pre [c] post []
  | cls {items c pre post} : items.any (ClassItem.mem c) = true → M P (.cls items) pre [c] post []
  | space {c pre post} : P.space c = true → M P .space pre [c] post []
  | digit {c pre post} : P.digit c = true → M P .digit pre [c] post []
  | cat {a b pre s₁ s₂ post c₁ c₂} :
      M P a pre s₁ (s₂ ++ post) c₁ → M P b (pre ++ s₁) s₂ post c₂ → M P (.cat a b) pre (s₁ ++ s₂) post (c₁ ++ c₂)
  | altL {a b pre s post c} : M P a pre s post c → M P (.alt a b) pre s post c
  | altR {a b pre s post c} : M P b pre s post c → M P (.alt a b) pre s post c
  /-- zero iterations, allowed when the lower bound is 0 -/
  | repNil {r hi pre post} : M P (.rep r 0 hi) pre [] post []
  /-- one iteration followed by `r{lo-1,hi-1}`, allowed when the upper bound is not 0 -/
  | repCons {r lo hi pre s₁ s₂ post c₁ c₂} : hi ≠ some 0 →
      M P r pre s₁ (s₂ ++ post) c₁ → M P (.rep r (lo - 1) (hi.map (· - 1))) (pre ++ s₁) s₂ post c₂ →
      M P (.rep r lo hi) pre (s₁ ++ s₂) post (c₁ ++ c₂)
  | group {i r pre s post c} : M P r pre s post c → M P (.group i r) pre s post ((i, s) :: c)
  | ncgroup {r pre s post c} : M P r pre s post c → M P (.ncgroup r) pre s post c
  | bol {post} : M P .bol [] [] post []
  | eol {pre} : M P .eol pre [] [] []

/-- the text of group `i` after a match: its last event (a group inside a repetition keeps its last
iteration); `none` = the group did not participate -/
def groupOf (caps : Caps) (i : Nat) : Option (List Char) :=
  (caps.reverse.find? (·.1 == i)).map (·.2)

/-- `g` is a possible result of `Regex::captures(text)` for the pattern `r`: the pattern matches some
substring of the text (un-anchored search; anchors are part of the pattern), `g 0` is the matched
substring and `g i` the text of group `i`.  The `regex` crate returns the leftmost-first such match, or
`None` when there is none. -/
def Captures (P : PerlClasses) (r : Regex) (text : List Char) (g : Nat → Option (List Char)) : Prop :=
  ∃ pre s post caps, text = pre ++ s ++ post ∧ M P r pre s post caps ∧ g = groupOf ((0, s) :: caps)

/-- `Regex::is_match(text)` -/
def IsMatch (P : PerlClasses) (r : Regex) (text : List Char) : Prop := ∃ g, Captures P r text g

/-- `Regex::captures(text)` as a function: SOME result allowed by the semantics (which one is deliberately left open —
the crate takes the leftmost-first match), `none` exactly when the pattern matches nowhere in the text.  For a pattern
whose matches are unique, such as `fenAst` (`Wee.FenRegex_unique`), this is THE result. -/
noncomputable def reCaptures (P : PerlClasses) (r : Regex) (text : List Char) : Option (Nat → Option (List Char)) :=
  open Classical in
  if h : IsMatch P r text then some (Classical.choose h) else none

theorem reCaptures_some {P : PerlClasses} {r : Regex} {text : List Char} {g : Nat → Option (List Char)}
    (h : reCaptures P r text = some g) : Captures P r text g := by
  unfold reCaptures at h
  split at h
  · rename_i hm; cases h; exact Classical.choose_spec hm
  · cases h

theorem reCaptures_none {P : PerlClasses} {r : Regex} {text : List Char} :
    reCaptures P r text = none ↔ ¬ IsMatch P r text := by
  unfold reCaptures
  split <;> simp [*]

/-! ## The FEN literal -/

/-- the items of `[rnbqkpRNBQKP1-8]` -/
def fenBoardItems : List ClassItem :=
  [.ch 'r', .ch 'n', .ch 'b', .ch 'q', .ch 'k', .ch 'p', .ch 'R', .ch 'N', .ch 'B', .ch 'Q', .ch 'K', .ch 'P',
   .range '1' '8']

/-- the items of `[b|w]` — a `|` inside a class is a literal -/
def fenSideItems : List ClassItem := [.ch 'b', .ch '|', .ch 'w']

/-- the items of `[K|Q|k|q]` -/
def fenCastleItems : List ClassItem := [.ch 'K', .ch '|', .ch 'Q', .ch '|', .ch 'k', .ch '|', .ch 'q']

/-- `[rnbqkpRNBQKP1-8]+` -/
def fenRank : Regex := .rep (.cls fenBoardItems) 1 none

/-- `(((?:[rnbqkpRNBQKP1-8]+\/){7})[rnbqkpRNBQKP1-8]+)` -/
def fenBoardGroup : Regex :=
  .group 1 (.cat (.group 2 (.rep (.ncgroup (.cat fenRank (.chr '/'))) 7 (some 7))) fenRank)

/-- `([b|w])` -/
def fenSideGroup : Regex := .group 3 (.cls fenSideItems)

/-- `(-|([K|Q|k|q]{1,4}))` -/
def fenCastleGroup : Regex :=
  .group 4 (.alt (.chr '-') (.group 5 (.rep (.cls fenCastleItems) 1 (some 4))))

/-- `(-|[a-h][1-8])` -/
def fenEpGroup : Regex := .group 6 (.alt (.chr '-') (.cat (.cls [.range 'a' 'h']) (.cls [.range '1' '8'])))

/-- `(\d+)` -/
def fenCounterGroup (i : Nat) : Regex := .group i (.rep .digit 1 none)

/-- the abstract syntax of `FEN_REGEX` -/
def fenAst : Regex :=
  .cat .bol <| .cat fenBoardGroup <| .cat .space <| .cat fenSideGroup <| .cat .space <| .cat fenCastleGroup <|
  .cat .space <| .cat fenEpGroup <| .cat .space <| .cat (fenCounterGroup 7) <| .cat .space <|
  .cat (fenCounterGroup 8) .eol

set_option maxRecDepth 100000 in
/-- the literal extracted from `notation.rs` parses to `fenAst` -/
theorem parse_fenRegex : parseRegex Gen.fenRegex = some fenAst := by decide

end Wee.Spec
