import Wee.Spec.Fen
/-!
# Standard algebraic notation: an independent WRITER

`spellings p m` lists admissible SAN spellings of the legal move `m` in position `p`: every
disambiguation (none / file / rank / file+rank) under which the text denotes `m` and no other legal
move, with the capture mark, `=Q` or `Q` promotion suffix, optional `+`/`#`, `O-O`/`O-O-O`.
What a spelling *denotes* is defined here by `denotes`, straight from the SAN rules.
-/
namespace Wee.Spec

def kindUpper : Kind → String
  | .pawn => "" | .knight => "N" | .bishop => "B" | .rook => "R" | .queen => "Q" | .king => "K"

def fileCh (sq : Nat) : String := String.singleton (Char.ofNat (97 + sq % 8))
def rankCh (sq : Nat) : String := String.singleton (Char.ofNat (49 + sq / 8))

/-- the parts of a (non-castling) SAN text -/
structure SanParts where
  kind : Kind
  fromFile : Option Nat
  fromRank : Option Nat
  capture : Bool
  dst : Nat
  promo : Option Kind
deriving DecidableEq, Repr

/-- the legal moves a SAN text denotes -/
def denotes (L : List SMove) (s : SanParts) : List SMove :=
  L.filter fun m =>
    m.castle.isNone && m.kind == s.kind && m.dst == s.dst && m.promo == s.promo &&
    m.capture.isSome == s.capture &&
    (match s.fromFile with | some f => m.src % 8 == f | none => true) &&
    (match s.fromRank with | some r => m.src / 8 == r | none => true)

def partsText (s : SanParts) (eqSign : Bool) : String :=
  kindUpper s.kind ++
  (match s.fromFile with | some f => String.singleton (Char.ofNat (97 + f)) | none => "") ++
  (match s.fromRank with | some r => String.singleton (Char.ofNat (49 + r)) | none => "") ++
  (if s.capture then "x" else "") ++ sqName s.dst ++
  (match s.promo with | some k => (if eqSign then "=" else "") ++ kindUpper k | none => "")

/-- `+` / `#` / nothing, as the rules prescribe for the position after the move -/
def checkMark (p : Pos) (m : SMove) : String :=
  let q := applyMove p m
  if q.inCheck q.turn then (if (legalMoves q).isEmpty then "#" else "+") else ""

def spellings (p : Pos) (m : SMove) : List String :=
  let L := legalMoves p
  let mark := checkMark p m
  let withMarks (t : String) : List String := if mark.isEmpty then [t] else [t, t ++ mark]
  match m.castle with
  | some true => withMarks "O-O"
  | some false => withMarks "O-O-O"
  | none =>
    let base : SanParts := { kind := m.kind, fromFile := none, fromRank := none, capture := m.capture.isSome, dst := m.dst, promo := m.promo }
    let variants : List SanParts :=
      if m.kind == .pawn then
        -- a pawn capture always names the file of origin; a pawn push never does
        if m.capture.isSome then [{ base with fromFile := some (m.src % 8) }, { base with fromFile := some (m.src % 8), fromRank := some (m.src / 8) }]
        else [base]
      else [base, { base with fromFile := some (m.src % 8) }, { base with fromRank := some (m.src / 8) },
            { base with fromFile := some (m.src % 8), fromRank := some (m.src / 8) }]
    (variants.filter fun s => denotes L s == [m]).flatMap fun s =>
      (if s.promo.isSome then [partsText s true, partsText s false] else [partsText s true]).flatMap withMarks

/-- fully disambiguated spelling (used for negative cases: a pseudo-legal but illegal move) -/
def fullSpelling (m : SMove) : String :=
  match m.castle with
  | some true => "O-O"
  | some false => "O-O-O"
  | none => partsText { kind := m.kind, fromFile := some (m.src % 8), fromRank := some (m.src / 8),
                        capture := m.capture.isSome, dst := m.dst, promo := m.promo } true

/-- pseudo-legal moves that are not legal (they leave the king attacked) -/
def illegalPseudo (p : Pos) : List SMove := (pseudoMoves p).filter fun m => !isLegalAfter p m

end Wee.Spec
