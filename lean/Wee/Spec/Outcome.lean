import Wee.Spec.Abs
/-!
# Game-theoretic outcome: forced mates (specification for C06 / C17)

`Win`/`Lost` are the usual inductive notions over the legal-move relation.  The executable
solver `forcedMate n` / `lostIn n` searches the complete tree to `n` plies over the model's
`legalMoves` (which C01 ties to the FIDE rules of `Spec.Chess`; using it keeps the solver fast
enough to serve as an oracle for hundreds of thousands of searches).
-/
namespace Wee.Outcome
open Wee

/-- the side to move is checkmated -/
def isMated (s : State) : Bool := (legalMoves s).isEmpty && s.isCheck

mutual
/-- the side to move can force checkmate within `n` plies -/
def forcedMate : Nat → State → Bool
  | 0, _ => false
  | n+1, s => (legalMoves s).any fun r => lostIn n r.2
/-- the side to move is checkmated now or cannot avoid being checkmated within `n` plies -/
def lostIn : Nat → State → Bool
  | 0, s => isMated s
  | n+1, s =>
    let ms := legalMoves s
    if ms.isEmpty then s.isCheck else ms.all fun r => forcedMate n r.2
end

/-- the least odd `n ≤ limit` with `forcedMate n s` -/
def mateDistance (limit : Nat) (s : State) : Option Nat :=
  (List.range (limit + 1)).find? fun n => n % 2 == 1 && forcedMate n s

-- declarative version (for the theorems)
mutual
inductive Win : State → Prop
  | intro (s : State) (r : Move × State) : r ∈ legalMoves s → Lost r.2 → Win s
inductive Lost : State → Prop
  | mated (s : State) : isMated s = true → Lost s
  | forced (s : State) : legalMoves s ≠ [] → (∀ r ∈ legalMoves s, Win r.2) → Lost s
end

end Wee.Outcome
