import Wee.Spec.San
/-!
# What the opening book should contain — an independent reading of the PGN files

Nothing here looks at how the Rust code tokenises or resolves moves.  A PGN file is read as the
export format describes it: tag-pair lines (`[Name "value"]`), then the movetext of the game; games
are separated by blank lines.  The movetext is a sequence of words: move-number indications
(`12.` or `12...`, free-standing or glued to the move), moves in standard algebraic notation, and
a game-termination marker (`1-0`, `0-1`, `1/2-1/2`, `*`).  A SAN word denotes a move by the SAN
rules (`Spec.denotes`: piece letter, optional file/rank of origin, `x` exactly for captures,
destination, `=Q`; castling `O-O`/`O-O-O`; `+`, `#`, `!`, `?` are decoration) and it must denote
exactly ONE legal move.

The book the property talks about is the relation "move `m` was played from a position with key `k`
within the first ten plies of some game", where the key is what identifies a position for the rules:
placement, side to move, castling rights and the en-passant square if (and only if) a pawn of the
side to move stands ready to capture there.
-/
namespace Wee.Spec.Book

/-- the property says "first ten plies" -/
def plies : Nat := 10

def startPos : Pos :=
  (readFen "rnbqkbnr/pppppppp/8/8/8/8/PPPPPPPP/RNBQKBNR w KQkq - 0 1").getD default

/-! ## position key -/

/-- the en-passant square, if a pawn of the side to move attacks it -/
def epAvailable (p : Pos) : Option Nat :=
  match p.ep with
  | none => none
  | some t =>
    let fromSqs := [(-1 : Int), 1].filterMap fun df => step t df (-(p.turn.fwd))
    if fromSqs.any (fun s => p.at s == some (p.turn, Kind.pawn)) then some t else none

/-- …and, stricter, if such a capture is a legal move (used only to report whether the two readings
of "capture availability" ever differ on the corpus) -/
def epLegallyAvailable (p : Pos) : Option Nat :=
  if (legalMoves p).any (·.ep) then p.ep else none

/-- canonical text of the rule-relevant key: placement, side, rights, available en-passant square -/
def posKey (p : Pos) : String :=
  let f := (writeFen p).splitOn " "
  s!"{f.getD 0 ""} {f.getD 1 ""} {f.getD 2 ""} " ++ (match epAvailable p with | some t => sqName t | none => "-")

/-! ## reading a SAN word -/

inductive SanWord
  | castle (kingSide : Bool)
  | parts (s : SanParts)
deriving DecidableEq, Repr

def kindOfLetter : Char → Option Kind
  | 'K' => some .king | 'Q' => some .queen | 'R' => some .rook | 'B' => some .bishop | 'N' => some .knight
  | _ => none

def fileOfChar (c : Char) : Option Nat := if 'a' ≤ c ∧ c ≤ 'h' then some (c.toNat - 97) else none
def rankOfChar (c : Char) : Option Nat := if '1' ≤ c ∧ c ≤ '8' then some (c.toNat - 49) else none

/-- drop decoration at the end of a word: check, mate, annotation glyphs -/
def stripDecoration (cs : List Char) : List Char :=
  (cs.reverse.dropWhile fun c => c == '+' || c == '#' || c == '!' || c == '?').reverse

/-- origin hints between the piece letter and the (optional) `x`: nothing, file, rank, or file+rank -/
def readOrigin (cs : List Char) : Option (Option Nat × Option Nat) :=
  match cs with
  | [] => some (none, none)
  | [c] =>
    match fileOfChar c, rankOfChar c with
    | some f, _ => some (some f, none)
    | none, some r => some (none, some r)
    | none, none => none
  | [c, d] =>
    match fileOfChar c, rankOfChar d with
    | some f, some r => some (some f, some r)
    | _, _ => none
  | _ => none

/-- split off a promotion suffix `=Q` / `=R` / `=B` / `=N` -/
def splitPromo (cs : List Char) : Option (List Char × Option Kind) :=
  match cs.reverse with
  | k :: '=' :: rest =>
    match kindOfLetter k with
    | some .king => none
    | some kd => some (rest.reverse, some kd)
    | none => none
  | _ => some (cs, none)

def readSan (word : String) : Option SanWord :=
  let cs := stripDecoration word.toList
  if cs == "O-O-O".toList then some (.castle false)
  else if cs == "O-O".toList then some (.castle true)
  else
    match splitPromo cs with
    | none => none
    | some (body, promo) =>
    -- destination square: the last two characters
    match body.reverse with
    | r :: f :: restRev =>
      match fileOfChar f, rankOfChar r with
      | some df, some dr =>
        let pre := restRev.reverse
        -- capture mark
        let (pre, capture) := match pre.reverse with
          | 'x' :: p => (p.reverse, true)
          | _ => (pre, false)
        -- piece letter
        let (kind, hints) : Kind × List Char := match pre with
          | c :: t => (match kindOfLetter c with | some k => (k, t) | none => (Kind.pawn, pre))
          | [] => (Kind.pawn, [])
        match readOrigin hints with
        | some (ff, fr) =>
          some (.parts { kind, fromFile := ff, fromRank := fr, capture, dst := dr * 8 + df, promo })
        | none => none
      | _, _ => none
    | _ => none

/-- the legal moves a SAN word denotes -/
def denotedBy (L : List SMove) : SanWord → List SMove
  | .castle b => L.filter fun m => m.castle == some b
  | .parts s => denotes L s

/-! ## reading the movetext -/

def isSpace (c : Char) : Bool := c == ' ' || c == '\n' || c == '\t' || c == '\r'

def words (s : String) : List String :=
  ((s.toList.splitBy fun a b => isSpace a == isSpace b).filter fun g =>
    match g with | c :: _ => !isSpace c | [] => false).map String.ofList

def isTermination (w : String) : Bool := w == "1-0" || w == "0-1" || w == "1/2-1/2" || w == "*"

/-- remove a move-number indication `<digits>.` / `<digits>...` from the front of a word -/
def dropMoveNumber (w : String) : String :=
  let cs := w.toList
  let afterDigits := cs.dropWhile Char.isDigit
  if afterDigits.length < cs.length then
    match afterDigits with
    | '.' :: _ => String.ofList (afterDigits.dropWhile (· == '.'))
    | _ => w
  else w

/-- the SAN words of a game, in order, up to the termination marker -/
def sanWords (movetext : String) : List String :=
  (((words movetext).takeWhile fun w => !isTermination w).map dropMoveNumber).filter fun w => !w.isEmpty

/-- one recorded fact: in position `pos` (with key `key`) the move `move` was played -/
structure Rec where
  key : String
  pos : Pos
  move : SMove
deriving Repr

/-- replay SAN words from `p`; stops (with a message) at a word that does not denote exactly one legal move -/
def replay : List String → Pos → List Rec × Option String
  | [], _ => ([], none)
  | w :: ws, p =>
    match readSan w with
    | none => ([], some s!"unreadable SAN word '{w}'")
    | some sw =>
      match denotedBy (legalMoves p) sw with
      | [m] =>
        let (rs, e) := replay ws (applyMove p m)
        ({ key := posKey p, pos := p, move := m } :: rs, e)
      | [] => ([], some s!"'{w}' denotes no legal move in {writeFen p}")
      | _ => ([], some s!"'{w}' is ambiguous in {writeFen p}")

/-- the SAN words of the first ten plies -/
def openingWords (movetext : String) : List String := (sanWords movetext).take plies

/-- replay from the initial position -/
def replayWords (ws : List String) : List Rec × Option String := replay ws startPos

/-- the facts a game contributes to the book: its first ten plies -/
def recordsOfGame (movetext : String) : List Rec × Option String := replayWords (openingWords movetext)

/-! ## reading a file -/

/-- the text sections of a PGN file: maximal runs of lines that are neither blank nor tag lines -/
def sections (contents : String) : List String :=
  let lines := contents.splitOn "\n"
  let isText (l : String) : Bool :=
    let t := l.trimAscii.toString
    !t.isEmpty && !t.startsWith "["
  ((lines.splitBy fun a b => isText a == isText b).filter fun g =>
    match g with | l :: _ => isText l | [] => false).map fun g => " ".intercalate g

/-- a movetext section begins with the indication of move number 1 (or, for a game without moves,
is just the termination marker); anything else between the tag sections is not a game -/
def isMovetext (sec : String) : Bool :=
  match words sec with
  | w :: _ => w.startsWith "1." || isTermination w
  | [] => false

def movetexts (contents : String) : List String := (sections contents).filter isMovetext

/-- text between tag sections that is not a game (reported, contributes nothing) -/
def strayText (contents : String) : List String := (sections contents).filter fun s => !isMovetext s

/-- all facts of a list of files, and the problems met -/
def recordsOfFiles (files : List String) : List Rec × List String :=
  (files.flatMap movetexts).foldr (fun g acc =>
    let (rs, e) := recordsOfGame g
    (rs ++ acc.1, match e with | some msg => msg :: acc.2 | none => acc.2)) ([], [])

/-- the moves the book should offer for a position: those recorded for its key -/
def offers (records : List Rec) (p : Pos) : List SMove :=
  ((records.filter fun r => r.key == posKey p).map (·.move)).eraseDups

end Wee.Spec.Book
