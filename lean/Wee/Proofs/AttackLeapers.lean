import Wee.Proofs.AttackLemmas
/-!
# The leaper fields of `Wee.C10.AttackTablesCorrect`, by exhaustive kernel evaluation

`knightAttacks`, `kingAttacks`, `pawnAttacks` do not depend on the occupancy, so the three leaper
fields are 64·64 (·2) closed facts.  This leaves only the two slider fields (property C09) to be
supplied: `attackTables_of_sliders`.
-/
namespace Wee.C10

set_option maxRecDepth 100000 in
theorem knight_table : ∀ sq : Fin 64, ∀ t : Fin 64,
    test (knightAttacks sq.val) t.val =
      (Spec.knightJumps.filterMap fun d => Spec.step sq.val d.1 d.2).contains t.val := by
  decide +kernel

set_option maxRecDepth 100000 in
theorem king_table : ∀ sq : Fin 64, ∀ t : Fin 64,
    test (kingAttacks sq.val) t.val =
      (Spec.kingSteps.filterMap fun d => Spec.step sq.val d.1 d.2).contains t.val := by
  decide +kernel

set_option maxRecDepth 100000 in
theorem pawn_table : ∀ w : Bool, ∀ sq : Fin 64, ∀ t : Fin 64,
    test (pawnAttacks (if w then .white else .black) sq.val) t.val =
      ([((-1 : Int), (absColor (if w then .white else .black)).fwd),
        (1, (absColor (if w then .white else .black)).fwd)].filterMap
          fun d => Spec.step sq.val d.1 d.2).contains t.val := by
  decide +kernel

/-- only the slider lookups remain to be justified (C09) -/
theorem attackTables_of_sliders
    (rook : ∀ sq, sq < 64 → ∀ (occ : UInt64) (t : Nat), t < 64 →
      test (rookAttacks sq occ) t = (Spec.slide (fun n => test occ n) Spec.rookDirs sq).contains t)
    (bishop : ∀ sq, sq < 64 → ∀ (occ : UInt64) (t : Nat), t < 64 →
      test (bishopAttacks sq occ) t = (Spec.slide (fun n => test occ n) Spec.bishopDirs sq).contains t) :
    AttackTablesCorrect where
  rook := rook
  bishop := bishop
  knight := fun sq hs t ht => knight_table ⟨sq, hs⟩ ⟨t, ht⟩
  king := fun sq hs t ht => king_table ⟨sq, hs⟩ ⟨t, ht⟩
  pawn := fun c sq hs t ht => by
    cases c
    · exact pawn_table true ⟨sq, hs⟩ ⟨t, ht⟩
    · exact pawn_table false ⟨sq, hs⟩ ⟨t, ht⟩

end Wee.C10
