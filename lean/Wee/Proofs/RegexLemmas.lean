import Wee.Spec.Regex
import Wee.Proofs.FenLemmas
import Wee.Proofs.UciLemmas
/-!
# Lemmas for `Props/FenRegex.lean`: the regex semantics of `Spec/Regex.lean` against the hand-written recogniser

* inversion lemmas for the matching relation `M` (one per constructor of `Regex`), repetition of a one-character
  pattern (`M_rep_char`), exact repetition (`M_rep_exact`, `Iter_seg`);
* the character classes of the literal against the Boolean gates of `Model/Fen.lean` (`boardClass_eq`, …),
  `isWhiteSpace_eq` (the `\s` table of the spec = `isRegexSpace` of the model);
* each group of `fenAst` as a condition on its text (`M_fenBoardGroup`, …) and the whole pattern (`M_fenAst`);
* `splitFields` in both directions (`splitFields_six'`, `splitFields_six_inv`), `boardFieldOk_iff`;
* `fenCaptures` (a decision procedure returning the groups) and `M_fenAst_iff_captures`, `captures_fenAst_iff`,
  `reCaptures_fenAst`: matches are unique and computed by `fenCaptures`;
* `parseFenChars` cut at its gate (`parseFenChars_six`, `afterGate`), `parseUsize_some_digits`, `parseSquare_of_epOk`.
-/
namespace Wee.Spec
variable {P : PerlClasses} {pre s post : List Char} {c : Caps}

theorem M_eps : M P .eps pre s post c ↔ s = [] ∧ c = [] := by
  constructor
  · intro h; cases h; exact ⟨rfl, rfl⟩
  · rintro ⟨rfl, rfl⟩; exact .eps

theorem M_chr {ch : Char} : M P (.chr ch) pre s post c ↔ s = [ch] ∧ c = [] := by
  constructor
  · intro h; cases h; exact ⟨rfl, rfl⟩
  · rintro ⟨rfl, rfl⟩; exact .chr

theorem M_cls {items : List ClassItem} :
    M P (.cls items) pre s post c ↔ ∃ ch, s = [ch] ∧ items.any (ClassItem.mem ch) = true ∧ c = [] := by
  constructor
  · intro h; cases h with | cls hm => exact ⟨_, rfl, hm, rfl⟩
  · rintro ⟨ch, rfl, hm, rfl⟩; exact .cls hm

theorem M_space : M P .space pre s post c ↔ ∃ ch, s = [ch] ∧ P.space ch = true ∧ c = [] := by
  constructor
  · intro h; cases h with | space hm => exact ⟨_, rfl, hm, rfl⟩
  · rintro ⟨ch, rfl, hm, rfl⟩; exact .space hm

theorem M_digit : M P .digit pre s post c ↔ ∃ ch, s = [ch] ∧ P.digit ch = true ∧ c = [] := by
  constructor
  · intro h; cases h with | digit hm => exact ⟨_, rfl, hm, rfl⟩
  · rintro ⟨ch, rfl, hm, rfl⟩; exact .digit hm

theorem M_cat {a b : Regex} : M P (.cat a b) pre s post c ↔
    ∃ s₁ s₂ c₁ c₂, s = s₁ ++ s₂ ∧ c = c₁ ++ c₂ ∧ M P a pre s₁ (s₂ ++ post) c₁ ∧ M P b (pre ++ s₁) s₂ post c₂ := by
  constructor
  · intro h; cases h with | cat h₁ h₂ => exact ⟨_, _, _, _, rfl, rfl, h₁, h₂⟩
  · rintro ⟨s₁, s₂, c₁, c₂, rfl, rfl, h₁, h₂⟩; exact .cat h₁ h₂

theorem M_alt {a b : Regex} : M P (.alt a b) pre s post c ↔ M P a pre s post c ∨ M P b pre s post c := by
  constructor
  · intro h; cases h with
    | altL h => exact .inl h
    | altR h => exact .inr h
  · rintro (h | h)
    · exact .altL h
    · exact .altR h

theorem M_group {i : Nat} {r : Regex} :
    M P (.group i r) pre s post c ↔ ∃ c', c = (i, s) :: c' ∧ M P r pre s post c' := by
  constructor
  · intro h; cases h with | group h => exact ⟨_, rfl, h⟩
  · rintro ⟨c', rfl, h⟩; exact .group h

theorem M_ncgroup {r : Regex} : M P (.ncgroup r) pre s post c ↔ M P r pre s post c := by
  constructor
  · intro h; cases h with | ncgroup h => exact h
  · exact .ncgroup

theorem M_bol : M P .bol pre s post c ↔ pre = [] ∧ s = [] ∧ c = [] := by
  constructor
  · intro h; cases h; exact ⟨rfl, rfl, rfl⟩
  · rintro ⟨rfl, rfl, rfl⟩; exact .bol

theorem M_eol : M P .eol pre s post c ↔ post = [] ∧ s = [] ∧ c = [] := by
  constructor
  · intro h; cases h; exact ⟨rfl, rfl, rfl⟩
  · rintro ⟨rfl, rfl, rfl⟩; exact .eol

theorem M_rep {r : Regex} {lo : Nat} {hi : Option Nat} : M P (.rep r lo hi) pre s post c ↔
    (lo = 0 ∧ s = [] ∧ c = []) ∨
    (hi ≠ some 0 ∧ ∃ s₁ s₂ c₁ c₂, s = s₁ ++ s₂ ∧ c = c₁ ++ c₂ ∧ M P r pre s₁ (s₂ ++ post) c₁ ∧
      M P (.rep r (lo - 1) (hi.map (· - 1))) (pre ++ s₁) s₂ post c₂) := by
  constructor
  · intro h; cases h with
    | repNil => exact .inl ⟨rfl, rfl, rfl⟩
    | repCons h0 h₁ h₂ => exact .inr ⟨h0, _, _, _, _, rfl, rfl, h₁, h₂⟩
  · rintro (⟨rfl, rfl, rfl⟩ | ⟨h0, s₁, s₂, c₁, c₂, rfl, rfl, h₁, h₂⟩)
    · exact .repNil
    · exact .repCons h0 h₁ h₂

/-- `r` matches exactly the one-character strings whose character satisfies `p`, and captures nothing -/
def IsCharRx (P : PerlClasses) (r : Regex) (p : Char → Bool) : Prop :=
  ∀ pre s post c, M P r pre s post c ↔ ∃ ch, s = [ch] ∧ p ch = true ∧ c = []

theorem isCharRx_cls (items : List ClassItem) : IsCharRx P (.cls items) (fun ch => items.any (ClassItem.mem ch)) :=
  fun _ _ _ _ => M_cls
theorem isCharRx_space : IsCharRx P .space P.space := fun _ _ _ _ => M_space
theorem isCharRx_digit : IsCharRx P .digit P.digit := fun _ _ _ _ => M_digit

/-- bounded repetition of a one-character pattern: a run of such characters of admissible length -/
theorem M_rep_char {r : Regex} {p : Char → Bool} (hr : IsCharRx P r p) {lo : Nat} {hi : Option Nat} :
    M P (.rep r lo hi) pre s post c ↔
      lo ≤ s.length ∧ (∀ n, hi = some n → s.length ≤ n) ∧ s.all p = true ∧ c = [] := by
  constructor
  · intro h
    generalize hR : Regex.rep r lo hi = R at h
    induction h generalizing lo hi with
    | repNil => cases hR; simp
    | repCons h0 h₁ h₂ _ ih₂ =>
      cases hR
      obtain ⟨ch, rfl, hp, rfl⟩ := (hr _ _ _ _).1 h₁
      obtain ⟨i1, i2, i3, rfl⟩ := ih₂ rfl
      refine ⟨by simp; omega, ?_, by simp [hp, i3], rfl⟩
      intro n hn
      subst hn
      have := i2 (n - 1) rfl
      have : n ≠ 0 := fun h => h0 (by rw [h])
      simp; omega
    | _ => cases hR
  · rintro ⟨h1, h2, h3, rfl⟩
    induction s generalizing lo hi pre with
    | nil =>
      have : lo = 0 := by simpa using h1
      subst this; exact .repNil
    | cons x t ih =>
      have hx : p x = true ∧ t.all p = true := by simpa using h3
      have hcons : M P (.rep r lo hi) pre ([x] ++ t) post ([] ++ []) := by
        refine .repCons ?_ ((hr _ _ _ _).2 ⟨x, rfl, hx.1, rfl⟩) (ih ?_ ?_ hx.2)
        · intro h0; have := h2 0 h0; simp at this
        · simp at h1; omega
        · intro n hn
          cases hi with
          | none => simp at hn
          | some m =>
            simp at hn; subst hn
            have := h2 m rfl; simp at this; omega
      simpa using hcons

/-- exactly `n` iterations -/
def Iter (P : PerlClasses) (r : Regex) : Nat → List Char → List Char → List Char → Caps → Prop
  | 0, _, s, _, c => s = [] ∧ c = []
  | n + 1, pre, s, post, c => ∃ s₁ s₂ c₁ c₂, s = s₁ ++ s₂ ∧ c = c₁ ++ c₂ ∧ M P r pre s₁ (s₂ ++ post) c₁ ∧
      Iter P r n (pre ++ s₁) s₂ post c₂

theorem M_rep_exact {r : Regex} (n : Nat) : M P (.rep r n (some n)) pre s post c ↔ Iter P r n pre s post c := by
  induction n generalizing pre s c with
  | zero => rw [M_rep]; simp [Iter]
  | succ n ih =>
    rw [M_rep]
    simp only [Iter, Nat.add_one_ne_zero, false_and, false_or, Nat.add_sub_cancel, Option.map_some, ih]
    simp

/-- every segment followed by the separator -/
def joinSep (sep : Char) (segs : List (List Char)) : List Char := (segs.map (· ++ [sep])).flatten

theorem Iter_seg {r : Regex} {p : Char → Bool} (hr : IsCharRx P r p) (sep : Char) (n : Nat) :
    Iter P (.ncgroup (.cat (.rep r 1 none) (.chr sep))) n pre s post c ↔
      ∃ segs : List (List Char), segs.length = n ∧ (∀ seg ∈ segs, seg ≠ [] ∧ seg.all p = true) ∧
        s = joinSep sep segs ∧ c = [] := by
  induction n generalizing pre s c with
  | zero =>
    simp only [Iter]
    constructor
    · rintro ⟨rfl, rfl⟩; exact ⟨[], rfl, by simp, rfl, rfl⟩
    · rintro ⟨segs, hl, _, rfl, rfl⟩
      have : segs = [] := List.eq_nil_of_length_eq_zero hl
      subst this; exact ⟨rfl, rfl⟩
  | succ n ih =>
    simp only [Iter, M_ncgroup, M_cat, M_rep_char hr, M_chr, ih]
    constructor
    · rintro ⟨s₁, s₂, c₁, c₂, rfl, rfl, ⟨a, b, ca, cb, rfl, rfl, ⟨ha1, -, ha2, rfl⟩, rfl, rfl⟩, segs, hl, hs, rfl, rfl⟩
      refine ⟨a :: segs, by simp [hl], ?_, by simp [joinSep], rfl⟩
      intro seg hseg
      rcases List.mem_cons.1 hseg with rfl | h
      · exact ⟨by intro h; subst h; simp at ha1, ha2⟩
      · exact hs seg h
    · rintro ⟨segs, hl, hs, rfl, rfl⟩
      match segs, hl, hs with
      | a :: segs, hl, hs =>
        have ha := hs a List.mem_cons_self
        refine ⟨a ++ [sep], joinSep sep segs, [], [], by simp [joinSep], rfl,
          ⟨a, [sep], [], [], rfl, rfl, ⟨?_, by simp, ha.2, rfl⟩, rfl, rfl⟩,
          segs, by simpa using hl, fun seg h => hs seg (List.mem_cons_of_mem _ h), rfl, rfl⟩
        cases a with
        | nil => exact absurd rfl ha.1
        | cons _ _ => simp

open Wee
theorem char_eq_iff_toNat (a b : Char) : a = b ↔ a.toNat = b.toNat := by
  constructor
  · rintro rfl; rfl
  · intro h; exact Char.ext (UInt32.toNat_inj.1 h)

theorem isWhiteSpace_eq (c : Char) : isWhiteSpace c = isRegexSpace c := by
  rw [Bool.eq_iff_iff]
  simp only [isWhiteSpace, isRegexSpace, List.contains_cons, List.contains_nil, Bool.or_eq_true, beq_iff_eq,
    Bool.and_eq_true, decide_eq_true_eq, Bool.or_false]
  omega



theorem boardClass_eq (ch : Char) : fenBoardItems.any (ClassItem.mem ch) = isBoardChar ch := by
  have e : "rnbqkpRNBQKP12345678".toList = ['r','n','b','q','k','p','R','N','B','Q','K','P','1','2','3','4','5','6','7','8'] := by decide
  rw [Bool.eq_iff_iff]
  simp only [fenBoardItems, isBoardChar, e, List.any_cons, List.any_nil, ClassItem.mem, List.contains_cons, List.contains_nil,
    Bool.or_eq_true, beq_iff_eq, Bool.and_eq_true, decide_eq_true_eq, Bool.or_false, char_eq_iff_toNat, Char.reduceToNat]
  omega

theorem sideClass_eq (ch : Char) : fenSideItems.any (ClassItem.mem ch) = (ch == 'b' || ch == '|' || ch == 'w') := by
  simp [fenSideItems, ClassItem.mem, Bool.or_assoc]

theorem castleClass_eq (ch : Char) : fenCastleItems.any (ClassItem.mem ch) = "K|Qkq".toList.contains ch := by
  have e : "K|Qkq".toList = ['K', '|', 'Q', 'k', 'q'] := by decide
  rw [Bool.eq_iff_iff]
  simp only [fenCastleItems, e, List.any_cons, List.any_nil, ClassItem.mem, List.contains_cons, List.contains_nil,
    Bool.or_eq_true, beq_iff_eq, Bool.or_false]
  grind

theorem range_mem (lo hi ch : Char) : [ClassItem.range lo hi].any (ClassItem.mem ch) = (decide (lo ≤ ch) && decide (ch ≤ hi)) := by
  simp [ClassItem.mem, FenL.char_le_iff]

/-! ## the groups of `fenAst` -/

theorem M_fenRank : M P fenRank pre s post c ↔ s ≠ [] ∧ s.all isBoardChar = true ∧ c = [] := by
  have hr : IsCharRx P (.cls fenBoardItems) isBoardChar := by
    intro pre s post c; rw [M_cls]; simp only [boardClass_eq]
  rw [fenRank, M_rep_char hr]
  constructor
  · rintro ⟨h1, -, h3, h4⟩; exact ⟨by intro h; subst h; simp at h1, h3, h4⟩
  · rintro ⟨h1, h3, h4⟩
    refine ⟨?_, by simp, h3, h4⟩
    cases s with
    | nil => exact absurd rfl h1
    | cons _ _ => simp

theorem M_fenBoardGroup : M P fenBoardGroup pre s post c ↔
    ∃ (segs : List (List Char)) (last : List Char), segs.length = 7 ∧
      (∀ seg ∈ segs, seg ≠ [] ∧ seg.all isBoardChar = true) ∧ last ≠ [] ∧ last.all isBoardChar = true ∧
      s = joinSep '/' segs ++ last ∧ c = [(1, s), (2, joinSep '/' segs)] := by
  have hr : IsCharRx P (.cls fenBoardItems) isBoardChar := by
    intro pre s post c; rw [M_cls]; simp only [boardClass_eq]
  simp only [fenBoardGroup, M_group, M_cat, M_rep_exact]
  have hrank : ∀ pre s post c, M P (.rep (.cls fenBoardItems) 1 none) pre s post c ↔
      s ≠ [] ∧ s.all isBoardChar = true ∧ c = [] := fun _ _ _ _ => M_fenRank
  simp only [fenRank, Iter_seg hr, hrank]
  constructor
  · rintro ⟨c', rfl, s₁, s₂, c₁, c₂, rfl, rfl, ⟨c'', rfl, segs, hl, hs, rfl, rfl⟩, h1, h2, rfl⟩
    exact ⟨segs, s₂, hl, hs, h1, h2, rfl, rfl⟩
  · rintro ⟨segs, last, hl, hs, h1, h2, rfl, rfl⟩
    exact ⟨_, rfl, _, last, _, [], rfl, rfl, ⟨[], rfl, segs, hl, hs, rfl, rfl⟩, h1, h2, rfl⟩

theorem M_fenSideGroup : M P fenSideGroup pre s post c ↔ FenL.sideOk s = true ∧ c = [(3, s)] := by
  simp only [fenSideGroup, M_group, M_cls, sideClass_eq, FenL.sideOk]
  constructor
  · rintro ⟨c', rfl, ch, rfl, h, rfl⟩
    exact ⟨by simpa using h, rfl⟩
  · rintro ⟨h, rfl⟩
    match s, h with
    | [ch], h => exact ⟨[], rfl, ch, rfl, by simpa using h, rfl⟩

theorem M_fenCastleGroup : M P fenCastleGroup pre s post c ↔
    (s = ['-'] ∧ c = [(4, s)]) ∨
    ((decide (1 ≤ s.length) && decide (s.length ≤ 4) && s.all (fun c => "K|Qkq".toList.contains c)) = true ∧
      c = [(4, s), (5, s)]) := by
  have hr : IsCharRx P (.cls fenCastleItems) (fun c => "K|Qkq".toList.contains c) := by
    intro pre s post c; rw [M_cls]; simp only [castleClass_eq]
  simp only [fenCastleGroup, M_group, M_alt, M_chr, M_rep_char hr]
  constructor
  · rintro ⟨c', rfl, (⟨rfl, rfl⟩ | ⟨c'', rfl, h1, h2, h3, rfl⟩)⟩
    · exact .inl ⟨rfl, rfl⟩
    · refine .inr ⟨?_, rfl⟩
      simp only [Bool.and_eq_true, decide_eq_true_eq]
      exact ⟨⟨h1, h2 4 rfl⟩, h3⟩
  · rintro (⟨rfl, rfl⟩ | ⟨h, rfl⟩)
    · exact ⟨_, rfl, .inl ⟨rfl, rfl⟩⟩
    · simp only [Bool.and_eq_true, decide_eq_true_eq] at h
      exact ⟨_, rfl, .inr ⟨_, rfl, h.1.1, by intro n hn; cases hn; exact h.1.2, h.2, rfl⟩⟩

theorem M_fenEpGroup : M P fenEpGroup pre s post c ↔ FenL.epOk s = true ∧ c = [(6, s)] := by
  simp only [fenEpGroup, M_group, M_alt, M_chr, M_cat, M_cls, range_mem, FenL.epOk]
  constructor
  · rintro ⟨c', rfl, (⟨rfl, rfl⟩ | ⟨s₁, s₂, c₁, c₂, rfl, rfl, ⟨f, rfl, hf, rfl⟩, ⟨r, rfl, hr, rfl⟩⟩)⟩
    · exact ⟨by decide, rfl⟩
    · refine ⟨?_, rfl⟩
      simp only [Bool.and_eq_true, decide_eq_true_eq] at hf hr
      simp [hf, hr]
  · rintro ⟨h, rfl⟩
    refine ⟨_, rfl, ?_⟩
    rw [Bool.or_eq_true] at h
    rcases h with h | h
    · exact .inl ⟨by simpa using h, rfl⟩
    · match s, h with
      | [f, r], h =>
        simp only [Bool.and_eq_true, decide_eq_true_eq] at h
        exact .inr ⟨[f], [r], [], [], rfl, rfl, ⟨f, rfl, by simp [h], rfl⟩, ⟨r, rfl, by simp [h], rfl⟩⟩

theorem M_fenCounterGroup (i : Nat) : M P (fenCounterGroup i) pre s post c ↔
    s ≠ [] ∧ s.all P.digit = true ∧ c = [(i, s)] := by
  simp only [fenCounterGroup, M_group, M_rep_char isCharRx_digit]
  constructor
  · rintro ⟨c', rfl, h1, -, h3, rfl⟩
    exact ⟨by intro h; subst h; simp at h1, h3, rfl⟩
  · rintro ⟨h1, h3, rfl⟩
    refine ⟨_, rfl, ?_, by simp, h3, rfl⟩
    cases s with
    | nil => exact absurd rfl h1
    | cons _ _ => simp

/-! ## the whole pattern -/

/-- `a\s b`, where `a` is insensitive to its context -/
theorem M_field_space {a b : Regex} {L : List Char → Caps → Prop}
    (ha : ∀ pre s post c, M P a pre s post c ↔ L s c) :
    M P (.cat a (.cat .space b)) pre s post c ↔
      ∃ f w rest ca cb, P.space w = true ∧ L f ca ∧ s = f ++ w :: rest ∧ c = ca ++ cb ∧
        M P b ((pre ++ f) ++ [w]) rest post cb := by
  simp only [M_cat, M_space, ha]
  constructor
  · rintro ⟨f, _, ca, _, rfl, rfl, hL, _, rest, _, cb, rfl, rfl, ⟨w, rfl, hw, rfl⟩, hb⟩
    exact ⟨f, w, rest, ca, cb, hw, hL, rfl, rfl, hb⟩
  · rintro ⟨f, w, rest, ca, cb, hw, hL, rfl, rfl, hb⟩
    exact ⟨f, _, ca, _, rfl, rfl, hL, [w], rest, [], cb, rfl, rfl, ⟨w, rfl, hw, rfl⟩, hb⟩

/-- the capture events of a match of `fenAst`, from its fields (group 5 takes part only when the
castling field is not `-`) -/
def fenEvents (board ranks side castle ep half full : List Char) : Caps :=
  [(1, board), (2, ranks)] ++ ([(3, side)] ++
    ((if castle = ['-'] then [(4, castle)] else [(4, castle), (5, castle)]) ++
      ([(6, ep)] ++ ([(7, half)] ++ [(8, full)]))))

/-- the fields of a text matched by `fenAst` -/
structure FenText (nd : Char → Bool) (segs : List (List Char)) (last side castle ep half full : List Char) : Prop where
  segs_len : segs.length = 7
  segs_ok : ∀ seg ∈ segs, seg ≠ [] ∧ seg.all isBoardChar = true
  last_ne : last ≠ []
  last_ok : last.all isBoardChar = true
  side_ok : FenL.sideOk side = true
  castle_ok : FenL.castleOk castle = true
  ep_ok : FenL.epOk ep = true
  half_ne : half ≠ []
  half_ok : half.all nd = true
  full_ne : full ≠ []
  full_ok : full.all nd = true

theorem castle_dash_not_letters : (['-'].all fun c => "K|Qkq".toList.contains c) = false := by decide

/-- the castling group, with the events as a function of the text -/
theorem M_fenCastleGroup' : M P fenCastleGroup pre s post c ↔
    FenL.castleOk s = true ∧ c = (if s = ['-'] then [(4, s)] else [(4, s), (5, s)]) := by
  rw [M_fenCastleGroup]
  constructor
  · rintro (⟨rfl, rfl⟩ | ⟨h, rfl⟩)
    · exact ⟨by decide, by simp⟩
    · have hne : s ≠ ['-'] := by
        rintro rfl; simp only [castle_dash_not_letters, Bool.and_false] at h; exact absurd h (by decide)
      refine ⟨?_, by simp [hne]⟩
      simp only [FenL.castleOk]; rw [h]; simp
  · rintro ⟨h, rfl⟩
    by_cases hc : s = ['-']
    · exact .inl ⟨hc, by simp [hc]⟩
    · refine .inr ⟨?_, by simp [hc]⟩
      simp only [FenL.castleOk, Bool.or_eq_true, beq_iff_eq] at h
      rcases h with h | h
      · exact absurd h hc
      · exact h

theorem M_fenAst {nd : Char → Bool} {caps : Caps} : M (unicode nd) fenAst pre s post caps ↔
    pre = [] ∧ post = [] ∧ ∃ segs last side castle ep half full w1 w2 w3 w4 w5,
      FenText nd segs last side castle ep half full ∧
      isWhiteSpace w1 = true ∧ isWhiteSpace w2 = true ∧ isWhiteSpace w3 = true ∧ isWhiteSpace w4 = true ∧
      isWhiteSpace w5 = true ∧
      s = (joinSep '/' segs ++ last) ++ w1 :: (side ++ w2 :: (castle ++ w3 :: (ep ++ w4 :: (half ++ w5 :: full)))) ∧
      caps = fenEvents (joinSep '/' segs ++ last) (joinSep '/' segs) side castle ep half full := by
  have hsp : (unicode nd).space = isWhiteSpace := rfl
  have hdg : (unicode nd).digit = nd := rfl
  have h1 := @M_field_space (unicode nd) (a := fenBoardGroup) (L := _) (ha := fun _ _ _ _ => M_fenBoardGroup)
  have h2 := @M_field_space (unicode nd) (a := fenSideGroup) (L := _) (ha := fun _ _ _ _ => M_fenSideGroup)
  have h3 := @M_field_space (unicode nd) (a := fenCastleGroup) (L := _) (ha := fun _ _ _ _ => M_fenCastleGroup')
  have h4 := @M_field_space (unicode nd) (a := fenEpGroup) (L := _) (ha := fun _ _ _ _ => M_fenEpGroup)
  have h5 := @M_field_space (unicode nd) (a := fenCounterGroup 7) (L := _) (ha := fun _ _ _ _ => M_fenCounterGroup 7)
  rw [fenAst, M_cat]
  constructor
  · rintro ⟨_, s0, _, caps0, rfl, rfl, hb, g0⟩
    obtain ⟨rfl, rfl, rfl⟩ := M_bol.1 hb
    obtain ⟨_, w1, s1, _, caps1, hw1, ⟨segs, last, hl, hs, hl1, hl2, rfl, rfl⟩, rfl, rfl, g1⟩ := (h1 _ _ _ _ _).1 g0
    obtain ⟨side, w2, s2, _, caps2, hw2, ⟨hside, rfl⟩, rfl, rfl, g2⟩ := (h2 _ _ _ _ _).1 g1
    obtain ⟨castle, w3, s3, _, caps3, hw3, ⟨hcastle, rfl⟩, rfl, rfl, g3⟩ := (h3 _ _ _ _ _).1 g2
    obtain ⟨ep, w4, s4, _, caps4, hw4, ⟨hep, rfl⟩, rfl, rfl, g4⟩ := (h4 _ _ _ _ _).1 g3
    obtain ⟨half, w5, s5, _, caps5, hw5, ⟨hh1, hh2, rfl⟩, rfl, rfl, g5⟩ := (h5 _ _ _ _ _).1 g4
    obtain ⟨full, _, _, _, rfl, rfl, hfull, he⟩ := M_cat.1 g5
    obtain ⟨hf1, hf2, rfl⟩ := (M_fenCounterGroup 8).1 hfull
    obtain ⟨rfl, rfl, rfl⟩ := M_eol.1 he
    refine ⟨rfl, rfl, segs, last, side, castle, ep, half, full, w1, w2, w3, w4, w5,
      ⟨hl, hs, hl1, hl2, hside, hcastle, hep, hh1, hh2, hf1, hf2⟩, hw1, hw2, hw3, hw4, hw5, ?_, ?_⟩
    · simp only [List.nil_append, List.append_nil]
    · simp only [List.nil_append, List.append_nil, fenEvents]
  · rintro ⟨rfl, rfl, segs, last, side, castle, ep, half, full, w1, w2, w3, w4, w5, ht, hw1, hw2, hw3, hw4, hw5, rfl, rfl⟩
    refine ⟨[], _, [], _, (List.nil_append _).symm, (List.nil_append _).symm, M_bol.2 ⟨rfl, rfl, rfl⟩, ?_⟩
    refine (h1 _ _ _ _ _).2 ⟨_, w1, _, _, _, hw1, ⟨segs, last, ht.segs_len, ht.segs_ok, ht.last_ne, ht.last_ok, rfl, rfl⟩, rfl, rfl, ?_⟩
    refine (h2 _ _ _ _ _).2 ⟨side, w2, _, _, _, hw2, ⟨ht.side_ok, rfl⟩, rfl, rfl, ?_⟩
    refine (h3 _ _ _ _ _).2 ⟨castle, w3, _, _, _, hw3, ⟨ht.castle_ok, rfl⟩, rfl, rfl, ?_⟩
    refine (h4 _ _ _ _ _).2 ⟨ep, w4, _, _, _, hw4, ⟨ht.ep_ok, rfl⟩, rfl, rfl, ?_⟩
    refine (h5 _ _ _ _ _).2 ⟨half, w5, _, _, _, hw5, ⟨ht.half_ne, ht.half_ok, rfl⟩, rfl, rfl, ?_⟩
    refine M_cat.2 ⟨full, [], [(8, full)], [], (List.append_nil _).symm, (List.append_nil _).symm,
      (M_fenCounterGroup 8).2 ⟨ht.full_ne, ht.full_ok, rfl⟩, M_eol.2 ⟨rfl, rfl, rfl⟩⟩

/-! ## `splitFields`: six fields ⇔ five single separators between six separator-free fields -/

def NoSpace (f : List Char) : Prop := ∀ c ∈ f, isRegexSpace c = false

theorem splitFields_six' (f1 f2 f3 f4 f5 f6 : List Char) (w1 w2 w3 w4 w5 : Char)
    (hw1 : isRegexSpace w1 = true) (hw2 : isRegexSpace w2 = true) (hw3 : isRegexSpace w3 = true)
    (hw4 : isRegexSpace w4 = true) (hw5 : isRegexSpace w5 = true)
    (h1 : NoSpace f1) (h2 : NoSpace f2) (h3 : NoSpace f3) (h4 : NoSpace f4) (h5 : NoSpace f5) (h6 : NoSpace f6) :
    splitFields (f1 ++ w1 :: (f2 ++ w2 :: (f3 ++ w3 :: (f4 ++ w4 :: (f5 ++ w5 :: f6))))) =
      [f1, f2, f3, f4, f5, f6] := by
  unfold splitFields
  rw [FenL.go_field _ _ _ _ hw1 h1, FenL.go_field _ _ _ _ hw2 h2, FenL.go_field _ _ _ _ hw3 h3,
    FenL.go_field _ _ _ _ hw4 h4, FenL.go_field _ _ _ _ hw5 h5, FenL.go_nospace _ _ h6]
  simp

theorem go_ne_nil (cs cur : List Char) : splitFields.go cs cur ≠ [] := by
  induction cs generalizing cur with
  | nil => simp [splitFields.go]
  | cons x t ih =>
    rw [splitFields.go]
    split
    · simp
    · exact ih _

theorem go_cons_inv (cs : List Char) : ∀ (cur f : List Char) (rest : List (List Char)),
    splitFields.go cs cur = f :: rest →
    (rest = [] ∧ f = cur.reverse ++ cs ∧ NoSpace cs) ∨
    (∃ a w cs', cs = a ++ w :: cs' ∧ isRegexSpace w = true ∧ NoSpace a ∧ f = cur.reverse ++ a ∧
      splitFields.go cs' [] = rest) := by
  induction cs with
  | nil =>
    intro cur f rest h
    simp only [splitFields.go, List.cons.injEq] at h
    exact .inl ⟨h.2.symm, by simp [h.1], by intro c hc; simp at hc⟩
  | cons x t ih =>
    intro cur f rest h
    rw [splitFields.go] at h
    by_cases hx : isRegexSpace x = true
    · rw [if_pos hx] at h
      simp only [List.cons.injEq] at h
      exact .inr ⟨[], x, t, rfl, hx, by intro c hc; simp at hc, by simp [h.1], h.2⟩
    · rw [if_neg hx] at h
      have hx' : isRegexSpace x = false := by simpa using hx
      rcases ih _ _ _ h with ⟨h1, h2, h3⟩ | ⟨a, w, cs', h1, h2, h3, h4, h5⟩
      · refine .inl ⟨h1, by simp [h2], ?_⟩
        intro c hc
        rcases List.mem_cons.1 hc with rfl | hc
        · exact hx'
        · exact h3 c hc
      · refine .inr ⟨x :: a, w, cs', by simp [h1], h2, ?_, by simp [h4], h5⟩
        intro c hc
        rcases List.mem_cons.1 hc with rfl | hc
        · exact hx'
        · exact h3 c hc

theorem splitFields_six_inv (cs f1 f2 f3 f4 f5 f6 : List Char) (h : splitFields cs = [f1, f2, f3, f4, f5, f6]) :
    ∃ w1 w2 w3 w4 w5, isRegexSpace w1 = true ∧ isRegexSpace w2 = true ∧ isRegexSpace w3 = true ∧
      isRegexSpace w4 = true ∧ isRegexSpace w5 = true ∧
      NoSpace f1 ∧ NoSpace f2 ∧ NoSpace f3 ∧ NoSpace f4 ∧ NoSpace f5 ∧ NoSpace f6 ∧
      cs = f1 ++ w1 :: (f2 ++ w2 :: (f3 ++ w3 :: (f4 ++ w4 :: (f5 ++ w5 :: f6)))) := by
  unfold splitFields at h
  have step : ∀ (cs f : List Char) (g : List Char) (rest : List (List Char)), splitFields.go cs [] = f :: g :: rest →
      ∃ w cs', cs = f ++ w :: cs' ∧ isRegexSpace w = true ∧ NoSpace f ∧ splitFields.go cs' [] = g :: rest := by
    intro cs f g rest h
    rcases go_cons_inv cs _ _ _ h with ⟨h1, -, -⟩ | ⟨a, w, cs', h1, h2, h3, h4, h5⟩
    · cases h1
    · simp only [List.reverse_nil, List.nil_append] at h4
      subst h4
      exact ⟨w, cs', h1, h2, h3, h5⟩
  obtain ⟨w1, c1, rfl, hw1, n1, h⟩ := step _ _ _ _ h
  obtain ⟨w2, c2, rfl, hw2, n2, h⟩ := step _ _ _ _ h
  obtain ⟨w3, c3, rfl, hw3, n3, h⟩ := step _ _ _ _ h
  obtain ⟨w4, c4, rfl, hw4, n4, h⟩ := step _ _ _ _ h
  obtain ⟨w5, c5, rfl, hw5, n5, h⟩ := step _ _ _ _ h
  rcases go_cons_inv c5 _ _ _ h with ⟨-, h2, h3⟩ | ⟨a, w, cs', -, -, -, -, h5⟩
  · simp only [List.reverse_nil, List.nil_append] at h2
    subst h2
    exact ⟨w1, w2, w3, w4, w5, hw1, hw2, hw3, hw4, hw5, n1, n2, n3, n4, n5, h3, rfl⟩
  · exact absurd h5 (go_ne_nil _ _)

/-! ## the board field: eight non-empty `/`-separated segments -/

theorem joinSep_cons (sep : Char) (a : List Char) (segs : List (List Char)) :
    joinSep sep (a :: segs) = a ++ sep :: joinSep sep segs := by simp [joinSep]

theorem splitOn_joinSep (segs : List (List Char)) (last : List Char) (hs : ∀ seg ∈ segs, '/' ∉ seg)
    (hl : '/' ∉ last) : (joinSep '/' segs ++ last).splitOn '/' = segs ++ [last] := by
  induction segs with
  | nil => simpa [joinSep] using List.splitOn_eq_singleton hl
  | cons a segs ih =>
    rw [joinSep_cons, List.append_assoc, List.cons_append,
      List.splitOn_append_cons_self_of_not_mem (hs a List.mem_cons_self),
      ih (fun seg h => hs seg (List.mem_cons_of_mem _ h))]
    rfl

theorem intercalate_concat (sep : Char) (segs : List (List Char)) (last : List Char) :
    [sep].intercalate (segs ++ [last]) = joinSep sep segs ++ last := by
  induction segs with
  | nil => simp [joinSep]
  | cons a segs ih =>
    cases segs with
    | nil => simp [joinSep]
    | cons b segs =>
      rw [List.cons_append, List.cons_append, List.intercalate_cons_cons, ← List.cons_append, ih, joinSep_cons]
      simp [joinSep_cons]

theorem not_mem_slash_of_board {seg : List Char} (h : seg.all isBoardChar = true) : '/' ∉ seg := by
  intro hm
  have := List.all_eq_true.1 h _ hm
  exact absurd this (by decide)

/-- segments of the board field -/
structure BoardText (segs : List (List Char)) (last : List Char) : Prop where
  segs_len : segs.length = 7
  segs_ok : ∀ seg ∈ segs, seg ≠ [] ∧ seg.all isBoardChar = true
  last_ne : last ≠ []
  last_ok : last.all isBoardChar = true

theorem BoardText.splitOn {segs : List (List Char)} {last : List Char} (h : BoardText segs last) :
    (joinSep '/' segs ++ last).splitOn '/' = segs ++ [last] :=
  splitOn_joinSep segs last (fun seg hs => not_mem_slash_of_board (h.segs_ok seg hs).2) (not_mem_slash_of_board h.last_ok)

theorem isEmpty_eq_false_iff {α} (l : List α) : l.isEmpty = false ↔ l ≠ [] := by
  cases l <;> simp

theorem boardFieldOk_iff (b : List Char) :
    boardFieldOk b = true ↔ ∃ segs last, BoardText segs last ∧ b = joinSep '/' segs ++ last := by
  constructor
  · intro h
    simp only [boardFieldOk, Bool.and_eq_true, beq_iff_eq, List.all_eq_true, Bool.not_eq_true',
      isEmpty_eq_false_iff] at h
    obtain ⟨hlen, hall⟩ := h
    have hne : b.splitOn '/' ≠ [] := List.splitOn_ne_nil _ _
    have hL := List.dropLast_concat_getLast hne
    refine ⟨(b.splitOn '/').dropLast, (b.splitOn '/').getLast hne, ⟨?_, ?_, ?_, ?_⟩, ?_⟩
    · rw [List.length_dropLast, hlen]
    · intro seg hs
      have := hall seg (List.dropLast_subset _ hs)
      exact ⟨this.1, List.all_eq_true.2 this.2⟩
    · exact (hall _ (List.getLast_mem hne)).1
    · exact List.all_eq_true.2 (hall _ (List.getLast_mem hne)).2
    · rw [← intercalate_concat, hL, List.intercalate_splitOn]
  · rintro ⟨segs, last, ht, rfl⟩
    simp only [boardFieldOk, ht.splitOn, Bool.and_eq_true, beq_iff_eq, List.all_eq_true, Bool.not_eq_true',
      isEmpty_eq_false_iff]
    refine ⟨by simp [ht.segs_len], ?_⟩
    intro seg hs
    rcases List.mem_append.1 hs with hs | hs
    · have := ht.segs_ok seg hs
      exact ⟨this.1, List.all_eq_true.1 this.2⟩
    · have : seg = last := by simpa using hs
      subst this
      exact ⟨ht.last_ne, List.all_eq_true.1 ht.last_ok⟩

/-- the text of group 2 as a function of the board field: everything up to and including the last `/` -/
def ranksOf (b : List Char) : List Char := joinSep '/' (b.splitOn '/').dropLast

theorem BoardText.ranksOf {segs : List (List Char)} {last : List Char} (h : BoardText segs last) :
    Spec.ranksOf (joinSep '/' segs ++ last) = joinSep '/' segs := by
  rw [Spec.ranksOf, h.splitOn, List.dropLast_concat]

/-! ## the capture groups as a function of the text -/

/-- the texts of groups 1, 3, 4, 6, 7, 8 -/
structure FenGroups where
  board : List Char
  side : List Char
  castle : List Char
  ep : List Char
  half : List Char
  full : List Char
deriving DecidableEq, Repr

/-- a decision procedure for `fenAst`: split at every white-space character into exactly six fields and check each
field against its group -/
def fenCaptures (nd : Char → Bool) (cs : List Char) : Option FenGroups :=
  match splitFields cs with
  | [board, side, castle, ep, half, full] =>
    if boardFieldOk board && FenL.sideOk side && FenL.castleOk castle && FenL.epOk ep &&
        (!half.isEmpty && half.all nd) && (!full.isEmpty && full.all nd)
    then some ⟨board, side, castle, ep, half, full⟩ else none
  | _ => none

/-- the capture events of the (unique) match with these fields -/
def FenGroups.events (G : FenGroups) : Caps :=
  fenEvents G.board (ranksOf G.board) G.side G.castle G.ep G.half G.full

/-- all nine groups of the (unique) match -/
def FenGroups.groups (cs : List Char) (G : FenGroups) : Nat → Option (List Char)
  | 0 => some cs
  | 1 => some G.board
  | 2 => some (ranksOf G.board)
  | 3 => some G.side
  | 4 => some G.castle
  | 5 => if G.castle = ['-'] then none else some G.castle
  | 6 => some G.ep
  | 7 => some G.half
  | 8 => some G.full
  | _ => none

theorem groupOf_events (cs : List Char) (G : FenGroups) : groupOf ((0, cs) :: G.events) = G.groups cs := by
  funext i
  by_cases hc : G.castle = ['-']
  · match i with
    | 0 | 1 | 2 | 3 | 4 | 5 | 6 | 7 | 8 => simp [groupOf, FenGroups.events, fenEvents, FenGroups.groups, hc]
    | n + 9 => simp [groupOf, FenGroups.events, fenEvents, FenGroups.groups, hc]
  · match i with
    | 0 | 1 | 2 | 3 | 4 | 5 | 6 | 7 | 8 => simp [groupOf, FenGroups.events, fenEvents, FenGroups.groups, hc]
    | n + 9 => simp [groupOf, FenGroups.events, fenEvents, FenGroups.groups, hc]

/-! ### no field contains a separator -/

theorem noSpace_board {segs : List (List Char)} {last : List Char} (h : BoardText segs last) :
    NoSpace (joinSep '/' segs ++ last) := by
  intro c hc
  have hb : ∀ seg : List Char, seg.all isBoardChar = true → ∀ c ∈ seg, isRegexSpace c = false :=
    fun seg hs c hc => (FenL.isBoardChar_props c (List.all_eq_true.1 hs c hc)).2
  rcases List.mem_append.1 hc with hc | hc
  · simp only [joinSep, List.mem_flatten, List.mem_map] at hc
    obtain ⟨l, ⟨seg, hseg, rfl⟩, hc⟩ := hc
    rcases List.mem_append.1 hc with hc | hc
    · exact hb seg (h.segs_ok seg hseg).2 c hc
    · have : c = '/' := by simpa using hc
      subst this; decide
  · exact hb last h.last_ok c hc

theorem noSpace_side {side : List Char} (h : FenL.sideOk side = true) : NoSpace side := by
  intro c hc
  simp only [FenL.sideOk, Bool.and_eq_true, List.all_eq_true, Bool.or_eq_true, beq_iff_eq] at h
  rcases h.2 c hc with (rfl | rfl) | rfl <;> decide

theorem noSpace_castle {castle : List Char} (h : FenL.castleOk castle = true) : NoSpace castle := by
  intro c hc
  simp only [FenL.castleOk, Bool.or_eq_true, beq_iff_eq, Bool.and_eq_true, List.all_eq_true, List.contains_eq_mem,
    decide_eq_true_eq] at h
  rcases h with rfl | ⟨-, h⟩
  · have : c = '-' := by simpa using hc
    subst this; decide
  · have : ∀ x ∈ "K|Qkq".toList, isRegexSpace x = false := by decide
    exact this c (h c hc)

theorem noSpace_ep {ep : List Char} (h : FenL.epOk ep = true) : NoSpace ep := by
  intro c hc
  simp only [FenL.epOk, Bool.or_eq_true, beq_iff_eq] at h
  rcases h with rfl | h
  · have : c = '-' := by simpa using hc
    subst this; decide
  · match ep, h with
    | [f, r], h =>
      simp only [Bool.and_eq_true, decide_eq_true_eq, FenL.char_le_iff, Char.reduceToNat] at h
      have hc' : c = f ∨ c = r := by simpa using hc
      simp only [isRegexSpace]
      rcases hc' with rfl | rfl <;> simp <;> omega

theorem noSpace_digits {nd : Char → Bool} (hnd : ∀ c, nd c = true → isWhiteSpace c = false) {f : List Char}
    (h : f.all nd = true) : NoSpace f := by
  intro c hc
  rw [← isWhiteSpace_eq]
  exact hnd c (List.all_eq_true.1 h c hc)

/-! ### `fenCaptures` decides `fenAst` -/

theorem FenText.board {nd : Char → Bool} {segs : List (List Char)} {last side castle ep half full : List Char}
    (h : FenText nd segs last side castle ep half full) : BoardText segs last :=
  ⟨h.segs_len, h.segs_ok, h.last_ne, h.last_ok⟩

theorem fenCaptures_eq_some_iff {nd : Char → Bool} (hnd : ∀ c, nd c = true → isWhiteSpace c = false)
    (cs : List Char) (G : FenGroups) :
    fenCaptures nd cs = some G ↔
      ∃ segs last w1 w2 w3 w4 w5, FenText nd segs last G.side G.castle G.ep G.half G.full ∧
        isWhiteSpace w1 = true ∧ isWhiteSpace w2 = true ∧ isWhiteSpace w3 = true ∧ isWhiteSpace w4 = true ∧
        isWhiteSpace w5 = true ∧ G.board = joinSep '/' segs ++ last ∧
        cs = G.board ++ w1 :: (G.side ++ w2 :: (G.castle ++ w3 :: (G.ep ++ w4 :: (G.half ++ w5 :: G.full)))) := by
  constructor
  · intro h
    unfold fenCaptures at h
    split at h
    · rename_i board side castle ep half full hsplit
      split at h
      · rename_i hg
        cases h
        simp only [Bool.and_eq_true, Bool.not_eq_true', isEmpty_eq_false_iff] at hg
        obtain ⟨⟨⟨⟨⟨hb, hs⟩, hc⟩, he⟩, hh1, hh2⟩, hf1, hf2⟩ := hg
        obtain ⟨w1, w2, w3, w4, w5, hw1, hw2, hw3, hw4, hw5, -, -, -, -, -, -, hcs⟩ :=
          splitFields_six_inv cs _ _ _ _ _ _ hsplit
        obtain ⟨segs, last, hbt, hbe⟩ := (boardFieldOk_iff board).1 hb
        simp only [← isWhiteSpace_eq] at hw1 hw2 hw3 hw4 hw5
        exact ⟨segs, last, w1, w2, w3, w4, w5,
          ⟨hbt.segs_len, hbt.segs_ok, hbt.last_ne, hbt.last_ok, hs, hc, he, hh1, hh2, hf1, hf2⟩,
          hw1, hw2, hw3, hw4, hw5, hbe, hcs⟩
      · cases h
    · cases h
  · rintro ⟨segs, last, w1, w2, w3, w4, w5, ht, hw1, hw2, hw3, hw4, hw5, hb, hcs⟩
    obtain ⟨board, side, castle, ep, half, full⟩ := G
    simp only at ht hb hcs
    simp only [isWhiteSpace_eq] at hw1 hw2 hw3 hw4 hw5
    have hsplit : splitFields cs = [board, side, castle, ep, half, full] := by
      rw [hcs]
      exact splitFields_six' _ _ _ _ _ _ _ _ _ _ _ hw1 hw2 hw3 hw4 hw5 (hb ▸ noSpace_board ht.board)
        (noSpace_side ht.side_ok) (noSpace_castle ht.castle_ok) (noSpace_ep ht.ep_ok)
        (noSpace_digits hnd ht.half_ok) (noSpace_digits hnd ht.full_ok)
    have hbo : boardFieldOk board = true := (boardFieldOk_iff board).2 ⟨segs, last, ht.board, hb⟩
    unfold fenCaptures
    rw [hsplit]
    simp only
    rw [if_pos]
    simp only [Bool.and_eq_true, Bool.not_eq_true', isEmpty_eq_false_iff]
    exact ⟨⟨⟨⟨⟨hbo, ht.side_ok⟩, ht.castle_ok⟩, ht.ep_ok⟩, ht.half_ne, ht.half_ok⟩, ht.full_ne, ht.full_ok⟩

/-- **the matches of `fenAst`**: a text is matched in at most one way, exactly when `fenCaptures` accepts it, and
then the capture events are those computed from the six fields -/
theorem M_fenAst_iff_captures {nd : Char → Bool} (hnd : ∀ c, nd c = true → isWhiteSpace c = false)
    {caps : Caps} : M (unicode nd) fenAst pre s post caps ↔
      pre = [] ∧ post = [] ∧ ∃ G, fenCaptures nd s = some G ∧ caps = G.events := by
  rw [M_fenAst]
  constructor
  · rintro ⟨rfl, rfl, segs, last, side, castle, ep, half, full, w1, w2, w3, w4, w5, ht, hw1, hw2, hw3, hw4, hw5, rfl, rfl⟩
    refine ⟨rfl, rfl, ⟨joinSep '/' segs ++ last, side, castle, ep, half, full⟩, ?_, ?_⟩
    · exact (fenCaptures_eq_some_iff hnd _ _).2 ⟨segs, last, w1, w2, w3, w4, w5, ht, hw1, hw2, hw3, hw4, hw5, rfl, rfl⟩
    · simp only [FenGroups.events, ht.board.ranksOf]
  · rintro ⟨rfl, rfl, G, hG, rfl⟩
    obtain ⟨segs, last, w1, w2, w3, w4, w5, ht, hw1, hw2, hw3, hw4, hw5, hb, hcs⟩ :=
      (fenCaptures_eq_some_iff hnd _ _).1 hG
    refine ⟨rfl, rfl, segs, last, G.side, G.castle, G.ep, G.half, G.full, w1, w2, w3, w4, w5, ht,
      hw1, hw2, hw3, hw4, hw5, ?_, ?_⟩
    · rw [← hb]; exact hcs
    · rw [FenGroups.events, hb, ht.board.ranksOf]

/-- what `Regex::captures` can return for `FEN_REGEX`: nothing else than the groups computed by `fenCaptures` -/
theorem captures_fenAst_iff {nd : Char → Bool} (hnd : ∀ c, nd c = true → isWhiteSpace c = false)
    (cs : List Char) (g : Nat → Option (List Char)) :
    Captures (unicode nd) fenAst cs g ↔ ∃ G, fenCaptures nd cs = some G ∧ g = G.groups cs := by
  constructor
  · rintro ⟨pre, s, post, caps, rfl, hm, rfl⟩
    obtain ⟨rfl, rfl, G, hG, rfl⟩ := (M_fenAst_iff_captures hnd).1 hm
    simp only [List.nil_append, List.append_nil]
    exact ⟨G, hG, groupOf_events s G⟩
  · rintro ⟨G, hG, rfl⟩
    exact ⟨[], cs, [], G.events, by simp, (M_fenAst_iff_captures hnd).2 ⟨rfl, rfl, G, hG, rfl⟩,
      (groupOf_events cs G).symm⟩

/-- for a pattern with unique matches the choice in `reCaptures` is no choice -/
theorem reCaptures_fenAst {nd : Char → Bool} (hnd : ∀ c, nd c = true → isWhiteSpace c = false) (cs : List Char) :
    reCaptures (unicode nd) fenAst cs = (fenCaptures nd cs).map (·.groups cs) := by
  cases hG : fenCaptures nd cs with
  | none =>
    rw [Option.map_none, reCaptures_none]
    rintro ⟨g, hg⟩
    obtain ⟨G, hG', -⟩ := (captures_fenAst_iff hnd cs g).1 hg
    rw [hG] at hG'; cases hG'
  | some G =>
    cases hr : reCaptures (unicode nd) fenAst cs with
    | none =>
      exact absurd ⟨_, (captures_fenAst_iff hnd cs _).2 ⟨G, hG, rfl⟩⟩ (reCaptures_none.1 hr)
    | some g =>
      obtain ⟨G', hG', rfl⟩ := (captures_fenAst_iff hnd cs g).1 (reCaptures_some hr)
      rw [hG] at hG'; cases hG'; rfl

end Wee.Spec

/-! ## the hand-written recogniser, cut at its gate -/
namespace Wee
open Wee.Spec

/-- the part of `parseFenChars` after the gate (verbatim) -/
def afterGate (checked : Bool) (board side castle ep half full : List Char) : Res State :=
  match parseBoardCells checked board 0 (List.replicate 64 Option.none) with
  | .panic => .panic
  | .err => .err
  | .ok cells =>
    match side with
    | ['w'] | ['b'] =>
      let turn := if side == ['w'] then Color.white else Color.black
      let rights := if castle == ['-'] then some (CastleRights.noRights, CastleRights.noRights) else parseCastle castle
      match rights with
      | Option.none => .err
      | some (cw, cb) =>
        let epv : Option Nat := match ep with
          | [f, r] => some (mkSq (r.toNat - '1'.toNat) (f.toNat - 'a'.toNat))
          | _ => Option.none
        match parseUsize half, parseUsize full with
        | some h, some f =>
          .ok { pieces := piecesOfCells cells, turn, castleW := cw, castleB := cb, ep := epv, halfmove := h, fullmove := f }
        | _, _ => .err
    | _ => .err

/-- the gate of `parseFenChars` -/
def gateOk (board side castle ep half full : List Char) : Bool :=
  boardFieldOk board && FenL.sideOk side && FenL.castleOk castle && FenL.epOk ep && !half.isEmpty && !full.isEmpty

theorem parseFenChars_six (checked : Bool) (cs board side castle ep half full : List Char)
    (hsplit : splitFields cs = [board, side, castle, ep, half, full]) :
    parseFenChars checked cs =
      if !gateOk board side castle ep half full then .err else afterGate checked board side castle ep half full := by
  unfold parseFenChars
  rw [hsplit]
  rfl

theorem parseFenChars_not_six (checked : Bool) (cs : List Char)
    (h : ∀ board side castle ep half full, splitFields cs ≠ [board, side, castle, ep, half, full]) :
    parseFenChars checked cs = .err := by
  unfold parseFenChars
  split
  · rename_i hs; exact absurd hs (h _ _ _ _ _ _)
  · rfl

theorem foldl_usizeStep_none (l : List Char) : l.foldl FenL.usizeStep Option.none = Option.none := by
  induction l with
  | nil => rfl
  | cons c t ih => rw [List.foldl_cons]; exact ih

theorem foldl_usizeStep_some (l : List Char) : ∀ (acc : Option Nat) (v : Nat),
    l.foldl FenL.usizeStep acc = some v → ∀ c ∈ l, c.isDigit = true := by
  induction l with
  | nil => intro _ _ _ c hc; simp at hc
  | cons x t ih =>
    intro acc v h c hc
    rw [List.foldl_cons] at h
    rcases List.mem_cons.1 hc with rfl | hc
    · cases acc with
      | none => rw [show FenL.usizeStep Option.none c = Option.none from rfl, foldl_usizeStep_none] at h; cases h
      | some a =>
        by_cases hd : c.isDigit = true
        · exact hd
        · rw [show FenL.usizeStep (some a) c = Option.none by simp [FenL.usizeStep, hd], foldl_usizeStep_none] at h
          cases h
    · exact ih _ _ h c hc

/-- `str::parse::<usize>` (as modelled) accepts only ASCII digits -/
theorem parseUsize_some_digits (cs : List Char) (v : Nat) (h : parseUsize cs = some v) :
    cs ≠ [] ∧ cs.all Char.isDigit = true := by
  rw [FenL.parseUsize_eq] at h
  split at h
  · cases h
  · rename_i he
    exact ⟨by intro h; subst h; simp at he, List.all_eq_true.2 (foldl_usizeStep_some cs _ v h)⟩

theorem afterGate_ne_panic (checked : Bool) (board side castle ep half full : List Char) :
    afterGate checked board side castle ep half full ≠ .panic := by
  have hb := parseBoardCells_ne_panic' checked board 0 (List.replicate 64 Option.none)
  unfold afterGate
  dsimp only
  repeat' split
  all_goals first | (simp; done) | (rename_i h; exact absurd h hb) | simp_all

theorem afterGate_err_of_counter (checked : Bool) (board side castle ep half full : List Char)
    (h : parseUsize half = Option.none ∨ parseUsize full = Option.none) :
    afterGate checked board side castle ep half full = .err := by
  have hb := parseBoardCells_ne_panic' checked board 0 (List.replicate 64 Option.none)
  unfold afterGate
  dsimp only
  repeat' split
  all_goals first | rfl | (rename_i h; exact absurd h hb) | (exfalso; simp_all)

/-! ### `Square::try_from(&str)` on the texts of group 6 -/

set_option maxRecDepth 1000000 in
theorem parseSquare_table : ∀ f ∈ ['a','b','c','d','e','f','g','h'], ∀ r ∈ ['1','2','3','4','5','6','7','8'],
    parseSquare [f, r] = some (mkSq (r.toNat - '1'.toNat) (f.toNat - 'a'.toNat)) := by decide +kernel

theorem parseSquare_of_ranges (f r : Char) (hf1 : 'a' ≤ f) (hf2 : f ≤ 'h') (hr1 : '1' ≤ r) (hr2 : r ≤ '8') :
    parseSquare [f, r] = some (mkSq (r.toNat - '1'.toNat) (f.toNat - 'a'.toNat)) := by
  apply parseSquare_table
  · simp only [FenL.char_le_iff, Char.reduceToNat] at hf1 hf2
    simp only [List.mem_cons, List.not_mem_nil, or_false, char_eq_iff_toNat, Char.reduceToNat]
    omega
  · simp only [FenL.char_le_iff, Char.reduceToNat] at hr1 hr2
    simp only [List.mem_cons, List.not_mem_nil, or_false, char_eq_iff_toNat, Char.reduceToNat]
    omega

/-- on the texts matched by `(-|[a-h][1-8])` other than `-`, `Square::try_from` is `Ok` and gives the square the
recogniser computes -/
theorem parseSquare_of_epOk (ep : List Char) (h : FenL.epOk ep = true) (hd : ep ≠ ['-']) :
    parseSquare ep = FenL.epOf ep ∧ (FenL.epOf ep).isSome = true := by
  simp only [FenL.epOk, Bool.or_eq_true, beq_iff_eq] at h
  rcases h with h | h
  · exact absurd h hd
  · match ep, h with
    | [f, r], h =>
      simp only [Bool.and_eq_true, decide_eq_true_eq] at h
      rw [parseSquare_of_ranges f r h.1.1.1 h.1.1.2 h.1.2 h.2]
      exact ⟨rfl, rfl⟩

/-! ### recogniser and `fenCaptures` -/

theorem counter_none_of_not_nd {nd : Char → Bool} (hascii : ∀ c, c.isDigit = true → nd c = true)
    (f : List Char) (h : f.all nd = false) : parseUsize f = Option.none := by
  cases hp : parseUsize f with
  | none => rfl
  | some v =>
    have := (parseUsize_some_digits f v hp).2
    have : f.all nd = true := List.all_eq_true.2 fun c hc => hascii c (List.all_eq_true.1 this c hc)
    rw [this] at h; cases h

/-- the recogniser rejects whatever `fenCaptures` rejects -/
theorem parseFenChars_of_fenCaptures_none {nd : Char → Bool} (hascii : ∀ c, c.isDigit = true → nd c = true)
    (checked : Bool) (cs : List Char) (hG : fenCaptures nd cs = Option.none) : parseFenChars checked cs = .err := by
  unfold fenCaptures at hG
  split at hG
  · rename_i board side castle ep half full hsplit
    rw [parseFenChars_six checked cs _ _ _ _ _ _ hsplit]
    split at hG
    · cases hG
    · rename_i hg
      by_cases gate : gateOk board side castle ep half full = true
      · rw [gate]
        simp only [Bool.not_true, Bool.false_eq_true, if_false]
        apply afterGate_err_of_counter
        simp only [gateOk, Bool.and_eq_true] at gate
        obtain ⟨⟨⟨⟨⟨hb, hs⟩, hc⟩, he⟩, hh⟩, hf⟩ := gate
        by_cases h1 : half.all nd = true
        · by_cases h2 : full.all nd = true
          · exact absurd (by simp [hb, hs, hc, he, hh, hf, h1, h2]) hg
          · exact .inr (counter_none_of_not_nd hascii full (by simpa using h2))
        · exact .inl (counter_none_of_not_nd hascii half (by simpa using h1))
      · have : gateOk board side castle ep half full = false := by simpa using gate
        rw [this]; rfl
  · rename_i hn
    exact parseFenChars_not_six checked cs (fun _ _ _ _ _ _ h => hn _ _ _ _ _ _ h)

/-- on what `fenCaptures` accepts, the recogniser continues with the part after its gate -/
theorem parseFenChars_of_fenCaptures_some {nd : Char → Bool} (checked : Bool) (cs : List Char) (G : FenGroups)
    (hG : fenCaptures nd cs = some G) :
    parseFenChars checked cs = afterGate checked G.board G.side G.castle G.ep G.half G.full ∧
      FenL.sideOk G.side = true ∧ FenL.castleOk G.castle = true ∧ FenL.epOk G.ep = true := by
  unfold fenCaptures at hG
  split at hG
  · rename_i board side castle ep half full hsplit
    split at hG
    · rename_i hg
      cases hG
      simp only [Bool.and_eq_true] at hg
      obtain ⟨⟨⟨⟨⟨hb, hs⟩, hc⟩, he⟩, hh, -⟩, hf, -⟩ := hg
      refine ⟨?_, hs, hc, he⟩
      rw [parseFenChars_six checked cs _ _ _ _ _ _ hsplit]
      have : gateOk board side castle ep half full = true := by simp [gateOk, hb, hs, hc, he, hh, hf]
      rw [this]; rfl
    · cases hG
  · cases hG
end Wee
