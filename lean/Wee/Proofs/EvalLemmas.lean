import Wee.Model.Eval
import Wee.Proofs.ClampLemmas
import Wee.Proofs.BitLemmas
/-!
# Lemmas about the soft-float model and the evaluator (used by C13 and C05)

Part 1 (`Wee.F32`): oddness of every soft-float operation (`round32 (-q) = - round32 q` …), the
specification of `ilog2`, and the *integer-bound* lemma: if `|q| ≤ N` for an integer `N < 2^24`
then `|round32 q| ≤ N` (rounding to 24 significant bits never crosses a representable integer).
Part 2 (`Wee.Ev`): `mulF` is odd and bounded.
-/
namespace Wee.F32

/-! ## oddness -/

-- `round32_neg` now lives in `Wee/Model/F32.lean` (it is needed by the `@[csimp]` fast path there)

theorem mul_neg_left (a b : Rat) : mul (-a) b = - mul a b := by
  unfold mul; rw [Rat.neg_mul, round32_neg]

theorem mul_neg_right (a b : Rat) : mul a (-b) = - mul a b := by
  unfold mul; rw [Rat.mul_neg, round32_neg]

theorem ofInt_neg (i : Int) : ofInt (-i) = - ofInt i := by
  unfold ofInt; rw [Rat.intCast_neg, round32_neg]

/-- truncation toward zero (the unsaturated part of `as i32`) -/
def trunc (q : Rat) : Int := if q ≥ 0 then q.floor else - (-q).floor

theorem toI32_def (q : Rat) : toI32 q =
    if trunc q > 2147483647 then 2147483647 else if trunc q < -2147483648 then -2147483648 else trunc q := rfl

theorem trunc_neg (q : Rat) : trunc (-q) = - trunc q := by
  unfold trunc
  by_cases h0 : q = 0
  · subst h0; simp [Rat.floor_def]
  · by_cases hq : q ≥ 0
    · have hn : ¬ (-q ≥ 0) := by grind
      simp [hq, hn, Rat.neg_neg]
    · have hn : -q ≥ 0 := by grind
      simp [hq, hn]

/-- `0 ≤ q ≤ N` (integer `N`) ⇒ `0 ≤ trunc q ≤ N` -/
theorem trunc_bounds_nonneg {q : Rat} {N : Int} (h0 : 0 ≤ q) (h : q ≤ (N : Rat)) :
    0 ≤ trunc q ∧ trunc q ≤ N := by
  unfold trunc
  simp only [ge_iff_le, h0, if_true]
  constructor
  · exact Rat.le_floor_iff.2 (by simpa using h0)
  · have h1 : q.floor < N + 1 := Rat.floor_lt_iff.2 (by
      have : ((N + 1 : Int) : Rat) = (N : Rat) + 1 := by simp
      rw [this]; grind)
    omega

/-- `|q| ≤ N` ⇒ `|trunc q| ≤ N` -/
theorem trunc_bounds {q : Rat} {N : Int} (hl : -(N : Rat) ≤ q) (hu : q ≤ (N : Rat)) :
    -N ≤ trunc q ∧ trunc q ≤ N := by
  by_cases h0 : 0 ≤ q
  · have := trunc_bounds_nonneg h0 hu; omega
  · have h1 : 0 ≤ -q := by grind
    have h2 : -q ≤ (N : Rat) := by grind
    have := trunc_bounds_nonneg h1 h2
    rw [trunc_neg] at this; omega

theorem toI32_eq_trunc {q : Rat} (h1 : -2147483648 ≤ trunc q) (h2 : trunc q ≤ 2147483647) :
    toI32 q = trunc q := by
  rw [toI32_def]; split
  · omega
  · split
    · omega
    · rfl

/-- `x as i32` is odd on the non-saturating range.  (It is NOT odd in general:
`toI32 (2^31) = 2^31 - 1` but `toI32 (-2^31) = -2^31`.) -/
theorem toI32_neg_of_trunc {q : Rat} (h1 : -2147483647 ≤ trunc q) (h2 : trunc q ≤ 2147483647) :
    toI32 (-q) = - toI32 q := by
  rw [toI32_eq_trunc (by omega) h2, toI32_eq_trunc (by rw [trunc_neg]; omega) (by rw [trunc_neg]; omega),
    trunc_neg]

/-- `toI32 (-q) = - toI32 q` for `|q| ≤ 2^31 - 1`. -/
theorem toI32_neg {q : Rat} (h1 : -2147483647 ≤ q) (h2 : q ≤ 2147483647) :
    toI32 (-q) = - toI32 q := by
  have := trunc_bounds (q := q) (N := 2147483647) (by simpa using h1) (by simpa using h2)
  exact toI32_neg_of_trunc this.1 this.2

/-- `|q| ≤ N < 2^31` ⇒ `|toI32 q| ≤ N` -/
theorem toI32_bounds {q : Rat} {N : Int} (hN : N ≤ 2147483647) (hl : -(N : Rat) ≤ q) (hu : q ≤ (N : Rat)) :
    -N ≤ toI32 q ∧ toI32 q ≤ N := by
  have := trunc_bounds hl hu
  rw [toI32_eq_trunc (by omega) (by omega)]; exact this

/-! ## `pow2`, `ilog2`, rounding never crosses a small integer

The lemmas `pow2_nat … ilog2_spec … rne_cases … roundPos_le … round32_bounds … round32_natCast`,
`round32_intCast` (same names, same namespace `Wee.F32`) now live in `Wee/Model/F32.lean`, because the
proved-equal compiled fast path of `round32` (`@[csimp]`) rests on them. -/


theorem ofInt_exact {i : Int} (h1 : -16777216 < i) (h2 : i < 16777216) : ofInt i = (i : Rat) :=
  round32_intCast h1 h2

/-! ## bounds through integer bounds -/

/-- `|a| ≤ A`, `|b| ≤ B` ⇒ `|a*b| ≤ A*B` -/
theorem mul_abs_bounds {a b A B : Rat} (ha1 : -A ≤ a) (ha2 : a ≤ A) (hb1 : -B ≤ b) (hb2 : b ≤ B) :
    -(A * B) ≤ a * b ∧ a * b ≤ A * B := by
  have hA : 0 ≤ A := by grind
  have hB : 0 ≤ B := by grind
  have p1 := Rat.mul_nonneg (a := A - a) (b := B - b) (by grind) (by grind)
  have p2 := Rat.mul_nonneg (a := A + a) (b := B + b) (by grind) (by grind)
  have p3 := Rat.mul_nonneg (a := A - a) (b := B + b) (by grind) (by grind)
  have p4 := Rat.mul_nonneg (a := A + a) (b := B - b) (by grind) (by grind)
  constructor <;> grind

/-- bound for `mul` through integer bounds -/
theorem mul_bounds {a b : Rat} {A B : Nat} (hAB : A * B < 16777216)
    (ha1 : -(A : Rat) ≤ a) (ha2 : a ≤ (A : Rat)) (hb1 : -(B : Rat) ≤ b) (hb2 : b ≤ (B : Rat)) :
    -((A * B : Nat) : Rat) ≤ mul a b ∧ mul a b ≤ ((A * B : Nat) : Rat) := by
  have := mul_abs_bounds ha1 ha2 hb1 hb2
  unfold mul
  apply round32_bounds hAB <;> rw [Rat.natCast_mul] <;> grind

theorem add_bounds {a b : Rat} {A B : Nat} (hAB : A + B < 16777216)
    (ha1 : -(A : Rat) ≤ a) (ha2 : a ≤ (A : Rat)) (hb1 : -(B : Rat) ≤ b) (hb2 : b ≤ (B : Rat)) :
    -((A + B : Nat) : Rat) ≤ add a b ∧ add a b ≤ ((A + B : Nat) : Rat) := by
  unfold add
  apply round32_bounds hAB <;> rw [Rat.natCast_add] <;> grind

theorem sub_bounds {a b : Rat} {A B : Nat} (hAB : A + B < 16777216)
    (ha1 : -(A : Rat) ≤ a) (ha2 : a ≤ (A : Rat)) (hb1 : -(B : Rat) ≤ b) (hb2 : b ≤ (B : Rat)) :
    -((A + B : Nat) : Rat) ≤ sub a b ∧ sub a b ≤ ((A + B : Nat) : Rat) := by
  unfold sub
  apply round32_bounds hAB <;> rw [Rat.natCast_add] <;> grind

theorem ofInt_bounds {i : Int} {A : Nat} (hA : A < 16777216) (h1 : -(A : Int) ≤ i) (h2 : i ≤ (A : Int)) :
    -(A : Rat) ≤ ofInt i ∧ ofInt i ≤ (A : Rat) := by
  unfold ofInt
  apply round32_bounds hA
  · have := Rat.intCast_le_intCast.2 h1; simpa [Rat.intCast_natCast] using this
  · have := Rat.intCast_le_intCast.2 h2; simpa [Rat.intCast_natCast] using this

/-- division by a positive integer constant, through integer bounds -/
theorem div_bounds {a b : Rat} {A D Q : Nat} (hQ : Q < 16777216) (hD : 0 < D) (hb : b = (D : Rat))
    (hAQ : A ≤ Q * D) (ha1 : -(A : Rat) ≤ a) (ha2 : a ≤ (A : Rat)) :
    -(Q : Rat) ≤ div a b ∧ div a b ≤ (Q : Rat) := by
  unfold div
  have hDp : (0 : Rat) < (D : Rat) := Rat.natCast_pos.2 hD
  have hDi : (0 : Rat) < (D : Rat)⁻¹ := Rat.inv_pos.2 hDp
  have hc : (D : Rat) * (D : Rat)⁻¹ = 1 := Rat.mul_inv_cancel _ (by grind)
  have hA : (A : Rat) ≤ (Q : Rat) * (D : Rat) := by
    have := Rat.natCast_le_natCast.2 hAQ; rwa [Rat.natCast_mul] at this
  have u := Rat.mul_le_mul_of_nonneg_right (c := (D : Rat)⁻¹) (Rat.le_trans ha2 hA) (Rat.le_of_lt hDi)
  have l := Rat.mul_le_mul_of_nonneg_right (c := (D : Rat)⁻¹) (a := -((Q : Rat) * (D : Rat))) (b := a) (by grind) (Rat.le_of_lt hDi)
  rw [Rat.mul_assoc, hc, Rat.mul_one] at u
  rw [Rat.neg_mul, Rat.mul_assoc, hc, Rat.mul_one] at l
  apply round32_bounds hQ <;> rw [hb, Rat.div_def] <;> assumption

end Wee.F32

namespace Wee.Ev
open F32

/-- `|e| ≤ E`, `|w| ≤ W`, `E·W < 2^24` ⇒ `|e * w| ≤ E·W` for `impl Mul<f32> for Evaluation` -/
theorem mulF_bounds {e : Int} {w : Rat} {E W : Nat} (hE : E < 16777216) (hEW : E * W < 16777216)
    (he1 : -(E : Int) ≤ e) (he2 : e ≤ (E : Int)) (hw1 : -(W : Rat) ≤ w) (hw2 : w ≤ (W : Rat)) :
    -((E * W : Nat) : Int) ≤ mulF e w ∧ mulF e w ≤ ((E * W : Nat) : Int) := by
  unfold mulF
  have h1 := ofInt_bounds hE he1 he2
  have h2 := mul_bounds hEW h1.1 h1.2 hw1 hw2
  apply toI32_bounds (by omega)
  · simpa [Rat.intCast_natCast] using h2.1
  · simpa [Rat.intCast_natCast] using h2.2

/-- `Evaluation * f32` is odd in the evaluation on the range used by the evaluator
(`|e| ≤ E`, `|w| ≤ W`, `E < 2^24`, `E·W < 2^24`).  Outside `|e·w| < 2^31` it is false
(`as i32` saturates asymmetrically). -/
theorem mulF_neg {e : Int} {w : Rat} {E W : Nat} (hE : E < 16777216) (hEW : E * W < 16777216)
    (he1 : -(E : Int) ≤ e) (he2 : e ≤ (E : Int)) (hw1 : -(W : Rat) ≤ w) (hw2 : w ≤ (W : Rat)) :
    mulF (-e) w = - mulF e w := by
  unfold mulF
  have h1 := ofInt_bounds hE he1 he2
  have h2 := mul_bounds hEW h1.1 h1.2 hw1 hw2
  rw [ofInt_neg, mul_neg_left]
  have c : ((E * W : Nat) : Rat) ≤ 2147483647 := by
    have : ((E * W : Nat) : Rat) ≤ ((2147483647 : Nat) : Rat) := Rat.natCast_le_natCast.2 (by omega)
    simpa using this
  apply toI32_neg <;> grind

end Wee.Ev

namespace Wee
open Gen

/-- `omega` after unfolding the abbreviation `Eval := Int` (which hides the `Int` instances from `omega`) -/
macro "eomega" : tactic => `(tactic| (unfold Eval at *; omega))

theorem popcount_le (b : UInt64) : popcount b ≤ 64 := by
  unfold popcount bitsOf
  exact Nat.le_trans (List.length_filter_le _ _) (by simp)

theorem bitsOf_length_le (b : UInt64) : (bitsOf b).length ≤ 64 := popcount_le b

theorem pieceCount_le (s : State) (c : Color) (p : Piece) : pieceCount s c p ≤ 64 := popcount_le _

/-- a left fold adding terms bounded by `B` moves the accumulator by at most `B * length` -/
theorem foldl_add_bounds {α : Type} (g : α → Int) (B : Int) (l : List α) (a : Int)
    (h : ∀ x ∈ l, -B ≤ g x ∧ g x ≤ B) :
    a - B * l.length ≤ l.foldl (fun acc x => acc + g x) a ∧
    l.foldl (fun acc x => acc + g x) a ≤ a + B * l.length := by
  induction l generalizing a with
  | nil => simp
  | cons x xs ih =>
    have hx := h x (List.mem_cons_self)
    have := ih (a + g x) (fun y hy => h y (List.mem_cons_of_mem _ hy))
    simp only [List.foldl_cons, List.length_cons]
    have e : B * ((xs.length + 1 : Nat) : Int) = B * (xs.length : Int) + B := by
      rw [Int.natCast_add, Int.mul_add]; simp
    rw [e]; obtain ⟨t1, t2⟩ := this; constructor <;> omega

/-- a left fold whose step moves the accumulator by an amount in `[-L, U]` -/
theorem foldl_step_bounds {α : Type} (f : Int → α → Int) (L U : Int) (l : List α) (a : Int)
    (h : ∀ acc x, acc - L ≤ f acc x ∧ f acc x ≤ acc + U) :
    a - L * l.length ≤ l.foldl f a ∧ l.foldl f a ≤ a + U * l.length := by
  induction l generalizing a with
  | nil => simp
  | cons x xs ih =>
    have hx := h a x
    have := ih (f a x)
    simp only [List.foldl_cons, List.length_cons]
    have e : L * ((xs.length + 1 : Nat) : Int) = L * (xs.length : Int) + L := by
      rw [Int.natCast_add, Int.mul_add]; simp
    have e' : U * ((xs.length + 1 : Nat) : Int) = U * (xs.length : Int) + U := by
      rw [Int.natCast_add, Int.mul_add]; simp
    rw [e, e']; obtain ⟨t1, t2⟩ := this; constructor <;> omega

/-! ## material -/

theorem worth_values :
    Ev.mulF Ev.onePawn (pieceWorth .pawn) = 100 ∧ Ev.mulF Ev.onePawn (pieceWorth .knight) = 300 ∧
    Ev.mulF Ev.onePawn (pieceWorth .bishop) = 350 ∧ Ev.mulF Ev.onePawn (pieceWorth .rook) = 500 ∧
    Ev.mulF Ev.onePawn (pieceWorth .queen) = 900 ∧ Ev.mulF Ev.onePawn (pieceWorth .king) = 10000 := by
  decide +kernel

/-- the material term in closed form -/
theorem evalWorths_eq (v : Variation) (c : Color) :
    evalWorths v c = 100 * (pieceCount v.s c .pawn : Int) + 300 * (pieceCount v.s c .knight : Int)
      + 350 * (pieceCount v.s c .bishop : Int) + 500 * (pieceCount v.s c .rook : Int)
      + 900 * (pieceCount v.s c .queen : Int) + 10000 * (pieceCount v.s c .king : Int) := by
  obtain ⟨h1, h2, h3, h4, h5, h6⟩ := worth_values
  simp only [evalWorths, Piece.all, List.foldl_cons, List.foldl_nil, h1, h2, h3, h4, h5, h6]
  eomega

theorem evalWorths_bounds (v : Variation) (c : Color) : 0 ≤ evalWorths v c ∧ evalWorths v c ≤ 777600 := by
  rw [evalWorths_eq]
  have := pieceCount_le v.s c .pawn; have := pieceCount_le v.s c .knight
  have := pieceCount_le v.s c .bishop; have := pieceCount_le v.s c .rook
  have := pieceCount_le v.s c .queen; have := pieceCount_le v.s c .king
  constructor <;> eomega

/-! ## pawn structure -/

theorem pawnPenalty_values :
    Ev.mulF Ev.onePawn doubledPawnPenalty = 40 ∧ Ev.mulF Ev.onePawn isolatedPawnPenalty = 50 := by
  decide +kernel

theorem evalBadPawns_bounds (v : Variation) (c : Color) : -720 ≤ evalBadPawns v c ∧ evalBadPawns v c ≤ 0 := by
  obtain ⟨h1, h2⟩ := pawnPenalty_values
  unfold evalBadPawns
  simp only [h1, h2]
  have := foldl_step_bounds (fun (acc : Int) (f : Nat) =>
        let acc := if popcount (v.s.pieces.get c .pawn &&& fileMask f) > doubledPawnMin then acc - 40 else acc
        let mask : UInt64 := (if f = 0 then 0 else fileMask (f - 1)) ||| (if f = 7 then 0 else fileMask (f + 1))
        if bbNone (v.s.pieces.get c .pawn &&& mask) then acc - 50 else acc) 90 0 (List.range 8) 0
      (by intro acc x; simp only; split <;> split <;> constructor <;> eomega)
  simp only [List.length_range] at this
  obtain ⟨t1, t2⟩ := this; constructor <;> eomega

/-! ## piece-square -/

theorem array_getD_bounds (a : Array Int) (B : Int) (hB : 0 ≤ B)
    (h : a.toList.all (fun x => decide (-B ≤ x ∧ x ≤ B)) = true) (i : Nat) :
    -B ≤ a.getD i 0 ∧ a.getD i 0 ≤ B := by
  rw [Array.getD_eq_getD_getElem?]
  cases hi : a[i]? with
  | none => simp; omega
  | some x =>
    have hx : x ∈ a.toList := by
      rw [Array.mem_toList_iff]; exact Array.mem_of_getElem? hi
    have := List.all_eq_true.1 h x hx
    simpa using this

/-- every piece-square table entry is within ±50 (out-of-range indices read as 0) -/
theorem pieceSquareMap_bounds (p : Piece) (i : Nat) :
    (-50 ≤ (pieceSquareMap.getD p.code (#[], #[])).1.getD i 0 ∧ (pieceSquareMap.getD p.code (#[], #[])).1.getD i 0 ≤ 50) ∧
    (-50 ≤ (pieceSquareMap.getD p.code (#[], #[])).2.getD i 0 ∧ (pieceSquareMap.getD p.code (#[], #[])).2.getD i 0 ≤ 50) := by
  cases p <;> exact ⟨array_getD_bounds _ 50 (by decide) (by decide) i, array_getD_bounds _ 50 (by decide) (by decide) i⟩

/-- `|end_game_weight| ≤ 19` (true of every `StateVariation`, see `egw_bounded`) -/
def EgwBounded (w : Rat) : Prop := -19 ≤ w ∧ w ≤ 19

theorem pieceSquare_bounds (p : Piece) (sq : Nat) (c : Color) {w : Rat} (hw : EgwBounded w) :
    -1950 ≤ pieceSquare p sq c w ∧ pieceSquare p sq c w ≤ 1950 := by
  unfold pieceSquare
  simp only
  generalize (flipRank (if (c == Color.white) = true then sq else flipRank sq)) = idx
  obtain ⟨⟨a1, a2⟩, ⟨b1, b2⟩⟩ := pieceSquareMap_bounds p idx
  generalize (pieceSquareMap.getD p.code (#[], #[])).1.getD idx 0 = x1 at *
  generalize (pieceSquareMap.getD p.code (#[], #[])).2.getD idx 0 = x2 at *
  have e1 := F32.ofInt_bounds (A := 50) (by decide) a1 a2
  have e2 := F32.ofInt_bounds (A := 50) (by decide) b1 b2
  have s := F32.sub_bounds (A := 50) (B := 50) (by decide) e2.1 e2.2 e1.1 e1.2
  have m := F32.mul_bounds (A := 50 + 50) (B := 19) (by decide) s.1 s.2 (by simpa using hw.1) (by simpa using hw.2)
  have a := F32.add_bounds (A := (50 + 50) * 19) (B := 50) (by decide) m.1 m.2 e1.1 e1.2
  have := F32.toI32_bounds (N := 1950) (by decide) (by simpa using a.1) (by simpa using a.2)
  exact this

theorem evalSquares_bounds (v : Variation) (c : Color) (hw : EgwBounded v.egw) :
    -748800 ≤ evalSquares v c ∧ evalSquares v c ≤ 748800 := by
  unfold evalSquares
  have := foldl_step_bounds (fun (acc : Int) (p : Piece) =>
      (bitsOf (v.s.pieces.get c p)).foldl (fun acc sq => acc + pieceSquare p sq c v.egw) acc)
      124800 124800 Piece.all 0 (by
        intro acc p
        have := foldl_add_bounds (fun sq => pieceSquare p sq c v.egw) 1950 (bitsOf (v.s.pieces.get c p)) acc
          (fun sq _ => pieceSquare_bounds p sq c hw)
        have hl := bitsOf_length_le (v.s.pieces.get c p)
        obtain ⟨t1, t2⟩ := this
        constructor <;> eomega)
  have hl : Piece.all.length = 6 := rfl
  rw [hl] at this
  obtain ⟨t1, t2⟩ := this
  constructor <;> eomega

/-! ## king to the edge -/

theorem absDist_zero (a : Nat) : absDist a 0 = a := by simp [absDist]
theorem absDist_seven {a : Nat} (h : a ≤ 7) : absDist a 7 = 7 - a := by
  unfold absDist; split <;> omega
theorem absDist_le {a b : Nat} (ha : a ≤ 7) (hb : b ≤ 7) : absDist a b ≤ 7 := by
  unfold absDist; split <;> omega

theorem evalKingEdge_bounds (v : Variation) (c : Color) (hw : EgwBounded v.egw) :
    -1140 ≤ evalKingEdge v c ∧ evalKingEdge v c ≤ 1140 := by
  unfold evalKingEdge
  split
  · constructor <;> eomega
  · split
    · constructor <;> eomega
    · split
      · rename_i ours theirs h1 h2
        have ho := firstOne_lt _ _ h1
        have ht := firstOne_lt _ _ h2
        simp only
        generalize hx : (kingEdgeFactor * (kingEdgeCentre - (min ((absDist (rankOf theirs) 0 : Nat) : Int) (absDist (rankOf theirs) 7 : Nat) + min ((absDist (fileOf theirs) 0 : Nat) : Int) (absDist (fileOf theirs) 7 : Nat))) - ((manhattan ours theirs : Nat) : Int)) = x
        have hb : -(60 : Int) ≤ x ∧ x ≤ (60 : Int) := by
          subst hx
          have hr : rankOf theirs ≤ 7 := by unfold rankOf; omega
          have hf : fileOf theirs ≤ 7 := by unfold fileOf; omega
          have hr' : rankOf ours ≤ 7 := by unfold rankOf; omega
          have hf' : fileOf ours ≤ 7 := by unfold fileOf; omega
          have m1 := absDist_le hr' hr
          have m2 := absDist_le hf' hf
          rw [absDist_zero, absDist_zero, absDist_seven hr, absDist_seven hf]
          unfold kingEdgeFactor kingEdgeCentre manhattan
          constructor <;> omega
        have := Ev.mulF_bounds (E := 60) (W := 19) (by decide) (by decide) hb.1 hb.2 (by simpa using hw.1) (by simpa using hw.2)
        obtain ⟨t1, t2⟩ := this
        constructor <;> eomega
      · constructor <;> eomega

/-! ## the weighted sum -/

/-- `Evaluator::evaluate`, non-terminal part, unfolded over the four generated (evaluator, weight) pairs -/
theorem evalHeuristic_eq (v : Variation) (p : Color) :
    evalHeuristic v p =
      0 + Ev.mulF (evalWorths v p - evalWorths v p.opp) (mkRat 1 1)
        + Ev.mulF (evalSquares v p - evalSquares v p.opp) (mkRat 13421773 16777216)
        + Ev.mulF (evalKingEdge v p - evalKingEdge v p.opp) (mkRat 1 1)
        + Ev.mulF (evalBadPawns v p - evalBadPawns v p.opp) (mkRat 13421773 67108864) := rfl

theorem weight_bounds :
    (-((1 : Nat) : Rat) ≤ mkRat 1 1 ∧ mkRat 1 1 ≤ ((1 : Nat) : Rat)) ∧
    (-((1 : Nat) : Rat) ≤ mkRat 13421773 16777216 ∧ mkRat 13421773 16777216 ≤ ((1 : Nat) : Rat)) ∧
    (-((1 : Nat) : Rat) ≤ mkRat 13421773 67108864 ∧ mkRat 13421773 67108864 ≤ ((1 : Nat) : Rat)) := by
  decide +kernel

/-- the four generated weights satisfy the side condition of `Ev.mulF_neg` (`|w| ≤ 1`) -/
theorem evaluatorWeights_bounds : ∀ w ∈ evaluatorWeights, -1 ≤ w ∧ w ≤ 1 := by decide +kernel

theorem mulF_sub_swap {a b : Int} {w : Rat} {E : Nat} (hE : E < 16777216)
    (h1 : -(E : Int) ≤ b - a) (h2 : b - a ≤ (E : Int))
    (hw1 : -((1 : Nat) : Rat) ≤ w) (hw2 : w ≤ ((1 : Nat) : Rat)) :
    Ev.mulF (a - b) w = - Ev.mulF (b - a) w := by
  rw [← Ev.mulF_neg (E := E) (W := 1) hE (by omega) h1 h2 hw1 hw2, Int.neg_sub]

/-- every evaluator difference is far inside the exact range of `f32` -/
theorem evaluator_diff_bounds (v : Variation) (hw : EgwBounded v.egw) (c : Color) :
    (-(777600 : Int) ≤ evalWorths v c - evalWorths v c.opp ∧ evalWorths v c - evalWorths v c.opp ≤ (777600 : Int)) ∧
    (-(1497600 : Int) ≤ evalSquares v c - evalSquares v c.opp ∧ evalSquares v c - evalSquares v c.opp ≤ (1497600 : Int)) ∧
    (-(2280 : Int) ≤ evalKingEdge v c - evalKingEdge v c.opp ∧ evalKingEdge v c - evalKingEdge v c.opp ≤ (2280 : Int)) ∧
    (-(720 : Int) ≤ evalBadPawns v c - evalBadPawns v c.opp ∧ evalBadPawns v c - evalBadPawns v c.opp ≤ (720 : Int)) := by
  have a1 := evalWorths_bounds v c; have a2 := evalWorths_bounds v c.opp
  have b1 := evalSquares_bounds v c hw; have b2 := evalSquares_bounds v c.opp hw
  have c1 := evalKingEdge_bounds v c hw; have c2 := evalKingEdge_bounds v c.opp hw
  have d1 := evalBadPawns_bounds v c; have d2 := evalBadPawns_bounds v c.opp
  refine ⟨⟨?_, ?_⟩, ⟨?_, ?_⟩, ⟨?_, ?_⟩, ⟨?_, ?_⟩⟩ <;> eomega

theorem opp_opp (c : Color) : c.opp.opp = c := by cases c <;> rfl

/-- swapping the perspective negates the heuristic score (any variation with `|egw| ≤ 19`) -/
theorem evalHeuristic_neg (v : Variation) (hw : EgwBounded v.egw) (c : Color) :
    evalHeuristic v c = - evalHeuristic v c.opp := by
  obtain ⟨⟨a1, a2⟩, ⟨b1, b2⟩, ⟨c1, c2⟩, ⟨d1, d2⟩⟩ := evaluator_diff_bounds v hw c.opp
  obtain ⟨⟨w1, w1'⟩, ⟨w2, w2'⟩, ⟨w3, w3'⟩⟩ := weight_bounds
  rw [opp_opp] at a1 a2 b1 b2 c1 c2 d1 d2
  rw [evalHeuristic_eq, evalHeuristic_eq, opp_opp,
    mulF_sub_swap (E := 777600) (by decide) a1 a2 w1 w1',
    mulF_sub_swap (E := 1497600) (by decide) b1 b2 w2 w2',
    mulF_sub_swap (E := 2280) (by decide) c1 c2 w1 w1',
    mulF_sub_swap (E := 720) (by decide) d1 d2 w3 w3']
  eomega

/-- `|e * w| ≤ |e|` for `|w| ≤ 1`, `|e| < 2^24` -/
theorem mulF_abs_le {e : Int} {w : Rat} (he : e.natAbs < 16777216)
    (hw1 : -((1 : Nat) : Rat) ≤ w) (hw2 : w ≤ ((1 : Nat) : Rat)) :
    (Ev.mulF e w).natAbs ≤ e.natAbs := by
  have := Ev.mulF_bounds (e := e) (w := w) (E := e.natAbs) (W := 1) he (by omega) (by omega) (by omega) hw1 hw2
  simp only [Nat.mul_one] at this
  eomega

/-- term-by-term bound of the weighted sum (all weights have modulus ≤ 1) -/
theorem evalHeuristic_abs_le (v : Variation) (hw : EgwBounded v.egw) (c : Color) :
    (evalHeuristic v c).natAbs ≤
      (evalWorths v c - evalWorths v c.opp).natAbs + (evalSquares v c - evalSquares v c.opp).natAbs
      + (evalKingEdge v c - evalKingEdge v c.opp).natAbs + (evalBadPawns v c - evalBadPawns v c.opp).natAbs := by
  obtain ⟨⟨a1, a2⟩, ⟨b1, b2⟩, ⟨c1, c2⟩, ⟨d1, d2⟩⟩ := evaluator_diff_bounds v hw c
  obtain ⟨⟨w1, w1'⟩, ⟨w2, w2'⟩, ⟨w3, w3'⟩⟩ := weight_bounds
  have m1 := mulF_abs_le (e := evalWorths v c - evalWorths v c.opp) (by eomega) w1 w1'
  have m2 := mulF_abs_le (e := evalSquares v c - evalSquares v c.opp) (by eomega) w2 w2'
  have m3 := mulF_abs_le (e := evalKingEdge v c - evalKingEdge v c.opp) (by eomega) w1 w1'
  have m4 := mulF_abs_le (e := evalBadPawns v c - evalBadPawns v c.opp) (by eomega) w3 w3'
  rw [evalHeuristic_eq]
  eomega

/-- every value computed by the heuristic fits `i32` with a wide margin -/
theorem evalHeuristic_bounds (v : Variation) (hw : EgwBounded v.egw) (c : Color) :
    -(2278200 : Int) ≤ evalHeuristic v c ∧ evalHeuristic v c ≤ (2278200 : Int) := by
  have := evalHeuristic_abs_le v hw c
  obtain ⟨⟨a1, a2⟩, ⟨b1, b2⟩, ⟨c1, c2⟩, ⟨d1, d2⟩⟩ := evaluator_diff_bounds v hw c
  constructor <;> eomega

/-! ## the end-game weight is bounded -/

theorem egConsts :
    egD1 = ((16 : Nat) : Rat) ∧ egD2 = ((2 : Nat) : Rat) ∧ egD3 = ((32 : Nat) : Rat) ∧
    (-((3 : Nat) : Rat) ≤ egW1 ∧ egW1 ≤ ((3 : Nat) : Rat)) ∧ (-((1 : Nat) : Rat) ≤ egW2 ∧ egW2 ≤ ((1 : Nat) : Rat)) ∧
    (-((1 : Nat) : Rat) ≤ egW3 ∧ egW3 ≤ ((1 : Nat) : Rat)) ∧
    F32.add (F32.add egW1 egW2) egW3 = ((5 : Nat) : Rat) := by decide +kernel

/-- the end-game weight of every position lies in `[-19, 19]` (in fact in `[-17, 1]`; `[0, 1]` for
positions with at most 16 pawns, 2 queens… — only the crude bound is needed) -/
theorem egw_bounded (s : State) : EgwBounded (Variation.of s).egw := by
  obtain ⟨d1, d2, d3, ⟨w1, w1'⟩, ⟨w2, w2'⟩, ⟨w3, w3'⟩, hden⟩ := egConsts
  have cnt : ∀ p, -((128 : Nat) : Int) ≤ ((pieceCount s .white p + pieceCount s .black p : Nat) : Int) ∧
      ((pieceCount s .white p + pieceCount s .black p : Nat) : Int) ≤ ((128 : Nat) : Int) := by
    intro p
    have := pieceCount_le s .white p; have := pieceCount_le s .black p
    constructor <;> omega
  have occ : -((64 : Nat) : Int) ≤ ((popcount s.pieces.occ : Nat) : Int) ∧ ((popcount s.pieces.occ : Nat) : Int) ≤ ((64 : Nat) : Int) := by
    have := popcount_le s.pieces.occ
    constructor <;> omega
  have cp := F32.ofInt_bounds (A := 128) (by decide) (cnt .pawn).1 (cnt .pawn).2
  have cq := F32.ofInt_bounds (A := 128) (by decide) (cnt .queen).1 (cnt .queen).2
  have co := F32.ofInt_bounds (A := 64) (by decide) occ.1 occ.2
  have v1 := F32.div_bounds (Q := 8) (D := 16) (by decide) (by decide) d1 (by decide) cp.1 cp.2
  have v2 := F32.div_bounds (Q := 64) (D := 2) (by decide) (by decide) d2 (by decide) cq.1 cq.2
  have v3 := F32.div_bounds (Q := 2) (D := 32) (by decide) (by decide) d3 (by decide) co.1 co.2
  have m1 := F32.mul_bounds (A := 3) (B := 8) (by decide) w1 w1' v1.1 v1.2
  have m2 := F32.mul_bounds (A := 1) (B := 64) (by decide) w2 w2' v2.1 v2.2
  have m3 := F32.mul_bounds (A := 1) (B := 2) (by decide) w3 w3' v3.1 v3.2
  have a1 := F32.add_bounds (by decide) m1.1 m1.2 m2.1 m2.2
  have a2 := F32.add_bounds (by decide) a1.1 a1.2 m3.1 m3.2
  have q := F32.div_bounds (Q := 18) (D := 5) (by decide) (by decide) hden (by decide) a2.1 a2.2
  have r := F32.sub_bounds (A := 1) (B := 18) (a := 1) (by decide) (by decide +kernel) (by decide +kernel) q.1 q.2
  unfold EgwBounded Variation.of
  simp only
  constructor
  · have := r.1; simpa using this
  · have := r.2; simpa using this

end Wee
