import Wee.Proofs.ApplySpec
/-!
# C02: castling rights — "rook still on its corner" (model) = "lost when the king moves or a rook
leaves / is captured on its corner" (rules), given `RightsSound`
-/
namespace Wee.C02
open Wee.C10 (DisjointBoard pieceAt_iff)

/-- a square that is neither origin, destination, en-passant victim nor a castling rook square keeps its content -/
theorem expectedF_untouched (s : State) (mv : Move) (p : Piece) (sq : Nat)
    (h1 : sq ≠ Move.origin mv) (h2 : sq ≠ Move.dest mv)
    (h3 : Move.isEnPassant mv = true → sq ≠ Move.origin mv / 8 * 8 + Move.dest mv % 8)
    (h4 : Move.castleSide mv = some Side.king → sq ≠ Move.origin mv + 3 ∧ sq ≠ Move.origin mv + 1)
    (h5 : Move.castleSide mv = some Side.queen → sq ≠ Move.origin mv - 4 ∧ sq ≠ Move.origin mv - 1) :
    expectedF s mv p sq = s.pieces.pieceAt sq := by
  have hmid : midF s mv p sq = s.pieces.pieceAt sq := by
    unfold midF
    rw [upd_ne _ _ _ _ h2]
    cases hep : Move.isEnPassant mv
    · simp only [Bool.false_eq_true, if_false]; rw [upd_ne _ _ _ _ h1]
    · simp only [if_true]; rw [upd_ne _ _ _ _ (h3 hep), upd_ne _ _ _ _ h1]
  have hpro : promoF s mv p sq = s.pieces.pieceAt sq := by
    unfold promoF
    cases Move.promotion mv with
    | none => exact hmid
    | some r => simp only []; rw [upd_ne _ _ _ _ h2]; exact hmid
  unfold expectedF
  cases hcs : Move.castleSide mv with
  | none => exact hpro
  | some sd =>
    cases sd with
    | king => simp only []; rw [upd_ne _ _ _ _ (h4 hcs).2, upd_ne _ _ _ _ (h4 hcs).1]; exact hpro
    | queen => simp only []; rw [upd_ne _ _ _ _ (h5 hcs).2, upd_ne _ _ _ _ (h5 hcs).1]; exact hpro

theorem MFits.o_ne_d {s : State} {mv : Move} {p : Piece} (h : MFits s mv p) : Move.origin mv ≠ Move.dest mv := by
  intro e
  have hmv := h.mover
  cases hcap : Move.capture mv with
  | none => have := (h.quiet hcap).2; rw [← e, hmv] at this; cases this
  | some q =>
    cases hep : Move.isEnPassant mv with
    | false =>
      have := (h.capture q hcap hep).1; rw [← e, hmv] at this
      exact opp_ne s.turn (congrArg Prod.fst (Option.some.inj this)).symm
    | true =>
      obtain ⟨_, _, _, _, hdn, _⟩ := h.enPassant hep
      rw [← e, hmv] at hdn; cases hdn

/-- the content of the destination before the move is not a piece of the mover's colour -/
theorem MFits.dest_not_own {s : State} {mv : Move} {p : Piece} (h : MFits s mv p) (q : Piece) :
    s.pieces.pieceAt (Move.dest mv) ≠ some (s.turn, q) := by
  intro e
  cases hcap : Move.capture mv with
  | none => have := (h.quiet hcap).2; rw [e] at this; cases this
  | some q' =>
    cases hep : Move.isEnPassant mv with
    | false =>
      have := (h.capture q' hcap hep).1; rw [e] at this
      exact opp_ne s.turn (congrArg Prod.fst (Option.some.inj this)).symm
    | true =>
      obtain ⟨_, _, _, _, hdn, _⟩ := h.enPassant hep
      rw [e] at hdn; cases hdn

/-- the content of the destination before the move is not a king -/
theorem MFits.dest_not_king {s : State} {mv : Move} {p : Piece} (h : MFits s mv p) (c : Color) :
    s.pieces.pieceAt (Move.dest mv) ≠ some (c, Piece.king) := by
  intro e
  cases hcap : Move.capture mv with
  | none => have := (h.quiet hcap).2; rw [e] at this; cases this
  | some q' =>
    cases hep : Move.isEnPassant mv with
    | false =>
      obtain ⟨h1, h2⟩ := h.capture q' hcap hep; rw [e] at h1
      exact h2 (congrArg Prod.snd (Option.some.inj h1)).symm
    | true =>
      obtain ⟨_, _, _, _, hdn, _⟩ := h.enPassant hep
      rw [e] at hdn; cases hdn

theorem expectedF_origin {s : State} {mv : Move} {p : Piece} (h : MFits s mv p) :
    expectedF s mv p (Move.origin mv) = Option.none := by
  have hod := h.o_ne_d
  have hmid : midF s mv p (Move.origin mv) = Option.none := by
    unfold midF
    rw [upd_ne _ _ _ _ hod]
    cases hep : Move.isEnPassant mv
    · simp only [Bool.false_eq_true, if_false]; rw [upd_same]
    · simp only [if_true]
      by_cases e : Move.origin mv = Move.origin mv / 8 * 8 + Move.dest mv % 8
      · rw [← e, upd_same]
      · rw [upd_ne _ _ _ _ e, upd_same]
  have hpro : promoF s mv p (Move.origin mv) = Option.none := by
    unfold promoF
    cases Move.promotion mv with
    | none => exact hmid
    | some r => simp only []; rw [upd_ne _ _ _ _ hod]; exact hmid
  unfold expectedF
  cases hcs : Move.castleSide mv with
  | none => exact hpro
  | some sd =>
    obtain ⟨_, _, _, ho, _⟩ := h.castle sd hcs
    have ho' := homeSq_cases s.turn
    rw [← ho] at ho'
    cases sd with
    | king => simp only []; rw [upd_ne _ _ _ _ (by omega), upd_ne _ _ _ _ (by omega)]; exact hpro
    | queen => simp only []; rw [upd_ne _ _ _ _ (by omega), upd_ne _ _ _ _ (by omega)]; exact hpro

theorem expectedF_dest {s : State} {mv : Move} {p : Piece} (h : MFits s mv p) :
    expectedF s mv p (Move.dest mv) = some (s.turn, (Move.promotion mv).getD p) := by
  have hpro : promoF s mv p (Move.dest mv) = some (s.turn, (Move.promotion mv).getD p) := by
    unfold promoF
    cases Move.promotion mv with
    | none => exact midF_dest s mv p
    | some r => simp only [upd_same, Option.getD_some]
  unfold expectedF
  cases hcs : Move.castleSide mv with
  | none => exact hpro
  | some sd =>
    obtain ⟨_, _, _, ho, hsd⟩ := h.castle sd hcs
    have ho' := homeSq_cases s.turn
    rw [← ho] at ho'
    cases sd with
    | king =>
      simp only [] at hsd ⊢
      rw [upd_ne _ _ _ _ (by omega), upd_ne _ _ _ _ (by omega)]; exact hpro
    | queen =>
      simp only [] at hsd ⊢
      rw [upd_ne _ _ _ _ (by omega), upd_ne _ _ _ _ (by omega)]; exact hpro

/-- a piece `(col, q)` standing on `sq` that is not the mover, not the victim and (when castling)
not the castling rook stays where it is -/
theorem expectedF_bystander {s : State} {mv : Move} {p : Piece} (h : MFits s mv p) (sq : Nat) (col : Color) (q : Piece)
    (hsq : s.pieces.pieceAt sq = some (col, q)) (h1 : sq ≠ Move.origin mv) (h2 : sq ≠ Move.dest mv)
    (hq : q = Piece.king ∨ (q = Piece.rook ∧ ¬ (p = Piece.king ∧ s.turn = col))) :
    expectedF s mv p sq = some (col, q) := by
  rw [expectedF_untouched s mv p sq h1 h2, hsq]
  · intro hep e
    obtain ⟨_, _, _, _, _, _, _, hv⟩ := h.enPassant hep
    rw [← e, hsq] at hv
    have := congrArg Prod.snd (Option.some.inj hv)
    simp only [] at this
    rcases hq with rfl | ⟨rfl, _⟩ <;> cases this
  · intro hcs
    obtain ⟨hpk, _, _, _, _, hr, he⟩ := h.castle _ hcs
    constructor
    · intro e
      rw [← e, hsq] at hr
      have e1 := congrArg Prod.fst (Option.some.inj hr)
      have e2 := congrArg Prod.snd (Option.some.inj hr)
      simp only [] at e1 e2
      rcases hq with rfl | ⟨_, hn⟩
      · cases e2
      · exact hn ⟨hpk, e1.symm⟩
    · intro e; rw [← e, hsq] at he; cases he
  · intro hcs
    obtain ⟨hpk, _, _, _, _, hr, he⟩ := h.castle _ hcs
    constructor
    · intro e
      rw [← e, hsq] at hr
      have e1 := congrArg Prod.fst (Option.some.inj hr)
      have e2 := congrArg Prod.snd (Option.some.inj hr)
      simp only [] at e1 e2
      rcases hq with rfl | ⟨_, hn⟩
      · cases e2
      · exact hn ⟨hpk, e1.symm⟩
    · intro e; rw [← e, hsq] at he; cases he


/-- **a corner rook after the move**: the rook of colour `col` that stood on `sq` is still there
iff the move neither started nor ended on `sq` (the mover's own king move is excluded: castling
takes the rook away) -/
theorem corner_rook {s : State} {mv : Move} {p : Piece} (h : MFits s mv p) {map : PieceMap}
    (hr : Repr map (expectedF s mv p)) (sq : Nat) (hlt : sq < 64) (col : Color)
    (hsq : s.pieces.pieceAt sq = some (col, Piece.rook)) (hn : ¬ (p = Piece.king ∧ s.turn = col)) :
    test (map.get col Piece.rook) sq = !(Move.origin mv == sq || Move.dest mv == sq) := by
  have key := hr sq hlt col Piece.rook
  by_cases ho : Move.origin mv = sq
  · subst ho
    rw [expectedF_origin h] at key
    have : test (map.get col Piece.rook) (Move.origin mv) = false := by
      cases ht : test (map.get col Piece.rook) (Move.origin mv) with
      | false => rfl
      | true => exact absurd (key.1 ht) (by simp)
    rw [this]; simp
  · by_cases hd : Move.dest mv = sq
    · subst hd
      rw [expectedF_dest h] at key
      have : test (map.get col Piece.rook) (Move.dest mv) = false := by
        cases ht : test (map.get col Piece.rook) (Move.dest mv) with
        | false => rfl
        | true =>
          have e := Option.some.inj (key.1 ht)
          have e1 : s.turn = col := congrArg Prod.fst e
          rw [← e1] at hsq
          exact absurd hsq (h.dest_not_own _)
      rw [this]; simp
    · have := expectedF_bystander h sq col Piece.rook hsq (fun e => ho e.symm) (fun e => hd e.symm)
        (Or.inr ⟨rfl, hn⟩)
      rw [key.2 this]
      simp [ho, hd]

/-- a king that is not the mover stays on its square -/
theorem king_stays {s : State} {mv : Move} {p : Piece} (h : MFits s mv p) {map : PieceMap}
    (hr : Repr map (expectedF s mv p)) (sq : Nat) (hlt : sq < 64) (col : Color)
    (hsq : s.pieces.pieceAt sq = some (col, Piece.king)) (hn : ¬ (p = Piece.king ∧ s.turn = col)) :
    test (map.get col Piece.king) sq = true := by
  apply (hr sq hlt col Piece.king).2
  apply expectedF_bystander h sq col Piece.king hsq _ _ (Or.inl rfl)
  · intro e
    rw [e, h.mover] at hsq
    have := Option.some.inj hsq
    exact hn ⟨congrArg Prod.snd this, congrArg Prod.fst this⟩
  · intro e
    rw [e] at hsq
    exact h.dest_not_king col hsq

end Wee.C02
