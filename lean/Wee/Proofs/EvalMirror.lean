import Wee.Proofs.EvalLemmas
/-!
# Mirror symmetry of the evaluator (used by C13_mirror)

`bswap` (byte swap = reversal of the eight ranks), `mirrorState`, and the equivariance of every
ingredient of the heuristic evaluation: piece counts, occupancy, end-game weight, the four evaluators.
-/
namespace Wee
open Gen

/-- `u64::swap_bytes`: reverse the order of the eight ranks -/
def bswap (b : UInt64) : UInt64 :=
  let b1 := ((b >>> (8 : Nat).toUInt64) &&& 0x00FF00FF00FF00FF) ||| ((b &&& 0x00FF00FF00FF00FF) <<< (8 : Nat).toUInt64)
  let b2 := ((b1 >>> (16 : Nat).toUInt64) &&& 0x0000FFFF0000FFFF) ||| ((b1 &&& 0x0000FFFF0000FFFF) <<< (16 : Nat).toUInt64)
  (b2 >>> (32 : Nat).toUInt64) ||| (b2 <<< (32 : Nat).toUInt64)

theorem mask8 : ∀ j : Fin 64, test 0x00FF00FF00FF00FF j.val = decide (j.val / 8 % 2 = 0) := by decide
theorem mask16 : ∀ j : Fin 64, test 0x0000FFFF0000FFFF j.val = decide (j.val / 16 % 2 = 0) := by decide

theorem test_swap8 (b : UInt64) (n : Nat) (hn : n < 64) :
    test (((b >>> (8 : Nat).toUInt64) &&& 0x00FF00FF00FF00FF) ||| ((b &&& 0x00FF00FF00FF00FF) <<< (8 : Nat).toUInt64)) n
      = test b (if n / 8 % 2 = 0 then n + 8 else n - 8) := by
  rw [test_or, test_and, test_shr _ _ _ (by decide), test_shl _ _ _ (by decide), test_and]
  have m1 := mask8 ⟨n, hn⟩
  simp only at m1
  by_cases h : n / 8 % 2 = 0
  · have h8 : ¬ (8 ≤ n ∧ n < 64) ∨ test 0x00FF00FF00FF00FF (n - 8) = false := by
      by_cases h' : 8 ≤ n
      · right
        have := mask8 ⟨n - 8, by omega⟩
        simp only at this
        rw [this]; simp; omega
      · left; omega
    rw [m1, if_pos h]
    rcases h8 with h8 | h8 <;> simp [h, h8]
  · have hge : 8 ≤ n := by omega
    have m2 := mask8 ⟨n - 8, by omega⟩
    simp only at m2
    have h2 : (n - 8) / 8 % 2 = 0 := by omega
    rw [m1, m2, if_neg h]
    simp [h, h2, hge, hn]

theorem test_swap16 (b : UInt64) (n : Nat) (hn : n < 64) :
    test (((b >>> (16 : Nat).toUInt64) &&& 0x0000FFFF0000FFFF) ||| ((b &&& 0x0000FFFF0000FFFF) <<< (16 : Nat).toUInt64)) n
      = test b (if n / 16 % 2 = 0 then n + 16 else n - 16) := by
  rw [test_or, test_and, test_shr _ _ _ (by decide), test_shl _ _ _ (by decide), test_and]
  have m1 := mask16 ⟨n, hn⟩
  simp only at m1
  by_cases h : n / 16 % 2 = 0
  · have h8 : ¬ (16 ≤ n ∧ n < 64) ∨ test 0x0000FFFF0000FFFF (n - 16) = false := by
      by_cases h' : 16 ≤ n
      · right
        have := mask16 ⟨n - 16, by omega⟩
        simp only at this
        rw [this]; simp; omega
      · left; omega
    rw [m1, if_pos h]
    rcases h8 with h8 | h8 <;> simp [h, h8]
  · have hge : 16 ≤ n := by omega
    have m2 := mask16 ⟨n - 16, by omega⟩
    simp only at m2
    have h2 : (n - 16) / 16 % 2 = 0 := by omega
    rw [m1, m2, if_neg h]
    simp [h, h2, hge, hn]

theorem test_swap32 (b : UInt64) (n : Nat) (hn : n < 64) :
    test ((b >>> (32 : Nat).toUInt64) ||| (b <<< (32 : Nat).toUInt64)) n
      = test b (if n / 32 % 2 = 0 then n + 32 else n - 32) := by
  rw [test_or, test_shr _ _ _ (by decide), test_shl _ _ _ (by decide)]
  by_cases h : n / 32 % 2 = 0
  · have : ¬ (32 ≤ n ∧ n < 64) := by omega
    rw [if_pos h]; simp [this]
  · have hge : 32 ≤ n := by omega
    have : test b (n + 32) = false := test_ge _ _ (by omega)
    rw [if_neg h, this]; simp [hge, hn]

/-- **`bswap` is the rank flip**: bit `n` of `bswap b` is bit `flipRank n` of `b`. -/
theorem test_bswap (b : UInt64) (n : Nat) (hn : n < 64) : test (bswap b) n = test b (flipRank n) := by
  unfold bswap
  simp only
  rw [test_swap32 _ _ hn, test_swap16 _ _ (by split <;> omega), test_swap8 _ _ (by split <;> split <;> omega)]
  congr 1
  unfold flipRank mkSq rankOf fileOf
  split <;> split <;> split <;> omega

theorem flipRank_lt {n : Nat} (_h : n < 64) : flipRank n < 64 := by
  unfold flipRank mkSq rankOf fileOf; omega
theorem flipRank_flipRank {n : Nat} (h : n < 64) : flipRank (flipRank n) = n := by
  unfold flipRank mkSq rankOf fileOf; omega
theorem rankOf_flipRank {n : Nat} (_h : n < 64) : rankOf (flipRank n) = 7 - rankOf n := by
  unfold flipRank mkSq rankOf fileOf; omega
theorem fileOf_flipRank {n : Nat} (_h : n < 64) : fileOf (flipRank n) = fileOf n := by
  unfold flipRank mkSq rankOf fileOf; omega

theorem mem_bitsOf_bswap (b : UInt64) (n : Nat) :
    n ∈ bitsOf (bswap b) ↔ n ∈ (bitsOf b).map flipRank := by
  rw [mem_bitsOf, List.mem_map]
  constructor
  · rintro ⟨hn, ht⟩
    rw [test_bswap _ _ hn] at ht
    exact ⟨flipRank n, (mem_bitsOf _ _).2 ⟨flipRank_lt hn, ht⟩, flipRank_flipRank hn⟩
  · rintro ⟨m, hm, rfl⟩
    obtain ⟨hm1, hm2⟩ := (mem_bitsOf _ _).1 hm
    refine ⟨flipRank_lt hm1, ?_⟩
    rw [test_bswap _ _ (flipRank_lt hm1), flipRank_flipRank hm1]; exact hm2

theorem nodup_map_flipRank (b : UInt64) : ((bitsOf b).map flipRank).Nodup := by
  unfold List.Nodup
  rw [List.pairwise_map]
  apply List.Pairwise.imp_of_mem _ (bitsOf_sorted b)
  intro x y hx hy hlt
  have hx' := ((mem_bitsOf _ _).1 hx).1
  have hy' := ((mem_bitsOf _ _).1 hy).1
  unfold flipRank mkSq rankOf fileOf; omega

/-- `iter_ones` of the flipped board is a permutation of the flipped `iter_ones` -/
theorem bitsOf_bswap_perm (b : UInt64) : (bitsOf (bswap b)).Perm ((bitsOf b).map flipRank) :=
  (List.perm_ext_iff_of_nodup (bitsOf_nodup _) (nodup_map_flipRank b)).2 (mem_bitsOf_bswap b)

theorem popcount_bswap (b : UInt64) : popcount (bswap b) = popcount b := by
  unfold popcount
  rw [(bitsOf_bswap_perm b).length_eq, List.length_map]

theorem bswap_or (a b : UInt64) : bswap (a ||| b) = bswap a ||| bswap b := by
  apply ext; intro n hn
  rw [test_bswap _ _ hn, test_or, test_or, test_bswap _ _ hn, test_bswap _ _ hn]

theorem bswap_and (a b : UInt64) : bswap (a &&& b) = bswap a &&& bswap b := by
  apply ext; intro n hn
  rw [test_bswap _ _ hn, test_and, test_and, test_bswap _ _ hn, test_bswap _ _ hn]

theorem bswap_zero : bswap 0 = 0 := by decide

theorem bswap_bswap (b : UInt64) : bswap (bswap b) = b := by
  apply ext; intro n hn
  rw [test_bswap _ _ hn, test_bswap _ _ (flipRank_lt hn), flipRank_flipRank hn]

theorem bswap_eq_zero (b : UInt64) : bswap b = 0 ↔ b = 0 := by
  constructor
  · intro h; have := congrArg bswap h; rwa [bswap_bswap, bswap_zero] at this
  · intro h; rw [h, bswap_zero]

theorem bbNone_bswap (b : UInt64) : bbNone (bswap b) = bbNone b := by
  unfold bbNone
  by_cases h : b = 0
  · rw [h, bswap_zero]
  · have : bswap b ≠ 0 := fun h' => h ((bswap_eq_zero b).1 h')
    rw [beq_eq_false_iff_ne.2 h, beq_eq_false_iff_ne.2 this]

/-- file masks are invariant under the rank flip -/
theorem bswap_fileMask (f : Nat) : bswap (fileMask f) = fileMask f := by
  by_cases h : f < 8
  · have : ∀ g : Fin 8, bswap (fileMask g.val) = fileMask g.val := by decide
    exact this ⟨f, h⟩
  · have : fileMask f = 0 := by
      unfold fileMask
      have hs : fileMasks.size = 8 := rfl
      rw [Array.getD_eq_getD_getElem?, Array.getElem?_eq_none (by omega)]
      rfl
    rw [this, bswap_zero]

/-- with at most one bit set, `first_one` commutes with the rank flip (false with two bits set in
different ranks: the lowest square of the flipped board is the flip of the highest-rank one) -/
theorem firstOne_bswap (b : UInt64) (h1 : popcount b ≤ 1) : firstOne (bswap b) = (firstOne b).map flipRank := by
  have hp := bitsOf_bswap_perm b
  unfold firstOne
  unfold popcount at h1
  match hb : bitsOf b with
  | [] => rw [hb] at hp; simp at hp; rw [hp]; rfl
  | [k] => rw [hb] at hp; simp at hp; rw [hp]; rfl
  | _ :: _ :: _ => rw [hb] at h1; simp at h1

/-! ## the mirrored state -/

/-- flip the ranks and swap the colours of a placement -/
def mirrorPieces (m : PieceMap) : PieceMap :=
  { wp := bswap m.bp, wn := bswap m.bn, wb := bswap m.bb, wr := bswap m.br, wq := bswap m.bq, wk := bswap m.bk,
    bp := bswap m.wp, bn := bswap m.wn, bb := bswap m.wb, br := bswap m.wr, bq := bswap m.wq, bk := bswap m.wk }

/-- the colour-mirrored position: ranks flipped, colours, side to move and castling rights swapped,
en-passant square rank-flipped, counters kept -/
def mirrorState (s : State) : State :=
  { pieces := mirrorPieces s.pieces, turn := s.turn.opp, castleW := s.castleB, castleB := s.castleW,
    ep := s.ep.map flipRank, halfmove := s.halfmove, fullmove := s.fullmove }

theorem mirrorPieces_get (m : PieceMap) (c : Color) (p : Piece) :
    (mirrorPieces m).get c.opp p = bswap (m.get c p) := by
  cases c <;> cases p <;> first | rfl | exact bswap_zero.symm

theorem mirrorPieces_get' (m : PieceMap) (c : Color) (p : Piece) :
    (mirrorPieces m).get c p = bswap (m.get c.opp p) := by
  have := mirrorPieces_get m c.opp p; rwa [opp_opp] at this

theorem colorOcc_eq (m : PieceMap) (c : Color) :
    m.colorOcc c = 0 ||| m.get c .pawn ||| m.get c .knight ||| m.get c .bishop ||| m.get c .rook
      ||| m.get c .queen ||| m.get c .king := rfl

theorem mirrorPieces_colorOcc (m : PieceMap) (c : Color) :
    (mirrorPieces m).colorOcc c.opp = bswap (m.colorOcc c) := by
  rw [colorOcc_eq, colorOcc_eq]
  simp only [mirrorPieces_get, bswap_or, bswap_zero]

theorem mirrorPieces_occ (m : PieceMap) : (mirrorPieces m).occ = bswap m.occ := by
  unfold PieceMap.occ
  have h1 := mirrorPieces_colorOcc m .white
  have h2 := mirrorPieces_colorOcc m .black
  simp only [Color.opp] at h1 h2
  rw [h1, h2, bswap_or, UInt64.or_comm]

theorem pieceCount_mirror (s : State) (c : Color) (p : Piece) :
    pieceCount (mirrorState s) c.opp p = pieceCount s c p := by
  unfold pieceCount
  show popcount ((mirrorPieces s.pieces).get c.opp p) = _
  rw [mirrorPieces_get, popcount_bswap]

theorem pieceCount_mirror' (s : State) (c : Color) (p : Piece) :
    pieceCount (mirrorState s) c p = pieceCount s c.opp p := by
  have := pieceCount_mirror s c.opp p; rwa [opp_opp] at this

theorem Variation_of_s (s : State) : (Variation.of s).s = s := rfl

/-- the end-game weight is mirror-invariant -/
theorem egw_mirror (s : State) : (Variation.of (mirrorState s)).egw = (Variation.of s).egw := by
  unfold Variation.of
  simp only
  have hp : ∀ p, pieceCount (mirrorState s) .white p + pieceCount (mirrorState s) .black p
      = pieceCount s .white p + pieceCount s .black p := by
    intro p
    rw [pieceCount_mirror' s .white p, pieceCount_mirror' s .black p]
    simp only [Color.opp]; omega
  have ho : popcount (mirrorState s).pieces.occ = popcount s.pieces.occ := by
    show popcount (mirrorPieces s.pieces).occ = _
    rw [mirrorPieces_occ, popcount_bswap]
  rw [hp, hp, ho]

theorem count_mirror (s : State) (c : Color) :
    (Variation.of (mirrorState s)).count c.opp = (Variation.of s).count c := by
  have h : ∀ c, (fun p => pieceCount (mirrorState s) c p) = (fun p => pieceCount s c.opp p) := by
    intro c; funext p; exact pieceCount_mirror' s c p
  have hw := h .white
  have hb := h .black
  cases c
  · show (List.map (pieceCount (mirrorState s) Color.black) Piece.all).sum = _
    rw [show pieceCount (mirrorState s) Color.black = _ from hb]; rfl
  · show (List.map (pieceCount (mirrorState s) Color.white) Piece.all).sum = _
    rw [show pieceCount (mirrorState s) Color.white = _ from hw]; rfl

/-- material -/
theorem evalWorths_mirror (s : State) (c : Color) :
    evalWorths (Variation.of (mirrorState s)) c.opp = evalWorths (Variation.of s) c := by
  rw [evalWorths_eq, evalWorths_eq]
  simp only [Variation_of_s, pieceCount_mirror]

theorem foldl_add_congr {α : Type} (g g' : α → Int) (l : List α) (a : Int) (h : ∀ x ∈ l, g x = g' x) :
    l.foldl (fun acc x => acc + g x) a = l.foldl (fun acc x => acc + g' x) a := by
  induction l generalizing a with
  | nil => rfl
  | cons x xs ih =>
    simp only [List.foldl_cons]
    rw [h x List.mem_cons_self]
    exact ih _ (fun y hy => h y (List.mem_cons_of_mem _ hy))

/-- the piece-square look-up of the flipped square from the other perspective -/
theorem pieceSquare_flip (p : Piece) {sq : Nat} (h : sq < 64) (c : Color) (w : Rat) :
    pieceSquare p (flipRank sq) c.opp w = pieceSquare p sq c w := by
  unfold pieceSquare
  cases c <;> simp [Color.opp, flipRank_flipRank h]

/-- a sum over the ones of the flipped board is the re-indexed sum over the ones of the board -/
theorem foldl_bitsOf_bswap (b : UInt64) (g : Nat → Int) (a : Int) :
    (bitsOf (bswap b)).foldl (fun acc sq => acc + g sq) a =
      (bitsOf b).foldl (fun acc sq => acc + g (flipRank sq)) a := by
  rw [(bitsOf_bswap_perm b).foldl_eq' (by intros; omega), List.foldl_map]

/-- piece-square term -/
theorem evalSquares_mirror (s : State) (c : Color) :
    evalSquares (Variation.of (mirrorState s)) c.opp = evalSquares (Variation.of s) c := by
  unfold evalSquares
  rw [egw_mirror]
  congr 1
  funext acc p
  show (bitsOf ((mirrorPieces s.pieces).get c.opp p)).foldl _ acc = (bitsOf (s.pieces.get c p)).foldl _ acc
  rw [mirrorPieces_get, foldl_bitsOf_bswap]
  apply foldl_add_congr
  intro sq hsq
  exact pieceSquare_flip p ((mem_bitsOf _ _).1 hsq).1 c _

/-- pawn-structure term -/
theorem evalBadPawns_mirror (s : State) (c : Color) :
    evalBadPawns (Variation.of (mirrorState s)) c.opp = evalBadPawns (Variation.of s) c := by
  unfold evalBadPawns
  simp only
  congr 1
  funext acc f
  have hg : (Variation.of (mirrorState s)).s.pieces.get c.opp Piece.pawn
      = bswap ((Variation.of s).s.pieces.get c .pawn) := mirrorPieces_get _ _ _
  generalize (Variation.of s).s.pieces.get c .pawn = pawns at *
  have h1 : popcount (bswap pawns &&& fileMask f) = popcount (pawns &&& fileMask f) := by
    rw [← bswap_fileMask f, ← bswap_and, popcount_bswap, bswap_fileMask]
  have h2 : ∀ m, bswap m = m → bbNone (bswap pawns &&& m) = bbNone (pawns &&& m) := by
    intro m hm
    rw [← hm, ← bswap_and, bbNone_bswap, hm]
  have h3 : bswap ((if f = 0 then 0 else fileMask (f - 1)) ||| (if f = 7 then 0 else fileMask (f + 1)))
      = ((if f = 0 then 0 else fileMask (f - 1)) ||| (if f = 7 then 0 else fileMask (f + 1))) := by
    rw [bswap_or]; split <;> split <;> simp only [bswap_zero, bswap_fileMask]
  rw [hg, h1, h2 _ h3]

/-- each side has at most one king (part of every legality predicate; needed because
`first_one` of a two-king bitboard does not commute with the rank flip) -/
def OneKing (s : State) : Prop := ∀ c, popcount (s.pieces.get c .king) ≤ 1

theorem manhattan_flip {a b : Nat} (ha : a < 64) (hb : b < 64) :
    manhattan (flipRank a) (flipRank b) = manhattan a b := by
  unfold manhattan absDist flipRank mkSq rankOf fileOf
  split <;> split <;> split <;> split <;> omega

theorem edgeRank_flip {t : Nat} (ht : t < 64) :
    min (absDist (rankOf (flipRank t)) 0) (absDist (rankOf (flipRank t)) 7)
      = min (absDist (rankOf t) 0) (absDist (rankOf t) 7) := by
  have h1 : rankOf t ≤ 7 := by unfold rankOf; omega
  rw [rankOf_flipRank ht, absDist_zero, absDist_zero, absDist_seven h1, absDist_seven (by omega)]
  omega

/-- king-to-the-edge term -/
theorem evalKingEdge_mirror (s : State) (hk : OneKing s) (c : Color) :
    evalKingEdge (Variation.of (mirrorState s)) c.opp = evalKingEdge (Variation.of s) c := by
  unfold evalKingEdge
  have hc1 := count_mirror s c
  have hc2 := count_mirror s c.opp
  have hg1 : (Variation.of (mirrorState s)).s.pieces.get c.opp .king = bswap ((Variation.of s).s.pieces.get c .king) :=
    mirrorPieces_get _ _ _
  have hg2 : (Variation.of (mirrorState s)).s.pieces.get c.opp.opp .king = bswap ((Variation.of s).s.pieces.get c.opp .king) :=
    mirrorPieces_get _ _ _
  have hk1 : popcount ((Variation.of s).s.pieces.get c .king) ≤ 1 := hk c
  have hk2 : popcount ((Variation.of s).s.pieces.get c.opp .king) ≤ 1 := hk c.opp
  rw [egw_mirror, hc1, hc2, hg1, hg2, firstOne_bswap _ hk1, firstOne_bswap _ hk2]
  split
  · rfl
  · split
    · rfl
    · cases h1 : firstOne ((Variation.of s).s.pieces.get c .king) with
      | none => rfl
      | some ours =>
        cases h2 : firstOne ((Variation.of s).s.pieces.get c.opp .king) with
        | none => rfl
        | some theirs =>
          have ho := firstOne_lt _ _ h1
          have ht := firstOne_lt _ _ h2
          simp only [Option.map_some]
          rw [manhattan_flip ho ht, fileOf_flipRank ht]
          have := edgeRank_flip ht
          have e : (min ((absDist (rankOf (flipRank theirs)) 0 : Nat) : Int) ((absDist (rankOf (flipRank theirs)) 7 : Nat) : Int))
              = (min ((absDist (rankOf theirs) 0 : Nat) : Int) ((absDist (rankOf theirs) 7 : Nat) : Int)) := by
            omega
          rw [e]

/-- **the heuristic score is mirror-symmetric** -/
theorem evalHeuristic_mirror (s : State) (hk : OneKing s) (c : Color) :
    evalHeuristic (Variation.of (mirrorState s)) c.opp = evalHeuristic (Variation.of s) c := by
  have h1 := evalWorths_mirror s; have h2 := evalSquares_mirror s
  have h3 := evalKingEdge_mirror s hk; have h4 := evalBadPawns_mirror s
  have a1 := h1 c.opp; have a2 := h2 c.opp; have a3 := h3 c.opp; have a4 := h4 c.opp
  rw [opp_opp] at a1 a2 a3 a4
  rw [evalHeuristic_eq, evalHeuristic_eq, h1 c, h2 c, h3 c, h4 c, opp_opp, a1, a2, a3, a4]

end Wee
