import Wee.Model.Search
import Wee.Proofs.TTLemmas
import Wee.Proofs.BoundaryPoll
/-!
# Control-flow lemmas for the search model (C04, C17, C19)

* `searchNode` is cut into `nodeM` (entry: node count, poll, history, table probe) followed by `leafM`
  (quiescence) or `expandM` (move loop); the cut is definitional (`searchNode_zero`, `searchNode_succ`: `rfl`).
* every piece gets a *flat* run equation (`nodeM_run`, `expandM_run`, `childLoop_cons_run`, …) that says
  what `(x.run.run st)` is, as plain `match`/`if` over the result pairs.
* `searchNode_walk` is the generic induction over the whole recursion: an invariant `I` over the worker
  state (with a second invariant `J` for the state at an interrupt), a node predicate `N` (closed under the
  child construction) and a set `Allowed` of outcomes that may be thrown.  Every C04 fact about
  `searchNode` is an instance.
-/
namespace Wee.SearchCtl
open Wee Wee.Search

/-! ## the monad, unfolded -/

/-- simp set that turns `(x.run.run st)` of a `do` block of `M` into plain pairs -/
macro "ctl_msimp" "[" ts:Lean.Parser.Tactic.simpLemma,* "]" : tactic =>
  `(tactic| simp only [bind, ExceptT.bind, ExceptT.mk, ExceptT.run, StateT.bind, StateT.run, ExceptT.bindCont,
      modify, modifyGet, MonadStateOf.modifyGet, StateT.modifyGet, get, getThe, MonadStateOf.get, StateT.get,
      set, StateT.set, throw, throwThe, MonadExceptOf.throw, pure, ExceptT.pure, StateT.pure, liftM, monadLift,
      MonadLift.monadLift, ExceptT.lift, StateT.map, Functor.map, ↓reduceIte, Bool.false_eq_true, $ts,*])

/-- the entry of a node: count it, poll the flag when the count is a multiple of `pollInterval` -/
def tick (ctx : Ctx) (st : St) : Except Stop Unit × St :=
  if (st.nodes + 1) % Gen.pollInterval == 0 then
    if (match ctx.cancelAt with | some k => decide (st.polls ≥ k) | Option.none => false)
    then (.error .interrupt, { st with nodes := st.nodes + 1, polls := st.polls + 1 })
    else (.ok (), { st with nodes := st.nodes + 1, polls := st.polls + 1 })
  else (.ok (), { st with nodes := st.nodes + 1 })

/-- what the table probe decides -/
inductive Probe | cut (v : Eval) | window (alpha beta : Eval) | underflow

/-- the table probe of `analyze_recursive` on the result of `find` -/
def probe (a : NodeArgs) : Option TT.Entry → Probe
  | Option.none => .window a.alpha a.beta
  | some e =>
    if a.maxDepth < a.curDepth ∨ e.maxDepth < e.depth then .underflow
    else if e.maxDepth - e.depth ≥ a.maxDepth - a.curDepth then
      if e.kind == kindExact then .cut e.eval
      else if e.kind == kindUpper then
        (if a.alpha ≥ min a.beta e.eval then .cut e.eval else .window a.alpha (min a.beta e.eval))
      else (if max a.alpha e.eval ≥ a.beta then .cut e.eval else .window (max a.alpha e.eval) a.beta)
    else .window a.alpha a.beta

/-- `searchNode` up to and including the table probe; `k` is the rest -/
def nodeM (ctx : Ctx) (a : NodeArgs) (k : Eval → Eval → M Eval) : M Eval := do
    modify fun st => { st with nodes := st.nodes + 1 }
    let st ← get
    if st.nodes % Gen.pollInterval == 0 then
      let cancelled := match ctx.cancelAt with | some k => decide (st.polls ≥ k) | Option.none => false
      set { st with polls := st.polls + 1 }
      if cancelled then throw .interrupt
    let hash := Wee.hash ctx.keys a.s
    if a.curDepth > 0 && ctx.history.contains hash then return 0
    let mut alpha := a.alpha
    let mut beta := a.beta
    match (← get).tt.find hash.toNat with
    | some e =>
      if a.maxDepth < a.curDepth ∨ e.maxDepth < e.depth then throw (.panic "usize subtraction underflow")
      if e.maxDepth - e.depth ≥ a.maxDepth - a.curDepth then
        if e.kind == kindExact then return e.eval
        else if e.kind == kindUpper then beta := min beta e.eval
        else alpha := max alpha e.eval
        if alpha ≥ beta then return e.eval
    | Option.none => pure ()
    k alpha beta

/-- the remaining-depth-0 continuation: quiescence -/
def leafM (a : NodeArgs) (alpha beta : Eval) : M Eval :=
  match quiesce evaluate (quiesceFuel a.s) a.s a.curDepth alpha beta with
  | .ok v => pure v
  | .error e => throw e

/-- the ordering key of `analyze_recursive` -/
def jitterKey (s : State) (mv : Move) : M Eval := do
  let j ← jitter
  pure (estimate s mv + j)

/-- the remaining-depth-`rem'+1` continuation: sort, loop over the moves, store -/
def expandM (ctx : Ctx) (child : NodeArgs → M Eval) (a : NodeArgs) (hash : UInt64) (alpha beta : Eval) : M Eval := do
  match pseudoLegalMoves a.s with
  | Option.none => throw (.panic "move generation: Square::offset(..).unwrap()")
  | some pseudo =>
    let sorted ← sortByCachedKey pseudo fun mv => do
      let j ← jitter
      pure (estimate a.s mv + j)
    let buffer := match a.prioritized with | some m => sorted ++ [m] | Option.none => sorted
    let before := (← get).nodes
    let a' := { a with alpha := alpha, beta := beta }
    match ← childLoop ctx child a' hash buffer.reverse alpha Option.none kindUpper with
    | .error b => return b
    | .ok (alpha', best, kind) =>
      if (← get).nodes == before then
        match evaluate a.s a.s.turn a.curDepth with
        | some e => return e
        | Option.none => throw (.panic "evaluate: no king")
      match best with
      | some m =>
        let e : TT.Entry := { kind := kind, mv := m.toNat, depth := a.curDepth, maxDepth := a.maxDepth, eval := alpha' }
        modify fun st => { st with tt := st.tt.insert hash.toNat e }
      | Option.none => pure ()
      return alpha'

/-- `searchNode` at remaining depth 0 (definitional) -/
theorem searchNode_zero (ctx : Ctx) (a : NodeArgs) :
    searchNode ctx 0 a = nodeM ctx a (leafM a) := rfl

/-- `searchNode` at remaining depth `rem+1` (definitional) -/
theorem searchNode_succ (ctx : Ctx) (rem : Nat) (a : NodeArgs) :
    searchNode ctx (rem+1) a = nodeM ctx a (expandM ctx (searchNode ctx rem) a (Wee.hash ctx.keys a.s)) := rfl

/-- the continuation after the probe, for any remaining depth -/
def contM (ctx : Ctx) (rem : Nat) (a : NodeArgs) : Eval → Eval → M Eval :=
  match rem with
  | 0 => leafM a
  | rem' + 1 => expandM ctx (searchNode ctx rem') a (Wee.hash ctx.keys a.s)

theorem searchNode_eq (ctx : Ctx) (rem : Nat) (a : NodeArgs) :
    searchNode ctx rem a = nodeM ctx a (contM ctx rem a) := by
  cases rem <;> rfl

/-- flat form of the node entry -/
theorem nodeM_run (ctx : Ctx) (a : NodeArgs) (k : Eval → Eval → M Eval) (st : St) :
    (nodeM ctx a k).run.run st =
      match tick ctx st with
      | (.error e, st1) => (.error e, st1)
      | (.ok _, st1) =>
        if a.curDepth > 0 && ctx.history.contains (Wee.hash ctx.keys a.s) then (.ok 0, st1) else
        match probe a (st1.tt.find (Wee.hash ctx.keys a.s).toNat) with
        | .underflow => (.error (.panic "usize subtraction underflow"), st1)
        | .cut v => (.ok v, st1)
        | .window alpha beta => (k alpha beta).run.run st1 := by
  unfold nodeM tick
  by_cases h1 : ((st.nodes + 1) % Gen.pollInterval == 0) = true <;>
  by_cases h2 : (match ctx.cancelAt with | some k => decide (st.polls ≥ k) | Option.none => false) = true <;>
  by_cases h3 : (decide (a.curDepth > 0) && ctx.history.contains (Wee.hash ctx.keys a.s)) = true <;>
  ctl_msimp [h1, h2, h3]
  all_goals
    cases h4 : st.tt.find (Wee.hash ctx.keys a.s).toNat with
    | none => simp only [probe]
    | some e =>
      by_cases c1 : a.maxDepth < a.curDepth ∨ e.maxDepth < e.depth <;>
      by_cases c2 : e.maxDepth - e.depth ≥ a.maxDepth - a.curDepth <;>
      by_cases c3 : (e.kind == kindExact) = true <;>
      by_cases c4 : (e.kind == kindUpper) = true <;>
      by_cases c5 : a.alpha ≥ min a.beta e.eval <;>
      by_cases c6 : max a.alpha e.eval ≥ a.beta <;>
      (simp only [probe, c1, c2, c3, c4, c5, c6, ↓reduceIte, StateT.bind, StateT.pure, ExceptT.bindCont, pure,
        Bool.false_eq_true]) <;> (try rfl)

theorem leafM_run (a : NodeArgs) (alpha beta : Eval) (st : St) :
    (leafM a alpha beta).run.run st =
      (match quiesce evaluate (quiesceFuel a.s) a.s a.curDepth alpha beta with
       | .ok v => .ok v | .error e => .error e, st) := by
  unfold leafM
  cases quiesce evaluate (quiesceFuel a.s) a.s a.curDepth alpha beta <;> rfl

/-! ## generator-only computations: `jitter`, the ordering key, the sort -/

theorem jitter_run (st : St) :
    jitter.run.run st =
      (.ok (Rng.genRangeI32 Gen.jitterLo Gen.jitterHi st.rng).1,
       { st with rng := (Rng.genRangeI32 Gen.jitterLo Gen.jitterHi st.rng).2 }) := by
  unfold jitter
  ctl_msimp []

/-- a computation that cannot fail, only touches the generator and returns a value satisfying `P` -/
def RngOnly {α : Type} (x : M α) (P : α → Prop) : Prop :=
  ∀ st, ∃ v r, x.run.run st = (.ok v, { st with rng := r }) ∧ P v

theorem RngOnly.pure {α : Type} {P : α → Prop} (v : α) (h : P v) : RngOnly (pure v : M α) P :=
  fun st => ⟨v, st.rng, rfl, h⟩

theorem bind_run {α β : Type} (x : M α) (f : α → M β) (st : St) :
    (x >>= f).run.run st = (match x.run.run st with
      | (.ok v, s) => (f v).run.run s
      | (.error e, s) => (.error e, s)) := by
  ctl_msimp []
  cases hh : x st with
  | mk p s => cases p <;> rfl

theorem RngOnly.bind {α β : Type} {x : M α} {f : α → M β} {P : α → Prop} {Q : β → Prop}
    (hx : RngOnly x P) (hf : ∀ v, P v → RngOnly (f v) Q) : RngOnly (x >>= f) Q := by
  intro st
  obtain ⟨v, r, h, hp⟩ := hx st
  obtain ⟨w, r', h', hq⟩ := hf v hp { st with rng := r }
  refine ⟨w, r', ?_, hq⟩
  rw [bind_run, h]
  exact h'

theorem jitter_rngOnly : RngOnly jitter (fun _ => True) := fun st => ⟨_, _, jitter_run st, trivial⟩

theorem jitterKey_rngOnly (s : State) (mv : Move) : RngOnly (jitterKey s mv) (fun _ => True) := by
  unfold jitterKey
  exact jitter_rngOnly.bind (fun j _ => RngOnly.pure _ trivial)

theorem mapM_rngOnly {α β : Type} (f : α → M β) (g : β → α)
   (hg : ∀ x, RngOnly (f x) (fun y => g y = x)) :
    ∀ xs : List α, RngOnly (xs.mapM f) (fun ys => ys.map g = xs) := by
  intro xs
  induction xs with
  | nil => exact RngOnly.pure _ rfl
  | cons x xs ih =>
    rw [List.mapM_cons]
    refine (hg x).bind (fun y hy => ?_)
    refine ih.bind (fun ys hys => ?_)
    exact RngOnly.pure _ (by simp [hy, hys])

theorem sort_rngOnly (s : State) (xs : List Move) :
    RngOnly (sortByCachedKey xs fun mv => do let j ← jitter; pure (estimate s mv + j)) (fun ys => ys.Perm xs) := by
  unfold sortByCachedKey
  by_cases h : xs.length < 2
  · simp only [h, ↓reduceIte]
    exact RngOnly.pure _ (List.Perm.refl _)
  · simp only [h, ↓reduceIte]
    refine (mapM_rngOnly _ (·.2) (fun x => ?_) xs).bind (fun ys hys => ?_)
    · exact (jitter_rngOnly.bind (Q := fun _ => True) (fun j _ => RngOnly.pure _ trivial)).bind
        (fun k _ => RngOnly.pure _ rfl)
    · refine RngOnly.pure _ ?_
      rw [← hys]
      exact (List.mergeSort_perm _ _).map _

/-! ## the move loop and the expansion, flat -/

/-- the arguments of the recursive call for the successor `next` when the current best is `alpha` -/
def childArgs (a : NodeArgs) (next : State) (alpha : Eval) : NodeArgs :=
  { s := next
    maxDepth := a.maxDepth + (if a.curExt < Gen.extensionCap then extensionOf a.s else 0)
    curDepth := a.curDepth + 1 + (if a.curExt < Gen.extensionCap then extensionOf a.s else 0)
    curExt := a.curExt + (if a.curExt < Gen.extensionCap then extensionOf a.s else 0)
    alpha := -a.beta, beta := -alpha, prioritized := Option.none }

/-- the entry written by node `a` for move `m` -/
def entryOf (a : NodeArgs) (kind : Nat) (m : Move) (ev : Eval) : TT.Entry :=
  { kind := kind, mv := m.toNat, depth := a.curDepth, maxDepth := a.maxDepth, eval := ev }

def _root_.Wee.Search.St.ctlInsert (st : St) (k : Nat) (e : TT.Entry) : St := { st with tt := st.tt.insert k e }

theorem childLoop_nil_run (ctx : Ctx) (child : NodeArgs → M Eval) (a : NodeArgs) (hash : UInt64)
    (alpha : Eval) (best : Option Move) (kind : Nat) (st : St) :
    (childLoop ctx child a hash [] alpha best kind).run.run st = (.ok (.ok (alpha, best, kind)), st) := by
  rw [childLoop]; rfl

theorem childLoop_cons_run (ctx : Ctx) (child : NodeArgs → M Eval) (a : NodeArgs) (hash : UInt64)
    (mv : Move) (rest : List Move) (alpha : Eval) (best : Option Move) (kind : Nat) (st : St) :
    (childLoop ctx child a hash (mv :: rest) alpha best kind).run.run st =
      match tryAsLegal a.s mv with
      | Option.none => (.error (.panic "try_as_legal_move: by_performing_move(..).unwrap()"), st)
      | some Option.none => (childLoop ctx child a hash rest alpha best kind).run.run st
      | some (some (m, next)) =>
        match (child (childArgs a next alpha)).run.run st with
        | (.error e, st') => (.error e, st')
        | (.ok v, st') =>
          if -v ≥ a.beta then (.ok (.error a.beta), st'.ctlInsert hash.toNat (entryOf a kindLower m a.beta))
          else if -v > alpha then (childLoop ctx child a hash rest (-v) (some m) kindExact).run.run st'
          else (childLoop ctx child a hash rest alpha best kind).run.run st' := by
  rw [childLoop]
  cases h : tryAsLegal a.s mv with
  | none => rfl
  | some o =>
    cases o with
    | none => rfl
    | some r =>
      obtain ⟨m, next⟩ := r
      simp only []
      rw [bind_run]
      unfold childArgs
      generalize StateT.run (ExceptT.run (child _)) st = out
      obtain ⟨r, st'⟩ := out
      · 
        cases r with
        | error e => rfl
        | ok v =>
          simp only []
          by_cases c1 : -v ≥ a.beta
          · simp only [c1, ↓reduceIte]; rfl
          · by_cases c2 : -v > alpha <;> simp only [c1, c2, ↓reduceIte]
theorem get_bind_run {α : Type} (f : St → M α) (st : St) :
    ((get : M St) >>= f).run.run st = (f st).run.run st := rfl

/-- the move buffer: sorted pseudo-legal moves, then the prioritized move (searched first, from the back) -/
def bufferOf (prio : Option Move) (sorted : List Move) : List Move :=
  match prio with | some m => sorted ++ [m] | Option.none => sorted

theorem expandM_run (ctx : Ctx) (child : NodeArgs → M Eval) (a : NodeArgs) (hash : UInt64) (alpha beta : Eval)
    (st : St) :
    (expandM ctx child a hash alpha beta).run.run st =
      match pseudoLegalMoves a.s with
      | Option.none => (.error (.panic "move generation: Square::offset(..).unwrap()"), st)
      | some pseudo =>
        match (sortByCachedKey pseudo fun mv => do let j ← jitter; pure (estimate a.s mv + j)).run.run st with
        | (.error e, st1) => (.error e, st1)
        | (.ok sorted, st1) =>
          match (childLoop ctx child { a with alpha := alpha, beta := beta } hash
                  (bufferOf a.prioritized sorted).reverse alpha Option.none kindUpper).run.run st1 with
          | (.error e, st2) => (.error e, st2)
          | (.ok (.error b), st2) => (.ok b, st2)
          | (.ok (.ok (alpha', best, kind)), st2) =>
            if st2.nodes == st1.nodes then
              (match evaluate a.s a.s.turn a.curDepth with
               | some e => (.ok e, st2)
               | Option.none => (.error (.panic "evaluate: no king"), st2))
            else match best with
              | some m => (.ok alpha', st2.ctlInsert hash.toNat (entryOf a kind m alpha'))
              | Option.none => (.ok alpha', st2) := by
  unfold expandM
  cases hp : pseudoLegalMoves a.s with
  | none => rfl
  | some pseudo =>
    simp only []
    rw [bind_run]
    generalize StateT.run (ExceptT.run (sortByCachedKey pseudo _)) st = out1
    obtain ⟨r1, st1⟩ := out1
    cases r1 with
    | error e => rfl
    | ok sorted =>
      simp only []
      rw [get_bind_run, bind_run]
      unfold bufferOf
      generalize StateT.run (ExceptT.run (childLoop ctx child _ hash _ alpha Option.none kindUpper)) st1 = out2
      obtain ⟨r2, st2⟩ := out2
      cases r2 with
      | error e => rfl
      | ok x =>
        cases x with
        | error b => rfl
        | ok y =>
          obtain ⟨alpha', best, kind⟩ := y
          simp only []
          rw [get_bind_run]
          by_cases hn : (st2.nodes == st1.nodes) = true
          · simp only [hn, ↓reduceIte]
            cases evaluate a.s a.s.turn a.curDepth <;> rfl
          · simp only [hn]
            cases best <;> rfl

/-! ## quiescence: generic induction -/

/-- hypotheses of the induction over `quiescence_search`: `F fuel s` is the precondition of a call -/
structure QWalk (ev : State → Color → Nat → Option Eval) (F : Nat → State → Prop) (Allowed : Stop → Prop) : Prop where
  fuel0 : ∀ s, F 0 s →
    Allowed (.panic "quiescence fuel exhausted (cannot happen: each capture removes a piece)")
  gen : ∀ fuel s, F (fuel+1) s → legalMoves? s = Option.none → Allowed (.panic "move generation")
  eval : ∀ fuel s d, F (fuel+1) s → ev s s.turn d = Option.none → Allowed (.panic "evaluate: no king")
  capture : ∀ fuel s ms r, F (fuel+1) s → legalMoves? s = some ms → r ∈ ms → Move.isCapture r.1 = true → F fuel r.2

theorem quiesce_loop_walk {ev : State → Color → Nat → Option Eval} {F : Nat → State → Prop} {Allowed : Stop → Prop}
    (fuel : Nat) (ih : ∀ s d α β e, F fuel s → quiesce ev fuel s d α β = .error e → Allowed e)
    (depth : Nat) (beta : Eval) :
    ∀ (l : List (Move × State)), (∀ r ∈ l, Move.isCapture r.1 = true → F fuel r.2) →
      ∀ alpha e, quiesce.loop ev fuel depth beta l alpha = .error e → Allowed e := by
  intro l
  induction l with
  | nil => intro _ alpha e h; rw [quiesce.loop.eq_1] at h; cases h
  | cons r rest ihl =>
    intro hl alpha e h
    have hrest : ∀ r ∈ rest, Move.isCapture r.1 = true → F fuel r.2 :=
      fun x hx => hl x (List.mem_cons_of_mem _ hx)
    rw [quiesce.loop.eq_2] at h
    by_cases hc : (!Move.isCapture r.1) = true
    · rw [if_pos hc] at h; exact ihl hrest alpha e h
    · rw [if_neg hc] at h
      have hcap : Move.isCapture r.1 = true := by simpa using hc
      cases hq : quiesce ev fuel r.2 (depth + 1) (-beta) (-alpha) with
      | error e' =>
        rw [hq] at h
        cases h
        exact ih _ _ _ _ _ (hl r List.mem_cons_self hcap) hq
      | ok v =>
        rw [hq] at h
        simp only [] at h
        by_cases c1 : -v ≥ beta
        · rw [if_pos c1] at h; cases h
        · rw [if_neg c1] at h; exact ihl hrest _ e h

theorem quiesce_walk {ev : State → Color → Nat → Option Eval} {F : Nat → State → Prop} {Allowed : Stop → Prop}
    (W : QWalk ev F Allowed) :
    ∀ fuel s d α β e, F fuel s → quiesce ev fuel s d α β = .error e → Allowed e := by
  intro fuel
  induction fuel with
  | zero =>
    intro s d α β e hF h
    rw [quiesce.eq_1] at h
    cases h
    exact W.fuel0 s hF
  | succ fuel ih =>
    intro s d α β e hF h
    rw [quiesce.eq_2] at h
    cases hg : legalMoves? s with
    | none => rw [hg] at h; cases h; exact W.gen fuel s hF hg
    | some ms =>
      rw [hg] at h
      simp only [] at h
      cases hev : ev s s.turn d with
      | none =>
        rw [hev] at h
        simp only [] at h
        have := W.eval fuel s d hF hev
        split at h <;> (cases h; exact this)
      | some normal =>
        rw [hev] at h
        simp only [] at h
        split at h
        · cases h
        · split at h
          · cases h
          · split at h
            · cases h
            · refine quiesce_loop_walk fuel ih d β _ ?_ _ e h
              intro r hr hcap
              refine W.capture fuel s ms r hF hg ?_ hcap
              split at hr
              · exact hr
              · obtain ⟨x, hx, rfl⟩ := List.mem_map.1 hr
                have := (List.mergeSort_perm _ _).mem_iff.1 hx
                obtain ⟨y, hy, rfl⟩ := List.mem_map.1 this
                exact hy

/-- `quiescence_search` has no way to return `SearchInterrupt` -/
theorem quiesce_error_panic (ev : State → Color → Nat → Option Eval) (fuel : Nat) (s : State) (d : Nat) (α β : Eval)
    (e : Stop) (h : quiesce ev fuel s d α β = .error e) : ∃ w, e = .panic w :=
  quiesce_walk (F := fun _ _ => True) (Allowed := fun e => ∃ w, e = .panic w)
    ⟨fun _ _ => ⟨_, rfl⟩, fun _ _ _ _ => ⟨_, rfl⟩, fun _ _ _ _ _ => ⟨_, rfl⟩, fun _ _ _ _ _ _ _ _ => trivial⟩
    fuel s d α β e trivial h

/-! ## the generic induction over `searchNode` -/

/-- outcome predicate: `I` on normal return and at a panic, `J` at an interrupt, thrown values in `Allowed` -/
def Post {α : Type} (I J : St → Prop) (Allowed : Stop → Prop) : Except Stop α × St → Prop
  | (.ok _, st') => I st'
  | (.error .interrupt, st') => Allowed .interrupt ∧ J st'
  | (.error (.panic w), st') => Allowed (.panic w) ∧ I st'

/-- where a move of the buffer comes from -/
def InBuffer (a : NodeArgs) (pseudo : List Move) (mv : Move) : Prop := mv ∈ pseudo ∨ a.prioritized = some mv

/-- the hypotheses of the generic induction over the search recursion -/
structure Walk (ctx : Ctx) (I J : St → Prop) (N : Nat → NodeArgs → Prop) (Allowed : Stop → Prop) : Prop where
  /-- counting the node / polling the flag -/
  tick : ∀ st, I st → Post I J Allowed (tick ctx st)
  /-- drawing from the generator -/
  rng : ∀ st r, I st → I { st with rng := r }
  /-- the usize subtractions of the table probe -/
  underflow : ∀ rem a st e, N rem a → I st → st.tt.find (Wee.hash ctx.keys a.s).toNat = some e →
    (a.maxDepth < a.curDepth ∨ e.maxDepth < e.depth) → Allowed (.panic "usize subtraction underflow")
  /-- quiescence at remaining depth 0 -/
  leaf : ∀ a alpha beta e, N 0 a → quiesce evaluate (quiesceFuel a.s) a.s a.curDepth alpha beta = .error e → Allowed e
  /-- pseudo-legal move generation -/
  pseudo : ∀ rem a, N (rem+1) a → pseudoLegalMoves a.s = Option.none →
    Allowed (.panic "move generation: Square::offset(..).unwrap()")
  /-- `try_as_legal_move` on a buffer move -/
  legal : ∀ rem a pseudo mv, N (rem+1) a → pseudoLegalMoves a.s = some pseudo → InBuffer a pseudo mv →
    tryAsLegal a.s mv = Option.none → Allowed (.panic "try_as_legal_move: by_performing_move(..).unwrap()")
  /-- `evaluate` of a node without legal moves -/
  eval : ∀ rem a, N (rem+1) a → evaluate a.s a.s.turn a.curDepth = Option.none → Allowed (.panic "evaluate: no king")
  /-- the node predicate does not look at the window -/
  window : ∀ rem a alpha beta, N rem a → N rem { a with alpha := alpha, beta := beta }
  /-- the node predicate passes to the children -/
  child : ∀ rem a pseudo mv m next alpha, N (rem+1) a → pseudoLegalMoves a.s = some pseudo → InBuffer a pseudo mv →
    tryAsLegal a.s mv = some (some (m, next)) → N rem (childArgs a next alpha)
  /-- the writes of a node that was not cut by the history -/
  insert : ∀ rem a pseudo mv m next kind ev st, N (rem+1) a → I st →
    ¬ (a.curDepth > 0 ∧ ctx.history.contains (Wee.hash ctx.keys a.s) = true) →
    pseudoLegalMoves a.s = some pseudo → InBuffer a pseudo mv → tryAsLegal a.s mv = some (some (m, next)) →
    I (st.ctlInsert (Wee.hash ctx.keys a.s).toNat (entryOf a kind m ev))

/-- outcome predicate of the move loop: additionally the best move is the result of a buffer move -/
def PostL (I J : St → Prop) (Allowed : Stop → Prop) (a : NodeArgs) (pseudo : List Move) :
    Except Stop (Except Eval (Eval × Option Move × Nat)) × St → Prop
  | (.ok (.error _), st') => I st'
  | (.ok (.ok (_, best, _)), st') => I st' ∧
      ∀ m, best = some m → ∃ mv next, InBuffer a pseudo mv ∧ tryAsLegal a.s mv = some (some (m, next))
  | (.error .interrupt, st') => Allowed .interrupt ∧ J st'
  | (.error (.panic w), st') => Allowed (.panic w) ∧ I st'

theorem childLoop_walk {ctx : Ctx} {I J : St → Prop} {N : Nat → NodeArgs → Prop} {Allowed : Stop → Prop}
    (W : Walk ctx I J N Allowed) (rem : Nat) (child : NodeArgs → M Eval)
    (ih : ∀ a st, N rem a → I st → Post I J Allowed ((child a).run.run st))
    (a : NodeArgs) (pseudo : List Move) (hN : N (rem+1) a) (hp : pseudoLegalMoves a.s = some pseudo)
    (hcut : ¬ (a.curDepth > 0 ∧ ctx.history.contains (Wee.hash ctx.keys a.s) = true)) :
    ∀ (l : List Move), (∀ mv ∈ l, InBuffer a pseudo mv) → ∀ (alpha : Eval) (best : Option Move) (kind : Nat) (st : St),
      I st → (∀ m, best = some m → ∃ mv next, InBuffer a pseudo mv ∧ tryAsLegal a.s mv = some (some (m, next))) →
      PostL I J Allowed a pseudo
        ((childLoop ctx child a (Wee.hash ctx.keys a.s) l alpha best kind).run.run st) := by
  intro l
  induction l with
  | nil =>
    intro _ alpha best kind st hI hb
    rw [childLoop_nil_run]
    exact ⟨hI, hb⟩
  | cons mv rest ihl =>
    intro hl alpha best kind st hI hb
    have hmv := hl mv (List.mem_cons_self)
    have hrest : ∀ mv ∈ rest, InBuffer a pseudo mv := fun x hx => hl x (List.mem_cons_of_mem _ hx)
    rw [childLoop_cons_run]
    cases ht : tryAsLegal a.s mv with
    | none => exact ⟨W.legal rem a pseudo mv hN hp hmv ht, hI⟩
    | some o =>
      cases o with
      | none => exact ihl hrest alpha best kind st hI hb
      | some r =>
        obtain ⟨m, next⟩ := r
        simp only []
        have hc := ih (childArgs a next alpha) st (W.child rem a pseudo mv m next alpha hN hp hmv ht) hI
        generalize (child (childArgs a next alpha)).run.run st = out at hc
        obtain ⟨r, st'⟩ := out
        cases r with
        | error e =>
          cases e with
          | interrupt => exact hc
          | panic w => exact hc
        | ok v =>
          have hI' : I st' := hc
          simp only []
          by_cases c1 : -v ≥ a.beta
          · simp only [c1, ↓reduceIte]
            exact W.insert rem a pseudo mv m next kindLower a.beta st' hN hI' hcut hp hmv ht
          · by_cases c2 : -v > alpha
            · simp only [c1, c2, ↓reduceIte]
              refine ihl hrest (-v) (some m) kindExact st' hI' ?_
              intro m' hm'
              cases hm'
              exact ⟨mv, next, hmv, ht⟩
            · simp only [c1, c2, ↓reduceIte]
              exact ihl hrest alpha best kind st' hI' hb

theorem mem_bufferOf {a : NodeArgs} {pseudo sorted : List Move} (hs : sorted.Perm pseudo) :
    ∀ mv ∈ (bufferOf a.prioritized sorted).reverse, InBuffer a pseudo mv := by
  intro mv hmv
  rw [List.mem_reverse] at hmv
  unfold bufferOf at hmv
  cases hpr : a.prioritized with
  | none => rw [hpr] at hmv; exact Or.inl (hs.mem_iff.1 hmv)
  | some m =>
    rw [hpr] at hmv
    simp only [List.mem_append, List.mem_singleton] at hmv
    rcases hmv with h | h
    · exact Or.inl (hs.mem_iff.1 h)
    · exact Or.inr (by rw [hpr, h])

theorem nodeM_walk {ctx : Ctx} {I J : St → Prop} {N : Nat → NodeArgs → Prop} {Allowed : Stop → Prop}
    (W : Walk ctx I J N Allowed) (rem : Nat) (a : NodeArgs) (st : St) (k : Eval → Eval → M Eval)
    (hN : N rem a) (hI : I st)
    (hk : ¬ (a.curDepth > 0 ∧ ctx.history.contains (Wee.hash ctx.keys a.s) = true) →
      ∀ alpha beta st1, I st1 → Post I J Allowed ((k alpha beta).run.run st1)) :
    Post I J Allowed ((nodeM ctx a k).run.run st) := by
  rw [nodeM_run]
  have ht := W.tick st hI
  generalize tick ctx st = out at ht
  obtain ⟨r, st1⟩ := out
  cases r with
  | error e => simp only []; cases e <;> exact ht
  | ok u =>
    have hI1 : I st1 := ht
    simp only []
    by_cases hc : (decide (a.curDepth > 0) && ctx.history.contains (Wee.hash ctx.keys a.s)) = true
    · rw [if_pos hc]; exact hI1
    · rw [if_neg hc]
      have hc' : ¬ (a.curDepth > 0 ∧ ctx.history.contains (Wee.hash ctx.keys a.s) = true) := by
        simpa using hc
      cases hf : st1.tt.find (Wee.hash ctx.keys a.s).toNat with
      | none => exact hk hc' _ _ st1 hI1
      | some e =>
        unfold probe
        simp only []
        by_cases c1 : a.maxDepth < a.curDepth ∨ e.maxDepth < e.depth
        · rw [if_pos c1]; exact ⟨W.underflow rem a st1 e hN hI1 hf c1, hI1⟩
        · rw [if_neg c1]
          by_cases c2 : e.maxDepth - e.depth ≥ a.maxDepth - a.curDepth
          · rw [if_pos c2]
            by_cases c3 : (e.kind == kindExact) = true
            · rw [if_pos c3]; exact hI1
            · rw [if_neg c3]
              by_cases c4 : (e.kind == kindUpper) = true
              · rw [if_pos c4]
                by_cases c5 : a.alpha ≥ min a.beta e.eval
                · rw [if_pos c5]; exact hI1
                · rw [if_neg c5]; exact hk hc' _ _ st1 hI1
              · rw [if_neg c4]
                by_cases c6 : max a.alpha e.eval ≥ a.beta
                · rw [if_pos c6]; exact hI1
                · rw [if_neg c6]; exact hk hc' _ _ st1 hI1
          · rw [if_neg c2]; exact hk hc' _ _ st1 hI1

/-- **the generic induction over the search recursion** -/
theorem searchNode_walk {ctx : Ctx} {I J : St → Prop} {N : Nat → NodeArgs → Prop} {Allowed : Stop → Prop}
    (W : Walk ctx I J N Allowed) :
    ∀ (rem : Nat) (a : NodeArgs) (st : St), N rem a → I st →
      Post I J Allowed ((searchNode ctx rem a).run.run st) := by
  intro rem
  induction rem with
  | zero =>
    intro a st hN hI
    rw [searchNode_zero]
    refine nodeM_walk W 0 a st _ hN hI (fun _ alpha beta st1 hI1 => ?_)
    rw [leafM_run]
    cases hq : quiesce evaluate (quiesceFuel a.s) a.s a.curDepth alpha beta with
    | ok v => exact hI1
    | error e =>
      have := W.leaf a _ _ e hN hq
      obtain ⟨w, rfl⟩ := quiesce_error_panic _ _ _ _ _ _ _ hq
      exact ⟨this, hI1⟩
  | succ rem ih =>
    intro a st hN hI
    rw [searchNode_succ]
    refine nodeM_walk W (rem+1) a st _ hN hI (fun hcut alpha beta st1 hI1 => ?_)
    rw [expandM_run]
    cases hp : pseudoLegalMoves a.s with
    | none => exact ⟨W.pseudo rem a hN hp, hI1⟩
    | some pseudo =>
      simp only []
      obtain ⟨sorted, r, hs, hperm⟩ := sort_rngOnly a.s pseudo st1
      rw [hs]
      simp only []
      have hI2 := W.rng st1 r hI1
      have hN' := W.window (rem+1) a alpha beta hN
      have hl := childLoop_walk W rem (searchNode ctx rem) ih { a with alpha := alpha, beta := beta } pseudo hN' hp hcut
        _ (mem_bufferOf (a := { a with alpha := alpha, beta := beta }) hperm) alpha Option.none kindUpper _ hI2
        (by intro m hm; cases hm)
      generalize (childLoop ctx (searchNode ctx rem) { a with alpha := alpha, beta := beta } (Wee.hash ctx.keys a.s)
        (bufferOf a.prioritized sorted).reverse alpha Option.none kindUpper).run.run
          { st1 with rng := r } = out at hl
      obtain ⟨r2, st2⟩ := out
      cases r2 with
      | error e => cases e <;> exact hl
      | ok x =>
        cases x with
        | error b => exact hl
        | ok y =>
          obtain ⟨alpha', best, kind⟩ := y
          obtain ⟨hI3, hb⟩ := hl
          simp only []
          split
          · cases he : evaluate a.s a.s.turn a.curDepth with
            | some v => exact hI3
            | none => exact ⟨W.eval rem a hN he, hI3⟩
          · cases best with
            | none => exact hI3
            | some m =>
              obtain ⟨mv, next, hmv, ht⟩ := hb m rfl
              exact W.insert rem a pseudo mv m next kind alpha' st2 hN hI3 hcut hp hmv ht


/-! ## instance: the counters once `Stop` is visible -/

/-- the flag answers "cancelled" to this poll -/
def cancelledAt (ctx : Ctx) (st : St) : Bool :=
  match ctx.cancelAt with | some k => decide (st.polls ≥ k) | Option.none => false

theorem tick_eq (ctx : Ctx) (st : St) :
    tick ctx st =
      if (st.nodes + 1) % Gen.pollInterval = 0 then
        if cancelledAt ctx st = true
        then (.error .interrupt, { st with nodes := st.nodes + 1, polls := st.polls + 1 })
        else (.ok (), { st with nodes := st.nodes + 1, polls := st.polls + 1 })
      else (.ok (), { st with nodes := st.nodes + 1 }) := by
  unfold tick cancelledAt
  by_cases h : (st.nodes + 1) % Gen.pollInterval = 0
  · (simp only [h, beq_self_eq_true, ↓reduceIte]) <;> rfl
  · simp only [h, ↓reduceIte, beq_iff_eq]

/-- `Stop` is visible (`polls ≥ k`), the node counter is in the poll interval number `c`, counters only grow -/
def StopI (k c n0 : Nat) (st : St) : Prop := k ≤ st.polls ∧ st.nodes / Gen.pollInterval = c ∧ n0 ≤ st.nodes

/-- the state at the interrupt: the counter is exactly the next multiple of the poll interval -/
def StopJ (c : Nat) (st : St) : Prop := st.nodes = (c + 1) * Gen.pollInterval

theorem stop_walk (ctx : Ctx) (k : Nat) (hk : ctx.cancelAt = some k) (c n0 : Nat) :
    Walk ctx (StopI k c n0) (StopJ c) (fun _ _ => True) (fun _ => True) where
  tick := by
    intro st ⟨h1, h2, h3⟩
    rw [tick_eq]
    have hc : cancelledAt ctx st = true := by
      unfold cancelledAt; rw [hk]; simpa using h1
    unfold Gen.pollInterval at *
    by_cases h : (st.nodes + 1) % 10000 = 0
    · rw [if_pos h, if_pos hc]
      refine ⟨trivial, ?_⟩
      show st.nodes + 1 = (c + 1) * 10000
      omega
    · rw [if_neg h]
      refine ⟨h1, ?_, ?_⟩
      · show (st.nodes + 1) / 10000 = c
        omega
      · show n0 ≤ st.nodes + 1
        omega
  rng := fun _ _ h => h
  underflow := fun _ _ _ _ _ _ _ _ => trivial
  leaf := fun _ _ _ _ _ _ => trivial
  pseudo := fun _ _ _ _ => trivial
  legal := fun _ _ _ _ _ _ _ _ => trivial
  eval := fun _ _ _ _ => trivial
  window := fun _ _ _ _ _ => trivial
  child := fun _ _ _ _ _ _ _ _ _ _ _ => trivial
  insert := fun _ _ _ _ _ _ _ _ _ _ h _ _ _ _ => h

end Wee.SearchCtl

namespace Wee.TT

/-! ## a property of every stored entry (no well-formedness of the table needed) -/

/-- every entry stored anywhere in the access layer satisfies `P` -/
def Access.All (P : Entry → Prop) (a : Access) : Prop :=
  ∀ t ∈ a.tables, ∀ b ∈ t.buckets, ∀ k e, some (k, e) ∈ b → P e

theorem Access.All.findB_mem {b : List Slot} {k : Nat} {e : Entry} (h : findB b k = some e) : some (k, e) ∈ b := by
  induction b with
  | nil => cases h
  | cons s rest ih =>
    cases s with
    | none => exact List.mem_cons_of_mem _ (ih (by simpa [findB] using h))
    | some p =>
      obtain ⟨k', e'⟩ := p
      by_cases hk : k' = k
      · subst hk
        simp [findB] at h
        subst h
        exact List.mem_cons_self
      · simp only [findB, if_neg hk] at h
        exact List.mem_cons_of_mem _ (ih h)

theorem Access.All.scan_mem {b : List Slot} {k : Nat} {e : Entry} {r : List Slot} {i : Bool} (h : scan b k e = some (r, i)) :
    ∀ s ∈ r, s ∈ b ∨ s = some (k, e) := by
  induction b generalizing r i with
  | nil => cases h
  | cons s0 rest ih =>
    cases s0 with
    | none =>
      simp only [scan, Option.some.injEq, Prod.mk.injEq] at h
      obtain ⟨rfl, rfl⟩ := h
      intro s hs
      rcases List.mem_cons.1 hs with rfl | hs
      · exact Or.inr rfl
      · exact Or.inl (List.mem_cons_of_mem _ hs)
    | some p =>
      obtain ⟨k', e'⟩ := p
      by_cases hk : k' = k
      · simp only [scan, if_pos hk, Option.some.injEq, Prod.mk.injEq] at h
        obtain ⟨rfl, rfl⟩ := h
        intro s hs
        rcases List.mem_cons.1 hs with rfl | hs
        · exact Or.inr rfl
        · exact Or.inl (List.mem_cons_of_mem _ hs)
      · simp only [scan, if_neg hk] at h
        cases hs : scan rest k e with
        | none => rw [hs] at h; cases h
        | some ri =>
          obtain ⟨r', i'⟩ := ri
          rw [hs] at h
          simp only [Option.some.injEq, Prod.mk.injEq] at h
          obtain ⟨rfl, rfl⟩ := h
          intro s hsm
          rcases List.mem_cons.1 hsm with rfl | hsm
          · exact Or.inl List.mem_cons_self
          · rcases ih hs s hsm with h1 | h1
            · exact Or.inl (List.mem_cons_of_mem _ h1)
            · exact Or.inr h1

theorem Access.All.insertB_mem (b : List Slot) (k : Nat) (e : Entry) :
    ∀ s ∈ (insertB b k e).1, s ∈ b ∨ s = some (k, e) := by
  unfold insertB
  cases hs : scan b k e with
  | some ri => obtain ⟨r, i⟩ := ri; exact Access.All.scan_mem hs
  | none =>
    intro s hm
    rcases List.mem_or_eq_of_mem_set hm with h | h
    · exact Or.inl h
    · exact Or.inr h

theorem Access.All.mem_getD_or {α : Type} (l : List α) (i : Nat) (d : α) : l.getD i d ∈ l ∨ l.getD i d = d := by
  by_cases h : i < l.length
  · left; simp [List.getD_eq_getElem?_getD, h]
  · right; simp [List.getD_eq_getElem?_getD, Nat.not_lt.1 h]

theorem Access.All.find {P : Entry → Prop} {a : Access} (h : a.All P) {k : Nat} {e : Entry}
    (hf : a.find k = some e) : P e := by
  unfold Access.find Table.find at hf
  have hm := Access.All.findB_mem hf
  rcases Access.All.mem_getD_or a.tables (k % a.tables.length) default with ht | ht
  · rcases Access.All.mem_getD_or (a.tables.getD (k % a.tables.length) default).buckets
      (k % (a.tables.getD (k % a.tables.length) default).buckets.length) [] with hb | hb
    · exact h _ ht _ hb k e hm
    · rw [hb] at hm; cases hm
  · rw [ht] at hm
    change some (k, e) ∈ ([] : List (List Slot)).getD _ [] at hm
    simp at hm

theorem Access.All.insert {P : Entry → Prop} {a : Access} (h : a.All P) (k : Nat) (e : Entry) (he : P e) :
    (a.insert k e).All P := by
  intro t ht b hb k' e' hm
  unfold Access.insert at ht
  rcases List.mem_or_eq_of_mem_set ht with ht | ht
  · exact h t ht b hb k' e' hm
  · subst ht
    unfold Table.insert at hb
    simp only [] at hb
    rcases List.mem_or_eq_of_mem_set hb with hb | hb
    · rcases Access.All.mem_getD_or a.tables (k % a.tables.length) default with ht' | ht'
      · exact h _ ht' b hb k' e' hm
      · rw [ht'] at hb; cases hb
    · subst hb
      rcases Access.All.insertB_mem _ k e _ hm with h1 | h1
      · rcases Access.All.mem_getD_or a.tables (k % a.tables.length) default with ht' | ht'
        · rcases Access.All.mem_getD_or (a.tables.getD (k % a.tables.length) default).buckets
            (k % (a.tables.getD (k % a.tables.length) default).buckets.length) [] with hb' | hb'
          · exact h _ ht' _ hb' k' e' h1
          · rw [hb'] at h1; cases h1
        · rw [ht'] at h1
          change some (k', e') ∈ ([] : List (List Slot)).getD _ [] at h1
          simp at h1
      · cases h1; exact he

theorem Access.All.new (P : Entry → Prop) (nT nB : Nat) : (Access.new nT nB).All P := by
  intro t ht b hb k e hm
  simp only [Access.new, List.mem_replicate] at ht
  obtain ⟨_, rfl⟩ := ht
  simp only [Table.withBucketCount, List.mem_replicate] at hb
  obtain ⟨_, rfl⟩ := hb
  simp at hm

end Wee.TT

namespace Wee.SearchCtl
open Wee Wee.Search

/-! ## instance: the usize subtractions -/

/-- the relation between the structural argument of `searchNode` and the two depth counters of the Rust code -/
def RemInv (rem : Nat) (a : NodeArgs) : Prop := a.curDepth + rem = a.maxDepth

/-- stored depths never exceed the stored maximum depth -/
def DepthOK (e : TT.Entry) : Prop := e.depth ≤ e.maxDepth

theorem remInv_child (rem : Nat) (a : NodeArgs) (next : State) (alpha : Eval) (h : RemInv (rem+1) a) :
    RemInv rem (childArgs a next alpha) := by
  unfold RemInv childArgs at *
  simp only []
  omega

theorem stop_panic_ne {w w' : String} (h : w ≠ w') : Stop.panic w ≠ Stop.panic w' := by
  intro e; cases e; exact h rfl

theorem underflow_walk (ctx : Ctx) :
    Walk ctx (fun st => st.tt.All DepthOK) (fun st => st.tt.All DepthOK) RemInv
      (fun e => e ≠ .panic "usize subtraction underflow") where
  tick := by
    intro st h
    rw [tick_eq]
    split
    · split
      · exact ⟨(by intro e; cases e), h⟩
      · exact h
    · exact h
  rng := fun _ _ h => h
  underflow := by
    intro rem a st e hN hI hf hc
    exfalso
    have := hI.find hf
    unfold RemInv at hN
    unfold DepthOK at this
    omega
  leaf := by
    intro a alpha beta e _ hq
    exact quiesce_walk (F := fun _ _ => True) (Allowed := fun e => e ≠ .panic "usize subtraction underflow")
      ⟨fun _ _ => stop_panic_ne (by decide), fun _ _ _ _ => stop_panic_ne (by decide),
       fun _ _ _ _ _ => stop_panic_ne (by decide), fun _ _ _ _ _ _ _ _ => trivial⟩ _ _ _ _ _ e trivial hq
  pseudo := fun _ _ _ _ => stop_panic_ne (by decide)
  legal := fun _ _ _ _ _ _ _ _ => stop_panic_ne (by decide)
  eval := fun _ _ _ _ => stop_panic_ne (by decide)
  window := fun _ _ _ _ h => h
  child := fun rem a _ _ _ next alpha h _ _ _ => remInv_child rem a next alpha h
  insert := by
    intro rem a _ _ m _ kind ev st hN hI _ _ _ _
    refine hI.insert _ _ ?_
    unfold RemInv at hN
    show a.curDepth ≤ a.maxDepth
    omega


/-! ## the iteration level -/

/-- the arguments of the root call of a worker -/
def rootArgs (root : State) (searchDepth : Nat) (best : Option Move) : NodeArgs :=
  { s := root, maxDepth := searchDepth, curDepth := 0, curExt := 0,
    alpha := - Ev.mateInPly 0, beta := Ev.mateInPly 0, prioritized := best }

theorem runWorker_eq (ctx : Ctx) (root : State) (searchDepth : Nat) (best : Option Move) (tt : TT.Access)
    (rng : Rng.ChaCha8) (polls : Nat) :
    runWorker ctx root searchDepth best tt rng polls =
      (searchNode ctx searchDepth (rootArgs root searchDepth best)).run.run { tt, rng, nodes := 0, polls } := rfl

theorem remInv_root (root : State) (searchDepth : Nat) (best : Option Move) :
    RemInv searchDepth (rootArgs root searchDepth best) := by
  unfold RemInv rootArgs; simp

/-- the context `iterate` searches with -/
def iterCtx (root : State) (art : Artifact) (cancelAt : Option Nat) : Ctx :=
  { keys := art.keys.keys, history := Wee.hash art.keys.keys root :: art.history, cancelAt }

/-- the depth limit `iterate` uses -/
def iterLimit (root : State) (maxDepth : Option Nat) (fuelDepth : Nat) : Nat :=
  if (legalMoves root).isEmpty then 0 else (match maxDepth with | some d => d | Option.none => fuelDepth)

/-- the state `iterate` starts its loop with -/
def iterInit (rng0 : Rng.ChaCha8) (art : Artifact) : IterSt :=
  { tt := art.tt, rng := rng0, events := [], nodes := 0, bestEval := Ev.negInf, bestMv := Option.none, polls := 0 }

/-- the final loop state of `iterate` -/
def iterFinal (root : State) (rng0 : Rng.ChaCha8) (maxDepth : Option Nat) (art : Artifact)
    (workersOf : Nat → Nat) (cancelAt : Option Nat) (fuelDepth : Nat) : IterSt :=
  iterLoop (iterCtx root art cancelAt) root (Wee.hash art.keys.keys root) workersOf
    (iterLimit root maxDepth fuelDepth) 0 (iterInit rng0 art)

theorem iterate_eq (root : State) (rng0 : Rng.ChaCha8) (maxDepth : Option Nat) (art : Artifact)
    (workersOf : Nat → Nat) (cancelAt : Option Nat) (fuelDepth : Nat) :
    iterate root rng0 maxDepth art workersOf cancelAt fuelDepth =
      let st := iterFinal root rng0 maxDepth art workersOf cancelAt fuelDepth
      { events := if st.panic.isNone && st.tt.entries * 2 > st.tt.maxEntries then st.events ++ [.warning] else st.events
        artifact := { keys := art.keys, tt := st.tt, history := Wee.hash art.keys.keys root :: art.history }
        panic := st.panic } := rfl

/-! ### a table invariant through the loops (any outcome of the workers) -/

theorem runWorkers_tt_inv (P : TT.Access → Prop) (ctx : Ctx) (root : State) (depth : Nat) (bestMv : Option Move)
    (hW : ∀ sd best tt rng polls, P tt → P (runWorker ctx root sd best tt rng polls).2.tt) :
    ∀ (l : List (Nat × UInt64)) (acc : WorkersOut), P acc.tt → P (runWorkers ctx root depth bestMv l acc).tt := by
  intro l
  induction l with
  | nil => intro acc h; exact h
  | cons x rest ih =>
    obtain ⟨i, seed⟩ := x
    intro acc h
    rw [runWorkers]
    by_cases hc : (acc.interrupted || acc.panic.isSome) = true
    · rw [if_pos hc]; exact h
    · rw [if_neg hc]
      have := hW ((depth - i % 2) + 1) (if i == 0 then bestMv else Option.none) acc.tt (Rng.seedFromU64 seed) acc.polls h
      simp only []
      generalize runWorker ctx root ((depth - i % 2) + 1) (if i == 0 then bestMv else Option.none) acc.tt
        (Rng.seedFromU64 seed) acc.polls = out at this
      obtain ⟨r, st⟩ := out
      cases r with
      | ok e => exact ih _ this
      | error e =>
        cases e with
        | interrupt => exact this
        | panic w => exact h

/-- what the workers of iteration `depth` return, started from the loop state `st` -/
def workersOut (ctx : Ctx) (root : State) (workers depth : Nat) (st : IterSt) : WorkersOut :=
  runWorkers ctx root depth st.bestMv ((List.range workers).zip (drawSeeds workers st.rng).1)
    { tt := st.tt, polls := st.polls, evals := [], sumNodes := 0 }

theorem iterStep_tt (ctx : Ctx) (root : State) (rootHash : UInt64) (workers depth : Nat) (st : IterSt) :
    (iterStep ctx root rootHash workers depth st).tt =
      if (workersOut ctx root workers depth st).panic.isSome then st.tt
      else (workersOut ctx root workers depth st).tt := by
  unfold iterStep workersOut
  simp only []
  generalize runWorkers ctx root depth st.bestMv ((List.range workers).zip (drawSeeds workers st.rng).1)
    { tt := st.tt, polls := st.polls, evals := [], sumNodes := 0 } = w
  cases hp : w.panic with
  | some why => simp
  | none =>
    simp only [Option.isSome_none, Bool.false_eq_true, ↓reduceIte]
    split <;> (try split) <;> rfl

theorem iterStep_tt_inv (P : TT.Access → Prop) (ctx : Ctx) (root : State) (rootHash : UInt64) (workers depth : Nat)
    (hW : ∀ sd best tt rng polls, P tt → P (runWorker ctx root sd best tt rng polls).2.tt)
    (st : IterSt) (h : P st.tt) : P (iterStep ctx root rootHash workers depth st).tt := by
  rw [iterStep_tt]
  split
  · exact h
  · exact runWorkers_tt_inv P ctx root depth st.bestMv hW _ _ h

theorem iterLoop_tt_inv (P : TT.Access → Prop) (ctx : Ctx) (root : State) (rootHash : UInt64) (workersOf : Nat → Nat)
    (hW : ∀ sd best tt rng polls, P tt → P (runWorker ctx root sd best tt rng polls).2.tt) :
    ∀ (n depth : Nat) (st : IterSt), P st.tt → P (iterLoop ctx root rootHash workersOf n depth st).tt := by
  intro n
  induction n with
  | zero => intro _ st h; exact h
  | succ n ih =>
    intro depth st h
    rw [iterLoop_succ]
    split
    · exact h
    · split
      · rw [boundaryPoll_tt]; exact h
      · exact ih _ _ (iterStep_tt_inv P ctx root rootHash _ depth hW _ (by rw [boundaryPoll_tt]; exact h))

/-- a property of the table that every worker run preserves is preserved by the whole search -/
theorem iterate_tt_inv (P : TT.Access → Prop) (root : State) (rng0 : Rng.ChaCha8) (maxDepth : Option Nat)
    (art : Artifact) (workersOf : Nat → Nat) (cancelAt : Option Nat) (fuelDepth : Nat)
    (hW : ∀ sd best tt rng polls, P tt → P (runWorker (iterCtx root art cancelAt) root sd best tt rng polls).2.tt)
    (h : P art.tt) : P (iterate root rng0 maxDepth art workersOf cancelAt fuelDepth).artifact.tt := by
  rw [iterate_eq]
  exact iterLoop_tt_inv P _ root _ workersOf hW _ _ _ h


/-! ## consequences at worker level -/

theorem Post.same {α : Type} {I : St → Prop} {Allowed : Stop → Prop} {out : Except Stop α × St}
    (h : Post I I Allowed out) : I out.2 := by
  obtain ⟨r, st⟩ := out
  cases r with
  | ok v => exact h
  | error e => cases e with
    | interrupt => exact h.2
    | panic w => exact h.2

theorem Post.allowed {α : Type} {I J : St → Prop} {Allowed : Stop → Prop} {out : Except Stop α × St}
    (h : Post I J Allowed out) : ∀ e, out.1 = .error e → Allowed e := by
  obtain ⟨r, st⟩ := out
  intro e he
  cases r with
  | ok v => cases he
  | error e' =>
    cases he
    cases e with
    | interrupt => exact h.1
    | panic w => exact h.1

/-- instance: the access-layer invariant of C15 is kept by every node -/
theorem ainv_walk (ctx : Ctx) (L nT nB : Nat) (hL : 0 < L) (hT : 0 < nT) (hB : 0 < nB) :
    Walk ctx (fun st => TT.AInv L nT nB st.tt) (fun st => TT.AInv L nT nB st.tt) (fun _ _ => True)
      (fun _ => True) where
  tick := by
    intro st h
    rw [tick_eq]
    split
    · split
      · exact ⟨trivial, h⟩
      · exact h
    · exact h
  rng := fun _ _ h => h
  underflow := fun _ _ _ _ _ _ _ _ => trivial
  leaf := fun _ _ _ _ _ _ => trivial
  pseudo := fun _ _ _ _ => trivial
  legal := fun _ _ _ _ _ _ _ _ => trivial
  eval := fun _ _ _ _ => trivial
  window := fun _ _ _ _ _ => trivial
  child := fun _ _ _ _ _ _ _ _ _ _ _ => trivial
  insert := fun _ _ _ _ _ _ _ _ _ _ h _ _ _ _ => h.insert hL hT hB _ _

theorem runWorker_ainv (ctx : Ctx) (root : State) (L nT nB : Nat) (hL : 0 < L) (hT : 0 < nT) (hB : 0 < nB)
    (sd : Nat) (best : Option Move) (tt : TT.Access) (rng : Rng.ChaCha8) (polls : Nat)
    (h : TT.AInv L nT nB tt) : TT.AInv L nT nB (runWorker ctx root sd best tt rng polls).2.tt := by
  rw [runWorker_eq]
  exact (searchNode_walk (ainv_walk ctx L nT nB hL hT hB) sd _ _ trivial h).same

theorem runWorker_depthOK (ctx : Ctx) (root : State) (sd : Nat) (best : Option Move) (tt : TT.Access)
    (rng : Rng.ChaCha8) (polls : Nat) (h : tt.All DepthOK) :
    (runWorker ctx root sd best tt rng polls).2.tt.All DepthOK ∧
    (runWorker ctx root sd best tt rng polls).1 ≠ .error (.panic "usize subtraction underflow") := by
  rw [runWorker_eq]
  have := searchNode_walk (underflow_walk ctx) sd (rootArgs root sd best) { tt, rng, nodes := 0, polls }
    (remInv_root root sd best) h
  exact ⟨this.same, fun he => this.allowed _ he rfl⟩

/-- once `Stop` is visible to the polls, a node (with everything below it) either is interrupted exactly when the
worker's counter reaches the next multiple of the poll interval, or ends before that multiple -/
theorem searchNode_stop_bound (ctx : Ctx) (k : Nat) (hk : ctx.cancelAt = some k) (rem : Nat) (a : NodeArgs) (st : St)
    (hp : k ≤ st.polls) :
    Post (StopI k (st.nodes / Gen.pollInterval) st.nodes) (StopJ (st.nodes / Gen.pollInterval)) (fun _ => True)
      ((searchNode ctx rem a).run.run st) :=
  searchNode_walk (stop_walk ctx k hk _ _) rem a st trivial ⟨hp, rfl, Nat.le_refl _⟩

/-! ### after an interrupt nothing more is run -/

theorem runWorkers_stopped (ctx : Ctx) (root : State) (depth : Nat) (bestMv : Option Move)
    (l : List (Nat × UInt64)) (acc : WorkersOut) (h : (acc.interrupted || acc.panic.isSome) = true) :
    runWorkers ctx root depth bestMv l acc = acc := by
  cases l with
  | nil => rfl
  | cons x rest => obtain ⟨i, seed⟩ := x; rw [runWorkers, if_pos h]

theorem runWorkers_cons_interrupt (ctx : Ctx) (root : State) (depth : Nat) (bestMv : Option Move)
    (i : Nat) (seed : UInt64) (rest : List (Nat × UInt64)) (acc : WorkersOut) (st : St)
    (h : (acc.interrupted || acc.panic.isSome) = false)
    (hw : runWorker ctx root ((depth - i % 2) + 1) (if i == 0 then bestMv else Option.none) acc.tt
      (Rng.seedFromU64 seed) acc.polls = (.error .interrupt, st)) :
    runWorkers ctx root depth bestMv ((i, seed) :: rest) acc =
      { acc with tt := st.tt, polls := st.polls, interrupted := true } := by
  rw [runWorkers, if_neg (by rw [h]; decide)]
  simp only []
  rw [hw]

theorem iterStep_interrupted (ctx : Ctx) (root : State) (rootHash : UInt64) (workers depth : Nat) (st : IterSt)
    (hp : (workersOut ctx root workers depth st).panic = Option.none)
    (hi : (workersOut ctx root workers depth st).interrupted = true) :
    (iterStep ctx root rootHash workers depth st).finished = true ∧
    (iterStep ctx root rootHash workers depth st).panic = st.panic ∧
    (iterStep ctx root rootHash workers depth st).tt = (workersOut ctx root workers depth st).tt ∧
    (iterStep ctx root rootHash workers depth st).nodes = st.nodes ∧
    (iterStep ctx root rootHash workers depth st).bestMv = st.bestMv := by
  unfold workersOut at hp hi
  unfold iterStep workersOut
  simp only []
  generalize runWorkers ctx root depth st.bestMv ((List.range workers).zip (drawSeeds workers st.rng).1)
    { tt := st.tt, polls := st.polls, evals := [], sumNodes := 0 } = w at hp hi
  rw [hp]
  simp only [hi, Bool.not_true, Bool.false_eq_true, ↓reduceIte, and_self]

theorem iterLoop_finished (ctx : Ctx) (root : State) (rootHash : UInt64) (workersOf : Nat → Nat)
    (n depth : Nat) (st : IterSt) (h : st.finished = true) :
    iterLoop ctx root rootHash workersOf n depth st = st := by
  cases n with
  | zero => rfl
  | succ n => rw [iterLoop, if_pos h]

/-- an interrupted iteration is the last one (the workers run on the state after the boundary read of the flag, which
did not end the loop) -/
theorem iterLoop_interrupted (ctx : Ctx) (root : State) (rootHash : UInt64) (workersOf : Nat → Nat)
    (n depth : Nat) (st : IterSt) (hf : st.finished = false) (hb : (boundaryPoll ctx depth st).finished = false)
    (hp : (workersOut ctx root (workersOf depth) depth (boundaryPoll ctx depth st)).panic = Option.none)
    (hi : (workersOut ctx root (workersOf depth) depth (boundaryPoll ctx depth st)).interrupted = true) :
    iterLoop ctx root rootHash workersOf (n+1) depth st =
      iterStep ctx root rootHash (workersOf depth) depth (boundaryPoll ctx depth st) := by
  rw [iterLoop_succ, if_neg (by rw [hf]; decide), if_neg (by rw [hb]; decide)]
  exact iterLoop_finished _ _ _ _ _ _ _ (iterStep_interrupted ctx root rootHash _ depth _ hp hi).1

/-- a boundary read that says "cancelled" ends the loop at once: no further worker is run -/
theorem iterLoop_boundary_stop (ctx : Ctx) (root : State) (rootHash : UInt64) (workersOf : Nat → Nat)
    (n depth : Nat) (st : IterSt) (hf : st.finished = false) (hb : (boundaryPoll ctx depth st).finished = true) :
    iterLoop ctx root rootHash workersOf (n+1) depth st = boundaryPoll ctx depth st := by
  rw [iterLoop_succ, if_neg (by rw [hf]; decide), if_pos hb]

end Wee.SearchCtl
