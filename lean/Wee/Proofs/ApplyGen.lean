import Wee.Proofs.ApplyFields
/-!
# C02: what membership in `legalMoves` gives without the generator characterisation; `RightsSound`
from `LegalPos`; query resolution
-/
namespace Wee.C02
open Wee.C10 (DisjointBoard pieceAt_iff absCell_iff abs_at)

theorem mapM_some_mem {α β : Type} (f : α → Option β) : ∀ (l : List α) (rs : List β), l.mapM f = some rs →
    ∀ y ∈ rs, ∃ x ∈ l, f x = some y := by
  intro l
  induction l with
  | nil => intro rs h y hy; simp at h; subst h; cases hy
  | cons a t ih =>
    intro rs h y hy
    rw [List.mapM_cons] at h
    cases hfa : f a with
    | none => rw [hfa] at h; cases h
    | some b =>
      rw [hfa] at h
      cases ht : t.mapM f with
      | none => rw [ht] at h; cases h
      | some bs =>
        rw [ht] at h
        simp only [Option.bind_eq_bind, Option.bind_some, Option.pure_def, Option.some.injEq] at h
        subst h
        rcases List.mem_cons.1 hy with rfl | hy
        · exact ⟨a, List.mem_cons_self, hfa⟩
        · obtain ⟨x, hx, hfx⟩ := ih bs ht y hy
          exact ⟨x, List.mem_cons_of_mem _ hx, hfx⟩

/-- every entry `(mv, next)` of the legal-move list was produced by `by_performing_move`: `next` is
the successor the engine computes for `mv` (and `mv` is one of the pseudo-legal moves) -/
theorem mem_legalMoves? {s : State} {ms : List (Move × State)} (h : legalMoves? s = some ms)
    {r : Move × State} (hr : r ∈ ms) :
    performMove s r.1 = some (.ok r.2) ∧ ∃ ps, pseudoLegalMoves s = some ps ∧ r.1 ∈ ps := by
  unfold legalMoves? at h
  cases hps : pseudoLegalMoves s with
  | none => rw [hps] at h; cases h
  | some ps =>
    rw [hps] at h
    simp only [Option.bind_eq_bind, Option.bind_some, Option.pure_def] at h
    cases hrs : ps.mapM (tryAsLegal s) with
    | none => rw [hrs] at h; simp at h
    | some rs =>
      rw [hrs] at h
      simp only [Option.bind_some, Option.some.injEq] at h
      subst h
      have hmem : some r ∈ rs := by
        rw [List.mem_filterMap] at hr
        obtain ⟨x, hx, hxr⟩ := hr
        simp only [id] at hxr; rw [← hxr]; exact hx
      obtain ⟨mv, hmv, htry⟩ := mapM_some_mem _ _ _ hrs _ hmem
      unfold tryAsLegal at htry
      cases hpm : performMove s mv with
      | none => rw [hpm] at htry; cases htry
      | some res =>
        cases res with
        | error e => rw [hpm] at htry; cases htry
        | ok next =>
          rw [hpm] at htry
          simp only [] at htry
          split at htry
          · simp only [Option.some.injEq] at htry
            subst htry
            exact ⟨hpm, ps, rfl, hmv⟩
          · cases htry

theorem mem_legalMoves {s : State} {r : Move × State} (hr : r ∈ legalMoves s) :
    performMove s r.1 = some (.ok r.2) := by
  unfold legalMoves at hr
  cases h : legalMoves? s with
  | none => rw [h] at hr; cases hr
  | some ms => rw [h] at hr; exact (mem_legalMoves? h hr).1


theorem test_of_abs_at {s : State} (hd : DisjointBoard s.pieces) (n : Nat) (c : Color) (q : Piece) (k : Spec.Kind)
    (hk : absKind q = some k) (h : (abs s).at n = some (absColor c, k)) : test (s.pieces.get c q) n = true := by
  rw [abs_at, absCell_eq_some_iff hd n c q k hk, pieceAt_iff hd] at h
  exact h

/-- the castling clause of `LegalPos` is `RightsSound` (on a placement without overlaps) -/
theorem rightsSound_of_legal {s : State} (hl : LegalPos s = true) (hd : DisjointBoard s.pieces) : RightsSound s := by
  unfold LegalPos Spec.LegalPos at hl
  simp only [Bool.and_eq_true] at hl
  obtain ⟨⟨⟨⟨⟨⟨⟨⟨⟨_, _⟩, _⟩, _⟩, _⟩, hwk⟩, hwq⟩, hbk⟩, hbq⟩, _⟩ := hl
  have key : ∀ (b : Bool) (ksq rsq : Nat) (c : Color),
      (!b || ((abs s).at ksq == some (absColor c, Spec.Kind.king) && (abs s).at rsq == some (absColor c, Spec.Kind.rook))) = true →
      b = true → test (s.pieces.get c Piece.king) ksq = true ∧ test (s.pieces.get c Piece.rook) rsq = true := by
    intro b ksq rsq c h hb
    subst hb
    simp only [Bool.not_true, Bool.false_or, Bool.and_eq_true, beq_iff_eq] at h
    exact ⟨test_of_abs_at hd ksq c Piece.king _ rfl h.1, test_of_abs_at hd rsq c Piece.rook _ rfl h.2⟩
  exact
    { wk := key s.castleW.kingside 4 7 Color.white hwk
      wq := key s.castleW.queenside 4 0 Color.white hwq
      bk := key s.castleB.kingside 60 63 Color.black hbk
      bq := key s.castleB.queenside 60 56 Color.black hbq }

/-! ## query resolution -/

theorem performQueries_error (s : State) (q : MoveQuery) (qs : List MoveQuery) (e : MoveErr)
    (h : performQuery s q = some (.error e)) : performQueries s (q :: qs) = some (.error e) := by
  simp only [performQueries, h]

theorem performQueries_ok (s s' : State) (q : MoveQuery) (qs : List MoveQuery)
    (h : performQuery s q = some (.ok s')) : performQueries s (q :: qs) = performQueries s' qs := by
  simp only [performQueries, h]

theorem performQueries_append (qs₁ : List MoveQuery) : ∀ (s s₁ : State) (qs₂ : List MoveQuery),
    performQueries s qs₁ = some (.ok s₁) → performQueries s (qs₁ ++ qs₂) = performQueries s₁ qs₂ := by
  induction qs₁ with
  | nil => intro s s₁ qs₂ h; simp only [performQueries, Option.some.injEq, Except.ok.injEq] at h; subst h; rfl
  | cons q qs ih =>
    intro s s₁ qs₂ h
    cases hq : performQuery s q with
    | none => simp only [performQueries, hq] at h; cases h
    | some r =>
      cases r with
      | error e => simp only [performQueries, hq] at h; cases h
      | ok s' =>
        rw [performQueries_ok s s' q qs hq] at h
        rw [List.cons_append, performQueries_ok s s' q _ hq]
        exact ih s' s₁ qs₂ h

/-- the query `uci.rs` builds from a coordinate token `<from><to>[promo]` -/
def coordQuery (o d : Nat) (pr : Option Piece) : MoveQuery :=
  { originRank := some (rankOf o), originFile := some (fileOf o),
    destRank := some (rankOf d), destFile := some (fileOf d), promotion := pr }

theorem coordQuery_test (o d : Nat) (pr : Option Piece) (m : Move) :
    (coordQuery o d pr).test m = true ↔
      Move.origin m = o ∧ Move.dest m = d ∧ ∀ X, pr = some X → X = (Move.promotion m).getD (Move.piece m) := by
  unfold MoveQuery.test coordQuery rankOf fileOf
  cases pr with
  | none =>
    simp only [Option.map_none, Option.map_some, Option.getD_none, Option.getD_some, Bool.and_true, Bool.true_and,
      Bool.and_eq_true, beq_iff_eq]
    constructor
    · rintro ⟨⟨⟨a, b⟩, c⟩, e⟩
      exact ⟨by omega, by omega, by intro X h; cases h⟩
    · rintro ⟨rfl, rfl, _⟩; exact ⟨⟨⟨rfl, rfl⟩, rfl⟩, rfl⟩
  | some X =>
    simp only [Option.map_none, Option.map_some, Option.getD_none, Option.getD_some, Bool.and_true, Bool.true_and,
      Bool.and_eq_true, beq_iff_eq]
    constructor
    · rintro ⟨⟨⟨⟨a, b⟩, c⟩, e⟩, f⟩
      exact ⟨by omega, by omega, by intro Y h; cases h; exact f⟩
    · rintro ⟨rfl, rfl, h⟩; exact ⟨⟨⟨⟨rfl, rfl⟩, rfl⟩, rfl⟩, h X rfl⟩


/-- no two entries share (origin, destination, promotion) -/
def CoordsDetermine (L : List (Move × State)) : Prop :=
  L.Pairwise fun a b => ¬ (Move.origin a.1 = Move.origin b.1 ∧ Move.dest a.1 = Move.dest b.1 ∧
    Move.promotion a.1 = Move.promotion b.1)

theorem coords_unique (L : List (Move × State)) (o d : Nat) (pr : Option Piece) (hdet : CoordsDetermine L)
    (hcase : (∀ r ∈ L, Move.origin r.1 = o → Move.dest r.1 = d → Move.promotion r.1 = Option.none) ∨
      (pr.isSome = true ∧ ∀ r ∈ L, Move.origin r.1 = o → Move.dest r.1 = d → (Move.promotion r.1).isSome = true)) :
    (L.filter fun r => (coordQuery o d pr).test r.1).length ≤ 1 := by
  have hF : (L.filter fun r => (coordQuery o d pr).test r.1).Pairwise _ := List.Pairwise.filter _ hdet
  have hall : ∀ a ∈ L.filter (fun r => (coordQuery o d pr).test r.1), ∀ b ∈ L.filter (fun r => (coordQuery o d pr).test r.1),
      Move.origin a.1 = Move.origin b.1 ∧ Move.dest a.1 = Move.dest b.1 ∧ Move.promotion a.1 = Move.promotion b.1 := by
    intro a ha b hb
    obtain ⟨haL, hta⟩ := List.mem_filter.1 ha
    obtain ⟨hbL, htb⟩ := List.mem_filter.1 hb
    obtain ⟨a1, a2, a3⟩ := (coordQuery_test o d pr a.1).1 hta
    obtain ⟨b1, b2, b3⟩ := (coordQuery_test o d pr b.1).1 htb
    refine ⟨by rw [a1, b1], by rw [a2, b2], ?_⟩
    rcases hcase with hc | ⟨hpr, hc⟩
    · rw [hc a haL a1 a2, hc b hbL b1 b2]
    · cases pr with
      | none => cases hpr
      | some X =>
        have ea := a3 X rfl
        have eb := b3 X rfl
        have sa := hc a haL a1 a2
        have sb := hc b hbL b1 b2
        cases hpa : Move.promotion a.1 with
        | none => rw [hpa] at sa; cases sa
        | some xa =>
          cases hpb : Move.promotion b.1 with
          | none => rw [hpb] at sb; cases sb
          | some xb =>
            rw [hpa] at ea; rw [hpb] at eb
            simp only [Option.getD_some] at ea eb
            rw [← ea, ← eb]
  generalize (L.filter fun r => (coordQuery o d pr).test r.1) = F at hF hall
  match F, hF, hall with
  | [], _, _ => simp
  | [_], _, _ => simp
  | a :: b :: t, hF, hall =>
    exfalso
    rw [List.pairwise_cons] at hF
    exact hF.1 b List.mem_cons_self (hall a List.mem_cons_self b (List.mem_cons_of_mem _ List.mem_cons_self))

end Wee.C02
