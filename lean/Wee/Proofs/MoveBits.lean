import Wee.Proofs.MoveAttrs
/-!
# Arithmetic reading of the packed move (helper lemmas for C20)

The packed `u32` is read as a natural number.  `compact::store` into a field whose bits are still
clear *adds* `value * 2^offset`; `compact::load` is `/ 2^offset % 2^width`; `compact::bit` is
`/ 2^bit % 2 = 1`.  With these, every constructor has a closed form
`code + 16·origin + 1024·dest + 2^16·capture + 2^20·promotion + 2^24·ep + 2^25·double + 2^26·castleQ +
2^27·castleK + 2^28·white` and all statements of C20 become linear arithmetic (`omega`).
No `bv_decide`, no `native_decide`.
-/
namespace Wee
namespace Move
open Gen

/-! ## Natural-number bit lemmas -/

/-- OR-ing a `w`-bit value into a field whose bits are clear is addition. -/
theorem or_shl_eq_add (b v off w : Nat) (hb : b / 2 ^ off % 2 ^ w = 0) (hv : v < 2 ^ w) :
    b ||| v <<< off = b + v * 2 ^ off := by
  have hlo : b % 2 ^ off < 2 ^ off := Nat.mod_lt _ (Nat.two_pow_pos _)
  have e1 : b = (b / 2 ^ off) <<< off + b % 2 ^ off := by
    rw [Nat.shiftLeft_eq, Nat.mul_comm]; exact (Nat.div_add_mod b (2 ^ off)).symm
  have e2 : b / 2 ^ off = (b / 2 ^ off / 2 ^ w) <<< w := by
    have := Nat.div_add_mod (b / 2 ^ off) (2 ^ w)
    rw [hb, Nat.add_zero, Nat.mul_comm] at this
    rw [Nat.shiftLeft_eq]; exact this.symm
  generalize b / 2 ^ off = q at e1 e2
  generalize q / 2 ^ w = h at e2
  generalize b % 2 ^ off = lo at e1 hlo
  subst e2 e1
  calc (h <<< w <<< off + lo) ||| v <<< off
      = (h <<< w <<< off ||| lo) ||| v <<< off := by rw [Nat.shiftLeft_add_eq_or_of_lt hlo]
    _ = (h <<< w <<< off ||| v <<< off) ||| lo := by rw [Nat.or_assoc, Nat.or_comm lo, ← Nat.or_assoc]
    _ = ((h <<< w ||| v) <<< off) ||| lo := by rw [Nat.shiftLeft_or_distrib]
    _ = ((h <<< w + v) <<< off) + lo := by
          rw [← Nat.shiftLeft_add_eq_or_of_lt hv, ← Nat.shiftLeft_add_eq_or_of_lt hlo]
    _ = h <<< w <<< off + lo + v * 2 ^ off := by
          rw [Nat.shiftLeft_eq (h <<< w + v), Nat.shiftLeft_eq (h <<< w), Nat.add_mul]; omega

/-- masking with a shifted block of ones and shifting back is `/ 2^off % 2^w` -/
theorem and_shr_eq (n off w : Nat) : (n &&& ((2 ^ w - 1) <<< off)) >>> off = n / 2 ^ off % 2 ^ w := by
  rw [Nat.shiftRight_and_distrib, Nat.shiftLeft_shiftRight, Nat.and_two_pow_sub_one_eq_mod,
    Nat.shiftRight_eq_div_pow]

/-- `n &&& 2^k = 0` iff bit `k` of `n` is clear -/
theorem and_two_pow_eq_zero (n k : Nat) : n &&& 2 ^ k = 0 ↔ n / 2 ^ k % 2 = 0 := by
  rw [← Nat.toNat_testBit]
  constructor
  · intro h
    have h2 : (n &&& 2 ^ k).testBit k = false := by rw [h]; exact Nat.zero_testBit k
    rw [Nat.testBit_and, Nat.testBit_two_pow_self, Bool.and_true] at h2
    rw [h2]; rfl
  · intro h
    have hk : n.testBit k = false := by
      cases hb : n.testBit k
      · rfl
      · rw [hb] at h; exact absurd h (by decide)
    apply Nat.eq_of_testBit_eq
    intro i
    rw [Nat.testBit_and, Nat.testBit_two_pow, Nat.zero_testBit]
    by_cases hki : k = i
    · subst hki; rw [hk]; rfl
    · simp [hki]

/-- clearing a clear bit changes nothing -/
theorem and_not_two_pow (n k : Nat) (hn : n < 2 ^ 32) (hk : k < 32) (hb : n / 2 ^ k % 2 = 0) :
    n &&& (2 ^ 32 - 1 - 2 ^ k) = n := by
  have hkb : n.testBit k = false := by
    cases hb' : n.testBit k
    · rfl
    · have := Nat.toNat_testBit n k; rw [hb', hb] at this; exact absurd this (by decide)
  have hp : 2 ^ k < 2 ^ 32 := Nat.pow_lt_pow_right (by decide) hk
  have e : 2 ^ 32 - 1 - 2 ^ k = 2 ^ 32 - (2 ^ k + 1) := by omega
  apply Nat.eq_of_testBit_eq
  intro i
  rw [Nat.testBit_and, e, Nat.testBit_two_pow_sub_succ hp, Nat.testBit_two_pow]
  by_cases hki : k = i
  · subst hki; simp [hkb]
  · by_cases hi : i < 32
    · simp [hki, hi]
    · have : n.testBit i = false :=
        Nat.testBit_lt_two_pow (Nat.lt_of_lt_of_le hn (Nat.pow_le_pow_right (by decide) (by omega)))
      simp [this]

/-! ## `compact::store / load / bit / set_bit` read arithmetically -/

private theorem nat_toUInt32_toNat (k : Nat) (h : k < 2 ^ 32) : (k.toUInt32).toNat = k := by
  simp [Nat.toUInt32, UInt32.toNat_ofNat', Nat.mod_eq_of_lt h]

private theorem shl_lt (v off w : Nat) (h32 : off + w ≤ 32) (hv : v < 2 ^ w) : v <<< off < 2 ^ 32 := by
  rw [Nat.shiftLeft_eq]
  calc v * 2 ^ off < 2 ^ w * 2 ^ off := Nat.mul_lt_mul_of_pos_right hv (Nat.two_pow_pos _)
    _ = 2 ^ (w + off) := (Nat.pow_add 2 w off).symm
    _ ≤ 2 ^ 32 := Nat.pow_le_pow_right (by decide) (by omega)

/-- `store` of a `w`-bit value into a clear field adds `value * 2^offset`. -/
theorem store_toNat (b : UInt32) (off w mask v : Nat) (hmask : mask = (2 ^ w - 1) <<< off)
    (h32 : off + w ≤ 32) (hoff : off < 32) (hv : v < 2 ^ w) (hb : b.toNat / 2 ^ off % 2 ^ w = 0) :
    (store b off mask v).toNat = b.toNat + v * 2 ^ off := by
  have hw : 2 ^ w ≤ 2 ^ 32 := Nat.pow_le_pow_right (by decide) (by omega)
  have hv32 : v < 2 ^ 32 := Nat.lt_of_lt_of_le hv hw
  have hm32 : mask < 2 ^ 32 := by
    rw [hmask]; exact shl_lt _ _ w h32 (by have := Nat.two_pow_pos w; omega)
  have hs32 : v <<< off < 2 ^ 32 := shl_lt v off w h32 hv
  have hoff' : off % 32 = off := Nat.mod_eq_of_lt hoff
  unfold store
  rw [UInt32.toNat_or, UInt32.toNat_and, UInt32.toNat_shiftLeft, nat_toUInt32_toNat v hv32,
    nat_toUInt32_toNat off (by omega), nat_toUInt32_toNat mask hm32, hoff', Nat.mod_eq_of_lt hs32, hmask,
    ← Nat.shiftLeft_and_distrib, Nat.and_two_pow_sub_one_eq_mod, Nat.mod_eq_of_lt hv]
  exact or_shl_eq_add _ _ _ w hb hv

/-- `store` of zero (`None`) is the identity. -/
theorem store_zero (b : UInt32) (off mask : Nat) : store b off mask 0 = b := by
  simp [store, Nat.toUInt32]

/-- `load` of a field of width `w ≤ 8` is `/ 2^offset % 2^w`. -/
theorem load_eq (b : UInt32) (off w mask : Nat) (hmask : mask = (2 ^ w - 1) <<< off)
    (h32 : off + w ≤ 32) (hoff : off < 32) (hw : w ≤ 8) :
    load b off mask = b.toNat / 2 ^ off % 2 ^ w := by
  have hm32 : mask < 2 ^ 32 := by
    rw [hmask]; exact shl_lt _ _ w h32 (by have := Nat.two_pow_pos w; omega)
  have hoff' : off % 32 = off := Nat.mod_eq_of_lt hoff
  have h8 : 2 ^ w ≤ 2 ^ 8 := Nat.pow_le_pow_right (by decide) hw
  have hlt : b.toNat / 2 ^ off % 2 ^ w < 2 ^ w := Nat.mod_lt _ (Nat.two_pow_pos _)
  unfold load
  rw [UInt32.toNat_shiftRight, UInt32.toNat_and, nat_toUInt32_toNat mask hm32,
    nat_toUInt32_toNat off (by omega), hoff', hmask, and_shr_eq]
  exact Nat.mod_eq_of_lt (by omega)

private theorem one_shl_toNat (k : Nat) (hk : k < 32) : ((1 : UInt32) <<< k.toUInt32).toNat = 2 ^ k := by
  have hp : 2 ^ k < 2 ^ 32 := Nat.pow_lt_pow_right (by decide) hk
  rw [UInt32.toNat_shiftLeft, nat_toUInt32_toNat k (by omega), Nat.mod_eq_of_lt hk]
  show (1 <<< k) % 2 ^ 32 = 2 ^ k
  rw [Nat.one_shiftLeft, Nat.mod_eq_of_lt hp]

/-- `bit` is `/ 2^bit % 2 = 1`. -/
theorem getBit_eq (b : UInt32) (k : Nat) (hk : k < 32) :
    getBit b k = decide (b.toNat / 2 ^ k % 2 = 1) := by
  unfold getBit
  have h0 : (b &&& ((1 : UInt32) <<< k.toUInt32) = 0) ↔ b.toNat / 2 ^ k % 2 = 0 := by
    rw [← UInt32.toNat_inj, UInt32.toNat_and, one_shl_toNat k hk]
    exact and_two_pow_eq_zero _ _
  have hlt : b.toNat / 2 ^ k % 2 < 2 := Nat.mod_lt _ (by decide)
  by_cases h : b.toNat / 2 ^ k % 2 = 0
  · have := h0.2 h
    rw [this]; simp [h]
  · have hne : ¬ (b &&& ((1 : UInt32) <<< k.toUInt32) = 0) := fun e => h (h0.1 e)
    have h1 : b.toNat / 2 ^ k % 2 = 1 := by omega
    simp [hne, h1]

/-- setting a clear bit adds `2^bit`. -/
theorem setBit_true_toNat (b : UInt32) (k : Nat) (hk : k < 32) (hb : b.toNat / 2 ^ k % 2 = 0) :
    (setBit b k true).toNat = b.toNat + 2 ^ k := by
  unfold setBit
  rw [if_pos rfl, UInt32.toNat_or, one_shl_toNat k hk]
  have := or_shl_eq_add b.toNat 1 k 1 (by simpa using hb) (by decide)
  rw [Nat.one_shiftLeft, Nat.one_mul] at this
  exact this

/-- clearing a clear bit is the identity. -/
theorem setBit_false (b : UInt32) (k : Nat) (hk : k < 32) (hb : b.toNat / 2 ^ k % 2 = 0) :
    setBit b k false = b := by
  unfold setBit
  have hp : 2 ^ k < 2 ^ 32 := Nat.pow_lt_pow_right (by decide) hk
  rw [if_neg (by decide), ← UInt32.toNat_inj, UInt32.toNat_and, UInt32.toNat_not, one_shl_toNat k hk]
  exact and_not_two_pow _ _ b.toNat_lt hk hb

/-- `set_bit` on a clear bit, both values of the flag. -/
theorem setBit_toNat (b : UInt32) (k : Nat) (v : Bool) (hk : k < 32) (hb : b.toNat / 2 ^ k % 2 = 0) :
    (setBit b k v).toNat = b.toNat + v.toNat * 2 ^ k := by
  cases v
  · rw [setBit_false b k hk hb]; simp
  · rw [setBit_true_toNat b k hk hb]; simp

/-! ## The general constructor and its closed form -/

theorem code_le (p : Piece) : p.code ≤ 6 := by cases p <;> decide
theorem optCode_le (c : Option Piece) : optCode c ≤ 6 := by
  cases c with
  | none => decide
  | some p => exact code_le p
theorem ofCode_code (p : Piece) : Piece.ofCode? p.code = some p := by cases p <;> rfl
theorem code_inj {p q : Piece} (h : p.code = q.code) : p = q := by
  cases p <;> cases q <;> first | rfl | exact absurd h (by decide)

/-- closed form of `by_moving` -/
theorem byMoving_toNat (c : Color) (p : Piece) (o d : Nat) (ho : o < 64) (hd : d < 64) :
    (byMoving c p o d).toNat =
      p.code + o * 2 ^ 4 + d * 2 ^ 10 + (dbl p o d).toNat * 2 ^ 25 + (c == Color.white).toNat * 2 ^ 28 := by
  have hp := code_le p
  have hw := Bool.toNat_le (c == Color.white)
  have z : (0 : UInt32).toNat = 0 := rfl
  have s1 := store_toNat 0 PIECE_OFFSET 4 PIECE_MASK p.code (by decide) (by decide) (by decide)
    (by simp only [Nat.reducePow]; omega) (by rw [z]; simp)
  generalize hb1 : store 0 PIECE_OFFSET PIECE_MASK p.code = b1 at s1
  have s2 := store_toNat b1 ORIGIN_OFFSET 6 ORIGIN_MASK o (by decide) (by decide) (by decide)
    (by simp only [Nat.reducePow]; omega)
    (by simp only [ORIGIN_OFFSET, Nat.reducePow]; simp only [PIECE_OFFSET, Nat.reducePow] at s1; omega)
  generalize hb2 : store b1 ORIGIN_OFFSET ORIGIN_MASK o = b2 at s2
  have s3 := store_toNat b2 DEST_OFFSET 6 DEST_MASK d (by decide) (by decide) (by decide)
    (by simp only [Nat.reducePow]; omega)
    (by simp only [DEST_OFFSET, ORIGIN_OFFSET, PIECE_OFFSET, Nat.reducePow] at *; omega)
  generalize hb3 : store b2 DEST_OFFSET DEST_MASK d = b3 at s3
  have s4 := setBit_toNat b3 COLOR_OFFSET (c == Color.white) (by decide)
    (by simp only [COLOR_OFFSET, DEST_OFFSET, ORIGIN_OFFSET, PIECE_OFFSET, Nat.reducePow] at *; omega)
  generalize hb4 : setBit b3 COLOR_OFFSET (c == Color.white) = b4 at s4
  have hstep : byMoving c p o d = if dbl p o d then setBit b4 DOUBLE_PAWN_OFFSET true else b4 := by
    unfold byMoving dbl
    simp only [hb1, hb2, hb3, hb4, Bool.and_eq_true, decide_eq_true_eq, beq_iff_eq]
  rw [hstep]
  cases hdb : dbl p o d
  · simp only [Bool.false_eq_true, if_false, Bool.toNat_false]
    simp only [COLOR_OFFSET, DEST_OFFSET, ORIGIN_OFFSET, PIECE_OFFSET, Nat.reducePow] at *; omega
  · have s5 := setBit_true_toNat b4 DOUBLE_PAWN_OFFSET (by decide)
      (by simp only [DOUBLE_PAWN_OFFSET, COLOR_OFFSET, DEST_OFFSET, ORIGIN_OFFSET, PIECE_OFFSET,
            Nat.reducePow] at *; omega)
    simp only [if_true, Bool.toNat_true]
    simp only [DOUBLE_PAWN_OFFSET, COLOR_OFFSET, DEST_OFFSET, ORIGIN_OFFSET, PIECE_OFFSET,
      Nat.reducePow] at *; omega

/-- closed form of the general constructor -/
theorem mk_toNat (c : Color) (p : Piece) (o d : Nat) (cap pr : Option Piece) (ep cq ck : Bool)
    (ho : o < 64) (hd : d < 64) :
    (mk c p o d cap pr ep cq ck).toNat =
      p.code + o * 2 ^ 4 + d * 2 ^ 10 + optCode cap * 2 ^ 16 + optCode pr * 2 ^ 20 + ep.toNat * 2 ^ 24 +
        (dbl p o d).toNat * 2 ^ 25 + cq.toNat * 2 ^ 26 + ck.toNat * 2 ^ 27 +
        (c == Color.white).toNat * 2 ^ 28 := by
  have hp := code_le p
  have hc := optCode_le cap
  have hr := optCode_le pr
  have hw := Bool.toNat_le (c == Color.white)
  have hdb := Bool.toNat_le (dbl p o d)
  have hep := Bool.toNat_le ep
  have hcq := Bool.toNat_le cq
  have hck := Bool.toNat_le ck
  have s0 := byMoving_toNat c p o d ho hd
  dsimp only [mk]
  generalize byMoving c p o d = b0 at s0 ⊢
  simp only [Nat.reducePow] at s0
  have s1 := store_toNat b0 CAPTURE_OFFSET 4 CAPTURE_MASK (optCode cap) (by decide) (by decide) (by decide)
    (by simp only [Nat.reducePow]; omega) (by simp only [CAPTURE_OFFSET, Nat.reducePow]; omega)
  generalize store b0 CAPTURE_OFFSET CAPTURE_MASK (optCode cap) = b1 at s1 ⊢
  simp only [CAPTURE_OFFSET, Nat.reducePow] at s1
  have s2 := store_toNat b1 PROMOTION_OFFSET 4 PROMOTION_MASK (optCode pr) (by decide) (by decide) (by decide)
    (by simp only [Nat.reducePow]; omega) (by simp only [PROMOTION_OFFSET, Nat.reducePow]; omega)
  generalize store b1 PROMOTION_OFFSET PROMOTION_MASK (optCode pr) = b2 at s2 ⊢
  simp only [PROMOTION_OFFSET, Nat.reducePow] at s2
  have s3 := setBit_toNat b2 EN_PASSANT_OFFSET ep (by decide)
    (by simp only [EN_PASSANT_OFFSET, Nat.reducePow]; omega)
  generalize setBit b2 EN_PASSANT_OFFSET ep = b3 at s3 ⊢
  simp only [EN_PASSANT_OFFSET, Nat.reducePow] at s3
  have s4 := setBit_toNat b3 CASTLE_QUEENSIDE_OFFSET cq (by decide)
    (by simp only [CASTLE_QUEENSIDE_OFFSET, Nat.reducePow]; omega)
  generalize setBit b3 CASTLE_QUEENSIDE_OFFSET cq = b4 at s4 ⊢
  simp only [CASTLE_QUEENSIDE_OFFSET, Nat.reducePow] at s4
  have s5 := setBit_toNat b4 CASTLE_KINGSIDE_OFFSET ck (by decide)
    (by simp only [CASTLE_KINGSIDE_OFFSET, Nat.reducePow]; omega)
  generalize setBit b4 CASTLE_KINGSIDE_OFFSET ck = b5 at s5 ⊢
  simp only [CASTLE_KINGSIDE_OFFSET, Nat.reducePow] at s5
  simp only [Nat.reducePow]
  omega

/-! ## Accessors on the closed form -/

private theorem bit_of_toNat (n : Nat) (v : Bool) (h : n = v.toNat) : decide (n = 1) = v := by
  subst h; cases v <;> rfl

section accessors
variable (c : Color) (p : Piece) (o d : Nat) (cap pr : Option Piece) (ep cq ck : Bool)
  (ho : o < 64) (hd : d < 64)
include ho hd

theorem pieceCode_mk : pieceCode (mk c p o d cap pr ep cq ck) = p.code := by
  have h := mk_toNat c p o d cap pr ep cq ck ho hd
  have := code_le p
  unfold pieceCode
  rw [load_eq _ PIECE_OFFSET 4 PIECE_MASK (by decide) (by decide) (by decide) (by decide), h]
  simp only [PIECE_OFFSET, Nat.reducePow]; omega

theorem origin_mk : origin (mk c p o d cap pr ep cq ck) = o := by
  have h := mk_toNat c p o d cap pr ep cq ck ho hd
  have := code_le p
  unfold origin
  rw [load_eq _ ORIGIN_OFFSET 6 ORIGIN_MASK (by decide) (by decide) (by decide) (by decide), h]
  simp only [ORIGIN_OFFSET, Nat.reducePow]; omega

theorem dest_mk : dest (mk c p o d cap pr ep cq ck) = d := by
  have h := mk_toNat c p o d cap pr ep cq ck ho hd
  have := code_le p
  unfold dest
  rw [load_eq _ DEST_OFFSET 6 DEST_MASK (by decide) (by decide) (by decide) (by decide), h]
  simp only [DEST_OFFSET, Nat.reducePow]; omega

theorem captureCode_mk : captureCode (mk c p o d cap pr ep cq ck) = optCode cap := by
  have h := mk_toNat c p o d cap pr ep cq ck ho hd
  have := code_le p
  have := optCode_le cap
  unfold captureCode
  rw [load_eq _ CAPTURE_OFFSET 4 CAPTURE_MASK (by decide) (by decide) (by decide) (by decide), h]
  simp only [CAPTURE_OFFSET, Nat.reducePow]; omega

theorem promotionCode_mk : promotionCode (mk c p o d cap pr ep cq ck) = optCode pr := by
  have h := mk_toNat c p o d cap pr ep cq ck ho hd
  have := code_le p
  have := optCode_le cap
  have := optCode_le pr
  unfold promotionCode
  rw [load_eq _ PROMOTION_OFFSET 4 PROMOTION_MASK (by decide) (by decide) (by decide) (by decide), h]
  simp only [PROMOTION_OFFSET, Nat.reducePow]; omega

theorem isEnPassant_mk : isEnPassant (mk c p o d cap pr ep cq ck) = ep := by
  have h := mk_toNat c p o d cap pr ep cq ck ho hd
  have := code_le p
  have := optCode_le cap
  have := optCode_le pr
  have := Bool.toNat_le ep
  unfold isEnPassant
  rw [getBit_eq _ EN_PASSANT_OFFSET (by decide), h]
  apply bit_of_toNat
  simp only [EN_PASSANT_OFFSET, Nat.reducePow]; omega

theorem isDoublePawn_mk : isDoublePawn (mk c p o d cap pr ep cq ck) = dbl p o d := by
  have h := mk_toNat c p o d cap pr ep cq ck ho hd
  have := code_le p
  have := optCode_le cap
  have := optCode_le pr
  have := Bool.toNat_le ep
  have := Bool.toNat_le (dbl p o d)
  unfold isDoublePawn
  rw [getBit_eq _ DOUBLE_PAWN_OFFSET (by decide), h]
  apply bit_of_toNat
  simp only [DOUBLE_PAWN_OFFSET, Nat.reducePow]; omega

theorem castleQ_mk : castleQ (mk c p o d cap pr ep cq ck) = cq := by
  have h := mk_toNat c p o d cap pr ep cq ck ho hd
  have := code_le p
  have := optCode_le cap
  have := optCode_le pr
  have := Bool.toNat_le ep
  have := Bool.toNat_le (dbl p o d)
  have := Bool.toNat_le cq
  unfold castleQ
  rw [getBit_eq _ CASTLE_QUEENSIDE_OFFSET (by decide), h]
  apply bit_of_toNat
  simp only [CASTLE_QUEENSIDE_OFFSET, Nat.reducePow]; omega

theorem castleK_mk : castleK (mk c p o d cap pr ep cq ck) = ck := by
  have h := mk_toNat c p o d cap pr ep cq ck ho hd
  have := code_le p
  have := optCode_le cap
  have := optCode_le pr
  have := Bool.toNat_le ep
  have := Bool.toNat_le (dbl p o d)
  have := Bool.toNat_le cq
  have := Bool.toNat_le ck
  unfold castleK
  rw [getBit_eq _ CASTLE_KINGSIDE_OFFSET (by decide), h]
  apply bit_of_toNat
  simp only [CASTLE_KINGSIDE_OFFSET, Nat.reducePow]; omega

theorem isWhite_mk : isWhite (mk c p o d cap pr ep cq ck) = (c == Color.white) := by
  have h := mk_toNat c p o d cap pr ep cq ck ho hd
  have := code_le p
  have := optCode_le cap
  have := optCode_le pr
  have := Bool.toNat_le ep
  have := Bool.toNat_le (dbl p o d)
  have := Bool.toNat_le cq
  have := Bool.toNat_le ck
  have := Bool.toNat_le (c == Color.white)
  unfold isWhite
  rw [getBit_eq _ COLOR_OFFSET (by decide), h]
  apply bit_of_toNat
  simp only [COLOR_OFFSET, Nat.reducePow]; omega

end accessors

/-- the raw value of every constructed move fits the low 29 bits -/
theorem mk_lt (c : Color) (p : Piece) (o d : Nat) (cap pr : Option Piece) (ep cq ck : Bool)
    (ho : o < 64) (hd : d < 64) : (mk c p o d cap pr ep cq ck).toNat < 2 ^ 29 := by
  rw [mk_toNat c p o d cap pr ep cq ck ho hd]
  have := code_le p
  have := optCode_le cap
  have := optCode_le pr
  have := Bool.toNat_le ep
  have := Bool.toNat_le (dbl p o d)
  have := Bool.toNat_le cq
  have := Bool.toNat_le ck
  have := Bool.toNat_le (c == Color.white)
  simp only [Nat.reducePow]; omega

/-! ## The public constructors are instances of `mk` -/

section instances
variable (c : Color) (p : Piece) (o d : Nat) (ho : o < 64) (hd : d < 64)
include ho hd

theorem byMoving_eq_mk :
    byMoving c p o d = mk c p o d Option.none Option.none false false false := by
  apply UInt32.toNat_inj.1
  rw [mk_toNat c p o d _ _ _ _ _ ho hd, byMoving_toNat c p o d ho hd]
  simp only [optCode, Bool.toNat_false, Nat.reducePow]
  omega

theorem byCapturing_eq_mk (q : Piece) :
    byCapturing c p o d q = mk c p o d (some q) Option.none false false false := by
  have hq := code_le q
  have hp := code_le p
  have := Bool.toNat_le (dbl p o d)
  have := Bool.toNat_le (c == Color.white)
  have s0 := byMoving_toNat c p o d ho hd
  simp only [Nat.reducePow] at s0
  have s1 := store_toNat (byMoving c p o d) CAPTURE_OFFSET 4 CAPTURE_MASK q.code (by decide) (by decide)
    (by decide) (by simp only [Nat.reducePow]; omega) (by simp only [CAPTURE_OFFSET, Nat.reducePow]; omega)
  apply UInt32.toNat_inj.1
  rw [mk_toNat c p o d _ _ _ _ _ ho hd]
  unfold byCapturing
  simp only [CAPTURE_OFFSET, Nat.reducePow, optCode, Bool.toNat_false] at s1 ⊢
  omega

theorem byPromoting_eq_mk (r : Piece) :
    byPromoting c p o d r = mk c p o d Option.none (some r) false false false := by
  have hr := code_le r
  have hp := code_le p
  have := Bool.toNat_le (dbl p o d)
  have := Bool.toNat_le (c == Color.white)
  have s0 := byMoving_toNat c p o d ho hd
  simp only [Nat.reducePow] at s0
  have s1 := store_toNat (byMoving c p o d) PROMOTION_OFFSET 4 PROMOTION_MASK r.code (by decide) (by decide)
    (by decide) (by simp only [Nat.reducePow]; omega) (by simp only [PROMOTION_OFFSET, Nat.reducePow]; omega)
  apply UInt32.toNat_inj.1
  rw [mk_toNat c p o d _ _ _ _ _ ho hd]
  unfold byPromoting
  simp only [PROMOTION_OFFSET, Nat.reducePow, optCode, Bool.toNat_false] at s1 ⊢
  omega

theorem byCapturePromoting_eq_mk (q r : Piece) :
    byCapturePromoting c p o d q r = mk c p o d (some q) (some r) false false false := by
  have hq := code_le q
  have hr := code_le r
  have hp := code_le p
  have := Bool.toNat_le (dbl p o d)
  have := Bool.toNat_le (c == Color.white)
  have s0 := byMoving_toNat c p o d ho hd
  simp only [Nat.reducePow] at s0
  have s1 := store_toNat (byMoving c p o d) CAPTURE_OFFSET 4 CAPTURE_MASK q.code (by decide) (by decide)
    (by decide) (by simp only [Nat.reducePow]; omega) (by simp only [CAPTURE_OFFSET, Nat.reducePow]; omega)
  simp only [CAPTURE_OFFSET, Nat.reducePow] at s1
  have s2 := store_toNat (store (byMoving c p o d) 16 CAPTURE_MASK q.code) PROMOTION_OFFSET 4
    PROMOTION_MASK r.code (by decide) (by decide)
    (by decide) (by simp only [Nat.reducePow]; omega) (by simp only [PROMOTION_OFFSET, Nat.reducePow]; omega)
  apply UInt32.toNat_inj.1
  rw [mk_toNat c p o d _ _ _ _ _ ho hd]
  unfold byCapturePromoting
  simp only [CAPTURE_OFFSET, PROMOTION_OFFSET, Nat.reducePow, optCode, Bool.toNat_false] at s2 ⊢
  omega

theorem byEnPassant_eq_mk :
    byEnPassant c p o d = mk c p o d (some Piece.pawn) Option.none true false false := by
  have hp := code_le p
  have := Bool.toNat_le (dbl p o d)
  have := Bool.toNat_le (c == Color.white)
  have s0 := byMoving_toNat c p o d ho hd
  simp only [Nat.reducePow] at s0
  have s1 := setBit_true_toNat (byMoving c p o d) EN_PASSANT_OFFSET (by decide)
    (by simp only [EN_PASSANT_OFFSET, Nat.reducePow]; omega)
  simp only [EN_PASSANT_OFFSET, Nat.reducePow] at s1
  have s2 := store_toNat (setBit (byMoving c p o d) 24 true) CAPTURE_OFFSET 4 CAPTURE_MASK Piece.pawn.code
    (by decide) (by decide) (by decide) (by decide) (by simp only [CAPTURE_OFFSET, Nat.reducePow]; omega)
  apply UInt32.toNat_inj.1
  rw [mk_toNat c p o d _ _ _ _ _ ho hd]
  unfold byEnPassant
  simp only [EN_PASSANT_OFFSET, CAPTURE_OFFSET, Nat.reducePow, optCode, Bool.toNat_false, Bool.toNat_true,
    show Piece.pawn.code = 1 from rfl] at s2 ⊢
  omega

end instances

/-- `Move::by_castling`: the king move from `KING_ORIGINS[colour]` to `CASTLE_DESTS[colour][side]`
with exactly the flag of its side. -/
theorem byCastling_eq_mk (c : Color) (s : Side) :
    byCastling c s = mk c Piece.king (kingOrigins[c.idx]!) (castleDests[c.idx]![s.idx]!)
      Option.none Option.none false (s == Side.queen) (s == Side.king) := by
  cases c <;> cases s <;> decide

/-! ## All getters at once -/

theorem optDecode (cap : Option Piece) (h : cap ≠ some Piece.none) :
    (if optCode cap = 0 then Option.none else Piece.ofCode? (optCode cap)) = cap := by
  cases cap with
  | none => rfl
  | some q =>
    have hq : q.code ≠ 0 := by
      cases q <;> first | exact absurd rfl h | decide
    simp only [optCode, if_neg hq, ofCode_code]

/-- every getter of a move built by the general constructor returns the constructed attribute -/
theorem attrs_mk (c : Color) (p : Piece) (o d : Nat) (cap pr : Option Piece) (ep cq ck : Bool)
    (ho : o < 64) (hd : d < 64) (hc : cap ≠ some Piece.none) (hr : pr ≠ some Piece.none) :
    attrs (mk c p o d cap pr ep cq ck) =
      { color := c, piece := some p, origin := o, dest := d, capture := cap, promotion := pr,
        enPassant := ep, doublePawn := dbl p o d, castleQ := cq, castleK := ck } := by
  have hcol : color (mk c p o d cap pr ep cq ck) = c := by
    unfold color; rw [isWhite_mk c p o d cap pr ep cq ck ho hd]; cases c <;> rfl
  have hpc : piece? (mk c p o d cap pr ep cq ck) = some p := by
    unfold piece?; rw [pieceCode_mk c p o d cap pr ep cq ck ho hd, ofCode_code]
  have hcap : capture (mk c p o d cap pr ep cq ck) = cap := by
    unfold capture; rw [captureCode_mk c p o d cap pr ep cq ck ho hd]; exact optDecode cap hc
  have hpr : promotion (mk c p o d cap pr ep cq ck) = pr := by
    unfold promotion; rw [promotionCode_mk c p o d cap pr ep cq ck ho hd]; exact optDecode pr hr
  unfold attrs
  rw [hcol, hpc, hcap, hpr, origin_mk c p o d cap pr ep cq ck ho hd, dest_mk c p o d cap pr ep cq ck ho hd,
    isEnPassant_mk c p o d cap pr ep cq ck ho hd, isDoublePawn_mk c p o d cap pr ep cq ck ho hd,
    castleQ_mk c p o d cap pr ep cq ck ho hd, castleK_mk c p o d cap pr ep cq ck ho hd]

end Move
end Wee
