import Wee.Proofs.EvalFnsBridge
/-!
# Totality of translated evaluator functions (stage 3b, item "no panic under bounds")

`Wee/Proofs/EvalFnsBridge.lean` proves "when the translated function returns, it returns the model's value".  This file
proves for `StateVariation::from(&State)` that it DOES return (no `u8` overflow, no index out of bounds, no division by
a zero) whenever each side has at most 255 men — in particular on every position with at most 16 men a side, the
domain of `Wee/Proofs/EvalBound.lean`.
-/
set_option maxRecDepth 100000
set_option linter.unusedSimpArgs false
namespace Wee
namespace GenFns
open Gen

/-- a monadic fold succeeds and establishes `P full` when every step succeeds under the invariant; the step knows the
position `d ++ x :: t = full` in the list -/
theorem foldlM_total {σ α : Type} (f : σ → α → Option σ) (P : List α → σ → Prop) (full : List α)
    (step : ∀ d x t st, d ++ x :: t = full → P d st → ∃ st', f st x = some st' ∧ P (d ++ [x]) st') :
    ∀ (l d : List α) (st : σ), d ++ l = full → P d st → ∃ r, List.foldlM f st l = some r ∧ P full r
  | [], d, st, hd, hP => by
    rw [List.append_nil] at hd
    subst hd
    exact ⟨st, rfl, hP⟩
  | x :: t, d, st, hd, hP => by
    obtain ⟨st1, h1, hP1⟩ := step d x t st hd hP
    obtain ⟨r, hr, hPr⟩ := foldlM_total f P full step t (d ++ [x]) st1 (by rw [List.append_assoc]; exact hd) hP1
    exact ⟨r, by rw [List.foldlM_cons, h1]; exact hr, hPr⟩

theorem bind_total {α β : Type} {X : Option α} {K : α → Option β} (Q : α → Prop) (h1 : ∃ a, X = some a ∧ Q a)
    (h2 : ∀ a, Q a → ∃ b, K a = some b) : ∃ b, X.bind K = some b := by
  obtain ⟨a, ha, hq⟩ := h1
  rw [ha, Option.bind_some]
  exact h2 a hq

theorem bind_total2 {α β : Type} {X : Option α} {K : α → Option β} (Q : α → Prop) (R : β → Prop)
    (h1 : ∃ a, X = some a ∧ Q a) (h2 : ∀ a, Q a → ∃ b, K a = some b ∧ R b) : ∃ b, X.bind K = some b ∧ R b := by
  obtain ⟨a, ha, hq⟩ := h1
  rw [ha, Option.bind_some]
  exact h2 a hq

theorem cntOf_app (s : Wee.State) (a b : List (Color × Piece)) (c : Color) :
    cntOf s (a ++ b) c = cntOf s a c + cntOf s b c := by
  simp [cntOf, List.map_append, List.sum_append]

/-- one iteration of the inner loop succeeds when the running count of the colour stays within `u8` -/
theorem sv_step_total (s : Wee.State) (c : Color) (p : Piece) (d : List (Color × Piece)) (cc pc : Array UInt8)
    (hI : SVInv s d (cc, pc)) (hb : cntOf s (d ++ [(c, p)]) c ≤ 255) :
    ∃ st', ((ArrayMap.index cc (Index.from_Color c)).bind fun t4 =>
            (UInt8.checked_add t4 (UInt32.toUInt8 (BitBoard.count_ones (s.pieces.get c p)))).bind fun t5 =>
            (ArrayMap.set cc (Index.from_Color c) t5).bind fun t6 =>
            (ArrayMap.set pc (Index.from_PieceIndex (PieceIndex.new c p))
              (UInt32.toUInt8 (BitBoard.count_ones (s.pieces.get c p)))).bind fun t7 =>
            some (t6, t7)) = some st' := by
  obtain ⟨x, hx, hxv⟩ := hI.cc c
  simp only at hx
  rw [cntOf_append, if_pos rfl] at hb
  have h4 : ArrayMap.index cc (Index.from_Color c) = some x := by
    unfold ArrayMap.index; rw [Index.from_Color_toNat]; exact hx
  have h5 : UInt8.checked_add x (UInt32.toUInt8 (BitBoard.count_ones (s.pieces.get c p))) =
      some (x + UInt32.toUInt8 (BitBoard.count_ones (s.pieces.get c p))) := by
    unfold UInt8.checked_add
    rw [if_pos]
    rw [count_u8, hxv]
    unfold pieceCount at hb
    omega
  have hc2 : c.idx < cc.size := by have := hI.ccs; simp only at this; cases c <;> simp [Color.idx, this]
  have hp16 : (PieceIndex.new c p).toNat < pc.size := by
    have := hI.pcs; simp only at this; rw [this]; exact PieceIndex.new_lt16 c p
  rw [h4, Option.bind_some, h5, Option.bind_some]
  unfold ArrayMap.set
  rw [Index.from_Color_toNat, Index.from_PieceIndex_toNat, if_pos hc2, if_pos hp16]
  exact ⟨_, rfl⟩

theorem allPairs_split (dc : List Color) (c : Color) (rc : List Color) (h : dc ++ c :: rc = Color.ALL) :
    allPairs = (dc.flatMap fun c => Piece.ALL.map fun p => (c, p)) ++ (Piece.ALL.map fun p => (c, p)) ++
      (rc.flatMap fun c => Piece.ALL.map fun p => (c, p)) := by
  unfold allPairs
  rw [← h]
  simp [List.flatMap_append, List.flatMap_cons]

/-- **`StateVariation::from(&State)` does not panic** on a state with at most 255 men a side; the result represents the
model's `Variation.of s` -/
theorem StateVariation.from_State_total (s : Wee.State) (hmen : ∀ c, (Variation.of s).count c ≤ 255) :
    ∃ sv, StateVariation.from_State (stateOf s) = some sv ∧ SVRep sv (Variation.of s) := by
  suffices h : ∃ sv, StateVariation.from_State (stateOf s) = some sv from by
    obtain ⟨sv, hsv⟩ := h
    exact ⟨sv, hsv, StateVariation.from_State_eq s sv hsv⟩
  have hall : ∀ c, cntOf s allPairs c ≤ 255 := fun c => by rw [cntOf_all]; exact hmen c
  unfold StateVariation.from_State
  simp only [Option.bind_eq_bind]
  -- the two loops
  have h0 : SVInv s [] (Array.replicate 2 (0 : UInt8), Array.replicate 16 (0 : UInt8)) := by
    refine ⟨rfl, rfl, fun c => ⟨0, by cases c <;> rfl, rfl⟩, fun c p => ⟨0, ?_, fun hm => (by cases hm), fun _ => rfl⟩⟩
    cases c <;> cases p <;> rfl
  refine bind_total (SVInv s allPairs) ?_ ?_
  · refine foldlM_total _
      (fun (dc : List Color) st => SVInv s (dc.flatMap fun c => Piece.ALL.map fun p => (c, p)) st) Color.ALL
      ?_ Color.ALL [] _ rfl (by simpa using h0)
    intro dc c rc st0 hdc hP
    refine bind_total2 (fun st2 =>
      SVInv s ((dc.flatMap fun c => Piece.ALL.map fun p => (c, p)) ++ Piece.ALL.map fun p => (c, p)) st2) _ ?_ ?_
    · refine foldlM_total _ (fun (dp : List Piece) st =>
        SVInv s ((dc.flatMap fun c => Piece.ALL.map fun p => (c, p)) ++ dp.map fun p => (c, p)) st) Piece.ALL
        ?_ Piece.ALL [] (st0.1, st0.2) rfl (by simpa using hP)
      intro dp p rp sta hdp hPa
      have hbound : cntOf s (((dc.flatMap fun c => Piece.ALL.map fun p => (c, p)) ++ dp.map fun p => (c, p)) ++ [(c, p)]) c ≤ 255 := by
        have hsplit := allPairs_split dc c rc hdc
        have := hall c
        rw [hsplit, cntOf_app, cntOf_app] at this
        have hM : cntOf s (Piece.ALL.map fun p => (c, p)) c =
            cntOf s (dp.map fun p => (c, p)) c + cntOf s [(c, p)] c + cntOf s (rp.map fun p => (c, p)) c := by
          rw [← hdp, List.map_append, List.map_cons, cntOf_app,
            show ((c, p) :: rp.map fun p => (c, p)) = [(c, p)] ++ rp.map fun p => (c, p) from rfl, cntOf_app]
          omega
        rw [cntOf_app, cntOf_app]
        omega
      obtain ⟨st', hst'⟩ := sv_step_total s c p _ sta.1 sta.2 hPa hbound
      refine ⟨st', ?_, ?_⟩
      · simpa only [Board.piece_occupancy_stateOf, Option.bind_eq_bind, Option.bind_some, Option.pure_def] using hst'
      · have := sv_step s c p _ sta.1 sta.2 st' hPa hst'
        simpa [List.map_append, List.append_assoc] using this
    · intro st2 hI2
      refine ⟨(st2.1, st2.2), rfl, ?_⟩
      simpa [List.flatMap_append] using hI2
  · intro st hI
    -- `count_pieces`
    have hcp : ∀ p : Piece, ∃ r,
        ((ArrayMap.index st.2 (Index.from_PieceIndex (PieceIndex.new Color.white p))).bind fun t9 =>
          (ArrayMap.index st.2 (Index.from_PieceIndex (PieceIndex.new Color.black p))).bind fun t10 =>
          (UInt8.checked_add t9 t10).bind fun t11 => some (F32.ofInt (Int.ofNat (UInt8.toNat t11)))) = some r := by
      intro p
      obtain ⟨x, hx, hx1, hx2⟩ := hI.pc .white p
      obtain ⟨y, hy, hy1, hy2⟩ := hI.pc .black p
      have bx : x.toNat ≤ 64 := by
        by_cases hm : (Color.white, p) ∈ allPairs
        · rw [hx1 hm]; exact popcount_le _
        · rw [hx2 hm]; decide
      have by' : y.toNat ≤ 64 := by
        by_cases hm : (Color.black, p) ∈ allPairs
        · rw [hy1 hm]; exact popcount_le _
        · rw [hy2 hm]; decide
      unfold ArrayMap.index
      rw [Index.from_PieceIndex_toNat, Index.from_PieceIndex_toNat, hx, hy]
      simp only [Option.bind_some]
      unfold UInt8.checked_add
      rw [if_pos (by omega)]
      exact ⟨_, rfl⟩
    obtain ⟨r1, hr1⟩ := hcp .pawn
    obtain ⟨r2, hr2⟩ := hcp .queen
    simp only [Option.pure_def]
    rw [hr1, Option.bind_some, hr2, Option.bind_some]
    unfold f32.checked_div
    rw [if_neg egw_den_ne]
    exact ⟨_, rfl⟩

end GenFns
end Wee
