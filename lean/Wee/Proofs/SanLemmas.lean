import Wee.Model.San
import Wee.Spec.San
import Wee.Spec.Abs
/-!
# Helper lemmas for C12 (SAN scanner, move queries, coordinate notation)

* the SAN scanner `parseSanChars` as a pipeline of stages (`scan`), equal to the model by `rfl`;
* what each stage does on the characters the independent SAN writer `Spec.partsText` emits;
* `parse_written`: the scanner reads back exactly the parts that were written;
* the semantic link between `MoveQuery.test` and `Spec.denotes`;
* coordinate notation (`Move.lan`, `parseUciMoveToken`).
-/
namespace Wee.SanP
open Wee

def stMark (it : List Char) : List Char :=
  match it with | '#' :: r => r | '+' :: r => r | _ => it

def promoOf (c : Char) : Option Piece :=
  match c with
  | 'Q' => some .queen | 'R' => some .rook | 'B' => some .bishop | 'N' => some .knight | _ => Option.none

def stEq (r : List Char) : List Char := match r with | '=' :: r' => r' | _ => r

def stPromo (it : List Char) (q : MoveQuery) : Option (List Char × MoveQuery) :=
  match it with
  | c :: r =>
    if c.isUpper then
      match promoOf c with
      | Option.none => Option.none
      | some p => some (stEq r, { q with promotion := some p })
    else some (it, q)
  | [] => some (it, q)

def stDigit (set : MoveQuery → Nat → MoveQuery) (it : List Char) (q : MoveQuery) :
    Option (List Char × MoveQuery) :=
  match it with
  | c :: r =>
    if c.isDigit then
      if '1' ≤ c ∧ c ≤ '8' then some (r, set q (c.toNat - '1'.toNat)) else Option.none
    else some (it, q)
  | [] => some (it, q)

def stLower (set : MoveQuery → Nat → MoveQuery) (it : List Char) (q : MoveQuery) :
    Option (List Char × MoveQuery) :=
  match it with
  | c :: r =>
    if c.isLower then
      if 'a' ≤ c ∧ c ≤ 'h' then some (r, set q (c.toNat - 'a'.toNat)) else Option.none
    else some (it, q)
  | [] => some (it, q)

def stCapture (it : List Char) (q : MoveQuery) : List Char × MoveQuery :=
  match it with | 'x' :: r => (r, { q with isCapture := some true }) | _ => (it, q)

def pieceOf (c : Char) : Option Piece :=
  match c with
  | 'K' => some .king | 'Q' => some .queen | 'R' => some .rook | 'B' => some .bishop
  | 'N' => some .knight | 'P' => some .pawn | _ => Option.none

def stPiece (it : List Char) (q : MoveQuery) : Option (List Char × MoveQuery) :=
  match it with
  | c :: r =>
    if c.isUpper then
      match pieceOf c with
      | Option.none => Option.none
      | some p => some (r, { q with piece := some p })
    else some (it, q)
  | [] => some (it, q)

def stFinish (it : List Char) (q : MoveQuery) : Option MoveQuery :=
  if !it.isEmpty then Option.none
  else some (if q.piece.isNone then { q with piece := some .pawn } else q)

/-- second half of the scanner: capture mark, origin rank, origin file, piece letter, end of text -/
def scanBack (it : List Char) (q : MoveQuery) : Option MoveQuery :=
  let (it, q) := stCapture it q
  match stDigit (fun q n => { q with originRank := some n }) it q with
  | Option.none => Option.none
  | some (it, q) =>
  match stLower (fun q n => { q with originFile := some n }) it q with
  | Option.none => Option.none
  | some (it, q) =>
  match stPiece it q with
  | Option.none => Option.none
  | some (it, q) => stFinish it q

/-- the non-castling part of the scanner as a pipeline of stages on the reversed text -/
def scan (it : List Char) : Option MoveQuery :=
  match stPromo (stMark it) {} with
  | Option.none => Option.none
  | some (it, q) =>
  match stDigit (fun q n => { q with destRank := some n }) it q with
  | Option.none => Option.none
  | some (it, q) =>
  match stLower (fun q n => { q with destFile := some n }) it q with
  | Option.none => Option.none
  | some (it, q) => scanBack it q

theorem parseSanChars_eq (cs : List Char) :
    parseSanChars cs =
      if startsWith cs "O-O-O".toList then some { castle := some .queen }
      else if startsWith cs "O-O".toList then some { castle := some .king }
      else scan cs.reverse := by
  unfold parseSanChars
  split
  · rfl
  split
  · rfl
  rfl

/-! ## characters written by the SAN writer -/

def rankC (r : Nat) : Char := Char.ofNat (49 + r)
def fileC (f : Nat) : Char := Char.ofNat (97 + f)

theorem rankC_facts (r : Nat) (h : r < 8) :
    (rankC r).isUpper = false ∧ (rankC r).isDigit = true ∧ ('1' ≤ rankC r ∧ rankC r ≤ '8') ∧
    (rankC r).toNat - '1'.toNat = r ∧ rankC r ≠ '#' ∧ rankC r ≠ '+' ∧ rankC r ≠ '=' ∧
    (rankC r).isLower = false ∧ rankC r ≠ 'x' := by
  have H : ∀ r : Fin 8, (rankC r.val).isUpper = false ∧ (rankC r.val).isDigit = true ∧
      ('1' ≤ rankC r.val ∧ rankC r.val ≤ '8') ∧
      (rankC r.val).toNat - '1'.toNat = r.val ∧ rankC r.val ≠ '#' ∧ rankC r.val ≠ '+' ∧ rankC r.val ≠ '=' ∧
      (rankC r.val).isLower = false ∧ rankC r.val ≠ 'x' := by decide
  exact H ⟨r, h⟩

theorem fileC_facts (f : Nat) (h : f < 8) :
    (fileC f).isUpper = false ∧ (fileC f).isDigit = false ∧ (fileC f).isLower = true ∧
    ('a' ≤ fileC f ∧ fileC f ≤ 'h') ∧ (fileC f).toNat - 'a'.toNat = f ∧ fileC f ≠ 'x' := by
  have H : ∀ f : Fin 8, (fileC f.val).isUpper = false ∧ (fileC f.val).isDigit = false ∧
      (fileC f.val).isLower = true ∧ ('a' ≤ fileC f.val ∧ fileC f.val ≤ 'h') ∧
      (fileC f.val).toNat - 'a'.toNat = f.val ∧ fileC f.val ≠ 'x' := by decide
  exact H ⟨f, h⟩

/-! ## stage lemmas -/

theorem stMark_skip (c : Char) (t : List Char) (h1 : c ≠ '#') (h2 : c ≠ '+') :
    stMark (c :: t) = c :: t := by
  unfold stMark; split <;> simp_all

theorem stEq_skip (c : Char) (t : List Char) (h : c ≠ '=') : stEq (c :: t) = c :: t := by
  unfold stEq; split <;> simp_all

theorem stPromo_skip (c : Char) (t : List Char) (q : MoveQuery) (h : c.isUpper = false) :
    stPromo (c :: t) q = some (c :: t, q) := by
  simp [stPromo, h]

theorem stDigit_hit (set : MoveQuery → Nat → MoveQuery) (r : Nat) (h : r < 8) (t : List Char)
    (q : MoveQuery) : stDigit set (rankC r :: t) q = some (t, set q r) := by
  obtain ⟨_, h2, h3, h4, _⟩ := rankC_facts r h
  have h4' : (rankC r).toNat - 49 = r := h4
  simp [stDigit, h2, h3, h4']

theorem stDigit_skip (set : MoveQuery → Nat → MoveQuery) (c : Char) (t : List Char) (q : MoveQuery)
    (h : c.isDigit = false) : stDigit set (c :: t) q = some (c :: t, q) := by
  simp [stDigit, h]

theorem stLower_hit (set : MoveQuery → Nat → MoveQuery) (f : Nat) (h : f < 8) (t : List Char)
    (q : MoveQuery) : stLower set (fileC f :: t) q = some (t, set q f) := by
  obtain ⟨_, _, h3, h4, h5, _⟩ := fileC_facts f h
  have h5' : (fileC f).toNat - 97 = f := h5
  simp [stLower, h3, h4, h5']

theorem stLower_skip (set : MoveQuery → Nat → MoveQuery) (c : Char) (t : List Char) (q : MoveQuery)
    (h : c.isLower = false) : stLower set (c :: t) q = some (c :: t, q) := by
  simp [stLower, h]

theorem stCapture_skip (c : Char) (t : List Char) (q : MoveQuery) (h : c ≠ 'x') :
    stCapture (c :: t) q = (c :: t, q) := by
  unfold stCapture; split <;> simp_all


/-! ## the written text as a list of characters -/

/-- `Spec.Kind` → model `Piece` (inverse of `absKind`) -/
def kindPiece : Spec.Kind → Piece
  | .pawn => .pawn | .knight => .knight | .bishop => .bishop | .rook => .rook | .queen => .queen
  | .king => .king

def kindChars : Spec.Kind → List Char
  | .pawn => [] | .knight => ['N'] | .bishop => ['B'] | .rook => ['R'] | .queen => ['Q'] | .king => ['K']

theorem kindUpper_toList (k : Spec.Kind) : (Spec.kindUpper k).toList = kindChars k := by
  cases k <;> rfl

def optC (f : Nat → Char) : Option Nat → List Char | some n => [f n] | Option.none => []
def capChars (b : Bool) : List Char := if b then ['x'] else []
def promoChars (p : Option Spec.Kind) (eqSign : Bool) : List Char :=
  match p with
  | some k => (if eqSign then ['='] else []) ++ kindChars k
  | Option.none => []

/-- `Spec.partsText` as a list of characters -/
def partsChars (s : Spec.SanParts) (eqSign : Bool) : List Char :=
  kindChars s.kind ++ optC fileC s.fromFile ++ optC rankC s.fromRank ++ capChars s.capture ++
    [fileC (s.dst % 8), rankC (s.dst / 8)] ++ promoChars s.promo eqSign

theorem partsText_toList (s : Spec.SanParts) (eqSign : Bool) :
    (Spec.partsText s eqSign).toList = partsChars s eqSign := by
  obtain ⟨k, ff, fr, cap, dst, pr⟩ := s
  cases ff <;> cases fr <;> cases cap <;> cases pr <;> cases eqSign <;>
    simp [Spec.partsText, partsChars, kindUpper_toList, Spec.sqName, optC, capChars, promoChars,
      fileC, rankC]

/-- the query a written SAN text is expected to produce -/
def expectedQuery (s : Spec.SanParts) : MoveQuery :=
  { piece := some (kindPiece s.kind)
    originRank := s.fromRank
    originFile := s.fromFile
    destRank := some (s.dst / 8)
    destFile := some (s.dst % 8)
    promotion := s.promo.map kindPiece
    castle := Option.none
    isCapture := if s.capture then some true else Option.none }

/-- side conditions on the parts: coordinates on the board, promotion to Q/R/B/N -/
structure WFParts (s : Spec.SanParts) : Prop where
  file : ∀ f, s.fromFile = some f → f < 8
  rank : ∀ r, s.fromRank = some r → r < 8
  dst : s.dst < 64
  promo : ∀ k, s.promo = some k → k ∈ Spec.promoKinds


/-! ## the scanner reads back what the writer wrote -/

theorem stPiece_nil (q : MoveQuery) : stPiece [] q = some ([], q) := rfl
theorem stDigit_nil (set) (q : MoveQuery) : stDigit set [] q = some ([], q) := rfl
theorem stLower_nil (set) (q : MoveQuery) : stLower set [] q = some ([], q) := rfl
theorem stCapture_nil (q : MoveQuery) : stCapture [] q = ([], q) := rfl
theorem stCapture_x (t) (q : MoveQuery) : stCapture ('x' :: t) q = (t, { q with isCapture := some true }) := rfl

theorem scanBack_written (k : Spec.Kind) (ff fr : Option Nat) (cap : Bool)
    (hf : ∀ f, ff = some f → f < 8) (hr : ∀ r, fr = some r → r < 8)
    (pr : Option Piece) (a b : Nat) :
    scanBack ((kindChars k ++ optC fileC ff ++ optC rankC fr ++ capChars cap).reverse)
        { promotion := pr, destRank := some a, destFile := some b } =
      some { piece := some (kindPiece k), originRank := fr, originFile := ff, destRank := some a,
             destFile := some b, promotion := pr, castle := Option.none,
             isCapture := if cap then some true else Option.none } := by
  have hF : ∀ f, ff = some f → _ := fun f h => fileC_facts f (hf f h)
  have hR : ∀ r, fr = some r → _ := fun r h => rankC_facts r (hr r h)
  rcases ff with _ | f <;> rcases fr with _ | r <;> cases cap <;> cases k <;>
    simp_all +decide [scanBack, stDigit_skip, stLower_skip, stCapture_skip, stDigit_hit, stLower_hit, stPiece, pieceOf, kindChars, optC, capChars, stCapture_nil, stCapture_x, stDigit_nil, stLower_nil, stFinish, kindPiece]

theorem stMark_plus (t : List Char) : stMark ('+' :: t) = t := rfl
theorem stMark_hash (t : List Char) : stMark ('#' :: t) = t := rfl
theorem stEq_eq (t : List Char) : stEq ('=' :: t) = t := rfl

theorem scan_written (mark : List Char) (hmark : mark = [] ∨ mark = ['+'] ∨ mark = ['#'])
    (pr : Option Spec.Kind) (hpr : ∀ k, pr = some k → k ∈ Spec.promoKinds) (eqSign : Bool)
    (r f : Nat) (hr : r < 8) (hf : f < 8) (t : List Char) (res : MoveQuery)
    (hback : scanBack t { promotion := pr.map kindPiece, destRank := some r, destFile := some f } = some res) :
    scan (mark.reverse ++ (promoChars pr eqSign).reverse ++ rankC r :: fileC f :: t) = some res := by
  have hR := rankC_facts r hr
  have hF := fileC_facts f hf
  rcases hmark with rfl | rfl | rfl <;> rcases pr with _ | k
  all_goals first
    | (simp_all +decide [scan, promoChars, stMark_plus, stMark_hash, stMark_skip, stPromo_skip, stDigit_hit, stLower_hit]; done)
    | (cases k <;> cases eqSign <;>
        simp_all +decide [scan, promoChars, kindChars, stMark_plus, stMark_hash, stMark_skip, stPromo, promoOf, stEq_eq, stEq_skip, stDigit_hit, stLower_hit, kindPiece])

theorem startsWith_O_false (c : Char) (t pre : List Char) (h : c ≠ 'O') :
    startsWith (c :: t) ('O' :: pre) = false := by
  simp only [startsWith, List.isPrefixOf, Bool.and_eq_false_imp, beq_iff_eq]
  intro h'; exact absurd h'.symm h

theorem partsChars_head (s : Spec.SanParts) (eqSign : Bool) (hs : WFParts s) (mark : List Char) :
    ∃ c t, partsChars s eqSign ++ mark = c :: t ∧ c ≠ 'O' := by
  obtain ⟨k, ff, fr, cap, dst, pr⟩ := s
  have h1 := fileC_facts (dst % 8) (by omega)
  have hF : ∀ f, ff = some f → _ := fun f h => fileC_facts f (hs.file f h)
  have hR : ∀ r, fr = some r → _ := fun r h => rankC_facts r (hs.rank r h)
  have hO : fileC (dst % 8) ≠ 'O' := by
    intro h; have := h1.2.2.1; rw [h] at this; exact absurd this (by decide)
  cases k
  case pawn =>
    rcases ff with _ | f
    · rcases fr with _ | r
      · cases cap
        · exact ⟨_, _, rfl, hO⟩
        · exact ⟨_, _, rfl, by decide⟩
      · refine ⟨_, _, rfl, ?_⟩
        intro h; have := (hR r rfl).2.1; rw [h] at this; exact absurd this (by decide)
    · refine ⟨_, _, rfl, ?_⟩
      intro h; have := (hF f rfl).2.2.1; rw [h] at this; exact absurd this (by decide)
  all_goals exact ⟨_, _, rfl, by decide⟩

theorem parse_written_chars (s : Spec.SanParts) (hs : WFParts s) (eqSign : Bool) (mark : List Char)
    (hmark : mark = [] ∨ mark = ['+'] ∨ mark = ['#']) :
    parseSanChars (partsChars s eqSign ++ mark) = some (expectedQuery s) := by
  obtain ⟨c, t, hct, hc⟩ := partsChars_head s eqSign hs mark
  rw [parseSanChars_eq, hct, show "O-O-O".toList = 'O' :: ['-','O','-','O'] from by decide,
    show "O-O".toList = 'O' :: ['-','O'] from by decide,
    startsWith_O_false _ _ _ hc, startsWith_O_false _ _ _ hc, ← hct]
  simp only [Bool.false_eq_true, if_false]
  have hrev : (partsChars s eqSign ++ mark).reverse =
      mark.reverse ++ (promoChars s.promo eqSign).reverse ++ rankC (s.dst / 8) :: fileC (s.dst % 8) ::
        (kindChars s.kind ++ optC fileC s.fromFile ++ optC rankC s.fromRank ++ capChars s.capture).reverse := by
    simp [partsChars]
  rw [hrev]
  have hd := hs.dst
  exact scan_written mark hmark s.promo hs.promo eqSign _ _ (by omega) (by omega) _ _
    (scanBack_written s.kind s.fromFile s.fromRank s.capture hs.file hs.rank _ _ _)


/-- **Parser correctness on written text** (string level). -/
theorem parse_written (s : Spec.SanParts) (hs : WFParts s) (eqSign : Bool) (mark : String)
    (hmark : mark = "" ∨ mark = "+" ∨ mark = "#") :
    parseSan (Spec.partsText s eqSign ++ mark) = some (expectedQuery s) := by
  unfold parseSan
  rw [String.toList_append, partsText_toList]
  apply parse_written_chars s hs
  rcases hmark with rfl | rfl | rfl
  · exact Or.inl rfl
  · exact Or.inr (Or.inl rfl)
  · exact Or.inr (Or.inr rfl)


/-! ## queries against moves: `MoveQuery.test` versus `Spec.denotes` -/

/-- the filter predicate of `Spec.denotes` -/
def matchesParts (s : Spec.SanParts) (m : Spec.SMove) : Bool :=
  m.castle.isNone && m.kind == s.kind && m.dst == s.dst && m.promo == s.promo &&
  m.capture.isSome == s.capture &&
  (match s.fromFile with | some f => m.src % 8 == f | none => true) &&
  (match s.fromRank with | some r => m.src / 8 == r | none => true)

theorem denotes_eq (L : List Spec.SMove) (s : Spec.SanParts) :
    Spec.denotes L s = L.filter (matchesParts s) := rfl

theorem matchesParts_iff (s : Spec.SanParts) (m : Spec.SMove) :
    matchesParts s m = true ↔
      m.castle = none ∧ m.kind = s.kind ∧ m.dst = s.dst ∧ m.promo = s.promo ∧
      m.capture.isSome = s.capture ∧ (∀ f, s.fromFile = some f → m.src % 8 = f) ∧
      (∀ r, s.fromRank = some r → m.src / 8 = r) := by
  obtain ⟨k, ff, fr, cap, dst, pr⟩ := s
  cases ff <;> cases fr <;> simp [matchesParts, and_assoc]

theorem test_iff (s : Spec.SanParts) (m : Move) :
    (expectedQuery s).test m = true ↔
      kindPiece s.kind = Move.piece m ∧
      (∀ r, s.fromRank = some r → r = Move.origin m / 8) ∧
      (∀ f, s.fromFile = some f → f = Move.origin m % 8) ∧
      s.dst = Move.dest m ∧
      (∀ k, s.promo = some k → kindPiece k = (Move.promotion m).getD (Move.piece m)) ∧
      (s.capture = true → Move.isCapture m = true) := by
  obtain ⟨k, ff, fr, cap, dst, pr⟩ := s
  have hd : (dst / 8 = Move.dest m / 8 ∧ dst % 8 = Move.dest m % 8) ↔ dst = Move.dest m := by omega
  rw [← hd]
  cases ff <;> cases fr <;> cases cap <;> cases pr <;>
    simp [MoveQuery.test, expectedQuery, rankOf, fileOf, and_assoc]

theorem absKind_eq_some (p : Piece) (k : Spec.Kind) : absKind p = some k ↔ p = kindPiece k := by
  cases p <;> cases k <;> simp [absKind, kindPiece]

theorem absKind_kindPiece (k : Spec.Kind) : absKind (kindPiece k) = some k := by
  cases k <;> rfl

theorem kindPiece_inj {a b : Spec.Kind} (h : kindPiece a = kindPiece b) : a = b := by
  cases a <;> cases b <;> first | rfl | cases h

theorem toSpecMove_eq_some (m : Move) (sm : Spec.SMove) :
    toSpecMove m = some sm ↔
      Move.piece m = kindPiece sm.kind ∧
      sm = { color := absColor (Move.color m), kind := sm.kind, src := Move.origin m, dst := Move.dest m
             capture := (Move.capture m).bind absKind
             promo := (Move.promotion m).bind absKind
             ep := Move.isEnPassant m
             castle := (Move.castleSide m).map (fun s => s == .king)
             dbl := Move.isDoublePawn m } := by
  unfold toSpecMove
  cases h : absKind (Move.piece m) with
  | none =>
    simp only [Option.bind_eq_bind, Option.bind_none, reduceCtorEq, false_iff, not_and]
    intro h'; rw [h', absKind_kindPiece] at h; cases h
  | some k =>
    rw [absKind_eq_some] at h
    simp only [Option.bind_eq_bind, Option.bind_some, Option.pure_def, Option.some.injEq]
    constructor
    · rintro rfl; exact ⟨h, rfl⟩
    · rintro ⟨h1, h2⟩
      have : k = sm.kind := kindPiece_inj (h.symm.trans h1)
      subst this; exact h2.symm

/-- the promotions a legal move can carry: none, or Q/R/B/N (`common::PROMOTION_TYPES`) -/
def lanPromos : List (Option Piece) := [Option.none, some .queen, some .rook, some .bishop, some .knight]

/-- accessor consistency of one packed move (what `Move::piece/origin/…` must satisfy for the
accessors not to panic and to describe a chess move).  All fields are decidable.  Origin and
destination are always `< 64` (six-bit fields): `origin_lt`, `dest_lt`. -/
structure AccOK (m : Move) : Prop where
  /-- the piece code is one of pawn … king -/
  piece : (absKind (Move.piece m)).isSome = true
  /-- the capture code is 0 (no capture) or a piece code -/
  capture : Move.captureCode m < 7
  /-- no promotion, or promotion to Q/R/B/N -/
  promotion : Move.promotion m ∈ lanPromos
  /-- only pawns promote -/
  promoPawn : Move.promotion m ≠ none → Move.piece m = .pawn
  /-- castling moves are king moves -/
  castleKing : Move.castleSide m ≠ none → Move.piece m = .king

instance (m : Move) : Decidable (AccOK m) :=
  decidable_of_iff
    ((absKind (Move.piece m)).isSome = true ∧
      Move.captureCode m < 7 ∧ Move.promotion m ∈ lanPromos ∧
      (Move.promotion m ≠ none → Move.piece m = .pawn) ∧
      (Move.castleSide m ≠ none → Move.piece m = .king))
    ⟨fun ⟨a, b, c, d, e⟩ => ⟨a, b, c, d, e⟩, fun h => ⟨h.1, h.2, h.3, h.4, h.5⟩⟩

theorem origin_lt (m : Move) : Move.origin m < 64 := by
  unfold Move.origin Move.load Gen.ORIGIN_OFFSET Gen.ORIGIN_MASK
  have h1 : ((m &&& (1008 : Nat).toUInt32) >>> (4 : Nat).toUInt32).toNat = (m.toNat &&& 1008) >>> 4 := by
    simp [UInt32.toNat_shiftRight, UInt32.toNat_and]
  rw [h1]
  have : m.toNat &&& 1008 ≤ 1008 := Nat.and_le_right
  rw [Nat.shiftRight_eq_div_pow]
  omega

theorem dest_lt (m : Move) : Move.dest m < 64 := by
  unfold Move.dest Move.load Gen.DEST_OFFSET Gen.DEST_MASK
  have h1 : ((m &&& (64512 : Nat).toUInt32) >>> (10 : Nat).toUInt32).toNat = (m.toNat &&& 64512) >>> 10 := by
    simp [UInt32.toNat_shiftRight, UInt32.toNat_and]
  rw [h1]
  have : m.toNat &&& 64512 ≤ 64512 := Nat.and_le_right
  rw [Nat.shiftRight_eq_div_pow]
  omega

theorem AccOK.piece' {m : Move} (h : AccOK m) : ∃ k, Move.piece m = kindPiece k := by
  have := h.piece
  cases hk : absKind (Move.piece m) with
  | none => rw [hk] at this; cases this
  | some k => exact ⟨k, (absKind_eq_some _ _).1 hk⟩

theorem AccOK.promotion' {m : Move} (h : AccOK m) :
    Move.promotion m = none ∨ ∃ k ∈ Spec.promoKinds, Move.promotion m = some (kindPiece k) := by
  have := h.promotion
  simp only [lanPromos, List.mem_cons, List.not_mem_nil, or_false] at this
  rcases this with h | h | h | h | h
  · exact Or.inl h
  · exact Or.inr ⟨.queen, by decide, h⟩
  · exact Or.inr ⟨.rook, by decide, h⟩
  · exact Or.inr ⟨.bishop, by decide, h⟩
  · exact Or.inr ⟨.knight, by decide, h⟩

/-- what uniqueness of move text needs from a list of (legal) moves -/
structure WFMoves (L : List Move) : Prop where
  acc : ∀ m ∈ L, AccOK m
  /-- a move is determined by piece, origin, destination and promotion -/
  inj : ∀ m ∈ L, ∀ m' ∈ L, Move.piece m = Move.piece m' → Move.origin m = Move.origin m' →
    Move.dest m = Move.dest m' → Move.promotion m = Move.promotion m' → m = m'
  /-- whether a move captures is a function of (piece kind, destination) -/
  capFn : ∀ m ∈ L, ∀ m' ∈ L, Move.piece m = Move.piece m' → Move.dest m = Move.dest m' →
    Move.isCapture m = Move.isCapture m'
  /-- whether a move promotes is a function of (piece kind, destination) -/
  promoFn : ∀ m ∈ L, ∀ m' ∈ L, Move.piece m = Move.piece m' → Move.dest m = Move.dest m' →
    (Move.promotion m).isSome = (Move.promotion m').isSome
  /-- one piece per origin square -/
  pieceFn : ∀ m ∈ L, ∀ m' ∈ L, Move.origin m = Move.origin m' → Move.piece m = Move.piece m'
  /-- one king: all king moves start on the same square -/
  oneKing : ∀ m ∈ L, ∀ m' ∈ L, Move.piece m = .king → Move.piece m' = .king →
    Move.origin m = Move.origin m'
  /-- at most one castling move per side -/
  castle : ∀ m ∈ L, ∀ m' ∈ L, Move.castleSide m ≠ none → Move.castleSide m = Move.castleSide m' → m = m'

set_option synthInstance.maxSize 2048 in
instance (L : List Move) : Decidable (WFMoves L) :=
  decidable_of_iff
    ((∀ m ∈ L, AccOK m) ∧
     (∀ m ∈ L, ∀ m' ∈ L, Move.piece m = Move.piece m' → Move.origin m = Move.origin m' →
        Move.dest m = Move.dest m' → Move.promotion m = Move.promotion m' → m = m') ∧
     (∀ m ∈ L, ∀ m' ∈ L, Move.piece m = Move.piece m' → Move.dest m = Move.dest m' →
        Move.isCapture m = Move.isCapture m') ∧
     (∀ m ∈ L, ∀ m' ∈ L, Move.piece m = Move.piece m' → Move.dest m = Move.dest m' →
        (Move.promotion m).isSome = (Move.promotion m').isSome) ∧
     (∀ m ∈ L, ∀ m' ∈ L, Move.origin m = Move.origin m' → Move.piece m = Move.piece m') ∧
     (∀ m ∈ L, ∀ m' ∈ L, Move.piece m = .king → Move.piece m' = .king →
        Move.origin m = Move.origin m') ∧
     (∀ m ∈ L, ∀ m' ∈ L, Move.castleSide m ≠ none → Move.castleSide m = Move.castleSide m' → m = m'))
    ⟨fun ⟨a, b, c, d, e, f, g⟩ => ⟨a, b, c, d, e, f, g⟩, fun h => ⟨h.1, h.2, h.3, h.4, h.5, h.6, h.7⟩⟩

theorem capture_isSome (m : Move) (h : Move.captureCode m < 7) :
    ((Move.capture m).bind absKind).isSome = Move.isCapture m := by
  have H : ∀ c, c < 7 → ((if c = 0 then none else Piece.ofCode? c).bind absKind).isSome = (c != 0) := by
    decide
  exact H _ h

theorem promo_bind_none (m : Move) (h : AccOK m) :
    (Move.promotion m).bind absKind = none ↔ Move.promotion m = none := by
  rcases h.promotion' with h | ⟨k, _, h⟩ <;> simp [h, absKind_kindPiece]

theorem promo_bind_some (m : Move) (k : Spec.Kind) :
    (Move.promotion m).bind absKind = some k ↔ Move.promotion m = some (kindPiece k) := by
  cases h : Move.promotion m <;> simp [absKind_eq_some]

theorem promo_bind_inj (m m' : Move) (h : AccOK m) (h' : AccOK m')
    (e : (Move.promotion m).bind absKind = (Move.promotion m').bind absKind) :
    Move.promotion m = Move.promotion m' := by
  cases hb : (Move.promotion m').bind absKind with
  | none => rw [hb] at e; rw [(promo_bind_none m h).1 e, (promo_bind_none m' h').1 hb]
  | some k => rw [hb] at e; rw [(promo_bind_some m k).1 e, (promo_bind_some m' k).1 hb]

theorem noPromo_of_ne_pawn (m : Move) (h : AccOK m) (hp : Move.piece m ≠ .pawn) :
    Move.promotion m = none := by
  cases h' : Move.promotion m with
  | none => rfl
  | some p => exact absurd (h.promoPawn (by rw [h']; simp)) hp

/-- **Heart of C12**: if the parts denote exactly `sm` among the spec images of `L`, the expected
query selects exactly `m` in `L`. -/
theorem unique_parts (L : List Move) (hwf : WFMoves L) (m : Move) (hm : m ∈ L) (sm : Spec.SMove)
    (hsm : toSpecMove m = some sm) (parts : Spec.SanParts)
    (hden : Spec.denotes (L.filterMap toSpecMove) parts = [sm]) :
    WFParts parts ∧ ∀ m' ∈ L, ((expectedQuery parts).test m' = true ↔ m' = m) := by
  have hmem : sm ∈ Spec.denotes (L.filterMap toSpecMove) parts := by rw [hden]; exact List.mem_singleton.2 rfl
  rw [denotes_eq, List.mem_filter, matchesParts_iff] at hmem
  obtain ⟨_, hc, hk, hd, hp, hcap, hf, hr⟩ := hmem
  obtain ⟨hpiece, hsmeq⟩ := (toSpecMove_eq_some m sm).1 hsm
  have hsrc : sm.src = Move.origin m := congrArg Spec.SMove.src hsmeq
  have hdst : sm.dst = Move.dest m := congrArg Spec.SMove.dst hsmeq
  have hpromo : sm.promo = (Move.promotion m).bind absKind := congrArg Spec.SMove.promo hsmeq
  have hcapt : sm.capture = (Move.capture m).bind absKind := congrArg Spec.SMove.capture hsmeq
  have hacc := hwf.acc m hm
  have hwfp : WFParts parts := by
    refine ⟨fun f h => ?_, fun r h => ?_, ?_, fun k h => ?_⟩
    · have := hf f h; omega
    · have := hr r h; have := origin_lt m; omega
    · have := dest_lt m; omega
    · rw [← hp, hpromo, promo_bind_some] at h
      rcases hacc.promotion' with h' | ⟨k', hk', h'⟩
      · rw [h'] at h; cases h
      · rw [h'] at h; cases kindPiece_inj (Option.some.inj h); exact hk'
  refine ⟨hwfp, fun m' hm' => ⟨fun ht => ?_, fun e => ?_⟩⟩
  · -- the query matches m'
    rw [test_iff] at ht
    obtain ⟨t1, t2, t3, t4, t5, t6⟩ := ht
    have hacc' := hwf.acc m' hm'
    have hpc : Move.piece m' = Move.piece m := by rw [← t1, hpiece, hk]
    have hde : Move.dest m' = Move.dest m := by rw [← t4, ← hd, hdst]
    by_cases hking : Move.piece m = .king
    · -- king moves: one king, so same origin; no promotions
      have ho := hwf.oneKing m' hm' m hm (hpc.trans hking) hking
      have p1 : Move.promotion m = none := noPromo_of_ne_pawn m hacc (by rw [hking]; decide)
      have p2 : Move.promotion m' = none := noPromo_of_ne_pawn m' hacc' (by rw [hpc, hking]; decide)
      exact hwf.inj m' hm' m hm hpc ho hde (p2.trans p1.symm)
    · -- otherwise m' is not a castle and its spec image is denoted by the parts
      obtain ⟨k', hk'⟩ := hacc'.piece'
      obtain ⟨sm', hsm'⟩ : ∃ sm', toSpecMove m' = some sm' := by
        refine ⟨_, (toSpecMove_eq_some m' { color := absColor (Move.color m'), kind := k', src := Move.origin m', dst := Move.dest m', capture := (Move.capture m').bind absKind, promo := (Move.promotion m').bind absKind, ep := Move.isEnPassant m', castle := (Move.castleSide m').map (fun s => s == .king), dbl := Move.isDoublePawn m' }).2 ⟨hk', rfl⟩⟩
      obtain ⟨hpiece', hsmeq'⟩ := (toSpecMove_eq_some m' sm').1 hsm'
      have hsrc' : sm'.src = Move.origin m' := congrArg Spec.SMove.src hsmeq'
      have hdst' : sm'.dst = Move.dest m' := congrArg Spec.SMove.dst hsmeq'
      have hpromo' : sm'.promo = (Move.promotion m').bind absKind := congrArg Spec.SMove.promo hsmeq'
      have hcapt' : sm'.capture = (Move.capture m').bind absKind := congrArg Spec.SMove.capture hsmeq'
      have hcast' : sm'.castle = (Move.castleSide m').map (fun s => s == .king) := congrArg Spec.SMove.castle hsmeq'
      have hin : sm' ∈ Spec.denotes (L.filterMap toSpecMove) parts := by
        rw [denotes_eq, List.mem_filter, matchesParts_iff]
        refine ⟨List.mem_filterMap.2 ⟨m', hm', hsm'⟩, ?_, ?_, ?_, ?_, ?_, ?_, ?_⟩
        · rw [hcast']
          cases hcs : Move.castleSide m' with
          | none => rfl
          | some s =>
            have := hacc'.castleKing (by rw [hcs]; simp)
            rw [hpc] at this; exact absurd this hking
        · apply kindPiece_inj; rw [← hpiece', ← t1]
        · rw [hdst', ← t4]
        · -- promotion
          have hsame := hwf.promoFn m' hm' m hm hpc hde
          rw [hpromo', ← hp, hpromo]
          cases hpm : Move.promotion m with
          | none =>
            rw [hpm] at hsame
            have : Move.promotion m' = none := by simpa using hsame
            rw [this]
          | some p =>
            rw [hpm] at hsame
            obtain ⟨p', hp'⟩ : ∃ p', Move.promotion m' = some p' := by
              cases h : Move.promotion m' with
              | none => rw [h] at hsame; cases hsame
              | some p' => exact ⟨p', rfl⟩
            rcases hacc.promotion' with h0 | ⟨k, _, h0⟩
            · rw [h0] at hpm; cases hpm
            · have hpk : parts.promo = some k := by
                rw [← hp, hpromo, promo_bind_some]; exact h0
              have := t5 k hpk
              rw [hp'] at this
              simp only [Option.getD_some] at this
              rw [hp', ← this, ← hpm, h0]
        · rw [hcapt', capture_isSome m' hacc'.capture, hwf.capFn m' hm' m hm hpc hde,
            ← capture_isSome m hacc.capture, ← hcapt, hcap]
        · intro f h; rw [hsrc']; exact (t3 f h).symm
        · intro r h; rw [hsrc']; exact (t2 r h).symm
      rw [hden, List.mem_singleton] at hin
      subst hin
      have ho : Move.origin m' = Move.origin m := by rw [← hsrc', hsrc]
      have hpr : Move.promotion m' = Move.promotion m :=
        promo_bind_inj m' m hacc' hacc (by rw [← hpromo', hpromo])
      exact hwf.inj m' hm' m hm hpc ho hde hpr
  · -- the query matches m itself
    subst e
    rw [test_iff]
    refine ⟨by rw [hpiece, hk], fun r h => ?_, fun f h => ?_, by rw [← hd, hdst], fun k h => ?_, fun h => ?_⟩
    · rw [← hsrc]; exact (hr r h).symm
    · rw [← hsrc]; exact (hf f h).symm
    · rw [← hp, hpromo, promo_bind_some] at h; rw [h]; rfl
    · rw [← capture_isSome m' hacc.capture, ← hcapt, hcap, h]


/-- the disambiguation variants `Spec.spellings` tries for a non-castling move -/
def variants (m : Spec.SMove) : List Spec.SanParts :=
  let base : Spec.SanParts := { kind := m.kind, fromFile := none, fromRank := none, capture := m.capture.isSome, dst := m.dst, promo := m.promo }
  if m.kind == .pawn then
    if m.capture.isSome then [{ base with fromFile := some (m.src % 8) }, { base with fromFile := some (m.src % 8), fromRank := some (m.src / 8) }]
    else [base]
  else [base, { base with fromFile := some (m.src % 8) }, { base with fromRank := some (m.src / 8) },
        { base with fromFile := some (m.src % 8), fromRank := some (m.src / 8) }]

/-- `Spec.spellings` with the list of legal moves and the check mark as parameters -/
def withMarks (mark t : String) : List String := if mark.isEmpty then [t] else [t, t ++ mark]

def spellingsIn (L : List Spec.SMove) (mark : String) (m : Spec.SMove) : List String :=
  match m.castle with
  | some true => withMarks mark "O-O"
  | some false => withMarks mark "O-O-O"
  | none =>
    ((variants m).filter fun s => Spec.denotes L s == [m]).flatMap fun s =>
      (if s.promo.isSome then [Spec.partsText s true, Spec.partsText s false] else [Spec.partsText s true]).flatMap (withMarks mark)

theorem spellings_eq (p : Spec.Pos) (m : Spec.SMove) :
    Spec.spellings p m = spellingsIn (Spec.legalMoves p) (Spec.checkMark p m) m := rfl

theorem mem_withMarks (mark t u : String)
    (h : u ∈ withMarks mark t) : u = t ++ "" ∨ u = t ++ mark := by
  unfold withMarks at h
  split at h
  · left; simpa using h
  · simp only [List.mem_cons, List.not_mem_nil, or_false] at h
    rcases h with h | h
    · left; simpa using h
    · right; exact h

theorem parse_castle (mark : String) (hmark : mark = "" ∨ mark = "+" ∨ mark = "#") :
    parseSan ("O-O" ++ mark) = some { castle := some .king } ∧
    parseSan ("O-O-O" ++ mark) = some { castle := some .queen } := by
  rcases hmark with rfl | rfl | rfl <;> exact ⟨by decide, by decide⟩

theorem test_castle (s : Side) (m : Move) :
    ({ castle := some s } : MoveQuery).test m = Move.isCastle m s := by
  simp [MoveQuery.test]


theorem isCastle_of_spec (m : Move) (b : Bool)
    (h : (Move.castleSide m).map (fun s => s == .king) = some b) :
    Move.isCastle m (if b then .king else .queen) = true := by
  unfold Move.isCastle
  cases hs : Move.castleSide m with
  | none => rw [hs] at h; cases h
  | some s =>
    rw [hs] at h
    cases s <;> cases b <;> first | rfl | exact absurd h (by decide)


/-! ## negative cases -/

theorem toSpecMove_of_acc (m : Move) (h : AccOK m) : ∃ sm, toSpecMove m = some sm := by
  obtain ⟨k, hk⟩ := h.piece'
  exact ⟨_, (toSpecMove_eq_some m { color := absColor (Move.color m), kind := k, src := Move.origin m, dst := Move.dest m, capture := (Move.capture m).bind absKind, promo := (Move.promotion m).bind absKind, ep := Move.isEnPassant m, castle := (Move.castleSide m).map (fun s => s == .king), dbl := Move.isDoublePawn m }).2 ⟨hk, rfl⟩⟩

/-- the fully disambiguated parts of a non-castling move -/
def fullParts (sm : Spec.SMove) : Spec.SanParts :=
  { kind := sm.kind, fromFile := some (sm.src % 8), fromRank := some (sm.src / 8),
    capture := sm.capture.isSome, dst := sm.dst, promo := sm.promo }

theorem fullSpelling_eq (sm : Spec.SMove) (h : sm.castle = none) :
    Spec.fullSpelling sm = Spec.partsText (fullParts sm) true := by
  unfold Spec.fullSpelling; rw [h]; rfl

/-- what `C12_negative` assumes about the attributes of the move `sm` that is not in the list -/
structure NegOK (L : List Move) (sm : Spec.SMove) : Prop where
  noCastle : sm.castle = none
  src : sm.src < 64
  dst : sm.dst < 64
  /-- promotions are to Q/R/B/N and only pawns promote -/
  promo : ∀ k, sm.promo = some k → k ∈ Spec.promoKinds ∧ sm.kind = .pawn
  /-- relative to `L`, a move is determined by kind, origin, destination and promotion
  (for chess: legal moves are pseudo-legal moves, and the pseudo-legal list has this property) -/
  det : ∀ m' ∈ L, ∀ sm', toSpecMove m' = some sm' → sm'.kind = sm.kind → sm'.src = sm.src →
    sm'.dst = sm.dst → sm'.promo = sm.promo → sm' = sm
  /-- if `sm` does not promote, no listed move of its kind to its destination promotes
  (for chess: promotion is decided by the destination rank) -/
  promoFn : sm.promo = none → ∀ m' ∈ L, Move.piece m' = kindPiece sm.kind → Move.dest m' = sm.dst →
    Move.promotion m' = none

theorem negative_parts (L : List Move) (hacc : ∀ m ∈ L, AccOK m) (sm : Spec.SMove)
    (hnot : ∀ m' ∈ L, toSpecMove m' ≠ some sm) (hok : NegOK L sm) :
    WFParts (fullParts sm) ∧ ∀ m' ∈ L, (expectedQuery (fullParts sm)).test m' = false := by
  have hwfp : WFParts (fullParts sm) := by
    refine ⟨fun f h => ?_, fun r h => ?_, hok.dst, fun k h => (hok.promo k h).1⟩
    · simp only [fullParts, Option.some.injEq] at h; omega
    · have := hok.src; simp only [fullParts, Option.some.injEq] at h; omega
  refine ⟨hwfp, fun m' hm' => ?_⟩
  cases ht : (expectedQuery (fullParts sm)).test m' with
  | false => rfl
  | true =>
    exfalso
    rw [test_iff] at ht
    obtain ⟨t1, t2, t3, t4, t5, _⟩ := ht
    have ha := hacc m' hm'
    obtain ⟨sm', hsm'⟩ := toSpecMove_of_acc m' ha
    obtain ⟨hpiece', hsmeq'⟩ := (toSpecMove_eq_some m' sm').1 hsm'
    have hsrc' : sm'.src = Move.origin m' := congrArg Spec.SMove.src hsmeq'
    have hdst' : sm'.dst = Move.dest m' := congrArg Spec.SMove.dst hsmeq'
    have hpromo' : sm'.promo = (Move.promotion m').bind absKind := congrArg Spec.SMove.promo hsmeq'
    have h2 := t2 (sm.src / 8) rfl
    have h3 := t3 (sm.src % 8) rfl
    have t1' : kindPiece sm.kind = Move.piece m' := t1
    have t4' : sm.dst = Move.dest m' := t4
    have hkind : sm'.kind = sm.kind := kindPiece_inj (hpiece'.symm.trans t1'.symm)
    have hpr : sm'.promo = sm.promo := by
      rw [hpromo']
      cases hp : sm.promo with
      | none => rw [hok.promoFn hp m' hm' t1'.symm t4'.symm]; rfl
      | some k =>
        have := t5 k hp
        cases hpm : Move.promotion m' with
        | none =>
          rw [hpm] at this
          simp only [Option.getD_none] at this
          have hk : k = sm.kind := kindPiece_inj (this.trans t1'.symm)
          obtain ⟨hk1, hk2⟩ := hok.promo k hp
          rw [hk, hk2] at hk1; exact absurd hk1 (by decide)
        | some p' =>
          rw [hpm] at this
          simp only [Option.getD_some] at this
          rw [← this]; simp [absKind_kindPiece]
    have := hok.det m' hm' sm' hsm' hkind (by rw [hsrc']; omega) (by rw [hdst', ← t4']) hpr
    exact hnot m' hm' (this ▸ hsm')


/-! ## coordinate notation -/

theorem firstByte_boundary (c : UInt8) (h : c.IsUTF8FirstByte) : ((c.toNat &&& 0xC0) != 0x80) = true := by
  have H : ∀ n : Fin 256, (UInt8.ofNat n.val).IsUTF8FirstByte → ((UInt8.ofNat n.val).toNat &&& 0xC0) != 0x80 := by
    decide +kernel
  have := H ⟨c.toNat, c.toNat_lt⟩
  have e : UInt8.ofNat c.toNat = c := by simp
  simp only [e] at this
  exact this h

theorem fromUTF8?_toByteArray (s : String) : String.fromUTF8? s.toByteArray = some s := by
  unfold String.fromUTF8?
  rw [dif_pos s.isValidUTF8]
  rfl

/-- byte `i` of a valid string's encoding at its own start is a boundary in the sense of `sliceBytes` -/
theorem boundary_start (P S : String) :
    (let bytes := (P ++ S).toByteArray
     (P.utf8ByteSize == bytes.size || (bytes[P.utf8ByteSize]!.toNat &&& 0xC0) != 0x80)) = true := by
  simp only [String.toByteArray_append, ByteArray.size_append, String.size_toByteArray, Bool.or_eq_true, beq_iff_eq]
  by_cases hS : S.utf8ByteSize = 0
  · left; omega
  · right
    have hlt : P.utf8ByteSize < (P.toByteArray ++ S.toByteArray).size := by
      simp [ByteArray.size_append, String.size_toByteArray]; omega
    rw [getElem!_pos (P.toByteArray ++ S.toByteArray) P.utf8ByteSize hlt, ByteArray.getElem_append_right (by simp [String.size_toByteArray])]
    apply firstByte_boundary
    simp only [String.size_toByteArray, Nat.sub_self]
    exact S.isValidUTF8.isUTF8FirstByte_getElem_zero (by simp [String.size_toByteArray]; omega)

theorem sliceBytes_append (P A S : String) :
    sliceBytes (P ++ A ++ S) P.utf8ByteSize (P.utf8ByteSize + A.utf8ByteSize) = some A := by
  have hb1 := boundary_start P (A ++ S)
  have hb2 := boundary_start (P ++ A) S
  rw [← String.append_assoc] at hb1
  have hsz : (P ++ A).utf8ByteSize = P.utf8ByteSize + A.utf8ByteSize := by
    simp [← String.size_toByteArray, String.toByteArray_append, ByteArray.size_append]
  rw [hsz] at hb2
  have hsize : (P ++ A ++ S).toByteArray.size = P.utf8ByteSize + A.utf8ByteSize + S.utf8ByteSize := by
    simp [String.toByteArray_append, ByteArray.size_append, String.size_toByteArray]
  have hext : (P ++ A ++ S).toByteArray.extract P.utf8ByteSize (P.utf8ByteSize + A.utf8ByteSize) = A.toByteArray := by
    rw [String.toByteArray_append, String.toByteArray_append, ByteArray.append_assoc]
    have h1 := ByteArray.extract_append_size_add' (a := P.toByteArray) (b := A.toByteArray ++ S.toByteArray)
      (i := 0) (j := A.utf8ByteSize) (k := P.utf8ByteSize) (String.size_toByteArray).symm
    rw [Nat.add_zero] at h1; rw [h1]
    exact ByteArray.extract_append_eq_left (String.size_toByteArray).symm
  unfold sliceBytes
  simp only [String.toUTF8_eq_toByteArray]
  rw [if_neg (by rw [hsize]; omega)]
  simp only at hb1 hb2
  rw [hb1, hb2]
  simp only [Bool.and_self, Bool.not_true, Bool.false_eq_true, if_false]
  rw [hext, fromUTF8?_toByteArray]

def promoSuffix : Option Piece → String
  | some p => String.ofList [p.letter.toLower]
  | Option.none => ""

/-- the text `Lan::into_notation` writes, as a function of origin, destination, promotion -/
def lanText (o d : Nat) (pr : Option Piece) : String := sqName o ++ sqName d ++ promoSuffix pr

theorem lan_eq (m : Move) : Move.lan m = lanText (Move.origin m) (Move.dest m) (Move.promotion m) := by
  unfold Move.lan lanText promoSuffix
  cases Move.promotion m <;> rfl

def lanQuery (o d : Nat) (pr : Option Piece) : MoveQuery :=
  { originRank := some (o / 8), originFile := some (o % 8), destRank := some (d / 8),
    destFile := some (d % 8), promotion := pr }


theorem sqName_facts (o : Nat) (h : o < 64) :
    (sqName o).utf8ByteSize = 2 ∧ parseSquare (sqName o).toList = some o ∧ (sqName o).toList.length = 2 := by
  have H : ∀ o : Fin 64, (sqName o.val).utf8ByteSize = 2 ∧ parseSquare (sqName o.val).toList = some o.val ∧ (sqName o.val).toList.length = 2 := by
    decide +kernel
  exact H ⟨o, h⟩

theorem lan_parse (o d : Nat) (ho : o < 64) (hd : d < 64) (pr : Option Piece) (hpr : pr ∈ lanPromos) :
    parseUciMoveToken (lanText o d pr) = some (some (lanQuery o d pr)) := by
  obtain ⟨so, po, lo⟩ := sqName_facts o ho
  obtain ⟨sd, pd, ld⟩ := sqName_facts d hd
  have h1 : sliceBytes (lanText o d pr) 0 2 = some (sqName o) := by
    have := sliceBytes_append "" (sqName o) (sqName d ++ promoSuffix pr)
    rw [so] at this
    simpa [lanText, String.append_assoc] using this
  have h2 : sliceBytes (lanText o d pr) 2 4 = some (sqName d) := by
    have := sliceBytes_append (sqName o) (sqName d) (promoSuffix pr)
    rw [so, sd] at this
    exact this
  have h3 : (lanText o d pr).toList[4]? = (promoSuffix pr).toList[0]? := by
    simp only [lanText, String.toList_append]
    rw [List.getElem?_append_right (by simp [lo, ld])]
    simp [lo, ld]
  unfold parseUciMoveToken
  rw [h1, h2]
  simp only [po, pd, h3]
  simp only [lanPromos, List.mem_cons, List.not_mem_nil, or_false] at hpr
  rcases hpr with rfl | rfl | rfl | rfl | rfl <;> rfl

theorem lanQuery_test_iff (o d : Nat) (pr : Option Piece) (m : Move) :
    (lanQuery o d pr).test m = true ↔
      Move.origin m = o ∧ Move.dest m = d ∧
      (∀ p, pr = some p → p = (Move.promotion m).getD (Move.piece m)) := by
  have ho : (o / 8 = Move.origin m / 8 ∧ o % 8 = Move.origin m % 8) ↔ Move.origin m = o := by omega
  have hd : (d / 8 = Move.dest m / 8 ∧ d % 8 = Move.dest m % 8) ↔ Move.dest m = d := by omega
  rw [← ho, ← hd]
  cases pr <;> simp [MoveQuery.test, lanQuery, rankOf, fileOf, and_assoc]

/-- in a well-formed list the coordinate query of `m` selects exactly `m` -/
theorem lan_unique (L : List Move) (hwf : WFMoves L) (m : Move) (hm : m ∈ L) :
    ∀ m' ∈ L, ((lanQuery (Move.origin m) (Move.dest m) (Move.promotion m)).test m' = true ↔ m' = m) := by
  intro m' hm'
  rw [lanQuery_test_iff]
  constructor
  · rintro ⟨ho, hd, hp⟩
    have hpc := hwf.pieceFn m' hm' m hm ho
    have hsame := hwf.promoFn m' hm' m hm hpc hd
    refine hwf.inj m' hm' m hm hpc ho hd ?_
    cases hpm : Move.promotion m with
    | none =>
      rw [hpm] at hsame
      cases h : Move.promotion m' with
      | none => rfl
      | some p' => rw [h] at hsame; cases hsame
    | some p =>
      rw [hpm] at hsame
      cases h : Move.promotion m' with
      | none => rw [h] at hsame; cases hsame
      | some p' =>
        have := hp p hpm
        rw [h] at this
        simp only [Option.getD_some] at this
        rw [this]
  · rintro rfl
    refine ⟨rfl, rfl, fun p hp => ?_⟩
    rw [hp]; rfl

/-- lower-case promotion suffix of the coordinate notation -/
def lanSuffix : Option Piece → String
  | some .queen => "q" | some .rook => "r" | some .bishop => "b" | some .knight => "n"
  | some .king => "k" | some .pawn => "p" | some .none => " " | Option.none => ""

theorem promoSuffix_eq (pr : Option Piece) : promoSuffix pr = lanSuffix pr := by
  cases pr with
  | none => rfl
  | some p => cases p <;> decide

theorem lan_castle :
    Move.lan (Move.byCastling .white .king) = "e1g1" ∧ Move.lan (Move.byCastling .white .queen) = "e1c1" ∧
    Move.lan (Move.byCastling .black .king) = "e8g8" ∧ Move.lan (Move.byCastling .black .queen) = "e8c8" ∧
    (∀ c s, Move.piece (Move.byCastling c s) = .king ∧ Move.isCastle (Move.byCastling c s) s = true ∧
       Move.promotion (Move.byCastling c s) = none) := by
  refine ⟨by decide +kernel, by decide +kernel, by decide +kernel, by decide +kernel, ?_⟩
  intro c s; cases c <;> cases s <;> decide +kernel


/-- a decidable sufficient condition for `NegOK.det`: no listed move has the kind, origin,
destination and promotion of `sm` -/
theorem det_of_noMatch (L : List Move) (sm : Spec.SMove)
    (h : ∀ m' ∈ L, ¬(Move.piece m' = kindPiece sm.kind ∧ Move.origin m' = sm.src ∧
      Move.dest m' = sm.dst ∧ (Move.promotion m').bind absKind = sm.promo)) :
    ∀ m' ∈ L, ∀ sm', toSpecMove m' = some sm' → sm'.kind = sm.kind → sm'.src = sm.src →
      sm'.dst = sm.dst → sm'.promo = sm.promo → sm' = sm := by
  intro m' hm' sm' hsm' hk hs hd hp
  exfalso
  obtain ⟨hpiece', hsmeq'⟩ := (toSpecMove_eq_some m' sm').1 hsm'
  have hsrc' : sm'.src = Move.origin m' := congrArg Spec.SMove.src hsmeq'
  have hdst' : sm'.dst = Move.dest m' := congrArg Spec.SMove.dst hsmeq'
  have hpromo' : sm'.promo = (Move.promotion m').bind absKind := congrArg Spec.SMove.promo hsmeq'
  exact h m' hm' ⟨by rw [hpiece', hk], by rw [← hsrc', hs], by rw [← hdst', hd], by rw [← hpromo', hp]⟩

end Wee.SanP
