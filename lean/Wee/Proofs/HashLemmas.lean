import Wee.Model.Hash
import Wee.Proofs.BitLemmas
/-!
# Lemmas about the Zobrist hash (`Wee.hash`, mirror of `ZobristHasher::hash`)

The hash of a position is the xor of the keys of its *atoms* (features):
one atom per set bit of each piece bitboard, one for the side to move, one per castling right that is
held, and one for the file of the en-passant target when a capture there is (pseudo-legally) available.

* generic xor-fold algebra over lists (`xorL`, permutation invariance, symmetric difference),
* `Atom`, `keyOf`, `atoms`, membership characterisation, `Nodup`,
* `hash K s = xorL (keyOf K) (atoms s)`,
* the rule-relevant key `key s` and `atoms s = atoms t ↔ key s = key t`.
-/
namespace Wee

/-! ## xor-folds over lists -/

section XorL
variable {α : Type}

/-- xor of `f a` over the list `l` (as a left fold from `0`, the shape of the loop in `hash`) -/
def xorL (f : α → UInt64) (l : List α) : UInt64 := l.foldl (fun h a => h ^^^ f a) 0

theorem foldl_xor_init (f : α → UInt64) (l : List α) (h : UInt64) :
    l.foldl (fun h a => h ^^^ f a) h = h ^^^ xorL f l := by
  unfold xorL
  induction l generalizing h with
  | nil => simp
  | cons a l ih =>
    simp only [List.foldl_cons]
    rw [ih (h ^^^ f a), ih (0 ^^^ f a), UInt64.zero_xor, UInt64.xor_assoc]

@[simp] theorem xorL_nil (f : α → UInt64) : xorL f [] = 0 := rfl

theorem xorL_cons (f : α → UInt64) (a : α) (l : List α) : xorL f (a :: l) = f a ^^^ xorL f l := by
  show (a :: l).foldl (fun h a => h ^^^ f a) 0 = _
  rw [List.foldl_cons, foldl_xor_init, UInt64.zero_xor]

theorem xorL_singleton (f : α → UInt64) (a : α) : xorL f [a] = f a := by
  rw [xorL_cons, xorL_nil, UInt64.xor_zero]

theorem xorL_append (f : α → UInt64) (l₁ l₂ : List α) :
    xorL f (l₁ ++ l₂) = xorL f l₁ ^^^ xorL f l₂ := by
  show (l₁ ++ l₂).foldl (fun h a => h ^^^ f a) 0 = _
  rw [List.foldl_append, foldl_xor_init]
  rfl

/-- folding xor over a permuted list gives the same result -/
theorem xorL_perm (f : α → UInt64) {l₁ l₂ : List α} (h : l₁.Perm l₂) : xorL f l₁ = xorL f l₂ := by
  induction h with
  | nil => rfl
  | cons a _ ih => rw [xorL_cons, xorL_cons, ih]
  | swap a b l =>
    rw [xorL_cons, xorL_cons, xorL_cons, xorL_cons, ← UInt64.xor_assoc, ← UInt64.xor_assoc,
      UInt64.xor_comm (f b) (f a)]
  | trans _ _ ih₁ ih₂ => rw [ih₁, ih₂]

/-- the `foldl` form of `xorL_perm` with an arbitrary start value -/
theorem foldl_xor_perm (f : α → UInt64) {l₁ l₂ : List α} (h : l₁.Perm l₂) (i : UInt64) :
    l₁.foldl (fun h a => h ^^^ f a) i = l₂.foldl (fun h a => h ^^^ f a) i := by
  rw [foldl_xor_init, foldl_xor_init, xorL_perm f h]

theorem xor_cancel_common (c a b : UInt64) : (c ^^^ a) ^^^ (c ^^^ b) = a ^^^ b := by
  rw [UInt64.xor_comm c a, UInt64.xor_assoc, ← UInt64.xor_assoc c c b, UInt64.xor_self,
    UInt64.zero_xor]

variable [DecidableEq α]

/-- symmetric difference of two lists: the elements of `l₁` not in `l₂`, then those of `l₂` not in `l₁` -/
def symmDiff (l₁ l₂ : List α) : List α :=
  l₁.filter (fun a => !decide (a ∈ l₂)) ++ l₂.filter (fun a => !decide (a ∈ l₁))

theorem mem_symmDiff (l₁ l₂ : List α) (a : α) :
    a ∈ symmDiff l₁ l₂ ↔ (a ∈ l₁ ∧ a ∉ l₂) ∨ (a ∈ l₂ ∧ a ∉ l₁) := by
  simp [symmDiff, List.mem_append, List.mem_filter]

theorem nodup_symmDiff {l₁ l₂ : List α} (h₁ : l₁.Nodup) (h₂ : l₂.Nodup) : (symmDiff l₁ l₂).Nodup := by
  unfold symmDiff
  rw [List.nodup_append]
  refine ⟨List.Pairwise.filter _ h₁, List.Pairwise.filter _ h₂, ?_⟩
  intro a ha b hb hab
  subst hab
  simp only [List.mem_filter, Bool.not_eq_eq_eq_not, Bool.not_true, decide_eq_false_iff_not] at ha hb
  exact hb.2 ha.1

/-- the symmetric difference is empty exactly when the two lists have the same elements -/
theorem symmDiff_eq_nil (l₁ l₂ : List α) : symmDiff l₁ l₂ = [] ↔ ∀ a, a ∈ l₁ ↔ a ∈ l₂ := by
  constructor
  · intro h a
    have := mem_symmDiff l₁ l₂ a
    rw [h] at this
    simp only [List.not_mem_nil, false_iff, not_or, not_and, Classical.not_not] at this
    exact ⟨this.1, this.2⟩
  · intro h
    apply List.eq_nil_iff_forall_not_mem.2
    intro a ha
    rw [mem_symmDiff] at ha
    rcases ha with ⟨h1, h2⟩ | ⟨h1, h2⟩
    · exact h2 ((h a).1 h1)
    · exact h2 ((h a).2 h1)

theorem common_perm {l₁ l₂ : List α} (h₁ : l₁.Nodup) (h₂ : l₂.Nodup) :
    (l₁.filter (fun a => decide (a ∈ l₂))).Perm (l₂.filter (fun a => decide (a ∈ l₁))) := by
  rw [List.perm_ext_iff_of_nodup (List.Pairwise.filter _ h₁) (List.Pairwise.filter _ h₂)]
  intro a
  simp only [List.mem_filter, decide_eq_true_eq]
  exact ⟨fun h => ⟨h.2, h.1⟩, fun h => ⟨h.2, h.1⟩⟩

/-- for duplicate-free lists, the xor of the two folds is the fold over the symmetric difference:
the common elements cancel -/
theorem xorL_symmDiff (f : α → UInt64) {l₁ l₂ : List α} (h₁ : l₁.Nodup) (h₂ : l₂.Nodup) :
    xorL f l₁ ^^^ xorL f l₂ = xorL f (symmDiff l₁ l₂) := by
  have p₁ := List.filter_append_perm (fun a => decide (a ∈ l₂)) l₁
  have p₂ := List.filter_append_perm (fun a => decide (a ∈ l₁)) l₂
  rw [← xorL_perm f p₁, ← xorL_perm f p₂, xorL_append, xorL_append,
    xorL_perm f (common_perm h₁ h₂), xor_cancel_common, symmDiff, xorL_append]

end XorL

/-! ## Atoms of a position -/

/-- The features of a position that `ZobristHasher::hash` xors a key for. -/
inductive Atom
  /-- bit `sq` of the bitboard of `PieceIndex::new(c, p)` is set -/
  | piece (sq : Nat) (c : Color) (p : Piece)
  /-- `c` is to move -/
  | turn (c : Color)
  /-- `c` holds the castling right on side `s` -/
  | castle (c : Color) (s : Side)
  /-- an en-passant capture is available on this file -/
  | ep (file : Nat)
deriving DecidableEq, Repr

/-- the key the hasher uses for an atom -/
def keyOf (K : Keys) : Atom → UInt64
  | .piece sq c p => K.piece sq c p
  | .turn c => K.turn c
  | .castle c s => K.castle c s
  | .ep f => K.epFile f

/-- piece atoms, in the iteration order of the code:
`Color::ALL × Piece::ALL_INCLUDING_NONE × occupancy.iter_ones()` -/
def pieceAtoms (m : PieceMap) : List Atom :=
  Color.all.flatMap fun c => Piece.allIncludingNone.flatMap fun p =>
    (bitsOf (m.get c p)).map fun sq => Atom.piece sq c p

def rightsOf (cw cb : CastleRights) : Color → CastleRights
  | .white => cw
  | .black => cb

theorem castle_eq_rightsOf (s : State) (c : Color) : s.castle c = rightsOf s.castleW s.castleB c := by
  cases c <;> rfl

/-- castling atoms, in the order `Color::ALL × Side::ALL` -/
def castleAtoms (cw cb : CastleRights) : List Atom :=
  Color.all.flatMap fun c => Side.all.flatMap fun sd =>
    if (rightsOf cw cb c).forSide sd then [Atom.castle c sd] else []

def epAtoms : Option Nat → List Atom
  | some f => [Atom.ep f]
  | Option.none => []

/-- the file on which an en-passant capture is available (pseudo-legally), if any -/
def epFile? (s : State) : Option Nat := (epCapturable s).map fileOf

/-- all atoms of a position, in the order in which the code xors their keys -/
def atoms (s : State) : List Atom :=
  pieceAtoms s.pieces ++ Atom.turn s.turn :: (castleAtoms s.castleW s.castleB ++ epAtoms (epFile? s))

/-! ### the hash is the xor of the atom keys -/

theorem pieceFold_eq (K : Keys) (m : PieceMap) (h : UInt64) :
    Color.all.foldl (fun h c =>
      Piece.allIncludingNone.foldl (fun h p =>
        (bitsOf (m.get c p)).foldl (fun h sq => h ^^^ K.piece sq c p) h) h) h
      = (pieceAtoms m).foldl (fun h a => h ^^^ keyOf K a) h := by
  simp only [pieceAtoms, List.foldl_flatMap, List.foldl_map, keyOf]

theorem castleFold_eq (K : Keys) (s : State) (h : UInt64) :
    Color.all.foldl (fun h c =>
      Side.all.foldl (fun h side => if (s.castle c).forSide side then h ^^^ K.castle c side else h) h) h
      = (castleAtoms s.castleW s.castleB).foldl (fun h a => h ^^^ keyOf K a) h := by
  simp only [castleAtoms, List.foldl_flatMap, castle_eq_rightsOf]
  congr 1
  funext h c
  congr 1
  funext h sd
  cases (rightsOf s.castleW s.castleB c).forSide sd <;> simp [keyOf]

theorem hash_eq_foldl_atoms (K : Keys) (s : State) :
    hash K s = (atoms s).foldl (fun h a => h ^^^ keyOf K a) 0 := by
  unfold hash atoms epFile?
  simp only [pieceFold_eq, castleFold_eq, List.foldl_append, List.foldl_cons]
  cases epCapturable s <;> simp [epAtoms, keyOf]

theorem hash_eq_xorL (K : Keys) (s : State) : hash K s = xorL (keyOf K) (atoms s) :=
  hash_eq_foldl_atoms K s

/-! ### membership -/

theorem Color.mem_all (c : Color) : c ∈ Color.all := by cases c <;> simp [Color.all]
theorem Piece.mem_allIncludingNone (p : Piece) : p ∈ Piece.allIncludingNone := by
  cases p <;> simp [Piece.allIncludingNone]
theorem Side.mem_all (s : Side) : s ∈ Side.all := by cases s <;> simp [Side.all]

theorem mem_pieceAtoms (m : PieceMap) (a : Atom) :
    a ∈ pieceAtoms m ↔ ∃ sq c p, a = Atom.piece sq c p ∧ test (m.get c p) sq = true := by
  simp only [pieceAtoms, List.mem_flatMap, List.mem_map, mem_bitsOf']
  constructor
  · rintro ⟨c, _, p, _, sq, hsq, rfl⟩
    exact ⟨sq, c, p, rfl, hsq⟩
  · rintro ⟨sq, c, p, rfl, hsq⟩
    exact ⟨c, Color.mem_all c, p, Piece.mem_allIncludingNone p, sq, hsq, rfl⟩

theorem mem_castleAtoms (cw cb : CastleRights) (a : Atom) :
    a ∈ castleAtoms cw cb ↔ ∃ c sd, a = Atom.castle c sd ∧ (rightsOf cw cb c).forSide sd = true := by
  simp only [castleAtoms, List.mem_flatMap]
  constructor
  · rintro ⟨c, _, sd, _, h⟩
    by_cases hr : (rightsOf cw cb c).forSide sd = true
    · rw [if_pos hr] at h
      exact ⟨c, sd, by simpa using h, hr⟩
    · rw [if_neg hr] at h
      cases h
  · rintro ⟨c, sd, rfl, hr⟩
    exact ⟨c, Color.mem_all c, sd, Side.mem_all sd, by rw [if_pos hr]; simp⟩

theorem mem_epAtoms (o : Option Nat) (a : Atom) : a ∈ epAtoms o ↔ ∃ f, a = Atom.ep f ∧ o = some f := by
  cases o <;> simp [epAtoms]

theorem mem_atoms (s : State) (a : Atom) :
    a ∈ atoms s ↔ a ∈ pieceAtoms s.pieces ∨ a = Atom.turn s.turn ∨
      a ∈ castleAtoms s.castleW s.castleB ∨ a ∈ epAtoms (epFile? s) := by
  simp only [atoms, List.mem_append, List.mem_cons]

theorem piece_mem_atoms (s : State) (sq : Nat) (c : Color) (p : Piece) :
    Atom.piece sq c p ∈ atoms s ↔ test (s.pieces.get c p) sq = true := by
  rw [mem_atoms, mem_pieceAtoms, mem_castleAtoms, mem_epAtoms]
  constructor
  · rintro (⟨_, _, _, h, ht⟩ | h | ⟨_, _, h, _⟩ | ⟨_, h, _⟩)
    · injection h with h1 h2 h3
      subst h1 h2 h3
      exact ht
    · cases h
    · cases h
    · cases h
  · intro h
    exact Or.inl ⟨sq, c, p, rfl, h⟩

theorem turn_mem_atoms (s : State) (c : Color) : Atom.turn c ∈ atoms s ↔ s.turn = c := by
  rw [mem_atoms, mem_pieceAtoms, mem_castleAtoms, mem_epAtoms]
  constructor
  · rintro (⟨_, _, _, h, _⟩ | h | ⟨_, _, h, _⟩ | ⟨_, h, _⟩)
    · cases h
    · injection h with h
      exact h.symm
    · cases h
    · cases h
  · intro h
    exact Or.inr (Or.inl (by rw [h]))

theorem castle_mem_atoms (s : State) (c : Color) (sd : Side) :
    Atom.castle c sd ∈ atoms s ↔ (s.castle c).forSide sd = true := by
  rw [mem_atoms, mem_pieceAtoms, mem_castleAtoms, mem_epAtoms, castle_eq_rightsOf]
  constructor
  · rintro (⟨_, _, _, h, _⟩ | h | ⟨_, _, h, hr⟩ | ⟨_, h, _⟩)
    · cases h
    · cases h
    · injection h with h1 h2
      subst h1 h2
      exact hr
    · cases h
  · intro h
    exact Or.inr (Or.inr (Or.inl ⟨c, sd, rfl, h⟩))

theorem ep_mem_atoms (s : State) (f : Nat) : Atom.ep f ∈ atoms s ↔ epFile? s = some f := by
  rw [mem_atoms, mem_pieceAtoms, mem_castleAtoms, mem_epAtoms]
  constructor
  · rintro (⟨_, _, _, h, _⟩ | h | ⟨_, _, h, _⟩ | ⟨_, h, hf⟩)
    · cases h
    · cases h
    · cases h
    · injection h with h
      subst h
      exact hf
  · intro h
    exact Or.inr (Or.inr (Or.inr ⟨f, rfl, h⟩))

/-- no atom ever arises from the `Piece::None` indices (their bitboards are constantly zero) -/
theorem none_not_mem_atoms (s : State) (sq : Nat) (c : Color) : Atom.piece sq c .none ∉ atoms s := by
  rw [piece_mem_atoms]
  cases c <;> simp [PieceMap.get]

/-! ### no duplicates -/

theorem nodup_flatMap_of {α β : Type} {l : List α} {f : α → List β} (hl : l.Nodup)
    (hf : ∀ a ∈ l, (f a).Nodup) (hd : ∀ a₁ a₂, a₁ ≠ a₂ → ∀ x ∈ f a₁, ∀ y ∈ f a₂, x ≠ y) :
    (l.flatMap f).Nodup :=
  List.pairwise_flatMap.2 ⟨hf, List.Pairwise.imp (fun {a b} h => hd a b h) hl⟩

theorem nodup_pieceAtoms (m : PieceMap) : (pieceAtoms m).Nodup := by
  unfold pieceAtoms
  apply nodup_flatMap_of (by decide)
  · intro c _
    apply nodup_flatMap_of (by decide)
    · intro p _
      refine List.Pairwise.map _ ?_ (bitsOf_nodup _)
      intro a b hab h
      injection h with h
      exact hab h
    · intro p₁ p₂ hp x hx y hy hxy
      simp only [List.mem_map] at hx hy
      obtain ⟨_, _, rfl⟩ := hx
      obtain ⟨_, _, h⟩ := hy
      subst hxy
      injection h with _ _ h
      exact hp h.symm
  · intro c₁ c₂ hc x hx y hy hxy
    simp only [List.mem_flatMap, List.mem_map] at hx hy
    obtain ⟨_, _, _, _, rfl⟩ := hx
    obtain ⟨_, _, _, _, h⟩ := hy
    subst hxy
    injection h with _ h _
    exact hc h.symm

theorem nodup_castleAtoms (cw cb : CastleRights) : (castleAtoms cw cb).Nodup := by
  unfold castleAtoms
  apply nodup_flatMap_of (by decide)
  · intro c _
    apply nodup_flatMap_of (by decide)
    · intro sd _
      split <;> simp
    · intro s₁ s₂ hs x hx y hy hxy
      split at hx <;> simp at hx
      split at hy <;> simp at hy
      subst hx hy
      injection hxy with _ h
      exact hs h
  · intro c₁ c₂ hc x hx y hy hxy
    simp only [List.mem_flatMap] at hx hy
    obtain ⟨_, _, hx⟩ := hx
    obtain ⟨_, _, hy⟩ := hy
    split at hx <;> simp at hx
    split at hy <;> simp at hy
    subst hx hy
    injection hxy with h _
    exact hc h

/-- the atom list of any state has no duplicates (no hypothesis on the board is needed) -/
theorem nodup_atoms (s : State) : (atoms s).Nodup := by
  unfold atoms
  rw [List.nodup_append]
  refine ⟨nodup_pieceAtoms _, ?_, ?_⟩
  · rw [List.nodup_cons]
    refine ⟨?_, ?_⟩
    · simp [mem_castleAtoms, mem_epAtoms]
    · rw [List.nodup_append]
      refine ⟨nodup_castleAtoms _ _, ?_, ?_⟩
      · cases epFile? s <;> simp [epAtoms]
      · intro a ha b hb hab
        subst hab
        rw [mem_castleAtoms] at ha
        rw [mem_epAtoms] at hb
        obtain ⟨_, _, rfl, _⟩ := ha
        obtain ⟨_, h, _⟩ := hb
        cases h
  · intro a ha b hb hab
    subst hab
    rw [mem_pieceAtoms] at ha
    obtain ⟨_, _, _, rfl, _⟩ := ha
    simp [mem_castleAtoms, mem_epAtoms] at hb

/-! ## The rule-relevant key of a position -/

/-- Everything of a `State` that decides which moves are legal now and later (apart from the clocks):
placement, side to move, castling rights of both colours, and the file of an *available*
en-passant capture.  Not part of it: `halfmove`, `fullmove`, an en-passant target nobody can capture on. -/
def key (s : State) : PieceMap × Color × CastleRights × CastleRights × Option Nat :=
  (s.pieces, s.turn, s.castleW, s.castleB, epFile? s)

theorem atoms_eq_of_key {s t : State} (h : key s = key t) : atoms s = atoms t := by
  simp only [key, Prod.mk.injEq] at h
  obtain ⟨h1, h2, h3, h4, h5⟩ := h
  simp only [atoms, h1, h2, h3, h4, h5]

theorem PieceMap.ext_get {m n : PieceMap} (h : ∀ c p, m.get c p = n.get c p) : m = n := by
  cases m; cases n
  simp only [PieceMap.mk.injEq]
  exact ⟨h .white .pawn, h .white .knight, h .white .bishop, h .white .rook, h .white .queen,
    h .white .king, h .black .pawn, h .black .knight, h .black .bishop, h .black .rook,
    h .black .queen, h .black .king⟩

theorem CastleRights.ext_forSide {a b : CastleRights} (h : ∀ sd, a.forSide sd = b.forSide sd) : a = b := by
  cases a; cases b
  simp only [CastleRights.mk.injEq]
  exact ⟨h .king, h .queen⟩

theorem key_eq_of_mem_atoms {s t : State} (h : ∀ a, a ∈ atoms s ↔ a ∈ atoms t) : key s = key t := by
  simp only [key, Prod.mk.injEq]
  refine ⟨?_, ?_, ?_, ?_, ?_⟩
  · apply PieceMap.ext_get
    intro c p
    apply ext
    intro n _
    have := h (Atom.piece n c p)
    rw [piece_mem_atoms, piece_mem_atoms] at this
    exact Bool.eq_iff_iff.2 this
  · have := (h (Atom.turn s.turn)).1 ((turn_mem_atoms s s.turn).2 rfl)
    exact ((turn_mem_atoms t s.turn).1 this).symm
  · apply CastleRights.ext_forSide
    intro sd
    have := h (Atom.castle .white sd)
    rw [castle_mem_atoms, castle_mem_atoms] at this
    exact Bool.eq_iff_iff.2 this
  · apply CastleRights.ext_forSide
    intro sd
    have := h (Atom.castle .black sd)
    rw [castle_mem_atoms, castle_mem_atoms] at this
    exact Bool.eq_iff_iff.2 this
  · apply Option.ext
    intro f
    have := h (Atom.ep f)
    rw [ep_mem_atoms, ep_mem_atoms] at this
    exact this

/-! ## Keys that are distinct single bits are xor-independent -/

/-- if every atom of `d` (duplicate-free) has the one-bit key `bit (idx a)` and `idx` is injective on a
set `U ⊇ d`, then bit `idx a` of the xor tells whether `a ∈ d` -/
theorem test_xorL_bits (K : Keys) (U : Atom → Prop) (idx : Atom → Nat)
    (hk : ∀ a, U a → idx a < 64 ∧ keyOf K a = bit (idx a))
    (hinj : ∀ a b, U a → U b → idx a = idx b → a = b)
    (d : List Atom) (hd : d.Nodup) (hU : ∀ a ∈ d, U a) (a : Atom) (ha : U a) :
    test (xorL (keyOf K) d) (idx a) = decide (a ∈ d) := by
  induction d with
  | nil => simp
  | cons b d ih =>
    rw [List.nodup_cons] at hd
    have hb := hU b (List.mem_cons_self)
    rw [xorL_cons, test_xor, ih hd.2 (fun x hx => hU x (List.mem_cons_of_mem _ hx)),
      (hk b hb).2, test_bit _ _ (hk b hb).1]
    by_cases hab : a = b
    · subst hab
      simp [hd.1]
    · have : idx b ≠ idx a := fun h => hab (hinj _ _ hb ha h).symm
      simp [hab, this]

end Wee
