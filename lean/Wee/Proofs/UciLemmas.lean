import Wee.Model.Uci
import Wee.Props.C01
import Wee.Props.C02Closed
import Wee.Props.C12
/-!
# Helper lemmas for C14 (no panic on malformed text) and C07 (UCI session)

* the parsers (`parseBoardCells`, `parseFenChars`, `parseUciMoveToken`) never take their panic value;
* `positionCmd` cut into its three stages (`splitMoves`, `posBase`, `applyMoves`; `positionCmd_eq` is `rfl`);
* `performQueries` is total on legal positions (C01/C02);
* the effect of one `step` on the flag "a search is running", read off the output stream
  (`scan`, `starts`, `step_effect`), and its iteration over `run`;
* a line of successively legal moves, written in coordinate notation, is resolved by
  `performQueries` to the end of the line (C12 + C02).
-/
namespace Wee
open Wee.C10 (DisjointBoard)

/-! ## parsers -/

theorem parseBoardCells_ne_panic' (checked : Bool) (cs : List Char) :
    ∀ (idx : Nat) (cells : List (Option (Color × Piece))), parseBoardCells checked cs idx cells ≠ .panic := by
  induction cs with
  | nil => intro idx cells; simp [parseBoardCells]
  | cons c rest ih =>
    intro idx cells
    unfold parseBoardCells
    dsimp only
    repeat' split
    all_goals first | exact ih _ _ | simp

theorem parseFenChars_ne_panic (checked : Bool) (cs : List Char) : parseFenChars checked cs ≠ .panic := by
  unfold parseFenChars
  split
  · rename_i board side castle ep half full _
    have hb := parseBoardCells_ne_panic' checked board 0 (List.replicate 64 Option.none)
    dsimp only
    repeat' split
    all_goals first | (simp; done) | (rename_i h; exact absurd h hb) | simp_all
  · simp

theorem parseUciMoveToken_ne_none (m : String) : parseUciMoveToken m ≠ Option.none := by
  unfold parseUciMoveToken
  repeat' split
  all_goals simp

/-- `performQueries` (`State::by_performing_moves`) cannot panic from a legal position: the generator
does not panic there (C01, through `C02_query_total`) and every accepted query leads to a legal
position again (`C02_query_closed`) -/
theorem performQueries_total_of_legal (qs : List MoveQuery) :
    ∀ st : State, LegalPos st = true → DisjointBoard st.pieces → performQueries st qs ≠ Option.none := by
  induction qs with
  | nil => intro st _ _; simp [performQueries]
  | cons q qs ih =>
    intro st hl hd
    obtain ⟨r, hr⟩ := C02_query_total st q hl hd
    cases r with
    | error e => rw [C02.performQueries_error st q qs e hr]; simp
    | ok s₁ =>
      rw [C02.performQueries_ok st s₁ q qs hr]
      obtain ⟨_, hl₁, hd₁⟩ := C02_query_closed st s₁ q hl hd hr
      exact ih s₁ hl₁ hd₁

namespace Uci

/-! ## the three stages of the `position` arm -/

/-- `args.split_once(|arg| arg == &"moves").unwrap_or((args, &[]))` -/
def splitMoves (args : List String) : List String × List String :=
  match args.span (· != "moves") with
  | (p, _ :: m) => (p, m)
  | (p, []) => (p, [])

/-- `match pos.first()`: `.inl (some st)` = `current_position = st`; `.inr msg` = `println!(msg); continue`;
`.inl none` = the FEN parser panicked -/
def posBase (pos : List String) : Option State ⊕ String :=
  match pos with
  | "startpos" :: _ => .inl (some startState)
  | "fen" :: rest =>
    (match parseFen false (" ".intercalate rest) with
     | .ok st => .inl (some st)
     | .err => .inr "info string invalid fen position"
     | .panic => .inl Option.none)
  | _ => .inr "info string unknown position command"

/-- the block "Apply the moves", entered with `current_position = st` already assigned -/
def applyMoves (s : Sess) (st : State) (moves : List String) : Option (Sess × List Out) :=
  let s := { s with pos := st }
  let parsed := moves.map parseUciMoveToken
  if parsed.any Option.isNone then Option.none
  else
    let qs := parsed.filterMap fun x => x.bind id
    if qs.length != moves.length then some (s, [.line "info string invalid move format"])
    else match performQueries st qs with
      | Option.none => Option.none
      | some (.ok st') => some ({ s with pos := st' }, [])
      | some (.error _) => some (s, [.line "info string invalid move"])

/-- `positionCmd` is literally these three stages -/
theorem positionCmd_eq (s : Sess) (args : List String) :
    positionCmd s args =
      match posBase (splitMoves args).1 with
      | .inr msg => some (s, [.line msg])
      | .inl Option.none => Option.none
      | .inl (some st) => applyMoves s st (splitMoves args).2 := rfl

theorem posBase_ne_panic (pos : List String) : posBase pos ≠ .inl Option.none := by
  unfold posBase
  split
  · simp
  · have := parseFenChars_ne_panic false (" ".intercalate ‹List String›).toList
    unfold parseFen
    split <;> simp_all
  · simp

theorem applyMoves_ne_none (s : Sess) (st : State) (moves : List String)
    (hq : ∀ qs, performQueries st qs ≠ Option.none) : applyMoves s st moves ≠ Option.none := by
  unfold applyMoves
  dsimp only
  split
  · rename_i hany
    simp only [List.any_eq_true] at hany
    obtain ⟨x, hx, hnone⟩ := hany
    obtain ⟨m, _, rfl⟩ := List.mem_map.1 hx
    exact absurd (by simpa using hnone) (parseUciMoveToken_ne_none m)
  · split
    · simp
    · split
      · rename_i hpq; exact absurd hpq (hq _)
      · simp
      · simp

/-- `positionCmd` panics only if `by_performing_moves` does, on the base position of the command -/
theorem positionCmd_ne_none (s : Sess) (args : List String)
    (hq : ∀ st, posBase (splitMoves args).1 = .inl (some st) → ∀ qs, performQueries st qs ≠ Option.none) :
    positionCmd s args ≠ Option.none := by
  rw [positionCmd_eq]
  split
  · simp
  · rename_i h; exact absurd h (posBase_ne_panic _)
  · rename_i st h; exact applyMoves_ne_none s st _ (hq st h)

/-- what the `position` arm can change: only the position; it prints at most one line -/
theorem positionCmd_effect (s s' : Sess) (args : List String) (o : List Out)
    (h : positionCmd s args = some (s', o)) :
    s'.searching = s.searching ∧ s'.artifact = s.artifact ∧ (o = [] ∨ ∃ msg, o = [.line msg]) := by
  rw [positionCmd_eq] at h
  split at h
  · simp only [Option.some.injEq, Prod.mk.injEq] at h
    obtain ⟨rfl, rfl⟩ := h
    exact ⟨rfl, rfl, Or.inr ⟨_, rfl⟩⟩
  · cases h
  · unfold applyMoves at h
    dsimp only at h
    split at h
    · cases h
    · split at h
      · simp only [Option.some.injEq, Prod.mk.injEq] at h
        obtain ⟨rfl, rfl⟩ := h
        exact ⟨rfl, rfl, Or.inr ⟨_, rfl⟩⟩
      · split at h
        · cases h
        · simp only [Option.some.injEq, Prod.mk.injEq] at h
          obtain ⟨rfl, rfl⟩ := h
          exact ⟨rfl, rfl, Or.inl rfl⟩
        · simp only [Option.some.injEq, Prod.mk.injEq] at h
          obtain ⟨rfl, rfl⟩ := h
          exact ⟨rfl, rfl, Or.inr ⟨_, rfl⟩⟩

/-! ## one step never panics -/

/-- `step` panics only inside a `position` command, and there only if `by_performing_moves` does -/
theorem step_ne_none (hasBook : State → Bool) (s : Sess) (line : String)
    (hq : ∀ args, splitAsciiWs line = "position" :: args →
      ∀ st, posBase (splitMoves args).1 = .inl (some st) → ∀ qs, performQueries st qs ≠ Option.none) :
    step hasBook s line ≠ Option.none := by
  unfold step
  split
  · dsimp only; split <;> simp
  · simp
  · rename_i args heq
    dsimp only
    split
    · rename_i h; exact absurd h (positionCmd_ne_none _ _ (hq args heq))
    · simp
  all_goals simp

/-! ## reading the output stream -/

/-- read the output stream from left to right with the flag "a search is running":
`searchStarted` is allowed only when none is running (and sets the flag), `joinRunning` only when one
is running (and clears it), `bookMove` only when none is running; `none` = the stream violates this -/
def scan : Bool → List Out → Option Bool
  | b, [] => some b
  | b, .line _ :: r => scan b r
  | b, .stderrState :: r => scan b r
  | b, .stderrStatus :: r => scan b r
  | b, .joinRunning :: r => if b then scan false r else Option.none
  | b, .bookMove :: r => if b then Option.none else scan false r
  | b, .searchStarted _ _ _ :: r => if b then Option.none else scan true r

/-- the stream is well bracketed from the flag `running` and ends with no search running -/
def Balanced (running : Bool) (outs : List Out) : Prop := scan running outs = some false

instance (b : Bool) (o : List Out) : Decidable (Balanced b o) := by unfold Balanced; infer_instance

/-- number of answers to `go` in the stream: searches started + book moves played -/
def starts : List Out → Nat
  | [] => 0
  | .bookMove :: r => starts r + 1
  | .searchStarted _ _ _ :: r => starts r + 1
  | _ :: r => starts r

/-- number of `joinRunning` marks -/
def joins : List Out → Nat
  | [] => 0
  | .joinRunning :: r => joins r + 1
  | _ :: r => joins r

/-- first token is `go` -/
def isGo (line : String) : Bool := (splitAsciiWs line).head? == some "go"
/-- first token is `quit` -/
def isQuit (line : String) : Bool := (splitAsciiWs line).head? == some "quit"
/-- the lines the loop reads: up to (excluding) the first `quit` -/
def processed (lines : List String) : List String := lines.takeWhile (fun l => !isQuit l)

theorem scan_append (o₁ o₂ : List Out) : ∀ b, scan b (o₁ ++ o₂) = (scan b o₁).bind (fun b' => scan b' o₂) := by
  induction o₁ with
  | nil => intro b; rfl
  | cons x r ih =>
    intro b
    cases x <;> simp only [List.cons_append, scan, ih] <;> cases b <;> simp

theorem starts_append (o₁ o₂ : List Out) : starts (o₁ ++ o₂) = starts o₁ + starts o₂ := by
  induction o₁ with
  | nil => simp [starts]
  | cons x r ih => cases x <;> simp only [List.cons_append, starts, ih] <;> omega

theorem joins_append (o₁ o₂ : List Out) : joins (o₁ ++ o₂) = joins o₁ + joins o₂ := by
  induction o₁ with
  | nil => simp [joins]
  | cons x r ih => cases x <;> simp only [List.cons_append, joins, ih] <;> omega

theorem joinKeep_spec (s : Sess) :
    (joinKeep s).1.searching = false ∧ (joinKeep s).1.pos = s.pos ∧
    (joinKeep s).1.artifact = (if s.searching then s.searchOk else s.artifact) ∧
    (joinKeep s).2 = (if s.searching then [Out.joinRunning] else []) := by
  unfold joinKeep
  cases hs : s.searching <;> simp [hs]

theorem scan_joinKeep (s : Sess) : scan s.searching (joinKeep s).2 = some false := by
  rw [(joinKeep_spec s).2.2.2]
  cases s.searching <;> rfl

theorem starts_joinKeep (s : Sess) : starts (joinKeep s).2 = 0 := by
  rw [(joinKeep_spec s).2.2.2]
  cases s.searching <;> rfl

theorem isGo_of_tokens {line : String} {t : String} {args : List String}
    (h : splitAsciiWs line = t :: args) : isGo line = (t == "go") := by
  unfold isGo; rw [h]; simp

theorem isQuit_of_tokens {line : String} {t : String} {args : List String}
    (h : splitAsciiWs line = t :: args) : isQuit line = (t == "quit") := by
  unfold isQuit; rw [h]; simp

theorem isGo_false_of_quit {line : String} (h : isQuit line = true) : isGo line = false := by
  unfold isQuit at h; unfold isGo
  cases hs : splitAsciiWs line with
  | nil => simp
  | cons t r =>
    rw [hs] at h
    simp only [List.head?_cons, beq_iff_eq, Option.some.injEq] at h
    subst h
    simp only [List.head?_cons]
    decide

theorem scan_goLines (b bad : Bool) :
    scan b (if bad = true then [Out.line "info string unparsable go commands"] else []) = some b := by
  cases bad <;> rfl

theorem starts_goLines (bad : Bool) :
    starts (if bad = true then [Out.line "info string unparsable go commands"] else []) = 0 := by
  cases bad <;> rfl

/-- everything one command does to the flag and to the counters:
* the outputs are a correct bracket sequence from `s.searching` to `s'.searching`;
* exactly one `searchStarted`/`bookMove` if the first token is `go`, none otherwise;
* the loop ends iff the first token is `quit`. -/
theorem step_effect (hasBook : State → Bool) (s s' : Sess) (line : String) (o : List Out) (q : Bool)
    (h : step hasBook s line = some (s', o, q)) :
    scan s.searching o = some s'.searching ∧ starts o = (if isGo line then 1 else 0) ∧ q = isQuit line := by
  unfold step at h
  split at h
  · -- go
    rename_i args heq
    rw [isGo_of_tokens heq, isQuit_of_tokens heq]
    dsimp only at h
    split at h
    all_goals (
      simp only [Option.some.injEq, Prod.mk.injEq] at h
      obtain ⟨rfl, rfl, rfl⟩ := h
      simp only [scan_append, starts_append, scan_joinKeep, starts_joinKeep, Option.bind_some,
        scan_goLines, starts_goLines, scan, starts, (joinKeep_spec s).1]
      exact ⟨by simp, by decide, by decide⟩)
  · -- isready
    rename_i args heq
    rw [isGo_of_tokens heq, isQuit_of_tokens heq]
    simp only [Option.some.injEq, Prod.mk.injEq] at h
    obtain ⟨rfl, rfl, rfl⟩ := h
    exact ⟨rfl, by decide, by decide⟩
  · -- position
    rename_i args heq
    rw [isGo_of_tokens heq, isQuit_of_tokens heq]
    dsimp only at h
    split at h
    · cases h
    · rename_i s2 o2 hp
      simp only [Option.some.injEq, Prod.mk.injEq] at h
      obtain ⟨rfl, rfl, rfl⟩ := h
      obtain ⟨h1, _, h3⟩ := positionCmd_effect _ _ _ _ hp
      rw [scan_append, starts_append, scan_joinKeep, starts_joinKeep, h1, (joinKeep_spec s).1]
      rcases h3 with rfl | ⟨msg, rfl⟩
      · exact ⟨rfl, by decide, by decide⟩
      · exact ⟨rfl, by simp only [starts]; decide, by decide⟩
  · -- stop
    rename_i args heq
    rw [isGo_of_tokens heq, isQuit_of_tokens heq]
    dsimp only at h
    simp only [Option.some.injEq, Prod.mk.injEq] at h
    obtain ⟨rfl, rfl, rfl⟩ := h
    exact ⟨by rw [scan_joinKeep, (joinKeep_spec s).1], by rw [starts_joinKeep]; decide, by decide⟩
  · -- uci
    rename_i args heq
    rw [isGo_of_tokens heq, isQuit_of_tokens heq]
    simp only [Option.some.injEq, Prod.mk.injEq] at h
    obtain ⟨rfl, rfl, rfl⟩ := h
    exact ⟨rfl, by decide, by decide⟩
  · -- ucinewgame
    rename_i args heq
    rw [isGo_of_tokens heq, isQuit_of_tokens heq]
    simp only [Option.some.injEq, Prod.mk.injEq] at h
    obtain ⟨rfl, rfl, rfl⟩ := h
    refine ⟨?_, ?_, by decide⟩
    · cases s.searching <;> rfl
    · cases s.searching <;> decide
  · -- quit
    rename_i args heq
    rw [isGo_of_tokens heq, isQuit_of_tokens heq]
    simp only [Option.some.injEq, Prod.mk.injEq] at h
    obtain ⟨rfl, rfl, rfl⟩ := h
    exact ⟨rfl, by decide, by decide⟩
  · -- .state
    rename_i args heq
    rw [isGo_of_tokens heq, isQuit_of_tokens heq]
    simp only [Option.some.injEq, Prod.mk.injEq] at h
    obtain ⟨rfl, rfl, rfl⟩ := h
    exact ⟨rfl, by decide, by decide⟩
  · -- .status
    rename_i args heq
    rw [isGo_of_tokens heq, isQuit_of_tokens heq]
    simp only [Option.some.injEq, Prod.mk.injEq] at h
    obtain ⟨rfl, rfl, rfl⟩ := h
    exact ⟨rfl, by decide, by decide⟩
  · -- anything else (including the empty line)
    rename_i hgo _ _ _ _ _ hquit _ _
    simp only [Option.some.injEq, Prod.mk.injEq] at h
    obtain ⟨rfl, rfl, rfl⟩ := h
    have hg : isGo line = false := by
      unfold isGo
      cases hs : splitAsciiWs line with
      | nil => simp
      | cons t r =>
        simp only [List.head?_cons, beq_eq_false_iff_ne, ne_eq, Option.some.injEq]
        rintro rfl; exact hgo r hs
    have hqt : isQuit line = false := by
      unfold isQuit
      cases hs : splitAsciiWs line with
      | nil => simp
      | cons t r =>
        simp only [List.head?_cons, beq_eq_false_iff_ne, ne_eq, Option.some.injEq]
        rintro rfl; exact hquit r hs
    rw [hg, hqt]
    exact ⟨rfl, by decide, rfl⟩

/-! ## whole sessions -/

theorem run_ne_none (hasBook : State → Bool) (lines : List String)
    (hstep : ∀ line ∈ lines, ∀ s, step hasBook s line ≠ Option.none) :
    ∀ s, run hasBook s lines ≠ Option.none := by
  induction lines with
  | nil => intro s; simp [run]
  | cons c cs ih =>
    intro s
    have hc := hstep c (List.mem_cons_self ..) s
    have ih' := ih (fun l hl => hstep l (List.mem_cons_of_mem _ hl))
    unfold run
    split
    · rename_i h; exact absurd h hc
    · simp
    · rename_i s1 o h
      split
      · rename_i h2; exact absurd h2 (ih' s1)
      · simp

theorem run_effect (hasBook : State → Bool) (lines : List String) :
    ∀ (s s' : Sess) (outs : List Out), run hasBook s lines = some (s', outs) →
      scan s.searching outs = some false ∧ s'.searching = false ∧
      starts outs = (processed lines).countP isGo := by
  induction lines with
  | nil =>
    intro s s' outs h
    simp only [run, Option.some.injEq] at h
    cases hs : s.searching <;> simp only [hs, if_true, Bool.false_eq_true, if_false, Prod.mk.injEq] at h <;>
      obtain ⟨rfl, rfl⟩ := h
    · exact ⟨rfl, hs, rfl⟩
    · exact ⟨rfl, rfl, rfl⟩
  | cons c cs ih =>
    intro s s' outs h
    unfold run at h
    split at h
    · cases h
    · -- the loop ends here (`quit`)
      rename_i s1 o hstep
      obtain ⟨h1, h2, h3⟩ := step_effect hasBook s s1 c o true hstep
      have hq : isQuit c = true := h3.symm
      have hproc : processed (c :: cs) = [] := by simp [processed, hq]
      rw [isGo_false_of_quit hq] at h2
      rw [hproc]
      simp only [Option.some.injEq] at h
      cases hs : s1.searching <;> simp only [hs, if_true, Bool.false_eq_true, if_false, Prod.mk.injEq] at h <;>
        obtain ⟨rfl, rfl⟩ := h
      · rw [hs] at h1; exact ⟨h1, hs, by simpa using h2⟩
      · rw [hs] at h1
        refine ⟨by rw [scan_append, h1]; rfl, rfl, ?_⟩
        rw [starts_append, h2]; rfl
    · rename_i s1 o hstep
      obtain ⟨h1, h2, h3⟩ := step_effect hasBook s s1 c o false hstep
      have hq : isQuit c = false := h3.symm
      have hproc : processed (c :: cs) = c :: processed cs := by simp [processed, hq]
      split at h
      · cases h
      · rename_i s2 o2 hrun
        simp only [Option.some.injEq, Prod.mk.injEq] at h
        obtain ⟨rfl, rfl⟩ := h
        obtain ⟨i1, i2, i3⟩ := ih s1 s2 o2 hrun
        refine ⟨by rw [scan_append, h1]; exact i1, i2, ?_⟩
        rw [starts_append, h2, i3, hproc, List.countP_cons]
        cases isGo c <;> simp <;> omega

/-! ## where a running search is joined -/

/-- the commands that first join a running search -/
def joinsFirst (line : String) : Bool :=
  match (splitAsciiWs line).head? with
  | some t => t == "go" || t == "position" || t == "stop" || t == "ucinewgame"
  | Option.none => false

/-- with a search running: `go`, `position`, `stop`, `ucinewgame` put the join mark before any other
output of theirs; every other command (`isready`, `uci`, `.state`, `.status`, unknown, and `quit`,
whose join is done by the code after the loop) outputs no join mark and leaves the search running -/
theorem step_join (hasBook : State → Bool) (s s' : Sess) (line : String) (o : List Out) (q : Bool)
    (h : step hasBook s line = some (s', o, q)) (hs : s.searching = true) :
    (joinsFirst line = true → o.head? = some Out.joinRunning) ∧
    (joinsFirst line = false → joins o = 0 ∧ s'.searching = true ∧ s'.pos = s.pos) := by
  have hjk : (joinKeep s).2 = [Out.joinRunning] := by rw [(joinKeep_spec s).2.2.2, hs]; rfl
  unfold step at h
  split at h
  · rename_i args heq
    have hj : joinsFirst line = true := by unfold joinsFirst; rw [heq]; rfl
    rw [hj]; refine ⟨fun _ => ?_, fun h' => nomatch h'⟩
    dsimp only at h
    split at h <;>
      (simp only [Option.some.injEq, Prod.mk.injEq] at h
       obtain ⟨rfl, rfl, rfl⟩ := h
       rw [hjk]; rfl)
  · rename_i args heq
    have hj : joinsFirst line = false := by unfold joinsFirst; rw [heq]; rfl
    rw [hj]; refine ⟨(fun h' => nomatch h'), fun _ => ?_⟩
    simp only [Option.some.injEq, Prod.mk.injEq] at h
    obtain ⟨rfl, rfl, rfl⟩ := h
    exact ⟨rfl, hs, rfl⟩
  · rename_i args heq
    have hj : joinsFirst line = true := by unfold joinsFirst; rw [heq]; rfl
    rw [hj]; refine ⟨fun _ => ?_, fun h' => nomatch h'⟩
    dsimp only at h
    split at h
    · cases h
    · simp only [Option.some.injEq, Prod.mk.injEq] at h
      obtain ⟨rfl, rfl, rfl⟩ := h
      rw [hjk]; rfl
  · rename_i args heq
    have hj : joinsFirst line = true := by unfold joinsFirst; rw [heq]; rfl
    rw [hj]; refine ⟨fun _ => ?_, fun h' => nomatch h'⟩
    dsimp only at h
    simp only [Option.some.injEq, Prod.mk.injEq] at h
    obtain ⟨rfl, rfl, rfl⟩ := h
    rw [hjk]; rfl
  · rename_i args heq
    have hj : joinsFirst line = false := by unfold joinsFirst; rw [heq]; rfl
    rw [hj]; refine ⟨(fun h' => nomatch h'), fun _ => ?_⟩
    simp only [Option.some.injEq, Prod.mk.injEq] at h
    obtain ⟨rfl, rfl, rfl⟩ := h
    exact ⟨rfl, hs, rfl⟩
  · rename_i args heq
    have hj : joinsFirst line = true := by unfold joinsFirst; rw [heq]; rfl
    rw [hj]; refine ⟨fun _ => ?_, fun h' => nomatch h'⟩
    simp only [Option.some.injEq, Prod.mk.injEq] at h
    obtain ⟨rfl, rfl, rfl⟩ := h
    rw [hs]; rfl
  · rename_i args heq
    have hj : joinsFirst line = false := by unfold joinsFirst; rw [heq]; rfl
    rw [hj]; refine ⟨(fun h' => nomatch h'), fun _ => ?_⟩
    simp only [Option.some.injEq, Prod.mk.injEq] at h
    obtain ⟨rfl, rfl, rfl⟩ := h
    exact ⟨rfl, hs, rfl⟩
  · rename_i args heq
    have hj : joinsFirst line = false := by unfold joinsFirst; rw [heq]; rfl
    rw [hj]; refine ⟨(fun h' => nomatch h'), fun _ => ?_⟩
    simp only [Option.some.injEq, Prod.mk.injEq] at h
    obtain ⟨rfl, rfl, rfl⟩ := h
    exact ⟨rfl, hs, rfl⟩
  · rename_i args heq
    have hj : joinsFirst line = false := by unfold joinsFirst; rw [heq]; rfl
    rw [hj]; refine ⟨(fun h' => nomatch h'), fun _ => ?_⟩
    simp only [Option.some.injEq, Prod.mk.injEq] at h
    obtain ⟨rfl, rfl, rfl⟩ := h
    exact ⟨rfl, hs, rfl⟩
  · rename_i hgo _ hpos hstop _ hnew _ _ _
    simp only [Option.some.injEq, Prod.mk.injEq] at h
    obtain ⟨rfl, rfl, rfl⟩ := h
    have hj : joinsFirst line = false := by
      unfold joinsFirst
      cases hsp : splitAsciiWs line with
      | nil => rfl
      | cons t r =>
        simp only [List.head?_cons, Bool.or_eq_false_iff, beq_eq_false_iff_ne, ne_eq]
        exact ⟨⟨⟨fun e => hgo r (e ▸ hsp), fun e => hpos r (e ▸ hsp)⟩, fun e => hstop r (e ▸ hsp)⟩,
          fun e => hnew r (e ▸ hsp)⟩
    rw [hj]; exact ⟨(fun h' => nomatch h'), fun _ => ⟨rfl, hs, rfl⟩⟩

/-! ## `position … moves …` with coordinate texts of legal moves -/

theorem span_loop_stop (p : String → Bool) (x : String) (hx : p x = false) (toks : List String) :
    ∀ (pre acc : List String), (∀ t ∈ pre, p t = true) →
      List.span.loop p (pre ++ x :: toks) acc = (acc.reverse ++ pre, x :: toks) := by
  intro pre
  induction pre with
  | nil => intro acc _; simp [List.span.loop, hx]
  | cons a r ih =>
    intro acc h
    have ha := h a (List.mem_cons_self ..)
    simp only [List.cons_append, List.span.loop, ha]
    rw [ih (a :: acc) (fun t ht => h t (List.mem_cons_of_mem _ ht))]
    simp

theorem span_loop_all (p : String → Bool) :
    ∀ (pre acc : List String), (∀ t ∈ pre, p t = true) →
      List.span.loop p pre acc = (acc.reverse ++ pre, []) := by
  intro pre
  induction pre with
  | nil => intro acc _; simp [List.span.loop]
  | cons a r ih =>
    intro acc h
    have ha := h a (List.mem_cons_self ..)
    simp only [List.span.loop, ha]
    rw [ih (a :: acc) (fun t ht => h t (List.mem_cons_of_mem _ ht))]
    simp

theorem splitMoves_moves (pre toks : List String) (hpre : ∀ t ∈ pre, t ≠ "moves") :
    splitMoves (pre ++ "moves" :: toks) = (pre, toks) := by
  have h : (pre ++ "moves" :: toks).span (· != "moves") = (pre, "moves" :: toks) := by
    unfold List.span
    rw [span_loop_stop _ "moves" (by decide) toks pre [] (fun t ht => by simpa using hpre t ht)]
    rfl
  unfold splitMoves; rw [h]

theorem splitMoves_nomoves (pre : List String) (hpre : ∀ t ∈ pre, t ≠ "moves") :
    splitMoves pre = (pre, []) := by
  have h : pre.span (· != "moves") = (pre, []) := by
    unfold List.span
    rw [span_loop_all _ pre [] (fun t ht => by simpa using hpre t ht)]
    rfl
  unfold splitMoves; rw [h]

theorem span_loop_eq (p : String → Bool) :
    ∀ (l acc : List String), List.span.loop p l acc = (acc.reverse ++ l.takeWhile p, l.dropWhile p) := by
  intro l
  induction l with
  | nil => intro acc; simp [List.span.loop]
  | cons a r ih =>
    intro acc
    cases ha : p a
    · simp [List.span.loop, ha]
    · simp only [List.span.loop, ha, List.takeWhile_cons, List.dropWhile_cons, if_true]
      rw [ih (a :: acc)]
      simp

/-- `split_once` at the first `moves` token: the tokens before it, and the tokens after it -/
theorem splitMoves_eq (args : List String) :
    splitMoves args = (args.takeWhile (· != "moves"), (args.dropWhile (· != "moves")).tail) := by
  unfold splitMoves List.span
  rw [span_loop_eq]
  simp only [List.reverse_nil, List.nil_append]
  cases args.dropWhile (· != "moves") <;> rfl

/-- which argument lists set a base position -/
theorem posBase_some (pos : List String) (st : State) (h : posBase pos = .inl (some st)) :
    (∃ rest, pos = "startpos" :: rest ∧ st = startState) ∨
    (∃ rest, pos = "fen" :: rest ∧ parseFen false (" ".intercalate rest) = .ok st) := by
  unfold posBase at h
  split at h
  · simp only [Sum.inl.injEq, Option.some.injEq] at h
    exact Or.inl ⟨_, rfl, h.symm⟩
  · rename_i rest
    refine Or.inr ⟨rest, rfl, ?_⟩
    split at h
    · rename_i st' hst
      simp only [Sum.inl.injEq, Option.some.injEq] at h
      rw [← h]; exact hst
    · cases h
    · simp at h
  · cases h

theorem filterMap_bind_id_some (qs : List MoveQuery) :
    (qs.map fun q => some (some q)).filterMap (fun x => x.bind id) = qs := by
  induction qs with
  | nil => rfl
  | cons q r ih => simp only [List.map_cons, List.filterMap_cons, Option.bind_some, id, ih]

/-- all tokens have the move format: the block reduces to `by_performing_moves` on the base position -/
theorem applyMoves_parsed (s : Sess) (st : State) (moves : List String) (qs : List MoveQuery)
    (hp : moves.map parseUciMoveToken = qs.map fun q => some (some q)) :
    applyMoves s st moves =
      match performQueries st qs with
      | Option.none => Option.none
      | some (.ok st') => some ({ s with pos := st' }, [])
      | some (.error _) => some ({ s with pos := st }, [.line "info string invalid move"]) := by
  have hlen : qs.length = moves.length := by
    have := congrArg List.length hp
    simpa using this.symm
  have hany : (List.map (fun q => some (some q)) qs).any Option.isNone = false := by
    rw [List.any_eq_false]; intro x hx
    obtain ⟨q, _, rfl⟩ := List.mem_map.1 hx
    simp
  unfold applyMoves
  dsimp only
  rw [hp, hany, filterMap_bind_id_some]
  simp only [Bool.false_eq_true, if_false, hlen, bne_self_eq_false]

theorem length_filterMap_lt {α β : Type} (f : α → Option β) (l : List α) (x : α) (hx : x ∈ l)
    (hf : f x = Option.none) : (l.filterMap f).length < l.length := by
  induction l with
  | nil => cases hx
  | cons a r ih =>
    have hle := List.length_filterMap_le f r
    rcases List.mem_cons.1 hx with rfl | h
    · simp only [List.filterMap_cons, hf, List.length_cons]; omega
    · have := ih h
      simp only [List.filterMap_cons, List.length_cons]
      split <;> (try simp only [List.length_cons]) <;> omega

/-- one token without the move format: `info string invalid move format`, whatever the other tokens are;
`current_position` stays the base position -/
theorem applyMoves_bad_format (s : Sess) (st : State) (moves : List String) (t : String) (ht : t ∈ moves)
    (hbad : parseUciMoveToken t = some Option.none) :
    applyMoves s st moves = some ({ s with pos := st }, [.line "info string invalid move format"]) := by
  have hany : (moves.map parseUciMoveToken).any Option.isNone = false := by
    rw [List.any_eq_false]; intro x hx
    obtain ⟨m, _, rfl⟩ := List.mem_map.1 hx
    have := parseUciMoveToken_ne_none m
    cases h : parseUciMoveToken m with
    | none => exact absurd h this
    | some _ => simp
  have hlt := length_filterMap_lt (fun x : Option (Option MoveQuery) => x.bind id) (moves.map parseUciMoveToken)
    (parseUciMoveToken t) (List.mem_map_of_mem ht) (by rw [hbad]; rfl)
  rw [List.length_map] at hlt
  unfold applyMoves
  dsimp only
  rw [hany]
  simp only [Bool.false_eq_true, if_false]
  rw [if_pos (by simpa using Nat.ne_of_lt hlt)]

end Uci

/-! ### lines of legal moves -/

theorem filter_eq_singleton {α : Type} (p : α → Bool) (l : List α) (a : α) (hnd : l.Nodup) (ha : a ∈ l)
    (hp : ∀ x ∈ l, (p x = true ↔ x = a)) : l.filter p = [a] := by
  induction l with
  | nil => cases ha
  | cons b l ih =>
    rw [List.nodup_cons] at hnd
    by_cases hb : b = a
    · subst hb
      have hrest : l.filter p = [] := by
        rw [List.filter_eq_nil_iff]
        intro x hx hxt
        have := (hp x (List.mem_cons_of_mem _ hx)).1 hxt
        exact hnd.1 (this ▸ hx)
      rw [List.filter_cons, if_pos ((hp b (List.mem_cons_self ..)).2 rfl), hrest]
    · have ha' : a ∈ l := by
        rcases List.mem_cons.1 ha with h | h
        · exact absurd h.symm hb
        · exact h
      have hbt : ¬ p b = true := fun h => hb ((hp b (List.mem_cons_self ..)).1 h)
      rw [List.filter_cons, if_neg hbt]
      exact ih hnd.2 ha' (fun x h' => hp x (List.mem_cons_of_mem _ h'))

theorem nodup_of_nodup_map {α β : Type} (f : α → β) (l : List α) (h : (l.map f).Nodup) : l.Nodup :=
  List.Pairwise.of_map f (fun _ _ hne e => hne (e ▸ rfl)) h

theorem inj_of_nodup_map {α β : Type} (f : α → β) (l : List α) (h : (l.map f).Nodup) {x y : α}
    (hx : x ∈ l) (hy : y ∈ l) (e : f x = f y) : x = y := by
  induction l with
  | nil => cases hx
  | cons a r ih =>
    rw [List.map_cons, List.nodup_cons] at h
    rcases List.mem_cons.1 hx with rfl | hx' <;> rcases List.mem_cons.1 hy with rfl | hy'
    · rfl
    · exact absurd (e ▸ List.mem_map_of_mem hy') h.1
    · exact absurd (e ▸ List.mem_map_of_mem hx') h.1
    · exact ih h.2 hx' hy'

set_option maxRecDepth 1000000 in
theorem startState_legal : LegalPos startState = true := by decide +kernel

set_option maxRecDepth 1000000 in
theorem startState_disjoint : DisjointBoard startState.pieces := by decide +kernel

/-- the move lists along a line are well-formed in the sense of C12 (`C12_wf_statement` would give
this for every legal position; it is taken as a hypothesis exactly as in C12) -/
def WFLine (s : State) : List (Move × State) → Prop
  | [] => True
  | r :: rs => SanP.WFMoves ((legalMoves s).map (·.1)) ∧ WFLine r.2 rs

/-- in a legal position, the coordinate text of a listed legal move is accepted by the token parser
and `by_performing_moves` resolves the resulting query to exactly that move's stored successor -/
theorem performQuery_lan (s : State) (hl : LegalPos s = true) (hd : DisjointBoard s.pieces)
    (hwf : SanP.WFMoves ((legalMoves s).map (·.1))) (r : Move × State) (hr : r ∈ legalMoves s) :
    ∃ q, parseUciMoveToken (Move.lan r.1) = some (some q) ∧ performQuery s q = some (.ok r.2) := by
  obtain ⟨q, hparse, hsel⟩ := SanP.C12_lan _ hwf r.1 (List.mem_map_of_mem hr)
  obtain ⟨⟨L, hL⟩, _⟩ := C01_legal_results s hl hd
  have hLe : legalMoves s = L := by unfold legalMoves; rw [hL]; rfl
  have hnd0 := (C01_moves s hl hd).2
  have hnd1 : ((legalMoves s).map (·.1)).Nodup := by
    have : (legalMoves s).map (toSpecMove ∘ (·.1)) = ((legalMoves s).map (·.1)).map toSpecMove := by
      rw [List.map_map]
    rw [this] at hnd0
    exact nodup_of_nodup_map _ _ hnd0
  have hnd : (legalMoves s).Nodup := nodup_of_nodup_map _ _ hnd1
  have hinj : ∀ x ∈ legalMoves s, x.1 = r.1 → x = r := by
    intro x hx hxr
    exact inj_of_nodup_map _ _ hnd1 hx hr hxr
  have hf : (legalMoves s).filter (fun r' => q.test r'.1) = [r] := by
    apply filter_eq_singleton _ _ _ hnd hr
    intro x hx
    rw [hsel x.1 (List.mem_map_of_mem hx)]
    exact ⟨hinj x hx, fun e => e ▸ rfl⟩
  rw [hLe] at hf
  exact ⟨q, hparse, (C02_coords s q L hL).1 r hf⟩

/-- **a whole line.**  From a legal position, the coordinate texts of successively legal moves all have
the move format and `by_performing_moves` on the resulting queries returns the end of the line. -/
theorem performQueries_line (l : List (Move × State)) :
    ∀ s : State, LegalPos s = true → DisjointBoard s.pieces → LegalLine s l → WFLine s l →
      ∃ qs : List MoveQuery,
        (l.map fun r => Move.lan r.1).map parseUciMoveToken = qs.map (fun q => some (some q)) ∧
        performQueries s qs = some (.ok (lineEnd s l)) := by
  induction l with
  | nil => intro s _ _ _ _; exact ⟨[], rfl, rfl⟩
  | cons r rs ih =>
    intro s hl hd hline hwf
    obtain ⟨hr, hrest⟩ := hline
    obtain ⟨hwf0, hwfr⟩ := hwf
    obtain ⟨q, hparse, hq⟩ := performQuery_lan s hl hd hwf0 r hr
    have hl' := C02_closed s hl hd r hr
    have hd' := (C02_successor_invariants s hl hd r hr).1
    obtain ⟨qs, hqs, hrun⟩ := ih r.2 hl' hd' hrest hwfr
    refine ⟨q :: qs, ?_, ?_⟩
    · simp only [List.map_cons, hparse, hqs]
    · rw [C02.performQueries_ok s r.2 q qs hq]; exact hrun

/-! ### a small concrete position (king and pawn against king) for non-vacuity examples

`4k3/8/8/8/8/8/4P3/4K3 w - - 0 1`, then `e2e4 e8d7`.  Without sliding pieces the kernel can evaluate
the move generator (no magic-table lookups). -/
namespace Uci

def kpk : State :=
  { pieces := { wp := 0x1000, wk := 0x10, bk := 0x1000000000000000 }
    turn := .white, castleW := .noRights, castleB := .noRights, ep := Option.none, halfmove := 0, fullmove := 1 }
/-- after 1. e4 -/
def kpk1 : State :=
  { pieces := { wp := 0x10000000, wk := 0x10, bk := 0x1000000000000000 }
    turn := .black, castleW := .noRights, castleB := .noRights, ep := some 20, halfmove := 0, fullmove := 1 }
/-- after 1. e4 Kd7 -/
def kpk2 : State :=
  { pieces := { wp := 0x10000000, wk := 0x10, bk := 0x8000000000000 }
    turn := .white, castleW := .noRights, castleB := .noRights, ep := Option.none, halfmove := 1, fullmove := 2 }
/-- the packed moves `e2e4` (double pawn push) and `e8d7` with their successors -/
def kpkLine : List (Move × State) := [(302018753, kpk1), (53190, kpk2)]
def kpkFen : List String := ["4k3/8/8/8/8/8/4P3/4K3", "w", "-", "-", "0", "1"]

set_option maxRecDepth 1000000 in
theorem kpk_parse : parseFen false (" ".intercalate kpkFen) = .ok kpk := by decide +kernel
set_option maxRecDepth 1000000 in
theorem kpk_legal : LegalPos kpk = true ∧ DisjointBoard kpk.pieces := ⟨by decide +kernel, by decide +kernel⟩
set_option maxRecDepth 1000000 in
theorem kpk_line : LegalLine kpk kpkLine := ⟨by decide +kernel, by decide +kernel, trivial⟩
set_option maxRecDepth 1000000 in
theorem kpk_wf : WFLine kpk kpkLine := ⟨by decide +kernel, by decide +kernel, trivial⟩
set_option maxRecDepth 1000000 in
theorem kpk_text : kpkLine.map (fun r => Move.lan r.1) = ["e2e4", "e8d7"] := by decide +kernel


end Uci

end Wee
