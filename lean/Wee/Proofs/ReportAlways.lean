import Wee.Proofs.WriterLemmas
import Wee.Proofs.SearchCtlSafe
import Wee.Proofs.EnvLemmas
/-!
# "At least one report" for ANY incoming search memory and any number of workers (S1 of DESIGN, part D of C03)

Helper lemmas for `Wee/Props/C03Report.lean`.

0. `legalMoves_few`: a legal position has at most `64·64 + 2` legal moves (a crude count of the rules' move list, C01), so
   the root call of the first iteration stays below the poll interval.
1. `EvalIn`: every stored evaluation lies strictly inside the root window `(-mate_in_ply(0), mate_in_ply(0))`.
   `searchNode_inside`: under the bound `EvalBelowMate` on static evaluations, `analyze_recursive` keeps `EvalIn`
   (every value it stores is a window bound of a non-root node or a value strictly inside the window), and every value
   returned by a non-root call with a window inside `[-mate0, mate0]` is strictly inside.
2. structural facts about the move loop: `childLoop_best` (the best move is set exactly when alpha was raised),
   `childLoop_progress` (an accepted move makes the node counter grow), `childLoop_tt_leaf` (children with remaining
   depth 0 do not write).
3. the root call of the first iteration (remaining depth 1): `root1_table` (the only possible write is ONE insert under
   the root's key), `root1_entry` (if it ends normally, the root's key is in the table afterwards — whatever the table
   held before).
4. no interrupt below the poll interval (`searchNode_interrupt_nodes`), one worker (`firstWorker_run`), the workers of the
   first iteration (`runWorkers_first`, `first_root_entry_kept_always`).
5. `EvalIn` through the deepening loop (`iterate_evalIn`).
6. `runWorkers_first_table` (unconditional: only inserts under the root's key); 6b. removed with the repair of F10
   (was `no_report_of_big_evals`: children that all evaluate to at least `mate_in_ply(0)` ⇒ no report).
7. the same under an arbitrary schedule of the workers (`Wee/Model/SearchEnv.lean`): node count and interrupt in any
   environment (`root1E_nodes`, `searchNodeE_interrupt_nodes`), the guarantee `runWorkerE_rootkey`, the shared table after
   the first iteration (`table_rootkey`), `stepS_first_reports`, `loopS_first_reports`.
8. `EvalIn` in an environment by rely/guarantee (`searchNodeE_inside`, `interleaving_evalIn`, `searchS_evalIn`).
-/
/-! ## 0. a legal position has fewer than `pollInterval - 1` legal moves (at most 4098: a crude count of the rules' move list) -/
namespace Wee.Spec

theorem slideDir_length (occ : Nat → Bool) (df dr : Int) : ∀ (fuel sq : Nat), (slideDir occ df dr fuel sq).length ≤ fuel := by
  intro fuel
  induction fuel with
  | zero => intro sq; simp [slideDir]
  | succ fuel ih =>
    intro sq
    rw [slideDir]
    split
    · simp
    · split
      · simp
      · have := ih ‹Nat›
        simp only [List.length_cons]
        omega

theorem flatMap_length_le {α β : Type} (f : α → List β) (B : Nat) (hf : ∀ x, (f x).length ≤ B) :
    ∀ l : List α, (l.flatMap f).length ≤ B * l.length := by
  intro l
  induction l with
  | nil => simp
  | cons x xs ih =>
    rw [List.flatMap_cons, List.length_append, List.length_cons]
    have := hf x
    rw [Nat.mul_succ]
    omega

theorem slide_length (occ : Nat → Bool) (dirs : List (Int × Int)) (sq : Nat) :
    (slide occ dirs sq).length ≤ 8 * dirs.length := by
  unfold slide
  exact flatMap_length_le (fun d : Int × Int => slideDir occ d.1 d.2 8 sq) 8 (fun d => slideDir_length occ d.1 d.2 8 sq) dirs

theorem attacksFrom_length (occ : Nat → Bool) (c : Color) (k : Kind) (s : Nat) : (attacksFrom occ c k s).length ≤ 64 := by
  cases k <;> unfold attacksFrom <;> simp only []
  · exact Nat.le_trans (List.length_filterMap_le _ _) (by simp)
  · exact Nat.le_trans (List.length_filterMap_le _ _) (by decide)
  · exact Nat.le_trans (slide_length occ bishopDirs s) (by decide)
  · exact Nat.le_trans (slide_length occ rookDirs s) (by decide)
  · exact Nat.le_trans (slide_length occ (rookDirs ++ bishopDirs) s) (by decide)
  · exact Nat.le_trans (List.length_filterMap_le _ _) (by decide)

theorem pieceMovesFrom_length (p : Pos) (c : Color) (k : Kind) (s : Nat) : (pieceMovesFrom p c k s).length ≤ 64 :=
  Nat.le_trans (List.length_filterMap_le _ _) (attacksFrom_length _ c k s)


theorem withPromo_length (c : Color) (m : SMove) :
    (if m.dst / 8 = lastRank c then promoKinds.map fun k => { m with promo := some k } else [m]).length ≤ 4 := by
  split <;> simp [promoKinds]

theorem pawnMovesFrom_length (p : Pos) (c : Color) (s : Nat) : (pawnMovesFrom p c s).length ≤ 64 := by
  unfold pawnMovesFrom
  dsimp only
  rw [List.length_append, List.length_append]
  refine Nat.le_trans (Nat.add_le_add (Nat.add_le_add (?_ : _ ≤ 4) (?_ : _ ≤ 1)) (?_ : _ ≤ 4 * 2)) (by decide)
  · split
    · split
      · simp
      · split <;> simp [promoKinds]
    · simp
  · split
    · split
      · split
        · split <;> simp
        · simp
      · simp
    · simp
  · refine Nat.le_trans (flatMap_length_le _ 4 (fun t => ?_) _)
      (Nat.mul_le_mul_left 4 (Nat.le_trans (List.length_filterMap_le _ _) (by simp)))
    split
    · split
      · split <;> simp [promoKinds]
      · simp
    · split <;> simp

theorem ite_singleton_length {α : Type} (c : Prop) [Decidable c] (m : α) : (if c then [m] else []).length ≤ 1 := by
  split <;> simp

theorem pseudoMoves_length (p : Pos) : (pseudoMoves p).length ≤ 64 * 64 + 2 := by
  unfold pseudoMoves
  rw [List.length_append]
  refine Nat.add_le_add ?_ ?_
  · refine Nat.le_trans (flatMap_length_le _ 64 (fun s => ?_) (List.range 64)) (by rw [List.length_range]; exact Nat.le_refl _)
    split
    · split
      · split
        · exact pawnMovesFrom_length _ _ _
        · exact pieceMovesFrom_length _ _ _ _
      · simp
    · simp
  · unfold castleMoves
    rw [List.length_append]
    refine Nat.add_le_add (?_ : _ ≤ 1) (?_ : _ ≤ 1)
    · exact ite_singleton_length _ _
    · exact ite_singleton_length _ _

theorem legalMoves_length (p : Pos) : (legalMoves p).length ≤ 4098 :=
  Nat.le_trans (List.length_filter_le _ _) (pseudoMoves_length p)

end Wee.Spec


namespace Wee
open Wee.C10 (DisjointBoard)

/-- **every legal position has fewer than 9999 legal moves** (at most `64·64 + 2`; the true maximum is 218): the list of
`compute_legal_moves` has the length of the rules' list (C01), which is a sub-list of at most 64 moves per square plus
two castlings.  So the single root call of the first iteration, which counts one node per legal move, stays below the poll
interval of 10000 nodes. -/
theorem legalMoves_few (s : State) (hl : LegalPos s = true) (hd : DisjointBoard s.pieces) :
    (legalMoves s).length + 1 < Gen.pollInterval := by
  rw [C01_count s hl hd]
  have := Spec.legalMoves_length (abs s)
  unfold Gen.pollInterval
  omega

end Wee

namespace Wee.Search
open Wee Wee.SearchCtl

/-! ## 1. the evaluation range of stored entries -/

/-- every evaluation stored anywhere in the table lies strictly inside the root window -/
def EvalIn (tt : TT.Access) : Prop := tt.All (fun e => Inside e.eval)

theorem EvalIn.new (nT nB : Nat) : EvalIn (TT.Access.new nT nB) := TT.Access.All.new _ nT nB

theorem EvalIn.find {tt : TT.Access} (h : EvalIn tt) {k : Nat} {e : TT.Entry} (hf : tt.find k = some e) :
    Inside e.eval := TT.Access.All.find h hf

theorem EvalIn.insert {tt : TT.Access} (h : EvalIn tt) (k : Nat) (e : TT.Entry) (he : Inside e.eval) :
    EvalIn (tt.insert k e) := TT.Access.All.insert h k e he

/-- a search window inside the root window: what every call of `analyze_recursive` is given -/
def WinOK (al be : Int) : Prop := -M0 ≤ al ∧ al < M0 ∧ -M0 < be ∧ be ≤ M0

theorem winOK_root : WinOK (- Ev.mateInPly 0) (Ev.mateInPly 0) := by
  have := M0_pos
  unfold M0 at this
  unfold WinOK M0
  omega

theorem tick_tt (ctx : Ctx) (st : St) : (tick ctx st).2.tt = st.tt := by
  rw [tick_eq]
  split
  · split <;> rfl
  · rfl

/-- the table probe: a cut returns a stored value, a narrowed window stays inside the root window -/
theorem probe_inside (a : NodeArgs) (o : Option TT.Entry) (ho : ∀ e, o = some e → Inside e.eval)
    (hw : WinOK a.alpha a.beta) :
    (∀ v, probe a o = .cut v → Inside v) ∧ (∀ al be, probe a o = .window al be → WinOK al be) := by
  cases o with
  | none =>
    refine ⟨fun v h => by simp [probe] at h, fun al be h => ?_⟩
    simp only [probe, Probe.window.injEq] at h
    obtain ⟨rfl, rfl⟩ := h
    exact hw
  | some e =>
    obtain ⟨h1, h2⟩ := ho e rfl
    obtain ⟨w1, w2, w3, w4⟩ := hw
    simp only [probe]
    by_cases c1 : a.maxDepth < a.curDepth ∨ e.maxDepth < e.depth
    · rw [if_pos c1]
      exact ⟨(fun v h => nomatch h), (fun al be h => nomatch h)⟩
    rw [if_neg c1]
    by_cases c2 : e.maxDepth - e.depth ≥ a.maxDepth - a.curDepth
    · rw [if_pos c2]
      by_cases c3 : (e.kind == kindExact) = true
      · rw [if_pos c3]
        exact ⟨fun v h => by cases h; exact ⟨h1, h2⟩, (fun al be h => nomatch h)⟩
      rw [if_neg c3]
      by_cases c4 : (e.kind == kindUpper) = true
      · rw [if_pos c4]
        by_cases c5 : a.alpha ≥ min a.beta e.eval
        · rw [if_pos c5]
          exact ⟨fun v h => by cases h; exact ⟨h1, h2⟩, (fun al be h => nomatch h)⟩
        · rw [if_neg c5]
          refine ⟨(fun v h => nomatch h), fun al be h => ?_⟩
          cases h
          unfold WinOK; unfold Eval at *; omega
      · rw [if_neg c4]
        by_cases c6 : max a.alpha e.eval ≥ a.beta
        · rw [if_pos c6]
          exact ⟨fun v h => by cases h; exact ⟨h1, h2⟩, (fun al be h => nomatch h)⟩
        · rw [if_neg c6]
          refine ⟨(fun v h => nomatch h), fun al be h => ?_⟩
          cases h
          unfold WinOK; unfold Eval at *; omega
    · rw [if_neg c2]
      refine ⟨(fun v h => nomatch h), fun al be h => ?_⟩
      cases h
      exact ⟨w1, w2, w3, w4⟩


/-- what a call of `analyze_recursive` guarantees about values and stored evaluations -/
def ChildIn (child : NodeArgs → M Eval) (a' : NodeArgs) : Prop :=
  ∀ st, EvalIn st.tt → EvalIn ((child a').run.run st).2.tt ∧ st.nodes + 1 ≤ ((child a').run.run st).2.nodes ∧
    ∀ v, ((child a').run.run st).1 = .ok v → Inside v

/-- **the move loop keeps `EvalIn`**; a cut-off value is strictly inside; alpha stays in `[-mate0, mate0)` and is strictly
above `-mate0` as soon as it was so before or a child has been searched -/
theorem childLoop_inside (ctx : Ctx) (child : NodeArgs → M Eval) (a : NodeArgs) (hash : UInt64)
    (hb1 : -M0 < a.beta) (hb2 : a.beta ≤ M0) :
    ∀ (buf : List Move), (∀ mv ∈ buf, ∀ m next alpha, tryAsLegal a.s mv = some (some (m, next)) → -M0 ≤ alpha →
        alpha < M0 → ChildIn child (childArgs a next alpha)) →
      ∀ (alpha : Eval) (best : Option Move) (kind : Nat) (st : St),
      EvalIn st.tt → -M0 ≤ alpha → alpha < M0 →
      EvalIn ((childLoop ctx child a hash buf alpha best kind).run.run st).2.tt ∧
      st.nodes ≤ ((childLoop ctx child a hash buf alpha best kind).run.run st).2.nodes ∧
      (∀ b, ((childLoop ctx child a hash buf alpha best kind).run.run st).1 = .ok (.error b) → Inside b) ∧
      (∀ al' b' k', ((childLoop ctx child a hash buf alpha best kind).run.run st).1 = .ok (.ok (al', b', k')) →
        -M0 ≤ al' ∧ al' < M0 ∧
        ((-M0 < alpha ∨ st.nodes < ((childLoop ctx child a hash buf alpha best kind).run.run st).2.nodes) → -M0 < al')) := by
  intro buf
  induction buf with
  | nil =>
    intro _ alpha best kind st hI h1 h2
    rw [childLoop_nil_run]
    refine ⟨hI, Nat.le_refl _, (fun b h => nomatch h), fun al' b' k' h => ?_⟩
    cases h
    refine ⟨h1, h2, fun h => ?_⟩
    rcases h with h | h
    · exact h
    · exact absurd h (Nat.lt_irrefl _)
  | cons mv rest ih0 =>
    intro hchild alpha best kind st hI h1 h2
    have ih := ih0 (fun mv' h' => hchild mv' (List.mem_cons_of_mem _ h'))
    rw [childLoop_cons_run]
    cases ht : tryAsLegal a.s mv with
    | none =>
      simp only []
      exact ⟨hI, Nat.le_refl _, (fun b h => nomatch h), (fun al' b' k' h => nomatch h)⟩
    | some o =>
      cases o with
      | none => exact ih alpha best kind st hI h1 h2
      | some r =>
        obtain ⟨m, next⟩ := r
        simp only []
        obtain ⟨c1, c2, c3⟩ := hchild mv List.mem_cons_self m next alpha ht h1 h2 st hI
        generalize (child (childArgs a next alpha)).run.run st = out at c1 c2 c3
        obtain ⟨res, st'⟩ := out
        cases res with
        | error e => exact ⟨c1, Nat.le_of_succ_le c2, (fun b h => nomatch h), (fun al' b' k' h => nomatch h)⟩
        | ok v =>
          obtain ⟨v1, v2⟩ := c3 v rfl
          simp only []
          by_cases g1 : -v ≥ a.beta
          · rw [if_pos g1]
            have hin : Inside a.beta := ⟨hb1, by unfold Eval at *; omega⟩
            refine ⟨EvalIn.insert c1 _ _ hin, Nat.le_of_succ_le c2, fun b h => ?_, (fun al' b' k' h => nomatch h)⟩
            cases h
            exact hin
          · rw [if_neg g1]
            by_cases g2 : -v > alpha
            · rw [if_pos g2]
              obtain ⟨i1, i2, i3, i4⟩ := ih (-v) (some m) kindExact st' c1 (by unfold Eval at *; omega)
                (by unfold Eval at *; omega)
              refine ⟨i1, Nat.le_trans (Nat.le_of_succ_le c2) i2, i3, fun al' b' k' h => ?_⟩
              obtain ⟨j1, j2, j3⟩ := i4 al' b' k' h
              exact ⟨j1, j2, fun _ => j3 (Or.inl (by unfold Eval at *; omega))⟩
            · rw [if_neg g2]
              obtain ⟨i1, i2, i3, i4⟩ := ih alpha best kind st' c1 h1 h2
              refine ⟨i1, Nat.le_trans (Nat.le_of_succ_le c2) i2, i3, fun al' b' k' h => ?_⟩
              obtain ⟨j1, j2, j3⟩ := i4 al' b' k' h
              exact ⟨j1, j2, fun _ => j3 (Or.inl (by unfold Eval at *; omega))⟩


/-- every buffered move that `try_as_legal_move` accepts is a listed legal move, for a position whose generator does not
panic and a prioritized move that is absent or legal -/
theorem buffer_legal {a : NodeArgs} {L : List (Move × State)} (hL : legalMoves? a.s = some L)
    (hprio : ∀ m, a.prioritized = some m → LegalIn a.s m) {pseudo sorted : List Move}
    (hps : pseudoLegalMoves a.s = some pseudo) (hperm : sorted.Perm pseudo) :
    ∀ mv ∈ (bufferOf a.prioritized sorted).reverse, ∀ r, tryAsLegal a.s mv = some (some r) → r ∈ legalMoves a.s := by
  intro mv hmv r hr
  rcases mem_bufferOf (a := a) hperm mv hmv with h | h
  · exact tryAsLegal_mem_of_pseudo hL hps h hr
  · exact tryAsLegal_mem_of_legal (hprio mv h) hr

theorem ext_le_one (a : NodeArgs) : (if a.curExt < Gen.extensionCap then extensionOf a.s else 0) ≤ 1 := by
  unfold extensionOf
  split
  · split <;> omega
  · omega

/-- the expansion of a node (move ordering, move loop, store) keeps `EvalIn`; at a non-root node its value is strictly
inside the root window -/
theorem expandM_inside {R : State → Prop} (hR : Region R) (hE : EvalBelowMate R) (ctx : Ctx) (child : NodeArgs → M Eval)
    (a : NodeArgs) (hash : UInt64) (alpha beta : Eval) (st : St) (ha : R a.s) (hw : WinOK alpha beta)
    (hd : a.curDepth < 2^31) (hst : EvalIn st.tt) (hprio : ∀ m, a.prioritized = some m → LegalIn a.s m)
    (hchild : ∀ next al, (∃ m, (m, next) ∈ legalMoves a.s) → -M0 ≤ al → al < M0 →
      ChildIn child (childArgs { a with alpha := alpha, beta := beta } next al)) :
    EvalIn ((expandM ctx child a hash alpha beta).run.run st).2.tt ∧
    ∀ v, ((expandM ctx child a hash alpha beta).run.run st).1 = .ok v → 1 ≤ a.curDepth → Inside v := by
  obtain ⟨w1, w2, w3, w4⟩ := hw
  obtain ⟨hl, hdj⟩ := hR.good _ ha
  obtain ⟨L, hL⟩ := (C01_legal_results a.s hl hdj).1
  rw [expandM_run]
  cases hp : pseudoLegalMoves a.s with
  | none => exact ⟨hst, fun v h => nomatch h⟩
  | some pseudo =>
    simp only []
    obtain ⟨sorted, r, hs, hperm⟩ := sort_rngOnly a.s pseudo st
    rw [hs]
    simp only []
    have hbuf := buffer_legal hL hprio hp hperm
    have hloop := childLoop_inside ctx child { a with alpha := alpha, beta := beta } hash w3 w4
      (bufferOf a.prioritized sorted).reverse
      (fun mv hmv m next al ht h1 h2 => hchild next al ⟨m, hbuf mv hmv (m, next) ht⟩ h1 h2)
      alpha Option.none kindUpper { st with rng := r } hst w1 w2
    generalize (childLoop ctx child { a with alpha := alpha, beta := beta } hash
      (bufferOf a.prioritized sorted).reverse alpha Option.none kindUpper).run.run { st with rng := r } = out at hloop
    obtain ⟨r2, st2⟩ := out
    obtain ⟨l1, l2, l3, l4⟩ := hloop
    cases r2 with
    | error e => exact ⟨l1, fun v h => nomatch h⟩
    | ok x =>
      cases x with
      | error b =>
        refine ⟨l1, fun v h _ => ?_⟩
        cases h
        exact l3 b rfl
      | ok y =>
        obtain ⟨alpha', best, kind⟩ := y
        obtain ⟨j1, j2, j3⟩ := l4 alpha' best kind rfl
        simp only []
        by_cases hn : (st2.nodes == st.nodes) = true
        · rw [if_pos hn]
          cases he : evaluate a.s a.s.turn a.curDepth with
          | none => exact ⟨l1, fun v h => nomatch h⟩
          | some e =>
            refine ⟨l1, fun v h hdeep => ?_⟩
            cases h
            exact hE a.s ha a.s.turn a.curDepth _ hdeep hd he
        · rw [if_neg hn]
          have hlt : st.nodes < st2.nodes := by
            have hne : st2.nodes ≠ st.nodes := by simpa using hn
            have hle : st.nodes ≤ st2.nodes := l2
            omega
          have hin : Inside alpha' := ⟨j3 (Or.inr hlt), j2⟩
          cases best with
          | none =>
            refine ⟨l1, fun v h _ => ?_⟩
            cases h
            exact hin
          | some m =>
            refine ⟨EvalIn.insert l1 _ _ hin, fun v h _ => ?_⟩
            cases h
            exact hin


/-- the node entry (count, poll, repetition test, table probe) followed by a continuation `k` -/
theorem nodeM_inside (ctx : Ctx) (a : NodeArgs) (k : Eval → Eval → M Eval) (st : St) (P : Prop)
    (hw : WinOK a.alpha a.beta) (hst : EvalIn st.tt)
    (hk : ∀ al be st1, WinOK al be → EvalIn st1.tt → EvalIn ((k al be).run.run st1).2.tt ∧
      ∀ v, ((k al be).run.run st1).1 = .ok v → P → Inside v) :
    EvalIn ((nodeM ctx a k).run.run st).2.tt ∧ ∀ v, ((nodeM ctx a k).run.run st).1 = .ok v → P → Inside v := by
  rw [nodeM_run]
  have ht := tick_tt ctx st
  generalize tick ctx st = out at ht
  obtain ⟨r, st1⟩ := out
  have hst1 : EvalIn st1.tt := by rw [show st1.tt = st.tt from ht]; exact hst
  cases r with
  | error e => exact ⟨hst1, fun v h => nomatch h⟩
  | ok u =>
    simp only []
    split
    · refine ⟨hst1, fun v h _ => ?_⟩
      cases h
      have := M0_pos
      exact ⟨by omega, this⟩
    · obtain ⟨p1, p2⟩ := probe_inside a (st1.tt.find (Wee.hash ctx.keys a.s).toNat) (fun e he => hst1.find he) hw
      generalize probe a (st1.tt.find (Wee.hash ctx.keys a.s).toNat) = pr at p1 p2
      cases pr with
      | underflow => exact ⟨hst1, fun v h => nomatch h⟩
      | cut v =>
        refine ⟨hst1, fun v' h _ => ?_⟩
        cases h
        exact p1 v rfl
      | window al be => exact hk al be st1 (p2 al be rfl) hst1

/-- **`analyze_recursive` keeps `EvalIn`, and the value of a non-root call is strictly inside the root window.**
`R` a region on which static evaluations are strictly inside the mate window (`EvalBelowMate`); the call is made at a
position of `R` with a window inside `[-mate0, mate0]` and a prioritized move that is absent or legal; plies stay below
`2^31` (`curDepth + 2·rem + 70 < 2^31`: each level adds one ply and at most one extension, quiescence at most 66).  From
every state whose table satisfies `EvalIn` — whatever else it holds — the call ends (normally, interrupted or by a
panic) in a state whose table satisfies `EvalIn`; if it is not the root call (`1 ≤ curDepth`) and ends normally, its value
is strictly inside `(-mate0, mate0)`. -/
theorem searchNode_inside {R : State → Prop} (hR : Region R) (hE : EvalBelowMate R) (ctx : Ctx) :
    ∀ (rem : Nat) (a : NodeArgs) (st : St), R a.s → WinOK a.alpha a.beta → a.curDepth + 2 * rem + 70 < 2^31 →
      (∀ m, a.prioritized = some m → LegalIn a.s m) → EvalIn st.tt →
      EvalIn ((searchNode ctx rem a).run.run st).2.tt ∧
      ∀ v, ((searchNode ctx rem a).run.run st).1 = .ok v → 1 ≤ a.curDepth → Inside v := by
  intro rem
  induction rem with
  | zero =>
    intro a st ha hw hd _ hst
    rw [SearchCtl.searchNode_zero]
    refine nodeM_inside ctx a _ st (1 ≤ a.curDepth) hw hst (fun al be st1 hw1 hst1 => ?_)
    rw [leafM_run]
    refine ⟨hst1, fun v h hdeep => ?_⟩
    obtain ⟨w1, w2, w3, w4⟩ := hw1
    cases hq : quiesce evaluate (quiesceFuel a.s) a.s a.curDepth al be with
    | error e => rw [hq] at h; cases h
    | ok v' =>
      rw [hq] at h
      cases h
      refine quiesce_bound hR hE _ a.s a.curDepth al be ha hdeep ?_ w1 w2 w3 w4 _ hq
      have := popcount_le a.s.pieces.occ
      unfold quiesceFuel
      omega
  | succ rem ih =>
    intro a st ha hw hd hprio hst
    rw [SearchCtl.searchNode_succ]
    refine nodeM_inside ctx a _ st (1 ≤ a.curDepth) hw hst (fun al be st1 hw1 hst1 => ?_)
    refine expandM_inside hR hE ctx _ a _ al be st1 ha hw1 (by omega) hst1 hprio ?_
    intro next al' ⟨m, hm⟩ h1 h2 st' hst'
    have hx := ext_le_one a
    have hnext : R next := hR.closed _ ha _ hm
    have hwin : WinOK (childArgs { a with alpha := al, beta := be } next al').alpha
        (childArgs { a with alpha := al, beta := be } next al').beta := by
      obtain ⟨w1, w2, w3, w4⟩ := hw1
      show WinOK (-be) (-al')
      unfold WinOK
      unfold Eval at *
      omega
    have hdep : (childArgs { a with alpha := al, beta := be } next al').curDepth + 2 * rem + 70 < 2^31 := by
      show a.curDepth + 1 + (if a.curExt < Gen.extensionCap then extensionOf a.s else 0) + 2 * rem + 70 < 2^31
      omega
    obtain ⟨i1, i2⟩ := ih (childArgs { a with alpha := al, beta := be } next al') st' hnext hwin hdep
      (fun m' h' => nomatch h') hst'
    refine ⟨i1, NoPoll.searchNode_nodes ctx rem _ st', fun v hv => i2 v hv ?_⟩
    show 1 ≤ a.curDepth + 1 + (if a.curExt < Gen.extensionCap then extensionOf a.s else 0)
    omega


/-! ## 2. structural facts about the move loop -/

/-- the loop hands back its inputs unchanged, or a best move together with a strictly larger alpha -/
theorem childLoop_best (ctx : Ctx) (child : NodeArgs → M Eval) (a : NodeArgs) (hash : UInt64) :
    ∀ (buf : List Move) (alpha : Eval) (best : Option Move) (kind : Nat) (st : St) (al' : Eval) (b' : Option Move)
      (k' : Nat), ((childLoop ctx child a hash buf alpha best kind).run.run st).1 = .ok (.ok (al', b', k')) →
      (al' = alpha ∧ b' = best ∧ k' = kind) ∨ (b'.isSome = true ∧ alpha < al') := by
  intro buf
  induction buf with
  | nil =>
    intro alpha best kind st al' b' k' h
    rw [childLoop_nil_run] at h
    cases h
    exact Or.inl ⟨rfl, rfl, rfl⟩
  | cons mv rest ih =>
    intro alpha best kind st al' b' k' h
    rw [childLoop_cons_run] at h
    cases ht : tryAsLegal a.s mv with
    | none => rw [ht] at h; cases h
    | some o =>
      cases o with
      | none => rw [ht] at h; exact ih alpha best kind st al' b' k' h
      | some r =>
        obtain ⟨m, next⟩ := r
        rw [ht] at h
        simp only [] at h
        generalize (child (childArgs a next alpha)).run.run st = out at h
        obtain ⟨res, st'⟩ := out
        cases res with
        | error e => cases h
        | ok v =>
          simp only [] at h
          by_cases g1 : -v ≥ a.beta
          · rw [if_pos g1] at h; cases h
          · rw [if_neg g1] at h
            by_cases g2 : -v > alpha
            · rw [if_pos g2] at h
              rcases ih (-v) (some m) kindExact st' al' b' k' h with ⟨e1, e2, _⟩ | ⟨e1, e2⟩
              · right; subst e1 e2; exact ⟨rfl, g2⟩
              · right; exact ⟨e1, by unfold Eval at *; omega⟩
            · rw [if_neg g2] at h
              exact ih alpha best kind st' al' b' k' h

/-- if `try_as_legal_move` accepts some buffered move and the loop runs to its end, a child was searched: the node
counter has grown -/
theorem childLoop_progress (ctx : Ctx) (child : NodeArgs → M Eval)
    (hc : ∀ a st, st.nodes + 1 ≤ ((child a).run.run st).2.nodes) (a : NodeArgs) (hash : UInt64) :
    ∀ (buf : List Move) (alpha : Eval) (best : Option Move) (kind : Nat) (st : St) (x : Eval × Option Move × Nat),
      (∃ mv ∈ buf, ∃ r, tryAsLegal a.s mv = some (some r)) →
      ((childLoop ctx child a hash buf alpha best kind).run.run st).1 = .ok (.ok x) →
      st.nodes < ((childLoop ctx child a hash buf alpha best kind).run.run st).2.nodes := by
  have hmono : ∀ a st, st.nodes ≤ ((child a).run.run st).2.nodes := fun a st => Nat.le_of_succ_le (hc a st)
  intro buf
  induction buf with
  | nil => intro _ _ _ _ _ ⟨mv, hmv, _⟩; cases hmv
  | cons mv rest ih =>
    intro alpha best kind st x hacc h
    rw [childLoop_cons_run] at h ⊢
    cases ht : tryAsLegal a.s mv with
    | none => rw [ht] at h; cases h
    | some o =>
      cases o with
      | none =>
        rw [ht] at h
        refine ih alpha best kind st x ?_ h
        obtain ⟨mv', hmv', r, hr⟩ := hacc
        rcases List.mem_cons.1 hmv' with rfl | hmv'
        · rw [ht] at hr; cases hr
        · exact ⟨mv', hmv', r, hr⟩
      | some r =>
        obtain ⟨m, next⟩ := r
        rw [ht] at h
        simp only [] at h ⊢
        have h1 := hc (childArgs a next alpha) st
        generalize (child (childArgs a next alpha)).run.run st = out at h h1
        obtain ⟨res, st'⟩ := out
        have h1' : st.nodes + 1 ≤ st'.nodes := h1
        cases res with
        | error e => cases h
        | ok v =>
          simp only [] at h ⊢
          by_cases g1 : -v ≥ a.beta
          · rw [if_pos g1] at h; cases h
          · rw [if_neg g1] at h ⊢
            by_cases g2 : -v > alpha
            · rw [if_pos g2] at h ⊢
              have := NoPoll.childLoop_mono ctx child hmono a hash rest (-v) (some m) kindExact st'
              omega
            · rw [if_neg g2] at h ⊢
              have := NoPoll.childLoop_mono ctx child hmono a hash rest alpha best kind st'
              omega

/-- a call with remaining depth 0 does not write to the table -/
theorem searchNode0_tt (ctx : Ctx) (a : NodeArgs) (st : St) : ((searchNode ctx 0 a).run.run st).2.tt = st.tt := by
  rw [SearchCtl.searchNode_zero, nodeM_run]
  have ht := tick_tt ctx st
  generalize tick ctx st = out at ht
  obtain ⟨r, st1⟩ := out
  have ht' : st1.tt = st.tt := ht
  cases r with
  | error e => exact ht'
  | ok u =>
    simp only []
    split
    · exact ht'
    · split
      · exact ht'
      · exact ht'
      · rw [leafM_run]; exact ht'

/-- **a move loop whose children do not write** (remaining depth 0) leaves the table as it was, except for the one
insert of a cut-off, under the node's own key -/
theorem childLoop_tt_leaf (ctx : Ctx) (child : NodeArgs → M Eval)
    (hc : ∀ a st, ((child a).run.run st).2.tt = st.tt) (a : NodeArgs) (hash : UInt64) :
    ∀ (buf : List Move) (alpha : Eval) (best : Option Move) (kind : Nat) (st : St),
      ((∀ x, ((childLoop ctx child a hash buf alpha best kind).run.run st).1 ≠ .ok (.error x)) →
        ((childLoop ctx child a hash buf alpha best kind).run.run st).2.tt = st.tt) ∧
      (∀ x, ((childLoop ctx child a hash buf alpha best kind).run.run st).1 = .ok (.error x) →
        ∃ e, ((childLoop ctx child a hash buf alpha best kind).run.run st).2.tt = st.tt.insert hash.toNat e) := by
  intro buf
  induction buf with
  | nil =>
    intro alpha best kind st
    rw [childLoop_nil_run]
    exact ⟨fun _ => rfl, fun x h => nomatch h⟩
  | cons mv rest ih =>
    intro alpha best kind st
    rw [childLoop_cons_run]
    cases ht : tryAsLegal a.s mv with
    | none => exact ⟨fun _ => rfl, fun x h => nomatch h⟩
    | some o =>
      cases o with
      | none => exact ih alpha best kind st
      | some r =>
        obtain ⟨m, next⟩ := r
        simp only []
        have h1 := hc (childArgs a next alpha) st
        generalize (child (childArgs a next alpha)).run.run st = out at h1
        obtain ⟨res, st'⟩ := out
        have h1' : st'.tt = st.tt := h1
        cases res with
        | error e => exact ⟨fun _ => h1', fun x h => nomatch h⟩
        | ok v =>
          simp only []
          by_cases g1 : -v ≥ a.beta
          · rw [if_pos g1]
            refine ⟨fun h => absurd rfl (h a.beta), fun x _ => ⟨entryOf a kindLower m a.beta, ?_⟩⟩
            show st'.tt.insert _ _ = _
            rw [h1']
          · rw [if_neg g1]
            by_cases g2 : -v > alpha
            · rw [if_pos g2, ← h1']; exact ih _ _ _ st'
            · rw [if_neg g2, ← h1']; exact ih _ _ _ st'


/-! ## 3. the root call of the first iteration -/

/-- what a recursive call on a listed successor guarantees (instance of `searchNode_inside`) -/
theorem childIn_searchNode {R : State → Prop} (hR : Region R) (hE : EvalBelowMate R) (ctx : Ctx) (rem : Nat)
    (a : NodeArgs) (next : State) (al' : Eval) (ha : R a.s) (hm : ∃ m, (m, next) ∈ legalMoves a.s)
    (hb1 : -M0 < a.beta) (hb2 : a.beta ≤ M0) (h1 : -M0 ≤ al') (h2 : al' < M0)
    (hd : a.curDepth + 2 * (rem + 1) + 70 < 2^31) : ChildIn (searchNode ctx rem) (childArgs a next al') := by
  intro st hst
  obtain ⟨m, hm⟩ := hm
  have hx := ext_le_one a
  have hwin : WinOK (childArgs a next al').alpha (childArgs a next al').beta := by
    show WinOK (-a.beta) (-al')
    unfold WinOK
    unfold Eval at *
    omega
  have hdep : (childArgs a next al').curDepth + 2 * rem + 70 < 2^31 := by
    show a.curDepth + 1 + (if a.curExt < Gen.extensionCap then extensionOf a.s else 0) + 2 * rem + 70 < 2^31
    omega
  obtain ⟨i1, i2⟩ := searchNode_inside hR hE ctx rem (childArgs a next al') st (hR.closed _ ha _ hm) hwin hdep
    (fun m' h' => nomatch h') hst
  refine ⟨i1, NoPoll.searchNode_nodes ctx rem _ st, fun v hv => i2 v hv ?_⟩
  show 1 ≤ a.curDepth + 1 + (if a.curExt < Gen.extensionCap then extensionOf a.s else 0)
  omega

/-- **in the first iteration the only table write of a worker is ONE insert under the root's key** (sequential model,
one worker): `analyze_recursive` with remaining depth 1 — every child has remaining depth 0 and is answered by the
repetition test, a table hit or quiescence, none of which writes — ends, whatever its outcome, whatever the table held
and whatever the arguments, with the table it started with or with that table after one insert under the key of its
own position. -/
theorem root1_table (ctx : Ctx) (a : NodeArgs) (st : St) :
    ((searchNode ctx 1 a).run.run st).2.tt = st.tt ∨
    ∃ e, ((searchNode ctx 1 a).run.run st).2.tt = st.tt.insert (Wee.hash ctx.keys a.s).toNat e := by
  rw [SearchCtl.searchNode_succ, nodeM_run]
  have ht := tick_tt ctx st
  generalize tick ctx st = out at ht
  obtain ⟨r, st1⟩ := out
  have ht' : st1.tt = st.tt := ht
  cases r with
  | error e => exact Or.inl ht'
  | ok u =>
    simp only []
    split
    · exact Or.inl ht'
    · split
      · exact Or.inl ht'
      · exact Or.inl ht'
      · rename_i al be _
        rw [expandM_run]
        cases hp : pseudoLegalMoves a.s with
        | none => exact Or.inl ht'
        | some pseudo =>
          simp only []
          obtain ⟨sorted, rg, hs, _⟩ := sort_rngOnly a.s pseudo st1
          rw [hs]
          simp only []
          obtain ⟨t1, t2⟩ := childLoop_tt_leaf ctx (searchNode ctx 0) (searchNode0_tt ctx) { a with alpha := al, beta := be }
            (Wee.hash ctx.keys a.s) (bufferOf a.prioritized sorted).reverse al Option.none kindUpper { st1 with rng := rg }
          generalize (childLoop ctx (searchNode ctx 0) { a with alpha := al, beta := be } (Wee.hash ctx.keys a.s)
            (bufferOf a.prioritized sorted).reverse al Option.none kindUpper).run.run { st1 with rng := rg } = out2 at t1 t2
          obtain ⟨r2, st2⟩ := out2
          cases r2 with
          | error e => exact Or.inl ((t1 (fun x h => nomatch h)).trans ht')
          | ok x =>
            cases x with
            | error b =>
              obtain ⟨e, he⟩ := t2 b rfl
              exact Or.inr ⟨e, by rw [show st2.tt = _ from he]; show st1.tt.insert _ _ = _; rw [ht']⟩
            | ok y =>
              obtain ⟨alpha', best, kind⟩ := y
              have h2 : st2.tt = st.tt := (t1 (fun x h => nomatch h)).trans ht'
              simp only []
              split
              · cases evaluate a.s a.s.turn a.curDepth <;> exact Or.inl h2
              · cases best with
                | none => exact Or.inl h2
                | some m => exact Or.inr ⟨_, by show st2.tt.insert _ _ = _; rw [h2]⟩

theorem find_insert_isSome {tt : TT.Access} (hwf : TTWf tt) (k : Nat) (e : TT.Entry) :
    ((tt.insert k e).find k).isSome = true := by
  obtain ⟨nT, nB, hT, hB, hinv⟩ := hwf
  rw [hinv.find_insert_self (by decide) hT hB]
  rfl

/-- **the root call of the first iteration leaves the root's key in the table.**  `R` a region with `EvalBelowMate`; a
root call (ply 0, the full root window, no prioritized move) at a position of `R` with at least one legal move; ANY table
of the shape of a reachable table (`TTWf`) whose stored evaluations are strictly inside the root window (`EvalIn`), any
history, any cancellation instant, any generator state and counters: if the call with remaining depth 1 ends normally, an
entry under the root's key is in the table.
(a) If there was one, it is still there or has been replaced in place (`root1_table`).  (b) If there was none, the window
is the full root window; the first legal child returns a value strictly inside it (`searchNode_inside`), which raises
alpha above `-mate0`; so a best move exists, the node counter has grown, and the call ends with its insert. -/
theorem root1_entry {R : State → Prop} (hR : Region R) (hE : EvalBelowMate R) (ctx : Ctx) (a : NodeArgs)
    (ha : R a.s) (hd0 : a.curDepth = 0) (hA : a.alpha = -M0) (hM : a.beta = M0) (hpr : a.prioritized = Option.none)
    (hmoves : legalMoves a.s ≠ []) (st : St) (hwf : TTWf st.tt) (hin : EvalIn st.tt) (v : Eval)
    (hok : ((searchNode ctx 1 a).run.run st).1 = .ok v) :
    (((searchNode ctx 1 a).run.run st).2.tt.find (Wee.hash ctx.keys a.s).toNat).isSome = true := by
  cases hf : st.tt.find (Wee.hash ctx.keys a.s).toNat with
  | some e0 =>
    rcases root1_table ctx a st with h | ⟨e, h⟩
    · rw [h, hf]; rfl
    · rw [h]; exact find_insert_isSome hwf _ _
  | none =>
    obtain ⟨hl, hdj⟩ := hR.good _ ha
    obtain ⟨L, hL⟩ := (C01_legal_results a.s hl hdj).1
    have hpos := M0_pos
    rw [SearchCtl.searchNode_succ, nodeM_run] at hok ⊢
    have ht := tick_tt ctx st
    generalize tick ctx st = out at ht hok
    obtain ⟨r, st1⟩ := out
    have ht' : st1.tt = st.tt := ht
    cases r with
    | error e => cases hok
    | ok u =>
      have hc : (decide (a.curDepth > 0) && ctx.history.contains (Wee.hash ctx.keys a.s)) = false := by
        rw [hd0]; rfl
      have hfind : st1.tt.find (Wee.hash ctx.keys a.s).toNat = Option.none := by rw [ht']; exact hf
      have hpr0 : probe a Option.none = .window a.alpha a.beta := rfl
      simp only [hc, hfind, hpr0, Bool.false_eq_true, if_false] at hok ⊢
      rw [expandM_run] at hok ⊢
      cases hp : pseudoLegalMoves a.s with
      | none => rw [hp] at hok; cases hok
      | some pseudo =>
        rw [hp] at hok
        simp only [] at hok ⊢
        obtain ⟨sorted, rg, hs, hperm⟩ := sort_rngOnly a.s pseudo st1
        rw [hs] at hok ⊢
        simp only [] at hok ⊢
        -- the facts about the move loop
        have hprio : ∀ m, a.prioritized = some m → LegalIn a.s m := fun m h => by rw [hpr] at h; cases h
        have hbuf := buffer_legal hL hprio hp hperm
        have hst1 : EvalIn ({ st1 with rng := rg } : St).tt := by show EvalIn st1.tt; rw [ht']; exact hin
        have hI := childLoop_inside ctx (searchNode ctx 0) { a with alpha := a.alpha, beta := a.beta }
          (Wee.hash ctx.keys a.s) (by show -M0 < a.beta; unfold Eval at *; omega) (by show a.beta ≤ M0; unfold Eval at *; omega)
          (bufferOf a.prioritized sorted).reverse
          (fun mv hmv m next al htry h1 h2 => childIn_searchNode hR hE ctx 0 _ next al ha
            ⟨m, hbuf mv hmv (m, next) htry⟩ (by show -M0 < a.beta; unfold Eval at *; omega) (by show a.beta ≤ M0; unfold Eval at *; omega) h1 h2
            (by show a.curDepth + 2 * (0 + 1) + 70 < 2^31; omega))
          a.alpha Option.none kindUpper { st1 with rng := rg } hst1 (by unfold Eval at *; omega) (by unfold Eval at *; omega)
        have hB := childLoop_best ctx (searchNode ctx 0) { a with alpha := a.alpha, beta := a.beta }
          (Wee.hash ctx.keys a.s) (bufferOf a.prioritized sorted).reverse a.alpha Option.none kindUpper
          { st1 with rng := rg }
        have hacc : ∃ mv ∈ (bufferOf a.prioritized sorted).reverse, ∃ r', tryAsLegal a.s mv = some (some r') := by
          cases hlm : legalMoves a.s with
          | nil => exact absurd hlm hmoves
          | cons r0 rest =>
            have hr0 : r0 ∈ legalMoves a.s := by rw [hlm]; exact List.mem_cons_self
            obtain ⟨ps, hps', hmem, htry⟩ := legal_accepted hr0
            rw [hp] at hps'
            cases hps'
            refine ⟨r0.1, List.mem_reverse.2 ?_, r0, htry⟩
            rw [hpr]
            exact hperm.mem_iff.2 hmem
        have hP := childLoop_progress ctx (searchNode ctx 0) (NoPoll.searchNode_nodes ctx 0)
          { a with alpha := a.alpha, beta := a.beta } (Wee.hash ctx.keys a.s) (bufferOf a.prioritized sorted).reverse
          a.alpha Option.none kindUpper { st1 with rng := rg }
        obtain ⟨t1, t2⟩ := childLoop_tt_leaf ctx (searchNode ctx 0) (searchNode0_tt ctx)
          { a with alpha := a.alpha, beta := a.beta } (Wee.hash ctx.keys a.s) (bufferOf a.prioritized sorted).reverse
          a.alpha Option.none kindUpper { st1 with rng := rg }
        generalize (childLoop ctx (searchNode ctx 0) { a with alpha := a.alpha, beta := a.beta } (Wee.hash ctx.keys a.s)
          (bufferOf a.prioritized sorted).reverse a.alpha Option.none kindUpper).run.run { st1 with rng := rg } = out2
          at hok hI hB hP t1 t2 ⊢
        obtain ⟨r2, st2⟩ := out2
        have hwf1 : TTWf st1.tt := by rw [ht']; exact hwf
        cases r2 with
        | error e => cases hok
        | ok x =>
          cases x with
          | error b =>
            obtain ⟨e, he⟩ := t2 b rfl
            show (st2.tt.find _).isSome = true
            rw [show st2.tt = _ from he]
            exact find_insert_isSome hwf1 _ _
          | ok y =>
            obtain ⟨alpha', best, kind⟩ := y
            have h2 : st2.tt = st1.tt := t1 (fun x h => nomatch h)
            have hlt : st1.nodes < st2.nodes := hP (alpha', best, kind) hacc rfl
            obtain ⟨_, _, j3⟩ := hI.2.2.2 alpha' best kind rfl
            have hgt : -M0 < alpha' := j3 (Or.inr hlt)
            have hbest : best.isSome = true := by
              rcases hB alpha' best kind rfl with ⟨e1, _, _⟩ | ⟨e1, _⟩
              · rw [e1, hA] at hgt; exact absurd hgt (Int.lt_irrefl _)
              · exact e1
            have hne : (st2.nodes == st1.nodes) = false := by
              rw [beq_eq_false_iff_ne]; omega
            simp only [] at hok ⊢
            rw [if_neg (by rw [hne]; decide)] at hok ⊢
            cases best with
            | none => cases hbest
            | some m =>
              show ((st2.tt.insert _ _).find _).isSome = true
              rw [h2]
              exact find_insert_isSome hwf1 _ _


/-! ## 4. no interrupt below the poll interval; the workers of the first iteration -/

/-- instance of the generic induction: at an interrupt the node counter is a positive multiple of the poll interval -/
theorem interrupt_walk (ctx : Ctx) :
    Walk ctx (fun _ => True) (fun st => Gen.pollInterval ≤ st.nodes) (fun _ _ => True) (fun _ => True) where
  tick := by
    intro st _
    rw [tick_eq]
    split
    · rename_i h
      split
      · refine ⟨trivial, ?_⟩
        show Gen.pollInterval ≤ st.nodes + 1
        unfold Gen.pollInterval at *
        omega
      · trivial
    · trivial
  rng := fun _ _ h => h
  underflow := fun _ _ _ _ _ _ _ _ => trivial
  leaf := fun _ _ _ _ _ _ => trivial
  pseudo := fun _ _ _ _ => trivial
  legal := fun _ _ _ _ _ _ _ _ => trivial
  eval := fun _ _ _ _ => trivial
  window := fun _ _ _ _ _ => trivial
  child := fun _ _ _ _ _ _ _ _ _ _ _ => trivial
  insert := fun _ _ _ _ _ _ _ _ _ _ _ _ _ _ _ => trivial

/-- **a call of `analyze_recursive` that is interrupted has counted at least `pollInterval` nodes** (the flag is only read
when the worker's counter reaches a multiple of 10000) -/
theorem searchNode_interrupt_nodes (ctx : Ctx) (rem : Nat) (a : NodeArgs) (st : St)
    (h : ((searchNode ctx rem a).run.run st).1 = .error .interrupt) :
    Gen.pollInterval ≤ ((searchNode ctx rem a).run.run st).2.nodes := by
  have hw := searchNode_walk (interrupt_walk ctx) rem a st trivial trivial
  generalize (searchNode ctx rem a).run.run st = out at h hw
  obtain ⟨r, st'⟩ := out
  cases h
  exact hw.2

/-- the table invariants the workers of the first iteration rely on and re-establish: the C04 invariants (`depth ≤
max_depth`, shape of a reachable table, a legal move under the root's key) and the evaluation range -/
def FirstI (ctx : Ctx) (root : State) (nT nB : Nat) (tt : TT.Access) : Prop :=
  (tt.All DepthOK ∧ TT.AInv Gen.bucketSize nT nB tt ∧ RootInv ctx root tt) ∧ EvalIn tt

/-- **one worker of the first iteration** on any table satisfying `FirstI`: it does not panic, is not interrupted (it
counts at most `1 + #legal moves < pollInterval` nodes), hands back a table satisfying `FirstI` that differs from the one
it was given by at most one insert under the root's key, and that table holds an entry under the root's key. -/
theorem firstWorker_run {R : State → Prop} (hR : Region R) (hE : EvalBelowMate R) (ctx : Ctx) (root : State)
    (hroot : R root) (hmoves : legalMoves root ≠ []) (L : List (Move × State)) (hL : legalMoves? root = some L)
    (hfew : L.length + 1 < Gen.pollInterval) (nT nB : Nat) (hT : 0 < nT) (hB : 0 < nB)
    (hhist : ctx.history.contains (Wee.hash ctx.keys root) = true)
    (tt : TT.Access) (rng : Rng.ChaCha8) (polls : Nat) (hI : FirstI ctx root nT nB tt) :
    (∃ e, (runWorker ctx root 1 Option.none tt rng polls).1 = .ok e) ∧
    FirstI ctx root nT nB (runWorker ctx root 1 Option.none tt rng polls).2.tt ∧
    ((runWorker ctx root 1 Option.none tt rng polls).2.tt.find (Wee.hash ctx.keys root).toNat).isSome = true ∧
    ((runWorker ctx root 1 Option.none tt rng polls).2.tt = tt ∨
      ∃ e, (runWorker ctx root 1 Option.none tt rng polls).2.tt = tt.insert (Wee.hash ctx.keys root).toNat e) := by
  obtain ⟨hsafe, hin⟩ := hI
  obtain ⟨hl, hdj⟩ := hR.good _ hroot
  have h1 := runWorker_safe ctx root nT nB hT hB hhist capturesShrink ⟨hl, hdj⟩ 1 Option.none tt rng polls hsafe
    (fun m hm => nomatch hm)
  rw [SearchCtl.runWorker_eq] at h1 ⊢
  have h2 := searchNode_inside hR hE ctx 1 (SearchCtl.rootArgs root 1 Option.none) { tt, rng, nodes := 0, polls } hroot
    winOK_root (by show 0 + 2 * 1 + 70 < 2^31; decide) (fun m hm => nomatch hm) hin
  have h3 := NoPoll.root1_nodes ctx (SearchCtl.rootArgs root 1 Option.none) rfl L hL { tt, rng, nodes := 0, polls }
  have h4 := searchNode_interrupt_nodes ctx 1 (SearchCtl.rootArgs root 1 Option.none) { tt, rng, nodes := 0, polls }
  have h5 := root1_entry hR hE ctx (SearchCtl.rootArgs root 1 Option.none) hroot rfl rfl rfl rfl hmoves
    { tt, rng, nodes := 0, polls } ⟨nT, nB, hT, hB, hsafe.2.1⟩ hin
  have h6 := root1_table ctx (SearchCtl.rootArgs root 1 Option.none) { tt, rng, nodes := 0, polls }
  generalize (searchNode ctx 1 (SearchCtl.rootArgs root 1 Option.none)).run.run { tt, rng, nodes := 0, polls } = out
    at h1 h2 h3 h4 h5 h6 ⊢
  obtain ⟨r, st'⟩ := out
  cases r with
  | ok e => exact ⟨⟨e, rfl⟩, ⟨h1.1, h2.1⟩, h5 e rfl, h6⟩
  | error e =>
    exfalso
    cases e with
    | interrupt =>
      have := h4 rfl
      have h3' : st'.nodes ≤ 0 + 1 + L.length := h3
      have h4' : Gen.pollInterval ≤ st'.nodes := this
      omega
    | panic w => exact h1.2 w rfl


/-- the table after a list of inserts under ONE key -/
def insertsAt (tt : TT.Access) (k : Nat) (es : List TT.Entry) : TT.Access := es.foldl (fun t e => t.insert k e) tt

theorem insertsAt_append (tt : TT.Access) (k : Nat) (es es' : List TT.Entry) :
    insertsAt tt k (es ++ es') = insertsAt (insertsAt tt k es) k es' := by
  unfold insertsAt; rw [List.foldl_append]

theorem first_searchDepth (i : Nat) : (0 - i % 2) + 1 = 1 := by omega

theorem first_best (i : Nat) : (if i == 0 then (Option.none : Option Move) else Option.none) = Option.none := by
  split <;> rfl

/-- **the workers of the first iteration, run one after the other**, any number of them with any seeds, on any table
satisfying `FirstI`: none panics, none is interrupted, the table handed back satisfies `FirstI`, it is the initial table
after a list of inserts under the root's key, and — if at least one worker ran, or the key was there before — it holds an
entry under the root's key. -/
theorem runWorkers_first {R : State → Prop} (hR : Region R) (hE : EvalBelowMate R) (ctx : Ctx) (root : State)
    (hroot : R root) (hmoves : legalMoves root ≠ []) (L : List (Move × State)) (hL : legalMoves? root = some L)
    (hfew : L.length + 1 < Gen.pollInterval) (nT nB : Nat) (hT : 0 < nT) (hB : 0 < nB)
    (hhist : ctx.history.contains (Wee.hash ctx.keys root) = true) :
    ∀ (l : List (Nat × UInt64)) (acc : WorkersOut), acc.panic = Option.none → acc.interrupted = false →
      FirstI ctx root nT nB acc.tt →
      (runWorkers ctx root 0 Option.none l acc).panic = Option.none ∧
      (runWorkers ctx root 0 Option.none l acc).interrupted = false ∧
      FirstI ctx root nT nB (runWorkers ctx root 0 Option.none l acc).tt ∧
      (∃ es, (runWorkers ctx root 0 Option.none l acc).tt = insertsAt acc.tt (Wee.hash ctx.keys root).toNat es) ∧
      ((l ≠ [] ∨ (acc.tt.find (Wee.hash ctx.keys root).toNat).isSome = true) →
        ((runWorkers ctx root 0 Option.none l acc).tt.find (Wee.hash ctx.keys root).toNat).isSome = true) := by
  intro l
  induction l with
  | nil =>
    intro acc hp hi hI
    refine ⟨hp, hi, hI, ⟨[], rfl⟩, fun h => ?_⟩
    rcases h with h | h
    · exact absurd rfl h
    · exact h
  | cons x rest ih =>
    obtain ⟨i, seed⟩ := x
    intro acc hp hi hI
    rw [runWorkers]
    have hc : (acc.interrupted || acc.panic.isSome) = false := by rw [hp, hi]; rfl
    rw [if_neg (by rw [hc]; decide)]
    simp only [first_searchDepth, first_best]
    obtain ⟨⟨e, w1⟩, w2, w3, w4⟩ := firstWorker_run hR hE ctx root hroot hmoves L hL hfew nT nB hT hB hhist acc.tt
      (Rng.seedFromU64 seed) acc.polls hI
    generalize runWorker ctx root 1 Option.none acc.tt (Rng.seedFromU64 seed) acc.polls = out at w1 w2 w3 w4
    obtain ⟨r, st'⟩ := out
    cases w1
    simp only []
    obtain ⟨i1, i2, i3, ⟨es, i4⟩, i5⟩ := ih
      { acc with tt := st'.tt, polls := st'.polls, evals := acc.evals ++ [e], sumNodes := acc.sumNodes + st'.nodes }
      hp hi w2
    refine ⟨i1, i2, i3, ?_, fun _ => i5 (Or.inr w3)⟩
    rcases w4 with h | ⟨e', h⟩
    · exact ⟨es, by rw [i4]; show insertsAt st'.tt _ _ = _; rw [show st'.tt = acc.tt from h]⟩
    · refine ⟨e' :: es, ?_⟩
      rw [i4]
      show insertsAt st'.tt _ _ = _
      rw [show st'.tt = _ from h]
      rfl

theorem drawSeeds_length : ∀ (n : Nat) (r : Rng.ChaCha8), (drawSeeds n r).1.length = n := by
  intro n
  induction n with
  | zero => intro r; rfl
  | succ n ih =>
    intro r
    rw [drawSeeds]
    simp only [List.length_cons, ih]


theorem zip_range_ne_nil {n : Nat} (hn : 0 < n) (seeds : List UInt64) (hs : seeds.length = n) :
    (List.range n).zip seeds ≠ [] := by
  intro h
  have := congrArg List.length h
  rw [List.length_zip, List.length_range, hs] at this
  simp at this
  omega

/-- **`FirstRootEntryKept` for ANY incoming memory and ANY number of workers.**  `R` a region with `EvalBelowMate`; the
root in it, with at least one and fewer than `pollInterval - 1` legal moves; an incoming artifact whose table has the
shape of a reachable table, `depth ≤ max_depth` in every entry, a legal move of the root under the root's key (if any),
and every stored evaluation strictly inside the root window; any seed, any cancellation instant, any history; at least
one worker in the first iteration (or an entry under the root's key already there).  Then the workers of the first
iteration end without panic or interrupt and the root's entry is in the table when the line is read back. -/
theorem first_root_entry_kept_always {R : State → Prop} (hR : Region R) (hE : EvalBelowMate R) (root : State)
    (hroot : R root) (hmoves : legalMoves root ≠ []) (hfew : (legalMoves root).length + 1 < Gen.pollInterval)
    (art : Artifact) (nT nB : Nat) (hT : 0 < nT) (hB : 0 < nB) (hdep : art.tt.All DepthOK)
    (hinv : TT.AInv Gen.bucketSize nT nB art.tt) (hprio : PrioritizedOK art root) (hin : EvalIn art.tt)
    (rng0 : Rng.ChaCha8) (workersOf : Nat → Nat) (cancelAt : Option Nat)
    (hw : 0 < workersOf 0 ∨ (art.tt.find (Wee.hash art.keys.keys root).toNat).isSome = true) :
    FirstRootEntryKept root rng0 art workersOf cancelAt ∧
    FirstI (iterCtx root art cancelAt) root nT nB (firstWorkers root rng0 art workersOf cancelAt).tt ∧
    ∃ es, (firstWorkers root rng0 art workersOf cancelAt).tt =
      insertsAt art.tt (Wee.hash art.keys.keys root).toNat es := by
  obtain ⟨hl, hdj⟩ := hR.good _ hroot
  obtain ⟨L, hL⟩ := (C01_legal_results root hl hdj).1
  have hLe : legalMoves root = L := by unfold legalMoves; rw [hL]; rfl
  rw [hLe] at hfew
  have hhist : (iterCtx root art cancelAt).history.contains (Wee.hash (iterCtx root art cancelAt).keys root) = true := by
    show (Wee.hash art.keys.keys root :: art.history).contains (Wee.hash art.keys.keys root) = true
    simp
  obtain ⟨h1, h2, h3, h4, h5⟩ := runWorkers_first hR hE (iterCtx root art cancelAt) root hroot hmoves L hL hfew nT nB hT hB
    hhist ((List.range (workersOf 0)).zip (drawSeeds (workersOf 0) rng0).1)
    { tt := art.tt, polls := 0, evals := [], sumNodes := 0 } rfl rfl ⟨⟨hdep, hinv, hprio⟩, hin⟩
  refine ⟨⟨h1, h2, h5 ?_⟩, h3, h4⟩
  rcases hw with hw | hw
  · exact Or.inl (zip_range_ne_nil hw _ (drawSeeds_length _ _))
  · exact Or.inr hw

/-! ## 5. the evaluation range through the deepening loop -/

theorem runWorker_evalIn {R : State → Prop} (hR : Region R) (hE : EvalBelowMate R) (ctx : Ctx) (root : State)
    (hroot : R root) (sd : Nat) (hsd : 2 * sd + 70 < 2^31) (best : Option Move)
    (hbest : ∀ m, best = some m → LegalIn root m) (tt : TT.Access) (rng : Rng.ChaCha8) (polls : Nat)
    (h : EvalIn tt) : EvalIn (runWorker ctx root sd best tt rng polls).2.tt := by
  rw [SearchCtl.runWorker_eq]
  exact (searchNode_inside hR hE ctx sd (SearchCtl.rootArgs root sd best) { tt, rng, nodes := 0, polls } hroot winOK_root
    (by show 0 + 2 * sd + 70 < 2^31; omega) hbest h).1

theorem runWorkers_evalIn {R : State → Prop} (hR : Region R) (hE : EvalBelowMate R) (ctx : Ctx) (root : State)
    (hroot : R root) (depth : Nat) (hd : 2 * (depth + 1) + 70 < 2^31) (bestMv : Option Move)
    (hbest : ∀ m, bestMv = some m → LegalIn root m) :
    ∀ (ws : List (Nat × UInt64)) (acc : WorkersOut), EvalIn acc.tt →
      EvalIn (runWorkers ctx root depth bestMv ws acc).tt := by
  intro ws
  induction ws with
  | nil => intro acc h; exact h
  | cons w rest ih =>
    intro acc h
    obtain ⟨i, seed⟩ := w
    rw [runWorkers]
    split
    · exact h
    · have hk := runWorker_evalIn hR hE ctx root hroot ((depth - i % 2) + 1) (by omega)
        (if i == 0 then bestMv else Option.none)
        (by intro m hm; split at hm
            · exact hbest m hm
            · cases hm) acc.tt (Rng.seedFromU64 seed) acc.polls h
      dsimp only
      split
      · rename_i e st heq
        rw [heq] at hk
        exact ih _ hk
      · rename_i st heq
        rw [heq] at hk
        exact hk
      · exact h

theorem iterStep_evalIn {R : State → Prop} (hR : Region R) (hE : EvalBelowMate R) (ctx : Ctx) (root : State)
    (hroot : R root) (rootHash : UInt64) (workers depth : Nat) (hd : 2 * (depth + 1) + 70 < 2^31) (st : IterSt)
    (hbest : ∀ m, st.bestMv = some m → LegalIn root m) (h : EvalIn st.tt) :
    EvalIn (iterStep ctx root rootHash workers depth st).tt := by
  rw [iterStep_tt]
  split
  · exact h
  · exact runWorkers_evalIn hR hE ctx root hroot depth hd st.bestMv hbest _ _ h

theorem iterLoop_evalIn {R : State → Prop} (hR : Region R) (hE : EvalBelowMate R) (ctx : Ctx)
    (hcf : CollisionFree ctx.keys R) (root : State) (hroot : R root) (rootHash : UInt64) (workersOf : Nat → Nat)
    (D : Nat) (hD : 2 * D + 70 < 2^31) :
    ∀ (n depth : Nat) (st : IterSt), depth + n ≤ D → IterInv ctx.keys (upTo (fun _ => R) D) root st → EvalIn st.tt →
      EvalIn (iterLoop ctx root rootHash workersOf n depth st).tt := by
  intro n
  induction n with
  | zero => intro depth st _ _ h; exact h
  | succ n ih =>
    intro depth st hd hinv h
    have hinvb := hinv.boundaryPoll ctx depth
    rw [iterLoop_succ]
    split
    · exact h
    split
    · rw [boundaryPoll_tt]; exact h
    · refine ih _ _ (by omega) ?_ ?_
      · exact iterStep_inv hR.graded D ctx (hcf.congr (fun s hs => (upTo_const D s).1 hs)) root hroot rootHash _ depth
          (by omega) _ hinvb
      · exact iterStep_evalIn hR hE ctx root hroot rootHash _ depth (by omega) _ hinvb.best
          (by rw [boundaryPoll_tt]; exact h)

/-- **`iterate` keeps the evaluation range**: for a region with `EvalBelowMate`, collision-free keys, an incoming table
satisfying the C03 invariant and `EvalIn`, and a depth limit `≤ 10^9` (plies stay below `2^31`), the table of the artifact
handed back satisfies `EvalIn` — for every seed, worker counts, cancellation instant. -/
theorem iterate_evalIn {R : State → Prop} (hR : Region R) (hE : EvalBelowMate R) (root : State) (hroot : R root)
    (art : Artifact) (hcf : CollisionFree art.keys.keys R) (htt : TInv art.keys.keys R art.tt) (hin : EvalIn art.tt)
    (rng0 : Rng.ChaCha8) (maxDepth : Option Nat) (workersOf : Nat → Nat) (cancelAt : Option Nat) (fuelDepth : Nat)
    (hlim : maxDepth.getD fuelDepth ≤ 1000000000) :
    EvalIn (iterate root rng0 maxDepth art workersOf cancelAt fuelDepth).artifact.tt := by
  rw [iterate_eq]
  have hle : iterLimit root maxDepth fuelDepth ≤ maxDepth.getD fuelDepth := by
    unfold iterLimit
    split
    · exact Nat.zero_le _
    · cases maxDepth <;> exact Nat.le_refl _
  have h0 : IterInv (iterCtx root art cancelAt).keys (upTo (fun _ => R) (iterLimit root maxDepth fuelDepth)) root
      (iterInit rng0 art) :=
    ⟨htt.congr (fun s hs => (upTo_const _ s).1 hs), fun m hm => (by cases hm), fun ev line hm => (by cases hm)⟩
  exact iterLoop_evalIn hR hE (iterCtx root art cancelAt) hcf root hroot (Wee.hash art.keys.keys root) workersOf
    (iterLimit root maxDepth fuelDepth) (by omega) _ 0 _ (by omega) h0 hin


/-! ## 6. the first iteration only writes under the root's key (unconditional) -/

/-- **`C03_first_iteration_only_root_inserts`, worker list.**  For ANY table, context, seeds, worker count and whatever
the workers' outcomes (normal, interrupted, panic): the table after the workers of the first iteration (`depth = 0`, every
worker searches the root with `search_depth = 1`) is the initial table after a list of inserts under the root's key. -/
theorem runWorkers_first_table (ctx : Ctx) (root : State) (bestMv : Option Move) :
    ∀ (l : List (Nat × UInt64)) (acc : WorkersOut),
      ∃ es, (runWorkers ctx root 0 bestMv l acc).tt = insertsAt acc.tt (Wee.hash ctx.keys root).toNat es := by
  intro l
  induction l with
  | nil => intro acc; exact ⟨[], rfl⟩
  | cons x rest ih =>
    obtain ⟨i, seed⟩ := x
    intro acc
    rw [runWorkers]
    split
    · exact ⟨[], rfl⟩
    · simp only [first_searchDepth]
      have h := root1_table ctx (SearchCtl.rootArgs root 1 (if i == 0 then bestMv else Option.none))
        { tt := acc.tt, rng := Rng.seedFromU64 seed, nodes := 0, polls := acc.polls }
      rw [← SearchCtl.runWorker_eq] at h
      generalize runWorker ctx root 1 (if i == 0 then bestMv else Option.none) acc.tt (Rng.seedFromU64 seed) acc.polls
        = out at h
      obtain ⟨r, st'⟩ := out
      have h' : st'.tt = acc.tt ∨ ∃ e, st'.tt = acc.tt.insert (Wee.hash ctx.keys root).toNat e := h
      cases r with
      | ok e =>
        simp only []
        obtain ⟨es, hes⟩ := ih { acc with tt := st'.tt, polls := st'.polls, evals := acc.evals ++ [e], sumNodes := acc.sumNodes + st'.nodes }
        rcases h' with h1 | ⟨e1, h1⟩
        · exact ⟨es, by rw [hes]; show insertsAt st'.tt _ _ = _; rw [h1]⟩
        · exact ⟨e1 :: es, by rw [hes]; show insertsAt st'.tt _ _ = _; rw [h1]; rfl⟩
      | error e =>
        cases e with
        | interrupt =>
          simp only []
          rcases h' with h1 | ⟨e1, h1⟩
          · exact ⟨[], by show st'.tt = _; rw [h1]; rfl⟩
          · exact ⟨[e1], by show st'.tt = _; rw [h1]; rfl⟩
        | panic w => exact ⟨[], rfl⟩

/-- after inserts under one key into a table of the shape of a reachable table, that key is found iff it was found
before or something was inserted -/
theorem insertsAt_find (k : Nat) : ∀ (es : List TT.Entry) (tt : TT.Access), TTWf tt → TTWf (insertsAt tt k es) ∧
      (((insertsAt tt k es).find k).isSome = true ↔ ((tt.find k).isSome = true ∨ es ≠ [])) := by
  intro es
  induction es with
  | nil => intro tt hwf; exact ⟨hwf, by show (tt.find k).isSome = true ↔ _ ∨ ([] : List TT.Entry) ≠ []; simp⟩
  | cons e es ih =>
    intro tt hwf
    obtain ⟨i1, i2⟩ := ih (tt.insert k e) (hwf.insert _ _)
    refine ⟨i1, ?_⟩
    show ((insertsAt (tt.insert k e) k es).find k).isSome = true ↔ _
    rw [i2, find_insert_isSome hwf]
    simp


/-! ## 6b. (removed) the former limit of the statement

Until the repair of defect F10 this section proved `no_report_of_big_evals` (a root not in check, an empty table, every
successor with a static evaluation `≥ mate_in_ply(0)` ⇒ `analyze_iterative` with depth limit 1 emits no `BestMove`), used
for the kernel-checked counterexample `C03_no_report_overmaterial`.  Since `Evaluator::evaluate` clamps its heuristic
result to `[NEG_INF + 1, POS_INF - 1]`, the hypothesis "static evaluation from the side to move `≥ mate_in_ply(0)`" is
unsatisfiable (`C06.static_lt`), so the lemmas were deleted together with the counterexample; see
`C03_report_overmaterial_repaired` in `Wee/Props/C03Report.lean`. -/

end Wee.Search

/-! ## 7. the first iteration under an arbitrary schedule of the workers (`Wee/Model/SearchEnv.lean`) -/
namespace Wee.Env
open Wee Wee.Search
open Wee.SearchCtl (Walk InBuffer childArgs entryOf tick bufferOf)

/-! ### node counts of a worker in an environment -/

theorem probeK_nodes_le (env : Env) (ctx : Ctx) (a : NodeArgs) (hash : UInt64) (rec : Option (NodeArgs → ME Eval))
    (B : Nat) (hT : ∀ al be n st, (tailE env ctx a hash al be rec n st).2.1.nodes ≤ st.nodes + B) :
    ∀ (o : Option TT.Entry) (n : Nat) (st : St), (probeK env ctx a hash rec o n st).2.1.nodes ≤ st.nodes + B := by
  intro o n st
  cases o with
  | none => exact hT _ _ n st
  | some e =>
    unfold probeK
    simp only
    by_cases hu : a.maxDepth < a.curDepth ∨ e.maxDepth < e.depth
    · rw [if_pos hu]
      exact Nat.le_add_right _ _
    · rw [if_neg hu]
      split
      · split
        · exact Nat.le_add_right _ _
        · split
          · split
            · exact Nat.le_add_right _ _
            · exact hT _ _ _ _
          · split
            · exact Nat.le_add_right _ _
            · exact hT _ _ _ _
      · exact hT _ _ _ _

theorem nodeBodyE_nodes_le (env : Env) (ctx : Ctx) (a : NodeArgs) (rec : Option (NodeArgs → ME Eval))
    (B : Nat) (hT : ∀ al be n st, (tailE env ctx a (Wee.hash ctx.keys a.s) al be rec n st).2.1.nodes ≤ st.nodes + B)
    (n : Nat) (st : St) : (nodeBodyE env ctx rec a n st).2.1.nodes ≤ st.nodes + 1 + B := by
  rw [nodeBodyE_run]
  have ht := NoPoll.tick_nodes ctx st
  generalize tick ctx st = out at ht
  obtain ⟨r, st1⟩ := out
  have ht' : st1.nodes = st.nodes + 1 := ht
  cases r with
  | error e => show st1.nodes ≤ _; omega
  | ok u =>
    simp only
    split
    · show st1.nodes ≤ _; omega
    · rw [probeE_run]
      have h := probeK_nodes_le env ctx a (Wee.hash ctx.keys a.s) rec B hT
        ((applyInserts st1.tt (env.script n)).find (Wee.hash ctx.keys a.s).toNat) (n + 1)
        { st1 with tt := applyInserts st1.tt (env.script n) }
      generalize probeK env ctx a (Wee.hash ctx.keys a.s) rec
        ((applyInserts st1.tt (env.script n)).find (Wee.hash ctx.keys a.s).toNat) (n + 1)
        { st1 with tt := applyInserts st1.tt (env.script n) } = out2 at h
      obtain ⟨r2, st2, l2⟩ := out2
      have h' : st2.nodes ≤ st1.nodes + B := h
      show st2.nodes ≤ _
      omega

/-- a worker call with remaining depth 0 counts at most one node -/
theorem searchNodeE0_nodes_le (env : Env) (ctx : Ctx) (a : NodeArgs) (n : Nat) (st : St) :
    (searchNodeE env ctx 0 a n st).2.1.nodes ≤ st.nodes + 1 := by
  rw [searchNodeE_zero]
  refine nodeBodyE_nodes_le env ctx a Option.none 0 (fun al be n' st' => ?_) n st
  rw [tailE_none_run]
  exact Nat.le_refl _

theorem childLoopE_leaf_count (env : Env) (ctx : Ctx) (a : NodeArgs) (hash : UInt64) :
    ∀ (buf : List Move) (alpha : Eval) (best : Option Move) (kind : Nat) (n : Nat) (st : St),
      (childLoopE env ctx (searchNodeE env ctx 0) a hash buf alpha best kind n st).2.1.nodes ≤
        st.nodes + buf.countP (NoPoll.accepted a.s) := by
  intro buf
  induction buf with
  | nil => intro alpha best kind n st; rw [childLoopE_nil_run]; exact Nat.le_add_right _ _
  | cons mv rest ih =>
    intro alpha best kind n st
    rw [childLoopE_cons_run, List.countP_cons]
    cases ht : tryAsLegal a.s mv with
    | none => exact Nat.le_add_right _ _
    | some o =>
      cases o with
      | none =>
        have := ih alpha best kind n st
        simp only []
        omega
      | some r =>
        obtain ⟨m, next⟩ := r
        have hacc : NoPoll.accepted a.s mv = true := by unfold NoPoll.accepted; rw [ht]
        rw [hacc]
        simp only [if_true]
        have h1 := searchNodeE0_nodes_le env ctx (childArgs a next alpha) n st
        generalize searchNodeE env ctx 0 (childArgs a next alpha) n st = out at h1
        obtain ⟨res, st', l1⟩ := out
        have h1' : st'.nodes ≤ st.nodes + 1 := h1
        cases res with
        | error e => show st'.nodes ≤ _; omega
        | ok v =>
          simp only []
          split
          · show st'.nodes ≤ _; omega
          · split
            · have := ih (-v) (some m) kindExact (n + l1.length) st'
              generalize childLoopE env ctx (searchNodeE env ctx 0) a hash rest (-v) (some m) kindExact (n + l1.length) st'
                = out2 at this
              obtain ⟨r2, st2, l2⟩ := out2
              have h2 : st2.nodes ≤ st'.nodes + rest.countP (NoPoll.accepted a.s) := this
              show st2.nodes ≤ _
              omega
            · have := ih alpha best kind (n + l1.length) st'
              generalize childLoopE env ctx (searchNodeE env ctx 0) a hash rest alpha best kind (n + l1.length) st'
                = out2 at this
              obtain ⟨r2, st2, l2⟩ := out2
              have h2 : st2.nodes ≤ st'.nodes + rest.countP (NoPoll.accepted a.s) := this
              show st2.nodes ≤ _
              omega

/-- **the root call of the first iteration in ANY environment** counts at most one node for itself and one per legal
move (the count does not depend on what the other workers write) -/
theorem root1E_nodes (env : Env) (ctx : Ctx) (a : NodeArgs) (ha : a.prioritized = Option.none)
    (L : List (Move × State)) (hL : legalMoves? a.s = some L) (n : Nat) (st : St) :
    (searchNodeE env ctx 1 a n st).2.1.nodes ≤ st.nodes + 1 + L.length := by
  obtain ⟨ps, hps, rs, hrs, hLe⟩ : ∃ ps, pseudoLegalMoves a.s = some ps ∧ ∃ rs, ps.mapM (tryAsLegal a.s) = some rs ∧
      L = rs.filterMap id := by
    unfold legalMoves? at hL
    cases hps : pseudoLegalMoves a.s with
    | none => rw [hps] at hL; cases hL
    | some ps =>
      rw [hps] at hL
      simp only [Option.bind_eq_bind, Option.bind_some, Option.pure_def] at hL
      cases hrs : ps.mapM (tryAsLegal a.s) with
      | none => rw [hrs] at hL; simp at hL
      | some rs =>
        rw [hrs] at hL
        simp only [Option.bind_some, Option.some.injEq] at hL
        exact ⟨ps, rfl, rs, hrs, hL.symm⟩
  have hcount : ps.countP (NoPoll.accepted a.s) = L.length := by rw [hLe]; exact NoPoll.count_accepted a.s ps rs hrs
  rw [searchNodeE_succ]
  refine nodeBodyE_nodes_le env ctx a _ L.length (fun al be n' st' => ?_) n st
  obtain ⟨sorted, rg, hs, hperm⟩ := SearchCtl.sort_rngOnly a.s ps st'
  rw [tailE_some_run env ctx _ a _ al be n' st' ps sorted _ hps hs]
  have hbuf : bufferOf a.prioritized sorted = sorted := by rw [ha]; rfl
  rw [hbuf]
  have h1 := childLoopE_leaf_count env ctx { a with alpha := al, beta := be } (Wee.hash ctx.keys a.s) sorted.reverse al
    Option.none kindUpper n' { st' with rng := rg }
  have hc : sorted.reverse.countP (NoPoll.accepted a.s) = L.length := by
    rw [List.countP_reverse, hperm.countP_eq, hcount]
  rw [show ({ a with alpha := al, beta := be } : NodeArgs).s = a.s from rfl, hc] at h1
  generalize childLoopE env ctx (searchNodeE env ctx 0) { a with alpha := al, beta := be } (Wee.hash ctx.keys a.s)
    sorted.reverse al Option.none kindUpper n' { st' with rng := rg } = out2 at h1
  obtain ⟨r2, st2, l2⟩ := out2
  have h1' : st2.nodes ≤ st'.nodes + L.length := h1
  cases r2 with
  | error e => exact h1'
  | ok x =>
    cases x with
    | error b => exact h1'
    | ok y =>
      obtain ⟨alpha', best, kind⟩ := y
      simp only []
      split
      · cases evaluate a.s a.s.turn a.curDepth <;> exact h1'
      · cases best <;> exact h1'

/-- a worker call that is interrupted has counted at least `pollInterval` nodes, in any environment -/
theorem searchNodeE_interrupt_nodes (env : Env) (ctx : Ctx) (rem : Nat) (a : NodeArgs) (n : Nat) (st : St)
    (h : (searchNodeE env ctx rem a n st).1 = .error .interrupt) :
    Gen.pollInterval ≤ (searchNodeE env ctx rem a n st).2.1.nodes := by
  have hw := searchNodeE_walk (env := env)
    (V := { I := fun _ => True, J := fun st => Gen.pollInterval ≤ st.nodes, A := fun _ => True, G := fun _ _ => True })
    (N := fun _ _ => True) (interrupt_walk ctx) (fun _ _ h => h) (fun _ _ _ _ _ _ _ _ _ _ _ _ _ => trivial)
    rem a trivial n st trivial
  generalize searchNodeE env ctx rem a n st = out at h hw
  obtain ⟨r, st', l⟩ := out
  cases h
  exact hw.2.1

/-! ### the guarantee: a worker of the first iteration only inserts under the root's key -/

/-- node predicate of the first iteration: remaining depth 0, or the root call with remaining depth 1 -/
def FirstN (root : State) (rem : Nat) (a : NodeArgs) : Prop := rem = 0 ∨ (rem = 1 ∧ a.s = root)

theorem first_walk (ctx : Ctx) (root : State) :
    Walk ctx (fun _ => True) (fun _ => True) (FirstN root) (fun _ => True) where
  tick := by
    intro st _
    rw [SearchCtl.tick_eq]
    split
    · split
      · exact ⟨trivial, trivial⟩
      · trivial
    · trivial
  rng := fun _ _ h => h
  underflow := fun _ _ _ _ _ _ _ _ => trivial
  leaf := fun _ _ _ _ _ _ => trivial
  pseudo := fun _ _ _ _ => trivial
  legal := fun _ _ _ _ _ _ _ _ => trivial
  eval := fun _ _ _ _ => trivial
  window := fun _ _ _ _ h => h
  child := by
    intro rem a _ _ _ _ _ h _ _ _
    rcases h with h | ⟨h, _⟩
    · cases h
    · exact Or.inl (by omega)
  insert := fun _ _ _ _ _ _ _ _ _ _ _ _ _ _ _ => trivial

/-- **`C03_first_iteration_only_root_inserts`, any environment**: whatever the other workers write and whatever the reads
return, a worker with `search_depth = 1` only inserts under the root's key -/
theorem runWorkerE_rootkey (env : Env) (ctx : Ctx) (root : State) (w : Worker) (tt : TT.Access)
    (hsd : w.searchDepth = 1) :
    LogOK (fun k _ => k = (Wee.hash ctx.keys root).toNat) (runWorkerE env ctx root w tt).2.2 := by
  rw [runWorkerE_eq, hsd]
  have h := searchNodeE_walk (env := env)
    (V := Spec.inv (fun _ => True) (fun k _ => k = (Wee.hash ctx.keys root).toNat)) (N := FirstN root)
    (first_walk ctx root) (fun _ _ h => h)
    (by
      intro rem a _ _ _ _ _ _ hN _ _ _ _
      rcases hN with h | ⟨_, h⟩
      · cases h
      · show (Wee.hash ctx.keys a.s).toNat = _
        rw [h])
    1 (rootArgsE root w) (Or.inr ⟨rfl, rfl⟩) 0 { tt, rng := w.rng, nodes := 0, polls := w.polls } trivial
  exact h.log


/-! ### the shared table after the first iteration -/

theorem joinOf_interrupted {ctx : Ctx} {root : State} {tt : TT.Access} {ws : List Worker} {H : History} {polls : Nat}
    (hp : (joinOf ctx root tt ws H polls).interrupted = true) :
    ∃ i, ∃ h : i < ws.length, outcomeOf ctx root tt ws[i] H i = .error .interrupt := by
  unfold joinOf at hp
  simp only at hp
  obtain ⟨o, ho, hoe⟩ := List.any_eq_true.1 hp
  obtain ⟨i, h, rfl⟩ := mem_joinOuts ho
  refine ⟨i, h, ?_⟩
  unfold outcomeOf
  cases hr : (runWorkerE (envOf H i) ctx root ws[i] tt).1 with
  | ok v => rw [hr] at hoe; cases hoe
  | error err =>
    rw [hr] at hoe
    cases err with
    | interrupt => rfl
    | panic w => cases hoe

/-- if all inserts of a history go under the key `rk`, then `rk` is found in the final table as soon as it was found in
the initial one or the history contains an insert -/
theorem table_rootkey (rk : Nat) : ∀ (H : History) (tt : TT.Access), TTWf tt →
    (∀ p ∈ H, ∀ k e, p.2 = TOp.insert k e → k = rk) →
    ((tt.find rk).isSome = true ∨ ∃ p ∈ H, ∃ k e, p.2 = TOp.insert k e) →
    ((History.table tt H).find rk).isSome = true := by
  intro H
  induction H with
  | nil =>
    intro tt _ _ h
    rcases h with h | ⟨p, hp, _⟩
    · exact h
    · cases hp
  | cons q rest ih =>
    intro tt hwf hkeys h
    obtain ⟨j, op⟩ := q
    rw [table_cons]
    have hrest : ∀ p ∈ rest, ∀ k e, p.2 = TOp.insert k e → k = rk := fun p hp => hkeys p (List.mem_cons_of_mem _ hp)
    cases op with
    | find k r =>
      refine ih tt hwf hrest ?_
      rcases h with h | ⟨p, hp, k', e', he⟩
      · exact Or.inl h
      · rcases List.mem_cons.1 hp with rfl | hp
        · cases he
        · exact Or.inr ⟨p, hp, k', e', he⟩
    | insert k e =>
      have hk : k = rk := hkeys _ List.mem_cons_self k e rfl
      subst hk
      exact ih _ (hwf.insert _ _) hrest (Or.inl (find_insert_isSome hwf _ _))

theorem replay_empty_no_insert : ∀ (l : List TOp) (n : Nat) (tt tt' : TT.Access), Replay Env.empty n tt l tt' →
    (∀ k e, TOp.insert k e ∉ l) → tt' = tt := by
  intro l
  induction l with
  | nil => intro n tt tt' h _; exact h
  | cons op rest ih =>
    intro n tt tt' h hno
    cases op with
    | find k r =>
      exact ih (n + 1) tt tt' h.2 (fun k e hm => hno k e (List.mem_cons_of_mem _ hm))
    | insert k e => exact absurd List.mem_cons_self (hno k e)

/-- a history without inserts induces the empty environment for every worker -/
theorem envOf_eq_empty {H : History} (hno : ∀ p ∈ H, ∀ k e, p.2 ≠ TOp.insert k e) (i : Nat) : envOf H i = Env.empty := by
  have hs : (envOf H i).script = fun _ => [] := by
    funext j
    apply List.eq_nil_iff_forall_not_mem.2
    intro p hp
    obtain ⟨j', _, hmem⟩ := envOf_mem hp
    exact hno _ hmem p.1 p.2 rfl
  show (⟨(envOf H i).script⟩ : Env) = ⟨fun _ => []⟩
  rw [hs]

theorem mem_workersOfIteration_first {seeds : List UInt64} {pollsOf : Nat → Nat} {w : Worker}
    (hw : w ∈ workersOfIteration 0 Option.none seeds pollsOf) : w.searchDepth = 1 ∧ w.best = Option.none := by
  unfold workersOfIteration at hw
  obtain ⟨p, _, rfl⟩ := List.mem_map.1 hw
  exact ⟨first_searchDepth p.1, first_best p.1⟩

theorem workersOfIteration_length (depth : Nat) (bestMv : Option Move) (seeds : List UInt64) (pollsOf : Nat → Nat) :
    (workersOfIteration depth bestMv seeds pollsOf).length = seeds.length := by
  unfold workersOfIteration
  rw [List.length_map, List.length_zip, List.length_range, Nat.min_self]

/-- **the first iteration under ANY schedule reports.**  `R` a region with `EvalBelowMate`, keys collision-free on it, the
root in it with at least one and fewer than `pollInterval - 1` legal moves and its key in the history (as
`analyze_iterative` arranges); a loop state without remembered best move whose table satisfies `FirstI` and `TTInv`; at
least one worker.  Then EVERY outcome `st'` of the first iteration — the workers raced in an arbitrary interleaving of
their atomic table operations, any poll offsets — carries a `BestMove` report and no panic. -/
theorem stepS_first_reports {R : State → Prop} (hR : Region R) (hE : EvalBelowMate R) (ctx : Ctx) (root : State)
    (hroot : R root) (hmoves : legalMoves root ≠ []) (hfew : (legalMoves root).length + 1 < Gen.pollInterval)
    (hcf : CollisionFree ctx.keys R) (nT nB : Nat) (hT : 0 < nT) (hB : 0 < nB)
    (hhist : ctx.history.contains (Wee.hash ctx.keys root) = true) (workers : Nat) (hw : 0 < workers)
    (st st' : IterSt) (hbest : st.bestMv = Option.none) (hI0 : FirstI ctx root nT nB st.tt)
    (htinv : TTInv ctx.keys R st.tt) (hs : StepS ctx root (Wee.hash ctx.keys root) workers 0 st st') :
    st'.panic = st.panic ∧ ∃ ev line, Event.best ev line ∈ st'.events := by
  obtain ⟨pollsOf, started, H, polls', hsub, hall, hI, rfl⟩ := hs
  rw [hbest] at hsub hall
  obtain ⟨hl, hdj⟩ := hR.good _ hroot
  obtain ⟨L, hL⟩ := (C01_legal_results root hl hdj).1
  have hLe : legalMoves root = L := by unfold legalMoves; rw [hL]; rfl
  rw [hLe] at hfew
  have hwk : ∀ w ∈ started, w.searchDepth = 1 ∧ w.best = Option.none :=
    fun w hw' => mem_workersOfIteration_first (hsub.subset hw')
  -- no worker panics
  have hsafe := interleaving_safe ctx root nT nB hT hB hhist ⟨hl, hdj⟩ st.tt hI0.1 started
    (fun w hw' m hm => by rw [(hwk w hw').2] at hm; cases hm) H hI
  have hnp : (joinOf ctx root st.tt started H polls').panic = Option.none := by
    cases hp : (joinOf ctx root st.tt started H polls').panic with
    | none => rfl
    | some why =>
      obtain ⟨i, h, he⟩ := joinOf_panic hp
      exact absurd he (hsafe.1 i h why)
  -- no worker is interrupted
  have hni : (joinOf ctx root st.tt started H polls').interrupted = false := by
    cases hi : (joinOf ctx root st.tt started H polls').interrupted with
    | false => rfl
    | true =>
      exfalso
      obtain ⟨i, h, he⟩ := joinOf_interrupted hi
      obtain ⟨hsd, hb⟩ := hwk _ (List.getElem_mem h)
      unfold outcomeOf at he
      rw [runWorkerE_eq, hsd] at he
      have h1 := searchNodeE_interrupt_nodes _ ctx 1 _ 0 _ he
      have h2 := root1E_nodes (envOf H i) ctx (rootArgsE root started[i]) hb L hL 0
        { tt := st.tt, rng := started[i].rng, nodes := 0, polls := started[i].polls }
      have h2' : (searchNodeE (envOf H i) ctx 1 (rootArgsE root started[i]) 0
        { tt := st.tt, rng := started[i].rng, nodes := 0, polls := started[i].polls }).2.1.nodes ≤ 0 + 1 + L.length := h2
      omega
  -- so all workers were started, and there is at least one
  have hstarted := hall hni hnp
  have hlen : started.length = workers := by
    rw [hstarted, workersOfIteration_length, drawSeeds_length]
  -- all inserts go under the root's key
  have hkeys : ∀ p ∈ H, ∀ k e, p.2 = TOp.insert k e → k = (Wee.hash ctx.keys root).toNat :=
    interleaving_guarantee (fun k _ => k = (Wee.hash ctx.keys root).toNat)
      (fun i h env _ => runWorkerE_rootkey env ctx root started[i] st.tt (hwk _ (List.getElem_mem h)).1) hI
  -- the root's key is in the final table
  have hwf : TTWf st.tt := ⟨nT, nB, hT, hB, hI0.1.2.1⟩
  have hfind : ((History.table st.tt H).find (Wee.hash ctx.keys root).toNat).isSome = true := by
    apply Classical.byContradiction
    intro hnot
    have hno : ¬ ((st.tt.find (Wee.hash ctx.keys root).toNat).isSome = true ∨ ∃ p ∈ H, ∃ k e, p.2 = TOp.insert k e) :=
      fun h => hnot (table_rootkey _ H st.tt hwf hkeys h)
    have hno1 : ¬ (st.tt.find (Wee.hash ctx.keys root).toNat).isSome = true := fun h => hno (Or.inl h)
    have hno2 : ∀ p ∈ H, ∀ k e, p.2 ≠ TOp.insert k e := fun p hp k e he => hno (Or.inr ⟨p, hp, k, e, he⟩)
    -- worker 0 runs as if alone
    have h0 : 0 < started.length := by omega
    obtain ⟨hsd, hb⟩ := hwk _ (List.getElem_mem h0)
    have hlog := hI.2 0 h0
    rw [envOf_eq_empty hno2 0] at hlog
    have hrep := runWorkerE_replay Env.empty ctx root started[0] st.tt
    have hnoins : ∀ k e, TOp.insert k e ∉ (runWorkerE Env.empty ctx root started[0] st.tt).2.2 := by
      intro k e hm
      rw [hlog] at hm
      unfold History.proj at hm
      obtain ⟨p, hp, he⟩ := List.mem_map.1 hm
      exact hno2 p (List.mem_filter.1 hp).1 k e he
    have htt := replay_empty_no_insert _ 0 _ _ hrep hnoins
    have hseq := runWorkerE_empty ctx root started[0] st.tt
    rw [hsd, hb] at hseq
    have hfw := firstWorker_run hR hE ctx root hroot hmoves L hL hfew nT nB hT hB hhist st.tt started[0].rng
      started[0].polls hI0
    rw [← hseq] at hfw
    have := hfw.2.2.1
    rw [show (runWorkerE Env.empty ctx root started[0] st.tt).2.1.tt = st.tt from htt] at this
    exact hno1 this
  -- the table invariant of C03 for the final table
  have hup : ∀ s, upTo (fun _ => R) 1 s ↔ R s := upTo_const 1
  have hleg := interleaving_legal hR.graded 1 ctx (hcf.congr (fun s hs => (hup s).1 hs)) root hroot st.tt
    ⟨hwf, htinv.congr (fun s hs => (hup s).1 hs)⟩ started
    (fun w hw' => ⟨by rw [(hwk w hw').1]; exact Nat.le_refl _, fun m hm => by rw [(hwk w hw').2] at hm; cases hm⟩) H hI
  have htab : TTInv ctx.keys R (History.table st.tt H) := by
    have := (hleg.2 H.length).2
    rw [take_all_table] at this
    exact this.congr (fun s hs => (hup s).2 hs)
  -- the report
  cases hfe : (History.table st.tt H).find (Wee.hash ctx.keys root).toNat with
  | none => rw [hfe] at hfind; cases hfind
  | some e =>
    have hne := walkLine_ne_nil htab 0 root hroot e hfe
    unfold finishStep
    rw [hnp]
    dsimp only
    rw [hni]
    simp only [Bool.not_false, ↓reduceIte]
    have hemp : (walkLine ctx.keys (joinOf ctx root st.tt started H polls').tt (0 + 1) root).isEmpty = false := by
      rw [joinOf_tt]
      cases hwl : walkLine ctx.keys (History.table st.tt H) (0 + 1) root with
      | nil => exact absurd hwl hne
      | cons _ _ => rfl
    rw [hemp]
    simp only [Bool.false_eq_true, ↓reduceIte]
    exact ⟨trivial, _, _, List.mem_append_right _ (List.mem_singleton.2 rfl)⟩


/-! ### the whole search under arbitrary schedules -/

theorem finishStep_events_mono (ctx : Ctx) (root : State) (rootHash : UInt64) (depth : Nat) (rng : Rng.ChaCha8)
    (w : WorkersOut) (st : IterSt) : ∀ ev ∈ st.events, ev ∈ (finishStep ctx root rootHash depth rng w st).events := by
  intro ev hev
  unfold finishStep
  split
  · exact hev
  · split
    · dsimp only
      split
      · exact List.mem_append_left _ hev
      · exact List.mem_append_left _ (List.mem_append_left _ hev)
    · dsimp only
      split
      · split
        · split
          · exact hev
          · exact List.mem_append_left _ hev
        · exact hev
      · exact hev

theorem loopS_events_mono {ctx : Ctx} {root : State} {rootHash : UInt64} {workersOf : Nat → Nat} {n depth : Nat}
    {st st' : IterSt} (hl : LoopS ctx root rootHash workersOf n depth st st') : ∀ ev ∈ st.events, ev ∈ st'.events := by
  induction hl with
  | done depth st => exact fun _ h => h
  | finished n depth st _ => exact fun _ h => h
  | stopped n depth st p _ _ => exact fun _ h => by rw [boundaryPoll_events]; exact h
  | step n depth st st1 st2 p _ _ hs _ ih =>
    intro ev hev
    obtain ⟨pollsOf, started, H, polls', _, _, _, rfl⟩ := hs
    exact ih ev (finishStep_events_mono _ _ _ _ _ _ _ ev (by rw [boundaryPoll_events]; exact hev))

/-- **every outcome of the search under arbitrary schedules reports at least once** (the events of the final loop state) -/
theorem loopS_first_reports {R : State → Prop} (hR : Region R) (hE : EvalBelowMate R) (ctx : Ctx) (root : State)
    (hroot : R root) (hmoves : legalMoves root ≠ []) (hfew : (legalMoves root).length + 1 < Gen.pollInterval)
    (hcf : CollisionFree ctx.keys R) (nT nB : Nat) (hT : 0 < nT) (hB : 0 < nB)
    (hhist : ctx.history.contains (Wee.hash ctx.keys root) = true) (workersOf : Nat → Nat) (hw : 0 < workersOf 0)
    (n : Nat) (st st' : IterSt) (hfin : st.finished = false) (hbest : st.bestMv = Option.none)
    (hI0 : FirstI ctx root nT nB st.tt) (htinv : TTInv ctx.keys R st.tt)
    (hl : LoopS ctx root (Wee.hash ctx.keys root) workersOf (n + 1) 0 st st') :
    ∃ ev line, Event.best ev line ∈ st'.events := by
  cases hl with
  | finished _ _ _ hf => rw [hfin] at hf; cases hf
  | stopped _ _ _ p _ hb =>
    -- the flag is not read before the first iteration
    rw [boundaryPoll_zero] at hb; rw [hfin] at hb; cases hb
  | step _ _ _ st1 _ p _ _ hs hrest =>
    rw [boundaryPoll_zero] at hs
    obtain ⟨_, ev, line, hmem⟩ := stepS_first_reports hR hE ctx root hroot hmoves hfew hcf nT nB hT hB hhist (workersOf 0) hw
      { st with polls := p } st1 hbest hI0 htinv hs
    exact ⟨ev, line, loopS_events_mono hrest _ hmem⟩

end Wee.Env

/-! ## 8. the evaluation range in an environment (rely: every foreign insert stores a value strictly inside the window) -/
namespace Wee.Env
open Wee Wee.Search
open Wee.SearchCtl (Walk InBuffer childArgs entryOf tick bufferOf)

/-- the admissible inserts of the evaluation range -/
def InsIn (_ : Nat) (e : TT.Entry) : Prop := Inside e.eval

theorem evalIn_applyInserts {env : Env} (hrely : ∀ j, ∀ p ∈ env.script j, InsIn p.1 p.2) (tt : TT.Access)
    (h : EvalIn tt) (j : Nat) : EvalIn (applyInserts tt (env.script j)) :=
  applyInserts_inv (P := EvalIn) (Adm := InsIn) (fun _ k e h he => h.insert k e he) _ tt h (hrely j)

theorem logOK_single {G : Nat → TT.Entry → Prop} {k : Nat} {e : TT.Entry} (h : G k e) : LogOK G [TOp.insert k e] := by
  intro k' e' hm
  simp only [List.mem_singleton, TOp.insert.injEq] at hm
  obtain ⟨rfl, rfl⟩ := hm
  exact h

theorem logOK_find {G : Nat → TT.Entry → Prop} {k : Nat} {r : Option TT.Entry} {l : List TOp} (h : LogOK G l) :
    LogOK G (TOp.find k r :: l) := by
  intro k' e' hm
  rcases List.mem_cons.1 hm with h' | h'
  · cases h'
  · exact h k' e' h'

/-- what a worker call guarantees in the environment -/
def ChildInE (child : NodeArgs → ME Eval) (a' : NodeArgs) : Prop :=
  ∀ n st, EvalIn st.tt → EvalIn (child a' n st).2.1.tt ∧ LogOK InsIn (child a' n st).2.2 ∧
    ∀ v, (child a' n st).1 = .ok v → Inside v

theorem childLoopE_inside (env : Env) (hrely : ∀ j, ∀ p ∈ env.script j, InsIn p.1 p.2) (ctx : Ctx)
    (child : NodeArgs → ME Eval) (a : NodeArgs) (hash : UInt64) (hb1 : -M0 < a.beta) (hb2 : a.beta ≤ M0) :
    ∀ (buf : List Move), (∀ mv ∈ buf, ∀ m next alpha, tryAsLegal a.s mv = some (some (m, next)) → -M0 ≤ alpha →
        alpha < M0 → ChildInE child (childArgs a next alpha)) →
      ∀ (alpha : Eval) (best : Option Move) (kind : Nat) (n : Nat) (st : St),
      EvalIn st.tt → -M0 ≤ alpha → alpha < M0 →
      EvalIn (childLoopE env ctx child a hash buf alpha best kind n st).2.1.tt ∧
      LogOK InsIn (childLoopE env ctx child a hash buf alpha best kind n st).2.2 ∧
      (∀ b, (childLoopE env ctx child a hash buf alpha best kind n st).1 = .ok (.error b) → Inside b) ∧
      (∀ al' b' k', (childLoopE env ctx child a hash buf alpha best kind n st).1 = .ok (.ok (al', b', k')) →
        -M0 ≤ al' ∧ al' < M0 ∧ (-M0 < alpha → -M0 < al') ∧
        (-M0 < al' ∨ (childLoopE env ctx child a hash buf alpha best kind n st).2.1.nodes = st.nodes) ∧
        ((al' = alpha ∧ b' = best) ∨ (b'.isSome = true ∧ alpha < al'))) := by
  intro buf
  induction buf with
  | nil =>
    intro _ alpha best kind n st hI h1 h2
    rw [childLoopE_nil_run]
    refine ⟨hI, LogOK.nil, (fun b h => nomatch h), fun al' b' k' h => ?_⟩
    cases h
    exact ⟨h1, h2, fun h => h, Or.inr rfl, Or.inl ⟨rfl, rfl⟩⟩
  | cons mv rest ih0 =>
    intro hchild alpha best kind n st hI h1 h2
    have ih := ih0 (fun mv' h' => hchild mv' (List.mem_cons_of_mem _ h'))
    rw [childLoopE_cons_run]
    cases ht : tryAsLegal a.s mv with
    | none =>
      simp only []
      exact ⟨hI, LogOK.nil, (fun b h => nomatch h), (fun al' b' k' h => nomatch h)⟩
    | some o =>
      cases o with
      | none => exact ih alpha best kind n st hI h1 h2
      | some r =>
        obtain ⟨m, next⟩ := r
        simp only []
        obtain ⟨c1, c2, c3⟩ := hchild mv List.mem_cons_self m next alpha ht h1 h2 n st hI
        generalize child (childArgs a next alpha) n st = out at c1 c2 c3
        obtain ⟨res, st', l1⟩ := out
        cases res with
        | error e => exact ⟨c1, c2, (fun b h => nomatch h), (fun al' b' k' h => nomatch h)⟩
        | ok v =>
          obtain ⟨v1, v2⟩ := c3 v rfl
          simp only []
          by_cases g1 : -v ≥ a.beta
          · rw [if_pos g1]
            have hin : Inside a.beta := ⟨hb1, by unfold Eval at *; omega⟩
            refine ⟨EvalIn.insert (evalIn_applyInserts hrely _ c1 _) _ _ hin, c2.append (logOK_single hin),
              fun b h => ?_, (fun al' b' k' h => nomatch h)⟩
            cases h
            exact hin
          · rw [if_neg g1]
            by_cases g2 : -v > alpha
            · rw [if_pos g2]
              obtain ⟨i1, i2, i3, i4⟩ := ih (-v) (some m) kindExact (n + l1.length) st' c1 (by unfold Eval at *; omega)
                (by unfold Eval at *; omega)
              generalize childLoopE env ctx child a hash rest (-v) (some m) kindExact (n + l1.length) st' = out2
                at i1 i2 i3 i4
              obtain ⟨r2, st2, l2⟩ := out2
              refine ⟨i1, c2.append i2, i3, fun al' b' k' h => ?_⟩
              obtain ⟨j1, j2, j3, _, j5⟩ := i4 al' b' k' h
              have hgt : -M0 < al' := j3 (by unfold Eval at *; omega)
              refine ⟨j1, j2, fun _ => hgt, Or.inl hgt, Or.inr ?_⟩
              rcases j5 with ⟨e1, e2⟩ | ⟨e1, e2⟩
              · subst e1 e2; exact ⟨rfl, g2⟩
              · exact ⟨e1, by unfold Eval at *; omega⟩
            · rw [if_neg g2]
              obtain ⟨i1, i2, i3, i4⟩ := ih alpha best kind (n + l1.length) st' c1 h1 h2
              generalize childLoopE env ctx child a hash rest alpha best kind (n + l1.length) st' = out2 at i1 i2 i3 i4
              obtain ⟨r2, st2, l2⟩ := out2
              refine ⟨i1, c2.append i2, i3, fun al' b' k' h => ?_⟩
              obtain ⟨j1, j2, j3, _, j5⟩ := i4 al' b' k' h
              have hgt : -M0 < al' := j3 (by unfold Eval at *; omega)
              exact ⟨j1, j2, fun _ => hgt, Or.inl hgt, j5⟩

/-- the continuation after the probe: quiescence (`rec = none`) or the expansion (`rec = some child`) -/
theorem tailE_inside {R : State → Prop} (hR : Region R) (hE : EvalBelowMate R) (env : Env)
    (hrely : ∀ j, ∀ p ∈ env.script j, InsIn p.1 p.2) (ctx : Ctx) (a : NodeArgs) (hash : UInt64) (alpha beta : Eval)
    (rec : Option (NodeArgs → ME Eval)) (ha : R a.s) (hw : WinOK alpha beta) (hd : a.curDepth + 70 < 2^31)
    (hprio : ∀ m, a.prioritized = some m → LegalIn a.s m)
    (hchild : ∀ child, rec = some child → ∀ next al, (∃ m, (m, next) ∈ legalMoves a.s) → -M0 ≤ al → al < M0 →
      ChildInE child (childArgs { a with alpha := alpha, beta := beta } next al))
    (n : Nat) (st : St) (hst : EvalIn st.tt) :
    EvalIn (tailE env ctx a hash alpha beta rec n st).2.1.tt ∧ LogOK InsIn (tailE env ctx a hash alpha beta rec n st).2.2 ∧
    ∀ v, (tailE env ctx a hash alpha beta rec n st).1 = .ok v → 1 ≤ a.curDepth → Inside v := by
  obtain ⟨w1, w2, w3, w4⟩ := hw
  cases rec with
  | none =>
    rw [tailE_none_run]
    refine ⟨hst, LogOK.nil, fun v h hdeep => ?_⟩
    cases hq : quiesce evaluate (quiesceFuel a.s) a.s a.curDepth alpha beta with
    | error e => rw [hq] at h; cases h
    | ok v' =>
      rw [hq] at h
      cases h
      refine quiesce_bound hR hE _ a.s a.curDepth alpha beta ha hdeep ?_ w1 w2 w3 w4 _ hq
      have := popcount_le a.s.pieces.occ
      unfold quiesceFuel
      omega
  | some child =>
    obtain ⟨hl, hdj⟩ := hR.good _ ha
    obtain ⟨L, hL⟩ := (C01_legal_results a.s hl hdj).1
    cases hp : pseudoLegalMoves a.s with
    | none =>
      have : tailE env ctx a hash alpha beta (some child) n st =
          (.error (.panic "move generation: Square::offset(..).unwrap()"), st, []) := by
        unfold tailE; rw [hp]; rfl
      rw [this]
      exact ⟨hst, LogOK.nil, fun v h => nomatch h⟩
    | some pseudo =>
      obtain ⟨sorted, r, hs, hperm⟩ := SearchCtl.sort_rngOnly a.s pseudo st
      rw [tailE_some_run env ctx child a hash alpha beta n st pseudo sorted _ hp hs]
      have hbuf := buffer_legal hL hprio hp hperm
      have hloop := childLoopE_inside env hrely ctx child { a with alpha := alpha, beta := beta } hash w3 w4
        (bufferOf a.prioritized sorted).reverse
        (fun mv hmv m next al ht h1 h2 => hchild child rfl next al ⟨m, hbuf mv hmv (m, next) ht⟩ h1 h2)
        alpha Option.none kindUpper n { st with rng := r } hst w1 w2
      generalize childLoopE env ctx child { a with alpha := alpha, beta := beta } hash
        (bufferOf a.prioritized sorted).reverse alpha Option.none kindUpper n { st with rng := r } = out at hloop
      obtain ⟨r2, st2, l⟩ := out
      obtain ⟨l1, l2, l3, l4⟩ := hloop
      cases r2 with
      | error e => exact ⟨l1, l2, fun v h => nomatch h⟩
      | ok x =>
        cases x with
        | error b =>
          refine ⟨l1, l2, fun v h _ => ?_⟩
          cases h
          exact l3 b rfl
        | ok y =>
          obtain ⟨alpha', best, kind⟩ := y
          obtain ⟨j1, j2, _, j4, j5⟩ := l4 alpha' best kind rfl
          simp only []
          by_cases hn : (st2.nodes == st.nodes) = true
          · rw [if_pos hn]
            cases he : evaluate a.s a.s.turn a.curDepth with
            | none => exact ⟨l1, l2, fun v h => nomatch h⟩
            | some e =>
              refine ⟨l1, l2, fun v h hdeep => ?_⟩
              cases h
              exact hE a.s ha a.s.turn a.curDepth _ hdeep (by omega) he
          · rw [if_neg hn]
            have hgt : -M0 < alpha' := by
              rcases j4 with h | h
              · exact h
              · exfalso
                have h' : st2.nodes = st.nodes := h
                rw [h'] at hn
                simp at hn
            have hin : Inside alpha' := ⟨hgt, j2⟩
            cases best with
            | none =>
              refine ⟨l1, l2, fun v h _ => ?_⟩
              cases h
              exact hin
            | some m =>
              refine ⟨EvalIn.insert (evalIn_applyInserts hrely _ l1 _) _ _ hin, l2.append (logOK_single hin),
                fun v h _ => ?_⟩
              cases h
              exact hin

theorem probeK_inside (env : Env) (ctx : Ctx) (a : NodeArgs) (hash : UInt64) (rec : Option (NodeArgs → ME Eval))
    (P : Prop) (hw : WinOK a.alpha a.beta)
    (hT : ∀ al be n st, WinOK al be → EvalIn st.tt → EvalIn (tailE env ctx a hash al be rec n st).2.1.tt ∧
      LogOK InsIn (tailE env ctx a hash al be rec n st).2.2 ∧
      ∀ v, (tailE env ctx a hash al be rec n st).1 = .ok v → P → Inside v)
    (o : Option TT.Entry) (ho : ∀ e, o = some e → Inside e.eval) (n : Nat) (st : St) (hst : EvalIn st.tt) :
    EvalIn (probeK env ctx a hash rec o n st).2.1.tt ∧ LogOK InsIn (probeK env ctx a hash rec o n st).2.2 ∧
    ∀ v, (probeK env ctx a hash rec o n st).1 = .ok v → P → Inside v := by
  cases o with
  | none => exact hT _ _ n st hw hst
  | some e =>
    obtain ⟨e1, e2⟩ := ho e rfl
    obtain ⟨w1, w2, w3, w4⟩ := hw
    have hpure : ∀ (n : Nat) (st : St), EvalIn st.tt →
        EvalIn ((pure e.eval : ME Eval) n st).2.1.tt ∧ LogOK InsIn ((pure e.eval : ME Eval) n st).2.2 ∧
        ∀ v, ((pure e.eval : ME Eval) n st).1 = .ok v → P → Inside v := by
      intro n st hst
      refine ⟨hst, LogOK.nil, fun v h _ => ?_⟩
      cases h
      exact ⟨e1, e2⟩
    unfold probeK
    simp only
    by_cases hu : a.maxDepth < a.curDepth ∨ e.maxDepth < e.depth
    · rw [if_pos hu]
      exact ⟨hst, LogOK.nil, fun v h => nomatch h⟩
    · rw [if_neg hu]
      split
      · split
        · exact hpure n st hst
        · split
          · split
            · exact hpure n st hst
            · exact hT _ _ _ _ (by unfold WinOK; unfold Eval at *; omega) hst
          · split
            · exact hpure n st hst
            · exact hT _ _ _ _ (by unfold WinOK; unfold Eval at *; omega) hst
      · exact hT _ _ _ _ ⟨w1, w2, w3, w4⟩ hst

theorem nodeBodyE_inside (env : Env) (hrely : ∀ j, ∀ p ∈ env.script j, InsIn p.1 p.2) (ctx : Ctx) (a : NodeArgs)
    (rec : Option (NodeArgs → ME Eval)) (P : Prop) (hw : WinOK a.alpha a.beta)
    (hT : ∀ al be n st, WinOK al be → EvalIn st.tt →
      EvalIn (tailE env ctx a (Wee.hash ctx.keys a.s) al be rec n st).2.1.tt ∧
      LogOK InsIn (tailE env ctx a (Wee.hash ctx.keys a.s) al be rec n st).2.2 ∧
      ∀ v, (tailE env ctx a (Wee.hash ctx.keys a.s) al be rec n st).1 = .ok v → P → Inside v)
    (n : Nat) (st : St) (hst : EvalIn st.tt) :
    EvalIn (nodeBodyE env ctx rec a n st).2.1.tt ∧ LogOK InsIn (nodeBodyE env ctx rec a n st).2.2 ∧
    ∀ v, (nodeBodyE env ctx rec a n st).1 = .ok v → P → Inside v := by
  rw [nodeBodyE_run]
  have ht := tick_tt ctx st
  generalize tick ctx st = out at ht
  obtain ⟨r, st1⟩ := out
  have hst1 : EvalIn st1.tt := by rw [show st1.tt = st.tt from ht]; exact hst
  cases r with
  | error e => exact ⟨hst1, LogOK.nil, fun v h => nomatch h⟩
  | ok u =>
    simp only
    split
    · refine ⟨hst1, LogOK.nil, fun v h _ => ?_⟩
      cases h
      have := M0_pos
      exact ⟨by omega, this⟩
    · rw [probeE_run]
      have hI2 := evalIn_applyInserts hrely st1.tt hst1 n
      have h := probeK_inside env ctx a (Wee.hash ctx.keys a.s) rec P hw hT
        ((applyInserts st1.tt (env.script n)).find (Wee.hash ctx.keys a.s).toNat) (fun e he => hI2.find he) (n + 1)
        { st1 with tt := applyInserts st1.tt (env.script n) } hI2
      generalize probeK env ctx a (Wee.hash ctx.keys a.s) rec
        ((applyInserts st1.tt (env.script n)).find (Wee.hash ctx.keys a.s).toNat) (n + 1)
        { st1 with tt := applyInserts st1.tt (env.script n) } = out2 at h
      obtain ⟨r2, st2, l2⟩ := out2
      exact ⟨h.1, logOK_find h.2.1, h.2.2⟩

/-- **`searchNode_inside` in an environment**: relying on the other workers to store only values strictly inside the
window, the worker keeps `EvalIn`, stores only such values itself, and returns such a value from every non-root call -/
theorem searchNodeE_inside {R : State → Prop} (hR : Region R) (hE : EvalBelowMate R) (env : Env)
    (hrely : ∀ j, ∀ p ∈ env.script j, InsIn p.1 p.2) (ctx : Ctx) :
    ∀ (rem : Nat) (a : NodeArgs) (n : Nat) (st : St), R a.s → WinOK a.alpha a.beta → a.curDepth + 2 * rem + 70 < 2^31 →
      (∀ m, a.prioritized = some m → LegalIn a.s m) → EvalIn st.tt →
      EvalIn (searchNodeE env ctx rem a n st).2.1.tt ∧ LogOK InsIn (searchNodeE env ctx rem a n st).2.2 ∧
      ∀ v, (searchNodeE env ctx rem a n st).1 = .ok v → 1 ≤ a.curDepth → Inside v := by
  intro rem
  induction rem with
  | zero =>
    intro a n st ha hw hd hprio hst
    rw [searchNodeE_zero]
    refine nodeBodyE_inside env hrely ctx a Option.none (1 ≤ a.curDepth) hw (fun al be n' st' hw' hst' => ?_) n st hst
    exact tailE_inside hR hE env hrely ctx a _ al be Option.none ha hw' (by omega) hprio (fun c hc => nomatch hc) n' st' hst'
  | succ rem ih =>
    intro a n st ha hw hd hprio hst
    rw [searchNodeE_succ]
    refine nodeBodyE_inside env hrely ctx a _ (1 ≤ a.curDepth) hw (fun al be n' st' hw' hst' => ?_) n st hst
    refine tailE_inside hR hE env hrely ctx a _ al be _ ha hw' (by omega) hprio ?_ n' st' hst'
    intro child hc next al' ⟨m, hm⟩ h1 h2 n'' st'' hst''
    cases hc
    have hx := ext_le_one a
    have hwin : WinOK (childArgs { a with alpha := al, beta := be } next al').alpha
        (childArgs { a with alpha := al, beta := be } next al').beta := by
      obtain ⟨w1, w2, w3, w4⟩ := hw'
      show WinOK (-be) (-al')
      unfold WinOK
      unfold Eval at *
      omega
    have hdep : (childArgs { a with alpha := al, beta := be } next al').curDepth + 2 * rem + 70 < 2^31 := by
      show a.curDepth + 1 + (if a.curExt < Gen.extensionCap then extensionOf a.s else 0) + 2 * rem + 70 < 2^31
      omega
    obtain ⟨i1, i2, i3⟩ := ih (childArgs { a with alpha := al, beta := be } next al') n'' st'' (hR.closed _ ha _ hm) hwin
      hdep (fun m' h' => nomatch h') hst''
    refine ⟨i1, i2, fun v hv => i3 v hv ?_⟩
    show 1 ≤ a.curDepth + 1 + (if a.curExt < Gen.extensionCap then extensionOf a.s else 0)
    omega


/-- **one worker, evaluation range** (rely ⇒ guarantee) -/
theorem runWorkerE_evalIn {R : State → Prop} (hR : Region R) (hE : EvalBelowMate R) (env : Env)
    (hrely : ∀ j, ∀ p ∈ env.script j, InsIn p.1 p.2) (ctx : Ctx) (root : State) (hroot : R root) (w : Worker)
    (hsd : 2 * w.searchDepth + 70 < 2^31) (hbest : ∀ m, w.best = some m → LegalIn root m) (tt : TT.Access)
    (htt : EvalIn tt) :
    EvalIn (runWorkerE env ctx root w tt).2.1.tt ∧ LogOK InsIn (runWorkerE env ctx root w tt).2.2 := by
  rw [runWorkerE_eq]
  have h := searchNodeE_inside hR hE env hrely ctx w.searchDepth (rootArgsE root w) 0
    { tt, rng := w.rng, nodes := 0, polls := w.polls } hroot winOK_root
    (by show 0 + 2 * w.searchDepth + 70 < 2^31; omega) hbest htt
  exact ⟨h.1, h.2.1⟩

/-- the evaluation range for one iteration under any schedule: every insert stores a value strictly inside the window and
`EvalIn` holds of the shared table after every prefix of the history -/
theorem interleaving_evalIn {R : State → Prop} (hR : Region R) (hE : EvalBelowMate R) (ctx : Ctx) (root : State)
    (hroot : R root) (tt : TT.Access) (htt : EvalIn tt) (ws : List Worker)
    (hws : ∀ w ∈ ws, 2 * w.searchDepth + 70 < 2^31 ∧ ∀ m, w.best = some m → LegalIn root m)
    (H : History) (hI : Interleaving ctx root tt ws H) :
    (∀ p ∈ H, ∀ k e, p.2 = TOp.insert k e → InsIn k e) ∧ ∀ n, EvalIn (History.table tt (H.take n)) := by
  have hins : ∀ p ∈ H, ∀ k e, p.2 = TOp.insert k e → InsIn k e :=
    interleaving_guarantee InsIn
      (fun i h env hadm => (runWorkerE_evalIn hR hE env hadm ctx root hroot ws[i]
        (hws _ (List.getElem_mem h)).1 (hws _ (List.getElem_mem h)).2 tt htt).2) hI
  exact ⟨hins, fun n => table_inv (P := EvalIn) (Adm := InsIn) (fun _ k e h he => h.insert k e he) (H.take n) tt htt
    (fun p hp => hins p (List.mem_of_mem_take hp))⟩

theorem finishStep_tt (ctx : Ctx) (root : State) (rootHash : UInt64) (depth : Nat) (rng : Rng.ChaCha8) (w : WorkersOut)
    (st : IterSt) : (finishStep ctx root rootHash depth rng w st).tt = if w.panic.isSome then st.tt else w.tt := by
  unfold finishStep
  cases hp : w.panic with
  | some why => simp
  | none =>
    simp only [Option.isSome_none, Bool.false_eq_true, ↓reduceIte]
    split <;> (try split) <;> rfl

/-- one iteration under any schedule keeps `EvalIn` (given the loop invariant of C03 for the remembered best move) -/
theorem stepS_evalIn {R : State → Prop} (hR : Region R) (hE : EvalBelowMate R) (ctx : Ctx) (root : State)
    (hroot : R root) (rootHash : UInt64) (workers depth : Nat) (hd : 2 * (depth + 1) + 70 < 2^31) (st st' : IterSt)
    (hbest : ∀ m, st.bestMv = some m → LegalIn root m) (h : EvalIn st.tt)
    (hs : StepS ctx root rootHash workers depth st st') : EvalIn st'.tt := by
  obtain ⟨pollsOf, started, H, polls', hsub, _, hI, rfl⟩ := hs
  rw [finishStep_tt]
  split
  · exact h
  · rw [joinOf_tt, ← take_all_table]
    refine (interleaving_evalIn hR hE ctx root hroot st.tt h started (fun w hw => ?_) H hI).2 _
    obtain ⟨h1, h2⟩ := mem_workersOfIteration (hsub.subset hw)
    refine ⟨by omega, fun m hm => ?_⟩
    rcases h2 with h2 | h2
    · rw [h2] at hm; exact hbest m hm
    · rw [h2] at hm; cases hm

theorem loopS_evalIn {R : State → Prop} (hR : Region R) (hE : EvalBelowMate R) (ctx : Ctx)
    (hcf : CollisionFree ctx.keys R) (root : State) (hroot : R root) (rootHash : UInt64) (workersOf : Nat → Nat)
    (D : Nat) (hD : 2 * D + 70 < 2^31) {n depth : Nat} {st st' : IterSt}
    (hl : LoopS ctx root rootHash workersOf n depth st st') :
    depth + n ≤ D → IterInv ctx.keys (upTo (fun _ => R) D) root st → EvalIn st.tt → EvalIn st'.tt := by
  induction hl with
  | done depth st => exact fun _ _ h => h
  | finished n depth st _ => exact fun _ _ h => h
  | stopped n depth st p _ _ => exact fun _ _ h => by rw [boundaryPoll_tt]; exact h
  | step n depth st st1 st2 p _ _ hs _ ih =>
    intro hd hinv h
    have hinvb := (show IterInv _ _ root { st with polls := p } from ⟨hinv.tt, hinv.best, hinv.events⟩).boundaryPoll ctx depth
    refine ih (by omega) ?_ ?_
    · exact stepS_inv hR.graded D ctx (hcf.congr (fun s hs => (upTo_const D s).1 hs)) root hroot rootHash _ depth
        (by omega) _ st1 hinvb hs
    · exact stepS_evalIn hR hE ctx root hroot rootHash _ depth (by omega) _ st1 hinvb.best
        (by rw [boundaryPoll_tt]; exact h) hs

/-- **every outcome of the search under arbitrary schedules keeps the evaluation range** -/
theorem searchS_evalIn {R : State → Prop} (hR : Region R) (hE : EvalBelowMate R) (root : State) (hroot : R root)
    (art : Artifact) (hcf : CollisionFree art.keys.keys R) (htt : TInv art.keys.keys R art.tt) (hin : EvalIn art.tt)
    (rng0 : Rng.ChaCha8) (maxDepth : Option Nat) (workersOf : Nat → Nat) (cancelAt : Option Nat) (fuelDepth : Nat)
    (hlim : maxDepth.getD fuelDepth ≤ 1000000000) (out : Outcome)
    (hout : SearchS root rng0 maxDepth art workersOf cancelAt fuelDepth out) : EvalIn out.artifact.tt := by
  obtain ⟨st, hl, rfl⟩ := hout
  have key : ∀ lim, lim ≤ maxDepth.getD fuelDepth →
      LoopS { keys := art.keys.keys, history := Wee.hash art.keys.keys root :: art.history, cancelAt := cancelAt } root
        (Wee.hash art.keys.keys root) workersOf lim 0
        { tt := art.tt, rng := rng0, events := [], nodes := 0, bestEval := Ev.negInf, bestMv := Option.none, polls := 0 } st →
      EvalIn st.tt := by
    intro lim hle hl'
    have h0 : IterInv art.keys.keys (upTo (fun _ => R) lim) root
        { tt := art.tt, rng := rng0, events := [], nodes := 0, bestEval := Ev.negInf, bestMv := Option.none, polls := 0 } :=
      ⟨htt.congr (fun s hs => (upTo_const _ s).1 hs), fun m hm => (by cases hm), fun ev line hm => (by cases hm)⟩
    exact loopS_evalIn hR hE
      { keys := art.keys.keys, history := Wee.hash art.keys.keys root :: art.history, cancelAt := cancelAt } hcf root hroot
      _ workersOf lim (by omega) hl' (by omega) h0 hin
  refine key _ ?_ hl
  split
  · exact Nat.zero_le _
  · cases maxDepth <;> exact Nat.le_refl _

end Wee.Env
