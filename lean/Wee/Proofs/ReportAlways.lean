import Wee.Proofs.WriterLemmas
import Wee.Proofs.SearchCtlSafe
/-!
# "At least one report" for ANY incoming search memory and any number of workers (S1 of DESIGN, part D of C03)

Helper lemmas for `Wee/Props/C03Report.lean`.

1. `EvalIn`: every stored evaluation lies strictly inside the root window `(-mate_in_ply(0), mate_in_ply(0))`.
   `searchNode_inside`: under the bound `EvalBelowMate` on static evaluations, `analyze_recursive` keeps `EvalIn`
   (every value it stores is a window bound of a non-root node or a value strictly inside the window), and every value
   returned by a non-root call with a window inside `[-mate0, mate0]` is strictly inside.
2. structural facts about the move loop: `childLoop_best` (the best move is set exactly when alpha was raised),
   `childLoop_progress` (an accepted move makes the node counter grow), `childLoop_tt_leaf` (children with remaining
   depth 0 do not write).
3. the root call of the first iteration (remaining depth 1): `root1_table` (the only possible write is ONE insert under
   the root's key), `root1_entry` (if it ends normally, the root's key is in the table afterwards — whatever the table
   held before).
4. no interrupt below the poll interval (`searchNode_interrupt_nodes`), the workers of the first iteration
   (`firstWorkers_kept`).
5. `EvalIn` through the deepening loop (`iterate_evalIn`).
-/
namespace Wee.Search
open Wee Wee.SearchCtl

/-! ## 1. the evaluation range of stored entries -/

/-- every evaluation stored anywhere in the table lies strictly inside the root window -/
def EvalIn (tt : TT.Access) : Prop := tt.All (fun e => Inside e.eval)

theorem EvalIn.new (nT nB : Nat) : EvalIn (TT.Access.new nT nB) := TT.Access.All.new _ nT nB

theorem EvalIn.find {tt : TT.Access} (h : EvalIn tt) {k : Nat} {e : TT.Entry} (hf : tt.find k = some e) :
    Inside e.eval := TT.Access.All.find h hf

theorem EvalIn.insert {tt : TT.Access} (h : EvalIn tt) (k : Nat) (e : TT.Entry) (he : Inside e.eval) :
    EvalIn (tt.insert k e) := TT.Access.All.insert h k e he

/-- a search window inside the root window: what every call of `analyze_recursive` is given -/
def WinOK (al be : Int) : Prop := -M0 ≤ al ∧ al < M0 ∧ -M0 < be ∧ be ≤ M0

theorem winOK_root : WinOK (- Ev.mateInPly 0) (Ev.mateInPly 0) := by
  have := M0_pos
  unfold M0 at this
  unfold WinOK M0
  omega

theorem tick_tt (ctx : Ctx) (st : St) : (tick ctx st).2.tt = st.tt := by
  rw [tick_eq]
  split
  · split <;> rfl
  · rfl

/-- the table probe: a cut returns a stored value, a narrowed window stays inside the root window -/
theorem probe_inside (a : NodeArgs) (o : Option TT.Entry) (ho : ∀ e, o = some e → Inside e.eval)
    (hw : WinOK a.alpha a.beta) :
    (∀ v, probe a o = .cut v → Inside v) ∧ (∀ al be, probe a o = .window al be → WinOK al be) := by
  cases o with
  | none =>
    refine ⟨fun v h => by simp [probe] at h, fun al be h => ?_⟩
    simp only [probe, Probe.window.injEq] at h
    obtain ⟨rfl, rfl⟩ := h
    exact hw
  | some e =>
    obtain ⟨h1, h2⟩ := ho e rfl
    obtain ⟨w1, w2, w3, w4⟩ := hw
    simp only [probe]
    by_cases c1 : a.maxDepth < a.curDepth ∨ e.maxDepth < e.depth
    · rw [if_pos c1]
      exact ⟨(fun v h => nomatch h), (fun al be h => nomatch h)⟩
    rw [if_neg c1]
    by_cases c2 : e.maxDepth - e.depth ≥ a.maxDepth - a.curDepth
    · rw [if_pos c2]
      by_cases c3 : (e.kind == kindExact) = true
      · rw [if_pos c3]
        exact ⟨fun v h => by cases h; exact ⟨h1, h2⟩, (fun al be h => nomatch h)⟩
      rw [if_neg c3]
      by_cases c4 : (e.kind == kindUpper) = true
      · rw [if_pos c4]
        by_cases c5 : a.alpha ≥ min a.beta e.eval
        · rw [if_pos c5]
          exact ⟨fun v h => by cases h; exact ⟨h1, h2⟩, (fun al be h => nomatch h)⟩
        · rw [if_neg c5]
          refine ⟨(fun v h => nomatch h), fun al be h => ?_⟩
          cases h
          unfold WinOK; unfold Eval at *; omega
      · rw [if_neg c4]
        by_cases c6 : max a.alpha e.eval ≥ a.beta
        · rw [if_pos c6]
          exact ⟨fun v h => by cases h; exact ⟨h1, h2⟩, (fun al be h => nomatch h)⟩
        · rw [if_neg c6]
          refine ⟨(fun v h => nomatch h), fun al be h => ?_⟩
          cases h
          unfold WinOK; unfold Eval at *; omega
    · rw [if_neg c2]
      refine ⟨(fun v h => nomatch h), fun al be h => ?_⟩
      cases h
      exact ⟨w1, w2, w3, w4⟩


/-- what a call of `analyze_recursive` guarantees about values and stored evaluations -/
def ChildIn (child : NodeArgs → M Eval) (a' : NodeArgs) : Prop :=
  ∀ st, EvalIn st.tt → EvalIn ((child a').run.run st).2.tt ∧ st.nodes + 1 ≤ ((child a').run.run st).2.nodes ∧
    ∀ v, ((child a').run.run st).1 = .ok v → Inside v

/-- **the move loop keeps `EvalIn`**; a cut-off value is strictly inside; alpha stays in `[-mate0, mate0)` and is strictly
above `-mate0` as soon as it was so before or a child has been searched -/
theorem childLoop_inside (ctx : Ctx) (child : NodeArgs → M Eval) (a : NodeArgs) (hash : UInt64)
    (hb1 : -M0 < a.beta) (hb2 : a.beta ≤ M0) :
    ∀ (buf : List Move), (∀ mv ∈ buf, ∀ m next alpha, tryAsLegal a.s mv = some (some (m, next)) → -M0 ≤ alpha →
        alpha < M0 → ChildIn child (childArgs a next alpha)) →
      ∀ (alpha : Eval) (best : Option Move) (kind : Nat) (st : St),
      EvalIn st.tt → -M0 ≤ alpha → alpha < M0 →
      EvalIn ((childLoop ctx child a hash buf alpha best kind).run.run st).2.tt ∧
      st.nodes ≤ ((childLoop ctx child a hash buf alpha best kind).run.run st).2.nodes ∧
      (∀ b, ((childLoop ctx child a hash buf alpha best kind).run.run st).1 = .ok (.error b) → Inside b) ∧
      (∀ al' b' k', ((childLoop ctx child a hash buf alpha best kind).run.run st).1 = .ok (.ok (al', b', k')) →
        -M0 ≤ al' ∧ al' < M0 ∧
        ((-M0 < alpha ∨ st.nodes < ((childLoop ctx child a hash buf alpha best kind).run.run st).2.nodes) → -M0 < al')) := by
  intro buf
  induction buf with
  | nil =>
    intro _ alpha best kind st hI h1 h2
    rw [childLoop_nil_run]
    refine ⟨hI, Nat.le_refl _, (fun b h => nomatch h), fun al' b' k' h => ?_⟩
    cases h
    refine ⟨h1, h2, fun h => ?_⟩
    rcases h with h | h
    · exact h
    · exact absurd h (Nat.lt_irrefl _)
  | cons mv rest ih0 =>
    intro hchild alpha best kind st hI h1 h2
    have ih := ih0 (fun mv' h' => hchild mv' (List.mem_cons_of_mem _ h'))
    rw [childLoop_cons_run]
    cases ht : tryAsLegal a.s mv with
    | none =>
      simp only []
      exact ⟨hI, Nat.le_refl _, (fun b h => nomatch h), (fun al' b' k' h => nomatch h)⟩
    | some o =>
      cases o with
      | none => exact ih alpha best kind st hI h1 h2
      | some r =>
        obtain ⟨m, next⟩ := r
        simp only []
        obtain ⟨c1, c2, c3⟩ := hchild mv List.mem_cons_self m next alpha ht h1 h2 st hI
        generalize (child (childArgs a next alpha)).run.run st = out at c1 c2 c3
        obtain ⟨res, st'⟩ := out
        cases res with
        | error e => exact ⟨c1, Nat.le_of_succ_le c2, (fun b h => nomatch h), (fun al' b' k' h => nomatch h)⟩
        | ok v =>
          obtain ⟨v1, v2⟩ := c3 v rfl
          simp only []
          by_cases g1 : -v ≥ a.beta
          · rw [if_pos g1]
            have hin : Inside a.beta := ⟨hb1, by unfold Eval at *; omega⟩
            refine ⟨EvalIn.insert c1 _ _ hin, Nat.le_of_succ_le c2, fun b h => ?_, (fun al' b' k' h => nomatch h)⟩
            cases h
            exact hin
          · rw [if_neg g1]
            by_cases g2 : -v > alpha
            · rw [if_pos g2]
              obtain ⟨i1, i2, i3, i4⟩ := ih (-v) (some m) kindExact st' c1 (by unfold Eval at *; omega)
                (by unfold Eval at *; omega)
              refine ⟨i1, Nat.le_trans (Nat.le_of_succ_le c2) i2, i3, fun al' b' k' h => ?_⟩
              obtain ⟨j1, j2, j3⟩ := i4 al' b' k' h
              exact ⟨j1, j2, fun _ => j3 (Or.inl (by unfold Eval at *; omega))⟩
            · rw [if_neg g2]
              obtain ⟨i1, i2, i3, i4⟩ := ih alpha best kind st' c1 h1 h2
              refine ⟨i1, Nat.le_trans (Nat.le_of_succ_le c2) i2, i3, fun al' b' k' h => ?_⟩
              obtain ⟨j1, j2, j3⟩ := i4 al' b' k' h
              exact ⟨j1, j2, fun _ => j3 (Or.inl (by unfold Eval at *; omega))⟩


/-- every buffered move that `try_as_legal_move` accepts is a listed legal move, for a position whose generator does not
panic and a prioritized move that is absent or legal -/
theorem buffer_legal {a : NodeArgs} {L : List (Move × State)} (hL : legalMoves? a.s = some L)
    (hprio : ∀ m, a.prioritized = some m → LegalIn a.s m) {pseudo sorted : List Move}
    (hps : pseudoLegalMoves a.s = some pseudo) (hperm : sorted.Perm pseudo) :
    ∀ mv ∈ (bufferOf a.prioritized sorted).reverse, ∀ r, tryAsLegal a.s mv = some (some r) → r ∈ legalMoves a.s := by
  intro mv hmv r hr
  rcases mem_bufferOf (a := a) hperm mv hmv with h | h
  · exact tryAsLegal_mem_of_pseudo hL hps h hr
  · exact tryAsLegal_mem_of_legal (hprio mv h) hr

theorem ext_le_one (a : NodeArgs) : (if a.curExt < Gen.extensionCap then extensionOf a.s else 0) ≤ 1 := by
  unfold extensionOf
  split
  · split <;> omega
  · omega

/-- the expansion of a node (move ordering, move loop, store) keeps `EvalIn`; at a non-root node its value is strictly
inside the root window -/
theorem expandM_inside {R : State → Prop} (hR : Region R) (hE : EvalBelowMate R) (ctx : Ctx) (child : NodeArgs → M Eval)
    (a : NodeArgs) (hash : UInt64) (alpha beta : Eval) (st : St) (ha : R a.s) (hw : WinOK alpha beta)
    (hd : a.curDepth < 2^31) (hst : EvalIn st.tt) (hprio : ∀ m, a.prioritized = some m → LegalIn a.s m)
    (hchild : ∀ next al, (∃ m, (m, next) ∈ legalMoves a.s) → -M0 ≤ al → al < M0 →
      ChildIn child (childArgs { a with alpha := alpha, beta := beta } next al)) :
    EvalIn ((expandM ctx child a hash alpha beta).run.run st).2.tt ∧
    ∀ v, ((expandM ctx child a hash alpha beta).run.run st).1 = .ok v → 1 ≤ a.curDepth → Inside v := by
  obtain ⟨w1, w2, w3, w4⟩ := hw
  obtain ⟨hl, hdj⟩ := hR.good _ ha
  obtain ⟨L, hL⟩ := (C01_legal_results a.s hl hdj).1
  rw [expandM_run]
  cases hp : pseudoLegalMoves a.s with
  | none => exact ⟨hst, fun v h => nomatch h⟩
  | some pseudo =>
    simp only []
    obtain ⟨sorted, r, hs, hperm⟩ := sort_rngOnly a.s pseudo st
    rw [hs]
    simp only []
    have hbuf := buffer_legal hL hprio hp hperm
    have hloop := childLoop_inside ctx child { a with alpha := alpha, beta := beta } hash w3 w4
      (bufferOf a.prioritized sorted).reverse
      (fun mv hmv m next al ht h1 h2 => hchild next al ⟨m, hbuf mv hmv (m, next) ht⟩ h1 h2)
      alpha Option.none kindUpper { st with rng := r } hst w1 w2
    generalize (childLoop ctx child { a with alpha := alpha, beta := beta } hash
      (bufferOf a.prioritized sorted).reverse alpha Option.none kindUpper).run.run { st with rng := r } = out at hloop
    obtain ⟨r2, st2⟩ := out
    obtain ⟨l1, l2, l3, l4⟩ := hloop
    cases r2 with
    | error e => exact ⟨l1, fun v h => nomatch h⟩
    | ok x =>
      cases x with
      | error b =>
        refine ⟨l1, fun v h _ => ?_⟩
        cases h
        exact l3 b rfl
      | ok y =>
        obtain ⟨alpha', best, kind⟩ := y
        obtain ⟨j1, j2, j3⟩ := l4 alpha' best kind rfl
        simp only []
        by_cases hn : (st2.nodes == st.nodes) = true
        · rw [if_pos hn]
          cases he : evaluate a.s a.s.turn a.curDepth with
          | none => exact ⟨l1, fun v h => nomatch h⟩
          | some e =>
            refine ⟨l1, fun v h hdeep => ?_⟩
            cases h
            exact hE a.s ha a.s.turn a.curDepth _ hdeep hd he
        · rw [if_neg hn]
          have hlt : st.nodes < st2.nodes := by
            have hne : st2.nodes ≠ st.nodes := by simpa using hn
            have hle : st.nodes ≤ st2.nodes := l2
            omega
          have hin : Inside alpha' := ⟨j3 (Or.inr hlt), j2⟩
          cases best with
          | none =>
            refine ⟨l1, fun v h _ => ?_⟩
            cases h
            exact hin
          | some m =>
            refine ⟨EvalIn.insert l1 _ _ hin, fun v h _ => ?_⟩
            cases h
            exact hin


/-- the node entry (count, poll, repetition test, table probe) followed by a continuation `k` -/
theorem nodeM_inside (ctx : Ctx) (a : NodeArgs) (k : Eval → Eval → M Eval) (st : St) (P : Prop)
    (hw : WinOK a.alpha a.beta) (hst : EvalIn st.tt)
    (hk : ∀ al be st1, WinOK al be → EvalIn st1.tt → EvalIn ((k al be).run.run st1).2.tt ∧
      ∀ v, ((k al be).run.run st1).1 = .ok v → P → Inside v) :
    EvalIn ((nodeM ctx a k).run.run st).2.tt ∧ ∀ v, ((nodeM ctx a k).run.run st).1 = .ok v → P → Inside v := by
  rw [nodeM_run]
  have ht := tick_tt ctx st
  generalize tick ctx st = out at ht
  obtain ⟨r, st1⟩ := out
  have hst1 : EvalIn st1.tt := by rw [show st1.tt = st.tt from ht]; exact hst
  cases r with
  | error e => exact ⟨hst1, fun v h => nomatch h⟩
  | ok u =>
    simp only []
    split
    · refine ⟨hst1, fun v h _ => ?_⟩
      cases h
      have := M0_pos
      exact ⟨by omega, this⟩
    · obtain ⟨p1, p2⟩ := probe_inside a (st1.tt.find (Wee.hash ctx.keys a.s).toNat) (fun e he => hst1.find he) hw
      generalize probe a (st1.tt.find (Wee.hash ctx.keys a.s).toNat) = pr at p1 p2
      cases pr with
      | underflow => exact ⟨hst1, fun v h => nomatch h⟩
      | cut v =>
        refine ⟨hst1, fun v' h _ => ?_⟩
        cases h
        exact p1 v rfl
      | window al be => exact hk al be st1 (p2 al be rfl) hst1

/-- **`analyze_recursive` keeps `EvalIn`, and the value of a non-root call is strictly inside the root window.**
`R` a region on which static evaluations are strictly inside the mate window (`EvalBelowMate`); the call is made at a
position of `R` with a window inside `[-mate0, mate0]` and a prioritized move that is absent or legal; plies stay below
`2^31` (`curDepth + 2·rem + 70 < 2^31`: each level adds one ply and at most one extension, quiescence at most 66).  From
every state whose table satisfies `EvalIn` — whatever else it holds — the call ends (normally, interrupted or by a
panic) in a state whose table satisfies `EvalIn`; if it is not the root call (`1 ≤ curDepth`) and ends normally, its value
is strictly inside `(-mate0, mate0)`. -/
theorem searchNode_inside {R : State → Prop} (hR : Region R) (hE : EvalBelowMate R) (ctx : Ctx) :
    ∀ (rem : Nat) (a : NodeArgs) (st : St), R a.s → WinOK a.alpha a.beta → a.curDepth + 2 * rem + 70 < 2^31 →
      (∀ m, a.prioritized = some m → LegalIn a.s m) → EvalIn st.tt →
      EvalIn ((searchNode ctx rem a).run.run st).2.tt ∧
      ∀ v, ((searchNode ctx rem a).run.run st).1 = .ok v → 1 ≤ a.curDepth → Inside v := by
  intro rem
  induction rem with
  | zero =>
    intro a st ha hw hd _ hst
    rw [SearchCtl.searchNode_zero]
    refine nodeM_inside ctx a _ st (1 ≤ a.curDepth) hw hst (fun al be st1 hw1 hst1 => ?_)
    rw [leafM_run]
    refine ⟨hst1, fun v h hdeep => ?_⟩
    obtain ⟨w1, w2, w3, w4⟩ := hw1
    cases hq : quiesce evaluate (quiesceFuel a.s) a.s a.curDepth al be with
    | error e => rw [hq] at h; cases h
    | ok v' =>
      rw [hq] at h
      cases h
      refine quiesce_bound hR hE _ a.s a.curDepth al be ha hdeep ?_ w1 w2 w3 w4 _ hq
      have := popcount_le a.s.pieces.occ
      unfold quiesceFuel
      omega
  | succ rem ih =>
    intro a st ha hw hd hprio hst
    rw [SearchCtl.searchNode_succ]
    refine nodeM_inside ctx a _ st (1 ≤ a.curDepth) hw hst (fun al be st1 hw1 hst1 => ?_)
    refine expandM_inside hR hE ctx _ a _ al be st1 ha hw1 (by omega) hst1 hprio ?_
    intro next al' ⟨m, hm⟩ h1 h2 st' hst'
    have hx := ext_le_one a
    have hnext : R next := hR.closed _ ha _ hm
    have hwin : WinOK (childArgs { a with alpha := al, beta := be } next al').alpha
        (childArgs { a with alpha := al, beta := be } next al').beta := by
      obtain ⟨w1, w2, w3, w4⟩ := hw1
      show WinOK (-be) (-al')
      unfold WinOK
      unfold Eval at *
      omega
    have hdep : (childArgs { a with alpha := al, beta := be } next al').curDepth + 2 * rem + 70 < 2^31 := by
      show a.curDepth + 1 + (if a.curExt < Gen.extensionCap then extensionOf a.s else 0) + 2 * rem + 70 < 2^31
      omega
    obtain ⟨i1, i2⟩ := ih (childArgs { a with alpha := al, beta := be } next al') st' hnext hwin hdep
      (fun m' h' => nomatch h') hst'
    refine ⟨i1, NoPoll.searchNode_nodes ctx rem _ st', fun v hv => i2 v hv ?_⟩
    show 1 ≤ a.curDepth + 1 + (if a.curExt < Gen.extensionCap then extensionOf a.s else 0)
    omega


/-! ## 2. structural facts about the move loop -/

/-- the loop hands back its inputs unchanged, or a best move together with a strictly larger alpha -/
theorem childLoop_best (ctx : Ctx) (child : NodeArgs → M Eval) (a : NodeArgs) (hash : UInt64) :
    ∀ (buf : List Move) (alpha : Eval) (best : Option Move) (kind : Nat) (st : St) (al' : Eval) (b' : Option Move)
      (k' : Nat), ((childLoop ctx child a hash buf alpha best kind).run.run st).1 = .ok (.ok (al', b', k')) →
      (al' = alpha ∧ b' = best ∧ k' = kind) ∨ (b'.isSome = true ∧ alpha < al') := by
  intro buf
  induction buf with
  | nil =>
    intro alpha best kind st al' b' k' h
    rw [childLoop_nil_run] at h
    cases h
    exact Or.inl ⟨rfl, rfl, rfl⟩
  | cons mv rest ih =>
    intro alpha best kind st al' b' k' h
    rw [childLoop_cons_run] at h
    cases ht : tryAsLegal a.s mv with
    | none => rw [ht] at h; cases h
    | some o =>
      cases o with
      | none => rw [ht] at h; exact ih alpha best kind st al' b' k' h
      | some r =>
        obtain ⟨m, next⟩ := r
        rw [ht] at h
        simp only [] at h
        generalize (child (childArgs a next alpha)).run.run st = out at h
        obtain ⟨res, st'⟩ := out
        cases res with
        | error e => cases h
        | ok v =>
          simp only [] at h
          by_cases g1 : -v ≥ a.beta
          · rw [if_pos g1] at h; cases h
          · rw [if_neg g1] at h
            by_cases g2 : -v > alpha
            · rw [if_pos g2] at h
              rcases ih (-v) (some m) kindExact st' al' b' k' h with ⟨e1, e2, _⟩ | ⟨e1, e2⟩
              · right; subst e1 e2; exact ⟨rfl, g2⟩
              · right; exact ⟨e1, by unfold Eval at *; omega⟩
            · rw [if_neg g2] at h
              exact ih alpha best kind st' al' b' k' h

/-- if `try_as_legal_move` accepts some buffered move and the loop runs to its end, a child was searched: the node
counter has grown -/
theorem childLoop_progress (ctx : Ctx) (child : NodeArgs → M Eval)
    (hc : ∀ a st, st.nodes + 1 ≤ ((child a).run.run st).2.nodes) (a : NodeArgs) (hash : UInt64) :
    ∀ (buf : List Move) (alpha : Eval) (best : Option Move) (kind : Nat) (st : St) (x : Eval × Option Move × Nat),
      (∃ mv ∈ buf, ∃ r, tryAsLegal a.s mv = some (some r)) →
      ((childLoop ctx child a hash buf alpha best kind).run.run st).1 = .ok (.ok x) →
      st.nodes < ((childLoop ctx child a hash buf alpha best kind).run.run st).2.nodes := by
  have hmono : ∀ a st, st.nodes ≤ ((child a).run.run st).2.nodes := fun a st => Nat.le_of_succ_le (hc a st)
  intro buf
  induction buf with
  | nil => intro _ _ _ _ _ ⟨mv, hmv, _⟩; cases hmv
  | cons mv rest ih =>
    intro alpha best kind st x hacc h
    rw [childLoop_cons_run] at h ⊢
    cases ht : tryAsLegal a.s mv with
    | none => rw [ht] at h; cases h
    | some o =>
      cases o with
      | none =>
        rw [ht] at h
        refine ih alpha best kind st x ?_ h
        obtain ⟨mv', hmv', r, hr⟩ := hacc
        rcases List.mem_cons.1 hmv' with rfl | hmv'
        · rw [ht] at hr; cases hr
        · exact ⟨mv', hmv', r, hr⟩
      | some r =>
        obtain ⟨m, next⟩ := r
        rw [ht] at h
        simp only [] at h ⊢
        have h1 := hc (childArgs a next alpha) st
        generalize (child (childArgs a next alpha)).run.run st = out at h h1
        obtain ⟨res, st'⟩ := out
        have h1' : st.nodes + 1 ≤ st'.nodes := h1
        cases res with
        | error e => cases h
        | ok v =>
          simp only [] at h ⊢
          by_cases g1 : -v ≥ a.beta
          · rw [if_pos g1] at h; cases h
          · rw [if_neg g1] at h ⊢
            by_cases g2 : -v > alpha
            · rw [if_pos g2] at h ⊢
              have := NoPoll.childLoop_mono ctx child hmono a hash rest (-v) (some m) kindExact st'
              omega
            · rw [if_neg g2] at h ⊢
              have := NoPoll.childLoop_mono ctx child hmono a hash rest alpha best kind st'
              omega

/-- a call with remaining depth 0 does not write to the table -/
theorem searchNode0_tt (ctx : Ctx) (a : NodeArgs) (st : St) : ((searchNode ctx 0 a).run.run st).2.tt = st.tt := by
  rw [SearchCtl.searchNode_zero, nodeM_run]
  have ht := tick_tt ctx st
  generalize tick ctx st = out at ht
  obtain ⟨r, st1⟩ := out
  have ht' : st1.tt = st.tt := ht
  cases r with
  | error e => exact ht'
  | ok u =>
    simp only []
    split
    · exact ht'
    · split
      · exact ht'
      · exact ht'
      · rw [leafM_run]; exact ht'

/-- **a move loop whose children do not write** (remaining depth 0) leaves the table as it was, except for the one
insert of a cut-off, under the node's own key -/
theorem childLoop_tt_leaf (ctx : Ctx) (child : NodeArgs → M Eval)
    (hc : ∀ a st, ((child a).run.run st).2.tt = st.tt) (a : NodeArgs) (hash : UInt64) :
    ∀ (buf : List Move) (alpha : Eval) (best : Option Move) (kind : Nat) (st : St),
      ((∀ x, ((childLoop ctx child a hash buf alpha best kind).run.run st).1 ≠ .ok (.error x)) →
        ((childLoop ctx child a hash buf alpha best kind).run.run st).2.tt = st.tt) ∧
      (∀ x, ((childLoop ctx child a hash buf alpha best kind).run.run st).1 = .ok (.error x) →
        ∃ e, ((childLoop ctx child a hash buf alpha best kind).run.run st).2.tt = st.tt.insert hash.toNat e) := by
  intro buf
  induction buf with
  | nil =>
    intro alpha best kind st
    rw [childLoop_nil_run]
    exact ⟨fun _ => rfl, fun x h => nomatch h⟩
  | cons mv rest ih =>
    intro alpha best kind st
    rw [childLoop_cons_run]
    cases ht : tryAsLegal a.s mv with
    | none => exact ⟨fun _ => rfl, fun x h => nomatch h⟩
    | some o =>
      cases o with
      | none => exact ih alpha best kind st
      | some r =>
        obtain ⟨m, next⟩ := r
        simp only []
        have h1 := hc (childArgs a next alpha) st
        generalize (child (childArgs a next alpha)).run.run st = out at h1
        obtain ⟨res, st'⟩ := out
        have h1' : st'.tt = st.tt := h1
        cases res with
        | error e => exact ⟨fun _ => h1', fun x h => nomatch h⟩
        | ok v =>
          simp only []
          by_cases g1 : -v ≥ a.beta
          · rw [if_pos g1]
            refine ⟨fun h => absurd rfl (h a.beta), fun x _ => ⟨entryOf a kindLower m a.beta, ?_⟩⟩
            show st'.tt.insert _ _ = _
            rw [h1']
          · rw [if_neg g1]
            by_cases g2 : -v > alpha
            · rw [if_pos g2, ← h1']; exact ih _ _ _ st'
            · rw [if_neg g2, ← h1']; exact ih _ _ _ st'


/-! ## 3. the root call of the first iteration -/

/-- what a recursive call on a listed successor guarantees (instance of `searchNode_inside`) -/
theorem childIn_searchNode {R : State → Prop} (hR : Region R) (hE : EvalBelowMate R) (ctx : Ctx) (rem : Nat)
    (a : NodeArgs) (next : State) (al' : Eval) (ha : R a.s) (hm : ∃ m, (m, next) ∈ legalMoves a.s)
    (hb1 : -M0 < a.beta) (hb2 : a.beta ≤ M0) (h1 : -M0 ≤ al') (h2 : al' < M0)
    (hd : a.curDepth + 2 * (rem + 1) + 70 < 2^31) : ChildIn (searchNode ctx rem) (childArgs a next al') := by
  intro st hst
  obtain ⟨m, hm⟩ := hm
  have hx := ext_le_one a
  have hwin : WinOK (childArgs a next al').alpha (childArgs a next al').beta := by
    show WinOK (-a.beta) (-al')
    unfold WinOK
    unfold Eval at *
    omega
  have hdep : (childArgs a next al').curDepth + 2 * rem + 70 < 2^31 := by
    show a.curDepth + 1 + (if a.curExt < Gen.extensionCap then extensionOf a.s else 0) + 2 * rem + 70 < 2^31
    omega
  obtain ⟨i1, i2⟩ := searchNode_inside hR hE ctx rem (childArgs a next al') st (hR.closed _ ha _ hm) hwin hdep
    (fun m' h' => nomatch h') hst
  refine ⟨i1, NoPoll.searchNode_nodes ctx rem _ st, fun v hv => i2 v hv ?_⟩
  show 1 ≤ a.curDepth + 1 + (if a.curExt < Gen.extensionCap then extensionOf a.s else 0)
  omega

/-- **in the first iteration the only table write of a worker is ONE insert under the root's key** (sequential model,
one worker): `analyze_recursive` with remaining depth 1 — every child has remaining depth 0 and is answered by the
repetition test, a table hit or quiescence, none of which writes — ends, whatever its outcome, whatever the table held
and whatever the arguments, with the table it started with or with that table after one insert under the key of its
own position. -/
theorem root1_table (ctx : Ctx) (a : NodeArgs) (st : St) :
    ((searchNode ctx 1 a).run.run st).2.tt = st.tt ∨
    ∃ e, ((searchNode ctx 1 a).run.run st).2.tt = st.tt.insert (Wee.hash ctx.keys a.s).toNat e := by
  rw [SearchCtl.searchNode_succ, nodeM_run]
  have ht := tick_tt ctx st
  generalize tick ctx st = out at ht
  obtain ⟨r, st1⟩ := out
  have ht' : st1.tt = st.tt := ht
  cases r with
  | error e => exact Or.inl ht'
  | ok u =>
    simp only []
    split
    · exact Or.inl ht'
    · split
      · exact Or.inl ht'
      · exact Or.inl ht'
      · rename_i al be _
        rw [expandM_run]
        cases hp : pseudoLegalMoves a.s with
        | none => exact Or.inl ht'
        | some pseudo =>
          simp only []
          obtain ⟨sorted, rg, hs, _⟩ := sort_rngOnly a.s pseudo st1
          rw [hs]
          simp only []
          obtain ⟨t1, t2⟩ := childLoop_tt_leaf ctx (searchNode ctx 0) (searchNode0_tt ctx) { a with alpha := al, beta := be }
            (Wee.hash ctx.keys a.s) (bufferOf a.prioritized sorted).reverse al Option.none kindUpper { st1 with rng := rg }
          generalize (childLoop ctx (searchNode ctx 0) { a with alpha := al, beta := be } (Wee.hash ctx.keys a.s)
            (bufferOf a.prioritized sorted).reverse al Option.none kindUpper).run.run { st1 with rng := rg } = out2 at t1 t2
          obtain ⟨r2, st2⟩ := out2
          cases r2 with
          | error e => exact Or.inl ((t1 (fun x h => nomatch h)).trans ht')
          | ok x =>
            cases x with
            | error b =>
              obtain ⟨e, he⟩ := t2 b rfl
              exact Or.inr ⟨e, by rw [show st2.tt = _ from he]; show st1.tt.insert _ _ = _; rw [ht']⟩
            | ok y =>
              obtain ⟨alpha', best, kind⟩ := y
              have h2 : st2.tt = st.tt := (t1 (fun x h => nomatch h)).trans ht'
              simp only []
              split
              · cases evaluate a.s a.s.turn a.curDepth <;> exact Or.inl h2
              · cases best with
                | none => exact Or.inl h2
                | some m => exact Or.inr ⟨_, by show st2.tt.insert _ _ = _; rw [h2]⟩

theorem find_insert_isSome {tt : TT.Access} (hwf : TTWf tt) (k : Nat) (e : TT.Entry) :
    ((tt.insert k e).find k).isSome = true := by
  obtain ⟨nT, nB, hT, hB, hinv⟩ := hwf
  rw [hinv.find_insert_self (by decide) hT hB]
  rfl

/-- **the root call of the first iteration leaves the root's key in the table.**  `R` a region with `EvalBelowMate`; a
root call (ply 0, the full root window, no prioritized move) at a position of `R` with at least one legal move; ANY table
of the shape of a reachable table (`TTWf`) whose stored evaluations are strictly inside the root window (`EvalIn`), any
history, any cancellation instant, any generator state and counters: if the call with remaining depth 1 ends normally, an
entry under the root's key is in the table.
(a) If there was one, it is still there or has been replaced in place (`root1_table`).  (b) If there was none, the window
is the full root window; the first legal child returns a value strictly inside it (`searchNode_inside`), which raises
alpha above `-mate0`; so a best move exists, the node counter has grown, and the call ends with its insert. -/
theorem root1_entry {R : State → Prop} (hR : Region R) (hE : EvalBelowMate R) (ctx : Ctx) (a : NodeArgs)
    (ha : R a.s) (hd0 : a.curDepth = 0) (hA : a.alpha = -M0) (hM : a.beta = M0) (hpr : a.prioritized = Option.none)
    (hmoves : legalMoves a.s ≠ []) (st : St) (hwf : TTWf st.tt) (hin : EvalIn st.tt) (v : Eval)
    (hok : ((searchNode ctx 1 a).run.run st).1 = .ok v) :
    (((searchNode ctx 1 a).run.run st).2.tt.find (Wee.hash ctx.keys a.s).toNat).isSome = true := by
  cases hf : st.tt.find (Wee.hash ctx.keys a.s).toNat with
  | some e0 =>
    rcases root1_table ctx a st with h | ⟨e, h⟩
    · rw [h, hf]; rfl
    · rw [h]; exact find_insert_isSome hwf _ _
  | none =>
    obtain ⟨hl, hdj⟩ := hR.good _ ha
    obtain ⟨L, hL⟩ := (C01_legal_results a.s hl hdj).1
    have hpos := M0_pos
    rw [SearchCtl.searchNode_succ, nodeM_run] at hok ⊢
    have ht := tick_tt ctx st
    generalize tick ctx st = out at ht hok
    obtain ⟨r, st1⟩ := out
    have ht' : st1.tt = st.tt := ht
    cases r with
    | error e => cases hok
    | ok u =>
      have hc : (decide (a.curDepth > 0) && ctx.history.contains (Wee.hash ctx.keys a.s)) = false := by
        rw [hd0]; rfl
      have hfind : st1.tt.find (Wee.hash ctx.keys a.s).toNat = Option.none := by rw [ht']; exact hf
      have hpr0 : probe a Option.none = .window a.alpha a.beta := rfl
      simp only [hc, hfind, hpr0, Bool.false_eq_true, if_false] at hok ⊢
      rw [expandM_run] at hok ⊢
      cases hp : pseudoLegalMoves a.s with
      | none => rw [hp] at hok; cases hok
      | some pseudo =>
        rw [hp] at hok
        simp only [] at hok ⊢
        obtain ⟨sorted, rg, hs, hperm⟩ := sort_rngOnly a.s pseudo st1
        rw [hs] at hok ⊢
        simp only [] at hok ⊢
        -- the facts about the move loop
        have hprio : ∀ m, a.prioritized = some m → LegalIn a.s m := fun m h => by rw [hpr] at h; cases h
        have hbuf := buffer_legal hL hprio hp hperm
        have hst1 : EvalIn ({ st1 with rng := rg } : St).tt := by show EvalIn st1.tt; rw [ht']; exact hin
        have hI := childLoop_inside ctx (searchNode ctx 0) { a with alpha := a.alpha, beta := a.beta }
          (Wee.hash ctx.keys a.s) (by show -M0 < a.beta; unfold Eval at *; omega) (by show a.beta ≤ M0; unfold Eval at *; omega)
          (bufferOf a.prioritized sorted).reverse
          (fun mv hmv m next al htry h1 h2 => childIn_searchNode hR hE ctx 0 _ next al ha
            ⟨m, hbuf mv hmv (m, next) htry⟩ (by show -M0 < a.beta; unfold Eval at *; omega) (by show a.beta ≤ M0; unfold Eval at *; omega) h1 h2
            (by show a.curDepth + 2 * (0 + 1) + 70 < 2^31; omega))
          a.alpha Option.none kindUpper { st1 with rng := rg } hst1 (by unfold Eval at *; omega) (by unfold Eval at *; omega)
        have hB := childLoop_best ctx (searchNode ctx 0) { a with alpha := a.alpha, beta := a.beta }
          (Wee.hash ctx.keys a.s) (bufferOf a.prioritized sorted).reverse a.alpha Option.none kindUpper
          { st1 with rng := rg }
        have hacc : ∃ mv ∈ (bufferOf a.prioritized sorted).reverse, ∃ r', tryAsLegal a.s mv = some (some r') := by
          cases hlm : legalMoves a.s with
          | nil => exact absurd hlm hmoves
          | cons r0 rest =>
            have hr0 : r0 ∈ legalMoves a.s := by rw [hlm]; exact List.mem_cons_self
            obtain ⟨ps, hps', hmem, htry⟩ := legal_accepted hr0
            rw [hp] at hps'
            cases hps'
            refine ⟨r0.1, List.mem_reverse.2 ?_, r0, htry⟩
            rw [hpr]
            exact hperm.mem_iff.2 hmem
        have hP := childLoop_progress ctx (searchNode ctx 0) (NoPoll.searchNode_nodes ctx 0)
          { a with alpha := a.alpha, beta := a.beta } (Wee.hash ctx.keys a.s) (bufferOf a.prioritized sorted).reverse
          a.alpha Option.none kindUpper { st1 with rng := rg }
        obtain ⟨t1, t2⟩ := childLoop_tt_leaf ctx (searchNode ctx 0) (searchNode0_tt ctx)
          { a with alpha := a.alpha, beta := a.beta } (Wee.hash ctx.keys a.s) (bufferOf a.prioritized sorted).reverse
          a.alpha Option.none kindUpper { st1 with rng := rg }
        generalize (childLoop ctx (searchNode ctx 0) { a with alpha := a.alpha, beta := a.beta } (Wee.hash ctx.keys a.s)
          (bufferOf a.prioritized sorted).reverse a.alpha Option.none kindUpper).run.run { st1 with rng := rg } = out2
          at hok hI hB hP t1 t2 ⊢
        obtain ⟨r2, st2⟩ := out2
        have hwf1 : TTWf st1.tt := by rw [ht']; exact hwf
        cases r2 with
        | error e => cases hok
        | ok x =>
          cases x with
          | error b =>
            obtain ⟨e, he⟩ := t2 b rfl
            show (st2.tt.find _).isSome = true
            rw [show st2.tt = _ from he]
            exact find_insert_isSome hwf1 _ _
          | ok y =>
            obtain ⟨alpha', best, kind⟩ := y
            have h2 : st2.tt = st1.tt := t1 (fun x h => nomatch h)
            have hlt : st1.nodes < st2.nodes := hP (alpha', best, kind) hacc rfl
            obtain ⟨_, _, j3⟩ := hI.2.2.2 alpha' best kind rfl
            have hgt : -M0 < alpha' := j3 (Or.inr hlt)
            have hbest : best.isSome = true := by
              rcases hB alpha' best kind rfl with ⟨e1, _, _⟩ | ⟨e1, _⟩
              · rw [e1, hA] at hgt; exact absurd hgt (Int.lt_irrefl _)
              · exact e1
            have hne : (st2.nodes == st1.nodes) = false := by
              rw [beq_eq_false_iff_ne]; omega
            simp only [] at hok ⊢
            rw [if_neg (by rw [hne]; decide)] at hok ⊢
            cases best with
            | none => cases hbest
            | some m =>
              show ((st2.tt.insert _ _).find _).isSome = true
              rw [h2]
              exact find_insert_isSome hwf1 _ _


/-! ## 4. no interrupt below the poll interval; the workers of the first iteration -/

/-- instance of the generic induction: at an interrupt the node counter is a positive multiple of the poll interval -/
theorem interrupt_walk (ctx : Ctx) :
    Walk ctx (fun _ => True) (fun st => Gen.pollInterval ≤ st.nodes) (fun _ _ => True) (fun _ => True) where
  tick := by
    intro st _
    rw [tick_eq]
    split
    · rename_i h
      split
      · refine ⟨trivial, ?_⟩
        show Gen.pollInterval ≤ st.nodes + 1
        unfold Gen.pollInterval at *
        omega
      · trivial
    · trivial
  rng := fun _ _ h => h
  underflow := fun _ _ _ _ _ _ _ _ => trivial
  leaf := fun _ _ _ _ _ _ => trivial
  pseudo := fun _ _ _ _ => trivial
  legal := fun _ _ _ _ _ _ _ _ => trivial
  eval := fun _ _ _ _ => trivial
  window := fun _ _ _ _ _ => trivial
  child := fun _ _ _ _ _ _ _ _ _ _ _ => trivial
  insert := fun _ _ _ _ _ _ _ _ _ _ _ _ _ _ _ => trivial

/-- **a call of `analyze_recursive` that is interrupted has counted at least `pollInterval` nodes** (the flag is only read
when the worker's counter reaches a multiple of 10000) -/
theorem searchNode_interrupt_nodes (ctx : Ctx) (rem : Nat) (a : NodeArgs) (st : St)
    (h : ((searchNode ctx rem a).run.run st).1 = .error .interrupt) :
    Gen.pollInterval ≤ ((searchNode ctx rem a).run.run st).2.nodes := by
  have hw := searchNode_walk (interrupt_walk ctx) rem a st trivial trivial
  generalize (searchNode ctx rem a).run.run st = out at h hw
  obtain ⟨r, st'⟩ := out
  cases h
  exact hw.2

/-- the table invariants the workers of the first iteration rely on and re-establish: the C04 invariants (`depth ≤
max_depth`, shape of a reachable table, a legal move under the root's key) and the evaluation range -/
def FirstI (ctx : Ctx) (root : State) (nT nB : Nat) (tt : TT.Access) : Prop :=
  (tt.All DepthOK ∧ TT.AInv Gen.bucketSize nT nB tt ∧ RootInv ctx root tt) ∧ EvalIn tt

/-- **one worker of the first iteration** on any table satisfying `FirstI`: it does not panic, is not interrupted (it
counts at most `1 + #legal moves < pollInterval` nodes), hands back a table satisfying `FirstI` that differs from the one
it was given by at most one insert under the root's key, and that table holds an entry under the root's key. -/
theorem firstWorker_run {R : State → Prop} (hR : Region R) (hE : EvalBelowMate R) (ctx : Ctx) (root : State)
    (hroot : R root) (hmoves : legalMoves root ≠ []) (L : List (Move × State)) (hL : legalMoves? root = some L)
    (hfew : L.length + 1 < Gen.pollInterval) (nT nB : Nat) (hT : 0 < nT) (hB : 0 < nB)
    (hhist : ctx.history.contains (Wee.hash ctx.keys root) = true)
    (tt : TT.Access) (rng : Rng.ChaCha8) (polls : Nat) (hI : FirstI ctx root nT nB tt) :
    (∃ e, (runWorker ctx root 1 Option.none tt rng polls).1 = .ok e) ∧
    FirstI ctx root nT nB (runWorker ctx root 1 Option.none tt rng polls).2.tt ∧
    ((runWorker ctx root 1 Option.none tt rng polls).2.tt.find (Wee.hash ctx.keys root).toNat).isSome = true ∧
    ((runWorker ctx root 1 Option.none tt rng polls).2.tt = tt ∨
      ∃ e, (runWorker ctx root 1 Option.none tt rng polls).2.tt = tt.insert (Wee.hash ctx.keys root).toNat e) := by
  obtain ⟨hsafe, hin⟩ := hI
  obtain ⟨hl, hdj⟩ := hR.good _ hroot
  have h1 := runWorker_safe ctx root nT nB hT hB hhist capturesShrink ⟨hl, hdj⟩ 1 Option.none tt rng polls hsafe
    (fun m hm => nomatch hm)
  rw [SearchCtl.runWorker_eq] at h1 ⊢
  have h2 := searchNode_inside hR hE ctx 1 (SearchCtl.rootArgs root 1 Option.none) { tt, rng, nodes := 0, polls } hroot
    winOK_root (by show 0 + 2 * 1 + 70 < 2^31; decide) (fun m hm => nomatch hm) hin
  have h3 := NoPoll.root1_nodes ctx (SearchCtl.rootArgs root 1 Option.none) rfl L hL { tt, rng, nodes := 0, polls }
  have h4 := searchNode_interrupt_nodes ctx 1 (SearchCtl.rootArgs root 1 Option.none) { tt, rng, nodes := 0, polls }
  have h5 := root1_entry hR hE ctx (SearchCtl.rootArgs root 1 Option.none) hroot rfl rfl rfl rfl hmoves
    { tt, rng, nodes := 0, polls } ⟨nT, nB, hT, hB, hsafe.2.1⟩ hin
  have h6 := root1_table ctx (SearchCtl.rootArgs root 1 Option.none) { tt, rng, nodes := 0, polls }
  generalize (searchNode ctx 1 (SearchCtl.rootArgs root 1 Option.none)).run.run { tt, rng, nodes := 0, polls } = out
    at h1 h2 h3 h4 h5 h6 ⊢
  obtain ⟨r, st'⟩ := out
  cases r with
  | ok e => exact ⟨⟨e, rfl⟩, ⟨h1.1, h2.1⟩, h5 e rfl, h6⟩
  | error e =>
    exfalso
    cases e with
    | interrupt =>
      have := h4 rfl
      have h3' : st'.nodes ≤ 0 + 1 + L.length := h3
      have h4' : Gen.pollInterval ≤ st'.nodes := this
      omega
    | panic w => exact h1.2 w rfl


/-- the table after a list of inserts under ONE key -/
def insertsAt (tt : TT.Access) (k : Nat) (es : List TT.Entry) : TT.Access := es.foldl (fun t e => t.insert k e) tt

theorem insertsAt_append (tt : TT.Access) (k : Nat) (es es' : List TT.Entry) :
    insertsAt tt k (es ++ es') = insertsAt (insertsAt tt k es) k es' := by
  unfold insertsAt; rw [List.foldl_append]

theorem first_searchDepth (i : Nat) : (0 - i % 2) + 1 = 1 := by omega

theorem first_best (i : Nat) : (if i == 0 then (Option.none : Option Move) else Option.none) = Option.none := by
  split <;> rfl

/-- **the workers of the first iteration, run one after the other**, any number of them with any seeds, on any table
satisfying `FirstI`: none panics, none is interrupted, the table handed back satisfies `FirstI`, it is the initial table
after a list of inserts under the root's key, and — if at least one worker ran, or the key was there before — it holds an
entry under the root's key. -/
theorem runWorkers_first {R : State → Prop} (hR : Region R) (hE : EvalBelowMate R) (ctx : Ctx) (root : State)
    (hroot : R root) (hmoves : legalMoves root ≠ []) (L : List (Move × State)) (hL : legalMoves? root = some L)
    (hfew : L.length + 1 < Gen.pollInterval) (nT nB : Nat) (hT : 0 < nT) (hB : 0 < nB)
    (hhist : ctx.history.contains (Wee.hash ctx.keys root) = true) :
    ∀ (l : List (Nat × UInt64)) (acc : WorkersOut), acc.panic = Option.none → acc.interrupted = false →
      FirstI ctx root nT nB acc.tt →
      (runWorkers ctx root 0 Option.none l acc).panic = Option.none ∧
      (runWorkers ctx root 0 Option.none l acc).interrupted = false ∧
      FirstI ctx root nT nB (runWorkers ctx root 0 Option.none l acc).tt ∧
      (∃ es, (runWorkers ctx root 0 Option.none l acc).tt = insertsAt acc.tt (Wee.hash ctx.keys root).toNat es) ∧
      ((l ≠ [] ∨ (acc.tt.find (Wee.hash ctx.keys root).toNat).isSome = true) →
        ((runWorkers ctx root 0 Option.none l acc).tt.find (Wee.hash ctx.keys root).toNat).isSome = true) := by
  intro l
  induction l with
  | nil =>
    intro acc hp hi hI
    refine ⟨hp, hi, hI, ⟨[], rfl⟩, fun h => ?_⟩
    rcases h with h | h
    · exact absurd rfl h
    · exact h
  | cons x rest ih =>
    obtain ⟨i, seed⟩ := x
    intro acc hp hi hI
    rw [runWorkers]
    have hc : (acc.interrupted || acc.panic.isSome) = false := by rw [hp, hi]; rfl
    rw [if_neg (by rw [hc]; decide)]
    simp only [first_searchDepth, first_best]
    obtain ⟨⟨e, w1⟩, w2, w3, w4⟩ := firstWorker_run hR hE ctx root hroot hmoves L hL hfew nT nB hT hB hhist acc.tt
      (Rng.seedFromU64 seed) acc.polls hI
    generalize runWorker ctx root 1 Option.none acc.tt (Rng.seedFromU64 seed) acc.polls = out at w1 w2 w3 w4
    obtain ⟨r, st'⟩ := out
    cases w1
    simp only []
    obtain ⟨i1, i2, i3, ⟨es, i4⟩, i5⟩ := ih
      { acc with tt := st'.tt, polls := st'.polls, evals := acc.evals ++ [e], sumNodes := acc.sumNodes + st'.nodes }
      hp hi w2
    refine ⟨i1, i2, i3, ?_, fun _ => i5 (Or.inr w3)⟩
    rcases w4 with h | ⟨e', h⟩
    · exact ⟨es, by rw [i4]; show insertsAt st'.tt _ _ = _; rw [show st'.tt = acc.tt from h]⟩
    · refine ⟨e' :: es, ?_⟩
      rw [i4]
      show insertsAt st'.tt _ _ = _
      rw [show st'.tt = _ from h]
      rfl

theorem drawSeeds_length : ∀ (n : Nat) (r : Rng.ChaCha8), (drawSeeds n r).1.length = n := by
  intro n
  induction n with
  | zero => intro r; rfl
  | succ n ih =>
    intro r
    rw [drawSeeds]
    simp only [List.length_cons, ih]


theorem zip_range_ne_nil {n : Nat} (hn : 0 < n) (seeds : List UInt64) (hs : seeds.length = n) :
    (List.range n).zip seeds ≠ [] := by
  intro h
  have := congrArg List.length h
  rw [List.length_zip, List.length_range, hs] at this
  simp at this
  omega

/-- **`FirstRootEntryKept` for ANY incoming memory and ANY number of workers.**  `R` a region with `EvalBelowMate`; the
root in it, with at least one and fewer than `pollInterval - 1` legal moves; an incoming artifact whose table has the
shape of a reachable table, `depth ≤ max_depth` in every entry, a legal move of the root under the root's key (if any),
and every stored evaluation strictly inside the root window; any seed, any cancellation instant, any history; at least
one worker in the first iteration (or an entry under the root's key already there).  Then the workers of the first
iteration end without panic or interrupt and the root's entry is in the table when the line is read back. -/
theorem first_root_entry_kept_always {R : State → Prop} (hR : Region R) (hE : EvalBelowMate R) (root : State)
    (hroot : R root) (hmoves : legalMoves root ≠ []) (hfew : (legalMoves root).length + 1 < Gen.pollInterval)
    (art : Artifact) (nT nB : Nat) (hT : 0 < nT) (hB : 0 < nB) (hdep : art.tt.All DepthOK)
    (hinv : TT.AInv Gen.bucketSize nT nB art.tt) (hprio : PrioritizedOK art root) (hin : EvalIn art.tt)
    (rng0 : Rng.ChaCha8) (workersOf : Nat → Nat) (cancelAt : Option Nat)
    (hw : 0 < workersOf 0 ∨ (art.tt.find (Wee.hash art.keys.keys root).toNat).isSome = true) :
    FirstRootEntryKept root rng0 art workersOf cancelAt ∧
    FirstI (iterCtx root art cancelAt) root nT nB (firstWorkers root rng0 art workersOf cancelAt).tt ∧
    ∃ es, (firstWorkers root rng0 art workersOf cancelAt).tt =
      insertsAt art.tt (Wee.hash art.keys.keys root).toNat es := by
  obtain ⟨hl, hdj⟩ := hR.good _ hroot
  obtain ⟨L, hL⟩ := (C01_legal_results root hl hdj).1
  have hLe : legalMoves root = L := by unfold legalMoves; rw [hL]; rfl
  rw [hLe] at hfew
  have hhist : (iterCtx root art cancelAt).history.contains (Wee.hash (iterCtx root art cancelAt).keys root) = true := by
    show (Wee.hash art.keys.keys root :: art.history).contains (Wee.hash art.keys.keys root) = true
    simp
  obtain ⟨h1, h2, h3, h4, h5⟩ := runWorkers_first hR hE (iterCtx root art cancelAt) root hroot hmoves L hL hfew nT nB hT hB
    hhist ((List.range (workersOf 0)).zip (drawSeeds (workersOf 0) rng0).1)
    { tt := art.tt, polls := 0, evals := [], sumNodes := 0 } rfl rfl ⟨⟨hdep, hinv, hprio⟩, hin⟩
  refine ⟨⟨h1, h2, h5 ?_⟩, h3, h4⟩
  rcases hw with hw | hw
  · exact Or.inl (zip_range_ne_nil hw _ (drawSeeds_length _ _))
  · exact Or.inr hw

/-! ## 5. the evaluation range through the deepening loop -/

theorem runWorker_evalIn {R : State → Prop} (hR : Region R) (hE : EvalBelowMate R) (ctx : Ctx) (root : State)
    (hroot : R root) (sd : Nat) (hsd : 2 * sd + 70 < 2^31) (best : Option Move)
    (hbest : ∀ m, best = some m → LegalIn root m) (tt : TT.Access) (rng : Rng.ChaCha8) (polls : Nat)
    (h : EvalIn tt) : EvalIn (runWorker ctx root sd best tt rng polls).2.tt := by
  rw [SearchCtl.runWorker_eq]
  exact (searchNode_inside hR hE ctx sd (SearchCtl.rootArgs root sd best) { tt, rng, nodes := 0, polls } hroot winOK_root
    (by show 0 + 2 * sd + 70 < 2^31; omega) hbest h).1

theorem runWorkers_evalIn {R : State → Prop} (hR : Region R) (hE : EvalBelowMate R) (ctx : Ctx) (root : State)
    (hroot : R root) (depth : Nat) (hd : 2 * (depth + 1) + 70 < 2^31) (bestMv : Option Move)
    (hbest : ∀ m, bestMv = some m → LegalIn root m) :
    ∀ (ws : List (Nat × UInt64)) (acc : WorkersOut), EvalIn acc.tt →
      EvalIn (runWorkers ctx root depth bestMv ws acc).tt := by
  intro ws
  induction ws with
  | nil => intro acc h; exact h
  | cons w rest ih =>
    intro acc h
    obtain ⟨i, seed⟩ := w
    rw [runWorkers]
    split
    · exact h
    · have hk := runWorker_evalIn hR hE ctx root hroot ((depth - i % 2) + 1) (by omega)
        (if i == 0 then bestMv else Option.none)
        (by intro m hm; split at hm
            · exact hbest m hm
            · cases hm) acc.tt (Rng.seedFromU64 seed) acc.polls h
      dsimp only
      split
      · rename_i e st heq
        rw [heq] at hk
        exact ih _ hk
      · rename_i st heq
        rw [heq] at hk
        exact hk
      · exact h

theorem iterStep_evalIn {R : State → Prop} (hR : Region R) (hE : EvalBelowMate R) (ctx : Ctx) (root : State)
    (hroot : R root) (rootHash : UInt64) (workers depth : Nat) (hd : 2 * (depth + 1) + 70 < 2^31) (st : IterSt)
    (hbest : ∀ m, st.bestMv = some m → LegalIn root m) (h : EvalIn st.tt) :
    EvalIn (iterStep ctx root rootHash workers depth st).tt := by
  rw [iterStep_tt]
  split
  · exact h
  · exact runWorkers_evalIn hR hE ctx root hroot depth hd st.bestMv hbest _ _ h

theorem iterLoop_evalIn {R : State → Prop} (hR : Region R) (hE : EvalBelowMate R) (ctx : Ctx)
    (hcf : CollisionFree ctx.keys R) (root : State) (hroot : R root) (rootHash : UInt64) (workersOf : Nat → Nat)
    (D : Nat) (hD : 2 * D + 70 < 2^31) :
    ∀ (n depth : Nat) (st : IterSt), depth + n ≤ D → IterInv ctx.keys (upTo (fun _ => R) D) root st → EvalIn st.tt →
      EvalIn (iterLoop ctx root rootHash workersOf n depth st).tt := by
  intro n
  induction n with
  | zero => intro depth st _ _ h; exact h
  | succ n ih =>
    intro depth st hd hinv h
    rw [iterLoop]
    split
    · exact h
    · refine ih _ _ (by omega) ?_ ?_
      · exact iterStep_inv hR.graded D ctx (hcf.congr (fun s hs => (upTo_const D s).1 hs)) root hroot rootHash _ depth
          (by omega) st hinv
      · exact iterStep_evalIn hR hE ctx root hroot rootHash _ depth (by omega) st hinv.best h

/-- **`iterate` keeps the evaluation range**: for a region with `EvalBelowMate`, collision-free keys, an incoming table
satisfying the C03 invariant and `EvalIn`, and a depth limit `≤ 10^9` (plies stay below `2^31`), the table of the artifact
handed back satisfies `EvalIn` — for every seed, worker counts, cancellation instant. -/
theorem iterate_evalIn {R : State → Prop} (hR : Region R) (hE : EvalBelowMate R) (root : State) (hroot : R root)
    (art : Artifact) (hcf : CollisionFree art.keys.keys R) (htt : TInv art.keys.keys R art.tt) (hin : EvalIn art.tt)
    (rng0 : Rng.ChaCha8) (maxDepth : Option Nat) (workersOf : Nat → Nat) (cancelAt : Option Nat) (fuelDepth : Nat)
    (hlim : maxDepth.getD fuelDepth ≤ 1000000000) :
    EvalIn (iterate root rng0 maxDepth art workersOf cancelAt fuelDepth).artifact.tt := by
  rw [iterate_eq]
  have hle : iterLimit root maxDepth fuelDepth ≤ maxDepth.getD fuelDepth := by
    unfold iterLimit
    split
    · exact Nat.zero_le _
    · cases maxDepth <;> exact Nat.le_refl _
  have h0 : IterInv (iterCtx root art cancelAt).keys (upTo (fun _ => R) (iterLimit root maxDepth fuelDepth)) root
      (iterInit rng0 art) :=
    ⟨htt.congr (fun s hs => (upTo_const _ s).1 hs), fun m hm => (by cases hm), fun ev line hm => (by cases hm)⟩
  exact iterLoop_evalIn hR hE (iterCtx root art cancelAt) hcf root hroot (Wee.hash art.keys.keys root) workersOf
    (iterLimit root maxDepth fuelDepth) (by omega) _ 0 _ (by omega) h0 hin


/-! ## 6. the first iteration only writes under the root's key (unconditional) -/

/-- **`C03_first_iteration_only_root_inserts`, worker list.**  For ANY table, context, seeds, worker count and whatever
the workers' outcomes (normal, interrupted, panic): the table after the workers of the first iteration (`depth = 0`, every
worker searches the root with `search_depth = 1`) is the initial table after a list of inserts under the root's key. -/
theorem runWorkers_first_table (ctx : Ctx) (root : State) (bestMv : Option Move) :
    ∀ (l : List (Nat × UInt64)) (acc : WorkersOut),
      ∃ es, (runWorkers ctx root 0 bestMv l acc).tt = insertsAt acc.tt (Wee.hash ctx.keys root).toNat es := by
  intro l
  induction l with
  | nil => intro acc; exact ⟨[], rfl⟩
  | cons x rest ih =>
    obtain ⟨i, seed⟩ := x
    intro acc
    rw [runWorkers]
    split
    · exact ⟨[], rfl⟩
    · simp only [first_searchDepth]
      have h := root1_table ctx (SearchCtl.rootArgs root 1 (if i == 0 then bestMv else Option.none))
        { tt := acc.tt, rng := Rng.seedFromU64 seed, nodes := 0, polls := acc.polls }
      rw [← SearchCtl.runWorker_eq] at h
      generalize runWorker ctx root 1 (if i == 0 then bestMv else Option.none) acc.tt (Rng.seedFromU64 seed) acc.polls
        = out at h
      obtain ⟨r, st'⟩ := out
      have h' : st'.tt = acc.tt ∨ ∃ e, st'.tt = acc.tt.insert (Wee.hash ctx.keys root).toNat e := h
      cases r with
      | ok e =>
        simp only []
        obtain ⟨es, hes⟩ := ih { acc with tt := st'.tt, polls := st'.polls, evals := acc.evals ++ [e], sumNodes := acc.sumNodes + st'.nodes }
        rcases h' with h1 | ⟨e1, h1⟩
        · exact ⟨es, by rw [hes]; show insertsAt st'.tt _ _ = _; rw [h1]⟩
        · exact ⟨e1 :: es, by rw [hes]; show insertsAt st'.tt _ _ = _; rw [h1]; rfl⟩
      | error e =>
        cases e with
        | interrupt =>
          simp only []
          rcases h' with h1 | ⟨e1, h1⟩
          · exact ⟨[], by show st'.tt = _; rw [h1]; rfl⟩
          · exact ⟨[e1], by show st'.tt = _; rw [h1]; rfl⟩
        | panic w => exact ⟨[], rfl⟩

/-- after inserts under one key into a table of the shape of a reachable table, that key is found iff it was found
before or something was inserted -/
theorem insertsAt_find (k : Nat) : ∀ (es : List TT.Entry) (tt : TT.Access), TTWf tt → TTWf (insertsAt tt k es) ∧
      (((insertsAt tt k es).find k).isSome = true ↔ ((tt.find k).isSome = true ∨ es ≠ [])) := by
  intro es
  induction es with
  | nil => intro tt hwf; exact ⟨hwf, by show (tt.find k).isSome = true ↔ _ ∨ ([] : List TT.Entry) ≠ []; simp⟩
  | cons e es ih =>
    intro tt hwf
    obtain ⟨i1, i2⟩ := ih (tt.insert k e) (hwf.insert _ _)
    refine ⟨i1, ?_⟩
    show ((insertsAt (tt.insert k e) k es).find k).isSome = true ↔ _
    rw [i2, find_insert_isSome hwf]
    simp

end Wee.Search
