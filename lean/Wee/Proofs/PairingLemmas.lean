import Wee.Proofs.EnvLemmas
/-!
# Lemmas for the pairing clause of C06 ("the reported first move keeps the mate") with several workers

Rust: `weechess-engine/src/searcher.rs`, `analyze_iterative`: the reported evaluation is the maximum over the workers'
root values, the reported line is read back from the shared table (`iter_moves`), whose root entry every worker that is
not answered by its first probe overwrites when it finishes its root call.

1. `finishStep_keeps` / `stepS_keeps`: one iteration under any schedule — if the root entry of the table the line is read
   from carries a winning value whenever the reported evaluation is winning, every report of the iteration keeps the mate.
2. the root call of a worker, in any environment (`runWorkerE_root_cases`): the first operation is the probe of the root
   key; a worker that is answered by it performs no other operation; a store under the root key is the worker's LAST
   operation and carries the value the worker returns; a winning value is the value of the probed entry or of that
   final store.
3. rely/guarantee: every store under the root key answers the shallowest workers (`interleaving_rootAdm`);
4. the frame of the root entry: while the root's bucket is not full, only stores under the root key change what is found
   under it (`RootRoomy`, `root_frame`); the shallow workers are answered by their probe and never write
   (`shallow_workers_answered`);
5. with one deep worker the root entry is the initial one until that worker stores and its store afterwards
   (`root_entry_track`), hence the pairing condition (`one_deep_writer_paired`).
-/
namespace Wee.Pairing
open Wee Wee.Search Wee.Env Wee.C06 Wee.Outcome

/-! ## 1. the report step -/

/-- the evaluation `finishStep` reports for a completed iteration -/
def reportedEval (w : WorkersOut) (st : IterSt) : Eval :=
  match w.evals with | [] => st.bestEval | e :: es => es.foldl max e

/-- **the pairing condition on joined results**: if the iteration completed (no interrupt) and the evaluation that will
be reported is winning, the entry found under the root key in the joined table carries a winning value -/
def PairedAt (rk : Nat) (w : WorkersOut) (st : IterSt) : Prop :=
  w.interrupted = false → Ev.posInf ≤ reportedEval w st → ∀ x, w.tt.find rk = some x → Ev.posInf ≤ x.eval

/-- the report step: with a sound joined table, every event the step emits keeps the mate, provided the pairing
condition holds (on the interrupt path it holds by construction: evaluation and line come from the same entry) -/
theorem finishStep_keeps {K : Keys} {D : State → Prop} {L nT nB : Nat} (ctx : Ctx) (hK : ctx.keys = K) (root : State)
    (hD : D root) (rootHash : UInt64) (hrh : rootHash = hash ctx.keys root) (depth : Nat) (rng : Rng.ChaCha8)
    (w : WorkersOut) (st : IterSt) (hwtt : TTInv K D L nT nB w.tt)
    (hpair : PairedAt rootHash.toNat w st) :
    ∃ new, (finishStep ctx root rootHash depth rng w st).events = st.events ++ new ∧ ∀ ev ∈ new, MoveKeeps root ev := by
  subst hrh
  subst hK
  have noEv : ∀ evs : List Event, ∃ new, evs = evs ++ new ∧ ∀ ev ∈ new, MoveKeeps root ev :=
    fun evs => ⟨[], (List.append_nil _).symm, fun _ h => nomatch h⟩
  unfold finishStep
  cases hp : w.panic with
  | some why => exact noEv _
  | none =>
    simp only
    have hline : ∀ n, (walkLine ctx.keys w.tt (n + 1) root).isEmpty = false →
        ∃ x, w.tt.find (hash ctx.keys root).toNat = some x ∧
          (walkLine ctx.keys w.tt (n + 1) root).head? = some x.mv.toUInt32 := fun n hl => C06.walkLine_head hl
    by_cases hi : (!w.interrupted) = true
    · rw [if_pos hi]
      have hi' : w.interrupted = false := by simpa using hi
      by_cases hl : (walkLine ctx.keys w.tt (depth + 1) root).isEmpty = true
      · rw [if_pos hl]
        exact ⟨[.progress (depth + 1) (st.nodes + w.sumNodes)], rfl,
          fun ev hev => by rw [List.mem_singleton.1 hev]; trivial⟩
      · rw [if_neg hl]
        have hl' : (walkLine ctx.keys w.tt (depth + 1) root).isEmpty = false := by
          cases hx : (walkLine ctx.keys w.tt (depth + 1) root).isEmpty <;> simp_all
        obtain ⟨x, hx1, hx2⟩ := hline depth hl'
        obtain ⟨_, hmvw⟩ := root_entry_move hwtt.2 hD hx1
        refine ⟨[.progress (depth + 1) (st.nodes + w.sumNodes),
          .best (match w.evals with | [] => st.bestEval | e :: es => List.foldl max e es)
            (walkLine ctx.keys w.tt (depth + 1) root)], by rw [List.append_assoc]; rfl, ?_⟩
        intro ev hev
        rcases List.mem_cons.1 hev with h1 | h1
        · rw [h1]; trivial
        · rw [List.mem_singleton.1 h1]
          intro hpos
          have hx := hpair hi' hpos x hx1
          rw [posInf_eq] at hx
          obtain ⟨r, hr, hr1, hr2⟩ := hmvw hx
          exact ⟨r, hr, by rw [hx2, hr1], hr2⟩
    · rw [if_neg hi]
      cases hf : w.tt.find (hash ctx.keys root).toNat with
      | none => exact noEv _
      | some x =>
        simp only
        by_cases hgt : x.eval > st.bestEval
        · rw [if_pos hgt]
          by_cases hl : (walkLine ctx.keys w.tt (depth + 1) root).isEmpty = true
          · rw [if_pos hl]
            exact noEv _
          · rw [if_neg hl]
            have hl' : (walkLine ctx.keys w.tt (depth + 1) root).isEmpty = false := by
              cases hx : (walkLine ctx.keys w.tt (depth + 1) root).isEmpty <;> simp_all
            obtain ⟨x', hx1, hx2⟩ := hline depth hl'
            rw [hf] at hx1
            cases hx1
            obtain ⟨_, hmvw⟩ := root_entry_move hwtt.2 hD hf
            refine ⟨[_], rfl, fun ev hev => ?_⟩
            rw [List.mem_singleton.1 hev]
            intro hpos
            rw [posInf_eq] at hpos
            obtain ⟨r, hr, hr1, hr2⟩ := hmvw hpos
            exact ⟨r, hr, by rw [hx2, hr1], hr2⟩
        · rw [if_neg hgt]
          exact noEv _

/-- what one iteration under a schedule consists of, with the schedule kept visible (`StepS` hides it under an
existential): the started workers, the global history, the joined results -/
structure StepData (ctx : Ctx) (root : State) (rootHash : UInt64) (workers depth : Nat) (st st' : IterSt) where
  pollsOf : Nat → Nat
  started : List Worker
  H : History
  polls' : Nat
  sub : started.Sublist (workersOfIteration depth st.bestMv (drawSeeds workers st.rng).1 pollsOf)
  all : (joinOf ctx root st.tt started H polls').interrupted = false →
    (joinOf ctx root st.tt started H polls').panic = Option.none →
    started = workersOfIteration depth st.bestMv (drawSeeds workers st.rng).1 pollsOf
  il : Interleaving ctx root st.tt started H
  eq : st' = finishStep ctx root rootHash depth (drawSeeds workers st.rng).2 (joinOf ctx root st.tt started H polls') st

theorem StepData.stepS {ctx : Ctx} {root : State} {rootHash : UInt64} {workers depth : Nat} {st st' : IterSt}
    (d : StepData ctx root rootHash workers depth st st') : StepS ctx root rootHash workers depth st st' :=
  ⟨d.pollsOf, d.started, d.H, d.polls', d.sub, d.all, d.il, d.eq⟩

theorem StepData.of_stepS {ctx : Ctx} {root : State} {rootHash : UInt64} {workers depth : Nat} {st st' : IterSt}
    (h : StepS ctx root rootHash workers depth st st') : Nonempty (StepData ctx root rootHash workers depth st st') := by
  obtain ⟨pollsOf, started, H, polls', h1, h2, h3, h4⟩ := h
  exact ⟨⟨pollsOf, started, H, polls', h1, h2, h3, h4⟩⟩

/-- the joined results of the step -/
def StepData.join {ctx : Ctx} {root : State} {rootHash : UInt64} {workers depth : Nat} {st st' : IterSt}
    (d : StepData ctx root rootHash workers depth st st') : WorkersOut :=
  joinOf ctx root st.tt d.started d.H d.polls'

/-- **one iteration under any schedule**: if the pairing condition holds for the joined results, every event the
iteration emits keeps the mate, and the loop invariant holds again -/
theorem stepData_keeps {K : Keys} {D : State → Prop} {L nT nB : Nat} (g : Geo L nT nB) (dom : Domain K D)
    (ctx : Ctx) (hK : ctx.keys = K) (root : State) (hD : D root) (rootHash : UInt64) (hrh : rootHash = hash ctx.keys root)
    (workers depth : Nat) (st st' : IterSt) (h : IterOK K D L nT nB root st)
    (d : StepData ctx root rootHash workers depth st st') (hpair : PairedAt rootHash.toNat d.join st) :
    IterOK K D L nT nB root st' ∧ ∃ new, st'.events = st.events ++ new ∧ ∀ ev ∈ new, MoveKeeps root ev := by
  have hs := interleaving_sound g dom ctx hK root hD st.tt h.1 _
    (fun w hw => bestOK_of_mem h.2.1 (d.sub.subset hw)) d.H d.il
  have hwtt : TTInv K D L nT nB d.join.tt := by
    show TTInv K D L nT nB (joinOf ctx root st.tt d.started d.H d.polls').tt
    rw [joinOf_tt, ← take_all_table]; exact hs.2.1 _
  refine ⟨(stepS_sound g dom ctx hK root hD rootHash hrh workers depth st st' h d.stepS).1, ?_⟩
  rw [d.eq]
  exact finishStep_keeps ctx hK root hD rootHash hrh depth _ _ st hwtt hpair


/-! ## 2. the shape of a worker's root call (any environment) -/

open Wee.SearchCtl (childArgs entryOf bufferOf)

/-- no store under key `k` in a log -/
def NoKey (k : Nat) (l : List TOp) : Prop := ∀ e, TOp.insert k e ∉ l

theorem NoKey.nil (k : Nat) : NoKey k [] := fun _ h => nomatch h
theorem NoKey.append {k : Nat} {l1 l2 : List TOp} (h1 : NoKey k l1) (h2 : NoKey k l2) : NoKey k (l1 ++ l2) :=
  fun e h => (List.mem_append.1 h).elim (h1 e) (h2 e)

/-- outcome of the move loop of a node with key `hk` whose children never store under `hk` -/
def LoopShape (hk : Nat) (a : NodeArgs) (alpha : Eval) (best : Option Move) (kind : Nat) :
    Except Stop (Except Eval (Eval × Option Move × Nat)) → List TOp → Prop
  | .ok (.error b), log =>
      b = a.beta ∧ ∃ l1 m, log = l1 ++ [TOp.insert hk (entryOf a kindLower m a.beta)] ∧ NoKey hk l1
  | .ok (.ok (al, b, k)), log =>
      NoKey hk log ∧ ((b = best ∧ al = alpha ∧ k = kind) ∨ (∃ m, b = some m ∧ k = kindExact))
  | .error _, log => NoKey hk log

theorem childLoopE_shape (env : Env) (ctx : Ctx) (child : NodeArgs → ME Eval) (a : NodeArgs) (hash : UInt64)
    (hchild : ∀ a', 1 ≤ a'.curDepth → ∀ n st, NoKey hash.toNat (child a' n st).2.2) :
    ∀ (l : List Move) (alpha : Eval) (best : Option Move) (kind : Nat) (n : Nat) (st : St),
      LoopShape hash.toNat a alpha best kind (childLoopE env ctx child a hash l alpha best kind n st).1
        (childLoopE env ctx child a hash l alpha best kind n st).2.2 := by
  intro l
  induction l with
  | nil =>
    intro alpha best kind n st
    rw [childLoopE_nil_run]
    exact ⟨NoKey.nil _, Or.inl ⟨rfl, rfl, rfl⟩⟩
  | cons mv rest ih =>
    intro alpha best kind n st
    rw [childLoopE_cons_run]
    cases ht : tryAsLegal a.s mv with
    | none => exact NoKey.nil _
    | some o =>
      cases o with
      | none => exact ih alpha best kind n st
      | some r =>
        obtain ⟨m, next⟩ := r
        simp only
        have hc := hchild (childArgs a next alpha) (by unfold childArgs; simp only; omega) n st
        generalize child (childArgs a next alpha) n st = out at hc
        obtain ⟨rv, st', l1⟩ := out
        cases rv with
        | error e => exact hc
        | ok v =>
          simp only
          by_cases c1 : -v ≥ a.beta
          · rw [if_pos c1]
            exact ⟨rfl, l1, m, rfl, hc⟩
          · rw [if_neg c1]
            by_cases c2 : -v > alpha
            · rw [if_pos c2]
              have := ih (-v) (some m) kindExact (n + l1.length) st'
              generalize childLoopE env ctx child a hash rest (-v) (some m) kindExact (n + l1.length) st' = out2 at this
              obtain ⟨r2, st2, l2⟩ := out2
              simp only
              cases r2 with
              | error e => exact hc.append this
              | ok x =>
                cases x with
                | error b =>
                  obtain ⟨hb, l1', m', hl, hn⟩ := this
                  exact ⟨hb, l1 ++ l1', m', by
                    have hl' : l2 = l1' ++ [TOp.insert hash.toNat (entryOf a kindLower m' a.beta)] := hl
                    rw [hl', List.append_assoc], hc.append hn⟩
                | ok y =>
                  obtain ⟨al, b, k⟩ := y
                  obtain ⟨hn, hor⟩ := this
                  refine ⟨hc.append hn, Or.inr ?_⟩
                  rcases hor with ⟨hb, _, hk⟩ | h
                  · exact ⟨m, hb, hk⟩
                  · exact h
            · rw [if_neg c2]
              have := ih alpha best kind (n + l1.length) st'
              generalize childLoopE env ctx child a hash rest alpha best kind (n + l1.length) st' = out2 at this
              obtain ⟨r2, st2, l2⟩ := out2
              simp only
              cases r2 with
              | error e => exact hc.append this
              | ok x =>
                cases x with
                | error b =>
                  obtain ⟨hb, l1', m', hl, hn⟩ := this
                  exact ⟨hb, l1 ++ l1', m', by
                    have hl' : l2 = l1' ++ [TOp.insert hash.toNat (entryOf a kindLower m' a.beta)] := hl
                    rw [hl', List.append_assoc], hc.append hn⟩
                | ok y =>
                  obtain ⟨al, b, k⟩ := y
                  obtain ⟨hn, hor⟩ := this
                  exact ⟨hc.append hn, hor⟩


/-- outcome of the part of a node after its probe (key `hk`, children never store under `hk`): either no store under
`hk` and the value is the incoming `alpha` or not winning, or the LAST operation is the store under `hk` of the returned
value -/
def TailShape (hk : Nat) (a : NodeArgs) (alpha beta : Eval) (o : Except Stop Eval × St × List TOp) : Prop :=
  (NoKey hk o.2.2 ∧ ∀ v, o.1 = .ok v → v = alpha ∨ v < 10000) ∨
  (∃ l1 e, o.2.2 = l1 ++ [TOp.insert hk e] ∧ NoKey hk l1 ∧ o.1 = .ok e.eval ∧ e.depth = a.curDepth ∧
     e.maxDepth = a.maxDepth ∧ (e.kind = kindExact ∨ (e.kind = kindLower ∧ e.eval = beta)))

theorem tailE_shape (env : Env) (ctx : Ctx) (child : NodeArgs → ME Eval) (a : NodeArgs) (hash : UInt64)
    (hchild : ∀ a', 1 ≤ a'.curDepth → ∀ n st, NoKey hash.toNat (child a' n st).2.2) (alpha beta : Eval) (n : Nat) (st : St) :
    TailShape hash.toNat a alpha beta (tailE env ctx a hash alpha beta (some child) n st) := by
  cases hp : pseudoLegalMoves a.s with
  | none =>
    unfold tailE
    rw [hp]
    exact Or.inl ⟨NoKey.nil _, fun v hv => nomatch hv⟩
  | some pseudo =>
    obtain ⟨sorted, r, hs, _⟩ := SearchCtl.sort_rngOnly a.s pseudo st
    rw [tailE_some_run env ctx child a hash alpha beta n st pseudo sorted _ hp hs]
    have hsh := childLoopE_shape env ctx child { a with alpha := alpha, beta := beta } hash hchild
      (bufferOf a.prioritized sorted).reverse alpha Option.none kindUpper n { st with rng := r }
    generalize childLoopE env ctx child { a with alpha := alpha, beta := beta } hash
      (bufferOf a.prioritized sorted).reverse alpha Option.none kindUpper n { st with rng := r } = out at hsh
    obtain ⟨r2, st2, l⟩ := out
    cases r2 with
    | error e => exact Or.inl ⟨hsh, fun v hv => nomatch hv⟩
    | ok x =>
      cases x with
      | error b =>
        obtain ⟨hb, l1, m, hl, hn⟩ := hsh
        refine Or.inr ⟨l1, _, hl, hn, ?_, rfl, rfl, Or.inr ⟨rfl, rfl⟩⟩
        show Except.ok b = Except.ok beta
        rw [hb]
      | ok y =>
        obtain ⟨alpha', best, kind⟩ := y
        obtain ⟨hn, hor⟩ := hsh
        simp only
        by_cases hnodes : (st2.nodes == ({ st with rng := r } : St).nodes) = true
        · rw [if_pos hnodes]
          cases he : evaluate a.s a.s.turn a.curDepth with
          | none => exact Or.inl ⟨hn, fun v hv => nomatch hv⟩
          | some e =>
            refine Or.inl ⟨hn, fun v hv => Or.inr ?_⟩
            cases hv
            exact static_lt he
        · rw [if_neg hnodes]
          cases best with
          | none =>
            refine Or.inl ⟨hn, fun v hv => Or.inl ?_⟩
            cases hv
            rcases hor with ⟨_, h2, _⟩ | ⟨m, hm, _⟩
            · exact h2
            · cases hm
          | some m =>
            simp only
            refine Or.inr ⟨l, _, rfl, hn, rfl, rfl, rfl, Or.inl ?_⟩
            rcases hor with ⟨h1, _, _⟩ | ⟨m', _, hk⟩
            · cases h1
            · exact hk


/-- nodes below the root -/
def DeepN (_ : Nat) (a : NodeArgs) : Prop := 1 ≤ a.curDepth

theorem deep_walk (ctx : Ctx) : SearchCtl.Walk ctx (fun _ => True) (fun _ => True) DeepN (fun _ => True) where
  tick := by
    intro st _
    rw [SearchCtl.tick_eq]
    split
    · split
      · exact ⟨trivial, trivial⟩
      · trivial
    · trivial
  rng := fun _ _ h => h
  underflow := fun _ _ _ _ _ _ _ _ => trivial
  leaf := fun _ _ _ _ _ _ => trivial
  pseudo := fun _ _ _ _ => trivial
  legal := fun _ _ _ _ _ _ _ _ => trivial
  eval := fun _ _ _ _ => trivial
  window := fun _ _ _ _ h => h
  child := by
    intro rem a _ _ _ next alpha h _ _ _
    show 1 ≤ (childArgs a next alpha).curDepth
    unfold childArgs
    simp only
    omega
  insert := fun _ _ _ _ _ _ _ _ _ _ _ _ _ _ _ => trivial

/-- **nothing below the root stores under a key of the history** (any environment): the repetition test returns before
the probe -/
theorem searchNodeE_deep_noKey (env : Env) (ctx : Ctx) (k : UInt64) (hk : ctx.history.contains k = true)
    (rem : Nat) (a : NodeArgs) (ha : 1 ≤ a.curDepth) (n : Nat) (st : St) :
    NoKey k.toNat (searchNodeE env ctx rem a n st).2.2 := by
  have h := searchNodeE_walk (env := env) (ctx := ctx)
    (V := Spec.inv (fun _ => True) (fun k' _ => k' ≠ k.toNat)) (N := DeepN)
    (deep_walk ctx) (fun _ _ h => h)
    (by
      intro rem a _ _ _ _ _ _ hN hcut _ _ _
      show (Wee.hash ctx.keys a.s).toNat ≠ k.toNat
      intro heq
      have : Wee.hash ctx.keys a.s = k := UInt64.toNat_inj.1 heq
      rw [this] at hcut
      exact hcut ⟨hN, hk⟩)
    rem a ha n st trivial
  intro e he
  exact h.log k.toNat e he rfl

theorem probeK_some_run (env : Env) (ctx : Ctx) (a : NodeArgs) (hash : UInt64) (rec : Option (NodeArgs → ME Eval))
    (e : TT.Entry) (n : Nat) (st : St) :
    probeK env ctx a hash rec (some e) n st =
      if a.maxDepth < a.curDepth ∨ e.maxDepth < e.depth then (.error (.panic "usize subtraction underflow"), st, [])
      else if e.maxDepth - e.depth ≥ a.maxDepth - a.curDepth then
        if e.kind == kindExact then (.ok e.eval, st, [])
        else if e.kind == kindUpper then
          if a.alpha ≥ min a.beta e.eval then (.ok e.eval, st, [])
          else tailE env ctx a hash a.alpha (min a.beta e.eval) rec n st
        else
          if max a.alpha e.eval ≥ a.beta then (.ok e.eval, st, [])
          else tailE env ctx a hash (max a.alpha e.eval) a.beta rec n st
      else tailE env ctx a hash a.alpha a.beta rec n st := by
  unfold probeK
  simp only
  by_cases hu : a.maxDepth < a.curDepth ∨ e.maxDepth < e.depth
  · rw [if_pos hu, if_pos hu]; rfl
  · rw [if_neg hu, if_neg hu]
    split
    · split
      · rfl
      · split
        · split <;> rfl
        · split <;> rfl
    · rfl

/-- the entry `x` found by the root probe of a worker of search depth `sd` ends its root call at once -/
def Answers (sd : Nat) (x : TT.Entry) : Prop :=
  x.depth ≤ x.maxDepth ∧ sd ≤ x.maxDepth - x.depth ∧
  (x.kind = kindExact ∨ (x.kind ≠ kindExact ∧ x.kind ≠ kindUpper ∧ 11000 ≤ x.eval))

/-- the shape of a worker's run: the first operation is the probe of the root key `rk` with result `r0`; then either
nothing is stored under `rk` and a winning value is the value of the probed entry, or the LAST operation is the store
under `rk` of the value the worker returns; an entry that `Answers` ends the run with the probe -/
structure RootShape (rk sd : Nat) (r0 : Option TT.Entry) (o : Except Stop Eval × St × List TOp) : Prop where
  shape : ∃ l, o.2.2 = TOp.find rk r0 :: l ∧
    ((NoKey rk l ∧ ∀ v, o.1 = .ok v → 10000 ≤ v → ∃ x, r0 = some x ∧ x.eval = v) ∨
     (∃ l1 e, l = l1 ++ [TOp.insert rk e] ∧ NoKey rk l1 ∧ o.1 = .ok e.eval ∧ e.depth = 0 ∧ e.maxDepth = sd ∧
        (e.kind = kindExact ∨ (e.kind = kindLower ∧ (e.eval = 11000 ∨ ∃ x, r0 = some x ∧ x.kind = kindUpper)))))
  answered : ∀ x, r0 = some x → Answers sd x → o.1 = .ok x.eval ∧ o.2.2 = [TOp.find rk r0]

theorem tail_to_root {rk sd : Nat} {a : NodeArgs} {alpha beta : Eval} {o : Except Stop Eval × St × List TOp}
    {r0 : Option TT.Entry} (h : TailShape rk a alpha beta o) (hd : a.curDepth = 0) (hm : a.maxDepth = sd)
    (halpha : ∀ v, v = alpha → 10000 ≤ v → ∃ x, r0 = some x ∧ x.eval = v)
    (hbeta : beta = 11000 ∨ ∃ x, r0 = some x ∧ x.kind = kindUpper) :
    (NoKey rk o.2.2 ∧ ∀ v, o.1 = .ok v → 10000 ≤ v → ∃ x, r0 = some x ∧ x.eval = v) ∨
     (∃ l1 e, o.2.2 = l1 ++ [TOp.insert rk e] ∧ NoKey rk l1 ∧ o.1 = .ok e.eval ∧ e.depth = 0 ∧ e.maxDepth = sd ∧
        (e.kind = kindExact ∨ (e.kind = kindLower ∧ (e.eval = 11000 ∨ ∃ x, r0 = some x ∧ x.kind = kindUpper)))) := by
  rcases h with ⟨hn, hv⟩ | ⟨l1, e, hl, hn, ho, h1, h2, hk⟩
  · refine Or.inl ⟨hn, fun v hv1 hv2 => ?_⟩
    rcases hv v hv1 with h | h
    · exact halpha v h hv2
    · exfalso; unfold Eval at *; omega
  · refine Or.inr ⟨l1, e, hl, hn, ho, by rw [h1, hd], by rw [h2, hm], ?_⟩
    rcases hk with hk | ⟨hk, he⟩
    · exact Or.inl hk
    · refine Or.inr ⟨hk, ?_⟩
      rcases hbeta with hb | hb
      · exact Or.inl (by rw [he, hb])
      · exact Or.inr hb

theorem runWorkerE_rootShape (env : Env) (ctx : Ctx) (root : State) (w : Worker) (tt : TT.Access)
    (hhist : ctx.history.contains (Wee.hash ctx.keys root) = true) (hsd : 1 ≤ w.searchDepth) :
    RootShape (Wee.hash ctx.keys root).toNat w.searchDepth
      ((applyInserts tt (env.script 0)).find (Wee.hash ctx.keys root).toNat) (runWorkerE env ctx root w tt) := by
  obtain ⟨n, hn⟩ : ∃ n, w.searchDepth = n + 1 := ⟨w.searchDepth - 1, by omega⟩
  rw [runWorkerE_eq]
  have hchild : ∀ a', 1 ≤ a'.curDepth → ∀ n' st, NoKey (Wee.hash ctx.keys root).toNat (searchNodeE env ctx n a' n' st).2.2 :=
    fun a' ha n' st => searchNodeE_deep_noKey env ctx _ hhist n a' ha n' st
  have hw := root_window
  have ha1 : (rootArgsE root w).alpha = -11000 := hw.1
  have hb1 : (rootArgsE root w).beta = 11000 := hw.2
  have hcd : (rootArgsE root w).curDepth = 0 := rfl
  have hmd : (rootArgsE root w).maxDepth = w.searchDepth := rfl
  rw [hn, searchNodeE_succ, root_run]
  generalize (applyInserts tt (env.script 0)).find (Wee.hash ctx.keys root).toNat = r0
  generalize hst : ({ tt := applyInserts tt (env.script 0), rng := w.rng, nodes := 1, polls := w.polls } : St) = st1
  have tl : ∀ alpha beta, TailShape (Wee.hash ctx.keys root).toNat (rootArgsE root w) alpha beta
      (tailE env ctx (rootArgsE root w) (Wee.hash ctx.keys root) alpha beta (some (searchNodeE env ctx n)) 1 st1) :=
    fun alpha beta => tailE_shape env ctx _ _ _ hchild alpha beta 1 st1
  cases r0 with
  | none =>
    have h := tl (rootArgsE root w).alpha (rootArgsE root w).beta
    show RootShape _ _ _ (match probeK env ctx (rootArgsE root w) (Wee.hash ctx.keys root) (some (searchNodeE env ctx n))
      Option.none 1 st1 with | (r, st2, l2) => (r, st2, TOp.find _ Option.none :: l2))
    have hp : probeK env ctx (rootArgsE root w) (Wee.hash ctx.keys root) (some (searchNodeE env ctx n)) Option.none 1 st1 =
        tailE env ctx (rootArgsE root w) (Wee.hash ctx.keys root) (rootArgsE root w).alpha (rootArgsE root w).beta
          (some (searchNodeE env ctx n)) 1 st1 := rfl
    rw [hp]
    generalize tailE env ctx (rootArgsE root w) (Wee.hash ctx.keys root) (rootArgsE root w).alpha (rootArgsE root w).beta
          (some (searchNodeE env ctx n)) 1 st1 = o at h
    obtain ⟨r, st2, l2⟩ := o
    refine ⟨⟨l2, rfl, ?_⟩, fun x hx => nomatch hx⟩
    have := tail_to_root (r0 := Option.none) (sd := n + 1) h hcd (by rw [hmd, hn])
      (fun v hv hv2 => by rw [hv, ha1] at hv2; exact absurd hv2 (by decide)) (Or.inl hb1)
    exact this
  | some e =>
    show RootShape _ _ _ (match probeK env ctx (rootArgsE root w) (Wee.hash ctx.keys root) (some (searchNodeE env ctx n))
      (some e) 1 st1 with | (r, st2, l2) => (r, st2, TOp.find _ (some e) :: l2))
    rw [probeK_some_run]
    -- the immediate return of the probed value
    have ret : RootShape (Wee.hash ctx.keys root).toNat (n + 1) (some e)
        (Except.ok e.eval, st1, [TOp.find (Wee.hash ctx.keys root).toNat (some e)]) :=
      ⟨⟨[], rfl, Or.inl ⟨NoKey.nil _, fun v hv _ => ⟨e, rfl, by cases hv; rfl⟩⟩⟩, fun x hx _ => by cases hx; exact ⟨rfl, rfl⟩⟩
    -- the search after the probe, when the probed entry does not answer
    have srch : ∀ alpha beta, (∀ v, v = alpha → 10000 ≤ v → v = e.eval) →
        (beta = 11000 ∨ e.kind = kindUpper) → ¬ Answers (n + 1) e →
        RootShape (Wee.hash ctx.keys root).toNat (n + 1) (some e)
          (match tailE env ctx (rootArgsE root w) (Wee.hash ctx.keys root) alpha beta (some (searchNodeE env ctx n)) 1 st1 with
            | (r, st2, l2) => (r, st2, TOp.find (Wee.hash ctx.keys root).toNat (some e) :: l2)) := by
      intro alpha beta halpha hbeta hna
      have h := tl alpha beta
      generalize tailE env ctx (rootArgsE root w) (Wee.hash ctx.keys root) alpha beta (some (searchNodeE env ctx n)) 1 st1 = o at h
      obtain ⟨r, st2, l2⟩ := o
      refine ⟨⟨l2, rfl, ?_⟩, fun x hx hans => by cases hx; exact absurd hans hna⟩
      exact tail_to_root (r0 := some e) (sd := n + 1) h hcd (by rw [hmd, hn])
        (fun v hv hv2 => ⟨e, rfl, (halpha v hv hv2).symm⟩)
        (hbeta.elim Or.inl fun hk => Or.inr ⟨e, rfl, hk⟩)
    rw [hcd, hmd, hn, ha1, hb1]
    by_cases hu : n + 1 < 0 ∨ e.maxDepth < e.depth
    · rw [if_pos hu]
      refine ⟨⟨[], rfl, Or.inl ⟨NoKey.nil _, fun v hv => nomatch hv⟩⟩, fun x hx hans => ?_⟩
      cases hx
      rcases hu with h | h
      · omega
      · have := hans.1; omega
    · rw [if_neg hu]
      by_cases hrem : e.maxDepth - e.depth ≥ n + 1 - 0
      · rw [if_pos hrem]
        by_cases hex : (e.kind == kindExact) = true
        · rw [if_pos hex]; exact ret
        · rw [if_neg hex]
          have hex' : e.kind ≠ kindExact := by simpa using hex
          by_cases hup : (e.kind == kindUpper) = true
          · rw [if_pos hup]
            have hup' : e.kind = kindUpper := by simpa using hup
            by_cases hc : (-11000 : Eval) ≥ min 11000 e.eval
            · rw [if_pos hc]; exact ret
            · rw [if_neg hc]
              refine srch _ _ (fun v hv hv2 => ?_) (Or.inr hup') (fun hans => ?_)
              · rw [hv] at hv2; exact absurd hv2 (by decide)
              · rcases hans.2.2 with h | h
                · exact hex' h
                · exact h.2.1 hup'
          · rw [if_neg hup]
            have hup' : e.kind ≠ kindUpper := by simpa using hup
            by_cases hc : max (-11000 : Eval) e.eval ≥ 11000
            · rw [if_pos hc]; exact ret
            · rw [if_neg hc]
              refine srch _ _ (fun v hv hv2 => ?_) (Or.inl rfl) (fun hans => ?_)
              · rw [hv] at hv2 ⊢
                unfold Eval at *
                omega
              · rcases hans.2.2 with h | h
                · exact hex' h
                · have := h.2.2
                  unfold Eval at *
                  omega
      · rw [if_neg hrem]
        refine srch _ _ (fun v hv hv2 => ?_) (Or.inl rfl) (fun hans => ?_)
        · rw [hv] at hv2; exact absurd hv2 (by decide)
        · have := hans.2.1; omega

/-! ## 3. every store under the root key answers the shallowest workers -/

/-- table property: well-shaped, and the entry under `rk`, if any, answers a worker of depth `sd` -/
def RootOK (L nT nB rk sd : Nat) (T : TT.Access) : Prop :=
  TT.AInv L nT nB T ∧ ∀ y, T.find rk = some y → Answers sd y

/-- insert property: a store under `rk` answers a worker of depth `sd` -/
def RootAdm (rk sd : Nat) (k : Nat) (e : TT.Entry) : Prop := k = rk → Answers sd e

theorem RootOK.insert {L nT nB rk sd : Nat} (g : Geo L nT nB) (T : TT.Access) (k : Nat) (e : TT.Entry)
    (h : RootOK L nT nB rk sd T) (ha : RootAdm rk sd k e) : RootOK L nT nB rk sd (T.insert k e) := by
  refine ⟨h.1.insert g.hL g.hT g.hB k e, fun y hy => ?_⟩
  by_cases hk : k = rk
  · subst hk
    rw [h.1.find_insert_self g.hL g.hT g.hB] at hy
    cases hy
    exact ha rfl
  · rcases h.1.find_insert_other g.hL g.hT g.hB k e rk (fun h' => hk h'.symm) with h0 | h0
    · rw [h0] at hy; cases hy
    · rw [h0] at hy; exact h.2 y hy

theorem answers_not_upper {sd : Nat} {x : TT.Entry} (h : Answers sd x) : x.kind ≠ kindUpper := by
  rcases h.2.2 with h | h
  · rw [h]; decide
  · exact h.2.1

theorem Answers.mono {sd sd' : Nat} {x : TT.Entry} (h : Answers sd' x) (hle : sd ≤ sd') : Answers sd x :=
  ⟨h.1, Nat.le_trans hle h.2.1, h.2.2⟩

/-- **the guarantee of one worker**: in an environment whose stores under the root key all answer depth `sd`, started on
a table whose root entry (if any) answers depth `sd`, a worker of depth `≥ sd` only performs such stores -/
theorem runWorkerE_rootAdm {L nT nB : Nat} (g : Geo L nT nB) (env : Env) (ctx : Ctx) (root : State) (w : Worker)
    (tt : TT.Access) (hhist : ctx.history.contains (Wee.hash ctx.keys root) = true) (sd : Nat)
    (hsd : 1 ≤ w.searchDepth) (hle : sd ≤ w.searchDepth)
    (htt : RootOK L nT nB (Wee.hash ctx.keys root).toNat sd tt)
    (hadm : ∀ j, ∀ p ∈ env.script j, RootAdm (Wee.hash ctx.keys root).toNat sd p.1 p.2) :
    LogOK (RootAdm (Wee.hash ctx.keys root).toNat sd) (runWorkerE env ctx root w tt).2.2 := by
  have h0 : RootOK L nT nB (Wee.hash ctx.keys root).toNat sd (applyInserts tt (env.script 0)) :=
    applyInserts_inv (P := RootOK L nT nB (Wee.hash ctx.keys root).toNat sd)
      (Adm := RootAdm (Wee.hash ctx.keys root).toNat sd) (fun T k e => RootOK.insert g T k e) _ tt htt (hadm 0)
  obtain ⟨l, hl, hcase⟩ := (runWorkerE_rootShape env ctx root w tt hhist hsd).shape
  intro k e hmem hk
  subst hk
  rw [hl] at hmem
  rcases List.mem_cons.1 hmem with h | hmem
  · cases h
  · rcases hcase with ⟨hn, _⟩ | ⟨l1, e', hl1, hn, _, hd, hm, hkind⟩
    · exact absurd hmem (hn e)
    · rw [hl1] at hmem
      rcases List.mem_append.1 hmem with h | h
      · exact absurd h (hn e)
      · rw [List.mem_singleton] at h
        cases h
        refine ⟨by omega, by omega, ?_⟩
        rcases hkind with hk | ⟨hk, hv⟩
        · exact Or.inl hk
        · refine Or.inr ⟨by rw [hk]; decide, by rw [hk]; decide, ?_⟩
          rcases hv with hv | ⟨x, hx, hxk⟩
          · rw [hv]; exact Int.le_refl _
          · exact absurd hxk (answers_not_upper (h0.2 x hx))

/-- **every schedule**: all stores under the root key answer depth `sd`, and so does the root entry (if present) of the
shared table after every prefix of the history -/
theorem interleaving_rootAdm {L nT nB : Nat} (g : Geo L nT nB) (ctx : Ctx) (root : State) (tt : TT.Access)
    (ws : List Worker) (H : History) (hI : Interleaving ctx root tt ws H)
    (hhist : ctx.history.contains (Wee.hash ctx.keys root) = true) (sd : Nat)
    (hws : ∀ w ∈ ws, 1 ≤ w.searchDepth ∧ sd ≤ w.searchDepth)
    (htt : RootOK L nT nB (Wee.hash ctx.keys root).toNat sd tt) :
    (∀ p ∈ H, ∀ k e, p.2 = TOp.insert k e → RootAdm (Wee.hash ctx.keys root).toNat sd k e) ∧
    ∀ n, RootOK L nT nB (Wee.hash ctx.keys root).toNat sd (History.table tt (H.take n)) := by
  have hins := interleaving_guarantee (RootAdm (Wee.hash ctx.keys root).toNat sd)
    (fun i h env hadm => runWorkerE_rootAdm g env ctx root ws[i] tt hhist sd (hws _ (List.getElem_mem h)).1
      (hws _ (List.getElem_mem h)).2 htt hadm) hI
  exact ⟨hins, fun n => table_inv (P := RootOK L nT nB (Wee.hash ctx.keys root).toNat sd)
    (fun T k e => RootOK.insert g T k e) (H.take n) tt htt (fun p hp => hins p (List.mem_of_mem_take hp))⟩


/-! ## 4. the frame of the root entry: while its bucket is not full only stores under the root key change it -/

/-- the bucket the key `rk` routes to still has a free slot -/
def RootRoomy (nT nB rk : Nat) (T : TT.Access) : Prop := ¬ TT.Full (T.bucketAt (rk % nT) (rk % nB))

theorem root_frame {L nT nB rk : Nat} (g : Geo L nT nB) {T : TT.Access} (hinv : TT.AInv L nT nB T)
    (hr : RootRoomy nT nB rk T) (k : Nat) (e : TT.Entry) (hk : k ≠ rk) : (T.insert k e).find rk = T.find rk :=
  hinv.find_insert_frame g.hL g.hT g.hB k e rk (fun h => hk h.symm) (fun _ _ hf => absurd hf hr)

theorem take_succ_table (tt : TT.Access) (H : History) (n : Nat) (h : n < H.length) :
    History.table tt (H.take (n + 1)) = H[n].2.apply (History.table tt (H.take n)) := by
  rw [List.take_add_one, List.getElem?_eq_getElem h, table_append]
  rfl

/-- with a roomy root bucket at every moment, a root entry that is present stays present -/
theorem root_present {L nT nB rk sd : Nat} (g : Geo L nT nB) (tt : TT.Access) (H : History)
    (hok : ∀ n, RootOK L nT nB rk sd (History.table tt (H.take n)))
    (hroomy : ∀ n, RootRoomy nT nB rk (History.table tt (H.take n)))
    (h0 : (tt.find rk).isSome = true) : ∀ n, ((History.table tt (H.take n)).find rk).isSome = true := by
  intro n
  induction n with
  | zero => exact h0
  | succ n ih =>
    by_cases hn : n < H.length
    · rw [take_succ_table tt H n hn]
      cases hop : H[n].2 with
      | find k r => exact ih
      | insert k e =>
        show (((History.table tt (H.take n)).insert k e).find rk).isSome = true
        by_cases hk : k = rk
        · subst hk
          rw [(hok n).1.find_insert_self g.hL g.hT g.hB]; rfl
        · rw [root_frame g (hok n).1 (hroomy n) k e hk]; exact ih
    · rw [List.take_of_length_le (by omega)] at ih ⊢
      exact ih

/-- **the shallow workers never write the root** (any number of workers, any schedule).  If the iteration starts with
an entry under the root key that answers depth `sd`, every worker searches at least that deep, and the root's bucket
has a free slot at every moment, then every worker of depth exactly `sd` performs ONE table operation — the probe of the
root key — and returns the value of the entry it found there, which is the shared table's root entry at that moment. -/
theorem shallow_workers_answered {L nT nB : Nat} (g : Geo L nT nB) (ctx : Ctx) (root : State) (tt : TT.Access)
    (ws : List Worker) (H : History) (hI : Interleaving ctx root tt ws H)
    (hhist : ctx.history.contains (Wee.hash ctx.keys root) = true) (sd : Nat)
    (hws : ∀ w ∈ ws, 1 ≤ w.searchDepth ∧ sd ≤ w.searchDepth)
    (htt : RootOK L nT nB (Wee.hash ctx.keys root).toNat sd tt)
    (h0 : (tt.find (Wee.hash ctx.keys root).toNat).isSome = true)
    (hroomy : ∀ n, RootRoomy nT nB (Wee.hash ctx.keys root).toNat (History.table tt (H.take n)))
    (i : Nat) (hi : i < ws.length) (hsd : ws[i].searchDepth = sd) :
    ∃ y n, (History.table tt (H.take n)).find (Wee.hash ctx.keys root).toNat = some y ∧ Answers sd y ∧
      H.proj i = [TOp.find (Wee.hash ctx.keys root).toNat (some y)] ∧
      outcomeOf ctx root tt ws[i] H i = .ok y.eval := by
  obtain ⟨_, hok⟩ := interleaving_rootAdm g ctx root tt ws H hI hhist sd hws htt
  have hpres := root_present g tt H hok hroomy h0
  have hsh := runWorkerE_rootShape (envOf H i) ctx root ws[i] tt hhist (hws _ (List.getElem_mem hi)).1
  obtain ⟨l, hl, _⟩ := hsh.shape
  generalize hr0 : (applyInserts tt ((envOf H i).script 0)).find (Wee.hash ctx.keys root).toNat = r0 at hl hsh
  have hlog := hI.2 i hi
  -- the probe is an element of the history
  have hmem : TOp.find (Wee.hash ctx.keys root).toNat r0 ∈ H.proj i := by rw [← hlog, hl]; exact List.mem_cons_self
  unfold History.proj at hmem
  obtain ⟨p, hp, hpe⟩ := List.mem_map.1 hmem
  have hp1 : p.1 = i := by simpa using (List.mem_filter.1 hp).2
  obtain ⟨H1, H2, hH⟩ := List.append_of_mem (List.mem_filter.1 hp).1
  have hpp : p = (i, TOp.find (Wee.hash ctx.keys root).toNat r0) := by
    obtain ⟨a, b⟩ := p
    simp only at hp1 hpe
    rw [hp1, hpe]
  rw [hpp] at hH
  have hread := interleaving_reads_from hI H1 i _ r0 H2 hH
  have htake : H.take H1.length = H1 := by rw [hH, List.take_left']; rfl
  have hpr := hpres H1.length
  rw [htake, hread] at hpr
  cases r0 with
  | none => cases hpr
  | some y =>
    have hans : Answers sd y := by
      have := (hok H1.length).2 y (by rw [htake]; exact hread)
      exact this
    obtain ⟨ho, hlg⟩ := hsh.answered y rfl (by rw [hsd]; exact hans)
    exact ⟨y, H1.length, by rw [htake]; exact hread, hans, by rw [← hlog]; exact hlg, ho⟩


/-! ## 5. one deep writer: the root entry is the initial one until worker 0 stores, and worker 0's store afterwards -/

theorem take_succ_eq (H : History) (n : Nat) (h : n < H.length) : H.take (n + 1) = H.take n ++ [H[n]] := by
  rw [List.take_add_one, List.getElem?_eq_getElem h]; rfl

theorem root_entry_track {L nT nB rk sd : Nat} (g : Geo L nT nB) (tt : TT.Access) (H : History) (x0 : TT.Entry)
    (hx0 : tt.find rk = some x0)
    (hok : ∀ n, RootOK L nT nB rk sd (History.table tt (H.take n)))
    (hroomy : ∀ n, RootRoomy nT nB rk (History.table tt (H.take n)))
    (hown : ∀ p ∈ H, ∀ e, p.2 = TOp.insert rk e → p.1 = 0) :
    ∀ n, ((∀ e, (0, TOp.insert rk e) ∉ H.take n) ∧ (History.table tt (H.take n)).find rk = some x0) ∨
         (∃ e, (0, TOp.insert rk e) ∈ H.take n ∧ (History.table tt (H.take n)).find rk = some e) := by
  intro n
  induction n with
  | zero => exact Or.inl ⟨fun e h => by simp at h, hx0⟩
  | succ n ih =>
    by_cases hn : n < H.length
    · rw [take_succ_table tt H n hn, take_succ_eq H n hn]
      have hpm : H[n] ∈ H := List.getElem_mem hn
      generalize H[n] = p at hpm
      obtain ⟨j, op⟩ := p
      cases op with
      | find k r =>
        rcases ih with ⟨h1, h2⟩ | ⟨e, h1, h2⟩
        · refine Or.inl ⟨fun e h => ?_, h2⟩
          rcases List.mem_append.1 h with h | h
          · exact h1 e h
          · rw [List.mem_singleton] at h; cases h
        · exact Or.inr ⟨e, List.mem_append_left _ h1, h2⟩
      | insert k e' =>
        show (_ ∧ ((History.table tt (H.take n)).insert k e').find rk = some x0) ∨
          (∃ e, _ ∧ ((History.table tt (H.take n)).insert k e').find rk = some e)
        by_cases hk : k = rk
        · subst hk
          have hj : j = 0 := hown _ hpm e' rfl
          subst hj
          exact Or.inr ⟨e', List.mem_append_right _ List.mem_cons_self,
            (hok n).1.find_insert_self g.hL g.hT g.hB k e'⟩
        · rw [root_frame g (hok n).1 (hroomy n) k e' hk]
          rcases ih with ⟨h1, h2⟩ | ⟨e, h1, h2⟩
          · refine Or.inl ⟨fun e h => ?_, h2⟩
            rcases List.mem_append.1 h with h | h
            · exact h1 e h
            · rw [List.mem_singleton] at h
              cases h
              exact hk rfl
          · exact Or.inr ⟨e, List.mem_append_left _ h1, h2⟩
    · rw [List.take_of_length_le (by omega)] at ih ⊢
      exact ih

theorem mem_proj {H : History} {i : Nat} {op : TOp} (h : (i, op) ∈ H) : op ∈ H.proj i := by
  unfold History.proj
  exact List.mem_map.2 ⟨(i, op), List.mem_filter.2 ⟨h, by simp⟩, rfl⟩

theorem mem_of_mem_proj {H : History} {i : Nat} {op : TOp} (h : op ∈ H.proj i) : (i, op) ∈ H := by
  unfold History.proj at h
  obtain ⟨p, hp, hpe⟩ := List.mem_map.1 h
  obtain ⟨hp1, hp2⟩ := List.mem_filter.1 hp
  have : p.1 = i := by simpa using hp2
  obtain ⟨a, b⟩ := p
  simp only at this hpe
  rw [← this, ← hpe]; exact hp1

/-- **one deep worker (worker 0), all others at the depth the root entry answers; every schedule; root bucket never
full: the pairing condition holds.** -/
theorem one_deep_writer_paired {L nT nB : Nat} (g : Geo L nT nB) (ctx : Ctx) (root : State) (tt : TT.Access)
    (ws : List Worker) (H : History) (hI : Interleaving ctx root tt ws H)
    (hhist : ctx.history.contains (Wee.hash ctx.keys root) = true) (sd : Nat)
    (hws : ∀ w ∈ ws, 1 ≤ w.searchDepth ∧ sd ≤ w.searchDepth)
    (hshallow : ∀ i (hi : i < ws.length), 1 ≤ i → ws[i].searchDepth = sd)
    (htt : RootOK L nT nB (Wee.hash ctx.keys root).toNat sd tt) (x0 : TT.Entry)
    (hx0 : tt.find (Wee.hash ctx.keys root).toNat = some x0) (hnw : x0.eval < 10000)
    (hroomy : ∀ n, RootRoomy nT nB (Wee.hash ctx.keys root).toNat (History.table tt (H.take n)))
    (polls : Nat) (st : IterSt) (hbe : st.bestEval < Ev.posInf) :
    PairedAt (Wee.hash ctx.keys root).toNat (joinOf ctx root tt ws H polls) st := by
  intro _ hwin x hx
  rw [joinOf_tt] at hx
  obtain ⟨_, hok⟩ := interleaving_rootAdm g ctx root tt ws H hI hhist sd hws htt
  have h0 : (tt.find (Wee.hash ctx.keys root).toNat).isSome = true := by rw [hx0]; rfl
  have hsh : ∀ i (hi : i < ws.length), 1 ≤ i → ∃ y n,
      (History.table tt (H.take n)).find (Wee.hash ctx.keys root).toNat = some y ∧
      H.proj i = [TOp.find (Wee.hash ctx.keys root).toNat (some y)] ∧
      outcomeOf ctx root tt ws[i] H i = .ok y.eval := by
    intro i hi h1
    obtain ⟨y, n, a, _, b, c⟩ := shallow_workers_answered g ctx root tt ws H hI hhist sd hws htt h0 hroomy i hi
      (hshallow i hi h1)
    exact ⟨y, n, a, b, c⟩
  -- all stores under the root key are worker 0's
  have hown : ∀ p ∈ H, ∀ e, p.2 = TOp.insert (Wee.hash ctx.keys root).toNat e → p.1 = 0 := by
    intro p hp e he
    obtain ⟨j, op⟩ := p
    simp only at he ⊢
    subst he
    by_cases hj : j = 0
    · exact hj
    · have hjl : j < ws.length := hI.1 _ hp
      obtain ⟨y, _, _, hpr, _⟩ := hsh j hjl (by omega)
      have := mem_proj hp
      rw [hpr, List.mem_singleton] at this
      cases this
  have htrack := root_entry_track g tt H x0 hx0 hok hroomy hown
  -- the winner
  have hne : (joinOf ctx root tt ws H polls).evals ≠ [] := by
    intro hnil
    have hre : reportedEval (joinOf ctx root tt ws H polls) st = st.bestEval := by
      unfold reportedEval; rw [hnil]
    rw [hre] at hwin
    exact absurd hwin (by unfold Eval at *; omega)
  obtain ⟨e, es, hev⟩ := List.exists_cons_of_ne_nil hne
  have hm : reportedEval (joinOf ctx root tt ws H polls) st ∈ (joinOf ctx root tt ws H polls).evals := by
    unfold reportedEval
    rw [hev]
    exact foldl_max_mem e es
  obtain ⟨i, hi, hout⟩ := joinOf_evals hm
  generalize reportedEval (joinOf ctx root tt ws H polls) st = v at hwin hout
  rw [posInf_eq] at hwin ⊢
  -- worker 0's run
  have h0l : 0 < ws.length := by omega
  have hs0 := runWorkerE_rootShape (envOf H 0) ctx root ws[0] tt hhist (hws _ (List.getElem_mem h0l)).1
  obtain ⟨l, hl, hcase⟩ := hs0.shape
  have hlog0 := hI.2 0 h0l
  have hfinal := htrack H.length
  rw [List.take_length] at hfinal
  -- a winning value read from the table at some prefix is a value worker 0 stored
  have key : ∀ n y, (History.table tt (H.take n)).find (Wee.hash ctx.keys root).toNat = some y → 10000 ≤ y.eval →
      ∃ e0, (0, TOp.insert (Wee.hash ctx.keys root).toNat e0) ∈ H ∧ y = e0 := by
    intro n y hy hyw
    rcases htrack n with ⟨_, h2⟩ | ⟨e0, h1, h2⟩
    · rw [h2] at hy; cases hy; exact absurd hyw (by unfold Eval at *; omega)
    · rw [h2] at hy; cases hy; exact ⟨_, List.mem_of_mem_take h1, rfl⟩
  -- uniqueness of worker 0's store
  have uniq : ∀ e1 e2, (0, TOp.insert (Wee.hash ctx.keys root).toNat e1) ∈ H →
      (0, TOp.insert (Wee.hash ctx.keys root).toNat e2) ∈ H → e1 = e2 := by
    intro e1 e2 h1 h2
    have m1 := mem_proj h1
    have m2 := mem_proj h2
    rw [← hlog0, hl] at m1 m2
    rcases hcase with ⟨hn, _⟩ | ⟨l1, e', hl1, hn, ho, _⟩
    · rcases List.mem_cons.1 m1 with h | h
      · cases h
      · exact absurd h (hn e1)
    · have aux : ∀ e'', TOp.insert (Wee.hash ctx.keys root).toNat e'' ∈
          TOp.find (Wee.hash ctx.keys root).toNat
            ((applyInserts tt ((envOf H 0).script 0)).find (Wee.hash ctx.keys root).toNat) :: l → e'' = e' := by
        intro e'' h
        rcases List.mem_cons.1 h with h | h
        · cases h
        · rw [hl1] at h
          rcases List.mem_append.1 h with h | h
          · exact absurd h (hn e'')
          · rw [List.mem_singleton] at h; cases h; rfl
      rw [aux e1 m1, aux e2 m2]
  -- the winner's value is a value worker 0 stored
  have hstored : ∃ e0, (0, TOp.insert (Wee.hash ctx.keys root).toNat e0) ∈ H ∧ 10000 ≤ e0.eval := by
    by_cases hi0 : i = 0
    · subst hi0
      rcases hcase with ⟨hn, hv⟩ | ⟨l1, e', hl1, _, ho, _⟩
      · obtain ⟨y, hy, hyv⟩ := hv v hout hwin
        have hmem : (0, TOp.find (Wee.hash ctx.keys root).toNat
            ((applyInserts tt ((envOf H 0).script 0)).find (Wee.hash ctx.keys root).toNat)) ∈ H :=
          mem_of_mem_proj (by rw [← hlog0, hl]; exact List.mem_cons_self)
        obtain ⟨H1, H2, hH⟩ := List.append_of_mem hmem
        have hread := interleaving_reads_from hI H1 0 _ _ H2 hH
        have htake : H.take H1.length = H1 := by rw [hH, List.take_left']; rfl
        rw [hy] at hread
        obtain ⟨e0, he0, hye⟩ := key H1.length y (by rw [htake]; exact hread) (by rw [hyv]; exact hwin)
        exact ⟨e0, he0, by rw [← hye, hyv]; exact hwin⟩
      · refine ⟨e', mem_of_mem_proj (by rw [← hlog0, hl, hl1]; simp), ?_⟩
        have : outcomeOf ctx root tt ws[0] H 0 = .ok e'.eval := ho
        rw [hout] at this
        cases this
        exact hwin
    · obtain ⟨y, n, hy, _, ho⟩ := hsh i hi (by omega)
      rw [hout] at ho
      cases ho
      obtain ⟨e0, he0, hye⟩ := key n y hy hwin
      exact ⟨e0, he0, by rw [← hye]; exact hwin⟩
  obtain ⟨e0, he0, he0w⟩ := hstored
  rcases hfinal with ⟨h1, _⟩ | ⟨ef, h1, h2⟩
  · exact absurd he0 (h1 e0)
  · rw [h2] at hx
    cases hx
    rw [uniq x e0 h1 he0]
    exact he0w


end Wee.Pairing
