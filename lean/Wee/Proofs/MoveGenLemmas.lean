import Wee.Props.C09
import Wee.Props.C10Closed
import Wee.Props.C20
/-!
# Helper lemmas for C01 (move generation)

Layers:
* part 0 — small list / option facts;
* part 1 — `toSpecMove` of each move constructor, through the accessor theorems of C20;
* part 2 — reading the mailbox abstraction `abs s` off the bitboards of a `DisjointBoard`;
* part 3 — the specification generators as membership statements;
* part 4 — `expandMoves` and the knight / slider / king-step generators;
* part 5 — castling masks;
* part 6 — pawns.
-/
namespace Wee
open Gen
open Wee.C10 (DisjointBoard)

/-! ## part 0: lists and options -/

theorem mapM_option_eq_some_map {α β : Type} (f : α → Option β) (g : α → β) :
    ∀ (l : List α), (∀ x ∈ l, f x = some (g x)) → l.mapM f = some (l.map g) := by
  intro l
  induction l with
  | nil => intro _; rfl
  | cons a t ih =>
    intro h
    rw [List.mapM_cons, h a List.mem_cons_self, ih (fun x hx => h x (List.mem_cons_of_mem _ hx))]
    rfl

theorem mem_map_some {α : Type} (l : List α) (x : Option α) :
    x ∈ l.map some ↔ ∃ a ∈ l, x = some a := by
  simp only [List.mem_map]
  constructor
  · rintro ⟨a, ha, rfl⟩; exact ⟨a, ha, rfl⟩
  · rintro ⟨a, ha, rfl⟩; exact ⟨a, ha, rfl⟩

/-! ## part 1: `toSpecMove` through the C20 accessor theorems -/

/-- what `toSpecMove` yields for a move whose ten getters are known -/
theorem toSpecMove_of_attrs (m : Move) (c : Color) (p : Piece) (o d : Nat) (cap pr : Option Piece)
    (ep db cq ck : Bool) (k : Spec.Kind) (hk : absKind p = some k)
    (h : Move.attrs m =
      { color := c, piece := some p, origin := o, dest := d, capture := cap,
        promotion := pr, enPassant := ep, doublePawn := db, castleQ := cq, castleK := ck }) :
    toSpecMove m = some
      { color := absColor c, kind := k, src := o, dst := d,
        capture := cap.bind absKind, promo := pr.bind absKind, ep := ep,
        castle := (if cq then some false else if ck then some true else Option.none), dbl := db } := by
  have h1 : Move.color m = c := congrArg Move.Attrs.color h
  have h2 : Move.piece? m = some p := congrArg Move.Attrs.piece h
  have h3 : Move.origin m = o := congrArg Move.Attrs.origin h
  have h4 : Move.dest m = d := congrArg Move.Attrs.dest h
  have h5 : Move.capture m = cap := congrArg Move.Attrs.capture h
  have h6 : Move.promotion m = pr := congrArg Move.Attrs.promotion h
  have h7 : Move.isEnPassant m = ep := congrArg Move.Attrs.enPassant h
  have h8 : Move.isDoublePawn m = db := congrArg Move.Attrs.doublePawn h
  have h9 : Move.castleQ m = cq := congrArg Move.Attrs.castleQ h
  have h10 : Move.castleK m = ck := congrArg Move.Attrs.castleK h
  have hp : Move.piece m = p := by unfold Move.piece; rw [h2]; rfl
  have hcs : (Move.castleSide m).map (fun s => s == Side.king) =
      (if cq then some false else if ck then some true else Option.none) := by
    unfold Move.castleSide
    rw [h9, h10]
    cases cq <;> cases ck <;> rfl
  unfold toSpecMove
  rw [hp, hk, h1, h3, h4, h5, h6, h7, h8, hcs]
  rfl

theorem dbl_of_ne_pawn (p : Piece) (o d : Nat) (hp : p ≠ Piece.pawn) : Move.dbl p o d = false := by
  cases p <;> first | exact absurd rfl hp | rfl

theorem toSpecMove_byMoving (c : Color) (p : Piece) (k : Spec.Kind) (hk : absKind p = some k) (o d : Nat)
    (ho : o < 64) (hd : d < 64) :
    toSpecMove (Move.byMoving c p o d) =
      some { color := absColor c, kind := k, src := o, dst := d, dbl := Move.dbl p o d } := by
  rw [toSpecMove_of_attrs _ c p o d _ _ _ _ _ _ k hk (C20_get_byMoving c p o d ho hd)]
  rfl

theorem toSpecMove_byCapturing (c : Color) (p : Piece) (k : Spec.Kind) (hk : absKind p = some k) (o d : Nat)
    (q : Piece) (k' : Spec.Kind) (hq : absKind q = some k') (ho : o < 64) (hd : d < 64) :
    toSpecMove (Move.byCapturing c p o d q) =
      some { color := absColor c, kind := k, src := o, dst := d, capture := some k', dbl := Move.dbl p o d } := by
  rw [toSpecMove_of_attrs _ c p o d _ _ _ _ _ _ k hk
    (C20_get_byCapturing c p o d q ho hd (C10.absKind_ne_none hq))]
  simp only [Option.bind_some, hq, Option.bind_none]
  rfl

theorem toSpecMove_byPromoting (c : Color) (p : Piece) (k : Spec.Kind) (hk : absKind p = some k) (o d : Nat)
    (r : Piece) (kr : Spec.Kind) (hr : absKind r = some kr) (ho : o < 64) (hd : d < 64) :
    toSpecMove (Move.byPromoting c p o d r) =
      some { color := absColor c, kind := k, src := o, dst := d, promo := some kr, dbl := Move.dbl p o d } := by
  rw [toSpecMove_of_attrs _ c p o d _ _ _ _ _ _ k hk
    (C20_get_byPromoting c p o d r ho hd (C10.absKind_ne_none hr))]
  simp only [Option.bind_some, hr, Option.bind_none]
  rfl

theorem toSpecMove_byCapturePromoting (c : Color) (p : Piece) (k : Spec.Kind) (hk : absKind p = some k)
    (o d : Nat) (q : Piece) (k' : Spec.Kind) (hq : absKind q = some k')
    (r : Piece) (kr : Spec.Kind) (hr : absKind r = some kr) (ho : o < 64) (hd : d < 64) :
    toSpecMove (Move.byCapturePromoting c p o d q r) =
      some { color := absColor c, kind := k, src := o, dst := d, capture := some k', promo := some kr,
              dbl := Move.dbl p o d } := by
  rw [toSpecMove_of_attrs _ c p o d _ _ _ _ _ _ k hk
    (C20_get_byCapturePromoting c p o d q r ho hd (C10.absKind_ne_none hq) (C10.absKind_ne_none hr))]
  simp only [Option.bind_some, hr, hq]
  rfl

theorem toSpecMove_byEnPassant (c : Color) (p : Piece) (k : Spec.Kind) (hk : absKind p = some k) (o d : Nat)
    (ho : o < 64) (hd : d < 64) :
    toSpecMove (Move.byEnPassant c p o d) =
      some { color := absColor c, kind := k, src := o, dst := d, capture := some Spec.Kind.pawn, ep := true,
              dbl := Move.dbl p o d } := by
  rw [toSpecMove_of_attrs _ c p o d _ _ _ _ _ _ k hk (C20_get_byEnPassant c p o d ho hd)]
  rfl

theorem toSpecMove_byCastling (c : Color) (sd : Side) :
    toSpecMove (Move.byCastling c sd) =
      some { color := absColor c, kind := Spec.Kind.king, src := kingOrigins[c.idx]!,
              dst := castleDests[c.idx]![sd.idx]!, castle := some (sd == Side.king) } := by
  rw [toSpecMove_of_attrs _ c .king _ _ _ _ _ _ _ _ .king rfl (C20_get_byCastling c sd).1]
  cases sd <;> rfl

/-! ## part 2: reading `abs s` off the bitboards -/

theorem step_lt {s : Nat} {df dr : Int} {t : Nat} (h : Spec.step s df dr = some t) : t < 64 := by
  rw [← offset_eq_step] at h; exact offset_lt h

theorem slideDir_lt (occ : Nat → Bool) (df dr : Int) : ∀ (fuel sq t : Nat),
    t ∈ Spec.slideDir occ df dr fuel sq → t < 64 := by
  intro fuel
  induction fuel with
  | zero => intro sq t h; simp [Spec.slideDir] at h
  | succ n ih =>
    intro sq t h
    simp only [Spec.slideDir] at h
    cases hs : Spec.step sq df dr with
    | none => rw [hs] at h; simp at h
    | some m =>
      rw [hs] at h
      simp only [] at h
      by_cases ho : occ m = true
      · rw [if_pos ho] at h
        have : t = m := by simpa using h
        subst this; exact step_lt hs
      · rw [if_neg ho] at h
        rcases List.mem_cons.1 h with e | e
        · subst e; exact step_lt hs
        · exact ih m t e

theorem slide_lt (occ : Nat → Bool) (dirs : List (Int × Int)) (sq t : Nat)
    (h : t ∈ Spec.slide occ dirs sq) : t < 64 := by
  simp only [Spec.slide, List.mem_flatMap] at h
  obtain ⟨d, _, hd⟩ := h
  exact slideDir_lt occ d.1 d.2 8 sq t hd

theorem filterMap_step_lt (l : List (Int × Int)) (s t : Nat)
    (h : t ∈ l.filterMap fun d => Spec.step s d.1 d.2) : t < 64 := by
  obtain ⟨d, _, hd⟩ := List.mem_filterMap.1 h
  exact step_lt hd

/-- every attacked square is a square of the board -/
theorem attacksFrom_lt (occ : Nat → Bool) (c : Spec.Color) (k : Spec.Kind) (s t : Nat)
    (h : t ∈ Spec.attacksFrom occ c k s) : t < 64 := by
  cases k <;> simp only [Spec.attacksFrom] at h
  · exact filterMap_step_lt _ s t h
  · exact filterMap_step_lt _ s t h
  · exact slide_lt _ _ _ _ h
  · exact slide_lt _ _ _ _ h
  · exact slide_lt _ _ _ _ h
  · exact filterMap_step_lt _ s t h

theorem abs_turn (s : State) : (abs s).turn = absColor s.turn := rfl
theorem abs_ep (s : State) : (abs s).ep = s.ep := rfl

theorem at_none_iff (s : State) (t : Nat) : (abs s).at t = Option.none ↔ s.pieces.pieceAt t = Option.none := by
  rw [C10.abs_at]
  unfold absCell
  cases hpa : s.pieces.pieceAt t with
  | none => simp
  | some cp =>
    obtain ⟨c, p⟩ := cp
    obtain ⟨hp, _⟩ := C10.pieceAt_some _ _ _ _ hpa
    obtain ⟨k, hk⟩ := C10.absKind_some p hp
    simp [hk]

theorem at_of_pieceAt (s : State) (t : Nat) (c : Color) (q : Piece) (h : s.pieces.pieceAt t = some (c, q)) :
    ∃ k, absKind q = some k ∧ (abs s).at t = some (absColor c, k) := by
  obtain ⟨hp, _⟩ := C10.pieceAt_some _ _ _ _ h
  obtain ⟨k, hk⟩ := C10.absKind_some q hp
  refine ⟨k, hk, ?_⟩
  rw [C10.abs_at]; unfold absCell; rw [h]; simp [hk]

/-- the mailbox cell of a disjoint board: colour `c`, kind of `p` -/
theorem at_iff {s : State} (hd : DisjointBoard s.pieces) (t : Nat) (c : Color) (k : Spec.Kind) :
    (abs s).at t = some (absColor c, k) ↔ ∃ p, absKind p = some k ∧ test (s.pieces.get c p) t = true := by
  rw [C10.abs_at]; exact C10.absCell_iff hd t c k

theorem at_of_test {s : State} (hd : DisjointBoard s.pieces) (t : Nat) (c : Color) (p : Piece) (k : Spec.Kind)
    (hk : absKind p = some k) (h : test (s.pieces.get c p) t = true) : (abs s).at t = some (absColor c, k) :=
  (at_iff hd t c k).2 ⟨p, hk, h⟩

theorem test_of_at {s : State} (hd : DisjointBoard s.pieces) (t : Nat) (c : Color) (p : Piece) (k : Spec.Kind)
    (hk : absKind p = some k) (h : (abs s).at t = some (absColor c, k)) : test (s.pieces.get c p) t = true := by
  obtain ⟨p', hk', ht⟩ := (at_iff hd t c k).1 h
  rw [C10.absKind_inj p p' k hk hk']; exact ht

theorem specColor_cases (c : Color) (x : Spec.Color) : x = absColor c ∨ x = absColor c.opp := by
  cases c <;> cases x <;> simp [absColor, Color.opp]

theorem test_own_iff {s : State} (hd : DisjointBoard s.pieces) (c : Color) (t : Nat) :
    test (s.pieces.colorOcc c) t = true ↔ ∃ k, (abs s).at t = some (absColor c, k) := by
  rw [C10.test_colorOcc_abs hd]; simp only [C10.abs_at]

theorem test_occ_iff (s : State) (t : Nat) : test s.pieces.occ t = (abs s).occupied t := by
  have := congrFun (C10.occ_abs s.pieces) t
  rw [C10.abs_occupied]; exact this

theorem occupied_eq_test (s : State) : (abs s).occupied = fun n => test s.pieces.occ n := by
  funext n; exact (test_occ_iff s n).symm

theorem occupied_iff (P : Spec.Pos) (t : Nat) : P.occupied t = true ↔ ∃ x, P.at t = some x := by
  unfold Spec.Pos.occupied; exact Option.isSome_iff_exists

theorem occupied_false_iff (P : Spec.Pos) (t : Nat) : P.occupied t = false ↔ P.at t = Option.none := by
  unfold Spec.Pos.occupied; cases P.at t <;> simp

/-- "opponent piece or empty" (the mask `opposing_pieces | vacancy`) is "not an own piece" -/
theorem test_opp_or_vac {s : State} (hd : DisjointBoard s.pieces) (c : Color) (t : Nat) (ht : t < 64) :
    test (s.pieces.colorOcc c.opp ||| ~~~s.pieces.occ) t = true ↔
      ∀ k, (abs s).at t ≠ some (absColor c, k) := by
  rw [test_or, test_not _ _ ht, Bool.or_eq_true, test_own_iff hd, test_occ_iff, Bool.not_eq_true',
    occupied_false_iff]
  constructor
  · rintro (⟨k', h⟩ | h) k e
    · rw [h] at e
      exact C10.absColor_opp_ne c (congrArg Prod.fst (Option.some.inj e))
    · rw [h] at e; cases e
  · intro h
    cases hat : (abs s).at t with
    | none => exact .inr rfl
    | some x =>
      obtain ⟨c', k'⟩ := x
      rcases specColor_cases c c' with e | e
      · subst e; exact absurd hat (h k')
      · subst e; exact .inl ⟨k', rfl⟩

/-- `!own_pieces` is "not an own piece" -/
theorem test_not_own {s : State} (hd : DisjointBoard s.pieces) (c : Color) (t : Nat) (ht : t < 64) :
    test (~~~s.pieces.colorOcc c) t = true ↔ ∀ k, (abs s).at t ≠ some (absColor c, k) := by
  rw [test_not _ _ ht, Bool.not_eq_true', ← Bool.not_eq_true, test_own_iff hd]
  constructor
  · intro h k e; exact h ⟨k, e⟩
  · rintro h ⟨k, e⟩; exact h k e

/-! ## part 3: the specification generators as membership statements -/

/-- the move of a non-pawn piece from `o` to `t`: a capture of whatever stands on `t` -/
def specStep (P : Spec.Pos) (c : Spec.Color) (k : Spec.Kind) (o t : Nat) : Spec.SMove :=
  match P.at t with
  | some (_, k') => { color := c, kind := k, src := o, dst := t, capture := some k' }
  | Option.none => { color := c, kind := k, src := o, dst := t }

theorem specStep_dst (P : Spec.Pos) (c : Spec.Color) (k : Spec.Kind) (o t : Nat) : (specStep P c k o t).dst = t := by
  unfold specStep; split <;> rfl

theorem specStep_src (P : Spec.Pos) (c : Spec.Color) (k : Spec.Kind) (o t : Nat) : (specStep P c k o t).src = o := by
  unfold specStep; split <;> rfl

theorem mem_pieceMovesFrom (P : Spec.Pos) (c : Spec.Color) (k : Spec.Kind) (s : Nat) (sm : Spec.SMove) :
    sm ∈ Spec.pieceMovesFrom P c k s ↔
      ∃ t ∈ Spec.attacksFrom P.occupied c k s, (∀ k', P.at t ≠ some (c, k')) ∧ sm = specStep P c k s t := by
  unfold Spec.pieceMovesFrom
  rw [List.mem_filterMap]
  apply exists_congr
  intro t
  apply and_congr_right
  intro _
  unfold specStep
  cases hat : P.at t with
  | none =>
    simp only [Option.some.injEq]
    constructor
    · intro h; exact ⟨fun k' e => (by cases e), h.symm⟩
    · intro h; exact h.2.symm
  | some x =>
    obtain ⟨c', k'⟩ := x
    by_cases hc : c' = c
    · subst hc
      simp only [beq_self_eq_true, if_true]
      constructor
      · intro h; cases h
      · intro h; exact absurd rfl (h.1 k')
    · have hb : (c' == c) = false := by simpa using hc
      simp only [hb, Bool.false_eq_true, if_false, Option.some.injEq]
      constructor
      · intro h; exact ⟨fun k'' e => hc (congrArg Prod.fst (Option.some.inj e)), h.symm⟩
      · intro h; exact h.2.symm

/-! ## part 4: `expand_moves`; knights, sliders, king steps -/

theorem capturedAt_none (s : State) (t : Nat) (h : s.pieces.pieceAt t = Option.none) : capturedAt s t = Option.none := by
  unfold capturedAt; rw [h]; rfl

theorem capturedAt_some (s : State) (t : Nat) (c : Color) (q : Piece) (h : s.pieces.pieceAt t = some (c, q)) :
    capturedAt s t = some q := by
  unfold capturedAt; rw [h]; rfl

theorem mem_expandMoves (h : Helper) (o : Nat) (dests : UInt64) (p : Piece) (m : Move) :
    m ∈ expandMoves h o dests p ↔ ∃ t, t < 64 ∧ test dests t = true ∧
      m = (match capturedAt h.s t with
           | some cap => Move.byCapturing h.us p o t cap
           | Option.none => Move.byMoving h.us p o t) := by
  unfold expandMoves
  simp only [List.mem_map, mem_bitsOf, and_assoc]
  constructor
  · rintro ⟨t, h1, h2, h3⟩; exact ⟨t, h1, h2, h3.symm⟩
  · rintro ⟨t, h1, h2, h3⟩; exact ⟨t, h1, h2, h3.symm⟩

/-- one expanded move, read through `toSpecMove` -/
theorem toSpecMove_expandOne (s : State) (us : Color) (p : Piece) (k : Spec.Kind)
    (hk : absKind p = some k) (hp : p ≠ Piece.pawn) (o t : Nat) (ho : o < 64) (ht : t < 64) :
    toSpecMove (match capturedAt s t with
           | some cap => Move.byCapturing us p o t cap
           | Option.none => Move.byMoving us p o t) = some (specStep (abs s) (absColor us) k o t) := by
  cases hpa : s.pieces.pieceAt t with
  | none =>
    rw [capturedAt_none s t hpa]
    simp only []
    rw [toSpecMove_byMoving us p k hk o t ho ht, dbl_of_ne_pawn p o t hp]
    unfold specStep; rw [(at_none_iff s t).2 hpa]
  | some cq =>
    obtain ⟨c', q⟩ := cq
    rw [capturedAt_some s t c' q hpa]
    simp only []
    obtain ⟨k', hk', hat⟩ := at_of_pieceAt s t c' q hpa
    rw [toSpecMove_byCapturing us p k hk o t q k' hk' ho ht, dbl_of_ne_pawn p o t hp]
    unfold specStep; rw [hat]

/-- **generic non-pawn generator**: the loop `for sq in own_piece(p) { expand_moves(sq, dests sq, p) }` produces,
read through `toSpecMove`, exactly the specification's moves of the pieces of kind `k` of the side to move,
restricted to the destinations `keep`, as soon as `dests sq` is the attack set minus own squares, restricted to `keep` -/
theorem mem_pieceGen (s : State) (hd : DisjointBoard s.pieces) (p : Piece) (k : Spec.Kind)
    (hk : absKind p = some k) (hp : p ≠ Piece.pawn) (dests : Nat → UInt64) (keep : Nat → Prop)
    (hdests : ∀ sq, sq < 64 → ∀ t, test (dests sq) t = true ↔
      (t ∈ Spec.attacksFrom (abs s).occupied (absColor s.turn) k sq ∧
       (∀ k', (abs s).at t ≠ some (absColor s.turn, k')) ∧ keep t))
    (sm : Option Spec.SMove) :
    sm ∈ ((bitsOf (s.pieces.get s.turn p)).flatMap fun sq =>
            expandMoves (Helper.of s) sq (dests sq) p).map toSpecMove ↔
      ∃ sq, (abs s).at sq = some (absColor s.turn, k) ∧
        ∃ m ∈ Spec.pieceMovesFrom (abs s) (absColor s.turn) k sq, keep m.dst ∧ sm = some m := by
  simp only [List.mem_map, List.mem_flatMap, mem_bitsOf, mem_expandMoves]
  constructor
  · rintro ⟨m, ⟨sq, ⟨hsq, hpc⟩, t, ht, hdt, rfl⟩, rfl⟩
    obtain ⟨hatt, hown, hkeep⟩ := (hdests sq hsq t).1 hdt
    refine ⟨sq, at_of_test hd sq s.turn p k hk hpc, specStep (abs s) (absColor s.turn) k sq t, ?_, ?_, ?_⟩
    · exact (mem_pieceMovesFrom _ _ _ _ _).2 ⟨t, hatt, hown, rfl⟩
    · rw [specStep_dst]; exact hkeep
    · exact toSpecMove_expandOne s s.turn p k hk hp sq t hsq ht
  · rintro ⟨sq, hat, m, hm, hkeep, rfl⟩
    obtain ⟨t, hatt, hown, rfl⟩ := (mem_pieceMovesFrom _ _ _ _ _).1 hm
    rw [specStep_dst] at hkeep
    have hsq : sq < 64 := by
      apply Classical.byContradiction; intro hn
      rw [C10.abs_at, C10.absCell_ge _ _ (by omega)] at hat; cases hat
    have ht : t < 64 := attacksFrom_lt _ _ _ _ _ hatt
    refine ⟨_, ⟨sq, ⟨hsq, test_of_at hd sq s.turn p k hk hat⟩, t, ht, (hdests sq hsq t).2 ⟨hatt, hown, hkeep⟩, rfl⟩, ?_⟩
    exact toSpecMove_expandOne s s.turn p k hk hp sq t hsq ht

/-- a destination mask `A & X`, bit by bit -/
theorem test_dests_iff (A X : UInt64) (L : List Nat) (Q : Nat → Prop) (hL : ∀ t ∈ L, t < 64)
    (hA : ∀ t, t < 64 → test A t = L.contains t) (hX : ∀ t, t < 64 → (test X t = true ↔ Q t)) (t : Nat) :
    test (A &&& X) t = true ↔ t ∈ L ∧ Q t := by
  by_cases ht : t < 64
  · rw [test_and, Bool.and_eq_true, hA t ht, hX t ht]; simp
  · rw [test_ge _ t (by omega)]
    constructor
    · intro h; cases h
    · rintro ⟨h, _⟩; exact absurd (hL t h) ht

theorem helper_us (s : State) : (Helper.of s).us = s.turn := rfl
theorem helper_s (s : State) : (Helper.of s).s = s := rfl
theorem helper_own (s : State) : (Helper.of s).own = s.pieces.colorOcc s.turn := rfl
theorem helper_opp (s : State) : (Helper.of s).opp = s.pieces.colorOcc s.turn.opp := rfl
theorem helper_occ (s : State) : (Helper.of s).occ = s.pieces.occ := rfl
theorem helper_vac (s : State) : (Helper.of s).vac = ~~~s.pieces.occ := rfl
theorem helper_oppAtt (s : State) : (Helper.of s).oppAtt = coloredAttacks s.pieces s.turn.opp := rfl

/-- knights -/
theorem mem_knightMoves (s : State) (hd : DisjointBoard s.pieces) (sm : Option Spec.SMove) :
    sm ∈ (knightMoves (Helper.of s)).map toSpecMove ↔
      ∃ sq, (abs s).at sq = some (absColor s.turn, Spec.Kind.knight) ∧
        ∃ m ∈ Spec.pieceMovesFrom (abs s) (absColor s.turn) .knight sq, True ∧ sm = some m := by
  unfold knightMoves
  apply mem_pieceGen s hd .knight .knight rfl (by decide)
    (fun sq => knightAttacks sq &&& ((Helper.of s).opp ||| (Helper.of s).vac)) (fun _ => True)
  intro sq hsq t
  simp only [helper_opp, helper_vac]
  rw [test_dests_iff _ _ (Spec.attacksFrom (abs s).occupied (absColor s.turn) .knight sq)
    (fun t => ∀ k', (abs s).at t ≠ some (absColor s.turn, k'))
    (fun t h => attacksFrom_lt _ _ _ _ _ h)
    (fun t ht => C09_knight _ _ sq t hsq ht)
    (fun t ht => test_opp_or_vac hd s.turn t ht)]
  simp

/-- sliders -/
theorem mem_sliderMoves (s : State) (hd : DisjointBoard s.pieces) (p : Piece) (k : Spec.Kind)
    (hk : absKind p = some k) (hp : p ≠ Piece.pawn) (att : Nat → UInt64 → UInt64)
    (hatt : ∀ sq, sq < 64 → ∀ (occ : UInt64) (t : Nat), test (att sq occ) t =
      (Spec.attacksFrom (fun n => test occ n) (absColor s.turn) k sq).contains t)
    (sm : Option Spec.SMove) :
    sm ∈ (sliderMoves (Helper.of s) p att).map toSpecMove ↔
      ∃ sq, (abs s).at sq = some (absColor s.turn, k) ∧
        ∃ m ∈ Spec.pieceMovesFrom (abs s) (absColor s.turn) k sq, True ∧ sm = some m := by
  unfold sliderMoves
  apply mem_pieceGen s hd p k hk hp
    (fun sq => att sq (Helper.of s).occ &&& ~~~(Helper.of s).own) (fun _ => True)
  intro sq hsq t
  simp only [helper_own, helper_occ]
  rw [test_dests_iff _ _ (Spec.attacksFrom (abs s).occupied (absColor s.turn) k sq)
    (fun t => ∀ k', (abs s).at t ≠ some (absColor s.turn, k'))
    (fun t h => attacksFrom_lt _ _ _ _ _ h)
    (fun t _ => by rw [hatt sq hsq, occupied_eq_test])
    (fun t ht => test_not_own hd s.turn t ht)]
  simp

/-- the `steps` half of `compute_king_moves` -/
def kingStepList (h : Helper) : List Move :=
  (bitsOf (h.s.pieces.get h.us .king)).flatMap fun sq =>
    expandMoves h sq (kingAttacks sq &&& (h.opp ||| h.vac) &&& ~~~h.oppAtt) .king

/-- the castling half of `compute_king_moves` -/
def castleList (h : Helper) : List Move :=
  Side.all.filterMap fun side =>
    if (h.s.castle h.us).forSide side then
      let blocks := h.occ &&& (castlePathMasks[side.idx]!)[h.us.idx]!
      let checks := h.oppAtt &&& (castleCheckMasks[side.idx]!)[h.us.idx]!
      if bbNone blocks && bbNone checks then some (Move.byCastling h.us side) else Option.none
    else Option.none

theorem kingMoves_eq (h : Helper) : kingMoves h = kingStepList h ++ castleList h := rfl

/-- king steps: the specification's king moves whose destination is not in `opposing_attacks()` -/
theorem mem_kingStepList (s : State) (hd : DisjointBoard s.pieces) (sm : Option Spec.SMove) :
    sm ∈ (kingStepList (Helper.of s)).map toSpecMove ↔
      ∃ sq, (abs s).at sq = some (absColor s.turn, Spec.Kind.king) ∧
        ∃ m ∈ Spec.pieceMovesFrom (abs s) (absColor s.turn) .king sq,
          test (coloredAttacks s.pieces s.turn.opp) m.dst = false ∧ sm = some m := by
  unfold kingStepList
  apply mem_pieceGen s hd .king .king rfl (by decide)
    (fun sq => kingAttacks sq &&& ((Helper.of s).opp ||| (Helper.of s).vac) &&& ~~~(Helper.of s).oppAtt)
    (fun t => test (coloredAttacks s.pieces s.turn.opp) t = false)
  intro sq hsq t
  simp only [helper_opp, helper_vac, helper_oppAtt]
  by_cases ht : t < 64
  · rw [test_and, Bool.and_eq_true, test_dests_iff _ _ (Spec.attacksFrom (abs s).occupied (absColor s.turn) .king sq)
      (fun t => ∀ k', (abs s).at t ≠ some (absColor s.turn, k'))
      (fun t h => attacksFrom_lt _ _ _ _ _ h)
      (fun t ht => C09_king _ _ sq t hsq ht)
      (fun t ht => test_opp_or_vac hd s.turn t ht), test_not _ _ ht]
    simp [and_assoc]
  · rw [test_ge _ t (by omega)]
    constructor
    · intro h; cases h
    · rintro ⟨h, _⟩; exact absurd (attacksFrom_lt _ _ _ _ _ h) ht

/-! ## part 5: castling -/

theorem bbNone_iff (x : UInt64) : bbNone x = true ↔ ∀ n, n < 64 → test x n = false := by
  unfold bbNone
  rw [beq_iff_eq]
  constructor
  · intro h n _; rw [h, test_zero]
  · exact eq_zero_of_test x

/-- `(X & mask).none()` for a mask given as a list of squares -/
theorem bbNone_and_mask (X mask : UInt64) (l : List Nat)
    (hm : ∀ j : Fin 64, test mask j.val = l.contains j.val) :
    bbNone (X &&& mask) = l.all (fun t => !test X t) := by
  rw [Bool.eq_iff_iff, bbNone_iff, List.all_eq_true]
  constructor
  · intro h t ht
    by_cases h64 : t < 64
    · have := h t h64
      rw [test_and, hm ⟨t, h64⟩] at this
      simp only [List.contains_eq_mem, ht, decide_true, Bool.and_true] at this
      simp [this]
    · simp [test_ge X t (by omega)]
  · intro h n hn
    rw [test_and, hm ⟨n, hn⟩]
    by_cases hl : n ∈ l
    · have := h n hl
      simp only [Bool.not_eq_true'] at this
      simp [this]
    · simp [hl]

/-- bit `t` of `opposing_attacks()` is "attacked by the opponent" when `t` holds no opposing piece -/
theorem test_oppAtt_eq (s : State) (hd : DisjointBoard s.pieces) (t : Nat) (ht : t < 64)
    (hno : ∀ k, (abs s).at t ≠ some ((absColor s.turn).opp, k)) :
    test (coloredAttacks s.pieces s.turn.opp) t = (abs s).attackedBy (absColor s.turn).opp t := by
  rw [Bool.eq_iff_iff, C10.C10_attacks_closed s hd s.turn.opp t ht, C10.absColor_opp]
  constructor
  · exact fun h => h.1
  · exact fun h => ⟨h, fun ⟨k, e⟩ => hno k e⟩

/-- the two conditions of one castling side, bitboard form = mailbox form.  `path` are the squares strictly
between king and rook, `check` the king's square, the crossed square and the landing square. -/
theorem castleCond_eq (s : State) (hd : DisjointBoard s.pieces) (pathMask checkMask : UInt64)
    (path check : List Nat)
    (hp : ∀ j : Fin 64, test pathMask j.val = path.contains j.val)
    (hc : ∀ j : Fin 64, test checkMask j.val = check.contains j.val)
    (hlt : ∀ t ∈ check, t < 64)
    (hno : ∀ t ∈ check, t ∉ path → ∀ k, (abs s).at t ≠ some ((absColor s.turn).opp, k)) :
    (bbNone ((Helper.of s).occ &&& pathMask) && bbNone ((Helper.of s).oppAtt &&& checkMask)) =
      (path.all (fun t => !(abs s).occupied t) &&
       check.all (fun t => !(abs s).attackedBy (absColor s.turn).opp t)) := by
  rw [bbNone_and_mask _ _ path hp, bbNone_and_mask _ _ check hc, helper_occ, helper_oppAtt]
  have e1 : path.all (fun t => !test s.pieces.occ t) = path.all (fun t => !(abs s).occupied t) := by
    congr 1; funext t; rw [test_occ_iff]
  rw [e1]
  cases hpath : path.all (fun t => !(abs s).occupied t) with
  | false => rfl
  | true =>
    simp only [Bool.true_and]
    rw [List.all_eq_true] at hpath
    have key : ∀ t ∈ check, test (coloredAttacks s.pieces s.turn.opp) t =
        (abs s).attackedBy (absColor s.turn).opp t := by
      intro t ht
      apply test_oppAtt_eq s hd t (hlt t ht)
      by_cases htp : t ∈ path
      · have := hpath t htp
        simp only [Bool.not_eq_true', occupied_false_iff] at this
        intro k e; rw [this] at e; cases e
      · exact hno t ht htp
    rw [Bool.eq_iff_iff, List.all_eq_true, List.all_eq_true]
    constructor
    · intro h t ht; rw [← key t ht]; exact h t ht
    · intro h t ht; rw [key t ht]; exact h t ht

theorem castleMask_facts :
    (∀ j : Fin 64, test ((castlePathMasks[Side.king.idx]!)[Color.white.idx]!) j.val = [5, 6].contains j.val) ∧
    (∀ j : Fin 64, test ((castlePathMasks[Side.queen.idx]!)[Color.white.idx]!) j.val = [3, 2, 1].contains j.val) ∧
    (∀ j : Fin 64, test ((castlePathMasks[Side.king.idx]!)[Color.black.idx]!) j.val = [61, 62].contains j.val) ∧
    (∀ j : Fin 64, test ((castlePathMasks[Side.queen.idx]!)[Color.black.idx]!) j.val = [59, 58, 57].contains j.val) ∧
    (∀ j : Fin 64, test ((castleCheckMasks[Side.king.idx]!)[Color.white.idx]!) j.val = [4, 5, 6].contains j.val) ∧
    (∀ j : Fin 64, test ((castleCheckMasks[Side.queen.idx]!)[Color.white.idx]!) j.val = [4, 3, 2].contains j.val) ∧
    (∀ j : Fin 64, test ((castleCheckMasks[Side.king.idx]!)[Color.black.idx]!) j.val = [60, 61, 62].contains j.val) ∧
    (∀ j : Fin 64, test ((castleCheckMasks[Side.queen.idx]!)[Color.black.idx]!) j.val = [60, 59, 58].contains j.val) := by
  refine ⟨?_, ?_, ?_, ?_, ?_, ?_, ?_, ?_⟩ <;> decide

def castleCond (h : Helper) (side : Side) : Bool :=
  (h.s.castle h.us).forSide side &&
    (bbNone (h.occ &&& (castlePathMasks[side.idx]!)[h.us.idx]!) &&
     bbNone (h.oppAtt &&& (castleCheckMasks[side.idx]!)[h.us.idx]!))

theorem castleList_eq (h : Helper) : castleList h =
    (if castleCond h .king then [Move.byCastling h.us .king] else []) ++
    (if castleCond h .queen then [Move.byCastling h.us .queen] else []) := by
  unfold castleList castleCond Side.all
  simp only [List.filterMap_cons, List.filterMap_nil]
  cases (h.s.castle h.us).forSide .king <;> cases (h.s.castle h.us).forSide .queen <;>
    simp only [Bool.false_eq_true, if_false, if_true, Bool.false_and, Bool.true_and, List.nil_append] <;>
    (try split) <;> (try split) <;> simp_all

theorem castle_side_eq (s : State) (hd : DisjointBoard s.pieces) (right : Bool) (pathMask checkMask : UInt64)
    (path check : List Nat) (khome : Nat)
    (hp : ∀ j : Fin 64, test pathMask j.val = path.contains j.val)
    (hc : ∀ j : Fin 64, test checkMask j.val = check.contains j.val)
    (hlt : ∀ t ∈ check, t < 64)
    (hsub : ∀ t ∈ check, t ∉ path → t = khome)
    (hking : right = true → (abs s).at khome = some (absColor s.turn, Spec.Kind.king)) :
    (right && (bbNone ((Helper.of s).occ &&& pathMask) && bbNone ((Helper.of s).oppAtt &&& checkMask))) =
      (right && (path.all (fun t => !(abs s).occupied t) &&
       check.all (fun t => !(abs s).attackedBy (absColor s.turn).opp t))) := by
  cases right with
  | false => rfl
  | true =>
    simp only [Bool.true_and]
    apply castleCond_eq s hd pathMask checkMask path check hp hc hlt
    intro t ht htp k e
    rw [hsub t ht htp, hking rfl] at e
    have := congrArg Prod.fst (Option.some.inj e)
    revert this
    cases s.turn <;> simp [absColor, Spec.Color.opp]

theorem map_ite_single {α β γ : Type} (c : Prop) [Decidable c] (f : α → γ) (g : β → γ) (x : α) (y : β)
    (h : f x = g y) : List.map f (if c then [x] else []) = List.map g (if c then [y] else []) := by
  split <;> simp [h]

theorem castleList_spec (s : State) (hd : DisjointBoard s.pieces)
    (hking : ∀ side, (s.castle s.turn).forSide side = true →
      (abs s).at (Spec.kingHome (absColor s.turn)) = some (absColor s.turn, Spec.Kind.king)) :
    (castleList (Helper.of s)).map toSpecMove = (Spec.castleMoves (abs s) (absColor s.turn)).map some := by
  obtain ⟨f1, f2, f3, f4, f5, f6, f7, f8⟩ := castleMask_facts
  rw [castleList_eq]
  unfold castleCond
  simp only [helper_us, helper_s]
  have hcases : s.turn = .white ∨ s.turn = .black := by cases s.turn <;> simp
  rcases hcases with hturn | hturn
  · have hk := castle_side_eq s hd s.castleW.kingside _ _ [5, 6] [4, 5, 6] 4 f1 f5 (by decide) (by decide)
      (by have := hking .king; rw [hturn] at this ⊢; exact this)
    have hq := castle_side_eq s hd s.castleW.queenside _ _ [3, 2, 1] [4, 3, 2] 4 f2 f6 (by decide) (by decide)
      (by have := hking .queen; rw [hturn] at this ⊢; exact this)
    rw [hturn] at hk hq
    simp only [hturn, State.castle, CastleRights.forSide, hk, hq]
    have eK : (s.castleW.kingside && (([5, 6].all fun t => !(abs s).occupied t) &&
        [4, 5, 6].all fun t => !(abs s).attackedBy (absColor Color.white).opp t)) =
        ((abs s).wk && !(abs s).occupied (4+1) && !(abs s).occupied (4+2) &&
          !(abs s).attackedBy Spec.Color.black 4 && !(abs s).attackedBy Spec.Color.black (4+1) &&
          !(abs s).attackedBy Spec.Color.black (4+2)) := by
      simp only [List.all_cons, List.all_nil, Bool.and_true, Bool.and_assoc, Nat.reduceAdd]
      rfl
    have eQ : (s.castleW.queenside && (([3, 2, 1].all fun t => !(abs s).occupied t) &&
        [4, 3, 2].all fun t => !(abs s).attackedBy (absColor Color.white).opp t)) =
        ((abs s).wq && !(abs s).occupied (4-1) && !(abs s).occupied (4-2) && !(abs s).occupied (4-3) &&
          !(abs s).attackedBy Spec.Color.black 4 && !(abs s).attackedBy Spec.Color.black (4-1) &&
          !(abs s).attackedBy Spec.Color.black (4-2)) := by
      simp only [List.all_cons, List.all_nil, Bool.and_true, Bool.and_assoc, Nat.reduceSub]
      rfl
    rw [eK, eQ]
    simp only [Spec.castleMoves, absColor, Spec.kingHome, Spec.Color.opp, List.map_append]
    congr 1
    · apply map_ite_single; rw [toSpecMove_byCastling]; rfl
    · apply map_ite_single; rw [toSpecMove_byCastling]; rfl
  · have hk := castle_side_eq s hd s.castleB.kingside _ _ [61, 62] [60, 61, 62] 60 f3 f7 (by decide) (by decide)
      (by have := hking .king; rw [hturn] at this ⊢; exact this)
    have hq := castle_side_eq s hd s.castleB.queenside _ _ [59, 58, 57] [60, 59, 58] 60 f4 f8 (by decide) (by decide)
      (by have := hking .queen; rw [hturn] at this ⊢; exact this)
    rw [hturn] at hk hq
    simp only [hturn, State.castle, CastleRights.forSide, hk, hq]
    have eK : (s.castleB.kingside && (([61, 62].all fun t => !(abs s).occupied t) &&
        [60, 61, 62].all fun t => !(abs s).attackedBy (absColor Color.black).opp t)) =
        ((abs s).bk && !(abs s).occupied (60+1) && !(abs s).occupied (60+2) &&
          !(abs s).attackedBy Spec.Color.white 60 && !(abs s).attackedBy Spec.Color.white (60+1) &&
          !(abs s).attackedBy Spec.Color.white (60+2)) := by
      simp only [List.all_cons, List.all_nil, Bool.and_true, Bool.and_assoc, Nat.reduceAdd]
      rfl
    have eQ : (s.castleB.queenside && (([59, 58, 57].all fun t => !(abs s).occupied t) &&
        [60, 59, 58].all fun t => !(abs s).attackedBy (absColor Color.black).opp t)) =
        ((abs s).bq && !(abs s).occupied (60-1) && !(abs s).occupied (60-2) && !(abs s).occupied (60-3) &&
          !(abs s).attackedBy Spec.Color.white 60 && !(abs s).attackedBy Spec.Color.white (60-1) &&
          !(abs s).attackedBy Spec.Color.white (60-2)) := by
      simp only [List.all_cons, List.all_nil, Bool.and_true, Bool.and_assoc, Nat.reduceSub]
      rfl
    rw [eK, eQ]
    simp only [Spec.castleMoves, absColor, Spec.kingHome, Spec.Color.opp, List.map_append]
    congr 1
    · apply map_ite_single; rw [toSpecMove_byCastling]; rfl
    · apply map_ite_single; rw [toSpecMove_byCastling]; rfl

/-! ## part 6: pawns -/

/-- simple pushes that do not promote -/
def pawnPushSeg (h : Helper) : Gen? :=
  (bitsOf (shiftFwd h.us (h.s.pieces.get h.us .pawn) &&& h.vac &&& ~~~backrankMask h.us)).mapM fun t => do
    let o ← offset t 0 h.us.backward
    pure (Move.byMoving h.us .pawn o t)

/-- simple pushes that promote (one list of four moves per target) -/
def pawnPromoSeg (h : Helper) : Option (List (List Move)) :=
  (bitsOf (shiftFwd h.us (h.s.pieces.get h.us .pawn) &&& h.vac &&& backrankMask h.us)).mapM fun t => do
    let o ← offset t 0 h.us.backward
    pure (promotionPieces.map fun pr => Move.byPromoting h.us .pawn o t pr)

/-- double pushes -/
def pawnDoubleSeg (h : Helper) : Gen? :=
  (bitsOf (shiftFwd h.us (shiftFwd h.us (h.s.pieces.get h.us .pawn &&& homeRankMask h.us) &&& h.vac) &&& h.vac)).mapM
    fun t => do
      let o1 ← offset t 0 h.us.backward
      let o ← offset o1 0 h.us.backward
      pure (Move.byMoving h.us .pawn o t)

def pawnAtt (h : Helper) (east : Bool) : UInt64 :=
  if east then shiftE (shiftFwd h.us (h.s.pieces.get h.us .pawn)) else shiftW (shiftFwd h.us (h.s.pieces.get h.us .pawn))

def invDf (east : Bool) : Int := if east then -1 else 1

def pawnCapSeg (h : Helper) (east : Bool) : Gen? :=
  (bitsOf (pawnAtt h east &&& ~~~backrankMask h.us &&& h.opp)).mapM fun t => do
    let o ← offset t (invDf east) h.us.backward
    let cap ← capturedAt h.s t
    pure (Move.byCapturing h.us .pawn o t cap)

def pawnCapPromoSeg (h : Helper) (east : Bool) : Option (List (List Move)) :=
  (bitsOf (pawnAtt h east &&& backrankMask h.us &&& h.opp)).mapM fun t => do
    let o ← offset t (invDf east) h.us.backward
    let cap ← capturedAt h.s t
    pure (promotionPieces.map fun pr => Move.byCapturePromoting h.us .pawn o t cap pr)

def epBB (h : Helper) (east : Bool) : UInt64 :=
  pawnAtt h east &&& (match h.s.ep with | some t => bit t | Option.none => 0)

def pawnEpSeg (h : Helper) (east : Bool) : Gen? :=
  match firstOne (epBB h east) with
  | some t => do
    let o ← offset t (invDf east) h.us.backward
    pure [Move.byEnPassant h.us .pawn o t]
  | Option.none => pure []

def pawnSideSeg (h : Helper) (east : Bool) : Gen? := do
  let x ← pawnCapSeg h east
  let y ← pawnCapPromoSeg h east
  let z ← match firstOne (epBB h east) with
    | some t => do
      let o ← offset t (invDf east) h.us.backward
      pure [Move.byEnPassant h.us .pawn o t]
    | Option.none => pure []
  pure (x ++ y.flatten ++ z)

theorem pawnSideSeg_eq (h : Helper) (east : Bool) : pawnSideSeg h east = (do
    let x ← pawnCapSeg h east
    let y ← pawnCapPromoSeg h east
    let z ← pawnEpSeg h east
    pure (x ++ y.flatten ++ z)) := by
  unfold pawnSideSeg pawnEpSeg
  cases pawnCapSeg h east with
  | none => rfl
  | some x =>
    cases pawnCapPromoSeg h east with
    | none => rfl
    | some y =>
      cases firstOne (epBB h east) with
      | none => rfl
      | some t =>
        dsimp only
        cases offset t (invDf east) h.us.backward <;> rfl

theorem pawnMoves_eq (h : Helper) : pawnMoves h = (do
    let a ← pawnPushSeg h
    let b ← pawnPromoSeg h
    let c ← pawnDoubleSeg h
    let e ← pawnSideSeg h true
    let w ← pawnSideSeg h false
    pure (a ++ b.flatten ++ c ++ e ++ w)) := by
  unfold pawnMoves pawnPushSeg pawnPromoSeg pawnDoubleSeg pawnSideSeg pawnCapSeg pawnCapPromoSeg epBB pawnAtt invDf
  rfl

/-! ### geometry of one pawn step -/

theorem bwd_eq (c : Color) : c.backward = -(absColor c).fwd := by cases c <;> rfl

theorem fwd_cases (c : Color) : (absColor c).fwd = 1 ∨ (absColor c).fwd = -1 := by cases c <;> simp [absColor, Spec.Color.fwd]

/-- a coordinate step can be undone -/
theorem step_rev {o t : Nat} {df dr : Int} (ho : o < 64) (h : Spec.step o df dr = some t) :
    Spec.step t (-df) (-dr) = some o := by
  rw [step_eq_some] at h ⊢
  omega

theorem step_rev_iff {o t : Nat} {df dr : Int} (ho : o < 64) (ht : t < 64) :
    Spec.step t (-df) (-dr) = some o ↔ Spec.step o df dr = some t := by
  constructor
  · intro h; have := step_rev ht h; simpa using this
  · exact step_rev ho

/-- the origin of a step is determined by its target -/
theorem step_src_inj {o o' t : Nat} {df dr : Int} (ho : o < 64) (ho' : o' < 64)
    (h : Spec.step o df dr = some t) (h' : Spec.step o' df dr = some t) : o = o' := by
  rw [step_eq_some] at h h'
  omega

/-- a diagonal step is a rank step followed by a file step -/
theorem step_comp (o t : Nat) (df dr : Int) :
    (∃ m, Spec.step o 0 dr = some m ∧ Spec.step m df 0 = some t) ↔ Spec.step o df dr = some t := by
  constructor
  · rintro ⟨m, h1, h2⟩
    rw [step_eq_some] at h1 h2 ⊢
    omega
  · intro h
    rw [step_eq_some] at h
    refine ⟨((((o / 8 : Nat) : Int) + dr).toNat * 8 + (((o % 8 : Nat) : Int) + 0).toNat), ?_, ?_⟩
    · rw [step_eq_some]; omega
    · rw [step_eq_some]; omega

theorem step_src_lt0 {m t : Nat} {df : Int} (h : Spec.step m df 0 = some t) : m < 64 := by
  rw [step_eq_some] at h; omega

theorem offset_back_iff (c : Color) (df : Int) {o t : Nat} (ho : o < 64) (ht : t < 64) :
    offset t (-df) c.backward = some o ↔ Spec.step o df (absColor c).fwd = some t := by
  rw [offset_eq_step, bwd_eq, step_rev_iff ho ht]

theorem test_shiftFwd (c : Color) (b : UInt64) (t : Nat) (ht : t < 64) :
    test (shiftFwd c b) t = true ↔ ∃ o, test b o = true ∧ Spec.step o 0 (absColor c).fwd = some t := by
  cases c
  · exact (C09_shift_step b t ht).2.2.1
  · exact (C09_shift_step b t ht).2.2.2

theorem test_backrank (c : Color) (t : Nat) (ht : t < 64) :
    test (backrankMask c) t = decide (t / 8 = Spec.lastRank (absColor c)) := by
  have hw : ∀ j : Fin 64, test (backrankMask .white) j.val = decide (j.val / 8 = 7) := by decide
  have hb : ∀ j : Fin 64, test (backrankMask .black) j.val = decide (j.val / 8 = 0) := by decide
  cases c
  · exact hw ⟨t, ht⟩
  · exact hb ⟨t, ht⟩

theorem test_homeRank (c : Color) (t : Nat) (ht : t < 64) :
    test (homeRankMask c) t = decide (t / 8 = Spec.homeRank (absColor c)) := by
  have hw : ∀ j : Fin 64, test (homeRankMask .white) j.val = decide (j.val / 8 = 1) := by decide
  have hb : ∀ j : Fin 64, test (homeRankMask .black) j.val = decide (j.val / 8 = 6) := by decide
  cases c
  · exact hw ⟨t, ht⟩
  · exact hb ⟨t, ht⟩

/-- file direction of a capture towards the east / west side -/
def capDf (east : Bool) : Int := if east then 1 else -1

theorem invDf_eq (east : Bool) : invDf east = -capDf east := by cases east <;> rfl

theorem test_pawnAtt (h : Helper) (east : Bool) (t : Nat) (ht : t < 64) :
    test (pawnAtt h east) t = true ↔
      ∃ o, test (h.s.pieces.get h.us .pawn) o = true ∧ Spec.step o (capDf east) (absColor h.us).fwd = some t := by
  have key : ∀ df : Int, (∃ m, (∃ o, test (h.s.pieces.get h.us .pawn) o = true ∧
      Spec.step o 0 (absColor h.us).fwd = some m) ∧ Spec.step m df 0 = some t) ↔
      ∃ o, test (h.s.pieces.get h.us .pawn) o = true ∧ Spec.step o df (absColor h.us).fwd = some t := by
    intro df
    constructor
    · rintro ⟨m, ⟨o, ho, h1⟩, h2⟩; exact ⟨o, ho, (step_comp o t df _).1 ⟨m, h1, h2⟩⟩
    · rintro ⟨o, ho, h1⟩
      obtain ⟨m, h2, h3⟩ := (step_comp o t df _).2 h1
      exact ⟨m, ⟨o, ho, h2⟩, h3⟩
  unfold pawnAtt capDf
  cases east
  · simp only [Bool.false_eq_true, if_false]
    rw [(C09_shift_step _ t ht).2.1, ← key]
    apply exists_congr; intro m
    apply and_congr_left; intro hm
    exact test_shiftFwd _ _ m (step_src_lt0 hm)
  · simp only [if_true]
    rw [(C09_shift_step _ t ht).1, ← key]
    apply exists_congr; intro m
    apply and_congr_left; intro hm
    exact test_shiftFwd _ _ m (step_src_lt0 hm)

/-! ### tags: a number that tells the generator segments apart -/

/-- which segment of `compute_psuedo_legal_moves_into` produces a move like this one (increasing in generation order) -/
def tag : Option Spec.SMove → Nat
  | Option.none => 0
  | some m =>
    match m.kind with
    | .pawn =>
      if m.dbl then 3
      else (if m.dst % 8 = m.src % 8 then 0 else if m.src % 8 < m.dst % 8 then 10 else 20) +
           (if m.ep then 3 else if m.promo.isSome then 2 else 1)
    | .knight => 30
    | .king => if m.castle.isSome then 41 else 40
    | .bishop => 50
    | .rook => 60
    | .queen => 70

def TagIn (l : List (Option Spec.SMove)) (lo hi : Nat) : Prop := ∀ a ∈ l, lo ≤ tag a ∧ tag a < hi

theorem nodup_append_tag {l1 l2 : List (Option Spec.SMove)} {lo mid hi : Nat}
    (h1 : l1.Nodup ∧ TagIn l1 lo mid) (h2 : l2.Nodup ∧ TagIn l2 mid hi) (hlm : lo ≤ mid) (hmh : mid ≤ hi) :
    (l1 ++ l2).Nodup ∧ TagIn (l1 ++ l2) lo hi := by
  refine ⟨List.nodup_append.2 ⟨h1.1, h2.1, ?_⟩, ?_⟩
  · intro a ha b hb e
    subst e
    have := (h1.2 a ha).2
    have := (h2.2 a hb).1
    omega
  · intro a ha
    rcases List.mem_append.1 ha with ha | ha
    · have := h1.2 a ha; omega
    · have := h2.2 a ha; omega

theorem tagIn_of_const {l : List (Option Spec.SMove)} (i : Nat) (h : ∀ a ∈ l, tag a = i) : TagIn l i (i + 1) := by
  intro a ha; rw [h a ha]; omega

theorem tagIn_mono {l : List (Option Spec.SMove)} {lo hi lo' hi' : Nat} (h : TagIn l lo hi) (h1 : lo' ≤ lo)
    (h2 : hi ≤ hi') : TagIn l lo' hi' := by
  intro a ha; have := h a ha; omega

/-- no duplicates in a loop over the ones of a mask whose `t`-th body only yields moves with destination `t` -/
theorem seg_nodup {β : Type} (M : UInt64) (f : Nat → Option β) (g : β → List (Option Spec.SMove))
    (h1 : ∀ t y, t < 64 → test M t = true → f t = some y → (g y).Nodup)
    (h2 : ∀ t y, t < 64 → test M t = true → f t = some y → ∀ sm ∈ g y, ∃ m, sm = some m ∧ m.dst = t) :
    (((bitsOf M).filterMap f).flatMap g).Nodup := by
  rw [List.nodup_iff_pairwise_ne, List.pairwise_flatMap]
  constructor
  · intro y hy
    obtain ⟨t, ht, hft⟩ := List.mem_filterMap.1 hy
    obtain ⟨ht64, htM⟩ := (mem_bitsOf M t).1 ht
    exact List.nodup_iff_pairwise_ne.1 (h1 t y ht64 htM hft)
  · rw [List.pairwise_filterMap]
    apply (bitsOf_nodup M).imp_of_mem
    intro t t' ht ht' hne y hy y' hy' x hx x' hx' e
    subst e
    obtain ⟨ht64, htM⟩ := (mem_bitsOf M t).1 ht
    obtain ⟨ht64', htM'⟩ := (mem_bitsOf M t').1 ht'
    obtain ⟨m, e1, d1⟩ := h2 t y ht64 htM hy x hx
    obtain ⟨m', e2, d2⟩ := h2 t' y' ht64' htM' hy' x hx'
    rw [e1] at e2; cases e2
    exact hne (d1.symm.trans d2)

theorem map_eq_flatMap_single {α β : Type} (f : α → β) (l : List α) : l.map f = l.flatMap fun x => [f x] := by
  induction l with
  | nil => rfl
  | cons a t ih => simp [ih]

theorem flatten_map_eq_flatMap {α β : Type} (f : α → β) (l : List (List α)) :
    l.flatten.map f = l.flatMap (List.map f) := by
  induction l with
  | nil => rfl
  | cons a t ih => simp [ih]

theorem promoMap_nodup (m : Spec.SMove) :
    (Spec.promoKinds.map fun k => some { m with promo := some k }).Nodup := by
  rw [List.nodup_iff_pairwise_ne, List.pairwise_map]
  have : Spec.promoKinds.Nodup := by decide
  apply this.imp
  intro k k' hne e
  apply hne
  have := congrArg Spec.SMove.promo (Option.some.inj e)
  exact Option.some.inj this

/-! ### the segments of `compute_pawn_moves` -/

theorem mapM_eq_filterMap {α β : Type} (f : α → Option β) :
    ∀ (l : List α), (∀ x ∈ l, ∃ y, f x = some y) → l.mapM f = some (l.filterMap f) := by
  intro l
  induction l with
  | nil => intro _; rfl
  | cons a t ih =>
    intro h
    obtain ⟨y, hy⟩ := h a List.mem_cons_self
    rw [List.mapM_cons, hy, ih (fun x hx => h x (List.mem_cons_of_mem _ hx)), List.filterMap_cons, hy]
    rfl

/-- a loop over the ones of a mask whose body cannot fail -/
theorem mapM_seg {β : Type} (M : UInt64) (f : Nat → Option β)
    (hf : ∀ t, t < 64 → test M t = true → ∃ y, f t = some y) :
    (bitsOf M).mapM f = some ((bitsOf M).filterMap f) ∧
    ∀ y, y ∈ (bitsOf M).filterMap f ↔ ∃ t, t < 64 ∧ test M t = true ∧ f t = some y := by
  refine ⟨mapM_eq_filterMap f _ (fun t ht => ?_), fun y => ?_⟩
  · obtain ⟨h1, h2⟩ := (mem_bitsOf M t).1 ht; exact hf t h1 h2
  · simp only [List.mem_filterMap, mem_bitsOf, and_assoc]

def pawnBase (c : Spec.Color) (o t : Nat) (cap : Option Spec.Kind) : Spec.SMove :=
  { color := c, kind := .pawn, src := o, dst := t, capture := cap }

theorem dbl_single {o t : Nat} {df dr : Int} (hdr : dr = 1 ∨ dr = -1) (h : Spec.step o df dr = some t) :
    Move.dbl .pawn o t = false := by
  rw [step_eq_some] at h
  unfold Move.dbl absDist rankOf
  simp only [beq_self_eq_true, Bool.true_and, decide_eq_false_iff_not]
  split <;> omega

theorem dbl_double {o t1 t2 : Nat} {dr : Int} (hdr : dr = 1 ∨ dr = -1) (h1 : Spec.step o 0 dr = some t1)
    (h2 : Spec.step t1 0 dr = some t2) : Move.dbl .pawn o t2 = true := by
  rw [step_eq_some] at h1 h2
  unfold Move.dbl absDist rankOf
  simp only [beq_self_eq_true, Bool.true_and, decide_eq_true_eq]
  split <;> omega

theorem offset_back0 (c : Color) {o t : Nat} (ho : o < 64) (ht : t < 64) :
    offset t 0 c.backward = some o ↔ Spec.step o 0 (absColor c).fwd = some t := by
  have := offset_back_iff c 0 ho ht
  simpa using this

theorem at_lt {P : Spec.Pos} {o : Nat} {x : Spec.Color × Spec.Kind} (h : P.at o = some x) : o < 64 := by
  unfold Spec.Pos.at at h
  by_cases ho : o < 64
  · exact ho
  · rw [if_neg ho] at h; cases h

theorem test_vac_iff (s : State) (t : Nat) (ht : t < 64) :
    test (Helper.of s).vac t = true ↔ (abs s).occupied t = false := by
  rw [helper_vac, test_not _ _ ht, test_occ_iff]; simp

/-- **simple pushes without promotion** -/
theorem pawnPushSeg_spec (s : State) (hd : DisjointBoard s.pieces) :
    ∃ L, pawnPushSeg (Helper.of s) = some L ∧ (∀ sm, sm ∈ L.map toSpecMove ↔
      ∃ o t, (abs s).at o = some (absColor s.turn, Spec.Kind.pawn) ∧
        Spec.step o 0 (absColor s.turn).fwd = some t ∧ (abs s).occupied t = false ∧
        t / 8 ≠ Spec.lastRank (absColor s.turn) ∧ sm = some (pawnBase (absColor s.turn) o t Option.none)) ∧
      (L.map toSpecMove).Nodup := by
  have hM : ∀ t, t < 64 → (test (shiftFwd s.turn (s.pieces.get s.turn .pawn) &&& (Helper.of s).vac &&&
      ~~~backrankMask s.turn) t = true ↔
      (∃ o, test (s.pieces.get s.turn .pawn) o = true ∧ Spec.step o 0 (absColor s.turn).fwd = some t) ∧
      (abs s).occupied t = false ∧ t / 8 ≠ Spec.lastRank (absColor s.turn)) := by
    intro t ht
    rw [test_and, test_and, Bool.and_eq_true, Bool.and_eq_true, test_shiftFwd _ _ t ht, test_vac_iff s t ht,
      test_not _ _ ht, test_backrank _ t ht]
    simp [and_assoc]
  have hf : ∀ t o, t < 64 → test (s.pieces.get s.turn .pawn) o = true →
      Spec.step o 0 (absColor s.turn).fwd = some t →
      (do let o ← offset t 0 s.turn.backward; pure (Move.byMoving s.turn .pawn o t) : Option Move) =
        some (Move.byMoving s.turn .pawn o t) := by
    intro t o ht hpo hst
    rw [(offset_back0 s.turn (test_lt _ _ hpo) ht).2 hst]; rfl
  obtain ⟨h1, h2⟩ := mapM_seg (shiftFwd s.turn (s.pieces.get s.turn .pawn) &&& (Helper.of s).vac &&&
      ~~~backrankMask s.turn)
    (fun t => do let o ← offset t 0 s.turn.backward; pure (Move.byMoving s.turn .pawn o t))
    (by
      intro t ht hT
      obtain ⟨⟨o, hpo, hst⟩, _, _⟩ := (hM t ht).1 hT
      exact ⟨_, hf t o ht hpo hst⟩)
  refine ⟨_, h1, ?_, ?nd⟩
  case nd =>
    rw [map_eq_flatMap_single]
    apply seg_nodup
    · intro t y _ _ _; simp
    · intro t y ht hT hy sm hsm
      obtain ⟨⟨o, hpo, hst⟩, _, _⟩ := (hM t ht).1 hT
      rw [hf t o ht hpo hst] at hy; cases hy
      simp only [List.mem_singleton] at hsm; subst hsm
      rw [toSpecMove_byMoving s.turn .pawn .pawn rfl o t (test_lt _ _ hpo) ht]
      exact ⟨_, rfl, rfl⟩
  intro sm
  simp only [List.mem_map, h2]
  constructor
  · rintro ⟨m, ⟨t, ht, hT, hm⟩, rfl⟩
    obtain ⟨⟨o, hpo, hst⟩, hocc, hrank⟩ := (hM t ht).1 hT
    rw [hf t o ht hpo hst] at hm
    cases hm
    refine ⟨o, t, at_of_test hd o s.turn .pawn .pawn rfl hpo, hst, hocc, hrank, ?_⟩
    rw [toSpecMove_byMoving s.turn .pawn .pawn rfl o t (test_lt _ _ hpo) ht, dbl_single (fwd_cases s.turn) hst]
    rfl
  · rintro ⟨o, t, hat, hst, hocc, hrank, rfl⟩
    have ht := step_lt hst
    have hpo := test_of_at hd o s.turn .pawn .pawn rfl hat
    refine ⟨Move.byMoving s.turn .pawn o t, ⟨t, ht, (hM t ht).2 ⟨⟨o, hpo, hst⟩, hocc, hrank⟩, hf t o ht hpo hst⟩, ?_⟩
    rw [toSpecMove_byMoving s.turn .pawn .pawn rfl o t (at_lt hat) ht, dbl_single (fwd_cases s.turn) hst]
    rfl

theorem promotionPieces_eq : promotionPieces = [.queen, .rook, .bishop, .knight] := by decide

/-- the four promotion moves of one push, read through `toSpecMove` -/
theorem promoList_spec (us : Color) (o t : Nat) (ho : o < 64) (ht : t < 64) (hdbl : Move.dbl .pawn o t = false) :
    (promotionPieces.map fun pr => Move.byPromoting us .pawn o t pr).map toSpecMove =
      Spec.promoKinds.map fun k => some { pawnBase (absColor us) o t Option.none with promo := some k } := by
  rw [promotionPieces_eq]
  simp only [List.map_cons, List.map_nil, Spec.promoKinds]
  rw [toSpecMove_byPromoting us .pawn .pawn rfl o t .queen .queen rfl ho ht,
    toSpecMove_byPromoting us .pawn .pawn rfl o t .rook .rook rfl ho ht,
    toSpecMove_byPromoting us .pawn .pawn rfl o t .bishop .bishop rfl ho ht,
    toSpecMove_byPromoting us .pawn .pawn rfl o t .knight .knight rfl ho ht, hdbl]
  rfl

/-- the four capture-promotion moves of one capture, read through `toSpecMove` -/
theorem capPromoList_spec (us : Color) (o t : Nat) (q : Piece) (k : Spec.Kind) (hq : absKind q = some k)
    (ho : o < 64) (ht : t < 64) (hdbl : Move.dbl .pawn o t = false) :
    (promotionPieces.map fun pr => Move.byCapturePromoting us .pawn o t q pr).map toSpecMove =
      Spec.promoKinds.map fun kp => some { pawnBase (absColor us) o t (some k) with promo := some kp } := by
  rw [promotionPieces_eq]
  simp only [List.map_cons, List.map_nil, Spec.promoKinds]
  rw [toSpecMove_byCapturePromoting us .pawn .pawn rfl o t q k hq .queen .queen rfl ho ht,
    toSpecMove_byCapturePromoting us .pawn .pawn rfl o t q k hq .rook .rook rfl ho ht,
    toSpecMove_byCapturePromoting us .pawn .pawn rfl o t q k hq .bishop .bishop rfl ho ht,
    toSpecMove_byCapturePromoting us .pawn .pawn rfl o t q k hq .knight .knight rfl ho ht, hdbl]
  rfl

/-- **simple pushes with promotion** -/
theorem pawnPromoSeg_spec (s : State) (hd : DisjointBoard s.pieces) :
    ∃ L, pawnPromoSeg (Helper.of s) = some L ∧ (∀ sm, sm ∈ L.flatten.map toSpecMove ↔
      ∃ o t, (abs s).at o = some (absColor s.turn, Spec.Kind.pawn) ∧
        Spec.step o 0 (absColor s.turn).fwd = some t ∧ (abs s).occupied t = false ∧
        t / 8 = Spec.lastRank (absColor s.turn) ∧
        ∃ k ∈ Spec.promoKinds, sm = some { pawnBase (absColor s.turn) o t Option.none with promo := some k }) ∧
      (L.flatten.map toSpecMove).Nodup := by
  have hM : ∀ t, t < 64 → (test (shiftFwd s.turn (s.pieces.get s.turn .pawn) &&& (Helper.of s).vac &&&
      backrankMask s.turn) t = true ↔
      (∃ o, test (s.pieces.get s.turn .pawn) o = true ∧ Spec.step o 0 (absColor s.turn).fwd = some t) ∧
      (abs s).occupied t = false ∧ t / 8 = Spec.lastRank (absColor s.turn)) := by
    intro t ht
    rw [test_and, test_and, Bool.and_eq_true, Bool.and_eq_true, test_shiftFwd _ _ t ht, test_vac_iff s t ht,
      test_backrank _ t ht]
    simp [and_assoc]
  have hf : ∀ t o, t < 64 → test (s.pieces.get s.turn .pawn) o = true →
      Spec.step o 0 (absColor s.turn).fwd = some t →
      (do let o ← offset t 0 s.turn.backward
          pure (promotionPieces.map fun pr => Move.byPromoting s.turn .pawn o t pr) : Option (List Move)) =
        some (promotionPieces.map fun pr => Move.byPromoting s.turn .pawn o t pr) := by
    intro t o ht hpo hst
    rw [(offset_back0 s.turn (test_lt _ _ hpo) ht).2 hst]; rfl
  obtain ⟨h1, h2⟩ := mapM_seg (shiftFwd s.turn (s.pieces.get s.turn .pawn) &&& (Helper.of s).vac &&&
      backrankMask s.turn)
    (fun t => do let o ← offset t 0 s.turn.backward
                 pure (promotionPieces.map fun pr => Move.byPromoting s.turn .pawn o t pr))
    (by
      intro t ht hT
      obtain ⟨⟨o, hpo, hst⟩, _, _⟩ := (hM t ht).1 hT
      exact ⟨_, hf t o ht hpo hst⟩)
  refine ⟨_, h1, ?_, ?nd⟩
  case nd =>
    rw [flatten_map_eq_flatMap]
    apply seg_nodup
    · intro t y ht hT hy
      obtain ⟨⟨o, hpo, hst⟩, _, _⟩ := (hM t ht).1 hT
      rw [hf t o ht hpo hst] at hy; cases hy
      rw [promoList_spec s.turn o t (test_lt _ _ hpo) ht (dbl_single (fwd_cases s.turn) hst)]
      exact promoMap_nodup _
    · intro t y ht hT hy sm hsm
      obtain ⟨⟨o, hpo, hst⟩, _, _⟩ := (hM t ht).1 hT
      rw [hf t o ht hpo hst] at hy; cases hy
      rw [promoList_spec s.turn o t (test_lt _ _ hpo) ht (dbl_single (fwd_cases s.turn) hst)] at hsm
      obtain ⟨k, _, e⟩ := List.mem_map.1 hsm
      exact ⟨_, e.symm, rfl⟩
  intro sm
  simp only [List.mem_map, List.mem_flatten, h2]
  constructor
  · rintro ⟨m, ⟨l, ⟨t, ht, hT, hl⟩, hml⟩, rfl⟩
    obtain ⟨⟨o, hpo, hst⟩, hocc, hrank⟩ := (hM t ht).1 hT
    rw [hf t o ht hpo hst] at hl
    cases hl
    refine ⟨o, t, at_of_test hd o s.turn .pawn .pawn rfl hpo, hst, hocc, hrank, ?_⟩
    have := List.mem_map_of_mem (f := toSpecMove) hml
    rw [promoList_spec s.turn o t (test_lt _ _ hpo) ht (dbl_single (fwd_cases s.turn) hst)] at this
    obtain ⟨k, hk, e⟩ := List.mem_map.1 this
    exact ⟨k, hk, e.symm⟩
  · rintro ⟨o, t, hat, hst, hocc, hrank, k, hk, rfl⟩
    have ht := step_lt hst
    have hpo := test_of_at hd o s.turn .pawn .pawn rfl hat
    have : some { pawnBase (absColor s.turn) o t Option.none with promo := some k } ∈
        (promotionPieces.map fun pr => Move.byPromoting s.turn .pawn o t pr).map toSpecMove := by
      rw [promoList_spec s.turn o t (at_lt hat) ht (dbl_single (fwd_cases s.turn) hst)]
      exact List.mem_map.2 ⟨k, hk, rfl⟩
    obtain ⟨m, hm, e⟩ := List.mem_map.1 this
    exact ⟨m, ⟨_, ⟨t, ht, (hM t ht).2 ⟨⟨o, hpo, hst⟩, hocc, hrank⟩, hf t o ht hpo hst⟩, hm⟩, e⟩

/-- **double pushes** -/
theorem pawnDoubleSeg_spec (s : State) (hd : DisjointBoard s.pieces) :
    ∃ L, pawnDoubleSeg (Helper.of s) = some L ∧ (∀ sm, sm ∈ L.map toSpecMove ↔
      ∃ o t1 t2, (abs s).at o = some (absColor s.turn, Spec.Kind.pawn) ∧
        o / 8 = Spec.homeRank (absColor s.turn) ∧
        Spec.step o 0 (absColor s.turn).fwd = some t1 ∧ Spec.step t1 0 (absColor s.turn).fwd = some t2 ∧
        (abs s).occupied t1 = false ∧ (abs s).occupied t2 = false ∧
        sm = some { pawnBase (absColor s.turn) o t2 Option.none with dbl := true }) ∧
      (L.map toSpecMove).Nodup := by
  have hM : ∀ t, t < 64 → (test (shiftFwd s.turn (shiftFwd s.turn (s.pieces.get s.turn .pawn &&&
      homeRankMask s.turn) &&& (Helper.of s).vac) &&& (Helper.of s).vac) t = true ↔
      (∃ t1 o, test (s.pieces.get s.turn .pawn) o = true ∧ o / 8 = Spec.homeRank (absColor s.turn) ∧
        Spec.step o 0 (absColor s.turn).fwd = some t1 ∧ (abs s).occupied t1 = false ∧
        Spec.step t1 0 (absColor s.turn).fwd = some t) ∧
      (abs s).occupied t = false) := by
    intro t ht
    rw [test_and, Bool.and_eq_true, test_shiftFwd _ _ t ht, test_vac_iff s t ht]
    apply and_congr_left; intro _
    apply exists_congr; intro t1
    constructor
    · rintro ⟨h1, h2⟩
      have ht1 := test_lt _ _ h1
      rw [test_and, Bool.and_eq_true, test_shiftFwd _ _ t1 ht1, test_vac_iff s t1 ht1] at h1
      obtain ⟨⟨o, ho, hst⟩, hv⟩ := h1
      have ho64 := test_lt _ _ ho
      rw [test_and, Bool.and_eq_true, test_homeRank _ o ho64, decide_eq_true_eq] at ho
      exact ⟨o, ho.1, ho.2, hst, hv, h2⟩
    · rintro ⟨o, ho, hr, hst, hv, h2⟩
      have ht1 := step_lt hst
      refine ⟨?_, h2⟩
      rw [test_and, Bool.and_eq_true, test_shiftFwd _ _ t1 ht1, test_vac_iff s t1 ht1]
      refine ⟨⟨o, ?_, hst⟩, hv⟩
      rw [test_and, Bool.and_eq_true, test_homeRank _ o (test_lt _ _ ho), decide_eq_true_eq]
      exact ⟨ho, hr⟩
  have hf : ∀ t t1 o, t < 64 → test (s.pieces.get s.turn .pawn) o = true →
      Spec.step o 0 (absColor s.turn).fwd = some t1 → Spec.step t1 0 (absColor s.turn).fwd = some t →
      (do let o1 ← offset t 0 s.turn.backward
          let o ← offset o1 0 s.turn.backward
          pure (Move.byMoving s.turn .pawn o t) : Option Move) =
        some (Move.byMoving s.turn .pawn o t) := by
    intro t t1 o ht hpo hst1 hst2
    rw [(offset_back0 s.turn (step_lt hst1) ht).2 hst2]
    simp only [Option.bind_eq_bind, Option.bind_some]
    rw [(offset_back0 s.turn (test_lt _ _ hpo) (step_lt hst1)).2 hst1]; rfl
  obtain ⟨h1, h2⟩ := mapM_seg (shiftFwd s.turn (shiftFwd s.turn (s.pieces.get s.turn .pawn &&&
      homeRankMask s.turn) &&& (Helper.of s).vac) &&& (Helper.of s).vac)
    (fun t => do let o1 ← offset t 0 s.turn.backward
                 let o ← offset o1 0 s.turn.backward
                 pure (Move.byMoving s.turn .pawn o t))
    (by
      intro t ht hT
      obtain ⟨⟨t1, o, hpo, _, hst1, _, hst2⟩, _⟩ := (hM t ht).1 hT
      exact ⟨_, hf t t1 o ht hpo hst1 hst2⟩)
  refine ⟨_, h1, ?_, ?nd⟩
  case nd =>
    rw [map_eq_flatMap_single]
    apply seg_nodup
    · intro t y _ _ _; simp
    · intro t y ht hT hy sm hsm
      obtain ⟨⟨t1, o, hpo, _, hst1, _, hst2⟩, _⟩ := (hM t ht).1 hT
      rw [hf t t1 o ht hpo hst1 hst2] at hy; cases hy
      simp only [List.mem_singleton] at hsm; subst hsm
      rw [toSpecMove_byMoving s.turn .pawn .pawn rfl o t (test_lt _ _ hpo) ht]
      exact ⟨_, rfl, rfl⟩
  intro sm
  simp only [List.mem_map, h2]
  constructor
  · rintro ⟨m, ⟨t, ht, hT, hm⟩, rfl⟩
    obtain ⟨⟨t1, o, hpo, hr, hst1, hv1, hst2⟩, hv2⟩ := (hM t ht).1 hT
    rw [hf t t1 o ht hpo hst1 hst2] at hm
    cases hm
    refine ⟨o, t1, t, at_of_test hd o s.turn .pawn .pawn rfl hpo, hr, hst1, hst2, hv1, hv2, ?_⟩
    rw [toSpecMove_byMoving s.turn .pawn .pawn rfl o t (test_lt _ _ hpo) ht,
      dbl_double (fwd_cases s.turn) hst1 hst2]
    rfl
  · rintro ⟨o, t1, t, hat, hr, hst1, hst2, hv1, hv2, rfl⟩
    have ht := step_lt hst2
    have hpo := test_of_at hd o s.turn .pawn .pawn rfl hat
    refine ⟨Move.byMoving s.turn .pawn o t,
      ⟨t, ht, (hM t ht).2 ⟨⟨t1, o, hpo, hr, hst1, hv1, hst2⟩, hv2⟩, hf t t1 o ht hpo hst1 hst2⟩, ?_⟩
    rw [toSpecMove_byMoving s.turn .pawn .pawn rfl o t (at_lt hat) ht,
      dbl_double (fwd_cases s.turn) hst1 hst2]
    rfl

theorem offset_cap (c : Color) (east : Bool) {o t : Nat} (ho : o < 64) (ht : t < 64) :
    offset t (invDf east) c.backward = some o ↔ Spec.step o (capDf east) (absColor c).fwd = some t := by
  rw [invDf_eq]; exact offset_back_iff c (capDf east) ho ht

/-- bit `t` of `opposing_pieces()`: an opposing piece stands on `t` -/
theorem test_opp_iff {s : State} (hd : DisjointBoard s.pieces) (t : Nat) :
    test (Helper.of s).opp t = true ↔ ∃ k, (abs s).at t = some ((absColor s.turn).opp, k) := by
  rw [helper_opp, test_own_iff hd, C10.absColor_opp]

/-- what `piece_at(t).unwrap().piece()` returns on an opposing piece -/
theorem capturedAt_of_at {s : State} (hd : DisjointBoard s.pieces) (t : Nat) (c : Color) (k : Spec.Kind)
    (h : (abs s).at t = some (absColor c, k)) : ∃ q, absKind q = some k ∧ capturedAt s t = some q := by
  obtain ⟨q, hq, htq⟩ := (at_iff hd t c k).1 h
  exact ⟨q, hq, capturedAt_some s t c q ((C10.pieceAt_iff hd t c q).2 htq)⟩

/-- **captures without promotion**, one side -/
theorem pawnCapSeg_spec (s : State) (hd : DisjointBoard s.pieces) (east : Bool) :
    ∃ L, pawnCapSeg (Helper.of s) east = some L ∧ (∀ sm, sm ∈ L.map toSpecMove ↔
      ∃ o t k, (abs s).at o = some (absColor s.turn, Spec.Kind.pawn) ∧
        Spec.step o (capDf east) (absColor s.turn).fwd = some t ∧
        (abs s).at t = some ((absColor s.turn).opp, k) ∧
        t / 8 ≠ Spec.lastRank (absColor s.turn) ∧ sm = some (pawnBase (absColor s.turn) o t (some k))) ∧
      (L.map toSpecMove).Nodup := by
  have hM : ∀ t, t < 64 → (test (pawnAtt (Helper.of s) east &&& ~~~backrankMask s.turn &&& (Helper.of s).opp) t = true ↔
      (∃ o, test (s.pieces.get s.turn .pawn) o = true ∧ Spec.step o (capDf east) (absColor s.turn).fwd = some t) ∧
      t / 8 ≠ Spec.lastRank (absColor s.turn) ∧ ∃ k, (abs s).at t = some ((absColor s.turn).opp, k)) := by
    intro t ht
    rw [test_and, test_and, Bool.and_eq_true, Bool.and_eq_true, test_pawnAtt _ _ t ht, test_opp_iff hd,
      test_not _ _ ht, test_backrank _ t ht]
    simp [and_assoc, helper_us, helper_s]
  have hf : ∀ t o k, t < 64 → test (s.pieces.get s.turn .pawn) o = true →
      Spec.step o (capDf east) (absColor s.turn).fwd = some t →
      (abs s).at t = some ((absColor s.turn).opp, k) → ∃ q, absKind q = some k ∧
      (do let o ← offset t (invDf east) s.turn.backward
          let cap ← capturedAt s t
          pure (Move.byCapturing s.turn .pawn o t cap) : Option Move) =
        some (Move.byCapturing s.turn .pawn o t q) := by
    intro t o k ht hpo hst hat
    rw [← C10.absColor_opp] at hat
    obtain ⟨q, hq, hcap⟩ := capturedAt_of_at hd t s.turn.opp k hat
    refine ⟨q, hq, ?_⟩
    rw [(offset_cap s.turn east (test_lt _ _ hpo) ht).2 hst, hcap]; rfl
  obtain ⟨h1, h2⟩ := mapM_seg (pawnAtt (Helper.of s) east &&& ~~~backrankMask s.turn &&& (Helper.of s).opp)
    (fun t => do let o ← offset t (invDf east) s.turn.backward
                 let cap ← capturedAt s t
                 pure (Move.byCapturing s.turn .pawn o t cap))
    (by
      intro t ht hT
      obtain ⟨⟨o, hpo, hst⟩, _, k, hat⟩ := (hM t ht).1 hT
      obtain ⟨q, _, e⟩ := hf t o k ht hpo hst hat
      exact ⟨_, e⟩)
  refine ⟨_, h1, ?_, ?nd⟩
  case nd =>
    rw [map_eq_flatMap_single]
    apply seg_nodup
    · intro t y _ _ _; simp
    · intro t y ht hT hy sm hsm
      obtain ⟨⟨o, hpo, hst⟩, _, k, hat⟩ := (hM t ht).1 hT
      obtain ⟨q, hq, e⟩ := hf t o k ht hpo hst hat
      rw [e] at hy; cases hy
      simp only [List.mem_singleton] at hsm; subst hsm
      rw [toSpecMove_byCapturing s.turn .pawn .pawn rfl o t q k hq (test_lt _ _ hpo) ht]
      exact ⟨_, rfl, rfl⟩
  intro sm
  simp only [List.mem_map, h2]
  constructor
  · rintro ⟨m, ⟨t, ht, hT, hm⟩, rfl⟩
    obtain ⟨⟨o, hpo, hst⟩, hrank, k, hat⟩ := (hM t ht).1 hT
    obtain ⟨q, hq, e⟩ := hf t o k ht hpo hst hat
    rw [e] at hm
    cases hm
    refine ⟨o, t, k, at_of_test hd o s.turn .pawn .pawn rfl hpo, hst, hat, hrank, ?_⟩
    rw [toSpecMove_byCapturing s.turn .pawn .pawn rfl o t q k hq (test_lt _ _ hpo) ht,
      dbl_single (fwd_cases s.turn) hst]
    rfl
  · rintro ⟨o, t, k, hat, hst, hatt, hrank, rfl⟩
    have ht := step_lt hst
    have hpo := test_of_at hd o s.turn .pawn .pawn rfl hat
    obtain ⟨q, hq, e⟩ := hf t o k ht hpo hst hatt
    refine ⟨Move.byCapturing s.turn .pawn o t q,
      ⟨t, ht, (hM t ht).2 ⟨⟨o, hpo, hst⟩, hrank, k, hatt⟩, e⟩, ?_⟩
    rw [toSpecMove_byCapturing s.turn .pawn .pawn rfl o t q k hq (at_lt hat) ht,
      dbl_single (fwd_cases s.turn) hst]
    rfl

/-- **captures with promotion**, one side -/
theorem pawnCapPromoSeg_spec (s : State) (hd : DisjointBoard s.pieces) (east : Bool) :
    ∃ L, pawnCapPromoSeg (Helper.of s) east = some L ∧ (∀ sm, sm ∈ L.flatten.map toSpecMove ↔
      ∃ o t k, (abs s).at o = some (absColor s.turn, Spec.Kind.pawn) ∧
        Spec.step o (capDf east) (absColor s.turn).fwd = some t ∧
        (abs s).at t = some ((absColor s.turn).opp, k) ∧
        t / 8 = Spec.lastRank (absColor s.turn) ∧
        ∃ kp ∈ Spec.promoKinds, sm = some { pawnBase (absColor s.turn) o t (some k) with promo := some kp }) ∧
      (L.flatten.map toSpecMove).Nodup := by
  have hM : ∀ t, t < 64 → (test (pawnAtt (Helper.of s) east &&& backrankMask s.turn &&& (Helper.of s).opp) t = true ↔
      (∃ o, test (s.pieces.get s.turn .pawn) o = true ∧ Spec.step o (capDf east) (absColor s.turn).fwd = some t) ∧
      t / 8 = Spec.lastRank (absColor s.turn) ∧ ∃ k, (abs s).at t = some ((absColor s.turn).opp, k)) := by
    intro t ht
    rw [test_and, test_and, Bool.and_eq_true, Bool.and_eq_true, test_pawnAtt _ _ t ht, test_opp_iff hd,
      test_backrank _ t ht]
    simp [and_assoc, helper_us, helper_s]
  have hf : ∀ t o k, t < 64 → test (s.pieces.get s.turn .pawn) o = true →
      Spec.step o (capDf east) (absColor s.turn).fwd = some t →
      (abs s).at t = some ((absColor s.turn).opp, k) → ∃ q, absKind q = some k ∧
      (do let o ← offset t (invDf east) s.turn.backward
          let cap ← capturedAt s t
          pure (promotionPieces.map fun pr => Move.byCapturePromoting s.turn .pawn o t cap pr) :
            Option (List Move)) =
        some (promotionPieces.map fun pr => Move.byCapturePromoting s.turn .pawn o t q pr) := by
    intro t o k ht hpo hst hat
    rw [← C10.absColor_opp] at hat
    obtain ⟨q, hq, hcap⟩ := capturedAt_of_at hd t s.turn.opp k hat
    refine ⟨q, hq, ?_⟩
    rw [(offset_cap s.turn east (test_lt _ _ hpo) ht).2 hst, hcap]; rfl
  obtain ⟨h1, h2⟩ := mapM_seg (pawnAtt (Helper.of s) east &&& backrankMask s.turn &&& (Helper.of s).opp)
    (fun t => do let o ← offset t (invDf east) s.turn.backward
                 let cap ← capturedAt s t
                 pure (promotionPieces.map fun pr => Move.byCapturePromoting s.turn .pawn o t cap pr))
    (by
      intro t ht hT
      obtain ⟨⟨o, hpo, hst⟩, _, k, hat⟩ := (hM t ht).1 hT
      obtain ⟨q, _, e⟩ := hf t o k ht hpo hst hat
      exact ⟨_, e⟩)
  refine ⟨_, h1, ?_, ?nd⟩
  case nd =>
    rw [flatten_map_eq_flatMap]
    apply seg_nodup
    · intro t y ht hT hy
      obtain ⟨⟨o, hpo, hst⟩, _, k, hat⟩ := (hM t ht).1 hT
      obtain ⟨q, hq, e⟩ := hf t o k ht hpo hst hat
      rw [e] at hy; cases hy
      rw [capPromoList_spec s.turn o t q k hq (test_lt _ _ hpo) ht (dbl_single (fwd_cases s.turn) hst)]
      exact promoMap_nodup _
    · intro t y ht hT hy sm hsm
      obtain ⟨⟨o, hpo, hst⟩, _, k, hat⟩ := (hM t ht).1 hT
      obtain ⟨q, hq, e⟩ := hf t o k ht hpo hst hat
      rw [e] at hy; cases hy
      rw [capPromoList_spec s.turn o t q k hq (test_lt _ _ hpo) ht (dbl_single (fwd_cases s.turn) hst)] at hsm
      obtain ⟨kp, _, e'⟩ := List.mem_map.1 hsm
      exact ⟨_, e'.symm, rfl⟩
  intro sm
  simp only [List.mem_map, List.mem_flatten, h2]
  constructor
  · rintro ⟨m, ⟨l, ⟨t, ht, hT, hl⟩, hml⟩, rfl⟩
    obtain ⟨⟨o, hpo, hst⟩, hrank, k, hat⟩ := (hM t ht).1 hT
    obtain ⟨q, hq, e⟩ := hf t o k ht hpo hst hat
    rw [e] at hl
    cases hl
    refine ⟨o, t, k, at_of_test hd o s.turn .pawn .pawn rfl hpo, hst, hat, hrank, ?_⟩
    have := List.mem_map_of_mem (f := toSpecMove) hml
    rw [capPromoList_spec s.turn o t q k hq (test_lt _ _ hpo) ht (dbl_single (fwd_cases s.turn) hst)] at this
    obtain ⟨kp, hkp, e'⟩ := List.mem_map.1 this
    exact ⟨kp, hkp, e'.symm⟩
  · rintro ⟨o, t, k, hat, hst, hatt, hrank, kp, hkp, rfl⟩
    have ht := step_lt hst
    have hpo := test_of_at hd o s.turn .pawn .pawn rfl hat
    obtain ⟨q, hq, e⟩ := hf t o k ht hpo hst hatt
    have : some { pawnBase (absColor s.turn) o t (some k) with promo := some kp } ∈
        (promotionPieces.map fun pr => Move.byCapturePromoting s.turn .pawn o t q pr).map toSpecMove := by
      rw [capPromoList_spec s.turn o t q k hq (at_lt hat) ht (dbl_single (fwd_cases s.turn) hst)]
      exact List.mem_map.2 ⟨kp, hkp, rfl⟩
    obtain ⟨m, hm, e'⟩ := List.mem_map.1 this
    exact ⟨m, ⟨_, ⟨t, ht, (hM t ht).2 ⟨⟨o, hpo, hst⟩, hrank, k, hatt⟩, e⟩, hm⟩, e'⟩

/-- `first_one` of the en-passant mask: the target itself, if a pawn attacks it from this side -/
theorem firstOne_epBB (h : Helper) (east : Bool) (e : Nat) (he : e < 64) (hep : h.s.ep = some e) :
    firstOne (epBB h east) = if test (pawnAtt h east) e then some e else Option.none := by
  have hbit : ∀ t, test (epBB h east) t = (test (pawnAtt h east) t && decide (e = t)) := by
    intro t; unfold epBB; rw [hep, test_and, test_bit e t he]
  by_cases ha : test (pawnAtt h east) e = true
  · rw [if_pos ha, firstOne_eq_some]
    refine ⟨by rw [hbit, ha]; simp, fun m hm => ?_⟩
    rw [hbit, Bool.and_eq_true, decide_eq_true_eq] at hm
    omega
  · rw [if_neg ha, firstOne_eq_none]
    apply eq_zero_of_test
    intro n _
    rw [hbit]
    by_cases hen : e = n
    · subst hen; simp only [Bool.not_eq_true] at ha; rw [ha]; rfl
    · simp [hen]

theorem firstOne_epBB_none (h : Helper) (east : Bool) (hep : h.s.ep = Option.none) :
    firstOne (epBB h east) = Option.none := by
  rw [firstOne_eq_none]
  unfold epBB; rw [hep]
  apply eq_zero_of_test
  intro n _; rw [test_and, test_zero, Bool.and_false]

/-- **en passant**, one side -/
theorem pawnEpSeg_spec (s : State) (hd : DisjointBoard s.pieces) (hep : ∀ e, s.ep = some e → e < 64) (east : Bool) :
    ∃ L, pawnEpSeg (Helper.of s) east = some L ∧ (∀ sm, sm ∈ L.map toSpecMove ↔
      ∃ o t, (abs s).at o = some (absColor s.turn, Spec.Kind.pawn) ∧
        Spec.step o (capDf east) (absColor s.turn).fwd = some t ∧ s.ep = some t ∧
        sm = some { pawnBase (absColor s.turn) o t (some Spec.Kind.pawn) with ep := true }) ∧
      (L.map toSpecMove).Nodup := by
  unfold pawnEpSeg
  cases hepc : s.ep with
  | none =>
    rw [firstOne_epBB_none _ _ hepc]
    refine ⟨[], rfl, fun sm => ?_, by simp⟩
    constructor
    · intro h; simp at h
    · rintro ⟨o, t, _, _, h, _⟩; cases h
  | some e =>
    have he := hep e hepc
    rw [firstOne_epBB _ _ e he hepc]
    by_cases ha : test (pawnAtt (Helper.of s) east) e = true
    · rw [if_pos ha]
      obtain ⟨o, hpo, hst⟩ := (test_pawnAtt _ _ e he).1 ha
      simp only [helper_us, helper_s] at hpo hst ⊢
      rw [(offset_cap s.turn east (test_lt _ _ hpo) he).2 hst]
      refine ⟨[Move.byEnPassant s.turn .pawn o e], rfl, fun sm => ?_, by simp⟩
      simp only [List.map_cons, List.map_nil, List.mem_singleton]
      rw [toSpecMove_byEnPassant s.turn .pawn .pawn rfl o e (test_lt _ _ hpo) he, dbl_single (fwd_cases s.turn) hst]
      constructor
      · rintro rfl
        exact ⟨o, e, at_of_test hd o s.turn .pawn .pawn rfl hpo, hst, rfl, rfl⟩
      · rintro ⟨o', t, hat, hst', ht, rfl⟩
        cases ht
        have := step_src_inj (at_lt hat) (test_lt _ _ hpo) hst' hst
        subst this; rfl
    · rw [if_neg ha]
      refine ⟨[], rfl, fun sm => ?_, by simp⟩
      constructor
      · intro h; simp at h
      · rintro ⟨o, t, hat, hst, ht, _⟩
        cases ht
        exfalso; apply ha
        exact (test_pawnAtt _ _ e he).2 ⟨o, test_of_at hd o s.turn .pawn .pawn rfl hat, hst⟩

/-! ### the specification's pawn generator as a membership statement -/

/-- `withPromo` of `Spec.pawnMovesFrom` -/
def withPromo (c : Spec.Color) (m : Spec.SMove) : List Spec.SMove :=
  if m.dst / 8 = Spec.lastRank c then Spec.promoKinds.map fun k => { m with promo := some k } else [m]

theorem mem_withPromo (c : Spec.Color) (m sm : Spec.SMove) :
    sm ∈ withPromo c m ↔
      (m.dst / 8 = Spec.lastRank c ∧ ∃ k ∈ Spec.promoKinds, sm = { m with promo := some k }) ∨
      (m.dst / 8 ≠ Spec.lastRank c ∧ sm = m) := by
  unfold withPromo
  by_cases h : m.dst / 8 = Spec.lastRank c
  · rw [if_pos h]
    simp only [List.mem_map, h, true_and, ne_eq, not_true_eq_false, false_and, or_false]
    constructor
    · rintro ⟨k, hk, rfl⟩; exact ⟨k, hk, rfl⟩
    · rintro ⟨k, hk, rfl⟩; exact ⟨k, hk, rfl⟩
  · rw [if_neg h]
    simp [h]

def sPush1 (P : Spec.Pos) (c : Spec.Color) (s : Nat) : List Spec.SMove :=
  match Spec.step s 0 c.fwd with
  | some t => if P.occupied t then [] else withPromo c (pawnBase c s t Option.none)
  | Option.none => []

def sPush2 (P : Spec.Pos) (c : Spec.Color) (s : Nat) : List Spec.SMove :=
  if s / 8 = Spec.homeRank c then
    match Spec.step s 0 c.fwd with
    | some t1 => match Spec.step t1 0 c.fwd with
      | some t2 => if P.occupied t1 || P.occupied t2 then []
                   else [{ pawnBase c s t2 Option.none with dbl := true }]
      | Option.none => []
    | Option.none => []
  else []

def sCapAt (P : Spec.Pos) (c : Spec.Color) (s t : Nat) : List Spec.SMove :=
  match P.at t with
  | some (c', k) => if c' == c.opp then withPromo c (pawnBase c s t (some k)) else []
  | Option.none => if P.ep == some t then [{ pawnBase c s t (some Spec.Kind.pawn) with ep := true }] else []

def sCaps (P : Spec.Pos) (c : Spec.Color) (s : Nat) : List Spec.SMove :=
  ([(-1 : Int), 1].filterMap fun df => Spec.step s df c.fwd).flatMap fun t => sCapAt P c s t

theorem pawnMovesFrom_eq (P : Spec.Pos) (c : Spec.Color) (s : Nat) :
    Spec.pawnMovesFrom P c s = sPush1 P c s ++ sPush2 P c s ++ sCaps P c s := rfl

theorem mem_sPush1 (P : Spec.Pos) (c : Spec.Color) (s : Nat) (sm : Spec.SMove) :
    sm ∈ sPush1 P c s ↔ ∃ t, Spec.step s 0 c.fwd = some t ∧ P.occupied t = false ∧
      sm ∈ withPromo c (pawnBase c s t Option.none) := by
  unfold sPush1
  cases hs : Spec.step s 0 c.fwd with
  | none => simp
  | some t =>
    simp only [Option.some.injEq, exists_eq_left']
    cases ho : P.occupied t <;> simp

theorem mem_sPush2 (P : Spec.Pos) (c : Spec.Color) (s : Nat) (sm : Spec.SMove) :
    sm ∈ sPush2 P c s ↔ s / 8 = Spec.homeRank c ∧ ∃ t1 t2, Spec.step s 0 c.fwd = some t1 ∧
      Spec.step t1 0 c.fwd = some t2 ∧ P.occupied t1 = false ∧ P.occupied t2 = false ∧
      sm = { pawnBase c s t2 Option.none with dbl := true } := by
  unfold sPush2
  by_cases hr : s / 8 = Spec.homeRank c
  · rw [if_pos hr]
    cases hs : Spec.step s 0 c.fwd with
    | none =>
      constructor
      · intro h; simp at h
      · rintro ⟨_, t1, t2, h, _⟩; cases h
    | some t1 =>
      dsimp only
      cases hs2 : Spec.step t1 0 c.fwd with
      | none =>
        constructor
        · intro h; simp at h
        · rintro ⟨_, t1', t2, h, h2, _⟩; cases h; rw [hs2] at h2; cases h2
      | some t2 =>
        dsimp only
        constructor
        · intro h
          cases ho1 : P.occupied t1 <;> cases ho2 : P.occupied t2 <;> simp [ho1, ho2] at h
          exact ⟨hr, t1, t2, rfl, hs2, ho1, ho2, h⟩
        · rintro ⟨_, t1', t2', h, h2, ho1, ho2, rfl⟩
          cases h; rw [hs2] at h2; cases h2
          simp [ho1, ho2]
  · rw [if_neg hr]
    constructor
    · intro h; simp at h
    · rintro ⟨h, _⟩; exact absurd h hr

theorem mem_sCapAt (P : Spec.Pos) (c : Spec.Color) (s t : Nat) (sm : Spec.SMove) :
    sm ∈ sCapAt P c s t ↔
      (∃ k, P.at t = some (c.opp, k) ∧ sm ∈ withPromo c (pawnBase c s t (some k))) ∨
      (P.at t = Option.none ∧ P.ep = some t ∧ sm = { pawnBase c s t (some Spec.Kind.pawn) with ep := true }) := by
  unfold sCapAt
  cases hat : P.at t with
  | none =>
    by_cases he : P.ep = some t
    · simp [he]
    · simp [he]
  | some x =>
    obtain ⟨c', k⟩ := x
    by_cases hc : c' = c.opp
    · subst hc; simp
    · have : (c' == c.opp) = false := by simpa using hc
      simp [this, hc]

theorem mem_sCaps (P : Spec.Pos) (c : Spec.Color) (s : Nat) (sm : Spec.SMove) :
    sm ∈ sCaps P c s ↔ ∃ east t, Spec.step s (capDf east) c.fwd = some t ∧ sm ∈ sCapAt P c s t := by
  unfold sCaps
  simp only [List.mem_flatMap, List.mem_filterMap, List.mem_cons, List.not_mem_nil, or_false]
  constructor
  · rintro ⟨t, ⟨df, hdf | hdf, hst⟩, hm⟩
    · subst hdf; exact ⟨false, t, hst, hm⟩
    · subst hdf; exact ⟨true, t, hst, hm⟩
  · rintro ⟨east, t, hst, hm⟩
    cases east
    · exact ⟨t, ⟨-1, .inl rfl, hst⟩, hm⟩
    · exact ⟨t, ⟨1, .inr rfl, hst⟩, hm⟩

/-- the tag of a pawn move that is not a double step, from its file direction -/
theorem tag_pawn_move (m : Spec.SMove) (hk : m.kind = .pawn) (hd : m.dbl = false) {df dr : Int}
    (hst : Spec.step m.src df dr = some m.dst) (hdf : df = 0 ∨ df = 1 ∨ df = -1) :
    tag (some m) = (if df = 0 then 0 else if df = 1 then 10 else 20) +
      (if m.ep then 3 else if m.promo.isSome then 2 else 1) := by
  rw [step_eq_some] at hst
  unfold tag
  simp only [hk, hd, Bool.false_eq_true, if_false]
  rcases hdf with rfl | rfl | rfl
  · have h1 : m.dst % 8 = m.src % 8 := by omega
    simp only [h1, if_true]
  · have h1 : ¬ m.dst % 8 = m.src % 8 := by omega
    have h2 : m.src % 8 < m.dst % 8 := by omega
    simp only [h1, h2, if_false, if_true]
    rfl
  · have h1 : ¬ m.dst % 8 = m.src % 8 := by omega
    have h2 : ¬ m.src % 8 < m.dst % 8 := by omega
    simp only [h1, h2, if_false]
    rfl

def sideLo (east : Bool) : Nat := if east then 11 else 21

theorem capDf_cases (east : Bool) : capDf east = 0 ∨ capDf east = 1 ∨ capDf east = -1 := by
  cases east <;> simp [capDf]

theorem tag_side (east : Bool) (m : Spec.SMove) (hk : m.kind = .pawn) (hd : m.dbl = false) {dr : Int}
    (hst : Spec.step m.src (capDf east) dr = some m.dst) :
    tag (some m) = sideLo east - 1 + (if m.ep then 3 else if m.promo.isSome then 2 else 1) := by
  rw [tag_pawn_move m hk hd hst (capDf_cases east)]
  cases east <;> simp [capDf, sideLo]

/-- the six conditions under which one side (`east`) of the capture loop generates `sm` -/
theorem pawnSideSeg_spec (s : State) (hd : DisjointBoard s.pieces)
    (hep : ∀ e, s.ep = some e → e < 64 ∧ (abs s).at e = Option.none) (east : Bool) :
    ∃ L, pawnSideSeg (Helper.of s) east = some L ∧ (∀ sm, sm ∈ L.map toSpecMove ↔
      ∃ o t, (abs s).at o = some (absColor s.turn, Spec.Kind.pawn) ∧
        Spec.step o (capDf east) (absColor s.turn).fwd = some t ∧
        ∃ m ∈ sCapAt (abs s) (absColor s.turn) o t, sm = some m) ∧
      (L.map toSpecMove).Nodup ∧ TagIn (L.map toSpecMove) (sideLo east) (sideLo east + 3) := by
  obtain ⟨Lx, hx, hxm, hxn⟩ := pawnCapSeg_spec s hd east
  obtain ⟨Ly, hy, hym, hyn⟩ := pawnCapPromoSeg_spec s hd east
  obtain ⟨Lz, hz, hzm, hzn⟩ := pawnEpSeg_spec s hd (fun e he => (hep e he).1) east
  refine ⟨Lx ++ Ly.flatten ++ Lz, by rw [pawnSideSeg_eq, hx, hy, hz]; rfl, fun sm => ?_, ?nd⟩
  case nd =>
    have hlo : 1 ≤ sideLo east := by cases east <;> simp [sideLo]
    have tx : TagIn (Lx.map toSpecMove) (sideLo east) (sideLo east + 1) := by
      apply tagIn_of_const
      intro a ha
      obtain ⟨o, t, k, _, hst, _, _, rfl⟩ := (hxm a).1 ha
      rw [tag_side east (pawnBase (absColor s.turn) o t (some k)) rfl rfl hst]
      simp only [pawnBase, Bool.false_eq_true, if_false, Option.isSome_none]; omega
    have ty : TagIn (Ly.flatten.map toSpecMove) (sideLo east + 1) (sideLo east + 1 + 1) := by
      apply tagIn_of_const
      intro a ha
      obtain ⟨o, t, k, _, hst, _, _, kp, _, rfl⟩ := (hym a).1 ha
      rw [tag_side east { pawnBase (absColor s.turn) o t (some k) with promo := some kp } rfl rfl hst]
      simp only [pawnBase, Bool.false_eq_true, if_false, Option.isSome_some, if_true]; omega
    have tz : TagIn (Lz.map toSpecMove) (sideLo east + 2) (sideLo east + 2 + 1) := by
      apply tagIn_of_const
      intro a ha
      obtain ⟨o, t, _, hst, _, rfl⟩ := (hzm a).1 ha
      rw [tag_side east { pawnBase (absColor s.turn) o t (some Spec.Kind.pawn) with ep := true } rfl rfl hst]
      simp only [if_true]; omega
    rw [List.map_append, List.map_append]
    exact nodup_append_tag (nodup_append_tag ⟨hxn, tx⟩ ⟨hyn, ty⟩ (by omega) (by omega)) ⟨hzn, tz⟩
      (by omega) (by omega)
  rw [List.map_append, List.map_append, List.mem_append, List.mem_append, hxm, hym, hzm]
  constructor
  · rintro ((⟨o, t, k, hat, hst, hatt, hrank, rfl⟩ | ⟨o, t, k, hat, hst, hatt, hrank, kp, hkp, rfl⟩) |
      ⟨o, t, hat, hst, he, rfl⟩)
    · exact ⟨o, t, hat, hst, _, (mem_sCapAt _ _ _ _ _).2 (.inl ⟨k, hatt, (mem_withPromo _ _ _).2 (.inr ⟨hrank, rfl⟩)⟩), rfl⟩
    · exact ⟨o, t, hat, hst, _, (mem_sCapAt _ _ _ _ _).2 (.inl ⟨k, hatt, (mem_withPromo _ _ _).2
        (.inl ⟨hrank, kp, hkp, rfl⟩)⟩), rfl⟩
    · exact ⟨o, t, hat, hst, _, (mem_sCapAt _ _ _ _ _).2 (.inr ⟨(hep t he).2, he, rfl⟩), rfl⟩
  · rintro ⟨o, t, hat, hst, m, hm, rfl⟩
    rcases (mem_sCapAt _ _ _ _ _).1 hm with ⟨k, hatt, hw⟩ | ⟨_, he, rfl⟩
    · rcases (mem_withPromo _ _ _).1 hw with ⟨hrank, kp, hkp, rfl⟩ | ⟨hrank, rfl⟩
      · exact .inl (.inr ⟨o, t, k, hat, hst, hatt, hrank, kp, hkp, rfl⟩)
      · exact .inl (.inl ⟨o, t, k, hat, hst, hatt, hrank, rfl⟩)
    · exact .inr ⟨o, t, hat, hst, he, rfl⟩

/-- **pawns**: `compute_pawn_moves` cannot panic and generates, read through `toSpecMove`, exactly the
specification's pawn moves of the side to move, without duplicates -/
theorem pawnMoves_spec (s : State) (hd : DisjointBoard s.pieces)
    (hep : ∀ e, s.ep = some e → e < 64 ∧ (abs s).at e = Option.none) :
    ∃ L, pawnMoves (Helper.of s) = some L ∧ (∀ sm, sm ∈ L.map toSpecMove ↔
      ∃ o, (abs s).at o = some (absColor s.turn, Spec.Kind.pawn) ∧
        ∃ m ∈ Spec.pawnMovesFrom (abs s) (absColor s.turn) o, sm = some m) ∧
      (L.map toSpecMove).Nodup ∧ TagIn (L.map toSpecMove) 1 24 := by
  obtain ⟨La, ha, ham, han⟩ := pawnPushSeg_spec s hd
  obtain ⟨Lb, hb, hbm, hbn⟩ := pawnPromoSeg_spec s hd
  obtain ⟨Lc, hc, hcm, hcn⟩ := pawnDoubleSeg_spec s hd
  obtain ⟨Le, he, hem, hen, het⟩ := pawnSideSeg_spec s hd hep true
  obtain ⟨Lw, hw, hwm, hwn, hwt⟩ := pawnSideSeg_spec s hd hep false
  refine ⟨La ++ Lb.flatten ++ Lc ++ Le ++ Lw, by rw [pawnMoves_eq, ha, hb, hc, he, hw]; rfl, fun sm => ?_, ?nd⟩
  case nd =>
    have ta : TagIn (La.map toSpecMove) 1 2 := by
      apply tagIn_of_const
      intro a h
      obtain ⟨o, t, _, hst, _, _, rfl⟩ := (ham a).1 h
      rw [tag_pawn_move (pawnBase (absColor s.turn) o t Option.none) rfl rfl hst (.inl rfl)]
      rfl
    have tb : TagIn (Lb.flatten.map toSpecMove) 2 3 := by
      apply tagIn_of_const
      intro a h
      obtain ⟨o, t, _, hst, _, _, k, _, rfl⟩ := (hbm a).1 h
      rw [tag_pawn_move { pawnBase (absColor s.turn) o t Option.none with promo := some k } rfl rfl hst (.inl rfl)]
      rfl
    have tc : TagIn (Lc.map toSpecMove) 3 4 := by
      apply tagIn_of_const
      intro a h
      obtain ⟨o, t1, t2, _, _, _, _, _, _, rfl⟩ := (hcm a).1 h
      rfl
    simp only [List.map_append]
    exact nodup_append_tag (nodup_append_tag (nodup_append_tag (nodup_append_tag ⟨han, ta⟩ ⟨hbn, tb⟩ (by omega)
      (by omega)) ⟨hcn, tc⟩ (by omega) (by omega)) ⟨hen, tagIn_mono het (by decide) (by decide : _ ≤ 21)⟩ (by omega)
      (by omega)) ⟨hwn, tagIn_mono hwt (by decide : 21 ≤ _) (by decide : _ ≤ 24)⟩ (by omega) (by omega)
  simp only [List.map_append, List.mem_append, ham, hbm, hcm, hem, hwm, pawnMovesFrom_eq]
  constructor
  · rintro ((((⟨o, t, hat, hst, hocc, hrank, rfl⟩ | ⟨o, t, hat, hst, hocc, hrank, k, hk, rfl⟩) |
      ⟨o, t1, t2, hat, hr, hst1, hst2, ho1, ho2, rfl⟩) | ⟨o, t, hat, hst, m, hm, rfl⟩) | ⟨o, t, hat, hst, m, hm, rfl⟩)
    · exact ⟨o, hat, _, .inl (.inl ((mem_sPush1 _ _ _ _).2 ⟨t, hst, hocc, (mem_withPromo _ _ _).2 (.inr ⟨hrank, rfl⟩)⟩)), rfl⟩
    · exact ⟨o, hat, _, .inl (.inl ((mem_sPush1 _ _ _ _).2 ⟨t, hst, hocc, (mem_withPromo _ _ _).2
        (.inl ⟨hrank, k, hk, rfl⟩)⟩)), rfl⟩
    · exact ⟨o, hat, _, .inl (.inr ((mem_sPush2 _ _ _ _).2 ⟨hr, t1, t2, hst1, hst2, ho1, ho2, rfl⟩)), rfl⟩
    · exact ⟨o, hat, m, .inr ((mem_sCaps _ _ _ _).2 ⟨true, t, hst, hm⟩), rfl⟩
    · exact ⟨o, hat, m, .inr ((mem_sCaps _ _ _ _).2 ⟨false, t, hst, hm⟩), rfl⟩
  · rintro ⟨o, hat, m, (hm | hm) | hm, rfl⟩
    · obtain ⟨t, hst, hocc, hw⟩ := (mem_sPush1 _ _ _ _).1 hm
      rcases (mem_withPromo _ _ _).1 hw with ⟨hrank, k, hk, rfl⟩ | ⟨hrank, rfl⟩
      · exact .inl (.inl (.inl (.inr ⟨o, t, hat, hst, hocc, hrank, k, hk, rfl⟩)))
      · exact .inl (.inl (.inl (.inl ⟨o, t, hat, hst, hocc, hrank, rfl⟩)))
    · obtain ⟨hr, t1, t2, hst1, hst2, ho1, ho2, rfl⟩ := (mem_sPush2 _ _ _ _).1 hm
      exact .inl (.inl (.inr ⟨o, t1, t2, hat, hr, hst1, hst2, ho1, ho2, rfl⟩))
    · obtain ⟨east, t, hst, hm'⟩ := (mem_sCaps _ _ _ _).1 hm
      cases east
      · exact .inr ⟨o, t, hat, hst, m, hm', rfl⟩
      · exact .inl (.inr ⟨o, t, hat, hst, m, hm', rfl⟩)

/-! ## part 7: all pseudo-legal moves -/

theorem mem_pseudoMoves (P : Spec.Pos) (sm : Spec.SMove) :
    sm ∈ Spec.pseudoMoves P ↔
      (∃ o k, P.at o = some (P.turn, k) ∧
        sm ∈ (if k = Spec.Kind.pawn then Spec.pawnMovesFrom P P.turn o else Spec.pieceMovesFrom P P.turn k o)) ∨
      sm ∈ Spec.castleMoves P P.turn := by
  unfold Spec.pseudoMoves
  simp only [List.mem_append, List.mem_flatMap, List.mem_range]
  apply or_congr_left
  constructor
  · rintro ⟨o, ho, hm⟩
    cases hat : P.at o with
    | none => rw [hat] at hm; simp at hm
    | some x =>
      obtain ⟨c', k⟩ := x
      rw [hat] at hm
      dsimp only at hm
      by_cases hc : c' = P.turn
      · subst hc
        simp only [beq_self_eq_true, if_true] at hm
        refine ⟨o, k, hat, ?_⟩
        by_cases hk : k = Spec.Kind.pawn
        · subst hk; simpa using hm
        · have : (k == Spec.Kind.pawn) = false := by simpa using hk
          rw [this] at hm
          rw [if_neg hk]; simpa using hm
      · have : (c' == P.turn) = false := by simpa using hc
        rw [this] at hm; simp at hm
  · rintro ⟨o, k, hat, hm⟩
    refine ⟨o, at_lt hat, ?_⟩
    rw [hat]
    dsimp only
    simp only [beq_self_eq_true, if_true]
    by_cases hk : k = Spec.Kind.pawn
    · subst hk; simpa using hm
    · have : (k == Spec.Kind.pawn) = false := by simpa using hk
      rw [this]; rw [if_neg hk] at hm; simpa using hm

theorem kind_withPromo {c : Spec.Color} {m sm : Spec.SMove} (h : sm ∈ withPromo c m) :
    sm.kind = m.kind ∧ sm.castle = m.castle ∧ sm.src = m.src ∧ sm.dst = m.dst ∧ sm.color = m.color := by
  rcases (mem_withPromo _ _ _).1 h with ⟨_, k, _, rfl⟩ | ⟨_, rfl⟩
  · exact ⟨rfl, rfl, rfl, rfl, rfl⟩
  · exact ⟨rfl, rfl, rfl, rfl, rfl⟩

/-- every move of the specification's pawn generator is a pawn move from that square -/
theorem attrs_pawnMovesFrom {P : Spec.Pos} {c : Spec.Color} {o : Nat} {m : Spec.SMove}
    (h : m ∈ Spec.pawnMovesFrom P c o) : m.kind = .pawn ∧ m.castle = Option.none ∧ m.src = o ∧ m.color = c := by
  rw [pawnMovesFrom_eq] at h
  simp only [List.mem_append] at h
  rcases h with (h | h) | h
  · obtain ⟨t, _, _, hw⟩ := (mem_sPush1 _ _ _ _).1 h
    obtain ⟨h1, h2, h3, _, h5⟩ := kind_withPromo hw
    exact ⟨h1, h2, h3, h5⟩
  · obtain ⟨_, t1, t2, _, _, _, _, rfl⟩ := (mem_sPush2 _ _ _ _).1 h
    exact ⟨rfl, rfl, rfl, rfl⟩
  · obtain ⟨east, t, _, hm⟩ := (mem_sCaps _ _ _ _).1 h
    rcases (mem_sCapAt _ _ _ _ _).1 hm with ⟨k, _, hw⟩ | ⟨_, _, rfl⟩
    · obtain ⟨h1, h2, h3, _, h5⟩ := kind_withPromo hw
      exact ⟨h1, h2, h3, h5⟩
    · exact ⟨rfl, rfl, rfl, rfl⟩

theorem attrs_specStep (P : Spec.Pos) (c : Spec.Color) (k : Spec.Kind) (o t : Nat) :
    (specStep P c k o t).kind = k ∧ (specStep P c k o t).castle = Option.none ∧
    (specStep P c k o t).src = o ∧ (specStep P c k o t).dst = t ∧ (specStep P c k o t).color = c ∧
    (specStep P c k o t).ep = false ∧ (specStep P c k o t).promo = Option.none ∧
    (specStep P c k o t).dbl = false := by
  unfold specStep; split <;> exact ⟨rfl, rfl, rfl, rfl, rfl, rfl, rfl, rfl⟩

theorem attrs_pieceMovesFrom {P : Spec.Pos} {c : Spec.Color} {k : Spec.Kind} {o : Nat} {m : Spec.SMove}
    (h : m ∈ Spec.pieceMovesFrom P c k o) : m.kind = k ∧ m.castle = Option.none ∧ m.src = o ∧ m.color = c := by
  obtain ⟨t, _, _, rfl⟩ := (mem_pieceMovesFrom _ _ _ _ _).1 h
  obtain ⟨h1, h2, h3, _, h5, _⟩ := attrs_specStep P c k o t
  exact ⟨h1, h2, h3, h5⟩

theorem mem_ite_single {α : Type} {c : Prop} [Decidable c] {x a : α} (h : a ∈ (if c then [x] else [])) : a = x := by
  split at h
  · simpa using h
  · simp at h

theorem attrs_castleMoves {P : Spec.Pos} {c : Spec.Color} {m : Spec.SMove}
    (h : m ∈ Spec.castleMoves P c) : m.kind = .king ∧ m.castle ≠ Option.none ∧ m.color = c := by
  unfold Spec.castleMoves at h
  dsimp only at h
  rcases List.mem_append.1 h with h | h
  · have := mem_ite_single h; subst this; exact ⟨rfl, by simp, rfl⟩
  · have := mem_ite_single h; subst this; exact ⟨rfl, by simp, rfl⟩

/-- the king steps that `compute_king_moves` drops: non-castling king moves to a square in `opposing_attacks()` -/
def RemovedKingStep (s : State) (m : Spec.SMove) : Prop :=
  m.kind = Spec.Kind.king ∧ m.castle = Option.none ∧ test (coloredAttacks s.pieces s.turn.opp) m.dst = true

theorem pseudoLegal_spec (s : State) (hd : DisjointBoard s.pieces)
    (hep : ∀ e, s.ep = some e → e < 64 ∧ (abs s).at e = Option.none)
    (hking : ∀ side, (s.castle s.turn).forSide side = true →
      (abs s).at (Spec.kingHome (absColor s.turn)) = some (absColor s.turn, Spec.Kind.king)) :
    ∃ L, pseudoLegalMoves s = some L ∧ ∀ sm, sm ∈ L.map toSpecMove ↔
      ∃ m ∈ Spec.pseudoMoves (abs s), ¬ RemovedKingStep s m ∧ sm = some m := by
  obtain ⟨Lp, hp, hpm⟩ := pawnMoves_spec s hd hep
  have hb : ∀ sq, sq < 64 → ∀ (occ : UInt64) (t : Nat), test (bishopAttacks sq occ) t =
      (Spec.attacksFrom (fun n => test occ n) (absColor s.turn) .bishop sq).contains t :=
    fun sq hsq occ t => C09_bishop sq hsq occ t
  have hr : ∀ sq, sq < 64 → ∀ (occ : UInt64) (t : Nat), test (rookAttacks sq occ) t =
      (Spec.attacksFrom (fun n => test occ n) (absColor s.turn) .rook sq).contains t :=
    fun sq hsq occ t => C09_rook sq hsq occ t
  have hq : ∀ sq, sq < 64 → ∀ (occ : UInt64) (t : Nat), test (queenAttacks sq occ) t =
      (Spec.attacksFrom (fun n => test occ n) (absColor s.turn) .queen sq).contains t :=
    fun sq hsq occ t => C09_queen sq hsq occ t
  refine ⟨_, by unfold pseudoLegalMoves; simp only [hp]; rfl, fun sm => ?_⟩
  simp only [List.map_append, List.mem_append, hpm, mem_knightMoves s hd, kingMoves_eq, mem_kingStepList s hd,
    castleList_spec s hd hking, mem_sliderMoves s hd .bishop .bishop rfl (by decide) bishopAttacks hb,
    mem_sliderMoves s hd .rook .rook rfl (by decide) rookAttacks hr,
    mem_sliderMoves s hd .queen .queen rfl (by decide) queenAttacks hq, mem_map_some, mem_pseudoMoves, abs_turn]
  constructor
  · rintro (((((⟨o, hat, m, hm, rfl⟩ | ⟨o, hat, m, hm, _, rfl⟩) | (⟨o, hat, m, hm, hna, rfl⟩ | ⟨m, hm, rfl⟩)) |
      ⟨o, hat, m, hm, _, rfl⟩) | ⟨o, hat, m, hm, _, rfl⟩) | ⟨o, hat, m, hm, _, rfl⟩)
    · exact ⟨m, .inl ⟨o, .pawn, hat, by rw [if_pos rfl]; exact hm⟩,
        fun h => (by have := h.1; rw [(attrs_pawnMovesFrom hm).1] at this; cases this), rfl⟩
    · exact ⟨m, .inl ⟨o, .knight, hat, by rw [if_neg (by decide)]; exact hm⟩,
        fun h => (by have := h.1; rw [(attrs_pieceMovesFrom hm).1] at this; cases this), rfl⟩
    · exact ⟨m, .inl ⟨o, .king, hat, by rw [if_neg (by decide)]; exact hm⟩,
        fun h => (by have := h.2.2; rw [hna] at this; cases this), rfl⟩
    · exact ⟨m, .inr hm, fun h => (attrs_castleMoves hm).2.1 h.2.1, rfl⟩
    · exact ⟨m, .inl ⟨o, .bishop, hat, by rw [if_neg (by decide)]; exact hm⟩,
        fun h => (by have := h.1; rw [(attrs_pieceMovesFrom hm).1] at this; cases this), rfl⟩
    · exact ⟨m, .inl ⟨o, .rook, hat, by rw [if_neg (by decide)]; exact hm⟩,
        fun h => (by have := h.1; rw [(attrs_pieceMovesFrom hm).1] at this; cases this), rfl⟩
    · exact ⟨m, .inl ⟨o, .queen, hat, by rw [if_neg (by decide)]; exact hm⟩,
        fun h => (by have := h.1; rw [(attrs_pieceMovesFrom hm).1] at this; cases this), rfl⟩
  · rintro ⟨m, ⟨o, k, hat, hm⟩ | hm, hnr, rfl⟩
    · cases k with
      | pawn => rw [if_pos rfl] at hm; exact .inl (.inl (.inl (.inl (.inl ⟨o, hat, m, hm, rfl⟩))))
      | knight => rw [if_neg (by decide)] at hm; exact .inl (.inl (.inl (.inl (.inr ⟨o, hat, m, hm, trivial, rfl⟩))))
      | bishop => rw [if_neg (by decide)] at hm; exact .inl (.inl (.inr ⟨o, hat, m, hm, trivial, rfl⟩))
      | rook => rw [if_neg (by decide)] at hm; exact .inl (.inr ⟨o, hat, m, hm, trivial, rfl⟩)
      | queen => rw [if_neg (by decide)] at hm; exact .inr ⟨o, hat, m, hm, trivial, rfl⟩
      | king =>
        rw [if_neg (by decide)] at hm
        refine .inl (.inl (.inl (.inr (.inl ⟨o, hat, m, hm, ?_, rfl⟩))))
        cases ht : test (coloredAttacks s.pieces s.turn.opp) m.dst with
        | false => rfl
        | true => exact absurd ⟨(attrs_pieceMovesFrom hm).1, (attrs_pieceMovesFrom hm).2.1, ht⟩ hnr
    · exact .inl (.inl (.inl (.inr (.inr ⟨m, hm, rfl⟩))))

/-! ## part 8: what `LegalPos` provides -/

theorem legalPos_ep (s : State) (h : LegalPos s = true) :
    ∀ e, s.ep = some e → e < 64 ∧ (abs s).at e = Option.none := by
  intro e he
  unfold LegalPos Spec.LegalPos at h
  simp only [Bool.and_eq_true] at h
  have h10 := h.2
  rw [abs_ep, he] at h10
  simp only [Bool.and_eq_true, beq_iff_eq, Bool.not_eq_true'] at h10
  obtain ⟨⟨⟨h1, h2⟩, _⟩, _⟩ := h10
  refine ⟨?_, (occupied_false_iff _ _).1 h2⟩
  revert h1
  cases (abs s).turn.opp <;> simp only [] <;> omega

theorem legalPos_king (s : State) (h : LegalPos s = true) :
    ∀ side, (s.castle s.turn).forSide side = true →
      (abs s).at (Spec.kingHome (absColor s.turn)) = some (absColor s.turn, Spec.Kind.king) := by
  unfold LegalPos Spec.LegalPos at h
  simp only [Bool.and_eq_true] at h
  obtain ⟨⟨⟨⟨⟨_, hwk⟩, hwq⟩, hbk⟩, hbq⟩, _⟩ := h
  simp only [Bool.or_eq_true, Bool.not_eq_true', Bool.and_eq_true, beq_iff_eq] at hwk hwq hbk hbq
  intro side hside
  cases hturn : s.turn with
  | white =>
    rw [hturn] at hside
    cases side with
    | king => rcases hwk with h | h
              · have : s.castleW.kingside = false := h
                rw [show (s.castle .white).forSide .king = s.castleW.kingside from rfl, this] at hside; cases hside
              · exact h.1
    | queen => rcases hwq with h | h
               · have : s.castleW.queenside = false := h
                 rw [show (s.castle .white).forSide .queen = s.castleW.queenside from rfl, this] at hside; cases hside
               · exact h.1
  | black =>
    rw [hturn] at hside
    cases side with
    | king => rcases hbk with h | h
              · have : s.castleB.kingside = false := h
                rw [show (s.castle .black).forSide .king = s.castleB.kingside from rfl, this] at hside; cases hside
              · exact h.1
    | queen => rcases hbq with h | h
               · have : s.castleB.queenside = false := h
                 rw [show (s.castle .black).forSide .queen = s.castleB.queenside from rfl, this] at hside; cases hside
               · exact h.1

/-! ## part 9: the specification's make-move on a plain move; king steps into attacked squares -/

theorem abs_size (s : State) : (abs s).cells.size = 64 := by simp [abs]

theorem at_eq_getD (P : Spec.Pos) (x : Nat) (hx : x < 64) : P.at x = P.cells[x]?.getD Option.none := by
  unfold Spec.Pos.at; rw [if_pos hx, Array.getD_eq_getD_getElem?]

theorem at_ge (P : Spec.Pos) (x : Nat) (hx : 64 ≤ x) : P.at x = Option.none := by
  unfold Spec.Pos.at; rw [if_neg (by omega)]

/-- the board after a move that is neither en passant nor castling -/
theorem applyMove_at_plain (P : Spec.Pos) (hsz : P.cells.size = 64) (m : Spec.SMove) (hep : m.ep = false)
    (hc : m.castle = Option.none) (hsrc : m.src < 64) (hdst : m.dst < 64) (x : Nat) :
    (Spec.applyMove P m).at x =
      if x = m.dst then some (m.color, m.promo.getD m.kind) else if x = m.src then Option.none else P.at x := by
  by_cases hx : x < 64
  · rw [at_eq_getD _ x hx, at_eq_getD P x hx]
    simp only [Spec.applyMove, hep, hc, Spec.setCell, Bool.false_eq_true, if_false,
      Array.getElem?_setIfInBounds, Array.size_setIfInBounds, hsz, hdst, hsrc, if_true]
    by_cases h1 : x = m.dst
    · subst h1; simp
    · have h1' : ¬ m.dst = x := fun e => h1 e.symm
      rw [if_neg h1, if_neg h1']
      by_cases h2 : x = m.src
      · subst h2; simp
      · have h2' : ¬ m.src = x := fun e => h2 e.symm
        rw [if_neg h2, if_neg h2']
  · rw [at_ge _ x (by omega), at_ge P x (by omega), if_neg (by omega), if_neg (by omega)]

theorem applyMove_turn (P : Spec.Pos) (m : Spec.SMove) : (Spec.applyMove P m).turn = m.color.opp := rfl

/-- a ray that reaches `t` still reaches `t` when the only new blockers are `t` itself -/
theorem slideDir_mono (occ occ' : Nat → Bool) (t : Nat) (h : ∀ x, x ≠ t → occ' x = true → occ x = true)
    (df dr : Int) : ∀ (fuel sq : Nat), t ∈ Spec.slideDir occ df dr fuel sq → t ∈ Spec.slideDir occ' df dr fuel sq := by
  intro fuel
  induction fuel with
  | zero => intro sq ht; simp [Spec.slideDir] at ht
  | succ n ih =>
    intro sq ht
    simp only [Spec.slideDir] at ht ⊢
    cases hs : Spec.step sq df dr with
    | none => rw [hs] at ht; simp at ht
    | some m =>
      rw [hs] at ht
      dsimp only at ht ⊢
      by_cases htm : t = m
      · subst htm; split <;> simp
      · have hrec : t ∈ Spec.slideDir occ df dr n m := by
          by_cases ho : occ m = true
          · rw [if_pos ho] at ht; simp [htm] at ht
          · rw [if_neg ho] at ht; simpa [htm] using ht
        have hom : occ m = false := by
          cases ho : occ m with
          | false => rfl
          | true => rw [if_pos ho] at ht; simp [htm] at ht
        have hom' : ¬ occ' m = true := by
          intro ho'
          have := h m (fun e => htm e.symm) ho'
          rw [hom] at this; cases this
        rw [if_neg hom']
        exact List.mem_cons_of_mem _ (ih m hrec)

theorem attacksFrom_mono (occ occ' : Nat → Bool) (t : Nat) (h : ∀ x, x ≠ t → occ' x = true → occ x = true)
    (c : Spec.Color) (k : Spec.Kind) (s : Nat) (ht : t ∈ Spec.attacksFrom occ c k s) :
    t ∈ Spec.attacksFrom occ' c k s := by
  have hslide : ∀ dirs, t ∈ Spec.slide occ dirs s → t ∈ Spec.slide occ' dirs s := by
    intro dirs hm
    simp only [Spec.slide, List.mem_flatMap] at hm ⊢
    obtain ⟨d, hd, hm⟩ := hm
    exact ⟨d, hd, slideDir_mono occ occ' t h d.1 d.2 8 s hm⟩
  cases k <;> simp only [Spec.attacksFrom] at ht ⊢
  · exact ht
  · exact ht
  · exact hslide _ ht
  · exact hslide _ ht
  · exact hslide _ ht
  · exact ht

theorem specColor_opp_ne (c : Spec.Color) : c.opp ≠ c := by cases c <;> simp [Spec.Color.opp]

/-- **a king may not step onto an empty square that the opponent attacks**: after the step the king stands
attacked (the attacker is neither captured nor newly blocked; leaving the origin square only opens lines) -/
theorem kingStep_into_attack_illegal (P : Spec.Pos) (hsz : P.cells.size = 64) (o t : Nat)
    (hat_o : P.at o = some (P.turn, Spec.Kind.king)) (ht_empty : P.at t = Option.none) (ht : t < 64)
    (hatt : P.attackedBy P.turn.opp t = true) :
    Spec.isLegalAfter P (specStep P P.turn .king o t) = false := by
  have hm : specStep P P.turn .king o t = { color := P.turn, kind := .king, src := o, dst := t } := by
    unfold specStep; rw [ht_empty]
  rw [hm]
  unfold Spec.isLegalAfter
  simp only [Bool.not_eq_eq_eq_not, Bool.not_false]
  have ho : o < 64 := at_lt hat_o
  have hcell : ∀ x, (Spec.applyMove P { color := P.turn, kind := .king, src := o, dst := t }).at x =
      if x = t then some (P.turn, Spec.Kind.king) else if x = o then Option.none else P.at x := by
    intro x
    rw [applyMove_at_plain P hsz _ rfl rfl ho ht x]
    rfl
  rw [C10.inCheck_iff]
  refine ⟨t, ht, by rw [hcell, if_pos rfl], ?_⟩
  obtain ⟨s', hs', k, hat', hmem⟩ := (C10.attackedBy_iff P P.turn.opp t).1 hatt
  rw [C10.attackedBy_iff]
  have hs't : s' ≠ t := by rintro rfl; rw [ht_empty] at hat'; cases hat'
  have hs'o : s' ≠ o := by
    rintro rfl; rw [hat_o] at hat'
    exact specColor_opp_ne _ (congrArg Prod.fst (Option.some.inj hat')).symm
  refine ⟨s', hs', k, by rw [hcell, if_neg hs't, if_neg hs'o]; exact hat', ?_⟩
  apply attacksFrom_mono P.occupied _ t _ _ _ _ hmem
  intro x hxt hocc
  unfold Spec.Pos.occupied at hocc ⊢
  rw [hcell, if_neg hxt] at hocc
  by_cases hxo : x = o
  · rw [if_pos hxo] at hocc; cases hocc
  · rw [if_neg hxo] at hocc; exact hocc

/-! ## part 10: the legality filter -/

/-- What is known about a move handed to `State::by_performing_move` by the legality filter: it is one of
the generated pseudo-legal moves of `s`, it reads (through the accessors) as `sm`, and `sm` is a pseudo-legal
move of the specification in `abs s`. -/
structure MoveFits (s : State) (mv : Move) (sm : Spec.SMove) : Prop where
  generated : ∃ L, pseudoLegalMoves s = some L ∧ mv ∈ L
  reads : toSpecMove mv = some sm
  pseudo : sm ∈ Spec.pseudoMoves (abs s)

/-- **Interface to C02** (make-move correctness), taken as a hypothesis by the C01 theorems: on a legal,
disjoint position every generated pseudo-legal move is performed without error or panic, the successor
abstracts to the specification's successor, and it is again a disjoint placement. -/
def ApplyCorrect : Prop :=
  ∀ (s : State), LegalPos s = true → DisjointBoard s.pieces → ∀ (mv : Move) (sm : Spec.SMove), MoveFits s mv sm →
    ∃ next, performMove s mv = some (.ok next) ∧ abs next = Spec.applyMove (abs s) sm ∧
      DisjointBoard next.pieces

theorem color_of_pseudo {P : Spec.Pos} {m : Spec.SMove} (h : m ∈ Spec.pseudoMoves P) : m.color = P.turn := by
  rcases (mem_pseudoMoves P m).1 h with ⟨o, k, _, hm⟩ | hm
  · by_cases hk : k = Spec.Kind.pawn
    · rw [if_pos hk] at hm; exact (attrs_pawnMovesFrom hm).2.2.2
    · rw [if_neg hk] at hm; exact (attrs_pieceMovesFrom hm).2.2.2
  · exact (attrs_castleMoves hm).2.2

theorem bbNone_eq_not_bbAny (x : UInt64) : bbNone x = !bbAny x := by
  unfold bbNone bbAny; cases h : x == 0 <;> simp [bne, h]

/-- `try_as_legal_move` on a move whose make-move is correct: kept iff legal by the rules -/
theorem tryAsLegal_spec (s : State) (mv : Move) (sm : Spec.SMove) (next : State)
    (hperf : performMove s mv = some (.ok next)) (habs : abs next = Spec.applyMove (abs s) sm)
    (hd' : DisjointBoard next.pieces) (hcol : sm.color = absColor s.turn) :
    tryAsLegal s mv = some (if Spec.isLegalAfter (abs s) sm = true then some (mv, next) else Option.none) := by
  have hturn : next.turn = s.turn.opp := by
    apply C10.absColor_inj
    have : (abs next).turn = (Spec.applyMove (abs s) sm).turn := by rw [habs]
    rw [abs_turn, applyMove_turn, hcol, ← C10.absColor_opp] at this
    exact this
  have hchk : bbNone (next.pieces.get s.turn .king &&& coloredAttacks next.pieces next.turn) =
      Spec.isLegalAfter (abs s) sm := by
    rw [bbNone_eq_not_bbAny, hturn]
    show (!isCheckB next.pieces s.turn) = _
    rw [C10.C10_check_closed next hd' s.turn, habs]
    rfl
  unfold tryAsLegal
  rw [hperf]
  dsimp only
  rw [hchk]
  cases Spec.isLegalAfter (abs s) sm <;> rfl

theorem tryAsLegal_fst (s : State) (mv : Move) (r : Move × State) (h : tryAsLegal s mv = some (some r)) :
    r.1 = mv := by
  unfold tryAsLegal at h
  split at h
  · dsimp only at h
    split at h
    · simp only [Option.some.injEq] at h; rw [← h]
    · simp at h
  · cases h

/-- `(filterMap g l).map fst` is a sublist of `l` when `g` keeps the move as first component -/
theorem filterMap_fst_sublist {α β : Type} (g : α → Option (α × β)) (hg : ∀ a r, g a = some r → r.1 = a) :
    ∀ l : List α, ((l.filterMap g).map Prod.fst).Sublist l := by
  intro l
  induction l with
  | nil => exact List.Sublist.slnil
  | cons a t ih =>
    rw [List.filterMap_cons]
    cases h : g a with
    | none => exact List.Sublist.cons _ ih
    | some r =>
      dsimp only
      rw [List.map_cons, hg a r h]
      exact List.Sublist.cons_cons _ ih

/-- a removed king step is illegal anyway -/
theorem removed_illegal (s : State) (hd : DisjointBoard s.pieces) (m : Spec.SMove)
    (hm : m ∈ Spec.pseudoMoves (abs s)) (hr : RemovedKingStep s m) : Spec.isLegalAfter (abs s) m = false := by
  obtain ⟨hkind, hcastle, htest⟩ := hr
  rcases (mem_pseudoMoves _ m).1 hm with ⟨o, k, hat, hmm⟩ | hmm
  · have hk : k = Spec.Kind.king := by
      by_cases hkp : k = Spec.Kind.pawn
      · rw [if_pos hkp] at hmm; rw [(attrs_pawnMovesFrom hmm).1] at hkind; cases hkind
      · rw [if_neg hkp] at hmm; rw [← (attrs_pieceMovesFrom hmm).1]; exact hkind
    subst hk
    rw [if_neg (by decide)] at hmm
    obtain ⟨t, hatt, hown, rfl⟩ := (mem_pieceMovesFrom _ _ _ _ _).1 hmm
    rw [specStep_dst] at htest
    have ht : t < 64 := attacksFrom_lt _ _ _ _ _ hatt
    obtain ⟨h1, h2⟩ := (C10.C10_attacks_closed s hd s.turn.opp t ht).1 htest
    rw [C10.absColor_opp] at h1 h2
    have hempty : (abs s).at t = Option.none := by
      cases hc : (abs s).at t with
      | none => rfl
      | some x =>
        obtain ⟨c', k'⟩ := x
        rcases specColor_cases s.turn c' with e | e
        · subst e; exact absurd hc (hown k')
        · rw [C10.absColor_opp] at e; subst e; exact absurd ⟨k', hc⟩ h2
    exact kingStep_into_attack_illegal (abs s) (abs_size s) o t hat hempty ht h1
  · exact absurd hcastle (attrs_castleMoves hmm).2.1

/-- **the whole generator**, membership form -/
theorem legalMoves_spec (AC : ApplyCorrect) (s : State) (hl : LegalPos s = true) (hd : DisjointBoard s.pieces) :
    ∃ ps L, pseudoLegalMoves s = some ps ∧ legalMoves? s = some L ∧ (L.map Prod.fst).Sublist ps ∧
      (∀ r ∈ L, ∃ sm, toSpecMove r.1 = some sm ∧ sm ∈ Spec.legalMoves (abs s) ∧
        abs r.2 = Spec.applyMove (abs s) sm ∧ DisjointBoard r.2.pieces) ∧
      (∀ sm, sm ∈ L.map (fun r => toSpecMove r.1) ↔ sm ∈ (Spec.legalMoves (abs s)).map some) := by
  obtain ⟨ps, hps, hmem⟩ := pseudoLegal_spec s hd (legalPos_ep s hl) (legalPos_king s hl)
  -- every generated move reads as a pseudo-legal specification move, and is performed correctly
  have hfit : ∀ mv ∈ ps, ∃ sm next, toSpecMove mv = some sm ∧ sm ∈ Spec.pseudoMoves (abs s) ∧
      ¬ RemovedKingStep s sm ∧
      tryAsLegal s mv = some (if Spec.isLegalAfter (abs s) sm = true then some (mv, next) else Option.none) ∧
      abs next = Spec.applyMove (abs s) sm ∧ DisjointBoard next.pieces := by
    intro mv hmv
    obtain ⟨sm, hsm, hnr, e⟩ := (hmem (toSpecMove mv)).1 (List.mem_map_of_mem hmv)
    obtain ⟨next, hperf, habs, hd'⟩ := AC s hl hd mv sm ⟨⟨ps, hps, hmv⟩, e, hsm⟩
    exact ⟨sm, next, e, hsm, hnr, tryAsLegal_spec s mv sm next hperf habs hd' (color_of_pseudo hsm), habs, hd'⟩
  let g : Move → Option (Move × State) := fun mv => (tryAsLegal s mv).getD Option.none
  have hg : ∀ mv ∈ ps, tryAsLegal s mv = some (g mv) := by
    intro mv hmv
    obtain ⟨sm, next, _, _, _, h, _⟩ := hfit mv hmv
    show _ = some ((tryAsLegal s mv).getD Option.none)
    rw [h]; rfl
  have hgfst : ∀ mv r, g mv = some r → r.1 = mv := by
    intro mv r h
    have h' : (tryAsLegal s mv).getD Option.none = some r := h
    cases ht : tryAsLegal s mv with
    | none => rw [ht] at h'; cases h'
    | some y =>
      rw [ht] at h'
      have : y = some r := h'
      subst this
      exact tryAsLegal_fst s mv r ht
  have hL : legalMoves? s = some (ps.filterMap g) := by
    unfold legalMoves?
    rw [hps]
    show (do let rs ← ps.mapM (tryAsLegal s); pure (rs.filterMap id)) = _
    rw [mapM_option_eq_some_map (tryAsLegal s) g ps hg]
    show some ((ps.map g).filterMap id) = _
    rw [List.filterMap_map]; rfl
  have hr : ∀ r, r ∈ ps.filterMap g → ∃ sm, toSpecMove r.1 = some sm ∧
      sm ∈ Spec.legalMoves (abs s) ∧ abs r.2 = Spec.applyMove (abs s) sm ∧ DisjointBoard r.2.pieces := by
    intro r hrm
    obtain ⟨mv, hmv, hgr⟩ := List.mem_filterMap.1 hrm
    obtain ⟨sm, next, e, hsm, hnr, htl, habs, hd'⟩ := hfit mv hmv
    have : g mv = (if Spec.isLegalAfter (abs s) sm = true then some (mv, next) else Option.none) := by
      show (tryAsLegal s mv).getD Option.none = _
      rw [htl]; rfl
    rw [this] at hgr
    by_cases hleg : Spec.isLegalAfter (abs s) sm = true
    · rw [if_pos hleg] at hgr
      have := (Option.some.inj hgr).symm
      subst this
      exact ⟨sm, e, List.mem_filter.2 ⟨hsm, hleg⟩, habs, hd'⟩
    · rw [if_neg hleg] at hgr; cases hgr
  refine ⟨ps, ps.filterMap g, hps, hL, filterMap_fst_sublist g hgfst ps, hr, fun sm' => ?_⟩
  rw [mem_map_some]
  constructor
  · intro h
    obtain ⟨r, hrm, rfl⟩ := List.mem_map.1 h
    obtain ⟨sm, e, hleg, _, _⟩ := hr r hrm
    exact ⟨sm, hleg, e⟩
  · rintro ⟨m, hm, rfl⟩
    obtain ⟨hpm, hleg⟩ := List.mem_filter.1 hm
    have hnr : ¬ RemovedKingStep s m := by
      intro hrem
      rw [removed_illegal s hd m hpm hrem] at hleg; cases hleg
    obtain ⟨mv, hmv, e⟩ := List.mem_map.1 ((hmem (some m)).2 ⟨m, hpm, hnr, rfl⟩)
    obtain ⟨sm'', next, e', _, _, htl, _, _⟩ := hfit mv hmv
    rw [e] at e'; cases e'
    refine List.mem_map.2 ⟨(mv, next), List.mem_filterMap.2 ⟨mv, hmv, ?_⟩, e⟩
    show (tryAsLegal s mv).getD Option.none = _
    rw [htl, if_pos hleg]; rfl

/-! ## part 11: no duplicates — the specification side -/

/-- `b` lies `n ≥ 1` steps from `a` in direction `(df, dr)` -/
def Along (df dr : Int) (a b : Nat) : Prop :=
  ∃ n : Nat, 0 < n ∧ ((b % 8 : Nat) : Int) = (a % 8 : Nat) + n * df ∧ ((b / 8 : Nat) : Int) = (a / 8 : Nat) + n * dr

theorem along_step {df dr : Int} {a b : Nat} (h : Spec.step a df dr = some b) : Along df dr a b := by
  rw [step_eq_some] at h
  refine ⟨1, by omega, ?_, ?_⟩ <;> omega

theorem along_trans_step {df dr : Int} {a b c : Nat} (h : Spec.step a df dr = some b) (h2 : Along df dr b c) :
    Along df dr a c := by
  rw [step_eq_some] at h
  obtain ⟨n, hn, h1, h2⟩ := h2
  refine ⟨n + 1, by omega, ?_, ?_⟩
  · have : ((n + 1 : Nat) : Int) * df = n * df + df := by rw [Int.natCast_add, Int.add_mul]; simp
    rw [this]; omega
  · have : ((n + 1 : Nat) : Int) * dr = n * dr + dr := by rw [Int.natCast_add, Int.add_mul]; simp
    rw [this]; omega

theorem slideDir_along (occ : Nat → Bool) (df dr : Int) : ∀ (fuel sq x : Nat),
    x ∈ Spec.slideDir occ df dr fuel sq → Along df dr sq x := by
  intro fuel
  induction fuel with
  | zero => intro sq x h; simp [Spec.slideDir] at h
  | succ n ih =>
    intro sq x h
    simp only [Spec.slideDir] at h
    cases hs : Spec.step sq df dr with
    | none => rw [hs] at h; simp at h
    | some m =>
      rw [hs] at h
      dsimp only at h
      by_cases ho : occ m = true
      · rw [if_pos ho] at h
        have : x = m := by simpa using h
        subst this; exact along_step hs
      · rw [if_neg ho] at h
        rcases List.mem_cons.1 h with e | e
        · subst e; exact along_step hs
        · exact along_trans_step hs (ih m x e)

def UnitDir (d : Int × Int) : Prop :=
  (d.1 = -1 ∨ d.1 = 0 ∨ d.1 = 1) ∧ (d.2 = -1 ∨ d.2 = 0 ∨ d.2 = 1) ∧ ¬ (d.1 = 0 ∧ d.2 = 0)

instance (d : Int × Int) : Decidable (UnitDir d) := by unfold UnitDir; infer_instance

theorem comp_unique (n n' : Nat) (hn : 0 < n) (hn' : 0 < n') (d d' : Int) (hd : d = -1 ∨ d = 0 ∨ d = 1)
    (hd' : d' = -1 ∨ d' = 0 ∨ d' = 1) (h : (n : Int) * d = n' * d') : d = d' := by
  rcases hd with rfl | rfl | rfl <;> rcases hd' with rfl | rfl | rfl <;> omega

/-- the direction from `a` to `b` is unique -/
theorem along_dir_unique {d d' : Int × Int} (hd : UnitDir d) (hd' : UnitDir d') {a b : Nat}
    (h : Along d.1 d.2 a b) (h' : Along d'.1 d'.2 a b) : d = d' := by
  obtain ⟨n, hn, h1, h2⟩ := h
  obtain ⟨n', hn', h1', h2'⟩ := h'
  have e1 := comp_unique n n' hn hn' d.1 d'.1 hd.1 hd'.1 (by omega)
  have e2 := comp_unique n n' hn hn' d.2 d'.2 hd.2.1 hd'.2.1 (by omega)
  exact Prod.ext e1 e2

theorem along_ne {d : Int × Int} (hd : UnitDir d) {a b : Nat} (h : Along d.1 d.2 a b) : a ≠ b := by
  rintro rfl
  obtain ⟨n, hn, h1, h2⟩ := h
  obtain ⟨h1d, h2d, hnz⟩ := hd
  apply hnz
  constructor
  · rcases h1d with e | e | e
    · rw [e] at h1; omega
    · exact e
    · rw [e] at h1; omega
  · rcases h2d with e | e | e
    · rw [e] at h2; omega
    · exact e
    · rw [e] at h2; omega

theorem along_trans {df dr : Int} {a b c : Nat} (h1 : Along df dr a b) (h2 : Along df dr b c) : Along df dr a c := by
  obtain ⟨n, hn, h1a, h1b⟩ := h1
  obtain ⟨n', hn', h2a, h2b⟩ := h2
  refine ⟨n + n', by omega, ?_, ?_⟩
  · have : ((n + n' : Nat) : Int) * df = n * df + n' * df := by rw [Int.natCast_add, Int.add_mul]
    rw [this]; omega
  · have : ((n + n' : Nat) : Int) * dr = n * dr + n' * dr := by rw [Int.natCast_add, Int.add_mul]
    rw [this]; omega

theorem slideDir_pairwise (occ : Nat → Bool) (df dr : Int) : ∀ (fuel sq : Nat),
    (Spec.slideDir occ df dr fuel sq).Pairwise (Along df dr) := by
  intro fuel
  induction fuel with
  | zero => intro sq; simp [Spec.slideDir]
  | succ n ih =>
    intro sq
    simp only [Spec.slideDir]
    cases hs : Spec.step sq df dr with
    | none => simp
    | some m =>
      dsimp only
      by_cases ho : occ m = true
      · rw [if_pos ho]; simp
      · rw [if_neg ho]
        exact List.pairwise_cons.2 ⟨fun x hx => slideDir_along occ df dr n m x hx, ih m⟩

theorem slide_nodup (occ : Nat → Bool) (dirs : List (Int × Int)) (hdirs : dirs.Nodup) (hu : ∀ d ∈ dirs, UnitDir d)
    (sq : Nat) : (Spec.slide occ dirs sq).Nodup := by
  unfold Spec.slide
  rw [List.nodup_iff_pairwise_ne, List.pairwise_flatMap]
  constructor
  · intro d hd
    exact (slideDir_pairwise occ d.1 d.2 8 sq).imp (fun h => along_ne (hu d hd) h)
  · apply hdirs.imp_of_mem
    intro d d' hd hd' hne x hx y hy e
    subst e
    exact hne (along_dir_unique (hu d hd) (hu d' hd') (slideDir_along occ _ _ _ _ _ hx)
      (slideDir_along occ _ _ _ _ _ hy))

theorem filterMap_step_nodup (l : List (Int × Int)) (hl : l.Nodup) (s : Nat) :
    (l.filterMap fun d => Spec.step s d.1 d.2).Nodup := by
  rw [List.nodup_iff_pairwise_ne]
  apply List.Pairwise.filterMap _ _ hl
  intro d d' hne b hb b' hb' e
  subst e
  rw [step_eq_some] at hb hb'
  apply hne
  apply Prod.ext <;> omega

theorem attacksFrom_nodup (occ : Nat → Bool) (c : Spec.Color) (k : Spec.Kind) (s : Nat) :
    (Spec.attacksFrom occ c k s).Nodup := by
  cases k <;> simp only [Spec.attacksFrom]
  · apply filterMap_step_nodup
    cases c <;> decide
  · exact filterMap_step_nodup _ (by decide) s
  · exact slide_nodup occ _ (by decide) (by decide) s
  · exact slide_nodup occ _ (by decide) (by decide) s
  · exact slide_nodup occ _ (by decide) (by decide) s
  · exact filterMap_step_nodup _ (by decide) s

theorem pieceMovesFrom_nodup (P : Spec.Pos) (c : Spec.Color) (k : Spec.Kind) (s : Nat) :
    (Spec.pieceMovesFrom P c k s).Nodup := by
  unfold Spec.pieceMovesFrom
  rw [List.nodup_iff_pairwise_ne]
  apply List.Pairwise.filterMap _ _ (attacksFrom_nodup P.occupied c k s)
  intro t t' hne b hb b' hb' e
  subst e
  apply hne
  have h1 : b.dst = t := by
    cases hat : P.at t with
    | none => rw [hat] at hb; simp only [Option.some.injEq] at hb; rw [← hb]
    | some x =>
      obtain ⟨c', k'⟩ := x
      rw [hat] at hb; dsimp only at hb
      split at hb
      · cases hb
      · simp only [Option.some.injEq] at hb; rw [← hb]
  have h2 : b.dst = t' := by
    cases hat : P.at t' with
    | none => rw [hat] at hb'; simp only [Option.some.injEq] at hb'; rw [← hb']
    | some x =>
      obtain ⟨c', k'⟩ := x
      rw [hat] at hb'; dsimp only at hb'
      split at hb'
      · cases hb'
      · simp only [Option.some.injEq] at hb'; rw [← hb']
  rw [← h1, h2]

theorem withPromo_nodup (c : Spec.Color) (m : Spec.SMove) : (withPromo c m).Nodup := by
  unfold withPromo
  split
  · rw [List.nodup_iff_pairwise_ne, List.pairwise_map]
    have : Spec.promoKinds.Nodup := by decide
    apply this.imp
    intro k k' hne e
    apply hne
    have := congrArg Spec.SMove.promo e
    exact Option.some.inj this
  · simp

theorem sCapAt_nodup (P : Spec.Pos) (c : Spec.Color) (s t : Nat) : (sCapAt P c s t).Nodup := by
  unfold sCapAt
  split
  · split
    · exact withPromo_nodup _ _
    · simp
  · split <;> simp

theorem dst_sCapAt {P : Spec.Pos} {c : Spec.Color} {s t : Nat} {m : Spec.SMove} (h : m ∈ sCapAt P c s t) :
    m.dst = t ∧ m.dbl = false := by
  rcases (mem_sCapAt _ _ _ _ _).1 h with ⟨k, _, hw⟩ | ⟨_, _, rfl⟩
  · rcases (mem_withPromo _ _ _).1 hw with ⟨_, kp, _, rfl⟩ | ⟨_, rfl⟩ <;> exact ⟨rfl, rfl⟩
  · exact ⟨rfl, rfl⟩

theorem sCaps_nodup (P : Spec.Pos) (c : Spec.Color) (s : Nat) : (sCaps P c s).Nodup := by
  unfold sCaps
  rw [List.nodup_iff_pairwise_ne, List.pairwise_flatMap]
  constructor
  · intro t _
    exact List.nodup_iff_pairwise_ne.1 (sCapAt_nodup P c s t)
  · have : ([(-1 : Int), 1].filterMap fun df => Spec.step s df c.fwd).Nodup := by
      rw [List.nodup_iff_pairwise_ne]
      apply List.Pairwise.filterMap _ _ (by decide : [(-1 : Int), 1].Nodup)
      intro d d' hne b hb b' hb' e
      subst e
      rw [step_eq_some] at hb hb'
      apply hne; omega
    apply this.imp
    intro t t' hne x hx y hy e
    subst e
    exact hne ((dst_sCapAt hx).1.symm.trans (dst_sCapAt hy).1)

theorem pawnMovesFrom_nodup (P : Spec.Pos) (c : Spec.Color) (s : Nat) : (Spec.pawnMovesFrom P c s).Nodup := by
  rw [pawnMovesFrom_eq, List.nodup_append, List.nodup_append]
  refine ⟨⟨?_, ?_, ?_⟩, sCaps_nodup P c s, ?_⟩
  · unfold sPush1
    split
    · split
      · simp
      · exact withPromo_nodup _ _
    · simp
  · unfold sPush2
    split
    · split
      · split
        · split <;> simp
        · simp
      · simp
    · simp
  · intro a ha b hb e
    subst e
    obtain ⟨t, _, _, hw⟩ := (mem_sPush1 _ _ _ _).1 ha
    obtain ⟨_, t1, t2, _, _, _, _, rfl⟩ := (mem_sPush2 _ _ _ _).1 hb
    rcases (mem_withPromo _ _ _).1 hw with ⟨_, k, _, e⟩ | ⟨_, e⟩
    · have := congrArg Spec.SMove.dbl e; cases this
    · have := congrArg Spec.SMove.dbl e; cases this
  · intro a ha b hb e
    subst e
    obtain ⟨east, t', hst', hm⟩ := (mem_sCaps _ _ _ _).1 hb
    obtain ⟨hdst, hdbl⟩ := dst_sCapAt hm
    rcases List.mem_append.1 ha with ha | ha
    · obtain ⟨t, hst, _, hw⟩ := (mem_sPush1 _ _ _ _).1 ha
      have : a.dst = t := (kind_withPromo hw).2.2.2.1
      rw [this] at hdst; subst hdst
      rw [step_eq_some] at hst hst'
      cases east <;> simp only [capDf] at hst' <;> omega
    · obtain ⟨_, t1, t2, _, _, _, _, rfl⟩ := (mem_sPush2 _ _ _ _).1 ha
      cases hdbl

theorem ite_single_nodup {α : Type} {c : Prop} [Decidable c] (x : α) : (if c then [x] else []).Nodup := by
  split <;> simp

theorem castleMoves_nodup (P : Spec.Pos) (c : Spec.Color) : (Spec.castleMoves P c).Nodup := by
  unfold Spec.castleMoves
  dsimp only
  rw [List.nodup_append]
  refine ⟨ite_single_nodup _, ite_single_nodup _, ?_⟩
  intro a ha b hb e
  have h1 := mem_ite_single ha
  have h2 := mem_ite_single hb
  rw [e, h2] at h1
  have := congrArg Spec.SMove.castle h1
  cases this

/-- **the specification's pseudo-legal list has no duplicates** -/
theorem pseudoMoves_nodup (P : Spec.Pos) : (Spec.pseudoMoves P).Nodup := by
  unfold Spec.pseudoMoves
  dsimp only
  rw [List.nodup_append]
  refine ⟨?_, castleMoves_nodup P P.turn, ?_⟩
  · rw [List.nodup_iff_pairwise_ne, List.pairwise_flatMap]
    constructor
    · intro s _
      apply List.nodup_iff_pairwise_ne.1
      split
      · split
        · split
          · exact pawnMovesFrom_nodup _ _ _
          · exact pieceMovesFrom_nodup _ _ _ _
        · simp
      · simp
    · have hsrc : ∀ s x, x ∈ (match P.at s with
          | some (c', k) => if c' == P.turn then
              (if k == Spec.Kind.pawn then Spec.pawnMovesFrom P P.turn s else Spec.pieceMovesFrom P P.turn k s) else []
          | Option.none => []) → x.src = s := by
        intro s x hx
        split at hx
        · split at hx
          · split at hx
            · exact (attrs_pawnMovesFrom hx).2.2.1
            · exact (attrs_pieceMovesFrom hx).2.2.1
          · simp at hx
        · simp at hx
      apply (List.nodup_range (n := 64)).imp
      intro s s' hne x hx y hy e
      subst e
      exact hne ((hsrc s x hx).symm.trans (hsrc s' x hy))
  · intro a ha b hb e
    subst e
    have hc := (attrs_castleMoves hb).2.1
    obtain ⟨s, _, hx⟩ := List.mem_flatMap.1 ha
    split at hx
    · split at hx
      · split at hx
        · exact hc (attrs_pawnMovesFrom hx).2.1
        · exact hc (attrs_pieceMovesFrom hx).2.1
      · simp at hx
    · simp at hx

theorem legalMoves_nodup (P : Spec.Pos) : ((Spec.legalMoves P).map some).Nodup := by
  have h1 : (Spec.legalMoves P).Nodup := List.Nodup.sublist List.filter_sublist (pseudoMoves_nodup P)
  rw [List.nodup_iff_pairwise_ne, List.pairwise_map]
  exact (List.nodup_iff_pairwise_ne.1 h1).imp (fun hne e => hne (Option.some.inj e))

/-! ## part 12: no duplicates — the model side -/

theorem map_some_nodup {α : Type} {l : List α} (h : l.Nodup) : (l.map some).Nodup := by
  rw [List.nodup_iff_pairwise_ne, List.pairwise_map]
  exact (List.nodup_iff_pairwise_ne.1 h).imp (fun hne e => hne (Option.some.inj e))

theorem mem_expand_spec (s : State) (p : Piece) (k : Spec.Kind) (hk : absKind p = some k) (hp : p ≠ Piece.pawn)
    (sq : Nat) (hsq : sq < 64) (D : UInt64) (x : Option Spec.SMove)
    (hx : x ∈ (expandMoves (Helper.of s) sq D p).map toSpecMove) :
    ∃ t, t < 64 ∧ test D t = true ∧ x = some (specStep (abs s) (absColor s.turn) k sq t) := by
  obtain ⟨m, hm, rfl⟩ := List.mem_map.1 hx
  obtain ⟨t, ht, hD, rfl⟩ := (mem_expandMoves _ _ _ _ _).1 hm
  exact ⟨t, ht, hD, toSpecMove_expandOne s s.turn p k hk hp sq t hsq ht⟩

theorem pieceGen_nodup (s : State) (p : Piece) (k : Spec.Kind) (hk : absKind p = some k) (hp : p ≠ Piece.pawn)
    (dests : Nat → UInt64) :
    (((bitsOf (s.pieces.get s.turn p)).flatMap fun sq =>
        expandMoves (Helper.of s) sq (dests sq) p).map toSpecMove).Nodup := by
  rw [List.map_flatMap, List.nodup_iff_pairwise_ne, List.pairwise_flatMap]
  constructor
  · intro sq hsq
    have hsq64 := ((mem_bitsOf _ _).1 hsq).1
    unfold expandMoves
    rw [List.map_map, List.pairwise_map]
    apply (bitsOf_nodup (dests sq)).imp_of_mem
    intro t t' ht ht' hne e
    have ht64 := ((mem_bitsOf _ _).1 ht).1
    have ht64' := ((mem_bitsOf _ _).1 ht').1
    simp only [Function.comp, helper_us, helper_s] at e
    have e1 := toSpecMove_expandOne s s.turn p k hk hp sq t hsq64 ht64
    have e2 := toSpecMove_expandOne s s.turn p k hk hp sq t' hsq64 ht64'
    have e3 : some (specStep (abs s) (absColor s.turn) k sq t) = some (specStep (abs s) (absColor s.turn) k sq t') :=
      (e1.symm.trans e).trans e2
    have := congrArg Spec.SMove.dst (Option.some.inj e3)
    rw [specStep_dst, specStep_dst] at this
    exact hne this
  · apply (bitsOf_nodup _).imp_of_mem
    intro sq sq' hsq hsq' hne x hx y hy e
    subst e
    obtain ⟨t, _, _, e1⟩ := mem_expand_spec s p k hk hp sq ((mem_bitsOf _ _).1 hsq).1 _ x hx
    obtain ⟨t', _, _, e2⟩ := mem_expand_spec s p k hk hp sq' ((mem_bitsOf _ _).1 hsq').1 _ x hy
    rw [e1] at e2
    have := congrArg Spec.SMove.src (Option.some.inj e2)
    rw [specStep_src, specStep_src] at this
    exact hne this

theorem tag_piece (m : Spec.SMove) (hc : m.castle = Option.none) :
    tag (some m) = match m.kind with
      | .pawn => tag (some m) | .knight => 30 | .king => 40 | .bishop => 50 | .rook => 60 | .queen => 70 := by
  unfold tag
  cases hk : m.kind <;> simp [hk, hc]

/-- all pseudo-legal moves, with no duplicates -/
theorem pseudoLegal_nodup (s : State) (hd : DisjointBoard s.pieces)
    (hep : ∀ e, s.ep = some e → e < 64 ∧ (abs s).at e = Option.none)
    (hking : ∀ side, (s.castle s.turn).forSide side = true →
      (abs s).at (Spec.kingHome (absColor s.turn)) = some (absColor s.turn, Spec.Kind.king))
    (L : List Move) (hL : pseudoLegalMoves s = some L) : (L.map toSpecMove).Nodup := by
  obtain ⟨Lp, hp, hpm, hpn, hpt⟩ := pawnMoves_spec s hd hep
  have e : L = Lp ++ knightMoves (Helper.of s) ++ kingMoves (Helper.of s) ++
      sliderMoves (Helper.of s) .bishop bishopAttacks ++ sliderMoves (Helper.of s) .rook rookAttacks ++
      sliderMoves (Helper.of s) .queen queenAttacks := by
    unfold pseudoLegalMoves at hL
    simp only [hp] at hL
    exact (Option.some.inj hL).symm
  subst e
  have hb : ∀ sq, sq < 64 → ∀ (occ : UInt64) (t : Nat), test (bishopAttacks sq occ) t =
      (Spec.attacksFrom (fun n => test occ n) (absColor s.turn) .bishop sq).contains t :=
    fun sq hsq occ t => C09_bishop sq hsq occ t
  have hr : ∀ sq, sq < 64 → ∀ (occ : UInt64) (t : Nat), test (rookAttacks sq occ) t =
      (Spec.attacksFrom (fun n => test occ n) (absColor s.turn) .rook sq).contains t :=
    fun sq hsq occ t => C09_rook sq hsq occ t
  have hq : ∀ sq, sq < 64 → ∀ (occ : UInt64) (t : Nat), test (queenAttacks sq occ) t =
      (Spec.attacksFrom (fun n => test occ n) (absColor s.turn) .queen sq).contains t :=
    fun sq hsq occ t => C09_queen sq hsq occ t
  have tkn : TagIn ((knightMoves (Helper.of s)).map toSpecMove) 30 31 := by
    apply tagIn_of_const; intro a ha
    obtain ⟨_, _, m, hm, _, rfl⟩ := (mem_knightMoves s hd a).1 ha
    rw [tag_piece m (attrs_pieceMovesFrom hm).2.1, (attrs_pieceMovesFrom hm).1]
  have tks : TagIn ((kingStepList (Helper.of s)).map toSpecMove) 40 41 := by
    apply tagIn_of_const; intro a ha
    obtain ⟨_, _, m, hm, _, rfl⟩ := (mem_kingStepList s hd a).1 ha
    rw [tag_piece m (attrs_pieceMovesFrom hm).2.1, (attrs_pieceMovesFrom hm).1]
  have tca : TagIn ((castleList (Helper.of s)).map toSpecMove) 41 42 := by
    apply tagIn_of_const; intro a ha
    rw [castleList_spec s hd hking] at ha
    obtain ⟨m, hm, rfl⟩ := List.mem_map.1 ha
    obtain ⟨h1, h2, _⟩ := attrs_castleMoves hm
    unfold tag
    cases hc : m.castle with
    | none => exact absurd hc h2
    | some b => simp [h1, hc]
  have tbi : TagIn ((sliderMoves (Helper.of s) .bishop bishopAttacks).map toSpecMove) 50 51 := by
    apply tagIn_of_const; intro a ha
    obtain ⟨_, _, m, hm, _, rfl⟩ := (mem_sliderMoves s hd .bishop .bishop rfl (by decide) bishopAttacks hb a).1 ha
    rw [tag_piece m (attrs_pieceMovesFrom hm).2.1, (attrs_pieceMovesFrom hm).1]
  have tro : TagIn ((sliderMoves (Helper.of s) .rook rookAttacks).map toSpecMove) 60 61 := by
    apply tagIn_of_const; intro a ha
    obtain ⟨_, _, m, hm, _, rfl⟩ := (mem_sliderMoves s hd .rook .rook rfl (by decide) rookAttacks hr a).1 ha
    rw [tag_piece m (attrs_pieceMovesFrom hm).2.1, (attrs_pieceMovesFrom hm).1]
  have tqu : TagIn ((sliderMoves (Helper.of s) .queen queenAttacks).map toSpecMove) 70 71 := by
    apply tagIn_of_const; intro a ha
    obtain ⟨_, _, m, hm, _, rfl⟩ := (mem_sliderMoves s hd .queen .queen rfl (by decide) queenAttacks hq a).1 ha
    rw [tag_piece m (attrs_pieceMovesFrom hm).2.1, (attrs_pieceMovesFrom hm).1]
  have nkn : ((knightMoves (Helper.of s)).map toSpecMove).Nodup := pieceGen_nodup s .knight .knight rfl (by decide) _
  have nks : ((kingStepList (Helper.of s)).map toSpecMove).Nodup := pieceGen_nodup s .king .king rfl (by decide) _
  have nca : ((castleList (Helper.of s)).map toSpecMove).Nodup := by
    rw [castleList_spec s hd hking]; exact map_some_nodup (castleMoves_nodup _ _)
  have nbi : ((sliderMoves (Helper.of s) .bishop bishopAttacks).map toSpecMove).Nodup :=
    pieceGen_nodup s .bishop .bishop rfl (by decide) _
  have nro : ((sliderMoves (Helper.of s) .rook rookAttacks).map toSpecMove).Nodup :=
    pieceGen_nodup s .rook .rook rfl (by decide) _
  have nqu : ((sliderMoves (Helper.of s) .queen queenAttacks).map toSpecMove).Nodup :=
    pieceGen_nodup s .queen .queen rfl (by decide) _
  simp only [List.map_append, kingMoves_eq]
  have h1 := nodup_append_tag ⟨hpn, hpt⟩ ⟨nkn, tagIn_mono tkn (by decide : 24 ≤ 30) (Nat.le_refl _)⟩
    (by decide) (by decide)
  have h2 := nodup_append_tag ⟨nks, tks⟩ ⟨nca, tca⟩ (by decide) (by decide)
  have h3 := nodup_append_tag h1 ⟨h2.1, tagIn_mono h2.2 (by decide : 31 ≤ 40) (Nat.le_refl _)⟩ (by decide) (by decide)
  have h4 := nodup_append_tag h3 ⟨nbi, tagIn_mono tbi (by decide : 42 ≤ 50) (Nat.le_refl _)⟩ (by decide) (by decide)
  have h5 := nodup_append_tag h4 ⟨nro, tagIn_mono tro (by decide : 51 ≤ 60) (Nat.le_refl _)⟩ (by decide) (by decide)
  have h6 := nodup_append_tag h5 ⟨nqu, tagIn_mono tqu (by decide : 61 ≤ 70) (Nat.le_refl _)⟩ (by decide) (by decide)
  exact h6.1

end Wee
