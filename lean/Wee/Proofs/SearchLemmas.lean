import Wee.Model.Search
import Wee.Proofs.TTLemmas
import Wee.Proofs.BoundaryPoll
import Wee.Props.C01
import Wee.Props.C02Closed
/-!
# Search lemmas for property C03 (search only reports legal moves and legal lines)

Contents
1. `runM`, `Keeps`: a small Hoare logic for the search monad `M = ExceptT Stop (StateM St)`.
   `Keeps I Q x` says: from every state whose table satisfies `I`, running `x` ends — with whatever
   outcome, `ok`, `interrupt` or `panic` — in a state whose table satisfies `I`, and an `ok` result
   satisfies `Q`.  Nothing is assumed about what `get`/`find` return (beyond `I`), nor about the rng,
   the node counter, the poll counter or the cancellation instant.
2. `nodeBody`: the body of `searchNode` with the recursive call abstracted (`searchNode_zero`,
   `searchNode_succ` are `rfl`; Lean cannot generate the equation lemma of `searchNode` itself).
3. `LegalIn`, `Region` (closed set of legal positions), `Graded`/`upTo`/`Plies` (its depth-graded refinement),
   what `try_as_legal_move` returning a move means.
4. the generic state-invariant theorem `searchNode_keeps_graded` (and `searchNode_keeps` for a region): every
   table invariant that is kept by "insert, under the key of a position of the region, an entry whose move is
   legal there" is kept by `searchNode` — for every remaining depth, window, rng state, cancellation instant,
   history.
5. `CollisionFree`, `TTInv`, `TTWf`, `TTInv_insert`, `TTInv_new`.
6. `LineLegal`, `walkLine_legal_graded`, `walkLine_legal`.
7. the iteration driver: `runWorker`, `runWorkers`, `iterStep`, `iterLoop` (depth-graded).
8. `iterate`: `iterate_inv_graded`, `iterate_inv`; the first iteration reports a line if the root entry is kept.
-/
namespace Wee.Search
open Wee
open Wee.C10 (DisjointBoard)

/-! ## 1. running the monad; the invariant logic -/

/-- run a search computation from a state: the result (value, `interrupt` or `panic`) and the final
state.  `runWorker` is `runM (searchNode …) {tt, rng, nodes := 0, polls}` by definition. -/
def runM {α} (x : M α) (st : St) : Except Stop α × St := (ExceptT.run x).run st

theorem runM_pure {α} (a : α) (st : St) : runM (pure a : M α) st = (.ok a, st) := rfl
theorem runM_throw {α} (e : Stop) (st : St) : runM (throw e : M α) st = (.error e, st) := rfl
theorem runM_get (st : St) : runM (get : M St) st = (.ok st, st) := rfl
theorem runM_set (s' st : St) : runM (set s' : M PUnit) st = (.ok ⟨⟩, s') := rfl
theorem runM_modify (f : St → St) (st : St) : runM (modify f : M PUnit) st = (.ok ⟨⟩, f st) := rfl
theorem runM_bind {α β} (x : M α) (f : α → M β) (st : St) :
    runM (x >>= f) st = match runM x st with
      | (.ok a, st') => runM (f a) st'
      | (.error e, st') => (.error e, st') := by
  unfold runM
  show (ExceptT.run (ExceptT.bind x f)).run st = _
  simp only [ExceptT.run, ExceptT.bind, ExceptT.mk, ExceptT.bindCont, StateT.run, bind, StateT.bind]
  rcases x st with ⟨r, st'⟩
  cases r <;> rfl

/-- `x` keeps the table invariant `I` whatever its outcome, and its `ok` results satisfy `Q` -/
def Keeps (I : TT.Access → Prop) {α} (Q : α → Prop) (x : M α) : Prop :=
  ∀ st, I st.tt → I (runM x st).2.tt ∧ ∀ v, (runM x st).1 = .ok v → Q v

section rules
variable {I : TT.Access → Prop} {α β : Type}

theorem keeps_pure {Q : α → Prop} (a : α) (h : Q a) : Keeps I Q (pure a) := by
  intro st hst; rw [runM_pure]; exact ⟨hst, fun v hv => by cases hv; exact h⟩

theorem keeps_throw {Q : α → Prop} (e : Stop) : Keeps I Q (throw e) := by
  intro st hst; rw [runM_throw]; exact ⟨hst, fun v hv => by cases hv⟩

theorem keeps_bind {Q : α → Prop} {R : β → Prop} {x : M α} {f : α → M β}
    (hx : Keeps I Q x) (hf : ∀ a, Q a → Keeps I R (f a)) : Keeps I R (x >>= f) := by
  intro st hst
  rw [runM_bind]
  obtain ⟨h1, h2⟩ := hx st hst
  rcases hr : runM x st with ⟨r, st'⟩
  rw [hr] at h1 h2
  cases r with
  | error e => exact ⟨h1, fun v hv => by cases hv⟩
  | ok a => exact hf a (h2 a rfl) st' h1

theorem keeps_mono {Q Q' : α → Prop} {x : M α} (h : Keeps I Q x) (hq : ∀ a, Q a → Q' a) : Keeps I Q' x :=
  fun st hst => ⟨(h st hst).1, fun v hv => hq v ((h st hst).2 v hv)⟩

/-- whatever `get` returns is only known to satisfy the invariant -/
theorem keeps_get_bind {R : β → Prop} {f : St → M β} (hf : ∀ st, I st.tt → Keeps I R (f st)) :
    Keeps I R (get >>= f) := by
  intro st hst; rw [runM_bind, runM_get]; exact hf st hst st hst

theorem keeps_set_bind {R : β → Prop} {s' : St} {f : PUnit → M β} (h : I s'.tt) (hf : ∀ u, Keeps I R (f u)) :
    Keeps I R (set s' >>= f) := by
  intro st hst; rw [runM_bind, runM_set]; exact hf _ s' h

theorem keeps_modify_bind {R : β → Prop} {g : St → St} {f : PUnit → M β} (h : ∀ st, I st.tt → I (g st).tt)
    (hf : ∀ u, Keeps I R (f u)) : Keeps I R (modify g >>= f) := by
  intro st hst; rw [runM_bind, runM_modify]; exact hf _ (g st) (h st hst)

theorem keeps_throw_bind {R : β → Prop} {e : Stop} {f : α → M β} : Keeps I R ((throw e : M α) >>= f) := by
  intro st hst; rw [runM_bind, runM_throw]; exact ⟨hst, fun v hv => by cases hv⟩

theorem keeps_mapM {γ : Type} {Q : β → Prop} (g : γ → M β) :
    ∀ (xs : List γ), (∀ x ∈ xs, Keeps I Q (g x)) → Keeps I (fun ys => ∀ y ∈ ys, Q y) (xs.mapM g) := by
  intro xs
  induction xs with
  | nil => intro _; rw [List.mapM_nil]; exact keeps_pure _ (fun y hy => by cases hy)
  | cons x xs ih =>
    intro h
    rw [List.mapM_cons]
    refine keeps_bind (h x List.mem_cons_self) (fun b hb => ?_)
    refine keeps_bind (ih (fun x' hx' => h x' (List.mem_cons_of_mem _ hx'))) (fun bs hbs => ?_)
    refine keeps_pure _ (fun y hy => ?_)
    rcases List.mem_cons.1 hy with rfl | hy
    · exact hb
    · exact hbs y hy

/-- `rng.gen_range(-10..=10)`: touches only the rng -/
theorem keeps_jitter : Keeps I (fun _ => True) jitter := by
  unfold jitter
  refine keeps_get_bind (fun st hst => ?_)
  split
  exact keeps_set_bind hst (fun _ => keeps_pure _ trivial)

/-- `sort_by_cached_key` with a key function that keeps the invariant: the result has the same
members (only this is needed) -/
theorem keeps_sortByCachedKey {γ : Type} (xs : List γ) (key : γ → M Eval) (hkey : ∀ x, Keeps I (fun _ => True) (key x)) :
    Keeps I (fun ys => ∀ y ∈ ys, y ∈ xs) (sortByCachedKey xs key) := by
  unfold sortByCachedKey
  split
  · exact keeps_pure _ (fun y hy => hy)
  · refine keeps_bind (keeps_mapM (Q := fun p : Eval × γ => p.2 ∈ xs) _ xs (fun x hx => ?_)) (fun keyed hk => ?_)
    · exact keeps_bind (hkey x) (fun k _ => keeps_pure _ hx)
    · refine keeps_pure _ (fun y hy => ?_)
      obtain ⟨p, hp, rfl⟩ := List.mem_map.1 hy
      exact hk p ((List.mem_mergeSort).1 hp)

end rules

/-! ## 2. the body of `searchNode` -/

/-- the body of `searchNode` (same text), the recursion abstracted: `child = none` is remaining depth
0 (quiescence), `child = some ch` is remaining depth `rem' + 1` with `ch = searchNode ctx rem'` -/
def nodeBody (ctx : Ctx) (child : Option (NodeArgs → M Eval)) (a : NodeArgs) : M Eval := do
    modify fun st => { st with nodes := st.nodes + 1 }
    let st ← get
    if st.nodes % Gen.pollInterval == 0 then
      let cancelled := match ctx.cancelAt with | some k => decide (st.polls ≥ k) | Option.none => false
      set { st with polls := st.polls + 1 }
      if cancelled then throw .interrupt
    let hash := Wee.hash ctx.keys a.s
    if a.curDepth > 0 && ctx.history.contains hash then return 0
    let mut alpha := a.alpha
    let mut beta := a.beta
    match (← get).tt.find hash.toNat with
    | some e =>
      if a.maxDepth < a.curDepth ∨ e.maxDepth < e.depth then throw (.panic "usize subtraction underflow")
      if e.maxDepth - e.depth ≥ a.maxDepth - a.curDepth then
        if e.kind == kindExact then return e.eval
        else if e.kind == kindUpper then beta := min beta e.eval
        else alpha := max alpha e.eval
        if alpha ≥ beta then return e.eval
    | Option.none => pure ()
    match child with
    | Option.none =>
      match quiesce evaluate (quiesceFuel a.s) a.s a.curDepth alpha beta with
      | .ok v => return v
      | .error e => throw e
    | some ch =>
      match pseudoLegalMoves a.s with
      | Option.none => throw (.panic "move generation: Square::offset(..).unwrap()")
      | some pseudo =>
        let sorted ← sortByCachedKey pseudo fun mv => do
          let j ← jitter
          pure (estimate a.s mv + j)
        let buffer := match a.prioritized with | some m => sorted ++ [m] | Option.none => sorted
        let before := (← get).nodes
        let a' := { a with alpha := alpha, beta := beta }
        match ← childLoop ctx ch a' hash buffer.reverse alpha Option.none kindUpper with
        | .error b => return b
        | .ok (alpha', best, kind) =>
          if (← get).nodes == before then
            match evaluate a.s a.s.turn a.curDepth with
            | some e => return e
            | Option.none => throw (.panic "evaluate: no king")
          match best with
          | some m =>
            let e : TT.Entry := { kind := kind, mv := m.toNat, depth := a.curDepth, maxDepth := a.maxDepth, eval := alpha' }
            modify fun st => { st with tt := st.tt.insert hash.toNat e }
          | Option.none => pure ()
          return alpha'

theorem searchNode_zero (ctx : Ctx) (a : NodeArgs) : searchNode ctx 0 a = nodeBody ctx none a := rfl
theorem searchNode_succ (ctx : Ctx) (r : Nat) (a : NodeArgs) :
    searchNode ctx (r+1) a = nodeBody ctx (some (searchNode ctx r)) a := rfl

/-! ## 3. legality -/

/-- `mv` is one of the moves `MoveGenerator::compute_legal_moves` lists for `s`.  By C01 (for a legal
position) that is: `mv`, read through all its accessors, is a legal move of the rules of chess. -/
def LegalIn (s : State) (mv : Move) : Prop := ∃ r ∈ legalMoves s, r.1 = mv

/-- a set of positions the searches stay in: only legal positions without stacked pieces, closed
under the engine's legal moves (e.g. everything reachable from the roots of the searches considered) -/
structure Region (R : State → Prop) : Prop where
  good : ∀ s, R s → LegalPos s = true ∧ DisjointBoard s.pieces
  closed : ∀ s, R s → ∀ r ∈ legalMoves s, R r.2

/-- the legal positions without stacked pieces are such a set (C02_closed) -/
theorem Region.legal : Region (fun s => LegalPos s = true ∧ DisjointBoard s.pieces) :=
  ⟨fun _ h => h, fun s h r hr => ⟨C02_closed s h.1 h.2 r hr, (C02_successor_invariants s h.1 h.2 r hr).1⟩⟩

/-- the positions reachable from a set of roots by legal moves -/
inductive Reach (Roots : State → Prop) : State → Prop
  | root (s) : Roots s → Reach Roots s
  | step (s r) : Reach Roots s → r ∈ legalMoves s → Reach Roots r.2

theorem Region.reach (Roots : State → Prop) (h : ∀ s, Roots s → LegalPos s = true ∧ DisjointBoard s.pieces) :
    Region (Reach Roots) := by
  refine ⟨?_, fun s hs r hr => Reach.step s r hs hr⟩
  intro s hs
  induction hs with
  | root s h0 => exact h s h0
  | step s r _ hr ih => exact ⟨C02_closed s ih.1 ih.2 r hr, (C02_successor_invariants s ih.1 ih.2 r hr).1⟩

/-- a depth-graded family of positions: `G n` = the positions the searches may meet `n` plies below a root.
Only legal positions without stacked pieces; a listed legal move leads from grade `n` to grade `n + 1`.
The search of a root to depth `d` consults the table only for positions of grade `≤ d`, so the hypotheses about
hashes and stored moves are needed for `upTo G d` only — a set that is finite (up to the move counters) and, for
practical depths, far smaller than `2^64`. -/
structure Graded (G : Nat → State → Prop) : Prop where
  good : ∀ n s, G n s → LegalPos s = true ∧ DisjointBoard s.pieces
  step : ∀ n s, G n s → ∀ r ∈ legalMoves s, G (n + 1) r.2

/-- the positions of grade at most `D` -/
def upTo (G : Nat → State → Prop) (D : Nat) (s : State) : Prop := ∃ n, n ≤ D ∧ G n s

/-- a region is a graded family (every grade the same set) -/
theorem Region.graded {R : State → Prop} (hR : Region R) : Graded (fun _ => R) :=
  ⟨fun _ s h => hR.good s h, fun _ s h r hr => hR.closed s h r hr⟩

theorem upTo_const {R : State → Prop} (D : Nat) (s : State) : upTo (fun _ => R) D s ↔ R s :=
  ⟨fun ⟨_, _, h⟩ => h, fun h => ⟨0, Nat.zero_le _, h⟩⟩

/-- the positions exactly `n` listed legal moves below one of the roots -/
inductive Plies (Roots : State → Prop) : Nat → State → Prop
  | root (s) : Roots s → Plies Roots 0 s
  | step (n s r) : Plies Roots n s → r ∈ legalMoves s → Plies Roots (n + 1) r.2

theorem Graded.plies (Roots : State → Prop) (h : ∀ s, Roots s → LegalPos s = true ∧ DisjointBoard s.pieces) :
    Graded (Plies Roots) := by
  refine ⟨?_, fun n s hs r hr => Plies.step n s r hs hr⟩
  intro n s hs
  induction hs with
  | root s h0 => exact h s h0
  | step n s r _ hr ih => exact ⟨C02_closed s ih.1 ih.2 r hr, (C02_successor_invariants s ih.1 ih.2 r hr).1⟩

theorem mapM_some_all {α β : Type} (f : α → Option β) : ∀ (l : List α) (rs : List β), l.mapM f = some rs →
    ∀ x ∈ l, ∃ y ∈ rs, f x = some y := by
  intro l
  induction l with
  | nil => intro rs _ x hx; cases hx
  | cons a t ih =>
    intro rs h x hx
    rw [List.mapM_cons] at h
    cases hfa : f a with
    | none => rw [hfa] at h; cases h
    | some b =>
      rw [hfa] at h
      cases ht : t.mapM f with
      | none => rw [ht] at h; cases h
      | some bs =>
        rw [ht] at h
        simp only [Option.bind_eq_bind, Option.bind_some, Option.pure_def, Option.some.injEq] at h
        subst h
        rcases List.mem_cons.1 hx with rfl | hx
        · exact ⟨b, List.mem_cons_self, hfa⟩
        · obtain ⟨y, hy, hfy⟩ := ih bs ht x hx
          exact ⟨y, List.mem_cons_of_mem _ hy, hfy⟩

/-- if move generation does not panic in `s`, a pseudo-legal move that `try_as_legal_move` accepts is
an entry of the legal-move list -/
theorem tryAsLegal_mem_of_pseudo {s : State} {L : List (Move × State)} (hL : legalMoves? s = some L)
    {ps : List Move} (hps : pseudoLegalMoves s = some ps) {mv : Move} (hmv : mv ∈ ps) {r : Move × State}
    (h : tryAsLegal s mv = some (some r)) : r ∈ legalMoves s := by
  have hLe : legalMoves s = L := by unfold legalMoves; rw [hL]; rfl
  rw [hLe]
  unfold legalMoves? at hL
  rw [hps] at hL
  simp only [Option.bind_eq_bind, Option.bind_some, Option.pure_def] at hL
  cases hrs : ps.mapM (tryAsLegal s) with
  | none => rw [hrs] at hL; simp at hL
  | some rs =>
    rw [hrs] at hL
    simp only [Option.bind_some, Option.some.injEq] at hL
    subst hL
    obtain ⟨y, hy, hfy⟩ := mapM_some_all _ _ _ hrs mv hmv
    rw [h] at hfy
    cases hfy
    exact List.mem_filterMap.2 ⟨some r, hy, rfl⟩

theorem tryAsLegal_perform {s : State} {mv : Move} {r : Move × State} (h : tryAsLegal s mv = some (some r)) :
    r.1 = mv ∧ performMove s mv = some (.ok r.2) := by
  refine ⟨tryAsLegal_fst s mv r h, ?_⟩
  unfold tryAsLegal at h
  cases hpm : performMove s mv with
  | none => rw [hpm] at h; cases h
  | some res =>
    cases res with
    | error e => rw [hpm] at h; cases h
    | ok next =>
      rw [hpm] at h
      simp only [] at h
      split at h
      · simp only [Option.some.injEq] at h; subst h; rfl
      · cases h

/-- a move that is in the legal-move list and that `try_as_legal_move` accepts is accepted with the
listed successor (make-move is a function) -/
theorem tryAsLegal_mem_of_legal {s : State} {mv : Move} (hmv : LegalIn s mv) {r : Move × State}
    (h : tryAsLegal s mv = some (some r)) : r ∈ legalMoves s := by
  obtain ⟨r', hr', rfl⟩ := hmv
  obtain ⟨h1, h2⟩ := tryAsLegal_perform h
  have h3 := C02.mem_legalMoves hr'
  rw [h2] at h3
  simp only [Option.some.injEq, Except.ok.injEq] at h3
  have : r = r' := Prod.ext h1 h3
  rw [this]; exact hr'

/-! ## 4. the generic invariant theorem -/

/-- the only kind of table write the search performs at a node of position `s`: under the key
`hash K s`, an entry whose move field is a legal move of `s` (all other fields arbitrary) -/
def InsOK (I : TT.Access → Prop) (K : Keys) (s : State) : Prop :=
  ∀ (tt : TT.Access) (m : Move) (e : TT.Entry), I tt → LegalIn s m → e.mv = m.toNat →
    I (tt.insert (hash K s).toNat e)

section generic
variable {I : TT.Access → Prop}

/-- the move loop: if every buffered move that passes `try_as_legal_move` is a listed legal move, the
recursive call keeps `I` on listed successors, and legal inserts at this node keep `I`, then the loop
keeps `I`, and the best move it hands back (if any) is a legal move of `a.s`. -/
theorem childLoop_keeps (ctx : Ctx) (child : NodeArgs → M Eval) (a : NodeArgs)
    (hins : InsOK I ctx.keys a.s)
    (hchild : ∀ a' : NodeArgs, (∃ m, (m, a'.s) ∈ legalMoves a.s) → a'.prioritized = Option.none →
      Keeps I (fun _ => True) (child a')) :
    ∀ (buf : List Move) (alpha : Eval) (best : Option Move) (kind : Nat),
      (∀ mv ∈ buf, ∀ r, tryAsLegal a.s mv = some (some r) → r ∈ legalMoves a.s) →
      (∀ m, best = some m → LegalIn a.s m) →
      Keeps I (fun res => ∀ al b k, res = Except.ok (al, b, k) → ∀ m, b = some m → LegalIn a.s m)
        (childLoop ctx child a (hash ctx.keys a.s) buf alpha best kind) := by
  intro buf
  induction buf with
  | nil =>
    intro alpha best kind _ hbest
    rw [childLoop]
    refine keeps_pure _ ?_
    intro al b k h m hm
    cases h
    exact hbest m hm
  | cons mv rest ih =>
    intro alpha best kind hbuf hbest
    have hrest : ∀ mv ∈ rest, ∀ r, tryAsLegal a.s mv = some (some r) → r ∈ legalMoves a.s :=
      fun mv' h' => hbuf mv' (List.mem_cons_of_mem _ h')
    rw [childLoop]
    split
    · exact keeps_throw _
    · exact ih alpha best kind hrest hbest
    · rename_i m next htry
      have hmem : (m, next) ∈ legalMoves a.s := hbuf mv List.mem_cons_self _ htry
      have hleg : LegalIn a.s m := ⟨(m, next), hmem, rfl⟩
      refine keeps_bind (hchild _ ⟨m, hmem⟩ rfl) (fun v _ => ?_)
      dsimp only
      split
      · refine keeps_modify_bind (fun st hst => hins st.tt m _ hst hleg rfl) (fun _ => ?_)
        refine keeps_pure _ ?_
        intro al b k h; cases h
      · split
        · refine ih _ _ _ hrest ?_
          intro m' hm'; cases hm'; exact hleg
        · exact ih _ _ _ hrest hbest

/-- one node: given the two facts about its position (`legalMoves?` does not panic; legal inserts keep
`I`), a legal-or-absent prioritized move, and the invariant for the recursive call on listed
successors, the whole body keeps `I` — whatever the table returns, whatever the rng, the counters,
the cancellation instant, the history, the window. -/
theorem nodeBody_keeps (ctx : Ctx) (child : Option (NodeArgs → M Eval)) (a : NodeArgs)
    (hgen : ∃ L, legalMoves? a.s = some L)
    (hins : InsOK I ctx.keys a.s)
    (hprio : ∀ m, a.prioritized = some m → LegalIn a.s m)
    (hchild : ∀ ch, child = some ch → ∀ a' : NodeArgs, (∃ m, (m, a'.s) ∈ legalMoves a.s) →
      a'.prioritized = Option.none → Keeps I (fun _ => True) (ch a')) :
    Keeps I (fun _ => True) (nodeBody ctx child a) := by
  unfold nodeBody
  refine keeps_modify_bind (fun st hst => hst) (fun _ => ?_)
  refine keeps_get_bind (fun st hst => ?_)
  extract_lets hash alpha0 beta0 jpMain jpPoll cancelled
  have hMain : ∀ u al be, Keeps I (fun _ => True) (jpMain u al be) := by
    intro u al be
    dsimp only [jpMain]
    split
    · split
      · exact keeps_pure _ trivial
      · exact keeps_throw _
    · rename_i ch
      split
      · exact keeps_throw _
      · rename_i pseudo hps
        refine keeps_bind (keeps_sortByCachedKey _ _
          (fun mv => keeps_bind keeps_jitter (fun _ _ => keeps_pure _ trivial))) (fun sorted hsorted => ?_)
        refine keeps_get_bind (fun st2 hst2 => ?_)
        have hbuf : ∀ mv ∈ (match a.prioritized with | some m => sorted ++ [m] | Option.none => sorted).reverse,
            ∀ r, tryAsLegal a.s mv = some (some r) → r ∈ legalMoves a.s := by
          intro mv hmv r hr
          rw [List.mem_reverse] at hmv
          obtain ⟨L, hL⟩ := hgen
          have hp : mv ∈ sorted → r ∈ legalMoves a.s :=
            fun h => tryAsLegal_mem_of_pseudo hL hps (hsorted mv h) hr
          cases hpr : a.prioritized with
          | none => rw [hpr] at hmv; exact hp hmv
          | some m =>
            rw [hpr] at hmv
            rcases List.mem_append.1 hmv with h | h
            · exact hp h
            · rw [List.mem_singleton] at h; subst h
              exact tryAsLegal_mem_of_legal (hprio mv hpr) hr
        refine keeps_bind (childLoop_keeps ctx ch
          { s := a.s, maxDepth := a.maxDepth, curDepth := a.curDepth, curExt := a.curExt, alpha := al,
            beta := be, prioritized := a.prioritized } hins (hchild ch rfl) _ al Option.none kindUpper hbuf
            (by intro m h; cases h)) (fun res hres => ?_)
        split
        · exact keeps_pure _ trivial
        · rename_i alpha' best kind
          refine keeps_get_bind (fun st3 hst3 => ?_)
          split
          · split
            · exact keeps_pure _ trivial
            · exact keeps_throw_bind
          · split
            · rename_i m
              exact keeps_modify_bind (fun st4 hst4 => hins st4.tt m _ hst4 (hres _ _ _ rfl m rfl) rfl)
                (fun _ => keeps_pure _ trivial)
            · exact keeps_pure _ trivial
  have hPoll : ∀ u, Keeps I (fun _ => True) (jpPoll u) := by
    intro u
    dsimp only [jpPoll]
    split
    · exact keeps_pure _ trivial
    · refine keeps_get_bind (fun st2 hst2 => ?_)
      split
      · split
        · exact keeps_throw_bind
        · skip
          split
          · split
            · exact keeps_pure _ trivial
            · split
              · split
                · exact keeps_pure _ trivial
                · exact hMain () _ _
              · split
                · exact keeps_pure _ trivial
                · exact hMain () _ _
          · exact hMain () _ _
      · exact hMain () _ _
  split
  · refine keeps_set_bind hst (fun _ => ?_)
    split
    · exact keeps_throw_bind
    · exact hPoll ()
  · exact hPoll ()

/-- **Generic state-invariant theorem for `analyze_recursive`** (depth-graded form).  Let `G` be a graded family
and `I` any property of the shared table that is kept by every insert, under the key of a position `s` of grade
`≤ D`, of an entry whose move is legal in `s`.  Then `searchNode` with remaining depth `rem`, started in a
position of grade `k` with `k + rem ≤ D` and a prioritized move that is absent or legal, keeps `I` — for every
window, history, cancellation instant (`ctx`), from every state (rng, counters, table contents satisfying `I`),
and whatever the outcome (`ok`, `interrupt`, `panic`).  (Quiescence goes deeper but never touches the table.) -/
theorem searchNode_keeps_graded {G : Nat → State → Prop} (hG : Graded G) (D : Nat) (ctx : Ctx)
    (hins : ∀ s, upTo G D s → InsOK I ctx.keys s) :
    ∀ (rem : Nat) (a : NodeArgs) (k : Nat), G k a.s → k + rem ≤ D →
      (∀ m, a.prioritized = some m → LegalIn a.s m) → Keeps I (fun _ => True) (searchNode ctx rem a) := by
  intro rem
  induction rem with
  | zero =>
    intro a k ha hk hprio
    rw [searchNode_zero]
    obtain ⟨hl, hd⟩ := hG.good _ _ ha
    exact nodeBody_keeps ctx Option.none a (C01_legal_results a.s hl hd).1 (hins _ ⟨k, by omega, ha⟩) hprio
      (fun ch h => by cases h)
  | succ r ih =>
    intro a k ha hk hprio
    rw [searchNode_succ]
    obtain ⟨hl, hd⟩ := hG.good _ _ ha
    refine nodeBody_keeps ctx _ a (C01_legal_results a.s hl hd).1 (hins _ ⟨k, by omega, ha⟩) hprio ?_
    intro ch hch a' ⟨m, hm⟩ hp
    cases hch
    exact ih a' (k + 1) (hG.step _ _ ha _ hm) (by omega) (fun m' h' => by rw [hp] at h'; cases h')

/-- **Generic state-invariant theorem for `analyze_recursive`.**  Let `R` be a region (legal
positions, closed under legal moves) and `I` any property of the shared table that is kept by every
insert, under the key of a position `s ∈ R`, of an entry whose move is legal in `s`.  Then
`searchNode` started in a position of `R` with a prioritized move that is absent or legal keeps `I`
— for every remaining depth, every window, every history, every cancellation instant (`ctx`), from
every state (rng, counters, table contents satisfying `I`), and whatever the outcome (`ok`,
`interrupt`, `panic`). -/
theorem searchNode_keeps {R : State → Prop} (hR : Region R) (ctx : Ctx)
    (hins : ∀ s, R s → InsOK I ctx.keys s) :
    ∀ (rem : Nat) (a : NodeArgs), R a.s → (∀ m, a.prioritized = some m → LegalIn a.s m) →
      Keeps I (fun _ => True) (searchNode ctx rem a) :=
  fun rem a ha hprio => searchNode_keeps_graded hR.graded rem ctx
    (fun s hs => hins s ((upTo_const rem s).1 hs)) rem a 0 ha (by omega) hprio

end generic

/-! ## 5. the table invariant -/

/-- a move survives being stored as `performed_move.as_raw()` and read back -/
theorem move_roundtrip (m : Move) : m.toNat.toUInt32 = m := by
  simp [Nat.toUInt32]

/-- **Collision freedom on a region** — the precise content of "up to 64-bit chance": two positions of `R` with
the same hash have the same legal moves.  Only membership of moves is compared (`LegalIn`), not the listed
successors: those carry the halfmove/fullmove counters, which are not hashed, so "equal hashes ⇒ equal
`legalMoves`" would be false for every key table.  The hypothesis is relative to a set `R` of positions because
over all values of `State` it is unsatisfiable by counting (more than `2^64` legal positions with pairwise
different legal-move sets); on a set with fewer than `2^64` classes it holds for every hasher that is injective
there (a concrete instance is `c03_collisionFree` in `Wee/Props/C03.lean`). -/
def CollisionFree (K : Keys) (R : State → Prop) : Prop :=
  ∀ s s', R s → R s' → hash K s = hash K s' → ∀ mv, LegalIn s mv → LegalIn s' mv

/-- **The table invariant**: every entry the table returns for a key `k` holds a move that is legal in every
position of `R` whose hash is `k` (`e.mv` is `performed_move.as_raw()`; `toUInt32` reads it back) -/
def TTInv (K : Keys) (R : State → Prop) (tt : TT.Access) : Prop :=
  ∀ k e, tt.find k = some e → ∀ s, R s → (hash K s).toNat = k → LegalIn s e.mv.toUInt32

/-- the table has the shape of a reachable table (`TT.AInv` of `Wee/Proofs/TTLemmas.lean` for some numbers
`nT ≥ 1`, `nB ≥ 1` of sub-tables and buckets): this is what the C15 lemmas about `find` after `insert` need.
Every table made by `Access.new` and changed by `insert` only satisfies it (`TTWf.new`, `TTWf.insert`). -/
def TTWf (tt : TT.Access) : Prop := ∃ nT nB, 0 < nT ∧ 0 < nB ∧ TT.AInv Gen.bucketSize nT nB tt

theorem TTWf.new {nT nB : Nat} (hT : 0 < nT) (hB : 0 < nB) : TTWf (TT.Access.new nT nB) :=
  ⟨nT, nB, hT, hB, TT.AInv.new nT nB⟩

theorem TTWf.insert {tt : TT.Access} (h : TTWf tt) (k : Nat) (e : TT.Entry) : TTWf (tt.insert k e) := by
  obtain ⟨nT, nB, hT, hB, hinv⟩ := h
  exact ⟨nT, nB, hT, hB, hinv.insert (by decide) hT hB k e⟩

/-- a fresh table stores nothing -/
theorem TTInv_new (K : Keys) (R : State → Prop) {nT nB : Nat} (hT : 0 < nT) (hB : 0 < nB) :
    TTInv K R (TT.Access.new nT nB) := by
  intro k e h
  rw [TT.Access.new_find hT hB] at h
  cases h

/-- **`TTInv` is kept by ANY single insert of a move that is legal in a position of `R`, keyed by the hash of that
position** — whoever performs it and whatever the table held: the new entry is found under its key (all
positions of `R` with that hash have the same legal moves), every other key returns what it returned before or
nothing (C15). -/
theorem TTInv_insert {K : Keys} {R : State → Prop} {tt : TT.Access} (hcf : CollisionFree K R) (hwf : TTWf tt)
    (hinv : TTInv K R tt) (s : State) (hs : R s) (m : Move) (hm : LegalIn s m) (e : TT.Entry)
    (he : e.mv = m.toNat) : TTInv K R (tt.insert (hash K s).toNat e) := by
  obtain ⟨nT, nB, hT, hB, ha⟩ := hwf
  intro k e' hfind s' hs' hk
  by_cases hkk : k = (hash K s).toNat
  · subst hkk
    rw [ha.find_insert_self (by decide) hT hB] at hfind
    cases hfind
    have hh : hash K s = hash K s' := (UInt64.toNat_inj.1 hk).symm
    rw [he, move_roundtrip]
    exact hcf s s' hs hs' hh m hm
  · rcases ha.find_insert_other (by decide) hT hB (hash K s).toNat e k hkk with h | h
    · rw [h] at hfind; cases hfind
    · rw [h] at hfind
      exact hinv k e' hfind s' hs' hk

/-! ## 6. the walked line -/

/-- a legal line from `s`: the first move is in the legal-move list of `s`, the rest is a legal line from the
listed successor -/
def LineLegal : State → List Move → Prop
  | _, [] => True
  | s, m :: ms => ∃ r ∈ legalMoves s, r.1 = m ∧ LineLegal r.2 ms

/-- the line `iter_moves` rebuilds from a table satisfying `TTInv` on the grades `≤ D` is legal, as long as the
walk stays within these grades (C, depth-graded form) -/
theorem walkLine_legal_graded {K : Keys} {G : Nat → State → Prop} {tt : TT.Access} (hG : Graded G) (D : Nat)
    (hinv : TTInv K (upTo G D) tt) :
    ∀ (n : Nat) (s : State) (k : Nat), G k s → k + n ≤ D + 1 → LineLegal s (walkLine K tt n s)
  | 0, _, _, _, _ => trivial
  | n+1, s, k, hs, hk => by
    rw [walkLine]
    split
    · trivial
    · rename_i e hf
      obtain ⟨r, hr, hrm⟩ := hinv _ e hf s ⟨k, by omega, hs⟩ rfl
      have hp := C02.mem_legalMoves hr
      rw [hrm] at hp
      rw [hp]
      exact ⟨r, hr, hrm, walkLine_legal_graded hG D hinv n r.2 (k + 1) (hG.step _ _ hs r hr) (by omega)⟩

theorem TTInv.congr {K : Keys} {U U' : State → Prop} {tt : TT.Access} (h : ∀ s, U' s → U s)
    (hinv : TTInv K U tt) : TTInv K U' tt :=
  fun k e hf s hs hk => hinv k e hf s (h s hs) hk

theorem CollisionFree.congr {K : Keys} {U U' : State → Prop} (h : ∀ s, U' s → U s)
    (hcf : CollisionFree K U) : CollisionFree K U' :=
  fun s s' hs hs' hh mv hmv => hcf s s' (h s hs) (h s' hs') hh mv hmv

/-- the line `iter_moves` rebuilds from a table satisfying `TTInv` is legal (C) -/
theorem walkLine_legal {K : Keys} {R : State → Prop} {tt : TT.Access} (hR : Region R) (hinv : TTInv K R tt)
    (n : Nat) (s : State) (hs : R s) : LineLegal s (walkLine K tt n s) :=
  walkLine_legal_graded hR.graded n (hinv.congr (fun s h => (upTo_const n s).1 h)) n s 0 hs (by omega)

/-- if the position's entry is in the table (and the table satisfies `TTInv`) the walked line is not empty -/
theorem walkLine_ne_nil {K : Keys} {R : State → Prop} {tt : TT.Access} (hinv : TTInv K R tt)
    (n : Nat) (s : State) (hs : R s) (e : TT.Entry) (hf : tt.find (hash K s).toNat = some e) :
    walkLine K tt (n+1) s ≠ [] := by
  rw [walkLine, hf]
  obtain ⟨r, hr, hrm⟩ := hinv _ e hf s hs rfl
  have hp := C02.mem_legalMoves hr
  rw [hrm] at hp
  simp only [hp]
  exact List.cons_ne_nil _ _

theorem LineLegal.head {s : State} {m : Move} {ms : List Move} (h : LineLegal s (m :: ms)) : LegalIn s m := by
  obtain ⟨r, hr, hrm, _⟩ := h
  exact ⟨r, hr, hrm⟩

/-! ## 7. iteration driver -/

/-- the table invariant carried through the search: shape well-formedness and `TTInv` -/
def TInv (K : Keys) (R : State → Prop) (tt : TT.Access) : Prop := TTWf tt ∧ TTInv K R tt

theorem TInv.congr {K : Keys} {U U' : State → Prop} {tt : TT.Access} (h : ∀ s, U' s → U s)
    (hinv : TInv K U tt) : TInv K U' tt := ⟨hinv.1, hinv.2.congr h⟩

theorem insOK_TInv {K : Keys} {R : State → Prop} (hcf : CollisionFree K R) (s : State) (hs : R s) :
    InsOK (TInv K R) K s := by
  intro tt m e ⟨hwf, hinv⟩ hm he
  exact ⟨hwf.insert _ _, TTInv_insert hcf hwf hinv s hs m hm e he⟩

/-- the arguments of the root call made by a worker -/
def rootArgs (root : State) (sd : Nat) (best : Option Move) : NodeArgs :=
  { s := root, maxDepth := sd, curDepth := 0, curExt := 0,
    alpha := - Ev.mateInPly 0, beta := Ev.mateInPly 0, prioritized := best }

theorem runWorker_eq (ctx : Ctx) (root : State) (sd : Nat) (best : Option Move) (tt : TT.Access)
    (rng : Rng.ChaCha8) (polls : Nat) :
    runWorker ctx root sd best tt rng polls =
      runM (searchNode ctx sd (rootArgs root sd best)) { tt := tt, rng := rng, nodes := 0, polls := polls } := rfl

/-- invariant of the iterative-deepening loop: table invariant, the remembered best move is absent
or legal in the root, every reported line is non-empty and legal from the root -/
structure IterInv (K : Keys) (R : State → Prop) (root : State) (st : IterSt) : Prop where
  tt : TInv K R st.tt
  best : ∀ m, st.bestMv = some m → LegalIn root m
  events : ∀ ev line, Event.best ev line ∈ st.events → line ≠ [] ∧ LineLegal root line

/-- the boundary read of the flag touches none of the fields the invariant speaks about -/
theorem IterInv.boundaryPoll {K : Keys} {R : State → Prop} {root : State} {st : IterSt} (ctx : Ctx) (depth : Nat)
    (h : IterInv K R root st) : IterInv K R root (boundaryPoll ctx depth st) :=
  ⟨by rw [boundaryPoll_tt]; exact h.tt, by rw [boundaryPoll_bestMv]; exact h.best,
   by rw [boundaryPoll_events]; exact h.events⟩

section driver
variable {G : Nat → State → Prop} (hG : Graded G) (D : Nat) (ctx : Ctx) (hcf : CollisionFree ctx.keys (upTo G D))
  (root : State) (hroot : G 0 root)
include hG hcf hroot

theorem runWorker_keeps (sd : Nat) (hsd : sd ≤ D) (best : Option Move) (hbest : ∀ m, best = some m → LegalIn root m)
    (tt : TT.Access) (rng : Rng.ChaCha8) (polls : Nat) (htt : TInv ctx.keys (upTo G D) tt) :
    TInv ctx.keys (upTo G D) (runWorker ctx root sd best tt rng polls).2.tt := by
  rw [runWorker_eq]
  exact (searchNode_keeps_graded hG D ctx (insOK_TInv hcf) sd _ 0 hroot (by omega) hbest _ htt).1

theorem runWorkers_keeps (depth : Nat) (hdepth : depth + 1 ≤ D) (bestMv : Option Move)
    (hbest : ∀ m, bestMv = some m → LegalIn root m) :
    ∀ (ws : List (Nat × UInt64)) (acc : WorkersOut), TInv ctx.keys (upTo G D) acc.tt →
      TInv ctx.keys (upTo G D) (runWorkers ctx root depth bestMv ws acc).tt := by
  intro ws
  induction ws with
  | nil => intro acc h; exact h
  | cons w rest ih =>
    intro acc h
    obtain ⟨i, seed⟩ := w
    rw [runWorkers]
    split
    · exact h
    · have hk := runWorker_keeps hG D ctx hcf root hroot ((depth - i % 2) + 1) (by omega)
        (if i == 0 then bestMv else Option.none)
        (by intro m hm; split at hm
            · exact hbest m hm
            · cases hm) acc.tt (Rng.seedFromU64 seed) acc.polls h
      dsimp only
      split
      · rename_i e st heq
        rw [heq] at hk
        exact ih _ hk
      · rename_i st heq
        rw [heq] at hk
        exact hk
      · exact h

theorem iterStep_inv (rootHash : UInt64) (workers depth : Nat) (hdepth : depth + 1 ≤ D) (st : IterSt)
    (h : IterInv ctx.keys (upTo G D) root st) :
    IterInv ctx.keys (upTo G D) root (iterStep ctx root rootHash workers depth st) := by
  unfold iterStep
  split
  rename_i seeds rng _
  have hw := runWorkers_keeps hG D ctx hcf root hroot depth hdepth st.bestMv h.best ((List.range workers).zip seeds)
    { tt := st.tt, polls := st.polls, evals := [], sumNodes := 0 } h.tt
  generalize runWorkers ctx root depth st.bestMv ((List.range workers).zip seeds)
    { tt := st.tt, polls := st.polls, evals := [], sumNodes := 0 } = w at hw
  have hline : LineLegal root (walkLine ctx.keys w.tt (depth + 1) root) :=
    walkLine_legal_graded hG D hw.2 _ _ 0 hroot (by omega)
  have hne : ∀ l : List Move, ¬ l.isEmpty = true → l ≠ [] := by
    intro l hl h; subst h; exact hl rfl
  dsimp only
  split
  · exact ⟨h.tt, h.best, h.events⟩
  · split
    · split
      · refine ⟨hw, fun m hm => (by cases hm), ?_⟩
        intro ev line hmem
        rcases List.mem_append.1 hmem with h1 | h1
        · exact h.events ev line h1
        · rw [List.mem_singleton] at h1; cases h1
      · rename_i hemp
        refine ⟨hw, ?_, ?_⟩
        · intro m hm
          generalize walkLine ctx.keys w.tt (depth + 1) root = line at hline hm
          cases line with
          | nil => cases hm
          | cons x xs => cases hm; exact hline.head
        · intro ev line hmem
          rcases List.mem_append.1 hmem with h1 | h1
          · rcases List.mem_append.1 h1 with h2 | h2
            · exact h.events ev line h2
            · rw [List.mem_singleton] at h2; cases h2
          · rw [List.mem_singleton] at h1; cases h1
            exact ⟨hne _ hemp, hline⟩
    · refine ⟨hw, h.best, ?_⟩
      intro ev line hmem
      split at hmem
      · split at hmem
        · split at hmem
          · exact h.events ev line hmem
          · rename_i hemp
            rcases List.mem_append.1 hmem with h1 | h1
            · exact h.events ev line h1
            · rw [List.mem_singleton] at h1; cases h1
              exact ⟨hne _ hemp, hline⟩
        · exact h.events ev line hmem
      · exact h.events ev line hmem

theorem iterLoop_inv (rootHash : UInt64) (workersOf : Nat → Nat) :
    ∀ (n depth : Nat) (st : IterSt), depth + n ≤ D → IterInv ctx.keys (upTo G D) root st →
      IterInv ctx.keys (upTo G D) root (iterLoop ctx root rootHash workersOf n depth st) := by
  intro n
  induction n with
  | zero => intro depth st _ h; exact h
  | succ n ih =>
    intro depth st hd h
    rw [iterLoop_succ]
    split
    · exact h
    · split
      · exact h.boundaryPoll ctx depth
      · exact ih _ _ (by omega) (iterStep_inv hG D ctx hcf root hroot _ _ _ (by omega) _ (h.boundaryPoll ctx depth))

end driver
/-! ## 8. `iterate` -/

/-- the context `analyze_iterative` builds -/
def iterCtx (root : State) (art : Artifact) (cancelAt : Option Nat) : Ctx :=
  { keys := art.keys.keys, history := hash art.keys.keys root :: art.history, cancelAt := cancelAt }

/-- number of iterations of the deepening loop -/
def iterLimit (root : State) (maxDepth : Option Nat) (fuelDepth : Nat) : Nat :=
  if (legalMoves root).isEmpty then 0 else match maxDepth with | some d => d | Option.none => fuelDepth

/-- initial state of the deepening loop -/
def iterInit (rng0 : Rng.ChaCha8) (art : Artifact) : IterSt :=
  { tt := art.tt, rng := rng0, events := [], nodes := 0, bestEval := Ev.negInf, bestMv := Option.none, polls := 0 }

/-- final state of the deepening loop of `iterate` -/
def iterFinal (root : State) (rng0 : Rng.ChaCha8) (maxDepth : Option Nat) (art : Artifact)
    (workersOf : Nat → Nat) (cancelAt : Option Nat) (fuelDepth : Nat) : IterSt :=
  iterLoop (iterCtx root art cancelAt) root (hash art.keys.keys root) workersOf
    (iterLimit root maxDepth fuelDepth) 0 (iterInit rng0 art)

theorem iterate_eq (root : State) (rng0 : Rng.ChaCha8) (maxDepth : Option Nat) (art : Artifact)
    (workersOf : Nat → Nat) (cancelAt : Option Nat) (fuelDepth : Nat) :
    iterate root rng0 maxDepth art workersOf cancelAt fuelDepth =
      let st := iterFinal root rng0 maxDepth art workersOf cancelAt fuelDepth
      { events := if st.panic.isNone && st.tt.entries * 2 > st.tt.maxEntries then st.events ++ [.warning] else st.events
        artifact := { keys := art.keys, tt := st.tt, history := hash art.keys.keys root :: art.history }
        panic := st.panic } := rfl

theorem best_mem_iterate {root : State} {rng0 : Rng.ChaCha8} {maxDepth : Option Nat} {art : Artifact}
    {workersOf : Nat → Nat} {cancelAt : Option Nat} {fuelDepth : Nat} (ev : Eval) (line : List Move) :
    Event.best ev line ∈ (iterate root rng0 maxDepth art workersOf cancelAt fuelDepth).events ↔
    Event.best ev line ∈ (iterFinal root rng0 maxDepth art workersOf cancelAt fuelDepth).events := by
  rw [iterate_eq]
  dsimp only
  split
  · constructor
    · intro h
      rcases List.mem_append.1 h with h | h
      · exact h
      · rw [List.mem_singleton] at h; cases h
    · exact fun h => List.mem_append_left _ h
  · exact Iff.rfl

/-- everything `iterate` returns (depth-graded form): the hypotheses concern the positions of grade at most
`D ≥` the number of iterations only -/
theorem iterate_inv_graded {G : Nat → State → Prop} (hG : Graded G) (D : Nat) (root : State) (hroot : G 0 root)
    (art : Artifact) (hcf : CollisionFree art.keys.keys (upTo G D)) (htt : TInv art.keys.keys (upTo G D) art.tt)
    (rng0 : Rng.ChaCha8) (maxDepth : Option Nat) (workersOf : Nat → Nat) (cancelAt : Option Nat) (fuelDepth : Nat)
    (hD : iterLimit root maxDepth fuelDepth ≤ D) :
    (iterate root rng0 maxDepth art workersOf cancelAt fuelDepth).artifact.keys = art.keys ∧
    TInv art.keys.keys (upTo G D) (iterate root rng0 maxDepth art workersOf cancelAt fuelDepth).artifact.tt ∧
    ∀ ev line, Event.best ev line ∈ (iterate root rng0 maxDepth art workersOf cancelAt fuelDepth).events →
      line ≠ [] ∧ LineLegal root line := by
  have h0 : IterInv (iterCtx root art cancelAt).keys (upTo G D) root (iterInit rng0 art) :=
    ⟨htt, fun m hm => (by cases hm), fun ev line hm => (by cases hm)⟩
  have hl := iterLoop_inv hG D (iterCtx root art cancelAt) hcf root hroot (hash art.keys.keys root) workersOf
    (iterLimit root maxDepth fuelDepth) 0 _ (by omega) h0
  refine ⟨rfl, hl.tt, ?_⟩
  intro ev line hmem
  exact hl.events ev line ((best_mem_iterate ev line).1 hmem)

/-- everything `iterate` returns, for a region -/
theorem iterate_inv {R : State → Prop} (hR : Region R) (root : State) (hroot : R root) (art : Artifact)
    (hcf : CollisionFree art.keys.keys R) (htt : TInv art.keys.keys R art.tt)
    (rng0 : Rng.ChaCha8) (maxDepth : Option Nat) (workersOf : Nat → Nat) (cancelAt : Option Nat) (fuelDepth : Nat) :
    (iterate root rng0 maxDepth art workersOf cancelAt fuelDepth).artifact.keys = art.keys ∧
    TInv art.keys.keys R (iterate root rng0 maxDepth art workersOf cancelAt fuelDepth).artifact.tt ∧
    ∀ ev line, Event.best ev line ∈ (iterate root rng0 maxDepth art workersOf cancelAt fuelDepth).events →
      line ≠ [] ∧ LineLegal root line := by
  have h := iterate_inv_graded hR.graded (iterLimit root maxDepth fuelDepth) root hroot art
    (hcf.congr (fun s hs => (upTo_const _ s).1 hs)) (htt.congr (fun s hs => (upTo_const _ s).1 hs))
    rng0 maxDepth workersOf cancelAt fuelDepth (Nat.le_refl _)
  exact ⟨h.1, h.2.1.congr (fun s hs => (upTo_const _ s).2 hs), h.2.2⟩

theorem iterStep_events_mono (ctx : Ctx) (root : State) (rootHash : UInt64) (workers depth : Nat) (st : IterSt) :
    ∀ ev ∈ st.events, ev ∈ (iterStep ctx root rootHash workers depth st).events := by
  intro ev hev
  unfold iterStep
  split
  dsimp only
  split
  · exact hev
  · split
    · split
      · exact List.mem_append_left _ hev
      · exact List.mem_append_left _ (List.mem_append_left _ hev)
    · dsimp only
      split
      · split
        · split
          · exact hev
          · exact List.mem_append_left _ hev
        · exact hev
      · exact hev

theorem iterLoop_events_mono (ctx : Ctx) (root : State) (rootHash : UInt64) (workersOf : Nat → Nat) :
    ∀ (n depth : Nat) (st : IterSt), ∀ ev ∈ st.events, ev ∈ (iterLoop ctx root rootHash workersOf n depth st).events := by
  intro n
  induction n with
  | zero => intro depth st ev h; exact h
  | succ n ih =>
    intro depth st ev h
    rw [iterLoop_succ]
    split
    · exact h
    · split
      · rw [boundaryPoll_events]; exact h
      · exact ih _ _ ev (iterStep_events_mono _ _ _ _ _ _ ev (by rw [boundaryPoll_events]; exact h))

/-- what the workers of the first iteration (`depth = 0`) return -/
def firstWorkers (root : State) (rng0 : Rng.ChaCha8) (art : Artifact) (workersOf : Nat → Nat)
    (cancelAt : Option Nat) : WorkersOut :=
  runWorkers (iterCtx root art cancelAt) root 0 Option.none
    ((List.range (workersOf 0)).zip (drawSeeds (workersOf 0) rng0).1)
    { tt := art.tt, polls := 0, evals := [], sumNodes := 0 }

/-- `RootEntryKept` for the first iteration: the workers finished (no panic, no interrupt) and the
root's entry is in the table when the line is read back -/
def FirstRootEntryKept (root : State) (rng0 : Rng.ChaCha8) (art : Artifact) (workersOf : Nat → Nat)
    (cancelAt : Option Nat) : Prop :=
  (firstWorkers root rng0 art workersOf cancelAt).panic = Option.none ∧
  (firstWorkers root rng0 art workersOf cancelAt).interrupted = false ∧
  ((firstWorkers root rng0 art workersOf cancelAt).tt.find (hash art.keys.keys root).toNat).isSome = true

theorem first_iteration_reports_graded {G : Nat → State → Prop} (hG : Graded G) (D : Nat) (root : State)
    (hroot : G 0 root) (art : Artifact)
    (hcf : CollisionFree art.keys.keys (upTo G D)) (htt : TInv art.keys.keys (upTo G D) art.tt)
    (rng0 : Rng.ChaCha8) (maxDepth : Option Nat) (workersOf : Nat → Nat) (cancelAt : Option Nat) (fuelDepth : Nat)
    (hD : 1 ≤ D)
    (hmoves : legalMoves root ≠ [])
    (hlimit : 1 ≤ (match maxDepth with | some d => d | Option.none => fuelDepth))
    (hkept : FirstRootEntryKept root rng0 art workersOf cancelAt) :
    ∃ ev line, Event.best ev line ∈ (iterate root rng0 maxDepth art workersOf cancelAt fuelDepth).events := by
  obtain ⟨hp, hi, hf⟩ := hkept
  have hwk : TInv art.keys.keys (upTo G D) (firstWorkers root rng0 art workersOf cancelAt).tt :=
    runWorkers_keeps hG D (iterCtx root art cancelAt) hcf root hroot 0 (by omega) Option.none
      (fun m hm => by cases hm) _ _ htt
  cases hfe : (firstWorkers root rng0 art workersOf cancelAt).tt.find (hash art.keys.keys root).toNat with
  | none => rw [hfe] at hf; cases hf
  | some e =>
    have hne := walkLine_ne_nil hwk.2 0 root ⟨0, Nat.zero_le _, hroot⟩ e hfe
    have hlim : iterLimit root maxDepth fuelDepth = (iterLimit root maxDepth fuelDepth - 1) + 1 := by
      unfold iterLimit
      have : (legalMoves root).isEmpty = false := by
        cases h : legalMoves root with
        | nil => exact absurd h hmoves
        | cons _ _ => rfl
      rw [this]
      simp only [Bool.false_eq_true, ↓reduceIte]
      omega
    have hstep : ∃ ev line, Event.best ev line ∈
        (iterStep (iterCtx root art cancelAt) root (hash art.keys.keys root) (workersOf 0) 0 (iterInit rng0 art)).events := by
      unfold iterStep
      split
      rename_i seeds rng heq
      have hs : seeds = (drawSeeds (workersOf 0) rng0).1 := by
        have : drawSeeds (workersOf 0) rng0 = (seeds, rng) := heq
        rw [this]
      subst hs
      have hw : runWorkers (iterCtx root art cancelAt) root 0 (iterInit rng0 art).bestMv
          ((List.range (workersOf 0)).zip (drawSeeds (workersOf 0) rng0).1)
          { tt := (iterInit rng0 art).tt, polls := (iterInit rng0 art).polls, evals := [], sumNodes := 0 }
          = firstWorkers root rng0 art workersOf cancelAt := rfl
      rw [hw]
      dsimp only
      rw [hp]
      dsimp only
      rw [hi]
      simp only [Bool.not_false, ↓reduceIte]
      have hemp : (walkLine (iterCtx root art cancelAt).keys (firstWorkers root rng0 art workersOf cancelAt).tt (0 + 1) root).isEmpty = false := by
        cases hwl : walkLine (iterCtx root art cancelAt).keys (firstWorkers root rng0 art workersOf cancelAt).tt (0 + 1) root with
        | nil => exact absurd hwl hne
        | cons _ _ => rfl
      rw [hemp]
      simp only [Bool.false_eq_true, ↓reduceIte]
      exact ⟨_, _, List.mem_append_right _ (List.mem_singleton.2 rfl)⟩
    obtain ⟨ev, line, hmem⟩ := hstep
    refine ⟨ev, line, (best_mem_iterate ev line).2 ?_⟩
    unfold iterFinal
    rw [hlim, iterLoop_succ, boundaryPoll_zero]
    have : (iterInit rng0 art).finished = false := rfl
    rw [this]
    simp only [Bool.false_eq_true, ↓reduceIte]
    exact iterLoop_events_mono _ _ _ _ _ _ _ _ hmem

theorem first_iteration_reports {R : State → Prop} (hR : Region R) (root : State) (hroot : R root) (art : Artifact)
    (hcf : CollisionFree art.keys.keys R) (htt : TInv art.keys.keys R art.tt)
    (rng0 : Rng.ChaCha8) (maxDepth : Option Nat) (workersOf : Nat → Nat) (cancelAt : Option Nat) (fuelDepth : Nat)
    (hmoves : legalMoves root ≠ [])
    (hlimit : 1 ≤ (match maxDepth with | some d => d | Option.none => fuelDepth))
    (hkept : FirstRootEntryKept root rng0 art workersOf cancelAt) :
    ∃ ev line, Event.best ev line ∈ (iterate root rng0 maxDepth art workersOf cancelAt fuelDepth).events :=
  first_iteration_reports_graded hR.graded 1 root hroot art
    (hcf.congr (fun s hs => (upTo_const _ s).1 hs)) (htt.congr (fun s hs => (upTo_const _ s).1 hs))
    rng0 maxDepth workersOf cancelAt fuelDepth (Nat.le_refl _) hmoves hlimit hkept

end Wee.Search
