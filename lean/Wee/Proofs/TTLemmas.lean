import Wee.Model.TT
/-!
# Transposition table lemmas (bucket, table and access level) for property C15

Everything at bucket level is generic in the bucket length (`≥ 1` where needed); the table and access
level invariants carry the bucket length `L` as a parameter and are instantiated at `Gen.bucketSize`.
-/
namespace Wee.TT

/-! ## Bucket level -/

/-- keys stored in a bucket, left to right -/
def keys : List Slot → List Nat
  | [] => []
  | none :: rest => keys rest
  | some (k, _) :: rest => k :: keys rest

/-- occupied slots form a prefix (recursive form) -/
def Prefix : List Slot → Prop
  | [] => True
  | none :: rest => rest.all (· == none) = true
  | some _ :: rest => Prefix rest

/-- bucket invariant: occupied prefix and no key stored twice -/
def Inv (b : List Slot) : Prop := Prefix b ∧ (keys b).Nodup

/-- every slot occupied -/
def Full (b : List Slot) : Prop := ∀ s ∈ b, s ≠ none

theorem findB_none_of_not_mem {b : List Slot} {k : Nat} (h : k ∉ keys b) : findB b k = none := by
  induction b with
  | nil => rfl
  | cons s rest ih =>
    cases s with
    | none => simpa [findB, keys] using ih (by simpa [keys] using h)
    | some p =>
      obtain ⟨k', e⟩ := p
      simp [keys] at h
      simp [findB, Ne.symm h.1, ih h.2]

theorem mem_keys_of_findB {b : List Slot} {k : Nat} {e : Entry} (h : findB b k = some e) :
    k ∈ keys b := by
  apply Classical.byContradiction
  intro hn
  rw [findB_none_of_not_mem hn] at h
  cases h

theorem findB_some_of_mem {b : List Slot} {k : Nat} (h : k ∈ keys b) :
    ∃ e, findB b k = some e := by
  induction b with
  | nil => simp [keys] at h
  | cons s rest ih =>
    cases s with
    | none => simpa [findB, keys] using ih (by simpa [keys] using h)
    | some p =>
      obtain ⟨k', e⟩ := p
      by_cases hk : k' = k
      · exact ⟨e, by simp [findB, hk]⟩
      · simp [keys, Ne.symm hk] at h
        obtain ⟨e', he'⟩ := ih h
        exact ⟨e', by simp [findB, hk, he']⟩

theorem keys_all_none {b : List Slot} (h : b.all (· == none) = true) : keys b = [] := by
  induction b with
  | nil => rfl
  | cons s rest ih =>
    simp at h
    obtain ⟨h1, h2⟩ := h
    subst h1
    simp [keys]
    apply ih
    simpa using h2

theorem prefix_all_none {b : List Slot} (h : b.all (· == none) = true) : Prefix b := by
  cases b with
  | nil => trivial
  | cons s t =>
    simp at h
    obtain ⟨h1, h2⟩ := h
    subst h1
    show t.all (· == none) = true
    simpa using h2

/-- scan success: result invariant, find of the inserted key, and exact frame for the other keys -/
theorem scan_spec (b : List Slot) (k : Nat) (e : Entry) (hinv : Inv b) :
    ∀ r i, scan b k e = some (r, i) →
      Inv r ∧ r.length = b.length ∧ findB r k = some e ∧
      (∀ k', k' ≠ k → findB r k' = findB b k') ∧
      (i = true → k ∉ keys b ∧ (keys r).length = (keys b).length + 1) ∧
      (i = false → (keys r).length = (keys b).length) := by
  induction b with
  | nil => intro r i h; simp [scan] at h
  | cons s rest ih =>
    intro r i h
    cases s with
    | none =>
      simp [scan] at h
      obtain ⟨rfl, rfl⟩ := h
      have hall : rest.all (· == none) = true := hinv.1
      have hk : keys rest = [] := keys_all_none hall
      refine ⟨⟨?_, ?_⟩, rfl, by simp [findB], ?_, ?_, by simp⟩
      · show Prefix rest
        exact prefix_all_none hall
      · simp [keys, hk]
      · intro k' hk'
        simp [findB, Ne.symm hk']
      · intro _
        simp [keys, hk]
    | some p =>
      obtain ⟨k0, e0⟩ := p
      have hinv' : Inv rest := ⟨hinv.1, (List.nodup_cons.1 hinv.2).2⟩
      have hk0 : k0 ∉ keys rest := (List.nodup_cons.1 hinv.2).1
      by_cases hkk : k0 = k
      · subst hkk
        simp [scan] at h
        obtain ⟨rfl, rfl⟩ := h
        refine ⟨⟨hinv.1, by simpa [keys] using hinv.2⟩, rfl, by simp [findB], ?_, by simp,
          by simp [keys]⟩
        intro k' hk'
        simp [findB, Ne.symm hk']
      · simp only [scan, if_neg hkk] at h
        cases hs : scan rest k e with
        | none => simp [hs] at h
        | some ri =>
          obtain ⟨r', i'⟩ := ri
          simp [hs] at h
          obtain ⟨rfl, rfl⟩ := h
          obtain ⟨hi1, hi2, hi3, hi4, hi5, hi6⟩ := ih hinv' r' i' hs
          have hk0r : k0 ∉ keys r' := by
            intro hmem
            obtain ⟨e1, he1⟩ := findB_some_of_mem hmem
            rw [hi4 k0 hkk, findB_none_of_not_mem hk0] at he1
            cases he1
          refine ⟨⟨hi1.1, ?_⟩, by simp [hi2], ?_, ?_, ?_, ?_⟩
          · simp [keys]; exact ⟨hk0r, hi1.2⟩
          · simp [findB, hkk, hi3]
          · intro k' hk'
            by_cases h0 : k0 = k'
            · simp [findB, h0]
            · simp [findB, h0, hi4 k' hk']
          · intro hi
            obtain ⟨a, b⟩ := hi5 hi
            exact ⟨by simp [keys]; exact ⟨Ne.symm hkk, a⟩, by simp [keys, b]⟩
          · intro hi
            simp [keys, hi6 hi]

/-- the scan fails only on a full bucket that does not contain the key -/
theorem scan_none {b : List Slot} {k : Nat} {e : Entry} (h : scan b k e = none) :
    Full b ∧ k ∉ keys b := by
  induction b with
  | nil => exact ⟨(by intro s hs; cases hs), (by simp [keys])⟩
  | cons s rest ih =>
    cases s with
    | none => simp [scan] at h
    | some p =>
      obtain ⟨k0, e0⟩ := p
      by_cases hkk : k0 = k
      · simp [scan, hkk] at h
      · simp only [scan, if_neg hkk] at h
        cases hs : scan rest k e with
        | some ri => simp [hs] at h
        | none =>
          obtain ⟨h1, h2⟩ := ih hs
          refine ⟨?_, ?_⟩
          · intro s hs'
            rcases List.mem_cons.1 hs' with rfl | hm
            · simp
            · exact h1 s hm
          · simp [keys]; exact ⟨Ne.symm hkk, h2⟩

/-- conversely a full bucket without the key makes the scan fail -/
theorem scan_none_of_full {b : List Slot} {k : Nat} (e : Entry) (hf : Full b) (hk : k ∉ keys b) :
    scan b k e = none := by
  induction b with
  | nil => rfl
  | cons s rest ih =>
    cases s with
    | none => exact absurd rfl (hf none (by simp))
    | some p =>
      obtain ⟨k0, e0⟩ := p
      simp [keys] at hk
      have := ih (fun s hs => hf s (List.mem_cons_of_mem _ hs)) hk.2
      simp [scan, Ne.symm hk.1, this]

theorem Full.prefix {b : List Slot} (hf : Full b) : Prefix b := by
  induction b with
  | nil => trivial
  | cons s rest ih =>
    cases s with
    | none => exact absurd rfl (hf none (by simp))
    | some p => exact ih (fun s hs => hf s (List.mem_cons_of_mem _ hs))

theorem Full.keys_length {b : List Slot} (hf : Full b) : (keys b).length = b.length := by
  induction b with
  | nil => rfl
  | cons s rest ih =>
    cases s with
    | none => exact absurd rfl (hf none (by simp))
    | some p =>
      obtain ⟨k0, e0⟩ := p
      simp [keys, ih (fun s hs => hf s (List.mem_cons_of_mem _ hs))]

theorem Full.set {b : List Slot} (hf : Full b) (i : Nat) (p : Nat × Entry) :
    Full (b.set i (some p)) := by
  intro s hs
  rcases List.mem_or_eq_of_mem_set hs with h | h
  · exact hf s h
  · subst h; simp

theorem keys_length_le (b : List Slot) : (keys b).length ≤ b.length := by
  induction b with
  | nil => simp [keys]
  | cons s rest ih =>
    cases s with
    | none => simp [keys]; omega
    | some p => obtain ⟨k0, e0⟩ := p; simp [keys]; omega

theorem keys_length_eq_countP (b : List Slot) :
    (keys b).length = b.countP (fun s => s.isSome) := by
  induction b with
  | nil => rfl
  | cons s rest ih =>
    cases s with
    | none => simp [keys, ih]
    | some p => obtain ⟨k0, e0⟩ := p; simp [keys, ih]

theorem mem_keys_of_mem {b : List Slot} {k : Nat} {x : Entry} (h : some (k, x) ∈ b) :
    k ∈ keys b := by
  induction b with
  | nil => cases h
  | cons s t iht =>
    rcases List.mem_cons.1 h with h1 | h1
    · subst h1; simp [keys]
    · clear h
      cases s with
      | none => simpa [keys] using iht h1
      | some q => obtain ⟨a, b⟩ := q; simp [keys]; exact Or.inr (iht h1)

/-- overwrite slot `i` with a key that is not in the bucket: duplicates-freedom, finds -/
theorem set_spec (b : List Slot) (k : Nat) (e : Entry) (hnd : (keys b).Nodup)
    (hk : k ∉ keys b) :
    ∀ i, i < b.length →
      (keys (b.set i (some (k, e)))).Nodup ∧
      (∀ k', k' ∈ keys (b.set i (some (k, e))) → k' = k ∨ k' ∈ keys b) ∧
      findB (b.set i (some (k, e))) k = some e ∧
      (∀ k' x, k' ≠ k → b[i]? = some (some (k', x)) →
        findB (b.set i (some (k, e))) k' = none) ∧
      (∀ k', k' ≠ k → (∀ x, b[i]? ≠ some (some (k', x))) →
        findB (b.set i (some (k, e))) k' = findB b k') := by
  induction b with
  | nil => intro i hi; simp at hi
  | cons s rest ih =>
    intro i hi
    cases i with
    | zero =>
      simp only [List.set_cons_zero]
      cases s with
      | none =>
        simp only [keys] at hnd hk
        refine ⟨by simp [keys, hk, hnd], by simp [keys], by simp [findB], ?_, ?_⟩
        · intro k' x _ h; simp at h
        · intro k' hk' _; simp [findB, Ne.symm hk']
      | some p =>
        obtain ⟨k0, e0⟩ := p
        simp only [keys, List.nodup_cons, List.mem_cons, not_or] at hnd hk
        refine ⟨by simp [keys, hk.2, hnd.2], ?_, by simp [findB], ?_, ?_⟩
        · intro k' hm; simp [keys] at hm ⊢; rcases hm with h | h
          · exact Or.inl h
          · exact Or.inr (Or.inr h)
        · intro k' x hk' h
          simp at h
          obtain ⟨rfl, rfl⟩ := h
          simp [findB, Ne.symm hk', findB_none_of_not_mem hnd.1]
        · intro k' hk' hx
          have : k0 ≠ k' := by
            intro h; subst h; exact hx e0 (by simp)
          simp [findB, Ne.symm hk', this]
    | succ i =>
      simp only [List.set_cons_succ]
      have hi' : i < rest.length := by simpa using hi
      cases s with
      | none =>
        simp only [keys] at hnd hk
        obtain ⟨h1, h2, h3, h4, h5⟩ := ih hnd hk i hi'
        refine ⟨by simpa [keys] using h1, by simpa [keys] using h2, by simpa [findB] using h3,
          ?_, ?_⟩
        · intro k' x hk' h; simpa [findB] using h4 k' x hk' (by simpa using h)
        · intro k' hk' hx; simpa [findB] using h5 k' hk' (by simpa using hx)
      | some p =>
        obtain ⟨k0, e0⟩ := p
        simp only [keys, List.nodup_cons, List.mem_cons, not_or] at hnd hk
        obtain ⟨h1, h2, h3, h4, h5⟩ := ih hnd.2 hk.2 i hi'
        refine ⟨?_, ?_, ?_, ?_, ?_⟩
        · simp only [keys, List.nodup_cons]
          refine ⟨?_, h1⟩
          intro hm
          rcases h2 k0 hm with h | h
          · exact hk.1 h.symm
          · exact hnd.1 h
        · intro k' hm
          simp only [keys, List.mem_cons] at hm ⊢
          rcases hm with h | h
          · exact Or.inr (Or.inl h)
          · rcases h2 k' h with h | h
            · exact Or.inl h
            · exact Or.inr (Or.inr h)
        · simp [findB, Ne.symm hk.1, h3]
        · intro k' x hk' h
          have hrest : rest[i]? = some (some (k', x)) := by simpa using h
          have hmem : k' ∈ keys rest := mem_keys_of_mem (List.mem_of_getElem? hrest)
          have hne : k0 ≠ k' := by intro h; subst h; exact hnd.1 hmem
          simp [findB, hne, h4 k' x hk' hrest]
        · intro k' hk' hx
          by_cases h0 : k0 = k'
          · simp [findB, h0]
          · simp [findB, h0, h5 k' hk' (by simpa using hx)]

/-! ### readable forms of the two invariants -/

theorem eq_replicate_of_all_none {b : List Slot} (h : b.all (· == none) = true) :
    b = List.replicate b.length none := by
  rw [List.eq_replicate_iff]
  refine ⟨rfl, ?_⟩
  intro s hs
  have := List.all_eq_true.1 h s hs
  simpa using this

/-- `Prefix` says: some occupied slots followed only by empty slots -/
theorem Prefix.exists_eq {b : List Slot} (h : Prefix b) :
    ∃ (l : List (Nat × Entry)) (n : Nat), b = l.map some ++ List.replicate n none := by
  induction b with
  | nil => exact ⟨[], 0, rfl⟩
  | cons s rest ih =>
    cases s with
    | none =>
      have hall : rest.all (· == none) = true := h
      refine ⟨[], rest.length + 1, ?_⟩
      rw [List.replicate_succ, ← eq_replicate_of_all_none hall]
      rfl
    | some p =>
      obtain ⟨l, n, hl⟩ := ih h
      exact ⟨p :: l, n, by rw [hl]; rfl⟩

theorem Prefix.of_eq (l : List (Nat × Entry)) (n : Nat) :
    Prefix (l.map some ++ List.replicate n none) := by
  induction l with
  | nil => exact prefix_all_none (by simp)
  | cons p l ih => exact ih

/-- no key is stored in two different slots -/
theorem nodup_keys_index {b : List Slot} (h : (keys b).Nodup) :
    ∀ (i j k : Nat) (x y : Entry),
      b[i]? = some (some (k, x)) → b[j]? = some (some (k, y)) → i = j := by
  induction b with
  | nil => intro i j k x y h1; simp at h1
  | cons s rest ih =>
    intro i j k x y h1 h2
    have hrest : (keys rest).Nodup := by
      cases s with
      | none => exact h
      | some p => exact (List.nodup_cons.1 h).2
    cases i with
    | zero =>
      cases j with
      | zero => rfl
      | succ j =>
        simp at h1 h2
        subst h1
        exact absurd (mem_keys_of_mem (List.mem_of_getElem? h2)) (List.nodup_cons.1 h).1
    | succ i =>
      cases j with
      | zero =>
        simp at h1 h2
        subst h2
        exact absurd (mem_keys_of_mem (List.mem_of_getElem? h1)) (List.nodup_cons.1 h).1
      | succ j =>
        simp at h1 h2
        rw [ih hrest i j k x y h1 h2]

/-! ### `insertB` -/

theorem insertB_of_scan {b : List Slot} {k : Nat} {e : Entry} {r : List Slot × Bool}
    (h : scan b k e = some r) : insertB b k e = r := by
  simp [insertB, h]

theorem insertB_of_none {b : List Slot} {k : Nat} {e : Entry} (h : scan b k e = none) :
    insertB b k e = (b.set ((k ^^^ e.mv) % b.length) (some (k, e)), false) := by
  simp [insertB, h]

/-- `insert_or_replace` on a bucket of length ≥ 1 satisfying the invariant: the invariant is kept,
the inserted key is found with the new entry, every other key is either found unchanged or not at
all, the number of occupied slots grows by one exactly when the result is `Inserted`, and no key
other than the inserted one appears. -/
theorem insertB_spec (b : List Slot) (hlen : 0 < b.length) (hinv : Inv b) (k : Nat) (e : Entry) :
    Inv (insertB b k e).1 ∧ (insertB b k e).1.length = b.length ∧
    findB (insertB b k e).1 k = some e ∧
    (∀ k', k' ≠ k →
      findB (insertB b k e).1 k' = none ∨ findB (insertB b k e).1 k' = findB b k') ∧
    (keys (insertB b k e).1).length = (keys b).length + (if (insertB b k e).2 then 1 else 0) ∧
    (∀ k', k' ∈ keys (insertB b k e).1 → k' = k ∨ k' ∈ keys b) := by
  cases hs : scan b k e with
  | some ri =>
    obtain ⟨r, i⟩ := ri
    rw [insertB_of_scan hs]
    obtain ⟨h1, h2, h3, h4, h5, h6⟩ := scan_spec b k e hinv r i hs
    refine ⟨h1, h2, h3, fun k' hk' => Or.inr (h4 k' hk'), ?_, ?_⟩
    · cases i with
      | true => simpa using (h5 rfl).2
      | false => simpa using h6 rfl
    · intro k' hm
      by_cases hk' : k' = k
      · exact Or.inl hk'
      · obtain ⟨x, hx⟩ := findB_some_of_mem hm
        rw [h4 k' hk'] at hx
        exact Or.inr (mem_keys_of_findB hx)
  | none =>
    rw [insertB_of_none hs]
    obtain ⟨hf, hk⟩ := scan_none hs
    have hi : (k ^^^ e.mv) % b.length < b.length := Nat.mod_lt _ hlen
    obtain ⟨h1, h2, h3, h4, h5⟩ := set_spec b k e hinv.2 hk _ hi
    refine ⟨⟨(hf.set _ _).prefix, h1⟩, by simp, h3, ?_, ?_, h2⟩
    · intro k' hk'
      cases hb : b[(k ^^^ e.mv) % b.length]? with
      | none => exact Or.inr (h5 k' hk' (by simp [hb]))
      | some s =>
        cases s with
        | none => exact Or.inr (h5 k' hk' (by simp [hb]))
        | some p =>
          obtain ⟨k0, x0⟩ := p
          by_cases h0 : k0 = k'
          · subst h0; exact Or.inl (h4 k0 x0 hk' hb)
          · refine Or.inr (h5 k' hk' ?_)
            intro x hx
            rw [hb] at hx
            simp at hx
            exact h0 hx.1
    · simp [(hf.set _ _).keys_length, hf.keys_length]

/-- exact frame: a key different from the inserted one keeps its entry unless the scan failed
(bucket full, inserted key absent) and the replacement index is its slot -/
theorem insertB_frame (b : List Slot) (hlen : 0 < b.length) (hinv : Inv b) (k : Nat) (e : Entry)
    (k' : Nat) (hk' : k' ≠ k)
    (hnd : scan b k e = none → ∀ x, b[(k ^^^ e.mv) % b.length]? ≠ some (some (k', x))) :
    findB (insertB b k e).1 k' = findB b k' := by
  cases hs : scan b k e with
  | some ri =>
    obtain ⟨r, i⟩ := ri
    rw [insertB_of_scan hs]
    exact (scan_spec b k e hinv r i hs).2.2.2.1 k' hk'
  | none =>
    rw [insertB_of_none hs]
    obtain ⟨hf, hk⟩ := scan_none hs
    exact (set_spec b k e hinv.2 hk _ (Nat.mod_lt _ hlen)).2.2.2.2 k' hk' (hnd hs)

/-- the displaced key is gone -/
theorem insertB_displaced (b : List Slot) (hlen : 0 < b.length) (hinv : Inv b) (k : Nat)
    (e : Entry) (k' : Nat) (x : Entry) (hs : scan b k e = none)
    (hx : b[(k ^^^ e.mv) % b.length]? = some (some (k', x))) :
    findB (insertB b k e).1 k' = none := by
  rw [insertB_of_none hs]
  obtain ⟨hf, hk⟩ := scan_none hs
  have hne : k' ≠ k := by
    intro h; subst h
    exact hk (mem_keys_of_mem (List.mem_of_getElem? hx))
  exact (set_spec b k e hinv.2 hk _ (Nat.mod_lt _ hlen)).2.2.2.1 k' x hne hx

/-! ## Generic list helpers -/

theorem getD_set_self {α : Type} (l : List α) (i : Nat) (v d : α) (h : i < l.length) :
    (l.set i v).getD i d = v := by
  simp [List.getD_eq_getElem?_getD, h]

theorem getD_set_ne {α : Type} (l : List α) {i j : Nat} (v d : α) (h : i ≠ j) :
    (l.set i v).getD j d = l.getD j d := by
  simp [List.getD_eq_getElem?_getD, h]

theorem getD_replicate {α : Type} (n i : Nat) (v d : α) (h : i < n) :
    (List.replicate n v).getD i d = v := by
  simp [List.getD_eq_getElem?_getD, h]

theorem sum_map_set {α : Type} (f : α → Nat) (l : List α) (i : Nat) (v d : α)
    (h : i < l.length) :
    ((l.set i v).map f).sum + f (l.getD i d) = (l.map f).sum + f v := by
  induction l generalizing i with
  | nil => simp at h
  | cons a t ih =>
    cases i with
    | zero => simp; omega
    | succ i =>
      have := ih i (by simpa using h)
      simp at this ⊢
      omega

theorem sum_map_le {α : Type} (f : α → Nat) (c : Nat) (l : List α) (h : ∀ x ∈ l, f x ≤ c) :
    (l.map f).sum ≤ l.length * c := by
  induction l with
  | nil => simp
  | cons a t ih =>
    have h1 := h a (by simp)
    have h2 := ih (fun x hx => h x (List.mem_cons_of_mem _ hx))
    simp [Nat.succ_mul]
    omega

theorem forall_mem_of_getD {α : Type} {P : α → Prop} (l : List α) (d : α)
    (h : ∀ i, i < l.length → P (l.getD i d)) : ∀ x ∈ l, P x := by
  intro x hx
  obtain ⟨i, hi, rfl⟩ := List.getElem_of_mem hx
  have := h i hi
  simpa [List.getD_eq_getElem?_getD, hi] using this

/-! ## Table level -/

theorem Table.insert_eq (t : Table) (k : Nat) (e : Entry) :
    t.insert k e =
      { buckets := t.buckets.set (k % t.buckets.length)
          (insertB (t.buckets.getD (k % t.buckets.length) []) k e).1,
        used := if (insertB (t.buckets.getD (k % t.buckets.length) []) k e).2
          then t.used + 1 else t.used } := rfl

/-- invariant of sub-table number `ti` of an access layer with `nT` tables of `nB` buckets of
length `L` -/
structure TInv (L nT nB ti : Nat) (t : Table) : Prop where
  len : t.buckets.length = nB
  blen : ∀ j, j < nB → (t.buckets.getD j []).length = L
  inv : ∀ j, j < nB → Inv (t.buckets.getD j [])
  route : ∀ j, j < nB → ∀ k, k ∈ keys (t.buckets.getD j []) → k % nT = ti ∧ k % nB = j
  used : t.used = (t.buckets.map fun b => (keys b).length).sum

theorem TInv.insert {L nT nB ti : Nat} {t : Table} (h : TInv L nT nB ti t) (hL : 0 < L)
    (hB : 0 < nB) (k : Nat) (e : Entry) (hk : k % nT = ti) :
    TInv L nT nB ti (t.insert k e) := by
  rw [Table.insert_eq, h.len]
  have hi : k % nB < nB := Nat.mod_lt _ hB
  have hil : k % nB < t.buckets.length := by rw [h.len]; exact hi
  have hbl : 0 < (t.buckets.getD (k % nB) []).length := by rw [h.blen _ hi]; exact hL
  obtain ⟨s1, s2, s3, s4, s5, s6⟩ := insertB_spec _ hbl (h.inv _ hi) k e
  refine ⟨by simp [h.len], ?_, ?_, ?_, ?_⟩
  · intro j hj
    by_cases hji : k % nB = j
    · subst hji; simp only [getD_set_self _ _ _ _ hil, s2, h.blen _ hi]
    · simp only [getD_set_ne _ _ _ hji, h.blen _ hj]
  · intro j hj
    by_cases hji : k % nB = j
    · subst hji; simpa only [getD_set_self _ _ _ _ hil] using s1
    · simpa only [getD_set_ne _ _ _ hji] using h.inv _ hj
  · intro j hj k' hm
    by_cases hji : k % nB = j
    · subst hji
      simp only [getD_set_self _ _ _ _ hil] at hm
      rcases s6 k' hm with rfl | hm'
      · exact ⟨hk, rfl⟩
      · exact h.route _ hi k' hm'
    · simp only [getD_set_ne _ _ _ hji] at hm
      exact h.route _ hj k' hm
  · have := sum_map_set (fun b : List Slot => (keys b).length) t.buckets (k % nB)
      (insertB (t.buckets.getD (k % nB) []) k e).1 [] hil
    have hu := h.used
    show (if (insertB (t.buckets.getD (k % nB) []) k e).2 = true then t.used + 1 else t.used) =
      ((t.buckets.set (k % nB) (insertB (t.buckets.getD (k % nB) []) k e).1).map
        fun b => (keys b).length).sum
    generalize ((t.buckets.set (k % nB) (insertB (t.buckets.getD (k % nB) []) k e).1).map
        fun b => (keys b).length).sum = S' at this ⊢
    generalize (t.buckets.map fun b => (keys b).length).sum = S at this hu
    rw [s5] at this
    generalize (keys (t.buckets.getD (k % nB) [])).length = c at this
    generalize (insertB (t.buckets.getD (k % nB) []) k e).2 = ins at this ⊢
    cases ins
    · simp only [Bool.false_eq_true, ↓reduceIte] at this ⊢; omega
    · simp only [↓reduceIte] at this ⊢; omega

theorem Table.find_eq (t : Table) (k : Nat) :
    t.find k = findB (t.buckets.getD (k % t.buckets.length) []) k := rfl

/-! ## Access level -/

theorem Access.insert_eq (a : Access) (k : Nat) (e : Entry) :
    a.insert k e =
      { tables := a.tables.set (k % a.tables.length)
          ((a.tables.getD (k % a.tables.length) default).insert k e) } := rfl

/-- the bucket `j` of sub-table `i` -/
def Access.bucketAt (a : Access) (i j : Nat) : List Slot :=
  (a.tables.getD i default).buckets.getD j []

/-- reachable-state invariant of the access layer: `nT` sub-tables, each satisfying `TInv` -/
structure AInv (L nT nB : Nat) (a : Access) : Prop where
  len : a.tables.length = nT
  tinv : ∀ i, i < nT → TInv L nT nB i (a.tables.getD i default)

theorem keys_replicate_none (n : Nat) : keys (List.replicate n none) = [] := by
  induction n with
  | zero => rfl
  | succ n ih => simp [List.replicate_succ, keys, ih]

theorem AInv.new (nT nB : Nat) : AInv Gen.bucketSize nT nB (Access.new nT nB) := by
  refine ⟨by simp [Access.new], ?_⟩
  intro i hi
  have ht : (Access.new nT nB).tables.getD i default = Table.withBucketCount nB := by
    simp only [Access.new, getD_replicate _ _ _ _ hi]
  rw [ht]
  refine ⟨by simp [Table.withBucketCount], ?_, ?_, ?_, ?_⟩
  · intro j hj; simp only [Table.withBucketCount, getD_replicate _ _ _ _ hj, List.length_replicate]
  · intro j hj
    simp only [Table.withBucketCount, getD_replicate _ _ _ _ hj]
    refine ⟨prefix_all_none (by simp), ?_⟩
    rw [keys_replicate_none]; exact List.nodup_nil
  · intro j hj k hm
    simp only [Table.withBucketCount, getD_replicate _ _ _ _ hj, keys_replicate_none] at hm
    cases hm
  · simp [Table.withBucketCount, keys_replicate_none]

theorem AInv.insert {L nT nB : Nat} {a : Access} (h : AInv L nT nB a) (hL : 0 < L) (hT : 0 < nT)
    (hB : 0 < nB) (k : Nat) (e : Entry) : AInv L nT nB (a.insert k e) := by
  rw [Access.insert_eq, h.len]
  have hi : k % nT < nT := Nat.mod_lt _ hT
  have hil : k % nT < a.tables.length := by rw [h.len]; exact hi
  refine ⟨by simp [h.len], ?_⟩
  intro i hi'
  by_cases hji : k % nT = i
  · subst hji
    simp only [getD_set_self _ _ _ _ hil]
    exact (h.tinv _ hi).insert hL hB k e rfl
  · simp only [getD_set_ne _ _ _ hji]
    exact h.tinv _ hi'

theorem AInv.find_eq {L nT nB : Nat} {a : Access} (h : AInv L nT nB a) (hT : 0 < nT) (k : Nat) :
    a.find k = findB (a.bucketAt (k % nT) (k % nB)) k := by
  unfold Access.find Access.bucketAt
  rw [Table.find_eq, h.len, (h.tinv _ (Nat.mod_lt _ hT)).len]

theorem AInv.bucketAt_insert {L nT nB : Nat} {a : Access} (h : AInv L nT nB a) (hT : 0 < nT)
    (hB : 0 < nB) (k : Nat) (e : Entry) (i j : Nat) :
    (a.insert k e).bucketAt i j =
      if i = k % nT ∧ j = k % nB then (insertB (a.bucketAt i j) k e).1 else a.bucketAt i j := by
  have hi : k % nT < nT := Nat.mod_lt _ hT
  have hil : k % nT < a.tables.length := by rw [h.len]; exact hi
  have hj : k % nB < nB := Nat.mod_lt _ hB
  have hlen := (h.tinv _ hi).len
  unfold Access.bucketAt
  rw [Access.insert_eq, h.len]
  by_cases hii : k % nT = i
  · subst hii
    simp only [getD_set_self _ _ _ _ hil, Table.insert_eq, hlen, true_and]
    by_cases hjj : k % nB = j
    · subst hjj
      rw [getD_set_self _ _ _ _ (by rw [hlen]; exact hj)]
      simp
    · rw [getD_set_ne _ _ _ hjj]
      simp [Ne.symm hjj]
  · simp only [getD_set_ne _ _ _ hii]
    simp [Ne.symm hii]

theorem AInv.bucket_inv {L nT nB : Nat} {a : Access} (h : AInv L nT nB a) {i j : Nat}
    (hi : i < nT) (hj : j < nB) : Inv (a.bucketAt i j) ∧ (a.bucketAt i j).length = L :=
  ⟨(h.tinv i hi).inv j hj, (h.tinv i hi).blen j hj⟩

/-- a key is found right after its insertion, with the inserted entry -/
theorem AInv.find_insert_self {L nT nB : Nat} {a : Access} (h : AInv L nT nB a) (hL : 0 < L)
    (hT : 0 < nT) (hB : 0 < nB) (k : Nat) (e : Entry) : (a.insert k e).find k = some e := by
  rw [(h.insert hL hT hB k e).find_eq hT, h.bucketAt_insert hT hB, if_pos ⟨rfl, rfl⟩]
  obtain ⟨hinv, hlen⟩ := h.bucket_inv (Nat.mod_lt k hT) (Nat.mod_lt k hB)
  exact (insertB_spec _ (by omega) hinv k e).2.2.1

/-- an insert never makes another key return anything but its previous entry (or nothing) -/
theorem AInv.find_insert_other {L nT nB : Nat} {a : Access} (h : AInv L nT nB a) (hL : 0 < L)
    (hT : 0 < nT) (hB : 0 < nB) (k : Nat) (e : Entry) (k' : Nat) (hne : k' ≠ k) :
    (a.insert k e).find k' = none ∨ (a.insert k e).find k' = a.find k' := by
  rw [(h.insert hL hT hB k e).find_eq hT, h.find_eq hT, h.bucketAt_insert hT hB]
  split
  · rename_i hij
    rw [hij.1, hij.2]
    obtain ⟨hinv, hlen⟩ := h.bucket_inv (Nat.mod_lt k hT) (Nat.mod_lt k hB)
    exact (insertB_spec _ (by omega) hinv k e).2.2.2.1 k' hne
  · exact Or.inr rfl

/-- exact frame: `k'` keeps its entry unless the insert of `(k, e)` goes to the same bucket, finds
it full without `k`, and the replacement index is the slot of `k'` -/
theorem AInv.find_insert_frame {L nT nB : Nat} {a : Access} (h : AInv L nT nB a) (hL : 0 < L)
    (hT : 0 < nT) (hB : 0 < nB) (k : Nat) (e : Entry) (k' : Nat) (hne : k' ≠ k)
    (hnd : k % nT = k' % nT → k % nB = k' % nB → Full (a.bucketAt (k' % nT) (k' % nB)) →
      k ∉ keys (a.bucketAt (k' % nT) (k' % nB)) →
      ∀ x, (a.bucketAt (k' % nT) (k' % nB))[(k ^^^ e.mv) % L]? ≠ some (some (k', x))) :
    (a.insert k e).find k' = a.find k' := by
  rw [(h.insert hL hT hB k e).find_eq hT, h.find_eq hT, h.bucketAt_insert hT hB]
  split
  · rename_i hij
    obtain ⟨hinv, hlen⟩ := h.bucket_inv (Nat.mod_lt k' hT) (Nat.mod_lt k' hB)
    refine insertB_frame _ (by omega) hinv k e k' hne ?_
    intro hs
    obtain ⟨hf, hk⟩ := scan_none hs
    rw [hlen]
    exact hnd hij.1.symm hij.2.symm hf hk
  · rfl

/-- the displaced key is no longer found -/
theorem AInv.find_insert_displaced {L nT nB : Nat} {a : Access} (h : AInv L nT nB a)
    (hL : 0 < L) (hT : 0 < nT) (hB : 0 < nB) (k : Nat) (e : Entry) (k' : Nat) (x : Entry)
    (h1 : k % nT = k' % nT) (h2 : k % nB = k' % nB)
    (hf : Full (a.bucketAt (k' % nT) (k' % nB)))
    (hk : k ∉ keys (a.bucketAt (k' % nT) (k' % nB)))
    (hx : (a.bucketAt (k' % nT) (k' % nB))[(k ^^^ e.mv) % L]? = some (some (k', x))) :
    (a.insert k e).find k' = none := by
  rw [(h.insert hL hT hB k e).find_eq hT, h.bucketAt_insert hT hB, if_pos ⟨h1.symm, h2.symm⟩]
  obtain ⟨hinv, hlen⟩ := h.bucket_inv (Nat.mod_lt k' hT) (Nat.mod_lt k' hB)
  exact insertB_displaced _ (by omega) hinv k e k' x (scan_none_of_full e hf hk)
    (by rw [hlen]; exact hx)

/-- inserts never touch the finds of another bucket -/
theorem AInv.find_insert_other_bucket {L nT nB : Nat} {a : Access} (h : AInv L nT nB a)
    (hL : 0 < L) (hT : 0 < nT) (hB : 0 < nB) (k : Nat) (e : Entry) (k' : Nat)
    (hne : ¬ (k' % nT = k % nT ∧ k' % nB = k % nB)) :
    (a.insert k e).find k' = a.find k' := by
  rw [(h.insert hL hT hB k e).find_eq hT, h.find_eq hT, h.bucketAt_insert hT hB, if_neg hne]

/-- a found key is stored in the bucket it routes to; conversely stored keys are found -/
theorem AInv.find_isSome_iff {L nT nB : Nat} {a : Access} (h : AInv L nT nB a) (hT : 0 < nT)
    (k : Nat) : (a.find k).isSome ↔ k ∈ keys (a.bucketAt (k % nT) (k % nB)) := by
  rw [h.find_eq hT]
  constructor
  · intro hs
    cases hf : findB (a.bucketAt (k % nT) (k % nB)) k with
    | none => simp [hf] at hs
    | some x => exact mem_keys_of_findB hf
  · intro hm
    obtain ⟨x, hx⟩ := findB_some_of_mem hm
    simp [hx]

theorem findB_replicate_none (n k : Nat) : findB (List.replicate n none) k = none :=
  findB_none_of_not_mem (by simp [keys_replicate_none])

/-- a fresh table finds nothing -/
theorem Access.new_find {nT nB : Nat} (hT : 0 < nT) (hB : 0 < nB) (k : Nat) :
    (Access.new nT nB).find k = none := by
  rw [(AInv.new nT nB).find_eq hT]
  unfold Access.bucketAt
  simp only [Access.new, Table.withBucketCount, getD_replicate _ _ _ _ (Nat.mod_lt k hT),
    getD_replicate _ _ _ _ (Nat.mod_lt k hB)]
  exact findB_replicate_none _ _

/-- a find on one sub-table is not affected by an insert into another sub-table -/
theorem Access.find_insert_of_ne_table (a : Access) (k1 k2 : Nat) (e1 : Entry)
    (hne : k1 % a.tables.length ≠ k2 % a.tables.length) :
    (a.insert k1 e1).find k2 = a.find k2 := by
  simp only [Access.insert_eq, Access.find, List.length_set]
  rw [getD_set_ne _ _ _ hne]

/-! ### counting -/

theorem AInv.entries_eq {L nT nB : Nat} {a : Access} (h : AInv L nT nB a) :
    a.entries =
      (a.tables.map fun t => (t.buckets.map fun b => b.countP (fun s => s.isSome)).sum).sum := by
  unfold Access.entries
  congr 1
  apply List.map_congr_left
  refine forall_mem_of_getD (P := fun t => t.entries =
    (t.buckets.map fun b => b.countP (fun s => s.isSome)).sum) a.tables default ?_
  intro i hi
  rw [h.len] at hi
  show (a.tables.getD i default).entries = _
  rw [Table.entries, (h.tinv i hi).used]
  congr 1
  apply List.map_congr_left
  intro b _
  exact keys_length_eq_countP b

theorem AInv.maxEntries_eq {L nT nB : Nat} {a : Access} (h : AInv L nT nB a) :
    a.maxEntries = nT * nB * Gen.bucketSize := by
  unfold Access.maxEntries
  have : a.tables.map Table.maxEntries = List.replicate nT (nB * Gen.bucketSize) := by
    rw [List.eq_replicate_iff]
    refine ⟨by simp [h.len], ?_⟩
    intro m hm
    obtain ⟨t, ht, rfl⟩ := List.mem_map.1 hm
    have := forall_mem_of_getD (P := fun t => t.maxEntries = nB * Gen.bucketSize) a.tables default
      (by
        intro i hi
        rw [h.len] at hi
        simp only [Table.maxEntries, (h.tinv i hi).len]) t ht
    exact this
  rw [this, List.sum_replicate_nat, Nat.mul_assoc]

theorem AInv.entries_le {L nT nB : Nat} {a : Access} (h : AInv L nT nB a) :
    a.entries ≤ nT * nB * L := by
  unfold Access.entries
  have := sum_map_le Table.entries (nB * L) a.tables (by
    refine forall_mem_of_getD (P := fun t => t.entries ≤ nB * L) a.tables default ?_
    intro i hi
    rw [h.len] at hi
    have ht := h.tinv i hi
    show (a.tables.getD i default).entries ≤ _
    rw [Table.entries, ht.used, ← ht.len]
    apply sum_map_le
    refine forall_mem_of_getD (P := fun b => (keys b).length ≤ L) _ [] ?_
    intro j hj
    rw [ht.len] at hj
    show (keys ((a.tables.getD i default).buckets.getD j [])).length ≤ L
    rw [← ht.blen j hj]
    exact keys_length_le _)
  rw [h.len, ← Nat.mul_assoc] at this
  exact this

/-! ### operations on different sub-tables commute -/

theorem Access.insert_comm (a : Access) (k1 k2 : Nat) (e1 e2 : Entry)
    (hne : k1 % a.tables.length ≠ k2 % a.tables.length) :
    (a.insert k1 e1).insert k2 e2 = (a.insert k2 e2).insert k1 e1 := by
  simp only [Access.insert_eq, List.length_set]
  rw [getD_set_ne _ _ _ hne, getD_set_ne _ _ _ (Ne.symm hne), List.set_comm _ _ hne]

end Wee.TT
